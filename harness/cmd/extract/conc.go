// conc.go: structural facts about the locking / channel discipline of the memory and file stores
// (Ibx.Gen.Conc).  Every fact is recognised by code shape only; an unrecognised shape yields "unknown"
// (String facts) or false (Bool facts).
package main

import (
	"go/ast"
	"go/token"
	"sort"
	"strconv"
)

func init() { extractors = append(extractors, extractConc) }

// ---------------------------------------------------------------------------------------------------
// small helpers (all prefixed cc to keep clear of the other files of this command)

func ccBool(b bool) string {
	if b {
		return "true"
	}
	return "false"
}

// ccCalls: all call expressions inside n whose callee prints as fun, in source order.
func ccCalls(n ast.Node, fun string) []*ast.CallExpr {
	var res []*ast.CallExpr
	if n == nil || isNilNode(n) {
		return res
	}
	ast.Inspect(n, func(x ast.Node) bool {
		if ce, ok := x.(*ast.CallExpr); ok && src(ce.Fun) == fun {
			res = append(res, ce)
		}
		return true
	})
	return res
}

// ccCallsSrc: all call expressions inside n that print exactly as text.
func ccCallsSrc(n ast.Node, text string) []*ast.CallExpr {
	var res []*ast.CallExpr
	if n == nil || isNilNode(n) {
		return res
	}
	ast.Inspect(n, func(x ast.Node) bool {
		if ce, ok := x.(*ast.CallExpr); ok && src(ce) == text {
			res = append(res, ce)
		}
		return true
	})
	return res
}

func ccWithin(inner, outer ast.Node) bool {
	return outer.Pos() <= inner.Pos() && inner.End() <= outer.End()
}

// ccIsExprStmt: s is the expression statement `text`.
func ccIsExprStmt(s ast.Stmt, text string) bool {
	es, ok := s.(*ast.ExprStmt)
	return ok && src(es.X) == text
}

// ccIsAssign: s is a single assignment/definition that prints exactly as text.
func ccIsAssign(s ast.Stmt, text string) bool {
	as, ok := s.(*ast.AssignStmt)
	return ok && src(as) == text
}

// ccIsBranch: s is an unlabelled break / continue.
func ccIsBranch(s ast.Stmt, tok token.Token) bool {
	bs, ok := s.(*ast.BranchStmt)
	return ok && bs.Tok == tok && bs.Label == nil
}

// ccPlainIf: s is `if <cond> { ... }` with no init statement; returns it.
func ccPlainIf(s ast.Stmt, cond string) *ast.IfStmt {
	is, ok := s.(*ast.IfStmt)
	if !ok || is.Init != nil || src(is.Cond) != cond {
		return nil
	}
	return is
}

// ccIndex: index of the first statement satisfying p, or -1.
func ccIndex(l []ast.Stmt, p func(ast.Stmt) bool) int {
	for i, s := range l {
		if p(s) {
			return i
		}
	}
	return -1
}

func ccRecvName(fd *ast.FuncDecl) string {
	if fd == nil || fd.Recv == nil || len(fd.Recv.List) != 1 || len(fd.Recv.List[0].Names) != 1 {
		return ""
	}
	return fd.Recv.List[0].Names[0].Name
}

func ccBody(fd *ast.FuncDecl) []ast.Stmt {
	if fd == nil || fd.Body == nil {
		return nil
	}
	return fd.Body.List
}

// ccImports: file imports `path` under the local name `name`.
func ccImports(f *ast.File, path, name string) bool {
	if f == nil {
		return false
	}
	for _, im := range f.Imports {
		p, err := strconv.Unquote(im.Path.Value)
		if err != nil || p != path {
			continue
		}
		if im.Name == nil {
			// default name = last path element
			base := p
			for i := len(p) - 1; i >= 0; i-- {
				if p[i] == '/' {
					base = p[i+1:]
					break
				}
			}
			return base == name
		}
		return im.Name.Name == name
	}
	return false
}

// ccRecvCase: the unique select case of fd that receives from channel expression ch.
func ccRecvCase(fd *ast.FuncDecl, ch string) *ast.CommClause {
	var res []*ast.CommClause
	if fd == nil || fd.Body == nil {
		return nil
	}
	ast.Inspect(fd.Body, func(x ast.Node) bool {
		cc, ok := x.(*ast.CommClause)
		if !ok || cc.Comm == nil {
			return true
		}
		var e ast.Expr
		switch c := cc.Comm.(type) {
		case *ast.AssignStmt:
			if len(c.Rhs) == 1 {
				e = c.Rhs[0]
			}
		case *ast.ExprStmt:
			e = c.X
		}
		if u, ok := e.(*ast.UnaryExpr); ok && u.Op == token.ARROW && src(u.X) == ch {
			res = append(res, cc)
		}
		return true
	})
	if len(res) != 1 {
		return nil
	}
	return res[0]
}

// ccCommBinds: the receive of the case binds the received value to `name` (`name, ok := <-ch` / `name := <-ch`).
func ccCommBinds(cc *ast.CommClause, name string) bool {
	as, ok := cc.Comm.(*ast.AssignStmt)
	if !ok || as.Tok != token.DEFINE || len(as.Lhs) == 0 {
		return false
	}
	id, ok := as.Lhs[0].(*ast.Ident)
	return ok && id.Name == name
}

// ---------------------------------------------------------------------------------------------------

func extractConc() {
	g := gen("Conc")
	store := parse("pkg/storage/mem/store.go")
	maxsize := parse("pkg/storage/mem/maxsize.go")
	msg := parse("pkg/storage/mem/message.go")
	fstore := parse("pkg/storage/file/fstore.go")
	lock := parse("pkg/storage/lock.go")

	g.def("memEnforcerCallSite", "String", leanStr(ccEnforcerCallSite(store)),
		"mem store.go: are s.enforcerDeliver / s.enforcerRemove called inside a closure passed to s.withMailbox (\"insideLock\") or only outside (\"outsideLock\")")

	enf := fn(maxsize, "Store", "maxSizeEnforcer")
	g.def("memEnforcerRemove", "String", leanStr(ccEnforcerRemove(enf)),
		"maxSizeEnforcer, case <-s.remove: \"goneFlag\" = `if m.el == nil { m.gone = true } else all.Remove(m.el)`; \"unguarded\" = all.Remove(m.el) with no nil test")
	g.def("memIncomingSkipsGone", "Bool", ccBool(ccIncomingSkipsGone(enf)),
		"maxSizeEnforcer, case <-s.incoming: `if m.gone { close(md.done); continue }` precedes all.PushBack")
	g.def("memEvictStopsOnEmpty", "Bool", ccBool(ccEvictStopsOnEmpty(enf)),
		"maxSizeEnforcer, `for curSize > maxSize`: `el := all.Front(); if el == nil { break }` precedes all.Remove(el)")

	add := fn(store, "Store", "AddMessage")
	capEvict, deliverLast := ccCapEvict(add)
	g.def("memCapEvict", "String", leanStr(capEvict),
		"mem AddMessage cap loop: \"collectsAndNotifies\" = evicted messages are collected under the lock, then emitDeleted + enforcerRemove after it; \"silent\" = deleted from the map only")
	g.def("memSeenAtomic", "Bool", ccBool(ccSeenAtomic(msg, store)),
		"mem Message.seen is an atomic.Bool, written by Store(true) in MarkSeen and read by Load() in Seen")
	g.def("memStoreLockReleasedBeforeBoxLock", "Bool", ccBool(ccWithMailbox(fn(store, "Store", "withMailbox"))),
		"mem withMailbox: s.Unlock() precedes the mailbox lock, mailbox unlock is deferred, f(mb) is the last statement")
	g.def("memDeliverIsLast", "Bool", ccBool(deliverLast),
		"mem AddMessage: s.enforcerDeliver(m) comes after the `range evicted` notification loop")

	visit := fn(fstore, "Store", "VisitMailboxes")
	g.def("fileVisitENOENT", "String", leanStr(ccVisitENOENT(fstore, visit)),
		"file VisitMailboxes: level-1 and level-2 readDirNames errors satisfying os.IsNotExist are skipped with continue (\"tolerated\") or returned (\"fatal\")")
	ops, all := ccFileLockedOps(fstore)
	g.def("fileOpsHoldBucketLock", "Bool", ccBool(all),
		"every exported method of file.Store except VisitMailboxes starts with mb := fs.mbox(..); mb.(R)Lock(); defer mb.(R)Unlock()")
	g.def("fileLockedOps", "List String", strList(ops),
		"exported methods of file.Store that hold the bucket lock for their whole body (sorted)")
	g.def("fileVisitReadsLocked", "Bool", ccBool(ccVisitReadsLocked(visit)),
		"file VisitMailboxes innermost loop: mb.RLock(); msgs, err := mb.getMessages(); mb.RUnlock()")
	g.def("fileBucketIsLevel1Dir", "Bool", ccBool(ccBucketIsLevel1(lock, fstore)),
		"HashLock.Get indexes by hash[0:3] and file.Store.mbox uses hash[0:3] as the level-1 directory: one lock bucket = one level-1 directory")
}

// fact 1
func ccEnforcerCallSite(store *ast.File) string {
	if store == nil {
		return "unknown"
	}
	var lits []*ast.FuncLit
	for _, wm := range ccCalls(store, "s.withMailbox") {
		for _, a := range wm.Args {
			if fl, ok := a.(*ast.FuncLit); ok {
				lits = append(lits, fl)
			}
		}
	}
	deliver := ccCalls(store, "s.enforcerDeliver")
	remove := ccCalls(store, "s.enforcerRemove")
	if len(deliver) == 0 && len(remove) == 0 {
		return "unknown"
	}
	for _, c := range append(append([]*ast.CallExpr{}, deliver...), remove...) {
		for _, fl := range lits {
			if ccWithin(c, fl) {
				return "insideLock"
			}
		}
	}
	if len(deliver) == 0 || len(remove) == 0 || len(lits) == 0 {
		return "unknown"
	}
	return "outsideLock"
}

// fact 2
func ccEnforcerRemove(enf *ast.FuncDecl) string {
	if ccRecvName(enf) != "s" {
		return "unknown"
	}
	cc := ccRecvCase(enf, "s.remove")
	if cc == nil || !ccCommBinds(cc, "md") {
		return "unknown"
	}
	// m must be the received message
	iM := ccIndex(cc.Body, func(s ast.Stmt) bool { return ccIsAssign(s, "m := md.msg") })
	if iM < 0 {
		return "unknown"
	}
	body := &ast.BlockStmt{List: cc.Body}
	removes := ccCallsSrc(body, "all.Remove(m.el)")
	if len(removes) == 0 {
		return "unknown"
	}
	for _, r := range removes {
		if !(cc.Body[iM].End() <= r.Pos()) {
			return "unknown"
		}
	}
	// every `if` of the case that tests m.el against nil
	var tests []*ast.IfStmt
	ast.Inspect(body, func(x ast.Node) bool {
		is, ok := x.(*ast.IfStmt)
		if !ok {
			return true
		}
		found := false
		ast.Inspect(is.Cond, func(y ast.Node) bool {
			if be, ok := y.(*ast.BinaryExpr); ok {
				if t := src(be); t == "m.el == nil" || t == "m.el != nil" || t == "nil == m.el" || t == "nil != m.el" {
					found = true
				}
			}
			return true
		})
		if found {
			tests = append(tests, is)
		}
		return true
	})
	if len(tests) == 0 {
		return "unguarded"
	}
	if len(tests) != 1 {
		return "unknown"
	}
	is := tests[0]
	if is.Init != nil || src(is.Cond) != "m.el == nil" || is.Else == nil {
		return "unknown"
	}
	// the test is a top-level statement of the case, after m := md.msg
	iIf := ccIndex(cc.Body, func(s ast.Stmt) bool { return s == ast.Stmt(is) })
	if iIf < iM {
		return "unknown"
	}
	if ccIndex(is.Body.List, func(s ast.Stmt) bool { return ccIsAssign(s, "m.gone = true") }) < 0 {
		return "unknown"
	}
	for _, r := range removes {
		if !ccWithin(r, is.Else) {
			return "unknown"
		}
	}
	return "goneFlag"
}

// fact 3
func ccIncomingSkipsGone(enf *ast.FuncDecl) bool {
	if ccRecvName(enf) != "s" {
		return false
	}
	cc := ccRecvCase(enf, "s.incoming")
	if cc == nil || !ccCommBinds(cc, "md") {
		return false
	}
	iM := ccIndex(cc.Body, func(s ast.Stmt) bool { return ccIsAssign(s, "m := md.msg") })
	iPush := ccIndex(cc.Body, func(s ast.Stmt) bool { return len(ccCalls(s, "all.PushBack")) > 0 })
	iIf := ccIndex(cc.Body, func(s ast.Stmt) bool { return ccPlainIf(s, "m.gone") != nil })
	if iM < 0 || iPush < 0 || iIf < 0 || !(iM < iIf && iIf < iPush) {
		return false
	}
	is := ccPlainIf(cc.Body[iIf], "m.gone")
	if is.Else != nil || len(is.Body.List) != 2 {
		return false
	}
	return ccIsExprStmt(is.Body.List[0], "close(md.done)") && ccIsBranch(is.Body.List[1], token.CONTINUE)
}

// fact 4
func ccEvictStopsOnEmpty(enf *ast.FuncDecl) bool {
	if enf == nil || enf.Body == nil {
		return false
	}
	var loops []*ast.ForStmt
	ast.Inspect(enf.Body, func(x ast.Node) bool {
		if fs, ok := x.(*ast.ForStmt); ok && fs.Cond != nil && src(fs.Cond) == "curSize > maxSize" {
			loops = append(loops, fs)
		}
		return true
	})
	if len(loops) != 1 || loops[0].Init != nil || loops[0].Post != nil {
		return false
	}
	l := loops[0].Body.List
	iFront := ccIndex(l, func(s ast.Stmt) bool { return ccIsAssign(s, "el := all.Front()") })
	if iFront < 0 || iFront+1 >= len(l) {
		return false
	}
	is := ccPlainIf(l[iFront+1], "el == nil")
	if is == nil || is.Else != nil || len(is.Body.List) != 1 || !ccIsBranch(is.Body.List[0], token.BREAK) {
		return false
	}
	// all.Remove(el): at least one, every all.Remove of the loop is after the test, el not reassigned in between
	removes := ccCalls(loops[0].Body, "all.Remove")
	if len(removes) == 0 {
		return false
	}
	for _, r := range removes {
		if src(r) != "all.Remove(el)" || !(is.End() <= r.Pos()) {
			return false
		}
	}
	iRem := ccIndex(l, func(s ast.Stmt) bool { return len(ccCallsSrc(s, "all.Remove(el)")) > 0 })
	for _, s := range l[iFront+2 : iRem] {
		bad := false
		ast.Inspect(s, func(x ast.Node) bool {
			if as, ok := x.(*ast.AssignStmt); ok {
				for _, lhs := range as.Lhs {
					if src(lhs) == "el" {
						bad = true
					}
				}
			}
			return true
		})
		if bad {
			return false
		}
	}
	return true
}

// facts 5 and 8
func ccCapEvict(add *ast.FuncDecl) (string, bool) {
	if ccRecvName(add) != "s" {
		return "unknown", false
	}
	body := ccBody(add)
	// the unique top-level s.withMailbox(..., func(mb *mbox) {...}) statement
	var lit *ast.FuncLit
	iWM := -1
	for i, s := range body {
		es, ok := s.(*ast.ExprStmt)
		if !ok {
			continue
		}
		ce, ok := es.X.(*ast.CallExpr)
		if !ok || src(ce.Fun) != "s.withMailbox" {
			continue
		}
		if iWM >= 0 {
			return "unknown", false
		}
		iWM = i
		for _, a := range ce.Args {
			if fl, ok := a.(*ast.FuncLit); ok {
				lit = fl
			}
		}
	}
	if iWM < 0 || lit == nil || len(ccCalls(add.Body, "s.withMailbox")) != 1 {
		return "unknown", false
	}

	// range evicted loop after the withMailbox call
	iRange := -1
	var rng *ast.RangeStmt
	for i, s := range body {
		rs, ok := s.(*ast.RangeStmt)
		if !ok || src(rs.X) != "evicted" {
			continue
		}
		if iRange >= 0 {
			return "unknown", false
		}
		iRange, rng = i, rs
	}
	notifies := false
	if rng != nil && iRange > iWM && rng.Tok == token.DEFINE && rng.Key != nil && rng.Value != nil &&
		src(rng.Key) == "_" && src(rng.Value) == "old" {
		emit := ccIndex(rng.Body.List, func(s ast.Stmt) bool { return ccIsExprStmt(s, "s.emitDeleted(old)") }) >= 0
		rem := ccIndex(rng.Body.List, func(s ast.Stmt) bool { return ccIsExprStmt(s, "s.enforcerRemove(old)") }) >= 0
		notifies = emit && rem
	}

	// fact 8: s.enforcerDeliver(m) is a top-level statement after the notification loop
	deliverLast := false
	iDel := ccIndex(body, func(s ast.Stmt) bool { return ccIsExprStmt(s, "s.enforcerDeliver(m)") })
	if rng != nil && iRange > iWM && iDel > iRange && len(ccCalls(add.Body, "s.enforcerDeliver")) == 1 {
		deliverLast = true
	}

	// the cap loop inside the closure
	var loops []*ast.ForStmt
	ast.Inspect(lit.Body, func(x ast.Node) bool {
		if fs, ok := x.(*ast.ForStmt); ok && fs.Cond != nil && src(fs.Cond) == "len(mb.messages) > s.cap" {
			loops = append(loops, fs)
		}
		return true
	})
	if len(loops) != 1 {
		return "unknown", deliverLast
	}
	loop := loops[0]
	var deletes []*ast.CallExpr
	for _, d := range ccCalls(loop.Body, "delete") {
		if len(d.Args) == 2 && src(d.Args[0]) == "mb.messages" {
			deletes = append(deletes, d)
		}
	}
	if len(deletes) == 0 {
		return "unknown", deliverLast
	}

	// collecting shape: if old, ok := mb.messages[key]; ok { delete(mb.messages, key); evicted = append(evicted, old) }
	collects := false
	for _, s := range loop.Body.List {
		is, ok := s.(*ast.IfStmt)
		if !ok || is.Init == nil || src(is.Init) != "old, ok := mb.messages[key]" || src(is.Cond) != "ok" {
			continue
		}
		iD := ccIndex(is.Body.List, func(s ast.Stmt) bool { return ccIsExprStmt(s, "delete(mb.messages, key)") })
		iA := ccIndex(is.Body.List, func(s ast.Stmt) bool { return ccIsAssign(s, "evicted = append(evicted, old)") })
		if iD >= 0 && iA >= 0 {
			collects = true
			// every delete of the loop must be the collected one
			for _, d := range deletes {
				if !ccWithin(d, is.Body) {
					collects = false
				}
			}
		}
	}
	if collects && notifies {
		return "collectsAndNotifies", deliverLast
	}

	// silent: nothing in the loop collects, nothing in AddMessage notifies
	mentionsEvicted := false
	ast.Inspect(add.Body, func(x ast.Node) bool {
		if id, ok := x.(*ast.Ident); ok && id.Name == "evicted" {
			mentionsEvicted = true
		}
		return true
	})
	anyNotify := len(ccCalls(add.Body, "s.emitDeleted")) > 0 || len(ccCalls(add.Body, "s.enforcerRemove")) > 0
	ast.Inspect(add.Body, func(x ast.Node) bool {
		if se, ok := x.(*ast.SelectorExpr); ok && se.Sel.Name == "Emit" {
			anyNotify = true
		}
		return true
	})
	if !mentionsEvicted && !anyNotify && rng == nil && len(ccCalls(loop.Body, "append")) == 0 {
		return "silent", deliverLast
	}
	return "unknown", deliverLast
}

// fact 6
func ccSeenAtomic(msg, store *ast.File) bool {
	if msg == nil || store == nil || !ccImports(msg, "sync/atomic", "atomic") {
		return false
	}
	// field
	fieldOK := false
	for _, d := range msg.Decls {
		gd, ok := d.(*ast.GenDecl)
		if !ok || gd.Tok != token.TYPE {
			continue
		}
		for _, sp := range gd.Specs {
			ts, ok := sp.(*ast.TypeSpec)
			if !ok || ts.Name.Name != "Message" {
				continue
			}
			st, ok := ts.Type.(*ast.StructType)
			if !ok {
				return false
			}
			for _, f := range st.Fields.List {
				for _, n := range f.Names {
					if n.Name == "seen" {
						fieldOK = src(f.Type) == "atomic.Bool"
					}
				}
			}
		}
	}
	if !fieldOK {
		return false
	}
	// MarkSeen of the mem store
	ms := fn(store, "Store", "MarkSeen")
	if ms == nil || len(ccCallsSrc(ms, "m.seen.Store(true)")) == 0 {
		return false
	}
	// Seen
	seen := fn(msg, "Message", "Seen")
	if ccRecvName(seen) != "m" || len(ccBody(seen)) != 1 {
		return false
	}
	rs, ok := seen.Body.List[0].(*ast.ReturnStmt)
	return ok && len(rs.Results) == 1 && src(rs.Results[0]) == "m.seen.Load()"
}

// ccLockChoice: s is `if writeLock { mb.<w>() } else { mb.<r>() }`.
func ccLockChoice(s ast.Stmt, w, r string) bool {
	is := ccPlainIf(s, "writeLock")
	if is == nil || len(is.Body.List) != 1 || !ccIsExprStmt(is.Body.List[0], "mb."+w+"()") {
		return false
	}
	eb, ok := is.Else.(*ast.BlockStmt)
	return ok && len(eb.List) == 1 && ccIsExprStmt(eb.List[0], "mb."+r+"()")
}

// fact 7
func ccWithMailbox(wm *ast.FuncDecl) bool {
	if ccRecvName(wm) != "s" {
		return false
	}
	body := ccBody(wm)
	if len(body) == 0 {
		return false
	}
	iUnlock := ccIndex(body, func(s ast.Stmt) bool { return ccIsExprStmt(s, "s.Unlock()") })
	iLock := ccIndex(body, func(s ast.Stmt) bool { return ccLockChoice(s, "Lock", "RLock") })
	if iUnlock < 0 || iLock < 0 || !(iUnlock < iLock) {
		return false
	}
	// the store lock is not touched again after its release
	for _, s := range body[iUnlock+1:] {
		for _, c := range []string{"s.Lock", "s.Unlock", "s.RLock", "s.RUnlock"} {
			if len(ccCalls(s, c)) > 0 {
				return false
			}
		}
	}
	// no store unlock is deferred
	if len(ccCalls(wm.Body, "s.Unlock")) != 1 {
		return false
	}
	// deferred mailbox unlock, after the lock
	iDefer := -1
	for i, s := range body {
		ds, ok := s.(*ast.DeferStmt)
		if !ok {
			continue
		}
		fl, ok := ds.Call.Fun.(*ast.FuncLit)
		if ok && len(ds.Call.Args) == 0 && len(fl.Body.List) == 1 && ccLockChoice(fl.Body.List[0], "Unlock", "RUnlock") {
			iDefer = i
		}
	}
	if iDefer < iLock {
		return false
	}
	// mailbox unlocks appear only in that defer
	for i, s := range body {
		if i == iDefer {
			continue
		}
		if len(ccCalls(s, "mb.Unlock")) > 0 || len(ccCalls(s, "mb.RUnlock")) > 0 {
			return false
		}
	}
	last := len(body) - 1
	return last > iDefer && ccIsExprStmt(body[last], "f(mb)")
}

// ccErrBranch classifies the `if err != nil {...}` statement following a readDirNames call.
func ccErrBranch(s ast.Stmt) string {
	is := ccPlainIf(s, "err != nil")
	if is == nil || is.Else != nil {
		return "unknown"
	}
	isRetErr := func(s ast.Stmt) bool {
		rs, ok := s.(*ast.ReturnStmt)
		return ok && len(rs.Results) == 1 && src(rs.Results[0]) == "err"
	}
	l := is.Body.List
	switch {
	case len(l) == 1 && isRetErr(l[0]):
		return "fatal"
	case len(l) == 2 && isRetErr(l[1]):
		in := ccPlainIf(l[0], "os.IsNotExist(err)")
		if in != nil && in.Else == nil && len(in.Body.List) == 1 && ccIsBranch(in.Body.List[0], token.CONTINUE) {
			return "tolerated"
		}
	}
	return "unknown"
}

// fact 9
func ccVisitENOENT(fstore *ast.File, visit *ast.FuncDecl) string {
	if visit == nil || visit.Body == nil || !ccImports(fstore, "os", "os") {
		return "unknown"
	}
	if len(ccCalls(visit.Body, "readDirNames")) != 3 {
		return "unknown"
	}
	// listing at nesting depth d of the range loops -> class of its error branch
	class := map[int]string{}
	count := 0
	var walk func(l []ast.Stmt, depth int)
	walk = func(l []ast.Stmt, depth int) {
		for i, s := range l {
			if as, ok := s.(*ast.AssignStmt); ok && as.Tok == token.DEFINE && len(as.Lhs) == 2 && len(as.Rhs) == 1 &&
				src(as.Lhs[1]) == "err" && len(ccCalls(as.Rhs[0], "readDirNames")) == 1 {
				if ce, ok := as.Rhs[0].(*ast.CallExpr); ok && src(ce.Fun) == "readDirNames" {
					count++
					c := "unknown"
					if i+1 < len(l) {
						c = ccErrBranch(l[i+1])
					}
					if _, dup := class[depth]; dup {
						c = "unknown"
					}
					class[depth] = c
				}
			}
			if rs, ok := s.(*ast.RangeStmt); ok {
				walk(rs.Body.List, depth+1)
			}
		}
	}
	walk(visit.Body.List, 0)
	if count != 3 || len(class) != 3 {
		return "unknown"
	}
	c1, ok1 := class[1]
	c2, ok2 := class[2]
	if !ok1 || !ok2 || c1 != c2 {
		return "unknown"
	}
	return c1
}

// fact 10
func ccFileLockedOps(fstore *ast.File) ([]string, bool) {
	ops := []string{}
	if fstore == nil {
		return ops, false
	}
	total := 0
	for _, d := range fstore.Decls {
		fd, ok := d.(*ast.FuncDecl)
		if !ok || fd.Recv == nil || len(fd.Recv.List) != 1 || !fd.Name.IsExported() || fd.Name.Name == "VisitMailboxes" {
			continue
		}
		t := fd.Recv.List[0].Type
		if s, ok := t.(*ast.StarExpr); ok {
			t = s.X
		}
		if id, ok := t.(*ast.Ident); !ok || id.Name != "Store" {
			continue
		}
		total++
		if ccHoldsBucketLock(fd) {
			ops = append(ops, fd.Name.Name)
		}
	}
	sort.Strings(ops)
	return ops, total > 0 && len(ops) == total
}

func ccHoldsBucketLock(fd *ast.FuncDecl) bool {
	recv := ccRecvName(fd)
	body := ccBody(fd)
	if recv == "" || len(body) < 3 {
		return false
	}
	if _, ok := fd.Recv.List[0].Type.(*ast.StarExpr); !ok {
		return false
	}
	as, ok := body[0].(*ast.AssignStmt)
	if !ok || as.Tok != token.DEFINE || len(as.Lhs) != 1 || len(as.Rhs) != 1 || src(as.Lhs[0]) != "mb" {
		return false
	}
	ce, ok := as.Rhs[0].(*ast.CallExpr)
	if !ok || src(ce.Fun) != recv+".mbox" || len(ce.Args) != 1 {
		return false
	}
	var unlock string
	switch {
	case ccIsExprStmt(body[1], "mb.Lock()"):
		unlock = "mb.Unlock()"
	case ccIsExprStmt(body[1], "mb.RLock()"):
		unlock = "mb.RUnlock()"
	default:
		return false
	}
	ds, ok := body[2].(*ast.DeferStmt)
	if !ok || src(ds.Call) != unlock {
		return false
	}
	// the lock is not released, retaken or rebound anywhere else in the body
	for _, s := range body[3:] {
		for _, c := range []string{"mb.Lock", "mb.Unlock", "mb.RLock", "mb.RUnlock"} {
			if len(ccCalls(s, c)) > 0 {
				return false
			}
		}
		rebound := false
		ast.Inspect(s, func(x ast.Node) bool {
			if a, ok := x.(*ast.AssignStmt); ok {
				for _, lhs := range a.Lhs {
					if src(lhs) == "mb" {
						rebound = true
					}
				}
			}
			return true
		})
		if rebound {
			return false
		}
	}
	return true
}

// fact 11
func ccVisitReadsLocked(visit *ast.FuncDecl) bool {
	recv := ccRecvName(visit)
	if recv == "" || visit.Body == nil {
		return false
	}
	// innermost loops: loops containing no other loop
	var inner []*ast.RangeStmt
	bad := false
	ast.Inspect(visit.Body, func(x ast.Node) bool {
		var b *ast.BlockStmt
		switch l := x.(type) {
		case *ast.RangeStmt:
			b = l.Body
		case *ast.ForStmt:
			b = l.Body
		default:
			return true
		}
		nested := false
		ast.Inspect(b, func(y ast.Node) bool {
			switch y.(type) {
			case *ast.RangeStmt, *ast.ForStmt:
				nested = true
			}
			return true
		})
		if !nested {
			if rs, ok := x.(*ast.RangeStmt); ok {
				inner = append(inner, rs)
			} else {
				bad = true
			}
		}
		return true
	})
	if bad || len(inner) != 1 {
		return false
	}
	l := inner[0].Body.List
	iMb := ccIndex(l, func(s ast.Stmt) bool {
		as, ok := s.(*ast.AssignStmt)
		if !ok || as.Tok != token.DEFINE || len(as.Lhs) != 1 || len(as.Rhs) != 1 || src(as.Lhs[0]) != "mb" {
			return false
		}
		ce, ok := as.Rhs[0].(*ast.CallExpr)
		return ok && len(ce.Args) == 1 && (src(ce.Fun) == recv+".mboxFromHash" || src(ce.Fun) == recv+".mbox")
	})
	iLock := ccIndex(l, func(s ast.Stmt) bool { return ccIsExprStmt(s, "mb.RLock()") })
	if iMb < 0 || iLock < iMb || iLock+2 >= len(l) {
		return false
	}
	if !ccIsAssign(l[iLock+1], "msgs, err := mb.getMessages()") || !ccIsExprStmt(l[iLock+2], "mb.RUnlock()") {
		return false
	}
	// getMessages is called nowhere else in the function
	return len(ccCalls(visit.Body, "mb.getMessages")) == 1
}

// fact 12
func ccBucketIsLevel1(lock, fstore *ast.File) bool {
	get := fn(lock, "HashLock", "Get")
	if get == nil || get.Body == nil || !ccImports(lock, "strconv", "strconv") {
		return false
	}
	if get.Type.Params == nil || len(get.Type.Params.List) != 1 || len(get.Type.Params.List[0].Names) != 1 ||
		get.Type.Params.List[0].Names[0].Name != "hash" {
		return false
	}
	parses := ccCalls(get.Body, "strconv.ParseInt")
	if len(parses) != 1 || src(parses[0]) != "strconv.ParseInt(hash[0:3], 16, 0)" {
		return false
	}
	h := ccRecvName(get)
	if ccIndex(get.Body.List, func(s ast.Stmt) bool { return ccIsAssign(s, "i, err := strconv.ParseInt(hash[0:3], 16, 0)") }) < 0 {
		return false
	}
	retOK := false
	for _, s := range get.Body.List {
		if rs, ok := s.(*ast.ReturnStmt); ok && len(rs.Results) == 1 && src(rs.Results[0]) == "&"+h+"[i]" {
			retOK = true
		}
	}
	if !retOK {
		return false
	}

	mbox := fn(fstore, "Store", "mbox")
	recv := ccRecvName(mbox)
	if recv == "" || mbox.Body == nil || !ccImports(fstore, "path/filepath", "filepath") {
		return false
	}
	l := mbox.Body.List
	if ccIndex(l, func(s ast.Stmt) bool { return ccIsAssign(s, "s1 := hash[0:3]") }) < 0 {
		return false
	}
	// s1 and hash are bound exactly once
	binds := map[string]int{}
	ast.Inspect(mbox.Body, func(x ast.Node) bool {
		if as, ok := x.(*ast.AssignStmt); ok {
			for _, lhs := range as.Lhs {
				binds[src(lhs)]++
			}
		}
		return true
	})
	if binds["s1"] != 1 || binds["hash"] != 1 {
		return false
	}
	joins := ccCallsSrc(mbox.Body, "filepath.Join("+recv+".mailPath, s1, s2, hash)")
	if len(joins) != 1 {
		return false
	}
	if ccIndex(l, func(s ast.Stmt) bool { return ccIsAssign(s, "path := filepath.Join("+recv+".mailPath, s1, s2, hash)") }) < 0 {
		return false
	}
	// the lock of the mailbox is the bucket of the same hash
	return len(ccCallsSrc(mbox.Body, recv+".hashLock.Get(hash)")) == 1
}
