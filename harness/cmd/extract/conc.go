// conc.go: structural facts about the locking / channel discipline of the memory and file stores
// (Ibx.Gen.Conc).  Every fact is recognised by code structure only (calls of exported / library names, operators,
// literals, variable identity, path conditions, order in the inlined view of unexported helpers) and never by
// the spelling of locals, unexported names, comments or messages; an unrecognised shape yields "unknown"
// (String facts) or false (Bool facts), which no tie accepts.
package main

import (
	"fmt"
	"go/ast"
	"go/token"
	"os"
	"path/filepath"
	"sort"
	"strconv"
	"strings"
)

func init() { extractors = append(extractors, extractConc) }

// ---------------------------------------------------------------------------------------------------
// small helpers (all prefixed cc to keep clear of the other files of this command)

func ccBool(b bool) string {
	if b {
		return "true"
	}
	return "false"
}

// ccCalls: all call expressions inside n whose callee prints as fun, in source order.
func ccCalls(n ast.Node, fun string) []*ast.CallExpr {
	var res []*ast.CallExpr
	if n == nil || isNilNode(n) {
		return res
	}
	ast.Inspect(n, func(x ast.Node) bool {
		if ce, ok := x.(*ast.CallExpr); ok && src(ce.Fun) == fun {
			res = append(res, ce)
		}
		return true
	})
	return res
}

// ccCallsSrc: all call expressions inside n that print exactly as text.
func ccCallsSrc(n ast.Node, text string) []*ast.CallExpr {
	var res []*ast.CallExpr
	if n == nil || isNilNode(n) {
		return res
	}
	ast.Inspect(n, func(x ast.Node) bool {
		if ce, ok := x.(*ast.CallExpr); ok && src(ce) == text {
			res = append(res, ce)
		}
		return true
	})
	return res
}

func ccWithin(inner, outer ast.Node) bool {
	return outer.Pos() <= inner.Pos() && inner.End() <= outer.End()
}

// ccIsExprStmt: s is the expression statement `text`.
func ccIsExprStmt(s ast.Stmt, text string) bool {
	es, ok := s.(*ast.ExprStmt)
	return ok && src(es.X) == text
}

// ccIsAssign: s is a single assignment/definition that prints exactly as text.
func ccIsAssign(s ast.Stmt, text string) bool {
	as, ok := s.(*ast.AssignStmt)
	return ok && src(as) == text
}

// ccIsBranch: s is an unlabelled break / continue.
func ccIsBranch(s ast.Stmt, tok token.Token) bool {
	bs, ok := s.(*ast.BranchStmt)
	return ok && bs.Tok == tok && bs.Label == nil
}

// ccPlainIf: s is `if <cond> { ... }` with no init statement; returns it.
func ccPlainIf(s ast.Stmt, cond string) *ast.IfStmt {
	is, ok := s.(*ast.IfStmt)
	if !ok || is.Init != nil || src(is.Cond) != cond {
		return nil
	}
	return is
}

// ccIndex: index of the first statement satisfying p, or -1.
func ccIndex(l []ast.Stmt, p func(ast.Stmt) bool) int {
	for i, s := range l {
		if p(s) {
			return i
		}
	}
	return -1
}

func ccRecvName(fd *ast.FuncDecl) string {
	if fd == nil || fd.Recv == nil || len(fd.Recv.List) != 1 || len(fd.Recv.List[0].Names) != 1 {
		return ""
	}
	return fd.Recv.List[0].Names[0].Name
}

func ccBody(fd *ast.FuncDecl) []ast.Stmt {
	if fd == nil || fd.Body == nil {
		return nil
	}
	return fd.Body.List
}

// ccImports: file imports `path` under the local name `name`.
func ccImports(f *ast.File, path, name string) bool {
	if f == nil {
		return false
	}
	for _, im := range f.Imports {
		p, err := strconv.Unquote(im.Path.Value)
		if err != nil || p != path {
			continue
		}
		if im.Name == nil {
			// default name = last path element
			base := p
			for i := len(p) - 1; i >= 0; i-- {
				if p[i] == '/' {
					base = p[i+1:]
					break
				}
			}
			return base == name
		}
		return im.Name.Name == name
	}
	return false
}

// ccRecvCase: the unique select case of fd that receives from channel expression ch.
func ccRecvCase(fd *ast.FuncDecl, ch string) *ast.CommClause {
	var res []*ast.CommClause
	if fd == nil || fd.Body == nil {
		return nil
	}
	ast.Inspect(fd.Body, func(x ast.Node) bool {
		cc, ok := x.(*ast.CommClause)
		if !ok || cc.Comm == nil {
			return true
		}
		var e ast.Expr
		switch c := cc.Comm.(type) {
		case *ast.AssignStmt:
			if len(c.Rhs) == 1 {
				e = c.Rhs[0]
			}
		case *ast.ExprStmt:
			e = c.X
		}
		if u, ok := e.(*ast.UnaryExpr); ok && u.Op == token.ARROW && src(u.X) == ch {
			res = append(res, cc)
		}
		return true
	})
	if len(res) != 1 {
		return nil
	}
	return res[0]
}

// ccCommBinds: the receive of the case binds the received value to `name` (`name, ok := <-ch` / `name := <-ch`).
func ccCommBinds(cc *ast.CommClause, name string) bool {
	as, ok := cc.Comm.(*ast.AssignStmt)
	if !ok || as.Tok != token.DEFINE || len(as.Lhs) == 0 {
		return false
	}
	id, ok := as.Lhs[0].(*ast.Ident)
	return ok && id.Name == name
}

// ---------------------------------------------------------------------------------------------------

func extractConc() {
	g := gen("Conc")
	mem := ccNewMem(ccLoadPkg("pkg/storage/mem"))
	file := ccLoadPkg("pkg/storage/file")
	lock := parse("pkg/storage/lock.go")

	g.def("memEnforcerCallSite", "String", leanStr(mem.callSite()),
		"mem store: \"insideLock\" = some send on one of the two channels the size-enforcer goroutine selects on is reached (through unexported helpers) from inside a closure passed to the lock wrapper (the method that calls its func parameter on the mailbox it has just locked); \"outsideLock\" = none is, and AddMessage reaches the registering send, RemoveMessage the un-registering send and PurgeMessages the un-registering send in a loop, all outside such closures")

	variant, elField, goneField := mem.enforcerRemove()
	g.def("memEnforcerRemove", "String", leanStr(variant),
		"size enforcer, the select case that does not PushBack: \"goneFlag\" = every <list>.Remove(<msg>.<el>) of the received message is only reached when <msg>.<el> is known non-nil, where it is nil a bool field of the message is set to true, and the request's channel is closed unconditionally at the end; \"unguarded\" = Remove(<msg>.<el>) with no nil test of that field at all")
	g.def("memIncomingSkipsGone", "Bool", ccBool(mem.incomingSkipsGone(elField, goneField)),
		"size enforcer, the select case that calls PushBack: PushBack(<msg>) is only reached when the flag field set by the other case is false; when it is true the request's channel is closed and the loop continues; the element returned by PushBack is stored in the field the other case passes to Remove; the request's channel is closed after the registration")
	g.def("memEvictStopsOnEmpty", "Bool", ccBool(mem.evictStopsOnEmpty()),
		"size enforcer, registering case: every <list>.Remove(e) has e := <list>.Front() and sits in a loop whose condition is <running total> > <parameter of the goroutine>, reached only when e is known non-nil, the nil side leaving that loop with break")

	capEvict, deliverLast := mem.capEvict()
	g.def("memCapEvict", "String", leanStr(capEvict),
		"mem AddMessage, inside the closure passed to the lock wrapper (unexported helpers walked as if inlined): one delete(<box>.<map>, key) in a loop whose condition has the conjunct len(<box>.<map>) > <recv>.<cap> (cap = the field initialised from MailboxMsgCap) with <recv>.<cap> > 0 known, key = strconv.Itoa(<box>.<first>) and <box>.<first>++ once per iteration; \"collectsAndNotifies\" = the deleted value is appended (under the same conditions as the delete) to a slice declared outside the closure (directly, or in a helper the closure calls that returns the slice on every path and whose result the closure assigns to such a slice), and after the wrapper call a range over that slice reaches AfterMessageDeleted.Emit of the element and the un-registering send carrying the element; \"silent\" = nothing is collected and AddMessage reaches neither an Emit nor an un-registering send")
	g.def("memSeenAtomic", "Bool", ccBool(mem.seenAtomic()),
		"mem Message has exactly one field of type atomic.Bool (sync/atomic); Message.Seen is `return <recv>.<that field>.Load()` and Store.MarkSeen reaches exactly one <x>.<that field>.Store(true)")
	g.def("memStoreLockReleasedBeforeBoxLock", "Bool", ccBool(mem.withMailboxShape()),
		"mem lock wrapper: exactly one unconditional <recv>.Lock() ... <recv>.Unlock() pair (no RLock, none deferred) with every access to a map of the store and every binding of the mailbox in between; then the mailbox's Lock() where the bool parameter is true / RLock() where it is false; the matching Unlock / RUnlock deferred under the same test; then the unconditional call of the func parameter on that mailbox")
	g.def("memDeliverIsLast", "Bool", ccBool(deliverLast),
		"mem AddMessage: exactly one registering send is reached, outside the closure, carrying the message that the closure stored into the map, after the range over the evicted messages")
	g.def("memLockModes", "List String", strList(mem.lockModes()),
		"mem: for every exported method of the store the literal bool arguments of the lock-wrapper calls it reaches (itself or through unexported helpers), in order: W = true (write lock), R = false (read lock), ? = not a literal")

	visit := file.method("Store", "VisitMailboxes")
	g.def("fileVisitENOENT", "String", leanStr(ccVisitENOENT(file, visit)),
		"file VisitMailboxes: three directory listings (calls of a helper that calls Readdirnames) at range-nesting depth 0, 1, 2; depth 0 returns the error; at depth 1 and 2 a failed listing (err != nil) `continue`s where os.IsNotExist(err) / errors.Is(err, ErrNotExist) is known true and returns err where it is known false (\"tolerated\"), or returns err without such a test (\"fatal\")")
	ops, modes, all := ccFileLockedOps(file)
	g.def("fileOpsHoldBucketLock", "Bool", ccBool(all),
		"every exported method of file.Store except VisitMailboxes: builds the mailbox by a store method, takes its Lock / RLock unconditionally before anything else mentions the mailbox or the store, registers the matching deferred Unlock / RUnlock immediately, and never locks, unlocks or rebinds it again")
	g.def("fileLockedOps", "List String", strList(ops),
		"exported methods of file.Store that hold the bucket lock for their whole body in that sense (sorted)")
	g.def("fileLockModes", "List String", strList(modes),
		"the same methods with the lock they hold: W = Lock, R = RLock")
	g.def("fileVisitReadsLocked", "Bool", ccBool(ccVisitReadsLocked(file, visit)),
		"file VisitMailboxes, innermost loop: the mailbox built by a store method is (R)Lock()ed and (R)Unlock()ed in the same block, not deferred; every method call on the mailbox lies between the two; the callback parameter is called outside them")
	g.def("fileBucketIsLevel1Dir", "Bool", ccBool(ccBucketIsLevel1(lock, file)),
		"HashLock is an array of 4096 locks and Get(h) returns &<recv>[i] with i from strconv.ParseInt(h[0:3], 16, ..); every file-store function that asks the HashLock field for Get(h) builds the mailbox path as filepath.Join(<recv>.<root>, h[0:3], .., h) from the same never-reassigned h and returns it inside the mailbox: one lock bucket = one level-1 directory")
}

// ---------------------------------------------------------------------------------------------------
// STRUCTURAL MACHINERY.  Nothing below looks at the spelling of a local variable, parameter, receiver,
// unexported function / method / type / field, comment or message.  Things are identified by
//   * exported / standard-library names (PushBack, Front, Remove, Lock, RLock, Unlock, RUnlock, Emit,
//     AfterMessageDeleted, MailboxMsgCap, atomic.Bool, Store, Load, os.IsNotExist, filepath.Join,
//     strconv.ParseInt, strconv.Itoa, Readdirnames, AddMessage, RemoveMessage, ...), builtins, operators, literals,
//   * identity of variables (ast.Ident.Obj) followed through `x := y.f` aliases and through the parameters of
//     same-package unexported helpers, which are walked as if inlined (3 levels),
//   * path conditions: the tests that are known true / false where a statement executes, whether they come from
//     if / else, switch cases, guard clauses (`if c { return/continue/break }` earlier in a block) or a loop condition.

// ccPkg: all non-test files of one package directory.
type ccPkg struct {
	files   []*ast.File
	funcs   map[string][]*ast.FuncDecl // plain functions by name
	methods map[string][]*ast.FuncDecl // methods by name
	imports map[string]string          // local import name -> path
	all     []*ast.FuncDecl
}

func ccLoadPkg(dir string) *ccPkg {
	p := &ccPkg{funcs: map[string][]*ast.FuncDecl{}, methods: map[string][]*ast.FuncDecl{}, imports: map[string]string{}}
	ents, err := os.ReadDir(filepath.Join(repo, dir))
	if err != nil {
		return p
	}
	var names []string
	for _, e := range ents {
		n := e.Name()
		if e.IsDir() || !strings.HasSuffix(n, ".go") || strings.HasSuffix(n, "_test.go") {
			continue
		}
		names = append(names, n)
	}
	sort.Strings(names)
	for _, n := range names {
		f := parse(filepath.Join(dir, n))
		if f == nil {
			continue
		}
		p.files = append(p.files, f)
		for _, im := range f.Imports {
			path, err := strconv.Unquote(im.Path.Value)
			if err != nil {
				continue
			}
			name := path[strings.LastIndex(path, "/")+1:]
			if im.Name != nil {
				name = im.Name.Name
			}
			p.imports[name] = path
		}
		for _, d := range f.Decls {
			fd, ok := d.(*ast.FuncDecl)
			if !ok {
				continue
			}
			p.all = append(p.all, fd)
			if fd.Recv == nil {
				p.funcs[fd.Name.Name] = append(p.funcs[fd.Name.Name], fd)
			} else {
				p.methods[fd.Name.Name] = append(p.methods[fd.Name.Name], fd)
			}
		}
	}
	return p
}

func ccRecvType(fd *ast.FuncDecl) string {
	if fd == nil || fd.Recv == nil || len(fd.Recv.List) != 1 {
		return ""
	}
	t := fd.Recv.List[0].Type
	if s, ok := t.(*ast.StarExpr); ok {
		t = s.X
	}
	if id, ok := t.(*ast.Ident); ok {
		return id.Name
	}
	return ""
}

func ccRecvObj(fd *ast.FuncDecl) *ast.Object {
	if fd == nil || fd.Recv == nil || len(fd.Recv.List) != 1 || len(fd.Recv.List[0].Names) != 1 {
		return nil
	}
	return fd.Recv.List[0].Names[0].Obj
}

// method: the method `name` of type `typ` (exported names only are looked up this way).
func (p *ccPkg) method(typ, name string) *ast.FuncDecl {
	var res *ast.FuncDecl
	for _, fd := range p.methods[name] {
		if ccRecvType(fd) == typ && fd.Body != nil {
			if res != nil {
				return nil
			}
			res = fd
		}
	}
	return res
}

func ccStrip(e ast.Expr) ast.Expr {
	for {
		pe, ok := e.(*ast.ParenExpr)
		if !ok {
			return e
		}
		e = pe.X
	}
}

// ccUniverse: e is the predeclared identifier `name` (not shadowed).
func ccUniverse(e ast.Expr, name string) bool {
	id, ok := ccStrip(e).(*ast.Ident)
	return ok && id.Name == name && id.Obj == nil
}

func ccIsVar(e ast.Expr, o *ast.Object) bool {
	id, ok := ccStrip(e).(*ast.Ident)
	return ok && o != nil && id.Obj == o
}

func ccObjOf(e ast.Expr) *ast.Object {
	if id, ok := ccStrip(e).(*ast.Ident); ok {
		return id.Obj
	}
	return nil
}

// ccMethodCall: ce is `<x>.<name>(...)`; returns x.
func ccMethodCall(ce *ast.CallExpr, name string) (ast.Expr, bool) {
	se, ok := ccStrip(ce.Fun).(*ast.SelectorExpr)
	if !ok || se.Sel.Name != name {
		return nil, false
	}
	return se.X, true
}

// pkgCall: ce is `<pkg>.<name>(...)` where <pkg> is the local name of import path `path`.
func (p *ccPkg) pkgCall(ce *ast.CallExpr, path, name string) bool {
	x, ok := ccMethodCall(ce, name)
	if !ok {
		return false
	}
	id, ok := x.(*ast.Ident)
	return ok && id.Obj == nil && p.imports[id.Name] == path
}

// callee: the same-package function or method a call refers to (nil when not determinable).
func (p *ccPkg) callee(ce *ast.CallExpr, cur *ast.FuncDecl) *ast.FuncDecl {
	switch f := ccStrip(ce.Fun).(type) {
	case *ast.Ident:
		if f.Obj != nil && f.Obj.Kind != ast.Fun {
			return nil
		}
		if l := p.funcs[f.Name]; len(l) == 1 {
			return l[0]
		}
	case *ast.SelectorExpr:
		if id, ok := f.X.(*ast.Ident); ok && id.Obj == nil {
			if _, imp := p.imports[id.Name]; imp {
				return nil
			}
		}
		l := p.methods[f.Sel.Name]
		if len(l) == 1 {
			return l[0]
		}
		if len(l) > 1 && cur != nil && ccIsVar(f.X, ccRecvObj(cur)) {
			var res *ast.FuncDecl
			for _, fd := range l {
				if ccRecvType(fd) == ccRecvType(cur) {
					if res != nil {
						return nil
					}
					res = fd
				}
			}
			return res
		}
	}
	return nil
}

// ccCond: one test known to have value `val` at a program point.
type ccCond struct {
	e           ast.Expr
	val         bool
	loop        *ast.ForStmt // non-nil: e is (a conjunct of) the condition of this loop
	other       string       // how the complementary side ends: break / continue / return / panic / fall / "" (unknown)
	otherBody   []ast.Stmt   // the statements of the complementary side
	otherTarget ast.Node     // innermost for / range / switch / select around the test (what a break there leaves)
}

// ccCtx: where a node sits in the inlined view of a function.
type ccCtx struct {
	parent   *ccCtx
	fn       *ast.FuncDecl
	bind     map[*ast.Object]ast.Expr // parameter / receiver of fn -> argument expression (to be read in parent)
	key      []token.Pos              // positions of the calls through which fn was entered
	conds    []ccCond
	encl     []ast.Node // enclosing compound statements and function literals (inlined view)
	lits     []*ast.FuncLit
	deferred bool
	inGo     bool
	brk      ast.Node
	loopT    ast.Node // innermost loop (target of continue)
	depth    int
}

type ccSite struct {
	n   ast.Node
	c   *ccCtx
	key []token.Pos
}

func ccKeyLess(a, b []token.Pos) bool {
	for i := 0; i < len(a) && i < len(b); i++ {
		if a[i] != b[i] {
			return a[i] < b[i]
		}
	}
	return len(a) < len(b)
}

func (c *ccCtx) hasEncl(n ast.Node) bool {
	for _, e := range c.encl {
		if e == n {
			return true
		}
	}
	return false
}

func (c *ccCtx) inLit(fl *ast.FuncLit) bool {
	for _, l := range c.lits {
		if l == fl {
			return true
		}
	}
	return false
}

func (c *ccCtx) loops() int {
	n := 0
	for _, e := range c.encl {
		switch e.(type) {
		case *ast.ForStmt, *ast.RangeStmt:
			n++
		}
	}
	return n
}

// ccTerm: how a statement list ends.
func ccTerm(l []ast.Stmt) string {
	if len(l) == 0 {
		return "fall"
	}
	switch s := l[len(l)-1].(type) {
	case *ast.ReturnStmt:
		return "return"
	case *ast.BranchStmt:
		if s.Label != nil {
			return "labelled"
		}
		switch s.Tok {
		case token.BREAK:
			return "break"
		case token.CONTINUE:
			return "continue"
		}
		return "goto"
	case *ast.ExprStmt:
		if ce, ok := s.X.(*ast.CallExpr); ok && ccUniverse(ce.Fun, "panic") {
			return "panic"
		}
	case *ast.BlockStmt:
		return ccTerm(s.List)
	case *ast.IfStmt:
		if s.Else == nil {
			return "fall"
		}
		a, b := ccTerm(s.Body.List), ccTerm(ccElseList(s.Else))
		if a == "fall" || b == "fall" {
			return "fall"
		}
		if a == b {
			return a
		}
		return "mixed"
	}
	return "fall"
}

func ccElseList(s ast.Stmt) []ast.Stmt {
	switch e := s.(type) {
	case nil:
		return nil
	case *ast.BlockStmt:
		return e.List
	}
	return []ast.Stmt{s}
}

// ccSplit: the atomic tests implied by `e == val` (conjunctions when true, disjunctions when false, negations).
func ccSplit(e ast.Expr, val bool, proto ccCond) []ccCond {
	e = ccStrip(e)
	switch x := e.(type) {
	case *ast.UnaryExpr:
		if x.Op == token.NOT {
			return ccSplit(x.X, !val, proto)
		}
	case *ast.BinaryExpr:
		if (x.Op == token.LAND && val) || (x.Op == token.LOR && !val) {
			return append(ccSplit(x.X, val, proto), ccSplit(x.Y, val, proto)...)
		}
	}
	proto.e, proto.val = e, val
	return []ccCond{proto}
}

func ccAddConds(old []ccCond, add []ccCond) []ccCond {
	res := make([]ccCond, 0, len(old)+len(add))
	res = append(res, old...)
	return append(res, add...)
}

type ccWalker struct {
	p        *ccPkg
	maxDepth int
	exported bool // also walk into exported same-package functions (reachability questions)
	sites    []ccSite
	active   map[*ast.FuncDecl]bool
}

func (c ccCtx) enter(n ast.Node) ccCtx {
	e := make([]ast.Node, 0, len(c.encl)+1)
	e = append(e, c.encl...)
	c.encl = append(e, n)
	return c
}

func (w *ccWalker) block(l []ast.Stmt, c ccCtx) {
	for _, s := range l {
		w.stmt(s, c)
		if is, ok := s.(*ast.IfStmt); ok {
			thenT, elseT := ccTerm(is.Body.List), ccTerm(ccElseList(is.Else))
			switch {
			case thenT != "fall" && elseT == "fall":
				c.conds = ccAddConds(c.conds, ccSplit(is.Cond, false, ccCond{other: thenT, otherBody: is.Body.List, otherTarget: c.brk}))
			case thenT == "fall" && elseT != "fall" && is.Else != nil:
				c.conds = ccAddConds(c.conds, ccSplit(is.Cond, true, ccCond{other: elseT, otherBody: ccElseList(is.Else), otherTarget: c.brk}))
			}
		}
	}
}

func (w *ccWalker) stmt(s ast.Stmt, c ccCtx) {
	switch s := s.(type) {
	case nil:
	case *ast.BlockStmt:
		w.block(s.List, c)
	case *ast.LabeledStmt:
		w.stmt(s.Stmt, c)
	case *ast.IfStmt:
		w.compound(s, c)
		if s.Init != nil {
			w.leaf(s.Init, c)
		}
		w.leaf(s.Cond, c)
		thenT, elseT := ccTerm(s.Body.List), ccTerm(ccElseList(s.Else))
		ct := c.enter(s)
		ct.conds = ccAddConds(c.conds, ccSplit(s.Cond, true, ccCond{other: elseT, otherBody: ccElseList(s.Else), otherTarget: c.brk}))
		w.block(s.Body.List, ct)
		if s.Else != nil {
			ce := c.enter(s)
			ce.conds = ccAddConds(c.conds, ccSplit(s.Cond, false, ccCond{other: thenT, otherBody: s.Body.List, otherTarget: c.brk}))
			w.stmt(s.Else, ce)
		}
	case *ast.SwitchStmt:
		w.compound(s, c)
		if s.Init != nil {
			w.leaf(s.Init, c)
		}
		if s.Tag != nil {
			w.leaf(s.Tag, c)
		}
		caseExpr := func(e ast.Expr) ast.Expr {
			if s.Tag == nil {
				return e
			}
			return &ast.BinaryExpr{X: s.Tag, OpPos: e.Pos(), Op: token.EQL, Y: e}
		}
		var prev []ccCond
		var def *ast.CaseClause
		for _, cs := range s.Body.List {
			cl, ok := cs.(*ast.CaseClause)
			if !ok {
				continue
			}
			if cl.List == nil {
				def = cl
				continue
			}
			cx := c.enter(s)
			cx.brk = s
			cx.conds = ccAddConds(c.conds, prev)
			for _, e := range cl.List {
				w.leaf(e, cx)
			}
			if len(cl.List) == 1 {
				cx.conds = ccAddConds(cx.conds, ccSplit(caseExpr(cl.List[0]), true, ccCond{}))
			}
			w.block(cl.Body, cx)
			for _, e := range cl.List {
				prev = ccAddConds(prev, ccSplit(caseExpr(e), false, ccCond{}))
			}
		}
		if def != nil {
			cx := c.enter(s)
			cx.brk = s
			cx.conds = ccAddConds(c.conds, prev)
			w.block(def.Body, cx)
		}
	case *ast.TypeSwitchStmt:
		w.compound(s, c)
		if s.Init != nil {
			w.leaf(s.Init, c)
		}
		w.leaf(s.Assign, c)
		for _, cs := range s.Body.List {
			if cl, ok := cs.(*ast.CaseClause); ok {
				cx := c.enter(s)
				cx.brk = s
				w.block(cl.Body, cx)
			}
		}
	case *ast.SelectStmt:
		w.compound(s, c)
		for _, cs := range s.Body.List {
			if cl, ok := cs.(*ast.CommClause); ok {
				cx := c.enter(s)
				cx.brk = s
				if cl.Comm != nil {
					w.leaf(cl.Comm, cx)
				}
				w.block(cl.Body, cx)
			}
		}
	case *ast.ForStmt:
		w.compound(s, c)
		if s.Init != nil {
			w.leaf(s.Init, c)
		}
		cx := c.enter(s)
		cx.brk, cx.loopT = s, s
		if s.Cond != nil {
			w.leaf(s.Cond, cx)
			cx.conds = ccAddConds(c.conds, ccSplit(s.Cond, true, ccCond{loop: s}))
		}
		w.block(s.Body.List, cx)
		if s.Post != nil {
			w.leaf(s.Post, cx)
		}
	case *ast.RangeStmt:
		w.compound(s, c)
		w.leaf(s.X, c)
		cx := c.enter(s)
		cx.brk, cx.loopT = s, s
		w.block(s.Body.List, cx)
	case *ast.DeferStmt:
		c.deferred = true
		w.leaf(s, c)
	case *ast.GoStmt:
		c.inGo = true
		w.leaf(s, c)
	default:
		w.leaf(s, c)
	}
}

func (w *ccWalker) record(n ast.Node, c *ccCtx) {
	k := make([]token.Pos, 0, len(c.key)+1)
	k = append(k, c.key...)
	w.sites = append(w.sites, ccSite{n: n, c: c, key: append(k, n.Pos())})
}

// compound: a site for the compound statement itself (its parts are visited separately).
func (w *ccWalker) compound(s ast.Stmt, c ccCtx) {
	cc := c
	w.record(s, &cc)
}

// leaf: a simple statement or a header expression.  Every sub-node outside function literals becomes a site;
// function literals are walked as nested bodies; calls of same-package unexported helpers are walked inline.
func (w *ccWalker) leaf(n ast.Node, c ccCtx) {
	cc := c
	var lits []*ast.FuncLit
	var calls []*ast.CallExpr
	ast.Inspect(n, func(x ast.Node) bool {
		if x == nil {
			return true
		}
		if fl, ok := x.(*ast.FuncLit); ok {
			lits = append(lits, fl)
			w.record(fl, &cc)
			return false
		}
		w.record(x, &cc)
		if ce, ok := x.(*ast.CallExpr); ok {
			calls = append(calls, ce)
		}
		return true
	})
	for _, fl := range lits {
		cx := c.enter(fl)
		cx.lits = append(append([]*ast.FuncLit{}, c.lits...), fl)
		cx.brk, cx.loopT = nil, nil
		w.block(fl.Body.List, cx)
	}
	if c.depth >= w.maxDepth {
		return
	}
	for _, ce := range calls {
		fd := w.p.callee(ce, c.fn)
		if fd == nil || fd.Body == nil || (ast.IsExported(fd.Name.Name) && !w.exported) || w.active[fd] {
			continue
		}
		cx := c
		cx.parent = &cc
		cx.fn = fd
		cx.bind = map[*ast.Object]ast.Expr{}
		if ro := ccRecvObj(fd); ro != nil {
			if se, ok := ccStrip(ce.Fun).(*ast.SelectorExpr); ok {
				cx.bind[ro] = se.X
			}
		}
		i := 0
		if fd.Type.Params != nil {
			for _, f := range fd.Type.Params.List {
				for _, nm := range f.Names {
					if _, variadic := f.Type.(*ast.Ellipsis); !variadic && i < len(ce.Args) && nm.Obj != nil {
						cx.bind[nm.Obj] = ce.Args[i]
					}
					i++
				}
			}
		}
		cx.key = append(append([]token.Pos{}, c.key...), ce.Pos())
		cx.depth = c.depth + 1
		cx.brk, cx.loopT = nil, nil
		w.active[fd] = true
		w.block(fd.Body.List, cx)
		delete(w.active, fd)
	}
}

// ccScan: the sites of the statement list l of fd in source order of the inlined view.
func ccScan(p *ccPkg, fd *ast.FuncDecl, l []ast.Stmt, maxDepth int) []ccSite {
	w := &ccWalker{p: p, maxDepth: maxDepth, active: map[*ast.FuncDecl]bool{fd: true}}
	w.block(l, ccCtx{fn: fd})
	return w.sites
}

// ccScanAll: like ccScan, but exported same-package functions are walked inline as well.
func ccScanAll(p *ccPkg, fd *ast.FuncDecl, l []ast.Stmt, maxDepth int) []ccSite {
	w := &ccWalker{p: p, maxDepth: maxDepth, exported: true, active: map[*ast.FuncDecl]bool{fd: true}}
	w.block(l, ccCtx{fn: fd})
	return w.sites
}

// ccDefRhs: for a local defined once by `x := <selector chain>` (or `x, y := a.f, b.g`) the right-hand side.
func ccDefRhs(o *ast.Object) ast.Expr {
	if o == nil {
		return nil
	}
	as, ok := o.Decl.(*ast.AssignStmt)
	if !ok || as.Tok != token.DEFINE || len(as.Lhs) != len(as.Rhs) {
		return nil
	}
	for i, l := range as.Lhs {
		if ccIsVar(l, o) {
			return as.Rhs[i]
		}
	}
	return nil
}

func ccPure(e ast.Expr) bool {
	switch x := ccStrip(e).(type) {
	case *ast.Ident:
		return true
	case *ast.SelectorExpr:
		return ccPure(x.X)
	}
	return false
}

// ccCanon: a spelling-independent key of a variable / field path: "#<object>.field.field".  Locals that are
// aliases of a path and parameters of inlined helpers are replaced by what they stand for.
func ccCanon(e ast.Expr, c *ccCtx) string {
	return ccCanonN(e, c, 0)
}

func ccCanonN(e ast.Expr, c *ccCtx, n int) string {
	if n > 12 || e == nil {
		return "?"
	}
	switch x := ccStrip(e).(type) {
	case *ast.Ident:
		if x.Obj == nil {
			return "$" + x.Name
		}
		if c != nil && c.bind != nil {
			if b, ok := c.bind[x.Obj]; ok {
				return ccCanonN(b, c.parent, n+1)
			}
		}
		if r := ccDefRhs(x.Obj); r != nil && ccPure(r) {
			return ccCanonN(r, c, n+1)
		}
		return fmt.Sprintf("#%p", x.Obj)
	case *ast.SelectorExpr:
		return ccCanonN(x.X, c, n+1) + "." + x.Sel.Name
	case *ast.StarExpr:
		return ccCanonN(x.X, c, n+1)
	}
	return fmt.Sprintf("?%d", e.Pos())
}

func ccObjKey(o *ast.Object) string { return fmt.Sprintf("#%p", o) }

// ccField: canon is "#<object>.<name>" -> name.
func ccField(canon string) string {
	if !strings.HasPrefix(canon, "#") || strings.Count(canon, ".") != 1 {
		return ""
	}
	return canon[strings.Index(canon, ".")+1:]
}

func ccRooted(canon, root string) bool {
	return canon == root || strings.HasPrefix(canon, root+".")
}

// ccNilTest: cd says "<x> is nil" = isNil.
func ccNilTest(cd ccCond) (ast.Expr, bool, bool) {
	be, ok := ccStrip(cd.e).(*ast.BinaryExpr)
	if !ok || (be.Op != token.EQL && be.Op != token.NEQ) {
		return nil, false, false
	}
	var x ast.Expr
	switch {
	case ccUniverse(be.Y, "nil"):
		x = be.X
	case ccUniverse(be.X, "nil"):
		x = be.Y
	default:
		return nil, false, false
	}
	return x, (be.Op == token.EQL) == cd.val, true
}

// ccGreater: cd says x > y.
func ccGreater(cd ccCond) (ast.Expr, ast.Expr, bool) {
	be, ok := ccStrip(cd.e).(*ast.BinaryExpr)
	if !ok {
		return nil, nil, false
	}
	switch {
	case be.Op == token.GTR && cd.val, be.Op == token.LEQ && !cd.val:
		return be.X, be.Y, true
	case be.Op == token.LSS && cd.val, be.Op == token.GEQ && !cd.val:
		return be.Y, be.X, true
	}
	return nil, nil, false
}

func ccIntLit(e ast.Expr, v string) bool {
	bl, ok := ccStrip(e).(*ast.BasicLit)
	return ok && bl.Kind == token.INT && bl.Value == v
}

// ccMentions: some identifier inside e stands for the variable / path `canon`.
func ccMentions(e ast.Node, canon string, c *ccCtx) bool {
	found := false
	ast.Inspect(e, func(x ast.Node) bool {
		switch y := x.(type) {
		case *ast.FuncLit:
			return false
		case *ast.SelectorExpr:
			if ccCanon(y, c) == canon {
				found = true
			}
		case *ast.Ident:
			if y.Obj != nil && ccCanon(y, c) == canon {
				found = true
			}
		}
		return !found
	})
	return found
}

// ccCarries: the value expression v (a variable is replaced by the expression that defined it) mentions `canon`.
func ccCarries(v ast.Expr, canon string, c *ccCtx) bool {
	if ccMentions(v, canon, c) {
		return true
	}
	if r := ccDefRhs(ccObjOf(v)); r != nil {
		return ccMentions(r, canon, c)
	}
	return false
}

func ccSameConds(a, b []ccCond) bool {
	if len(a) != len(b) {
		return false
	}
	for i := range a {
		if a[i].e != b[i].e || a[i].val != b[i].val {
			return false
		}
	}
	return true
}

// ---------------------------------------------------------------------------------------------------
// memory store

const ccDepth = 3

// ccMem: the structural anchors of the memory store.
type ccMem struct {
	p        *ccPkg
	enf      *ast.FuncDecl   // the goroutine body: the method with a select over two receiver channel fields, one case calling PushBack
	reg      *ast.CommClause // the case that registers a message (calls PushBack)
	unreg    *ast.CommClause // the other receiving case
	regCh    string          // channel field received from in reg
	unregCh  string
	regVal   *ast.Object // the request received in reg
	unregVal *ast.Object
	with     *ast.FuncDecl // the lock wrapper: calls its func parameter on a local it has just locked
	withLits map[*ast.FuncLit]bool
	withOpaq bool // some call of the lock wrapper passes something else than a function literal
}

// ccRecvOf: the comm clause receives from `<recv>.<field>` binding the value with := ; returns field and bound object.
func ccRecvOf(cl *ast.CommClause, recv *ast.Object) (string, *ast.Object) {
	as, ok := cl.Comm.(*ast.AssignStmt)
	if !ok || as.Tok != token.DEFINE || len(as.Rhs) != 1 || len(as.Lhs) == 0 {
		return "", nil
	}
	u, ok := ccStrip(as.Rhs[0]).(*ast.UnaryExpr)
	if !ok || u.Op != token.ARROW {
		return "", nil
	}
	se, ok := ccStrip(u.X).(*ast.SelectorExpr)
	if !ok || !ccIsVar(se.X, recv) {
		return "", nil
	}
	o := ccObjOf(as.Lhs[0])
	if o == nil {
		return "", nil
	}
	return se.Sel.Name, o
}

func ccHasMethodCall(n ast.Node, name string) bool {
	found := false
	ast.Inspect(n, func(x ast.Node) bool {
		if ce, ok := x.(*ast.CallExpr); ok {
			if _, ok := ccMethodCall(ce, name); ok {
				found = true
			}
		}
		return !found
	})
	return found
}

func ccNewMem(p *ccPkg) *ccMem {
	m := &ccMem{p: p, withLits: map[*ast.FuncLit]bool{}}
	// the enforcer
	cands := 0
	for _, fd := range p.all {
		recv := ccRecvObj(fd)
		if recv == nil || fd.Body == nil {
			continue
		}
		ast.Inspect(fd.Body, func(x ast.Node) bool {
			sel, ok := x.(*ast.SelectStmt)
			if !ok {
				return true
			}
			var cls []*ast.CommClause
			for _, s := range sel.Body.List {
				if cl, ok := s.(*ast.CommClause); ok && cl.Comm != nil {
					if f, _ := ccRecvOf(cl, recv); f != "" {
						cls = append(cls, cl)
					}
				}
			}
			if len(cls) != 2 {
				return true
			}
			a := ccHasMethodCall(&ast.BlockStmt{List: cls[0].Body}, "PushBack")
			b := ccHasMethodCall(&ast.BlockStmt{List: cls[1].Body}, "PushBack")
			if a == b {
				return true
			}
			if b {
				cls[0], cls[1] = cls[1], cls[0]
			}
			cands++
			m.enf, m.reg, m.unreg = fd, cls[0], cls[1]
			m.regCh, m.regVal = ccRecvOf(cls[0], recv)
			m.unregCh, m.unregVal = ccRecvOf(cls[1], recv)
			return true
		})
	}
	if cands != 1 || m.regCh == m.unregCh {
		m.enf = nil
	}
	if m.enf != nil {
		// it must be started with `go`
		started := false
		for _, fd := range p.all {
			if fd.Body == nil {
				continue
			}
			ast.Inspect(fd.Body, func(x ast.Node) bool {
				if gs, ok := x.(*ast.GoStmt); ok && p.callee(gs.Call, fd) == m.enf {
					started = true
				}
				return true
			})
		}
		if !started {
			m.enf = nil
		}
	}
	// the lock wrapper
	nWith := 0
	for _, fd := range p.all {
		if fd.Body == nil || fd.Type.Params == nil {
			continue
		}
		var fparams []*ast.Object
		for _, f := range fd.Type.Params.List {
			if _, ok := f.Type.(*ast.FuncType); ok {
				for _, nm := range f.Names {
					fparams = append(fparams, nm.Obj)
				}
			}
		}
		is := false
		for _, fp := range fparams {
			ast.Inspect(fd.Body, func(x ast.Node) bool {
				ce, ok := x.(*ast.CallExpr)
				if !ok || !ccIsVar(ce.Fun, fp) || len(ce.Args) != 1 {
					return true
				}
				xo := ccObjOf(ce.Args[0])
				if xo == nil || xo == ccRecvObj(fd) {
					return true
				}
				ast.Inspect(fd.Body, func(y ast.Node) bool {
					if lc, ok := y.(*ast.CallExpr); ok && len(lc.Args) == 0 {
						for _, nm := range []string{"Lock", "RLock"} {
							if r, ok := ccMethodCall(lc, nm); ok && ccIsVar(r, xo) {
								is = true
							}
						}
					}
					return true
				})
				return true
			})
		}
		if is {
			nWith++
			m.with = fd
		}
	}
	if nWith != 1 {
		m.with = nil
	}
	if m.with != nil {
		for _, fd := range p.all {
			if fd.Body == nil {
				continue
			}
			ast.Inspect(fd.Body, func(x ast.Node) bool {
				ce, ok := x.(*ast.CallExpr)
				if !ok || p.callee(ce, fd) != m.with {
					return true
				}
				n := 0
				for _, a := range ce.Args {
					if fl := ccLitArg(a); fl != nil {
						m.withLits[fl] = true
						n++
					}
				}
				if n != 1 {
					m.withOpaq = true
				}
				return true
			})
		}
	}
	return m
}

// ccLitArg: the function literal passed as argument a, directly or through a local defined once as that literal.
func ccLitArg(a ast.Expr) *ast.FuncLit {
	if fl, ok := ccStrip(a).(*ast.FuncLit); ok {
		return fl
	}
	if fl, ok := ccStrip(ccDefRhs(ccObjOf(a))).(*ast.FuncLit); ok {
		return fl
	}
	return nil
}

func (m *ccMem) underLock(c *ccCtx) bool {
	for _, l := range c.lits {
		if m.withLits[l] {
			return true
		}
	}
	return false
}

// sendOn: site is a send statement on the receiver's channel field `ch`.
func ccSendOn(s ccSite, ch string) *ast.SendStmt {
	ss, ok := s.n.(*ast.SendStmt)
	if !ok || ch == "" || ccField(ccCanon(ss.Chan, s.c)) != ch {
		return nil
	}
	return ss
}

// fact 1
func (m *ccMem) callSite() string {
	if m.enf == nil || m.with == nil || m.withOpaq || len(m.withLits) == 0 {
		return "unknown"
	}
	type reach struct{ reg, unreg, unregInLoop bool }
	out := map[string]reach{}
	for _, fd := range m.p.all {
		if fd.Body == nil || fd == m.enf {
			continue
		}
		var r reach
		for _, s := range ccScanAll(m.p, fd, fd.Body.List, ccDepth) {
			isReg, isUnreg := ccSendOn(s, m.regCh) != nil, ccSendOn(s, m.unregCh) != nil
			if !isReg && !isUnreg {
				continue
			}
			if m.underLock(s.c) {
				return "insideLock"
			}
			if s.c.inGo || s.c.deferred || len(s.c.lits) > 0 {
				return "unknown"
			}
			r.reg = r.reg || isReg
			r.unreg = r.unreg || isUnreg
			r.unregInLoop = r.unregInLoop || (isUnreg && s.c.loops() > 0)
		}
		if ccRecvType(fd) == ccRecvType(m.enf) && ast.IsExported(fd.Name.Name) {
			out[fd.Name.Name] = r
		}
	}
	if out["AddMessage"].reg && out["RemoveMessage"].unreg && out["PurgeMessages"].unregInLoop {
		return "outsideLock"
	}
	return "unknown"
}

// ccClosesDone: n contains close(<something reached from the request `root`>).
func ccClosesDone(n ast.Node, root string, c *ccCtx) bool {
	found := false
	ast.Inspect(n, func(x ast.Node) bool {
		if ce, ok := x.(*ast.CallExpr); ok && ccUniverse(ce.Fun, "close") && len(ce.Args) == 1 {
			if k := ccCanon(ce.Args[0], c); k != root && ccRooted(k, root) {
				found = true
			}
		}
		return !found
	})
	return found
}

// ccFinalClose: a close of the request's channel that is not nested in any compound statement of the case
// (preceding guard clauses apart), after position `after`.
func ccFinalClose(sites []ccSite, root string, after []token.Pos) bool {
	for _, s := range sites {
		ce, ok := s.n.(*ast.CallExpr)
		if !ok || !ccUniverse(ce.Fun, "close") || len(ce.Args) != 1 || len(s.c.encl) != 0 || s.c.deferred || s.c.inGo {
			continue
		}
		if k := ccCanon(ce.Args[0], s.c); k != root && ccRooted(k, root) && (after == nil || ccKeyLess(after, s.key)) {
			return true
		}
	}
	return false
}

// fact 2: returns the variant and the names of the element field and of the flag field.
func (m *ccMem) enforcerRemove() (string, string, string) {
	if m.enf == nil {
		return "unknown", "", ""
	}
	sites := ccScan(m.p, m.enf, m.unreg.Body, ccDepth)
	root := ccObjKey(m.unregVal)
	var removes []ccSite
	elCanon, msgCanon, elField := "", "", ""
	for _, s := range sites {
		ce, ok := s.n.(*ast.CallExpr)
		if !ok || len(ce.Args) != 1 {
			continue
		}
		if _, ok := ccMethodCall(ce, "Remove"); !ok {
			continue
		}
		se, ok := ccStrip(ce.Args[0]).(*ast.SelectorExpr)
		if !ok {
			return "unknown", "", ""
		}
		k := ccCanon(se, s.c)
		if !ccRooted(k, root) || (elCanon != "" && k != elCanon) {
			return "unknown", "", ""
		}
		elCanon, msgCanon, elField = k, ccCanon(se.X, s.c), se.Sel.Name
		removes = append(removes, s)
	}
	if len(removes) == 0 || !ccFinalClose(sites, root, nil) {
		return "unknown", "", ""
	}
	isElNil := func(cd ccCond, c *ccCtx) (bool, bool) {
		x, isNil, ok := ccNilTest(cd)
		if !ok || ccCanon(x, c) != elCanon {
			return false, false
		}
		return isNil, true
	}
	tests := 0
	for _, s := range sites {
		if be, ok := s.n.(*ast.BinaryExpr); ok {
			if _, ok := isElNil(ccCond{e: be, val: true}, s.c); ok {
				tests++
			}
		}
	}
	guarded := 0
	for _, r := range removes {
		for _, cd := range r.c.conds {
			if isNil, ok := isElNil(cd, r.c); ok && !isNil {
				guarded++
				break
			}
		}
	}
	if tests == 0 && guarded == 0 {
		return "unguarded", elField, ""
	}
	if guarded != len(removes) {
		return "unknown", "", ""
	}
	gone := ""
	for _, s := range sites {
		as, ok := s.n.(*ast.AssignStmt)
		if !ok || as.Tok != token.ASSIGN || len(as.Lhs) != 1 || len(as.Rhs) != 1 || !ccUniverse(as.Rhs[0], "true") {
			continue
		}
		se, ok := ccStrip(as.Lhs[0]).(*ast.SelectorExpr)
		if !ok || ccCanon(se.X, s.c) != msgCanon {
			continue
		}
		for _, cd := range s.c.conds {
			if isNil, ok := isElNil(cd, s.c); ok && isNil {
				if gone != "" && gone != se.Sel.Name {
					return "unknown", "", ""
				}
				gone = se.Sel.Name
			}
		}
	}
	if gone == "" {
		return "unknown", "", ""
	}
	return "goneFlag", elField, gone
}

// the unique PushBack of the register case
func (m *ccMem) pushBack(sites []ccSite) (*ccSite, string) {
	root := ccObjKey(m.regVal)
	var res *ccSite
	msg := ""
	for i, s := range sites {
		ce, ok := s.n.(*ast.CallExpr)
		if !ok {
			continue
		}
		if _, ok := ccMethodCall(ce, "PushBack"); !ok {
			continue
		}
		if res != nil || len(ce.Args) != 1 {
			return nil, ""
		}
		k := ccCanon(ce.Args[0], s.c)
		if k == root || !ccRooted(k, root) {
			return nil, ""
		}
		res, msg = &sites[i], k
	}
	return res, msg
}

// fact 3
func (m *ccMem) incomingSkipsGone(elField, goneField string) bool {
	if m.enf == nil || goneField == "" {
		return false
	}
	sites := ccScan(m.p, m.enf, m.reg.Body, ccDepth)
	root := ccObjKey(m.regVal)
	push, msg := m.pushBack(sites)
	if push == nil {
		return false
	}
	// the element returned by PushBack is stored in the element field of the same message
	stored := false
	for _, s := range sites {
		as, ok := s.n.(*ast.AssignStmt)
		if !ok || as.Tok != token.ASSIGN || len(as.Lhs) != 1 || len(as.Rhs) != 1 {
			continue
		}
		se, ok := ccStrip(as.Lhs[0]).(*ast.SelectorExpr)
		if !ok || se.Sel.Name != elField || ccCanon(se.X, s.c) != msg {
			continue
		}
		r := ccStrip(as.Rhs[0])
		if r == ast.Expr(push.n.(*ast.CallExpr)) {
			stored = true
		} else if d := ccDefRhs(ccObjOf(r)); d != nil && ccStrip(d) == ast.Expr(push.n.(*ast.CallExpr)) {
			stored = true
		}
	}
	if !stored {
		return false
	}
	skip := false
	for _, cd := range push.c.conds {
		se, ok := ccStrip(cd.e).(*ast.SelectorExpr)
		if !ok || cd.val || se.Sel.Name != goneField || ccCanon(se.X, push.c) != msg {
			continue
		}
		switch cd.other {
		case "continue":
			skip = ccClosesDone(&ast.BlockStmt{List: cd.otherBody}, root, push.c)
		case "fall":
			skip = true // the final close below serves both paths
		}
	}
	return skip && ccFinalClose(sites, root, push.key)
}

// fact 4
func (m *ccMem) evictStopsOnEmpty() bool {
	if m.enf == nil {
		return false
	}
	sites := ccScan(m.p, m.enf, m.reg.Body, ccDepth)
	push, _ := m.pushBack(sites)
	if push == nil {
		return false
	}
	listX, _ := ccMethodCall(push.n.(*ast.CallExpr), "PushBack")
	list := ccCanon(listX, push.c)
	params := map[*ast.Object]bool{}
	if m.enf.Type.Params != nil {
		for _, f := range m.enf.Type.Params.List {
			for _, nm := range f.Names {
				params[nm.Obj] = true
			}
		}
	}
	n := 0
	for _, s := range sites {
		ce, ok := s.n.(*ast.CallExpr)
		if !ok {
			continue
		}
		lx, ok := ccMethodCall(ce, "Remove")
		if !ok {
			continue
		}
		if len(ce.Args) != 1 || ccCanon(lx, s.c) != list {
			return false
		}
		el := ccObjOf(ce.Args[0])
		d, ok := ccStrip(ccDefRhs(el)).(*ast.CallExpr)
		if el == nil || !ok {
			return false
		}
		if fx, ok := ccMethodCall(d, "Front"); !ok || ccCanon(fx, s.c) != list {
			return false
		}
		var loop *ast.ForStmt
		for _, cd := range s.c.conds {
			if cd.loop == nil {
				continue
			}
			if x, y, ok := ccGreater(cd); ok && ccObjOf(x) != nil && !params[ccObjOf(x)] && params[ccObjOf(y)] {
				loop = cd.loop
			}
		}
		if loop == nil {
			return false
		}
		// e is taken afresh in every iteration: defined in the loop body, or in the init statement and
		// re-assigned from Front() by the post statement
		fresh := ccWithin(el.Decl.(ast.Node), loop.Body)
		if !fresh && loop.Init != nil && ccWithin(el.Decl.(ast.Node), loop.Init) {
			if as, ok := loop.Post.(*ast.AssignStmt); ok && as.Tok == token.ASSIGN && len(as.Lhs) == 1 && len(as.Rhs) == 1 && ccIsVar(as.Lhs[0], el) {
				if pc, ok := ccStrip(as.Rhs[0]).(*ast.CallExpr); ok {
					if fx, ok := ccMethodCall(pc, "Front"); ok && ccCanon(fx, s.c) == list {
						fresh = true
					}
				}
			}
		}
		if !fresh {
			return false
		}
		okNil := false
		for _, cd := range s.c.conds {
			if x, isNil, ok := ccNilTest(cd); ok && ccIsVar(x, el) && !isNil &&
				((cd.other == "break" && cd.otherTarget == ast.Node(loop)) || cd.loop == loop) {
				okNil = true
			}
		}
		if !okNil {
			return false
		}
		n++
	}
	return n > 0
}

// ccCapField: the field of the store initialised from the configuration's MailboxMsgCap.
func (m *ccMem) capField() string {
	res := ""
	for _, f := range m.p.files {
		ast.Inspect(f, func(x ast.Node) bool {
			kv, ok := x.(*ast.KeyValueExpr)
			if !ok {
				return true
			}
			if se, ok := ccStrip(kv.Value).(*ast.SelectorExpr); ok && se.Sel.Name == "MailboxMsgCap" {
				if id, ok := kv.Key.(*ast.Ident); ok {
					res = id.Name
				}
			}
			return true
		})
	}
	return res
}

func ccIsEmit(ce *ast.CallExpr) bool {
	x, ok := ccMethodCall(ce, "Emit")
	if !ok {
		return false
	}
	se, ok := ccStrip(x).(*ast.SelectorExpr)
	return ok && se.Sel.Name == "AfterMessageDeleted"
}

// ccEnclInside: in the inlined view of c, `inner` is nested inside `outer` (both enclose the site).
func ccEnclInside(c *ccCtx, inner, outer ast.Node) bool {
	io, ii := -1, -1
	for i, e := range c.encl {
		if e == outer && io < 0 {
			io = i
		}
		if e == inner {
			ii = i
		}
	}
	return io >= 0 && ii > io
}

// ccReturnsOnly: fd has exactly one result and every return statement of its body (function literals apart) hands back
// the variable v: `return v`, or a bare return where v is the named result.
func ccReturnsOnly(fd *ast.FuncDecl, v *ast.Object) bool {
	if fd == nil || fd.Body == nil || fd.Type.Results == nil || len(fd.Type.Results.List) != 1 || len(fd.Type.Results.List[0].Names) > 1 {
		return false
	}
	named := len(fd.Type.Results.List[0].Names) == 1 && fd.Type.Results.List[0].Names[0].Obj == v
	if v.Pos() < fd.Pos() || v.Pos() >= fd.End() {
		return false
	}
	n, ok := 0, true
	ast.Inspect(fd.Body, func(x ast.Node) bool {
		switch r := x.(type) {
		case *ast.FuncLit:
			return false
		case *ast.ReturnStmt:
			n++
			switch {
			case len(r.Results) == 0 && named:
			case len(r.Results) == 1 && ccIsVar(r.Results[0], v):
			default:
				ok = false
			}
		}
		return true
	})
	return ok && n > 0
}

// ccFlowsOut: the variable of `top`, declared outside the closure `lit`, that a value appended to v at site s ends up
// in: v itself when s is written in top (not in a helper) and v is declared there before the closure; when s is written
// in an inlined helper that returns v on every path and whose call is the whole right-hand side of a plain assignment
// `w = helper(..)`, the same question for w at that assignment (helpers nest up to the scan depth).  nil = not understood.
func ccFlowsOut(sites []ccSite, p *ccPkg, s ccSite, v *ast.Object, top *ast.FuncDecl, lit *ast.FuncLit) *ast.Object {
	c := s.c
	for depth := 0; depth <= ccDepth && v != nil && c != nil; depth++ {
		if c.parent == nil || c.fn == top {
			if c.fn == top && v.Pos() >= top.Pos() && v.Pos() < lit.Pos() {
				return v
			}
			return nil
		}
		if !ccReturnsOnly(c.fn, v) || len(c.key) == 0 {
			return nil
		}
		at := c.key[len(c.key)-1]
		var next *ccSite
		for i, t := range sites {
			as, ok := t.n.(*ast.AssignStmt)
			if !ok || as.Tok != token.ASSIGN || len(as.Lhs) != 1 || len(as.Rhs) != 1 || !t.c.inLit(lit) {
				continue
			}
			ce, ok := ccStrip(as.Rhs[0]).(*ast.CallExpr)
			if !ok || ce.Pos() != at || p.callee(ce, t.c.fn) != c.fn || len(t.c.key) != len(c.key)-1 {
				continue
			}
			if next != nil {
				return nil
			}
			next = &sites[i]
		}
		if next == nil {
			return nil
		}
		v = ccObjOf(next.n.(*ast.AssignStmt).Lhs[0])
		c = next.c
	}
	return nil
}

// facts 5 and 8
func (m *ccMem) capEvict() (string, bool) {
	add := m.p.method("Store", "AddMessage")
	capF := m.capField()
	if m.enf == nil || m.with == nil || add == nil || capF == "" || ccRecvObj(add) == nil {
		return "unknown", false
	}
	sites := ccScan(m.p, add, add.Body.List, ccDepth)
	recv := ccObjKey(ccRecvObj(add))
	// the single use of the lock wrapper and its closure
	var lit *ast.FuncLit
	var wkey []token.Pos
	wconds := 0
	for _, s := range sites {
		ce, ok := s.n.(*ast.CallExpr)
		if !ok || m.p.callee(ce, s.c.fn) != m.with {
			continue
		}
		if lit != nil {
			return "unknown", false
		}
		for _, a := range ce.Args {
			if fl := ccLitArg(a); fl != nil {
				lit = fl
			}
		}
		wkey, wconds = s.key, len(s.c.conds)
		if lit == nil {
			return "unknown", false
		}
	}
	if lit == nil || lit.Type.Params == nil || len(lit.Type.Params.List) != 1 || len(lit.Type.Params.List[0].Names) != 1 {
		return "unknown", false
	}
	box := ccObjKey(lit.Type.Params.List[0].Names[0].Obj)

	// the message stored into the map, and the map
	var del *ccSite
	for i, s := range sites {
		ce, ok := s.n.(*ast.CallExpr)
		if ok && ccUniverse(ce.Fun, "delete") && len(ce.Args) == 2 {
			if del != nil || !s.c.inLit(lit) {
				return "unknown", false
			}
			del = &sites[i]
		}
	}
	if del == nil {
		return "unknown", false
	}
	delCall := del.n.(*ast.CallExpr)
	mapK := ccCanon(delCall.Args[0], del.c)
	if !ccRooted(mapK, box) || mapK == box {
		return "unknown", false
	}
	stored := ""
	for _, s := range sites {
		as, ok := s.n.(*ast.AssignStmt)
		if !ok || !s.c.inLit(lit) || as.Tok != token.ASSIGN || len(as.Lhs) != 1 || len(as.Rhs) != 1 {
			continue
		}
		if ix, ok := ccStrip(as.Lhs[0]).(*ast.IndexExpr); ok && ccCanon(ix.X, s.c) == mapK && ccObjOf(as.Rhs[0]) != nil && len(s.c.conds) == wconds {
			stored = ccCanon(as.Rhs[0], s.c)
		}
	}

	// fact 8: the registration with the enforcer
	var regKey []token.Pos
	nReg := 0
	for _, s := range sites {
		if ss := ccSendOn(s, m.regCh); ss != nil {
			nReg++
			if !s.c.inLit(lit) && stored != "" && ccCarries(ss.Value, stored, s.c) && len(s.c.lits) == 0 && !s.c.inGo && !s.c.deferred {
				regKey = s.key
			}
		}
	}

	// the eviction loop: `len(map) > recv.cap` is (a conjunct of) the loop condition, `recv.cap > 0` is known
	var loop *ast.ForStmt
	capPos := false
	for _, cd := range del.c.conds {
		x, y, ok := ccGreater(cd)
		if !ok {
			continue
		}
		if ce, isCall := ccStrip(x).(*ast.CallExpr); isCall && cd.loop != nil && ccUniverse(ce.Fun, "len") && len(ce.Args) == 1 &&
			ccCanon(ce.Args[0], del.c) == mapK && ccCanon(y, del.c) == recv+"."+capF {
			loop = cd.loop
		}
		if ccCanon(x, del.c) == recv+"."+capF && ccIntLit(y, "0") {
			capPos = true
		}
	}
	// the loop runs inside the closure in the INLINED view (it may be written in a helper the closure calls)
	if loop == nil || !capPos || !ccEnclInside(del.c, loop, lit) {
		return "unknown", false
	}
	// the key is Itoa(<box>.<first>) and <box>.<first> is incremented once per iteration
	keyE := ccStrip(delCall.Args[1])
	keyK := ccCanon(keyE, del.c)
	if r := ccDefRhs(ccObjOf(keyE)); r != nil {
		keyE = ccStrip(r)
	}
	kc, ok := keyE.(*ast.CallExpr)
	if !ok || !m.p.pkgCall(kc, "strconv", "Itoa") || len(kc.Args) != 1 {
		return "unknown", false
	}
	first := ccCanon(kc.Args[0], del.c)
	if !ccRooted(first, box) || first == box {
		return "unknown", false
	}
	incs := 0
	for _, s := range loop.Body.List {
		if ids, ok := s.(*ast.IncDecStmt); ok && ids.Tok == token.INC && ccCanon(ids.X, del.c) == first {
			incs++
		}
	}
	if incs != 1 {
		return "unknown", false
	}

	// collection: the deleted value is appended to a slice declared outside the closure, under the same conditions
	var coll *ast.Object
	nApp := 0
	for _, s := range sites {
		as, ok := s.n.(*ast.AssignStmt)
		if !ok || !s.c.inLit(lit) || len(as.Lhs) != 1 || len(as.Rhs) != 1 {
			continue
		}
		ce, ok := ccStrip(as.Rhs[0]).(*ast.CallExpr)
		if !ok || !ccUniverse(ce.Fun, "append") {
			continue
		}
		nApp++
		v := ccObjOf(as.Lhs[0])
		if v == nil || len(ce.Args) != 2 || !ccIsVar(ce.Args[0], v) || ce.Ellipsis.IsValid() {
			continue
		}
		// the slice the value ends up in: v itself when it is declared in AddMessage outside the closure; when the
		// append is written in a helper, the variable outside the closure that receives the helper's result
		v = ccFlowsOut(sites, m.p, s, v, add, lit)
		if v == nil {
			continue
		}
		d := ccDefRhs(ccObjOf(ce.Args[1]))
		if d == nil {
			// `old, ok := map[key]` has two left-hand sides and one right-hand side
			if o := ccObjOf(ce.Args[1]); o != nil {
				if das, ok := o.Decl.(*ast.AssignStmt); ok && len(das.Rhs) == 1 && len(das.Lhs) == 2 && ccIsVar(das.Lhs[0], o) {
					d = das.Rhs[0]
				}
			}
		}
		ix, ok := ccStrip(d).(*ast.IndexExpr)
		if d == nil || !ok || ccCanon(ix.X, s.c) != mapK || ccCanon(ix.Index, s.c) != keyK {
			continue
		}
		if ccSameConds(s.c.conds, del.c.conds) && ccWithin(as, loop) {
			coll = v
		}
	}

	// notification after the closure: range over the collected slice, Emit(deleted) and the un-registration of each element
	var rngKey []token.Pos
	notifies := false
	if coll != nil {
		for _, s := range sites {
			rs, ok := s.n.(*ast.RangeStmt)
			if !ok || ccCanon(rs.X, s.c) != ccObjKey(coll) || s.c.inLit(lit) || !ccKeyLess(wkey, s.key) || ccObjOf(rs.Value) == nil || rs.Tok != token.DEFINE {
				continue
			}
			if rngKey != nil {
				return "unknown", false
			}
			rngKey = s.key
			elem := ccObjKey(ccObjOf(rs.Value))
			emit, unreg := false, false
			for _, t := range sites {
				if !t.c.hasEncl(rs) || len(t.c.lits) > 0 || t.c.inGo || t.c.deferred {
					continue
				}
				if ce, ok := t.n.(*ast.CallExpr); ok && ccIsEmit(ce) && len(ce.Args) == 1 && ccMentions(ce.Args[0], elem, t.c) {
					emit = true
				}
				if ss := ccSendOn(t, m.unregCh); ss != nil && ccCarries(ss.Value, elem, t.c) {
					unreg = true
				}
			}
			notifies = emit && unreg
		}
	}
	deliverLast := nReg == 1 && regKey != nil && rngKey != nil && ccKeyLess(rngKey, regKey)
	if coll != nil && nApp == 1 && notifies {
		return "collectsAndNotifies", deliverLast
	}
	// silent: nothing is collected and AddMessage announces nothing
	if nApp == 0 {
		for _, s := range sites {
			if ce, ok := s.n.(*ast.CallExpr); ok {
				if _, isEmit := ccMethodCall(ce, "Emit"); isEmit {
					return "unknown", deliverLast
				}
			}
			if ccSendOn(s, m.unregCh) != nil {
				return "unknown", deliverLast
			}
		}
		return "silent", deliverLast
	}
	return "unknown", deliverLast
}

// fact 6
func (m *ccMem) seenAtomic() bool {
	// the field of Message whose type is atomic.Bool
	field := ""
	for _, f := range m.p.files {
		for _, d := range f.Decls {
			gd, ok := d.(*ast.GenDecl)
			if !ok || gd.Tok != token.TYPE {
				continue
			}
			for _, sp := range gd.Specs {
				ts, ok := sp.(*ast.TypeSpec)
				if !ok || ts.Name.Name != "Message" {
					continue
				}
				st, ok := ts.Type.(*ast.StructType)
				if !ok {
					return false
				}
				for _, fl := range st.Fields.List {
					se, ok := fl.Type.(*ast.SelectorExpr)
					if !ok || se.Sel.Name != "Bool" {
						continue
					}
					if id, ok := se.X.(*ast.Ident); ok && m.p.imports[id.Name] == "sync/atomic" {
						if field != "" || len(fl.Names) != 1 {
							return false
						}
						field = fl.Names[0].Name
					}
				}
			}
		}
	}
	if field == "" {
		return false
	}
	// Seen returns <recv>.<field>.Load()
	seen := m.p.method("Message", "Seen")
	if seen == nil {
		return false
	}
	loads, rets := 0, 0
	ast.Inspect(seen.Body, func(x ast.Node) bool {
		if rs, ok := x.(*ast.ReturnStmt); ok {
			rets++
			if len(rs.Results) == 1 {
				if ce, ok := ccStrip(rs.Results[0]).(*ast.CallExpr); ok && len(ce.Args) == 0 {
					if fx, ok := ccMethodCall(ce, "Load"); ok {
						if se, ok := ccStrip(fx).(*ast.SelectorExpr); ok && se.Sel.Name == field && ccIsVar(se.X, ccRecvObj(seen)) {
							loads++
						}
					}
				}
			}
		}
		return true
	})
	if loads != 1 || rets != 1 {
		return false
	}
	// MarkSeen reaches <message>.<field>.Store(true)
	ms := m.p.method("Store", "MarkSeen")
	if ms == nil {
		return false
	}
	stores := 0
	for _, s := range ccScan(m.p, ms, ms.Body.List, ccDepth) {
		if ce, ok := s.n.(*ast.CallExpr); ok && len(ce.Args) == 1 && ccUniverse(ce.Args[0], "true") {
			if fx, ok := ccMethodCall(ce, "Store"); ok {
				if se, ok := ccStrip(fx).(*ast.SelectorExpr); ok && se.Sel.Name == field {
					stores++
				}
			}
		}
	}
	return stores == 1
}

// fact 7
func (m *ccMem) withMailboxShape() bool {
	w := m.with
	recv := ccRecvObj(w)
	if w == nil || recv == nil {
		return false
	}
	// the bool parameter and the func parameter
	var flag, fpar *ast.Object
	for _, f := range w.Type.Params.List {
		for _, nm := range f.Names {
			if id, ok := f.Type.(*ast.Ident); ok && id.Name == "bool" && id.Obj == nil {
				if flag != nil {
					return false
				}
				flag = nm.Obj
			}
			if _, ok := f.Type.(*ast.FuncType); ok {
				if fpar != nil {
					return false
				}
				fpar = nm.Obj
			}
		}
	}
	if flag == nil || fpar == nil {
		return false
	}
	sites := ccScan(m.p, w, w.Body.List, 0)
	type lk struct {
		s    ccSite
		name string
	}
	var sLock, sUnlock, call *ccSite
	var box *ast.Object
	var bLocks, bUnlocks []lk
	for i, s := range sites {
		ce, ok := s.n.(*ast.CallExpr)
		if !ok {
			continue
		}
		if ccIsVar(ce.Fun, fpar) {
			if call != nil || len(ce.Args) != 1 || ccObjOf(ce.Args[0]) == nil {
				return false
			}
			call, box = &sites[i], ccObjOf(ce.Args[0])
			continue
		}
		for _, nm := range []string{"Lock", "Unlock", "RLock", "RUnlock"} {
			x, ok := ccMethodCall(ce, nm)
			if !ok || len(ce.Args) != 0 {
				continue
			}
			if ccIsVar(x, recv) {
				plain := len(s.c.encl) == 0 && !s.c.deferred && !s.c.inGo
				switch {
				case nm == "Lock" && sLock == nil && plain:
					sLock = &sites[i]
				case nm == "Unlock" && sUnlock == nil && plain:
					sUnlock = &sites[i]
				default:
					return false
				}
				continue
			}
			if ccObjOf(x) == nil {
				return false
			}
			if nm == "Lock" || nm == "RLock" {
				bLocks = append(bLocks, lk{s, nm})
			} else {
				bUnlocks = append(bUnlocks, lk{s, nm})
			}
		}
	}
	if sLock == nil || sUnlock == nil || call == nil || box == nil || !ccKeyLess(sLock.key, sUnlock.key) {
		return false
	}
	if len(call.c.encl) != 0 || call.c.deferred || call.c.inGo || len(bLocks) != 2 || len(bUnlocks) != 2 {
		return false
	}
	// what the flag is known to be at a site
	flagAt := func(c *ccCtx) (bool, bool) {
		for _, cd := range c.conds {
			if ccIsVar(cd.e, flag) {
				return cd.val, true
			}
		}
		return false, false
	}
	seen := map[string][]token.Pos{}
	for _, l := range bLocks {
		x, _ := ccMethodCall(l.s.n.(*ast.CallExpr), l.name)
		v, ok := flagAt(l.s.c)
		if !ccIsVar(x, box) || !ok || v != (l.name == "Lock") || l.s.c.deferred || l.s.c.inGo || len(l.s.c.lits) > 0 {
			return false
		}
		if !ccKeyLess(sUnlock.key, l.s.key) || !ccKeyLess(l.s.key, call.key) || seen[l.name] != nil {
			return false
		}
		seen[l.name] = l.s.key
	}
	for _, l := range bUnlocks {
		x, _ := ccMethodCall(l.s.n.(*ast.CallExpr), l.name)
		v, ok := flagAt(l.s.c)
		if !ccIsVar(x, box) || !ok || v != (l.name == "Unlock") || !l.s.c.deferred || l.s.c.inGo || seen[l.name] != nil {
			return false
		}
		lockKey := seen[map[string]string{"Unlock": "Lock", "RUnlock": "RLock"}[l.name]]
		if lockKey == nil || !ccKeyLess(lockKey, l.s.key) || !ccKeyLess(l.s.key, call.key) {
			return false
		}
		seen[l.name] = l.s.key
	}
	// every access to a map of the store (lookup and creation of the mailbox) happens under the store mutex,
	// and the mailbox is not rebound after its release
	for _, s := range sites {
		switch x := s.n.(type) {
		case *ast.IndexExpr:
			if ccRooted(ccCanon(x.X, s.c), ccObjKey(recv)) && !(ccKeyLess(sLock.key, s.key) && ccKeyLess(s.key, sUnlock.key)) {
				return false
			}
		case *ast.AssignStmt:
			for _, l := range x.Lhs {
				if ccIsVar(l, box) && !(ccKeyLess(sLock.key, s.key) && ccKeyLess(s.key, sUnlock.key)) {
					return false
				}
			}
		}
	}
	return true
}

// new fact: which mailbox lock each exported operation takes, in order ("W" write, "R" read, "?" not a literal)
func (m *ccMem) lockModes() []string {
	res := []string{}
	if m.with == nil {
		return res
	}
	// position of the bool parameter of the lock wrapper
	idx, i := -1, 0
	for _, f := range m.with.Type.Params.List {
		for range f.Names {
			if id, ok := f.Type.(*ast.Ident); ok && id.Name == "bool" && id.Obj == nil {
				idx = i
			}
			i++
		}
	}
	for _, fd := range m.p.all {
		if fd.Body == nil || !ast.IsExported(fd.Name.Name) || ccRecvType(fd) != ccRecvType(m.with) {
			continue
		}
		modes := ""
		for _, s := range ccScan(m.p, fd, fd.Body.List, ccDepth) {
			ce, ok := s.n.(*ast.CallExpr)
			if !ok || m.p.callee(ce, s.c.fn) != m.with {
				continue
			}
			switch {
			case idx >= 0 && idx < len(ce.Args) && ccUniverse(ce.Args[idx], "true"):
				modes += "W"
			case idx >= 0 && idx < len(ce.Args) && ccUniverse(ce.Args[idx], "false"):
				modes += "R"
			default:
				modes += "?"
			}
		}
		res = append(res, fd.Name.Name+":"+modes)
	}
	sort.Strings(res)
	return res
}

// ---------------------------------------------------------------------------------------------------
// file store

func ccFuncParams(fd *ast.FuncDecl) []*ast.Object {
	var res []*ast.Object
	if fd == nil || fd.Type.Params == nil {
		return res
	}
	for _, f := range fd.Type.Params.List {
		for _, nm := range f.Names {
			res = append(res, nm.Obj)
		}
	}
	return res
}

// ccIsLister: ce calls a same-package function that lists a directory (its body calls Readdirnames / ReadDir),
// or os.ReadDir directly.
func ccIsLister(p *ccPkg, ce *ast.CallExpr, cur *ast.FuncDecl) bool {
	if p.pkgCall(ce, "os", "ReadDir") {
		return true
	}
	fd := p.callee(ce, cur)
	if fd == nil || fd.Body == nil {
		return false
	}
	return ccHasMethodCall(fd.Body, "Readdirnames") || ccHasMethodCall(fd.Body, "ReadDir") || ccHasMethodCall(fd.Body, "Readdir")
}

// ccIsNotExist: e is os.IsNotExist(<err>) or errors.Is(<err>, os.ErrNotExist / fs.ErrNotExist).
func ccIsNotExist(p *ccPkg, e ast.Expr, err *ast.Object) bool {
	ce, ok := ccStrip(e).(*ast.CallExpr)
	if !ok {
		return false
	}
	if p.pkgCall(ce, "os", "IsNotExist") && len(ce.Args) == 1 && ccIsVar(ce.Args[0], err) {
		return true
	}
	if p.pkgCall(ce, "errors", "Is") && len(ce.Args) == 2 && ccIsVar(ce.Args[0], err) {
		if se, ok := ccStrip(ce.Args[1]).(*ast.SelectorExpr); ok && se.Sel.Name == "ErrNotExist" {
			if id, ok := se.X.(*ast.Ident); ok && id.Obj == nil && (p.imports[id.Name] == "os" || p.imports[id.Name] == "io/fs") {
				return true
			}
		}
	}
	return false
}

// fact 9
func ccVisitENOENT(p *ccPkg, visit *ast.FuncDecl) string {
	if visit == nil || visit.Body == nil {
		return "unknown"
	}
	sites := ccScan(p, visit, visit.Body.List, 0)
	class := map[int]string{}
	n := 0
	for _, s := range sites {
		as, ok := s.n.(*ast.AssignStmt)
		if !ok || len(as.Rhs) != 1 || len(as.Lhs) != 2 {
			continue
		}
		ce, ok := ccStrip(as.Rhs[0]).(*ast.CallExpr)
		if !ok || !ccIsLister(p, ce, visit) {
			continue
		}
		n++
		err := ccObjOf(as.Lhs[1])
		level := s.c.loops()
		if _, dup := class[level]; dup || err == nil || len(s.c.lits) > 0 {
			return "unknown"
		}
		// what happens when the listing failed: the returns / continues that are only reached with err != nil,
		// in the same loop body, before err is assigned again
		var end []token.Pos
		for _, t := range sites {
			if t2, ok := t.n.(*ast.AssignStmt); ok && ccKeyLess(s.key, t.key) && end == nil {
				for _, l := range t2.Lhs {
					if ccIsVar(l, err) {
						end = t.key
					}
				}
			}
		}
		conts, retErr, others, usesNotExist := 0, 0, 0, false
		for _, t := range sites {
			if !ccKeyLess(s.key, t.key) || (end != nil && !ccKeyLess(t.key, end)) || t.c.loops() != level || len(t.c.encl) < len(s.c.encl) ||
				len(t.c.conds) < len(s.c.conds) {
				continue
			}
			failed, notExist, known := false, false, false
			for _, cd := range t.c.conds[len(s.c.conds):] {
				if x, isNil, ok := ccNilTest(cd); ok && ccIsVar(x, err) && !isNil {
					failed = true
				}
				if ccIsNotExist(p, cd.e, err) {
					notExist, known = cd.val, true
				}
			}
			if !failed {
				continue
			}
			if known {
				usesNotExist = true
			}
			switch x := t.n.(type) {
			case *ast.BranchStmt:
				if x.Tok == token.CONTINUE && x.Label == nil && known && notExist {
					conts++
				} else {
					others++
				}
			case *ast.ReturnStmt:
				ok := len(x.Results) > 0 && ccIsVar(x.Results[len(x.Results)-1], err)
				switch {
				case ok && known && !notExist:
					retErr++
				case ok && !known:
					retErr++
				default:
					others++
				}
			}
		}
		c := "unknown"
		switch {
		case others == 0 && conts == 1 && retErr == 1 && usesNotExist:
			c = "tolerated"
		case others == 0 && conts == 0 && retErr == 1 && !usesNotExist:
			c = "fatal"
		}
		class[level] = c
	}
	if n != 3 || len(class) != 3 || class[0] != "fatal" {
		return "unknown"
	}
	if class[1] != class[2] {
		return "unknown"
	}
	return class[1]
}

// ccBucketLock: how the exported operation fd uses its mailbox lock: "W" / "R" = taken (write / read) before anything
// touches the mailbox or the store, released by a defer, never released or retaken in between; "" otherwise.
func ccBucketLock(p *ccPkg, fd *ast.FuncDecl) string {
	recv := ccRecvObj(fd)
	if recv == nil || fd.Body == nil {
		return ""
	}
	sites := ccScan(p, fd, fd.Body.List, 0)
	var lock, unlock *ccSite
	var box *ast.Object
	mode := ""
	for i, s := range sites {
		ce, ok := s.n.(*ast.CallExpr)
		if !ok {
			continue
		}
		for _, nm := range []string{"Lock", "RLock", "Unlock", "RUnlock"} {
			x, ok := ccMethodCall(ce, nm)
			if !ok || len(ce.Args) != 0 || ccObjOf(x) == nil {
				continue
			}
			if nm == "Lock" || nm == "RLock" {
				if lock != nil || len(s.c.encl) != 0 || s.c.deferred || s.c.inGo {
					return ""
				}
				lock, box = &sites[i], ccObjOf(x)
				mode = map[string]string{"Lock": "W", "RLock": "R"}[nm]
			} else {
				if unlock != nil {
					return ""
				}
				unlock = &sites[i]
			}
		}
	}
	if lock == nil || unlock == nil {
		return ""
	}
	// the mailbox is built by a method of the store from the arguments
	def, ok := ccStrip(ccDefRhs(box)).(*ast.CallExpr)
	if !ok {
		return ""
	}
	if se, ok := ccStrip(def.Fun).(*ast.SelectorExpr); !ok || !ccIsVar(se.X, recv) {
		return ""
	}
	// deferred release of the same lock, registered right after it was taken
	uce := unlock.n.(*ast.CallExpr)
	want := map[string]string{"W": "Unlock", "R": "RUnlock"}[mode]
	if x, ok := ccMethodCall(uce, want); !ok || !ccIsVar(x, box) || !unlock.c.deferred || unlock.c.inGo || len(unlock.c.conds) != len(lock.c.conds) ||
		!ccKeyLess(lock.key, unlock.key) {
		return ""
	}
	for _, e := range unlock.c.encl {
		if _, isLit := e.(*ast.FuncLit); !isLit {
			return ""
		}
	}
	decl := box.Decl.(ast.Node)
	for _, s := range sites {
		// nothing mentions the mailbox or the store before the lock is held (apart from building the mailbox)
		if id, ok := s.n.(*ast.Ident); ok && (id.Obj == box || id.Obj == recv) && ccKeyLess(s.key, lock.key) && !ccWithin(id, decl) {
			return ""
		}
		// the mailbox variable is never rebound
		if as, ok := s.n.(*ast.AssignStmt); ok && ast.Node(as) != decl {
			for _, l := range as.Lhs {
				if ccIsVar(l, box) {
					return ""
				}
			}
		}
		// nothing between taking the lock and registering its release
		if ccKeyLess(lock.key, s.key) && ccKeyLess(s.key, unlock.key) && !ccWithin(s.n, lock.n) {
			if _, isDefer := s.n.(*ast.DeferStmt); !isDefer && !s.c.deferred {
				return ""
			}
		}
	}
	return mode
}

// fact 10 (+ the lock modes)
func ccFileLockedOps(p *ccPkg) ([]string, []string, bool) {
	ops, modes := []string{}, []string{}
	total := 0
	for _, fd := range p.all {
		if fd.Body == nil || !ast.IsExported(fd.Name.Name) || ccRecvType(fd) != "Store" || fd.Name.Name == "VisitMailboxes" {
			continue
		}
		total++
		if m := ccBucketLock(p, fd); m != "" {
			ops = append(ops, fd.Name.Name)
			modes = append(modes, fd.Name.Name+":"+m)
		}
	}
	sort.Strings(ops)
	sort.Strings(modes)
	return ops, modes, total > 0 && len(ops) == total
}

// fact 11
func ccVisitReadsLocked(p *ccPkg, visit *ast.FuncDecl) bool {
	recv := ccRecvObj(visit)
	if recv == nil || visit.Body == nil {
		return false
	}
	var cb *ast.Object
	for _, f := range visit.Type.Params.List {
		if _, ok := f.Type.(*ast.FuncType); ok && len(f.Names) == 1 {
			cb = f.Names[0].Obj
		}
	}
	if cb == nil {
		return false
	}
	sites := ccScan(p, visit, visit.Body.List, 0)
	deepest := 0
	for _, s := range sites {
		if s.c.loops() > deepest {
			deepest = s.c.loops()
		}
	}
	var lock, unlock *ccSite
	var box *ast.Object
	want := ""
	for i, s := range sites {
		ce, ok := s.n.(*ast.CallExpr)
		if !ok || len(ce.Args) != 0 {
			continue
		}
		for _, nm := range []string{"Lock", "RLock", "Unlock", "RUnlock"} {
			x, ok := ccMethodCall(ce, nm)
			if !ok || ccObjOf(x) == nil {
				continue
			}
			switch nm {
			case "Lock", "RLock":
				if lock != nil {
					return false
				}
				lock, box = &sites[i], ccObjOf(x)
				want = map[string]string{"Lock": "Unlock", "RLock": "RUnlock"}[nm]
			default:
				if unlock != nil || nm != want || !ccIsVar(x, box) {
					return false
				}
				unlock = &sites[i]
			}
		}
	}
	if lock == nil || unlock == nil || deepest == 0 || lock.c.loops() != deepest {
		return false
	}
	// same block, in order, neither deferred nor conditional on anything the lock is not
	if lock.c.deferred || unlock.c.deferred || lock.c.inGo || unlock.c.inGo || len(lock.c.lits) > 0 || len(unlock.c.lits) > 0 ||
		!ccKeyLess(lock.key, unlock.key) || len(lock.c.encl) != len(unlock.c.encl) || !ccSameConds(lock.c.conds, unlock.c.conds) {
		return false
	}
	for i := range lock.c.encl {
		if lock.c.encl[i] != unlock.c.encl[i] {
			return false
		}
	}
	// the mailbox is built by a method of the store inside the same loop body
	def, ok := ccStrip(ccDefRhs(box)).(*ast.CallExpr)
	if !ok {
		return false
	}
	if se, ok := ccStrip(def.Fun).(*ast.SelectorExpr); !ok || !ccIsVar(se.X, recv) {
		return false
	}
	reads, calls := 0, 0
	for _, s := range sites {
		ce, ok := s.n.(*ast.CallExpr)
		if !ok {
			continue
		}
		between := ccKeyLess(lock.key, s.key) && ccKeyLess(s.key, unlock.key)
		if se, ok := ccStrip(ce.Fun).(*ast.SelectorExpr); ok && ccIsVar(se.X, box) && ce != lock.n && ce != unlock.n {
			// every use of the mailbox is under its lock
			if !between {
				return false
			}
			reads++
		}
		if ccIsVar(ce.Fun, cb) {
			// the callback runs without the lock
			if between {
				return false
			}
			calls++
		}
	}
	return reads >= 1 && calls >= 1
}

// ccSlice03: e is <v>[0:3] or <v>[:3].
func ccSlice03(e ast.Expr, v *ast.Object) bool {
	se, ok := ccStrip(e).(*ast.SliceExpr)
	return ok && ccIsVar(se.X, v) && (se.Low == nil || ccIntLit(se.Low, "0")) && se.High != nil && ccIntLit(se.High, "3") && se.Max == nil
}

func ccAssignCount(fd *ast.FuncDecl, o *ast.Object) int {
	n := 0
	ast.Inspect(fd.Body, func(x ast.Node) bool {
		switch y := x.(type) {
		case *ast.AssignStmt:
			for _, l := range y.Lhs {
				if ccIsVar(l, o) {
					n++
				}
			}
		case *ast.IncDecStmt:
			if ccIsVar(y.X, o) {
				n++
			}
		}
		return true
	})
	return n
}

// fact 12
func ccBucketIsLevel1(lockFile *ast.File, p *ccPkg) bool {
	// HashLock is an array of 16^3 locks
	sized := false
	if lockFile != nil {
		ast.Inspect(lockFile, func(x ast.Node) bool {
			if ts, ok := x.(*ast.TypeSpec); ok && ts.Name.Name == "HashLock" {
				if at, ok := ts.Type.(*ast.ArrayType); ok && at.Len != nil && ccIntLit(at.Len, "4096") {
					sized = true
				}
			}
			return true
		})
	}
	get := fn(lockFile, "HashLock", "Get")
	if !sized || get == nil || get.Body == nil || !ccImports(lockFile, "strconv", "strconv") {
		return false
	}
	ps := ccFuncParams(get)
	if len(ps) != 1 || ps[0] == nil || ccAssignCount(get, ps[0]) != 0 {
		return false
	}
	// the index is ParseInt(<param>[0:3], 16, ..) and the result is &<recv>[index]
	var idx *ast.Object
	parses := 0
	ast.Inspect(get.Body, func(x ast.Node) bool {
		as, ok := x.(*ast.AssignStmt)
		if ok && len(as.Rhs) == 1 && len(as.Lhs) == 2 {
			if ce, ok := ccStrip(as.Rhs[0]).(*ast.CallExpr); ok {
				if fx, ok := ccMethodCall(ce, "ParseInt"); ok && src(fx) == "strconv" && ccObjOf(fx) == nil {
					parses++
					if len(ce.Args) == 3 && ccSlice03(ce.Args[0], ps[0]) && ccIntLit(ce.Args[1], "16") {
						idx = ccObjOf(as.Lhs[0])
					}
				}
			}
		}
		return true
	})
	if parses != 1 || idx == nil || ccAssignCount(get, idx) != 1 {
		return false
	}
	retOK := false
	ast.Inspect(get.Body, func(x ast.Node) bool {
		if rs, ok := x.(*ast.ReturnStmt); ok && len(rs.Results) == 1 {
			if u, ok := ccStrip(rs.Results[0]).(*ast.UnaryExpr); ok && u.Op == token.AND {
				if ix, ok := ccStrip(u.X).(*ast.IndexExpr); ok && ccIsVar(ix.X, ccRecvObj(get)) && ccIsVar(ix.Index, idx) {
					retOK = true
				}
			}
		}
		return true
	})
	if !retOK {
		return false
	}

	// the field of file.Store of type storage.HashLock
	lockField := ""
	for _, f := range p.files {
		ast.Inspect(f, func(x ast.Node) bool {
			ts, ok := x.(*ast.TypeSpec)
			if !ok || ts.Name.Name != "Store" {
				return true
			}
			if st, ok := ts.Type.(*ast.StructType); ok {
				for _, fl := range st.Fields.List {
					if se, ok := fl.Type.(*ast.SelectorExpr); ok && se.Sel.Name == "HashLock" && len(fl.Names) == 1 {
						lockField = fl.Names[0].Name
					}
				}
			}
			return true
		})
	}
	if lockField == "" {
		return false
	}
	// every function that asks that field for a lock builds the mailbox directory as Join(<root>, h[0:3], .., h)
	// from the same h, and that path goes into the mailbox it returns
	users := 0
	for _, fd := range p.all {
		if fd.Body == nil {
			continue
		}
		var gets []*ast.CallExpr
		ast.Inspect(fd.Body, func(x ast.Node) bool {
			if ce, ok := x.(*ast.CallExpr); ok {
				if fx, ok := ccMethodCall(ce, "Get"); ok {
					if se, ok := ccStrip(fx).(*ast.SelectorExpr); ok && se.Sel.Name == lockField {
						gets = append(gets, ce)
					}
				}
			}
			return true
		})
		if len(gets) == 0 {
			continue
		}
		if len(gets) != 1 || len(gets[0].Args) != 1 || ccRecvObj(fd) == nil {
			return false
		}
		h := ccObjOf(gets[0].Args[0])
		if h == nil {
			return false
		}
		isParam := false
		for _, po := range ccFuncParams(fd) {
			isParam = isParam || po == h
		}
		if n := ccAssignCount(fd, h); (isParam && n != 0) || (!isParam && n != 1) {
			return false
		}
		joined := false
		ast.Inspect(fd.Body, func(x ast.Node) bool {
			as, ok := x.(*ast.AssignStmt)
			if !ok || len(as.Lhs) != 1 || len(as.Rhs) != 1 {
				return true
			}
			ce, ok := ccStrip(as.Rhs[0]).(*ast.CallExpr)
			if !ok || !p.pkgCall(ce, "path/filepath", "Join") || len(ce.Args) < 3 || !ccIsVar(ce.Args[len(ce.Args)-1], h) {
				return true
			}
			if se, ok := ccStrip(ce.Args[0]).(*ast.SelectorExpr); !ok || !ccIsVar(se.X, ccRecvObj(fd)) {
				return true
			}
			a := ce.Args[1]
			if o := ccObjOf(a); o != nil {
				if ccAssignCount(fd, o) != 1 || ccDefRhs(o) == nil {
					return true
				}
				a = ccDefRhs(o)
			}
			if !ccSlice03(a, h) {
				return true
			}
			// the joined path is a value of the composite literal that is returned
			d := ccObjOf(as.Lhs[0])
			if d == nil || ccAssignCount(fd, d) != 1 {
				return true
			}
			ast.Inspect(fd.Body, func(y ast.Node) bool {
				if rs, ok := y.(*ast.ReturnStmt); ok {
					ast.Inspect(rs, func(z ast.Node) bool {
						if kv, ok := z.(*ast.KeyValueExpr); ok && ccIsVar(kv.Value, d) {
							joined = true
						}
						return true
					})
				}
				return true
			})
			return true
		})
		if !joined {
			return false
		}
		users++
	}
	return users >= 1
}
