package main

// T1 facts about the file store (pkg/storage/file/{fstore,mbox,fmessage}.go) that the model
// lean/Ibx/Model/FileStore.lean relies on.  Every fact is recognised from the STRUCTURE of the code (go/ast) and not
// from the spelling of locals, receivers, unexported helpers or unexported fields: the things a fact is about are found
// through structural anchors (crash.go has the machinery: the mailbox struct is the one embedding sync.RWMutex, its
// message list is its only slice field, its loaded flag its only bool field; the index loader is the function that sets
// the flag to true; the index writer is the function calling os.Rename; the directory remover the one calling
// os.RemoveAll; the message constructor the function building a `Message{… Fid: id …}` literal; helpers are inlined).
// A shape that is not recognised comes out as "unknown" / false, which no tie theorem accepts.

import (
	"fmt"
	"go/ast"
	"go/token"
	"sort"
	"strconv"
	"strings"
)

func init() { extractors = append(extractors, extractFileStore) }

// ---- small structural helpers -------------------------------------------------------------------------

// fsBody: the statements of a function declaration ([] when absent).
func fsBody(fd *ast.FuncDecl) []ast.Stmt {
	if fd == nil || fd.Body == nil {
		return nil
	}
	return fd.Body.List
}

// fsInspect walks the body of fd (nothing when absent).
func fsInspect(fd *ast.FuncDecl, f func(ast.Node) bool) {
	if fd == nil || fd.Body == nil {
		return
	}
	ast.Inspect(fd.Body, f)
}

// fsRecvObj: the receiver variable of a method (nil when there is none).
func fsRecvObj(fd *ast.FuncDecl) *ast.Object {
	if fd == nil || fd.Recv == nil || len(fd.Recv.List) != 1 || len(fd.Recv.List[0].Names) != 1 {
		return nil
	}
	return fd.Recv.List[0].Names[0].Obj
}

// fsParamObj: the only parameter of fd (nil when it does not have exactly one named parameter).
func fsParamObj(fd *ast.FuncDecl) *ast.Object {
	if fd == nil || fd.Type.Params == nil || len(fd.Type.Params.List) != 1 || len(fd.Type.Params.List[0].Names) != 1 {
		return nil
	}
	return fd.Type.Params.List[0].Names[0].Obj
}

// fsIsVar: e is the variable o.
func fsIsVar(e ast.Expr, o *ast.Object) bool {
	id, ok := crUnparen(e).(*ast.Ident)
	return ok && o != nil && id.Obj == o
}

func fsKind(t ast.Expr) string {
	switch t.(type) {
	case *ast.MapType:
		return "map"
	case *ast.ArrayType:
		return "slice"
	case *ast.ChanType:
		return "chan"
	}
	return "plain"
}

func fsStrLit(e ast.Expr) (string, bool) {
	lit, ok := crUnparen(e).(*ast.BasicLit)
	if !ok || lit.Kind != token.STRING {
		return "", false
	}
	s, err := strconv.Unquote(lit.Value)
	return s, err == nil
}

func fsIntLit(e ast.Expr, want string) bool {
	lit, ok := crUnparen(e).(*ast.BasicLit)
	return ok && lit.Kind == token.INT && lit.Value == want
}

// fsIsField: e is `<anything>.<field>` (field not empty)
func fsIsField(e ast.Expr, field string) bool {
	se, ok := crUnparen(e).(*ast.SelectorExpr)
	return ok && field != "" && se.Sel.Name == field
}

// fsLeaves: no break / continue / return / goto inside n (closures not entered)
func fsLeaves(n ast.Node) bool {
	early := false
	ast.Inspect(n, func(x ast.Node) bool {
		switch x.(type) {
		case *ast.FuncLit:
			return false
		case *ast.BranchStmt, *ast.ReturnStmt:
			early = true
		}
		return true
	})
	return early
}

// fsLoader: the function that sets <box>.<loaded flag> = true (the index loader); nil unless there is exactly one
func fsLoader(p *crPkg) *ast.FuncDecl {
	var res *ast.FuncDecl
	n := 0
	for _, f := range p.files {
		for _, d := range f.Decls {
			fd, ok := d.(*ast.FuncDecl)
			if !ok || fd.Body == nil {
				continue
			}
			sets := false
			ast.Inspect(fd.Body, func(x ast.Node) bool {
				if as, ok := x.(*ast.AssignStmt); ok && as.Tok == token.ASSIGN && len(as.Lhs) == 1 && len(as.Rhs) == 1 && fsIsField(as.Lhs[0], p.boolField) {
					if id, ok := as.Rhs[0].(*ast.Ident); ok && id.Name == "true" {
						sets = true
					}
				}
				return true
			})
			if sets {
				res = fd
				n++
			}
		}
	}
	if n != 1 {
		return nil
	}
	return res
}

// fsMessageCtor: the function that builds a `Message{… Fid: <id> …}` literal, and the expression given to Fid
func fsMessageCtor(p *crPkg) (*ast.FuncDecl, ast.Expr) {
	var res *ast.FuncDecl
	var idExpr ast.Expr
	n := 0
	for _, f := range p.files {
		for _, d := range f.Decls {
			fd, ok := d.(*ast.FuncDecl)
			if !ok || fd.Body == nil {
				continue
			}
			ast.Inspect(fd.Body, func(x ast.Node) bool {
				cl, ok := x.(*ast.CompositeLit)
				if !ok {
					return true
				}
				if id, ok := cl.Type.(*ast.Ident); !ok || id.Name != "Message" {
					return true
				}
				for _, el := range cl.Elts {
					if kv, ok := el.(*ast.KeyValueExpr); ok && src(kv.Key) == "Fid" {
						res, idExpr = fd, kv.Value
						n++
					}
				}
				return true
			})
		}
	}
	if n != 1 {
		return nil, nil
	}
	return res, idExpr
}

// fsPkgCallee: the package function / method a call refers to (nil when it is not one, or ambiguous)
func fsPkgCallee(p *crPkg, ce *ast.CallExpr) *ast.FuncDecl {
	switch f := crUnparen(ce.Fun).(type) {
	case *ast.Ident:
		if f.Obj != nil && f.Obj.Kind != ast.Fun {
			return nil
		}
		return p.uniqueFunc(f.Name, false)
	case *ast.SelectorExpr:
		if id, ok := f.X.(*ast.Ident); ok && id.Obj == nil && p.imports[id.Name] {
			return nil
		}
		return p.uniqueFunc(f.Sel.Name, true)
	}
	return nil
}

// ---- loadsIndexFirst ------------------------------------------------------------------------------------

const fsGuard = "( [loaded] | [unloaded] L )"

// fsFirstAccess: in a load-mode program (L = the loader runs, M = the message list is touched): is the first touch of the
// list preceded, on every path, by the guard `( [loaded] | [unloaded] L )` or by an unconditional L?
// returns "none" (list never touched), "guarded", "bad"
func fsFirstAccess(seq []crItem) string {
	pending := "none"
	for _, it := range seq {
		switch it.kind {
		case 0:
			if it.atom == "M" {
				return "bad"
			}
			if it.atom == "L" {
				return "guarded"
			}
		case 1:
			if crStr([]crItem{it}) == fsGuard {
				return "guarded"
			}
			rs := map[string]bool{}
			for _, b := range it.alt {
				rs[fsFirstAccess(b)] = true
			}
			switch {
			case rs["bad"], rs["guarded"] && rs["none"]:
				return "bad"
			case rs["guarded"]:
				return "guarded"
			}
		case 2:
			switch fsFirstAccess(it.loop) {
			case "bad":
				return "bad"
			case "guarded":
				pending = "guarded" // the loop may run zero times: what follows must be guarded again (or not touch the list)
			}
		}
	}
	return pending
}

// ---- the not-found outcomes -----------------------------------------------------------------------------

// fsResultWord: the last result of a return whose other results are nil
func fsResultWord(ret *ast.ReturnStmt) string {
	if ret == nil || len(ret.Results) == 0 {
		return "unknown"
	}
	for _, r := range ret.Results[:len(ret.Results)-1] {
		if !crIsNil(r) {
			return "unknown"
		}
	}
	last := crUnparen(ret.Results[len(ret.Results)-1])
	if crIsNil(last) {
		return "nil"
	}
	if se, ok := last.(*ast.SelectorExpr); ok && se.Sel.Name == "ErrNotExist" {
		if id, ok := se.X.(*ast.Ident); ok && id.Name == "storage" && id.Obj == nil {
			return "errNotExist"
		}
	}
	return "unknown"
}

// fsSearchFn: the function that searches the message list for an id, starting from an exported entry point: the entry
// itself when its body has a top-level loop over the list, else the first package-local callee (two levels deep) that has
// fsListLoop: a loop over the whole message list — `for … := range <list>` or the index form `for i := …; i < len(<list>); i++` — and its body
func fsListLoop(p *crPkg, s ast.Stmt) (*ast.BlockStmt, bool) {
	switch l := s.(type) {
	case *ast.RangeStmt:
		if fsIsField(l.X, p.sliceField) {
			return l.Body, true
		}
	case *ast.ForStmt:
		be, ok := crUnparen(l.Cond).(*ast.BinaryExpr)
		if !ok || l.Cond == nil {
			return nil, false
		}
		var lenSide ast.Expr
		switch be.Op {
		case token.LSS, token.NEQ:
			lenSide = be.Y
		case token.GTR:
			lenSide = be.X
		default:
			return nil, false
		}
		if ce, ok := crUnparen(lenSide).(*ast.CallExpr); ok && len(ce.Args) == 1 {
			if id, ok := ce.Fun.(*ast.Ident); ok && id.Name == "len" && fsIsField(ce.Args[0], p.sliceField) {
				return l.Body, true
			}
		}
	}
	return nil, false
}

func fsSearchFn(p *crPkg, fd *ast.FuncDecl, loader *ast.FuncDecl, depth int) *ast.FuncDecl {
	if fd == nil || fd.Body == nil || fd == loader {
		return nil
	}
	for _, s := range fd.Body.List {
		if _, ok := fsListLoop(p, s); ok {
			return fd
		}
	}
	if depth == 0 {
		return nil
	}
	for _, ce := range callsIn(fd.Body) {
		if c := fsPkgCallee(p, ce); c != nil && c != fd {
			if r := fsSearchFn(p, c, loader, depth-1); r != nil {
				return r
			}
		}
	}
	return nil
}

// fsNotFound: what the search function answers when no entry of the list matches.
//
//	(a) marker form: a local set inside the search loop and tested against its initial value right after it
//	    (`var m *T … if m == nil`, `i := -1 … if i < 0`, `ok := false … if !ok`) with a body that is one return;
//	(b) fall-through form: the loop returns from inside on a match and the statement right after it is the final return.
func fsNotFound(p *crPkg, fd *ast.FuncDecl) string {
	if fd == nil {
		return "unknown"
	}
	body := fd.Body.List
	li := -1
	var loopBody *ast.BlockStmt
	for i, s := range body {
		if lb, ok := fsListLoop(p, s); ok {
			li, loopBody = i, lb
			break
		}
	}
	if li < 0 || li+1 >= len(body) {
		return "unknown"
	}
	// variables assigned inside the loop
	assigned := map[*ast.Object]bool{}
	ast.Inspect(loopBody, func(x ast.Node) bool {
		if as, ok := x.(*ast.AssignStmt); ok && as.Tok == token.ASSIGN {
			for _, l := range as.Lhs {
				if id, ok := l.(*ast.Ident); ok && id.Obj != nil {
					assigned[id.Obj] = true
				}
			}
		}
		return true
	})
	next := body[li+1]
	if is, ok := next.(*ast.IfStmt); ok && is.Init == nil && is.Else == nil && len(is.Body.List) == 1 {
		ret, isRet := is.Body.List[0].(*ast.ReturnStmt)
		if isRet && fsSentinelTest(is.Cond, assigned) {
			return fsResultWord(ret)
		}
		return "unknown"
	}
	if ret, ok := next.(*ast.ReturnStmt); ok && li+2 == len(body) {
		// the loop must leave the function on a match (otherwise the final return is not the not-found answer)
		returns := false
		ast.Inspect(loopBody, func(x ast.Node) bool {
			if _, ok := x.(*ast.ReturnStmt); ok {
				returns = true
			}
			return true
		})
		if returns {
			return fsResultWord(ret)
		}
	}
	return "unknown"
}

// fsSentinelTest: cond tests a variable assigned in the search loop against the value it was initialised with
func fsSentinelTest(cond ast.Expr, assigned map[*ast.Object]bool) bool {
	cond = crUnparen(cond)
	initOf := func(id *ast.Ident) string {
		if id.Obj == nil || !assigned[id.Obj] {
			return ""
		}
		switch d := id.Obj.Decl.(type) {
		case *ast.ValueSpec: // var v T
			for k, n := range d.Names {
				if n.Obj == id.Obj {
					if k < len(d.Values) {
						return src(d.Values[k])
					}
					if _, ptr := d.Type.(*ast.StarExpr); ptr {
						return "nil"
					}
				}
			}
		case *ast.AssignStmt:
			for k, l := range d.Lhs {
				if li, ok := l.(*ast.Ident); ok && li.Obj == id.Obj && len(d.Lhs) == len(d.Rhs) {
					return src(d.Rhs[k])
				}
			}
		}
		return ""
	}
	if u, ok := cond.(*ast.UnaryExpr); ok && u.Op == token.NOT {
		id, ok := crUnparen(u.X).(*ast.Ident)
		return ok && initOf(id) == "false"
	}
	be, ok := cond.(*ast.BinaryExpr)
	if !ok {
		return false
	}
	id, ok := crUnparen(be.X).(*ast.Ident)
	if !ok {
		return false
	}
	switch initOf(id) {
	case "nil":
		return be.Op == token.EQL && crIsNil(be.Y)
	case "-1":
		return (be.Op == token.LSS && fsIntLit(be.Y, "0")) || (be.Op == token.EQL && src(be.Y) == "-1")
	}
	return false
}

// ---- the cap loop and the id draw -----------------------------------------------------------------------

// fsCmpOperands: `a <op> b` normalised to >= / > (so `b <= a` is `a >= b`)
func fsCmpOperands(e ast.Expr, want token.Token) (ast.Expr, ast.Expr, bool) {
	be, ok := crUnparen(e).(*ast.BinaryExpr)
	if !ok {
		return nil, nil, false
	}
	switch {
	case be.Op == want:
		return crUnparen(be.X), crUnparen(be.Y), true
	case want == token.GEQ && be.Op == token.LEQ, want == token.GTR && be.Op == token.LSS:
		return crUnparen(be.Y), crUnparen(be.X), true
	}
	return nil, nil, false
}

// fsIsLenOfList: e is len(<box>.<message list>)
func fsIsLenOfList(p *crPkg, e ast.Expr) bool {
	ce, ok := crUnparen(e).(*ast.CallExpr)
	return ok && len(ce.Args) == 1 && src(ce.Fun) == "len" && fsIsField(ce.Args[0], p.sliceField)
}

// fsIsHeadID: e is <list>[0].ID() / <list>[0].Fid, possibly through a local defined as that
func fsIsHeadID(p *crPkg, e ast.Expr) bool {
	e = p.defOf(e)
	var base ast.Expr
	switch v := e.(type) {
	case *ast.CallExpr:
		se, ok := crUnparen(v.Fun).(*ast.SelectorExpr)
		if !ok || se.Sel.Name != "ID" || len(v.Args) != 0 {
			return false
		}
		base = se.X
	case *ast.SelectorExpr:
		if v.Sel.Name != "Fid" {
			return false
		}
		base = v.X
	default:
		return false
	}
	ix, ok := p.defOf(base).(*ast.IndexExpr) // <list>[0], or a local defined as that
	return ok && fsIsField(ix.X, p.sliceField) && fsIntLit(ix.Index, "0")
}

// fsCapLoops: the `for` loops of a body with the conjuncts of their own condition and of the `if`s (then-branches) around
// them; a loop inside an else-branch or another loop gets the conjunct nil (never accepted)
type fsLoop struct {
	stmt  *ast.ForStmt
	conds []ast.Expr
}

func fsCapLoops(stmts []ast.Stmt, conds []ast.Expr, out *[]fsLoop) {
	for _, s := range stmts {
		switch v := s.(type) {
		case *ast.BlockStmt:
			fsCapLoops(v.List, conds, out)
		case *ast.IfStmt:
			fsCapLoops(v.Body.List, append(append([]ast.Expr{}, conds...), crConjuncts(v.Cond)...), out)
			if v.Else != nil {
				fsCapLoops([]ast.Stmt{v.Else}, append(append([]ast.Expr{}, conds...), nil), out)
			}
		case *ast.ForStmt:
			cs := append([]ast.Expr{}, conds...)
			if v.Cond != nil {
				cs = append(cs, crConjuncts(v.Cond)...)
			} else {
				cs = append(cs, nil)
			}
			*out = append(*out, fsLoop{v, cs})
		}
	}
}

// fsHasIDShape: `func (b *box) has(id string) bool { for _, m := range b.<list> { if m.Fid == id { return true } }; return false }`
// (names free; the comparison may be written either way round and may use m.ID())
func fsHasIDShape(p *crPkg, fd *ast.FuncDecl) bool {
	if fd == nil || fd.Body == nil || len(fd.Body.List) != 2 {
		return false
	}
	par := fsParamObj(fd)
	rs, ok := fd.Body.List[0].(*ast.RangeStmt)
	if !ok || par == nil || !fsIsField(rs.X, p.sliceField) || rs.Value == nil || len(rs.Body.List) != 1 {
		return false
	}
	vid, ok := rs.Value.(*ast.Ident)
	if !ok || vid.Obj == nil {
		return false
	}
	is, ok := rs.Body.List[0].(*ast.IfStmt)
	if !ok || is.Init != nil || is.Else != nil || len(is.Body.List) != 1 {
		return false
	}
	be, ok := crUnparen(is.Cond).(*ast.BinaryExpr)
	if !ok || be.Op != token.EQL {
		return false
	}
	isElemID := func(e ast.Expr) bool {
		e = crUnparen(e)
		if ce, ok := e.(*ast.CallExpr); ok && len(ce.Args) == 0 {
			if se, ok := ce.Fun.(*ast.SelectorExpr); ok && se.Sel.Name == "ID" {
				return fsIsVar(se.X, vid.Obj)
			}
			return false
		}
		se, ok := e.(*ast.SelectorExpr)
		return ok && se.Sel.Name == "Fid" && fsIsVar(se.X, vid.Obj)
	}
	if !(isElemID(be.X) && fsIsVar(be.Y, par)) && !(isElemID(be.Y) && fsIsVar(be.X, par)) {
		return false
	}
	r1, ok := is.Body.List[0].(*ast.ReturnStmt)
	if !ok || len(r1.Results) != 1 || src(r1.Results[0]) != "true" {
		return false
	}
	r2, ok := fd.Body.List[1].(*ast.ReturnStmt)
	return ok && len(r2.Results) == 1 && src(r2.Results[0]) == "false"
}

// ---- the extractor --------------------------------------------------------------------------------------

func extractFileStore() {
	g := gen("FileStore")
	p := crFilePkg()
	loader := fsLoader(p)

	// -- storeFields / storeHasCache
	kinds := map[string]bool{}
	hasCache := "unknown"
	if ts, ok := p.types["Store"]; ok {
		if st, ok := ts.Type.(*ast.StructType); ok {
			hasCache = "no"
			for _, fl := range st.Fields.List {
				kinds[fsKind(fl.Type)] = true
				ast.Inspect(fl.Type, func(x ast.Node) bool {
					switch v := x.(type) {
					case *ast.MapType, *ast.ArrayType, *ast.ChanType:
						hasCache = "unknown"
					case *ast.SelectorExpr:
						return false // a type of another package
					case *ast.Ident:
						if _, local := p.types[v.Name]; local {
							hasCache = "unknown"
						}
					}
					return true
				})
			}
		}
	}
	ks := []string{}
	for k := range kinds {
		ks = append(ks, k)
	}
	sort.Strings(ks)
	g.def("storeFields", "List String", strList(ks),
		"the kinds (map | slice | chan | plain) that occur among the fields of `type Store struct`, sorted, without duplicates")
	g.def("storeHasCache", "String", leanStr(hasCache),
		"\"no\" iff no Store field type contains a map / slice / channel type or names a type declared in package file (the mailbox struct, Message, …)")

	// -- mboxPerCall
	perCall := "unknown"
	if lits := p.boxLiterals(); len(lits) > 0 && p.sliceField != "" && p.boolField != "" {
		perCall = "fresh"
		for _, cl := range lits {
			for _, el := range cl.Elts {
				kv, ok := el.(*ast.KeyValueExpr)
				if !ok { // positional literal: fields cannot be told apart
					perCall = "unknown"
					continue
				}
				if k := src(kv.Key); k == p.sliceField || k == p.boolField {
					perCall = "unknown"
				}
			}
		}
	}
	g.def("mboxPerCall", "String", leanStr(perCall),
		"\"fresh\" iff every composite literal of the mailbox struct (the struct embedding sync.RWMutex) in the package is keyed and sets neither its message list (only slice field) nor its loaded flag (only bool field)")

	// -- loadsIndexFirst
	lp := []string{}
	if loader != nil && p.sliceField != "" && p.boolField != "" {
		for _, fd := range p.exportedMethods("Store") {
			pr := (&crWalk{p: p, mode: crModeLoad, loader: loader}).prog(fd)
			switch fsFirstAccess(pr) {
			case "guarded":
				lp = append(lp, fmt.Sprintf("(%s, true)", leanStr(fd.Name.Name)))
			case "bad":
				lp = append(lp, fmt.Sprintf("(%s, false)", leanStr(fd.Name.Name)))
			}
		}
	}
	g.def("loadsIndexFirst", "List (String × Bool)", "["+strings.Join(lp, ", ")+"]",
		"per exported Store method that touches the message list (helpers inlined): on every path the first touch comes after `if !<loaded flag> { <loader>() }` (any equivalent layout, e.g. a helper `if <flag> { return nil }; return <loader>()`) or after an unconditional call of the loader; the loader is the function that sets the flag to true")

	// -- readIndexResets
	resets := "unknown"
	if loader != nil {
		for _, s := range loader.Body.List {
			touches := false
			ast.Inspect(s, func(x ast.Node) bool {
				if e, ok := x.(ast.Expr); ok && fsIsField(e, p.sliceField) {
					touches = true
				}
				return true
			})
			if !touches {
				continue
			}
			if as, ok := s.(*ast.AssignStmt); ok && as.Tok == token.ASSIGN && len(as.Lhs) == 1 && len(as.Rhs) == 1 && fsIsField(as.Lhs[0], p.sliceField) {
				if se, ok := as.Rhs[0].(*ast.SliceExpr); ok && fsIsField(se.X, p.sliceField) && se.Low == nil && se.High != nil && fsIntLit(se.High, "0") && !se.Slice3 {
					resets = "truncates"
				}
				if crIsNil(as.Rhs[0]) {
					resets = "truncates"
				}
			}
			break // only the first statement that touches the list counts
		}
	}
	g.def("readIndexResets", "String", leanStr(resets),
		"\"truncates\" iff the first top-level statement of the index loader that touches the message list is `<list> = <list>[:0]` (or `= nil`)")

	// -- fileIndexWrite / writeIndexEmptyRemovesDir
	idxWrite, emptyRemoves := "unknown", "unknown"
	if wi := crIndexWriter(p); wi != nil {
		pr := (&crWalk{p: p, mode: crModeFS}).prog(wi)
		switch crIndexWriteKind(pr) {
		case "tmpRename":
			idxWrite = "tempThenRename"
		case "inPlace":
			idxWrite = "createInPlace"
		}
		if len(pr) == 1 && pr[0].kind == 1 && len(pr[0].alt) == 2 {
			var empty, nonempty []crItem
			for _, b := range pr[0].alt {
				if len(b) > 0 && b[0].kind == 0 && b[0].atom == "[empty]" {
					empty = b
				}
				if len(b) > 0 && b[0].kind == 0 && b[0].atom == "[nonempty]" {
					nonempty = b
				}
			}
			okE := empty != nil && crIndexOf(crFlat(empty), "removeall(dir)") >= 0
			for _, a := range crFlat(empty) {
				if !strings.HasPrefix(a, "@") && !strings.HasPrefix(a, "unlink(") && a != "removeall(dir)" {
					okE = false
				}
			}
			okN := nonempty != nil
			for _, a := range crFlat(nonempty) {
				if strings.HasPrefix(a, "removeall(") || strings.HasPrefix(a, "unlink(") || strings.HasPrefix(a, "?") {
					okN = false
				}
			}
			if okE && okN {
				emptyRemoves = "yes"
			}
		}
	}
	g.def("fileIndexWrite", "String", leanStr(idxWrite),
		"the index writer (the function calling os.Rename, else the one creating dir/index.gob), helpers inlined: \"tempThenRename\" = the only file it creates is dir/index.gob<suffix> and os.Rename(<that file>, dir/index.gob) follows; \"createInPlace\" = it creates dir/index.gob itself, no rename")
	g.def("writeIndexEmptyRemovesDir", "String", leanStr(emptyRemoves),
		"\"yes\" iff the index writer is one two-way test of len(<message list>) against 0 whose [empty] side only unlinks / os.RemoveAll(dir)s (the directory remover) and whose [nonempty] side removes nothing")

	// -- fileRemoveDir
	removeDir := "unknown"
	switch crRemoveDirKind(crOne(p, "os", "RemoveAll")) {
	case "indexFirst":
		removeDir = "indexFirst"
	case "removeAllFirst":
		removeDir = "removeAll"
	}
	g.def("fileRemoveDir", "String", leanStr(removeDir),
		"the function calling os.RemoveAll: \"indexFirst\" = os.Remove(dir/index.gob) before the only os.RemoveAll(dir); \"removeAll\" = no unlink of the index before it")

	// -- the three not-found outcomes
	nf := func(entry string) string {
		return fsNotFound(p, fsSearchFn(p, p.method("Store", entry), loader, 2))
	}
	nfNote := ": the answer when the search loop over the message list (in the method or a helper it calls) matches nothing — the return guarded by the found-marker test right after the loop, or the final return the loop falls through to; \"errNotExist\" = storage.ErrNotExist (other results nil), \"nil\" = all nil"
	g.def("markSeenNotFound", "String", leanStr(nf("MarkSeen")), "Store.MarkSeen"+nfNote)
	g.def("getNotFound", "String", leanStr(nf("GetMessage")), "Store.GetMessage"+nfNote)
	g.def("removeNotFound", "String", leanStr(nf("RemoveMessage")), "Store.RemoveMessage"+nfNote)

	// -- capLoopShape / fileIdCollisionCheck
	capShape, collision := "unknown", "unknown"
	nm, idExpr := fsMessageCtor(p)
	var idObj *ast.Object
	var genFn *ast.FuncDecl
	var defStmt *ast.AssignStmt
	if id, ok := idExpr.(*ast.Ident); ok && id.Obj != nil {
		if as, ok := id.Obj.Decl.(*ast.AssignStmt); ok && as.Tok == token.DEFINE && len(as.Lhs) == 1 && len(as.Rhs) == 1 {
			if ce, ok := as.Rhs[0].(*ast.CallExpr); ok {
				if fd := fsPkgCallee(p, ce); fd != nil && fd.Recv == nil {
					idObj, genFn, defStmt = id.Obj, fd, as
				}
			}
		}
	}
	isGenCall := func(e ast.Expr) bool {
		ce, ok := crUnparen(e).(*ast.CallExpr)
		return ok && genFn != nil && fsPkgCallee(p, ce) == genFn
	}
	if nm != nil && genFn != nil {
		var loops []fsLoop
		fsCapLoops(nm.Body.List, nil, &loops)
		for i := range loops {
			if loops[i].stmt.End() >= defStmt.Pos() { // not before the draw
				loops[i].conds = append(loops[i].conds, nil)
			}
		}
		// … or in a package helper called (unconditionally, at the top level of the constructor) before the draw
		for _, s := range nm.Body.List {
			if s.End() >= defStmt.Pos() {
				break
			}
			var call ast.Expr
			switch v := s.(type) {
			case *ast.ExprStmt:
				call = v.X
			case *ast.AssignStmt:
				if len(v.Rhs) == 1 {
					call = v.Rhs[0]
				}
			case *ast.IfStmt: // if err := helper(); err != nil { … }
				if as, ok := v.Init.(*ast.AssignStmt); ok && len(as.Rhs) == 1 {
					call = as.Rhs[0]
				}
			}
			if ce, ok := call.(*ast.CallExpr); ok {
				if h := fsPkgCallee(p, ce); h != nil && h != loader && h != nm {
					fsCapLoops(h.Body.List, nil, &loops)
				}
			}
		}
		for _, l := range loops {
			fs := l.stmt
			if fs.Init != nil || fs.Post != nil || len(l.conds) != 2 {
				continue
			}
			// { len(list) >= C , C > 0 } with the same C
			var capA, capB ast.Expr
			for _, c := range l.conds {
				if c == nil {
					continue
				}
				if x, y, ok := fsCmpOperands(c, token.GEQ); ok && fsIsLenOfList(p, x) {
					capA = y
				} else if x, y, ok := fsCmpOperands(c, token.GTR); ok && fsIntLit(y, "0") {
					capB = x
				}
			}
			if capA == nil || capB == nil || src(capA) != src(capB) || fsLeaves(fs.Body) {
				continue
			}
			// the body removes <list>[0] through a package function that rewrites the index
			for _, ce := range callsIn(fs.Body) {
				callee := fsPkgCallee(p, ce)
				if callee == nil || len(ce.Args) != 1 || !fsIsHeadID(p, ce.Args[0]) {
					continue
				}
				flat := crFlat((&crWalk{p: p, mode: crModeFS}).prog(callee))
				rewrites := false
				for _, a := range flat {
					if strings.HasPrefix(a, "rename(") || strings.HasPrefix(a, "removeall(") || a == "create(dir/index.gob)" {
						rewrites = true
					}
				}
				if rewrites {
					capShape = "evictFirstBeforeAdd"
				}
			}
		}

		// the id draw
		nGen := 0
		for _, ce := range callsIn(nm.Body) {
			if isGenCall(ce) {
				nGen++
			}
		}
		after := 0
		okLoop := false
		var has *ast.FuncDecl
		ast.Inspect(nm.Body, func(x ast.Node) bool {
			fs, ok := x.(*ast.ForStmt)
			if !ok || fs.Pos() < defStmt.End() {
				return true
			}
			after++
			if ce, ok := fs.Cond.(*ast.CallExpr); ok && fs.Init == nil && fs.Post == nil && len(ce.Args) == 1 && fsIsVar(ce.Args[0], idObj) {
				has = fsPkgCallee(p, ce)
				redraw := false
				ast.Inspect(fs.Body, func(y ast.Node) bool {
					if as, ok := y.(*ast.AssignStmt); ok && as.Tok == token.ASSIGN && len(as.Lhs) == 1 && len(as.Rhs) == 1 && fsIsVar(as.Lhs[0], idObj) && isGenCall(as.Rhs[0]) {
						redraw = true
					}
					return true
				})
				okLoop = redraw && !fsLeaves(fs.Body)
			}
			return true
		})
		switch {
		case after == 1 && okLoop && fsHasIDShape(p, has) && nGen == 2:
			collision = "skipsExisting"
		case after == 0 && nGen == 1:
			collision = "none"
		}
	}
	g.def("capLoopShape", "String", leanStr(capShape),
		"the message constructor (the function building `Message{… Fid: id …}`): \"evictFirstBeforeAdd\" iff before the id is drawn there is a `for` loop whose condition, together with the `if`s around it, is exactly { len(<list>) >= C, C > 0 } (folded into the loop condition or not), without break / return, whose body passes <list>[0].ID() to a package function that rewrites the index")
	g.def("fileIdCollisionCheck", "String", leanStr(collision),
		"the message constructor: \"skipsExisting\" = the variable that becomes Fid is drawn by a package function G and then re-drawn by `for <has>(id) { … id = G(..) … }` (no break / return) where <has> is `for _, m := range <list> { if m.Fid == id { return true } }; return false`; \"none\" = one draw, no loop after it")

	// -- hasIDSearch / redrawLoop (filestore_ids.go)
	fsIdsFacts(g, p, nm, idObj, genFn, loader, defStmt)

	// -- idGenerator
	idGen := "unknown"
	if genFn != nil {
		okID, okPf, okCnt, started := false, false, false, false
		var chanName string
		gp := fsParamObj(genFn)
		if b := fsBody(genFn); len(b) == 1 && gp != nil {
			if ret, ok := b[0].(*ast.ReturnStmt); ok && len(ret.Results) == 1 {
				// (P(p) + "-") + fmt.Sprintf("%04d", <-CH)
				if outer, ok := crUnparen(ret.Results[0]).(*ast.BinaryExpr); ok && outer.Op == token.ADD {
					inner, ok1 := crUnparen(outer.X).(*ast.BinaryExpr)
					ce, ok2 := crUnparen(outer.Y).(*ast.CallExpr)
					if ok1 && ok2 && inner.Op == token.ADD && p.isPkgCall(ce, "fmt", "Sprintf") && len(ce.Args) == 2 {
						dash, okDash := fsStrLit(inner.Y)
						f, okF := fsStrLit(ce.Args[0])
						u, okU := crUnparen(ce.Args[1]).(*ast.UnaryExpr)
						pc, okP := crUnparen(inner.X).(*ast.CallExpr)
						if okDash && dash == "-" && okF && f == "%04d" && okU && u.Op == token.ARROW && okP && len(pc.Args) == 1 && fsIsVar(pc.Args[0], gp) {
							if ch, ok := crUnparen(u.X).(*ast.Ident); ok {
								// a package-level channel of int
								if mk, ok := p.consts[ch.Name].(*ast.CallExpr); ok && src(mk.Fun) == "make" && len(mk.Args) >= 1 {
									if ct, ok := mk.Args[0].(*ast.ChanType); ok && src(ct.Value) == "int" {
										chanName = ch.Name
										okID = true
									}
								}
							}
							// the prefix function: return <param>.Format("20060102T150405")
							if pf := fsPkgCallee(p, pc); pf != nil {
								pp := fsParamObj(pf)
								if pb := fsBody(pf); len(pb) == 1 && pp != nil {
									if r, ok := pb[0].(*ast.ReturnStmt); ok && len(r.Results) == 1 {
										if fc, ok := crUnparen(r.Results[0]).(*ast.CallExpr); ok && len(fc.Args) == 1 {
											if se, ok := fc.Fun.(*ast.SelectorExpr); ok && se.Sel.Name == "Format" && fsIsVar(se.X, pp) {
												if l, ok := fsStrLit(fc.Args[0]); ok && l == "20060102T150405" {
													okPf = true
												}
											}
										}
									}
								}
							}
						}
					}
				}
			}
		}
		// the counter: a package function `for i := 0; …; i = (i + 1) % 10000 { c <- i }` started by `go <it>(CH)` in an init()
		var counter *ast.FuncDecl
		for _, f := range p.files {
			for _, d := range f.Decls {
				fd, ok := d.(*ast.FuncDecl)
				if !ok || fd.Recv != nil {
					continue
				}
				cp := fsParamObj(fd)
				b := fsBody(fd)
				if cp == nil || len(b) != 1 {
					continue
				}
				fs, ok := b[0].(*ast.ForStmt)
				if !ok || fs.Init == nil || fs.Post == nil || len(fs.Body.List) != 1 {
					continue
				}
				in, ok1 := fs.Init.(*ast.AssignStmt)
				po, ok2 := fs.Post.(*ast.AssignStmt)
				snd, ok3 := fs.Body.List[0].(*ast.SendStmt)
				if !ok1 || !ok2 || !ok3 || in.Tok != token.DEFINE || len(in.Lhs) != 1 || len(in.Rhs) != 1 || !fsIntLit(in.Rhs[0], "0") ||
					po.Tok != token.ASSIGN || len(po.Lhs) != 1 || len(po.Rhs) != 1 {
					continue
				}
				iv, ok := in.Lhs[0].(*ast.Ident)
				if !ok || iv.Obj == nil || !fsIsVar(po.Lhs[0], iv.Obj) || !fsIsVar(snd.Value, iv.Obj) || !fsIsVar(snd.Chan, cp) {
					continue
				}
				if fs.Cond != nil && src(fs.Cond) != "true" {
					continue
				}
				if rem, ok := crUnparen(po.Rhs[0]).(*ast.BinaryExpr); ok && rem.Op == token.REM && fsIntLit(rem.Y, "10000") {
					if add, ok := crUnparen(rem.X).(*ast.BinaryExpr); ok && add.Op == token.ADD && fsIsVar(add.X, iv.Obj) && fsIntLit(add.Y, "1") {
						counter = fd
						okCnt = true
					}
				}
			}
		}
		for _, in := range p.funcs["init"] {
			fsInspect(in, func(x ast.Node) bool {
				if gs, ok := x.(*ast.GoStmt); ok && counter != nil && fsPkgCallee(p, gs.Call) == counter && len(gs.Call.Args) == 1 {
					if a, ok := gs.Call.Args[0].(*ast.Ident); ok && a.Name == chanName && chanName != "" {
						started = true
					}
				}
				return true
			})
		}
		if okID && okPf && okCnt && started {
			idGen = "secondPlusCounterMod10000"
		}
	}
	g.def("idGenerator", "String", leanStr(idGen),
		"the function G that draws Fid is `return P(t) + \"-\" + fmt.Sprintf(\"%04d\", <-CH)` with P = `return t.Format(\"20060102T150405\")` (one-second resolution) and CH a package-level `chan int` fed by a package function `for i := 0; ; i = (i + 1) % 10000 { c <- i }` that an init() starts with `go`: a process-wide counter that restarts at 0 with the process")
}
