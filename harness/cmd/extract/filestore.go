package main

// T1 facts about the file store (pkg/storage/file/{fstore,mbox,fmessage}.go) that the model
// lean/Ibx/Model/FileStore.lean relies on.  Every fact is recognised from the SHAPE of the code (go/ast);
// a shape that is not recognised comes out as "unknown" / false, which no tie theorem accepts.

import (
	"fmt"
	"go/ast"
	"go/token"
	"strconv"
	"strings"
)

func init() { extractors = append(extractors, extractFileStore) }

// ---- small structural helpers -------------------------------------------------------------------------

// fsBody: the statements of a function declaration ([] when absent).
func fsBody(fd *ast.FuncDecl) []ast.Stmt {
	if fd == nil || fd.Body == nil {
		return nil
	}
	return fd.Body.List
}

// fsInspect walks the body of fd (nothing when absent).
func fsInspect(fd *ast.FuncDecl, f func(ast.Node) bool) {
	if fd == nil || fd.Body == nil {
		return
	}
	ast.Inspect(fd.Body, f)
}

// fsCalls: all calls of the function printed as `name` inside n, in source order.
func fsCalls(n ast.Node, name string) []*ast.CallExpr {
	var res []*ast.CallExpr
	if n == nil {
		return res
	}
	ast.Inspect(n, func(x ast.Node) bool {
		if ce, ok := x.(*ast.CallExpr); ok && src(ce.Fun) == name {
			res = append(res, ce)
		}
		return true
	})
	return res
}

// fsRecvName: the receiver's variable name ("" when there is none).
func fsRecvName(fd *ast.FuncDecl) string {
	if fd == nil || fd.Recv == nil || len(fd.Recv.List) != 1 || len(fd.Recv.List[0].Names) != 1 {
		return ""
	}
	return fd.Recv.List[0].Names[0].Name
}

// fsStructFields: the fields of `type <name> struct` in f as (field name, type expression).
func fsStructFields(f *ast.File, name string) (names []string, types []ast.Expr, found bool) {
	if f == nil {
		return
	}
	for _, d := range f.Decls {
		gd, ok := d.(*ast.GenDecl)
		if !ok || gd.Tok != token.TYPE {
			continue
		}
		for _, s := range gd.Specs {
			ts, ok := s.(*ast.TypeSpec)
			if !ok || ts.Name.Name != name {
				continue
			}
			st, ok := ts.Type.(*ast.StructType)
			if !ok {
				return nil, nil, false
			}
			found = true
			for _, fl := range st.Fields.List {
				if len(fl.Names) == 0 { // embedded
					names = append(names, src(fl.Type))
					types = append(types, fl.Type)
					continue
				}
				for _, n := range fl.Names {
					names = append(names, n.Name)
					types = append(types, fl.Type)
				}
			}
			return
		}
	}
	return
}

func fsKind(t ast.Expr) string {
	switch t.(type) {
	case *ast.MapType:
		return "map"
	case *ast.ArrayType:
		return "slice"
	case *ast.ChanType:
		return "chan"
	}
	return "plain"
}

// fsIsNotLoaded: e is `!<mb>.indexLoaded`.
func fsIsNotLoaded(e ast.Expr, mb string) bool {
	u, ok := e.(*ast.UnaryExpr)
	return ok && u.Op == token.NOT && src(u.X) == mb+".indexLoaded"
}

// fsLoadsIndexFirst: body has `if !mb.indexLoaded { … mb.readIndex() … }` before the first use of mb.messages.
// mb is the name of the mbox variable (receiver of the mbox methods; the local `mb` of the Store methods).
func fsLoadsIndexFirst(fd *ast.FuncDecl, mb string) bool {
	if fd == nil || fd.Body == nil || mb == "" {
		return false
	}
	guard := token.NoPos
	firstUse := token.NoPos
	ast.Inspect(fd.Body, func(x ast.Node) bool {
		switch v := x.(type) {
		case *ast.IfStmt:
			if guard == token.NoPos && v.Init == nil && fsIsNotLoaded(v.Cond, mb) && len(fsCalls(v.Body, mb+".readIndex")) > 0 {
				guard = v.Pos()
			}
		case *ast.SelectorExpr:
			if firstUse == token.NoPos && src(v) == mb+".messages" {
				firstUse = v.Pos()
			}
		}
		return true
	})
	if guard == token.NoPos {
		return false
	}
	// the guard must be a statement of the function body itself (not nested in a branch that may be skipped)
	top := false
	for _, s := range fd.Body.List {
		if s.Pos() == guard {
			top = true
		}
	}
	if !top {
		return false
	}
	return firstUse == token.NoPos || guard < firstUse
}

// fsMboxVar: the name of the local variable assigned from `<recv>.mbox(…)` in a Store method.
func fsMboxVar(fd *ast.FuncDecl) string {
	recv := fsRecvName(fd)
	res := ""
	fsInspect(fd, func(x ast.Node) bool {
		as, ok := x.(*ast.AssignStmt)
		if !ok || res != "" || len(as.Lhs) != 1 || len(as.Rhs) != 1 {
			return true
		}
		if ce, ok := as.Rhs[0].(*ast.CallExpr); ok && src(ce.Fun) == recv+".mbox" {
			if id, ok := as.Lhs[0].(*ast.Ident); ok {
				res = id.Name
			}
		}
		return true
	})
	return res
}

// fsFreshMbox: fd ends in `return &mbox{…}` whose literal sets neither `messages` nor `indexLoaded`.
func fsFreshMbox(fd *ast.FuncDecl) bool {
	b := fsBody(fd)
	if len(b) == 0 {
		return false
	}
	ret, ok := b[len(b)-1].(*ast.ReturnStmt)
	if !ok || len(ret.Results) != 1 {
		return false
	}
	// no other return in the function
	nret := 0
	fsInspect(fd, func(x ast.Node) bool {
		if _, ok := x.(*ast.ReturnStmt); ok {
			nret++
		}
		return true
	})
	if nret != 1 {
		return false
	}
	u, ok := ret.Results[0].(*ast.UnaryExpr)
	if !ok || u.Op != token.AND {
		return false
	}
	cl, ok := u.X.(*ast.CompositeLit)
	if !ok {
		return false
	}
	if id, ok := cl.Type.(*ast.Ident); !ok || id.Name != "mbox" {
		return false
	}
	for _, el := range cl.Elts {
		kv, ok := el.(*ast.KeyValueExpr)
		if !ok { // positional literal: fields cannot be told apart
			return false
		}
		k := src(kv.Key)
		if k == "messages" || k == "indexLoaded" {
			return false
		}
	}
	return true
}

// fsLastReturn: the results of the last statement of fd when it is a return, printed; nil otherwise.
func fsLastReturn(fd *ast.FuncDecl) []string {
	b := fsBody(fd)
	if len(b) == 0 {
		return nil
	}
	ret, ok := b[len(b)-1].(*ast.ReturnStmt)
	if !ok {
		return nil
	}
	res := []string{}
	for _, r := range ret.Results {
		res = append(res, src(r))
	}
	return res
}

func fsNotFoundWord(results []string, prefix []string) string {
	if len(results) != len(prefix)+1 {
		return "unknown"
	}
	for i, p := range prefix {
		if results[i] != p {
			return "unknown"
		}
	}
	switch results[len(results)-1] {
	case "storage.ErrNotExist":
		return "errNotExist"
	case "nil":
		return "nil"
	}
	return "unknown"
}

func fsStrLit(e ast.Expr) (string, bool) {
	lit, ok := e.(*ast.BasicLit)
	if !ok || lit.Kind != token.STRING {
		return "", false
	}
	s, err := strconv.Unquote(lit.Value)
	return s, err == nil
}

// ---- the extractor --------------------------------------------------------------------------------------

func extractFileStore() {
	g := gen("FileStore")
	fst := parse("pkg/storage/file/fstore.go")
	mbx := parse("pkg/storage/file/mbox.go")
	fmsg := parse("pkg/storage/file/fmessage.go")

	// -- storeFields / storeHasCache
	names, types, found := fsStructFields(fst, "Store")
	pairs := []string{}
	hasCache := "unknown"
	if found {
		hasCache = "no"
		for i, n := range names {
			k := fsKind(types[i])
			pairs = append(pairs, fmt.Sprintf("(%s, %s)", leanStr(n), leanStr(k)))
			t := src(types[i])
			if k != "plain" || strings.Contains(t, "mbox") || strings.Contains(t, "Message") {
				hasCache = "unknown"
			}
		}
	}
	g.def("storeFields", "List (String × String)", "["+strings.Join(pairs, ", ")+"]",
		"fields of `type Store struct` (fstore.go) as (name, kind); kind = map | slice | chan | plain")
	g.def("storeHasCache", "String", leanStr(hasCache),
		"\"no\" iff no Store field is a map / slice / channel and no field type mentions mbox or Message")

	// -- mboxPerCall
	perCall := "unknown"
	if fsFreshMbox(fn(fst, "Store", "mbox")) && fsFreshMbox(fn(fst, "Store", "mboxFromHash")) {
		perCall = "fresh"
	}
	g.def("mboxPerCall", "String", leanStr(perCall),
		"\"fresh\" iff (*Store).mbox and (*Store).mboxFromHash both end in `return &mbox{…}` setting neither messages nor indexLoaded")

	// -- loadsIndexFirst
	type lf struct {
		key string
		fd  *ast.FuncDecl
		mb  string
	}
	gm := fn(mbx, "mbox", "getMessages")
	g1 := fn(mbx, "mbox", "getMessage")
	rm := fn(mbx, "mbox", "removeMessage")
	nm := fn(fmsg, "mbox", "newMessage")
	ms := fn(fst, "Store", "MarkSeen")
	pm := fn(fst, "Store", "PurgeMessages")
	lfs := []lf{
		{"getMessages", gm, fsRecvName(gm)}, {"getMessage", g1, fsRecvName(g1)}, {"removeMessage", rm, fsRecvName(rm)},
		{"newMessage", nm, fsRecvName(nm)}, {"MarkSeen", ms, fsMboxVar(ms)}, {"PurgeMessages", pm, fsMboxVar(pm)},
	}
	lp := []string{}
	for _, x := range lfs {
		v := "false"
		if fsLoadsIndexFirst(x.fd, x.mb) {
			v = "true"
		}
		lp = append(lp, fmt.Sprintf("(%s, %s)", leanStr(x.key), v))
	}
	g.def("loadsIndexFirst", "List (String × Bool)", "["+strings.Join(lp, ", ")+"]",
		"per function: a top-level `if !mb.indexLoaded { … mb.readIndex() … }` precedes the first use of mb.messages")

	// -- readIndexResets
	ri := fn(mbx, "mbox", "readIndex")
	resets := "unknown"
	if b := fsBody(ri); len(b) > 0 {
		mb := fsRecvName(ri)
		if as, ok := b[0].(*ast.AssignStmt); ok && as.Tok == token.ASSIGN && len(as.Lhs) == 1 && len(as.Rhs) == 1 && src(as.Lhs[0]) == mb+".messages" {
			if se, ok := as.Rhs[0].(*ast.SliceExpr); ok && src(se.X) == mb+".messages" && se.Low == nil && se.High != nil && src(se.High) == "0" && !se.Slice3 {
				resets = "truncates"
			}
		}
	}
	g.def("readIndexResets", "String", leanStr(resets), "\"truncates\" iff the first statement of mbox.readIndex is `mb.messages = mb.messages[:0]`")

	// -- fileIndexWrite / writeIndexEmptyRemovesDir
	wi := fn(mbx, "mbox", "writeIndex")
	wmb := fsRecvName(wi)
	idxWrite := "unknown"
	if wi != nil && wmb != "" {
		creates := fsCalls(wi.Body, "os.Create")
		renames := fsCalls(wi.Body, "os.Rename")
		// identifiers defined as `<mb>.indexPath + "<literal>"`
		temps := map[string]bool{}
		fsInspect(wi, func(x ast.Node) bool {
			as, ok := x.(*ast.AssignStmt)
			if !ok || as.Tok != token.DEFINE || len(as.Lhs) != 1 || len(as.Rhs) != 1 {
				return true
			}
			id, ok := as.Lhs[0].(*ast.Ident)
			if !ok {
				return true
			}
			if be, ok := as.Rhs[0].(*ast.BinaryExpr); ok && be.Op == token.ADD && src(be.X) == wmb+".indexPath" {
				if s, ok := fsStrLit(be.Y); ok && s != "" {
					temps[id.Name] = true
				}
			}
			return true
		})
		if len(creates) == 1 && len(creates[0].Args) == 1 {
			arg := src(creates[0].Args[0])
			switch {
			case arg == wmb+".indexPath" && len(renames) == 0:
				idxWrite = "createInPlace"
			case temps[arg] && len(renames) == 1 && len(renames[0].Args) == 2 && src(renames[0].Args[0]) == arg &&
				src(renames[0].Args[1]) == wmb+".indexPath" && renames[0].Pos() > creates[0].Pos():
				idxWrite = "tempThenRename"
			}
		}
	}
	g.def("fileIndexWrite", "String", leanStr(idxWrite),
		"mbox.writeIndex: \"tempThenRename\" = os.Create(mb.indexPath + lit) … os.Rename(tmp, mb.indexPath); \"createInPlace\" = os.Create(mb.indexPath), no rename")

	emptyRemoves := "unknown"
	for _, s := range fsBody(wi) {
		is, ok := s.(*ast.IfStmt)
		if !ok || is.Init != nil {
			continue
		}
		be, ok := is.Cond.(*ast.BinaryExpr)
		if !ok || be.Op != token.GTR || src(be.X) != "len("+wmb+".messages)" || src(be.Y) != "0" {
			continue
		}
		eb, ok := is.Else.(*ast.BlockStmt)
		if !ok || len(eb.List) == 0 {
			continue
		}
		// the else branch does nothing to the file system but `return mb.removeDir()` (log calls allowed)
		ret, ok := eb.List[len(eb.List)-1].(*ast.ReturnStmt)
		if !ok || len(ret.Results) != 1 || src(ret.Results[0]) != wmb+".removeDir()" {
			continue
		}
		if len(fsCalls(is.Body, wmb+".removeDir")) == 0 {
			emptyRemoves = "yes"
		}
	}
	g.def("writeIndexEmptyRemovesDir", "String", leanStr(emptyRemoves),
		"\"yes\" iff mbox.writeIndex is `if len(mb.messages) > 0 { … } else { … return mb.removeDir() }`")

	// -- fileRemoveDir
	rd := fn(mbx, "mbox", "removeDir")
	rmb := fsRecvName(rd)
	removeDir := "unknown"
	if rd != nil && rmb != "" {
		var idxRemove, all token.Pos
		nAll := 0
		for _, ce := range fsCalls(rd.Body, "os.Remove") {
			if len(ce.Args) == 1 && src(ce.Args[0]) == rmb+".indexPath" && idxRemove == token.NoPos {
				idxRemove = ce.Pos()
			}
		}
		for _, ce := range fsCalls(rd.Body, "os.RemoveAll") {
			if len(ce.Args) == 1 && src(ce.Args[0]) == rmb+".path" {
				nAll++
				if all == token.NoPos {
					all = ce.Pos()
				}
			}
		}
		switch {
		case nAll == 1 && idxRemove != token.NoPos && idxRemove < all:
			removeDir = "indexFirst"
		case nAll == 1 && idxRemove == token.NoPos:
			removeDir = "removeAll"
		}
	}
	g.def("fileRemoveDir", "String", leanStr(removeDir),
		"mbox.removeDir: \"indexFirst\" = os.Remove(mb.indexPath) before os.RemoveAll(mb.path); \"removeAll\" = only os.RemoveAll(mb.path)")

	// -- the three not-found outcomes
	g.def("markSeenNotFound", "String", leanStr(fsNotFoundWord(fsLastReturn(ms), nil)), "last statement of Store.MarkSeen")
	g.def("getNotFound", "String", leanStr(fsNotFoundWord(fsLastReturn(g1), []string{"nil"})), "last statement of mbox.getMessage")
	rmNF := "unknown"
	for _, s := range fsBody(rm) {
		is, ok := s.(*ast.IfStmt)
		if !ok || is.Init != nil || is.Else != nil || len(is.Body.List) != 1 {
			continue
		}
		be, ok := is.Cond.(*ast.BinaryExpr)
		if !ok || be.Op != token.EQL || src(be.X) != "msg" || src(be.Y) != "nil" {
			continue
		}
		if ret, ok := is.Body.List[0].(*ast.ReturnStmt); ok && len(ret.Results) == 1 {
			rmNF = fsNotFoundWord([]string{src(ret.Results[0])}, nil)
		}
	}
	g.def("removeNotFound", "String", leanStr(rmNF), "mbox.removeMessage: `if msg == nil { return … }`")

	// -- capLoopShape
	capShape := "unknown"
	if nm != nil {
		mb := fsRecvName(nm)
		capExpr := mb + ".store.messageCap"
		genPos := token.NoPos
		if cs := fsCalls(nm.Body, "generateID"); len(cs) >= 1 {
			genPos = cs[0].Pos() // the first draw of an id
		}
		for _, s := range fsBody(nm) {
			is, ok := s.(*ast.IfStmt)
			if !ok || is.Init != nil || is.Else != nil {
				continue
			}
			be, ok := is.Cond.(*ast.BinaryExpr)
			if !ok || be.Op != token.GTR || src(be.X) != capExpr || src(be.Y) != "0" || len(is.Body.List) != 1 {
				continue
			}
			fs, ok := is.Body.List[0].(*ast.ForStmt)
			if !ok || fs.Init != nil || fs.Post != nil {
				continue
			}
			fc, ok := fs.Cond.(*ast.BinaryExpr)
			if !ok || fc.Op != token.GEQ || src(fc.X) != "len("+mb+".messages)" || src(fc.Y) != capExpr {
				continue
			}
			// id := mb.messages[0].ID()  …  mb.removeMessage(id)
			idVar := ""
			for _, bs := range fs.Body.List {
				if as, ok := bs.(*ast.AssignStmt); ok && as.Tok == token.DEFINE && len(as.Lhs) == 1 && len(as.Rhs) == 1 &&
					src(as.Rhs[0]) == mb+".messages[0].ID()" {
					if id, ok := as.Lhs[0].(*ast.Ident); ok {
						idVar = id.Name
					}
				}
			}
			okRemove := false
			for _, ce := range fsCalls(fs.Body, mb+".removeMessage") {
				if idVar != "" && len(ce.Args) == 1 && src(ce.Args[0]) == idVar {
					okRemove = true
				}
			}
			// no break / return inside the loop that could leave it early with the box still full
			early := false
			ast.Inspect(fs.Body, func(x ast.Node) bool {
				switch x.(type) {
				case *ast.BranchStmt, *ast.ReturnStmt:
					early = true
				}
				return true
			})
			if okRemove && !early && genPos != token.NoPos && is.End() < genPos {
				capShape = "evictFirstBeforeAdd"
			}
		}
	}
	g.def("capLoopShape", "String", leanStr(capShape),
		"newMessage: `if cap > 0 { for len(mb.messages) >= cap { id := mb.messages[0].ID(); mb.removeMessage(id) } }` before generateID")

	// -- fileIdCollisionCheck: is a drawn id compared with the ids the mailbox already holds?
	//   "skipsExisting": `id := generateID(..)` is followed by `for mb.hasID(id) { … id = generateID(..) … }` and
	//                    hasID is `for _, m := range mb.messages { if m.Fid == id { return true } }; return false`
	//   "none":          exactly one generateID call and no loop after it
	collision := "unknown"
	if nm != nil {
		mb := fsRecvName(nm)
		cs := fsCalls(nm.Body, "generateID")
		idVar := ""
		var defPos token.Pos
		for _, st := range fsBody(nm) {
			if as, ok := st.(*ast.AssignStmt); ok && as.Tok == token.DEFINE && len(as.Lhs) == 1 && len(as.Rhs) == 1 {
				if ce, ok := as.Rhs[0].(*ast.CallExpr); ok && src(ce.Fun) == "generateID" {
					if id, ok := as.Lhs[0].(*ast.Ident); ok {
						idVar = id.Name
						defPos = as.End()
					}
				}
			}
		}
		loops := 0
		okLoop := false
		for _, st := range fsBody(nm) {
			fs, ok := st.(*ast.ForStmt)
			if !ok || idVar == "" || fs.Pos() < defPos {
				continue
			}
			loops++
			if fs.Init == nil && fs.Post == nil && fs.Cond != nil && src(fs.Cond) == mb+".hasID("+idVar+")" {
				redraw := false
				early := false
				ast.Inspect(fs.Body, func(x ast.Node) bool {
					switch v := x.(type) {
					case *ast.AssignStmt:
						if v.Tok == token.ASSIGN && len(v.Lhs) == 1 && len(v.Rhs) == 1 && src(v.Lhs[0]) == idVar {
							if ce, ok := v.Rhs[0].(*ast.CallExpr); ok && src(ce.Fun) == "generateID" {
								redraw = true
							}
						}
					case *ast.BranchStmt, *ast.ReturnStmt:
						early = true
					}
					return true
				})
				okLoop = redraw && !early
			}
		}
		okHas := false
		if hid := fn(fmsg, "mbox", "hasID"); hid == nil {
			hid = fn(mbx, "mbox", "hasID")
			okHas = fsHasIDShape(hid)
		} else {
			okHas = fsHasIDShape(hid)
		}
		switch {
		case idVar != "" && loops == 1 && okLoop && okHas && len(cs) == 2:
			collision = "skipsExisting"
		case idVar != "" && loops == 0 && len(cs) == 1:
			collision = "none"
		}
	}
	g.def("fileIdCollisionCheck", "String", leanStr(collision),
		"newMessage: is the drawn id compared with the ids already in the mailbox index (`for mb.hasID(id) { id = generateID(..) }`)")

	// -- idGenerator
	idGen := "unknown"
	gid := fn(fst, "", "generateID")
	gpf := fn(fst, "", "generatePrefix")
	cg := fn(fst, "", "countGenerator")
	okID, okPf, okCnt := false, false, false
	if b := fsBody(gid); len(b) == 1 && gid.Type.Params != nil && len(gid.Type.Params.List) == 1 && len(gid.Type.Params.List[0].Names) == 1 {
		p := gid.Type.Params.List[0].Names[0].Name
		if r := fsLastReturn(gid); len(r) == 1 {
			ret := b[0].(*ast.ReturnStmt).Results[0]
			// (generatePrefix(p) + "-") + fmt.Sprintf("%04d", <-countChannel)
			if outer, ok := ret.(*ast.BinaryExpr); ok && outer.Op == token.ADD {
				if inner, ok := outer.X.(*ast.BinaryExpr); ok && inner.Op == token.ADD && src(inner.X) == "generatePrefix("+p+")" {
					if dash, ok := fsStrLit(inner.Y); ok && dash == "-" {
						if ce, ok := outer.Y.(*ast.CallExpr); ok && src(ce.Fun) == "fmt.Sprintf" && len(ce.Args) == 2 {
							if f, ok := fsStrLit(ce.Args[0]); ok && f == "%04d" {
								if u, ok := ce.Args[1].(*ast.UnaryExpr); ok && u.Op == token.ARROW && src(u.X) == "countChannel" {
									okID = true
								}
							}
						}
					}
				}
			}
		}
	}
	if b := fsBody(gpf); len(b) == 1 {
		if ret, ok := b[0].(*ast.ReturnStmt); ok && len(ret.Results) == 1 {
			if ce, ok := ret.Results[0].(*ast.CallExpr); ok && len(ce.Args) == 1 {
				if se, ok := ce.Fun.(*ast.SelectorExpr); ok && se.Sel.Name == "Format" {
					if l, ok := fsStrLit(ce.Args[0]); ok && l == "20060102T150405" {
						okPf = true
					}
				}
			}
		}
	}
	if b := fsBody(cg); len(b) == 1 {
		if fs, ok := b[0].(*ast.ForStmt); ok && fs.Post != nil {
			post := strings.Join(strings.Fields(src(fs.Post)), " ")
			init := ""
			if fs.Init != nil {
				init = strings.Join(strings.Fields(src(fs.Init)), " ")
			}
			if post == "i = (i + 1) % 10000" && init == "i := 0" {
				okCnt = true
			}
		}
	}
	// the counter must be a package-level channel fed by countGenerator started from init()
	started := false
	if in := fn(fst, "", "init"); in != nil {
		fsInspect(in, func(x ast.Node) bool {
			if gs, ok := x.(*ast.GoStmt); ok && src(gs.Call) == "countGenerator(countChannel)" {
				started = true
			}
			return true
		})
	}
	if okID && okPf && okCnt && started {
		idGen = "secondPlusCounterMod10000"
	}
	g.def("idGenerator", "String", leanStr(idGen),
		"generateID = generatePrefix(date) + \"-\" + Sprintf(\"%04d\", <-countChannel); layout 20060102T150405 (one-second resolution); "+
			"process-wide counter i = (i + 1) % 10000 started from 0 in init()")
}

// fsHasIDShape: `func (mb *mbox) hasID(id string) bool { for _, m := range mb.messages { if m.Fid == id { return true } }; return false }`
func fsHasIDShape(fd *ast.FuncDecl) bool {
	if fd == nil || fd.Body == nil || len(fd.Body.List) != 2 || fd.Type.Params == nil || len(fd.Type.Params.List) != 1 ||
		len(fd.Type.Params.List[0].Names) != 1 {
		return false
	}
	mb := fsRecvName(fd)
	p := fd.Type.Params.List[0].Names[0].Name
	rs, ok := fd.Body.List[0].(*ast.RangeStmt)
	if !ok || src(rs.X) != mb+".messages" || rs.Value == nil || len(rs.Body.List) != 1 {
		return false
	}
	v := src(rs.Value)
	is, ok := rs.Body.List[0].(*ast.IfStmt)
	if !ok || is.Init != nil || is.Else != nil || len(is.Body.List) != 1 {
		return false
	}
	c := strings.Join(strings.Fields(src(is.Cond)), " ")
	if c != v+".Fid == "+p && c != p+" == "+v+".Fid" {
		return false
	}
	r1, ok := is.Body.List[0].(*ast.ReturnStmt)
	if !ok || len(r1.Results) != 1 || src(r1.Results[0]) != "true" {
		return false
	}
	r2, ok := fd.Body.List[1].(*ast.ReturnStmt)
	return ok && len(r2.Results) == 1 && src(r2.Results[0]) == "false"
}
