package main

// T1 facts for C15 (message hub and its websocket listeners): queue lengths and the SHAPE of the
// listener close / send protocol in pkg/rest/socketv{1,2}_controller.go.  Everything is read off the
// syntax tree; a shape that is not recognised comes out as `none` / "unknown".

import (
	"go/ast"
	"go/token"
	"strconv"
)

func init() { extractors = append(extractors, extractHub) }

func optBool(b *bool) string {
	if b == nil {
		return "none"
	}
	if *b {
		return "some true"
	}
	return "some false"
}

func boolp(b bool) *bool { return &b }

// recvName: name of the receiver variable of a method ("" if anonymous / not a method).
func recvName(fd *ast.FuncDecl) string {
	if fd == nil || fd.Recv == nil || len(fd.Recv.List) != 1 || len(fd.Recv.List[0].Names) != 1 {
		return ""
	}
	return fd.Recv.List[0].Names[0].Name
}

// methodsOf: all methods of the named receiver type in f.
func methodsOf(f *ast.File, typ string) map[string]*ast.FuncDecl {
	res := map[string]*ast.FuncDecl{}
	if f == nil {
		return res
	}
	for _, d := range f.Decls {
		if fd, ok := d.(*ast.FuncDecl); ok && fd.Recv != nil && fn(f, typ, fd.Name.Name) == fd {
			res[fd.Name.Name] = fd
		}
	}
	return res
}

// isSel: x is `<ident>.<field>`; returns the identifier.
func isSel(x ast.Expr, field string) (string, bool) {
	se, ok := x.(*ast.SelectorExpr)
	if !ok || se.Sel.Name != field {
		return "", false
	}
	id, ok := se.X.(*ast.Ident)
	if !ok {
		return "", false
	}
	return id.Name, true
}

// isCloseOf: n is the call close(<ident>.<field>).
func isCloseOf(n ast.Node, field string) bool {
	ce, ok := n.(*ast.CallExpr)
	if !ok || len(ce.Args) != 1 {
		return false
	}
	if id, ok := ce.Fun.(*ast.Ident); !ok || id.Name != "close" {
		return false
	}
	_, ok = isSel(ce.Args[0], field)
	return ok
}

func containsCloseOf(n ast.Node, field string) bool {
	found := false
	ast.Inspect(n, func(x ast.Node) bool {
		if x != nil && isCloseOf(x, field) {
			found = true
		}
		return true
	})
	return found
}

// commRecvFrom: the comm statement of a select clause receives from `<ident>.<field>`.
func commRecvFrom(s ast.Stmt, field string) bool {
	var e ast.Expr
	switch v := s.(type) {
	case *ast.ExprStmt:
		e = v.X
	case *ast.AssignStmt:
		if len(v.Rhs) == 1 {
			e = v.Rhs[0]
		}
	}
	for {
		p, ok := e.(*ast.ParenExpr)
		if !ok {
			break
		}
		e = p.X
	}
	ue, ok := e.(*ast.UnaryExpr)
	if !ok || ue.Op != token.ARROW {
		return false
	}
	_, ok = isSel(ue.X, field)
	return ok
}

// selectsOn: n contains a select statement with a comm clause receiving from `<ident>.<field>`.
func selectsOn(n ast.Node, field string) bool {
	found := false
	ast.Inspect(n, func(x ast.Node) bool {
		ss, ok := x.(*ast.SelectStmt)
		if !ok {
			return true
		}
		for _, cl := range ss.Body.List {
			if cc, ok := cl.(*ast.CommClause); ok && cc.Comm != nil && commRecvFrom(cc.Comm, field) {
				found = true
			}
		}
		return true
	})
	return found
}

// sameRecvCalls: names of methods of the same receiver that fd calls as `<recv>.<name>(…)`.
func sameRecvCalls(fd *ast.FuncDecl, methods map[string]*ast.FuncDecl) []string {
	r := recvName(fd)
	var res []string
	if r == "" || fd.Body == nil {
		return res
	}
	ast.Inspect(fd.Body, func(x ast.Node) bool {
		ce, ok := x.(*ast.CallExpr)
		if !ok {
			return true
		}
		se, ok := ce.Fun.(*ast.SelectorExpr)
		if !ok {
			return true
		}
		if id, ok := se.X.(*ast.Ident); ok && id.Name == r {
			if _, ok := methods[se.Sel.Name]; ok {
				res = append(res, se.Sel.Name)
			}
		}
		return true
	})
	return res
}

// sendShape classifies every send statement of the file.
func sendShape(f *ast.File) string {
	if f == nil {
		return "unknown"
	}
	commSend := map[*ast.SendStmt]bool{} // send that is the comm of a select clause -> select has default
	ast.Inspect(f, func(x ast.Node) bool {
		ss, ok := x.(*ast.SelectStmt)
		if !ok {
			return true
		}
		hasDefault := false
		for _, cl := range ss.Body.List {
			if cc, ok := cl.(*ast.CommClause); ok && cc.Comm == nil {
				hasDefault = true
			}
		}
		for _, cl := range ss.Body.List {
			if cc, ok := cl.(*ast.CommClause); ok {
				if snd, ok := cc.Comm.(*ast.SendStmt); ok {
					commSend[snd] = hasDefault
				}
			}
		}
		return true
	})
	total, plain, guarded, unguarded, foreign := 0, 0, 0, 0, 0
	ast.Inspect(f, func(x ast.Node) bool {
		snd, ok := x.(*ast.SendStmt)
		if !ok {
			return true
		}
		if _, ok := isSel(snd.Chan, "c"); !ok {
			foreign++ // a send on something that is not syntactically `<ident>.c` (alias?): do not guess
			return true
		}
		total++
		def, isComm := commSend[snd]
		switch {
		case !isComm:
			plain++
		case def:
			guarded++
		default:
			unguarded++
		}
		return true
	})
	switch {
	case foreign > 0:
		return "unknown"
	case plain > 0:
		return "blockingSend"
	case total > 0 && guarded == total:
		return "nonBlockingSend"
	}
	return "unknown"
}

// closeShape classifies method Close of the listener type.
func closeShape(f *ast.File, methods map[string]*ast.FuncDecl) string {
	cl := methods["Close"]
	if f == nil || cl == nil || cl.Body == nil {
		return "unknown"
	}
	if selectsOn(cl.Body, "c") {
		return "selectOnDataChan"
	}
	if containsCloseOf(f, "c") {
		return "unknown"
	}
	// Close itself plus the same-receiver helpers it calls (one level).
	scope := []*ast.FuncDecl{cl}
	for _, n := range sameRecvCalls(cl, methods) {
		scope = append(scope, methods[n])
	}
	onceClosesDone, removes := false, false
	for _, fd := range scope {
		r := recvName(fd)
		if r == "" || fd.Body == nil {
			continue
		}
		ast.Inspect(fd.Body, func(x ast.Node) bool {
			ce, ok := x.(*ast.CallExpr)
			if !ok {
				return true
			}
			switch src(ce.Fun) {
			case r + ".once.Do":
				if len(ce.Args) == 1 {
					if fl, ok := ce.Args[0].(*ast.FuncLit); ok && containsCloseOf(fl.Body, "done") {
						onceClosesDone = true
					}
				}
			case r + ".hub.RemoveListener":
				if len(ce.Args) == 1 && src(ce.Args[0]) == r {
					removes = true
				}
			}
			return true
		})
	}
	// close(<x>.done) outside a once.Do would reintroduce the double-close hazard
	doneCloses := 0
	ast.Inspect(f, func(x ast.Node) bool {
		if x != nil && isCloseOf(x, "done") {
			doneCloses++
		}
		return true
	})
	if onceClosesDone && removes && doneCloses == 1 {
		return "doneChan"
	}
	return "unknown"
}

// hubReachable: Receive, Delete or a same-receiver helper they (transitively) call mention `<recv>.hub`.
func hubReachable(methods map[string]*ast.FuncDecl) *bool {
	if methods["Receive"] == nil || methods["Delete"] == nil {
		return nil
	}
	seen := map[string]bool{}
	work := []string{"Receive", "Delete"}
	uses := false
	for len(work) > 0 {
		n := work[0]
		work = work[1:]
		if seen[n] {
			continue
		}
		seen[n] = true
		fd := methods[n]
		if fd == nil || fd.Body == nil {
			continue
		}
		r := recvName(fd)
		ast.Inspect(fd.Body, func(x ast.Node) bool {
			if se, ok := x.(*ast.SelectorExpr); ok && r != "" {
				if id, ok := isSel(se, "hub"); ok && id == r {
					uses = true
				}
			}
			return true
		})
		work = append(work, sameRecvCalls(fd, methods)...)
	}
	return &uses
}

// chanCap: capacity literal of the make(chan …, N) given to field c in the constructor.
func chanCap(ctor *ast.FuncDecl) *int {
	if ctor == nil || ctor.Body == nil {
		return nil
	}
	var vals []int
	bad := false
	note := func(v ast.Expr) {
		ce, ok := v.(*ast.CallExpr)
		if !ok {
			bad = true
			return
		}
		if id, ok := ce.Fun.(*ast.Ident); !ok || id.Name != "make" || len(ce.Args) != 2 {
			bad = true
			return
		}
		if _, ok := ce.Args[0].(*ast.ChanType); !ok {
			bad = true
			return
		}
		lit, ok := ce.Args[1].(*ast.BasicLit)
		if !ok || lit.Kind != token.INT {
			bad = true
			return
		}
		n, err := strconv.Atoi(lit.Value)
		if err != nil {
			bad = true
			return
		}
		vals = append(vals, n)
	}
	ast.Inspect(ctor.Body, func(x ast.Node) bool {
		switch v := x.(type) {
		case *ast.KeyValueExpr:
			if id, ok := v.Key.(*ast.Ident); ok && id.Name == "c" {
				note(v.Value)
			}
		case *ast.AssignStmt:
			for i, l := range v.Lhs {
				if _, ok := isSel(l, "c"); ok {
					if len(v.Rhs) == len(v.Lhs) {
						note(v.Rhs[i])
					} else {
						bad = true
					}
				}
			}
		}
		return true
	})
	if bad || len(vals) != 1 {
		return nil
	}
	return &vals[0]
}

func extractHub() {
	g := gen("Hub")

	hf := parse("pkg/msghub/hub.go")
	var opLen *int
	if hf != nil {
		n := 0
		for _, d := range hf.Decls {
			gd, ok := d.(*ast.GenDecl)
			if !ok || gd.Tok != token.CONST {
				continue
			}
			for _, sp := range gd.Specs {
				vs, ok := sp.(*ast.ValueSpec)
				if !ok {
					continue
				}
				for i, nm := range vs.Names {
					if nm.Name != "opChanLen" {
						continue
					}
					n++
					if i < len(vs.Values) {
						if lit, ok := vs.Values[i].(*ast.BasicLit); ok && lit.Kind == token.INT {
							if v, err := strconv.Atoi(lit.Value); err == nil {
								opLen = &v
							}
						}
					}
				}
			}
		}
		if n != 1 {
			opLen = nil
		}
	}
	g.def("opChanLen", "Option Nat", optNat(opLen), "const opChanLen in pkg/msghub/hub.go (capacity of the hub's operation queue)")

	var startCloses *bool
	if st := fn(hf, "Hub", "Start"); st != nil && st.Body != nil {
		found := false
		ast.Inspect(st.Body, func(x ast.Node) bool {
			if x != nil && isCloseOf(x, "opChan") {
				found = true
			}
			return true
		})
		startCloses = &found
	}
	g.def("startClosesOpChan", "Option Bool", optBool(startCloses), "does (*Hub).Start contain close(hub.opChan)?  (a late Dispatch would then panic)")

	type ver struct{ suffix, file, typ, ctor string }
	vers := []ver{
		{"V1", "pkg/rest/socketv1_controller.go", "msgListenerV1", "newMsgListenerV1"},
		{"V2", "pkg/rest/socketv2_controller.go", "msgListenerV2", "newMsgListenerV2"},
	}
	type facts struct {
		cap                           *int
		closeShape, recvShape         string
		closesData, writerDone, calls *bool
	}
	all := map[string]facts{}
	for _, v := range vers {
		f := parse(v.file)
		ms := methodsOf(f, v.typ)
		fa := facts{closeShape: "unknown", recvShape: "unknown"}
		if f != nil && len(ms) > 0 {
			fa.cap = chanCap(fn(f, "", v.ctor))
			fa.closeShape = closeShape(f, ms)
			fa.recvShape = sendShape(f)
			fa.closesData = boolp(containsCloseOf(f, "c"))
			if w := ms["WSWriter"]; w != nil && w.Body != nil {
				fa.writerDone = boolp(selectsOn(w.Body, "done"))
			}
			fa.calls = hubReachable(ms)
		}
		all[v.suffix] = fa
	}
	// grouped by fact, V1 then V2
	for _, v := range vers {
		g.def("chanCap"+v.suffix, "Option Nat", optNat(all[v.suffix].cap), "capacity literal of the make(chan …, N) assigned to field c in "+v.ctor)
	}
	for _, v := range vers {
		g.def("wsClose"+v.suffix, "String", leanStr(all[v.suffix].closeShape),
			"shape of (*"+v.typ+").Close: selectOnDataChan = tests `already closed` by receiving from the event queue; doneChan = sync.Once-guarded close of a separate done channel + RemoveListener, event queue never closed")
	}
	for _, v := range vers {
		g.def("wsReceive"+v.suffix, "String", leanStr(all[v.suffix].recvShape),
			"all sends on the event queue in "+v.file+": nonBlockingSend = each is a select comm with a default clause; blockingSend = at least one plain send statement")
	}
	for _, v := range vers {
		g.def("closesDataChan"+v.suffix, "Option Bool", optBool(all[v.suffix].closesData), "any close(<x>.c) in "+v.file)
	}
	for _, v := range vers {
		g.def("writerSelectsDone"+v.suffix, "Option Bool", optBool(all[v.suffix].writerDone), "(*"+v.typ+").WSWriter selects on a receive from <recv>.done")
	}
	for _, v := range vers {
		g.def("receiveCallsHub"+v.suffix, "Option Bool", optBool(all[v.suffix].calls),
			"Receive, Delete or a same-receiver helper they call mention <recv>.hub (they run on the hub goroutine: calling the hub from there would self-deadlock)")
	}
}
