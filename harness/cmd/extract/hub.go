package main

// T1 facts for C15 (message hub and its websocket listeners): queue capacities and the SHAPE of the listener
// close / send protocol in pkg/rest/socketv{1,2}_controller.go.  Everything is read off the syntax tree and is
// independent of the spelling of unexported names:
//   * the LISTENER TYPE of a socket file is the type that declares the methods Receive and Delete (the exported
//     contract msghub.Listener) — not a type called msgListenerV1;
//   * its fields are found by their declared type and use: the HUB field is the one of type *msghub.Hub, the EVENT
//     QUEUE is the channel field that the file sends on, the DONE channel is the `chan struct{}` field that the file
//     closes, the ONCE field is the one of type sync.Once;
//   * Close / Receive / Delete / WSWriter (exported) are looked at together with every same-file function and
//     method of the listener they (transitively) call, so extracting or inlining a helper changes nothing;
//   * the hub's operation queue is the Hub field of type `chan func(…)`, its capacity the integer (literal or
//     constant) given to the make() that initialises it.
// A shape that is not recognised comes out as `none` / "unknown", which no tie theorem accepts.

import (
	"go/ast"
)

func init() { extractors = append(extractors, extractHub) }

// hbListener: what is known about the listener type of one socket file.
type hbListener struct {
	f       *ast.File
	typ     string
	methods map[string]*ast.FuncDecl
	hub     string // field of type *msghub.Hub
	queue   string // channel field the file sends on
	done    string // chan struct{} field the file closes
	once    string // field of type sync.Once
}

// hbFind fills in the structure; fields that cannot be identified uniquely stay "".
func hbFind(f *ast.File) *hbListener {
	if f == nil {
		return nil
	}
	types := axTypesWithMethods(f, "Receive", "Delete")
	if len(types) != 1 {
		return nil
	}
	l := &hbListener{f: f, typ: types[0], methods: axMethods(f, types[0])}
	st := axStruct(f, l.typ)
	if st == nil {
		return nil
	}
	one := func(names []string) string {
		if len(names) == 1 {
			return names[0]
		}
		return ""
	}
	l.hub = one(axFieldsWhere(st, func(t ast.Expr) bool { return axIsQualified(t, "msghub", "Hub", true) }))
	l.once = one(axFieldsWhere(st, func(t ast.Expr) bool { return axIsQualified(t, "sync", "Once", false) }))
	chans := axFieldsWhere(st, func(t ast.Expr) bool { _, ok := t.(*ast.ChanType); return ok })
	isChan := map[string]bool{}
	for _, c := range chans {
		isChan[c] = true
	}
	// event queue: the channel fields that are the target of a send statement anywhere in the file
	sentOn := map[string]bool{}
	ast.Inspect(f, func(x ast.Node) bool {
		if s, ok := x.(*ast.SendStmt); ok {
			if _, n, ok := axSel(s.Chan); ok && isChan[n] {
				sentOn[n] = true
			}
		}
		return true
	})
	var q []string
	for _, c := range chans {
		if sentOn[c] {
			q = append(q, c)
		}
	}
	l.queue = one(q)
	// done channel: the chan struct{} fields (other than the queue) that the file closes
	var d []string
	for _, c := range axFieldsWhere(st, axIsChanOfEmptyStruct) {
		if c != l.queue && axClosesField(f, c) > 0 {
			d = append(d, c)
		}
	}
	l.done = one(d)
	return l
}

func (l *hbListener) reach(names ...string) []*ast.FuncDecl {
	var start []*ast.FuncDecl
	for _, n := range names {
		if l.methods[n] == nil {
			return nil
		}
		start = append(start, l.methods[n])
	}
	return axReach(l.f, l.typ, start...)
}

// hbSendShape classifies every send statement of the file.
//   nonBlockingSend  every send goes to the event queue field and is the comm of a select that has a default clause
//   blockingSend     some send to the event queue is a plain statement, or a select comm without default
//   unknown          no event queue, or a send on something that is not syntactically `<x>.<queue>` (alias?)
func hbSendShape(l *hbListener) string {
	if l == nil || l.queue == "" {
		return "unknown"
	}
	guarded := map[*ast.SendStmt]bool{} // send that is the comm of a select clause -> select has default
	ast.Inspect(l.f, func(x ast.Node) bool {
		ss, ok := x.(*ast.SelectStmt)
		if !ok {
			return true
		}
		comms := axComms(ss)
		hasDefault := false
		for _, c := range comms {
			hasDefault = hasDefault || c.isDefault
		}
		for _, c := range comms {
			if snd, ok := c.clause.Comm.(*ast.SendStmt); ok {
				guarded[snd] = hasDefault
			}
		}
		return true
	})
	total, blocking, foreign := 0, 0, 0
	ast.Inspect(l.f, func(x ast.Node) bool {
		snd, ok := x.(*ast.SendStmt)
		if !ok {
			return true
		}
		if !axIsField(snd.Chan, l.queue) {
			foreign++
			return true
		}
		total++
		if def, isComm := guarded[snd]; !isComm || !def {
			blocking++
		}
		return true
	})
	switch {
	case foreign > 0 || total == 0:
		return "unknown"
	case blocking > 0:
		return "blockingSend"
	}
	return "nonBlockingSend"
}

// hbCloseShape classifies Close (with everything of the file it calls).
//   selectOnDataChan  Close tests "already closed" by a select that receives from the event queue
//   doneChan          Close runs <x>.<once>.Do(func(){ close(<x>.<done>) }) and <x>.<hub>.RemoveListener(<receiver>);
//                     every close of the done channel in the file is inside such a once.Do and the event queue is never closed
func hbCloseShape(l *hbListener) string {
	if l == nil || l.queue == "" {
		return "unknown"
	}
	scope := l.reach("Close")
	if scope == nil {
		return "unknown"
	}
	if axSelectsRecvField(scope, l.queue) {
		return "selectOnDataChan"
	}
	if axClosesField(l.f, l.queue) > 0 || l.done == "" || l.once == "" || l.hub == "" {
		return "unknown"
	}
	onceClosesDone, removes := false, false
	for _, fd := range scope {
		recv := axRecvObj(fd)
		ast.Inspect(fd.Body, func(x ast.Node) bool {
			ce, ok := x.(*ast.CallExpr)
			if !ok {
				return true
			}
			base, name, ok := axSel(ce.Fun)
			if !ok {
				return true
			}
			switch {
			case name == "Do" && axIsField(base, l.once) && len(ce.Args) == 1:
				if fl, ok := ce.Args[0].(*ast.FuncLit); ok && axClosesField(fl.Body, l.done) == 1 {
					onceClosesDone = true
				}
			case name == "RemoveListener" && axIsField(base, l.hub) && len(ce.Args) == 1:
				// the listener unregisters ITSELF
				if hb, _, ok := axSel(base); ok && axIs(hb, recv) && axIs(ce.Args[0], recv) {
					removes = true
				}
			}
			return true
		})
	}
	// a close(<x>.done) outside a <x>.<once>.Do(func(){…}) would reintroduce the double-close hazard
	guardedCloses := 0
	ast.Inspect(l.f, func(x ast.Node) bool {
		ce, ok := x.(*ast.CallExpr)
		if !ok || len(ce.Args) != 1 {
			return true
		}
		if base, name, ok := axSel(ce.Fun); ok && name == "Do" && axIsField(base, l.once) {
			if fl, ok := ce.Args[0].(*ast.FuncLit); ok {
				guardedCloses += axClosesField(fl.Body, l.done)
			}
		}
		return true
	})
	if onceClosesDone && removes && axClosesField(l.f, l.done) == guardedCloses {
		return "doneChan"
	}
	return "unknown"
}

// hbHubReachable: Receive, Delete or anything of the file they (transitively) call mentions the hub field.
func hbHubReachable(l *hbListener) *bool {
	if l == nil || l.hub == "" {
		return nil
	}
	scope := l.reach("Receive", "Delete")
	if scope == nil {
		return nil
	}
	uses := axAny(scope, func(x ast.Node) bool {
		se, ok := x.(*ast.SelectorExpr)
		return ok && se.Sel.Name == l.hub
	})
	return &uses
}

// hbChanCap: capacity of the make(chan …, N) that initialises field `field` anywhere in the file
// (composite literal key or assignment); exactly one initialisation, N a literal or a constant.
func hbChanCap(f *ast.File, field string) *int {
	if f == nil || field == "" {
		return nil
	}
	vals, bad := axFieldInits(f, field)
	if bad || len(vals) != 1 {
		return nil
	}
	n, ok := axMakeChanCap(vals[0])
	if !ok {
		return nil
	}
	return n
}

func extractHub() {
	g := gen("Hub")

	// ---- the hub itself
	hf := parse("pkg/msghub/hub.go")
	opField := ""
	if st := axStruct(hf, "Hub"); st != nil {
		// the operation queue: the field of type chan func(…)
		ops := axFieldsWhere(st, func(t ast.Expr) bool {
			ct, ok := t.(*ast.ChanType)
			if !ok {
				return false
			}
			_, ok = ct.Value.(*ast.FuncType)
			return ok
		})
		if len(ops) == 1 {
			opField = ops[0]
		}
	}
	g.def("opChanLen", "Option Nat", optNat(hbChanCap(hf, opField)),
		"capacity (literal or constant) of the make(chan func(…), N) that initialises the Hub's operation queue — the Hub field of type chan func(…) — in pkg/msghub/hub.go")

	var startCloses *bool
	if st := fn(hf, "Hub", "Start"); st != nil && st.Body != nil && opField != "" {
		found := axAny(axReach(hf, "Hub", st), func(x ast.Node) bool {
			ce, ok := axBuiltin(x, "close")
			return ok && len(ce.Args) == 1 && axIsField(ce.Args[0], opField)
		})
		startCloses = &found
	}
	g.def("startClosesOpChan", "Option Bool", axOptBool(startCloses),
		"does (*Hub).Start, or a same-file function it calls, close the operation queue?  (a late Dispatch would then panic)")

	// ---- the websocket listeners
	type ver struct{ suffix, file string }
	vers := []ver{
		{"V1", "pkg/rest/socketv1_controller.go"},
		{"V2", "pkg/rest/socketv2_controller.go"},
	}
	type facts struct {
		cap                           *int
		closeShape, recvShape         string
		closesData, writerDone, calls *bool
	}
	all := map[string]facts{}
	for _, v := range vers {
		l := hbFind(parse(v.file))
		fa := facts{closeShape: "unknown", recvShape: "unknown"}
		if l != nil {
			fa.cap = hbChanCap(l.f, l.queue)
			fa.closeShape = hbCloseShape(l)
			fa.recvShape = hbSendShape(l)
			if l.queue != "" {
				b := axClosesField(l.f, l.queue) > 0
				fa.closesData = &b
			}
			if w := l.reach("WSWriter"); w != nil && l.done != "" {
				b := axSelectsRecvField(w, l.done)
				fa.writerDone = &b
			}
			fa.calls = hbHubReachable(l)
		}
		all[v.suffix] = fa
	}
	const who = "the listener type (the one with methods Receive and Delete) of "
	// grouped by fact, V1 then V2
	for _, v := range vers {
		g.def("chanCap"+v.suffix, "Option Nat", optNat(all[v.suffix].cap),
			"capacity of the make(chan …, N) that initialises the event queue (the channel field that is sent on) of "+who+v.file)
	}
	for _, v := range vers {
		g.def("wsClose"+v.suffix, "String", leanStr(all[v.suffix].closeShape),
			"shape of Close of "+who+v.file+": selectOnDataChan = tests `already closed` by receiving from the event queue; doneChan = sync.Once-guarded close of a separate chan struct{} field + <hub field>.RemoveListener(itself), event queue never closed")
	}
	for _, v := range vers {
		g.def("wsReceive"+v.suffix, "String", leanStr(all[v.suffix].recvShape),
			"all send statements in "+v.file+": nonBlockingSend = each is on the event queue and is a select comm with a default clause; blockingSend = at least one is a plain statement or in a select without default")
	}
	for _, v := range vers {
		g.def("closesDataChan"+v.suffix, "Option Bool", axOptBool(all[v.suffix].closesData), "any close(<x>.<event queue>) in "+v.file)
	}
	for _, v := range vers {
		g.def("writerSelectsDone"+v.suffix, "Option Bool", axOptBool(all[v.suffix].writerDone),
			"WSWriter (or a same-file function it calls) of "+who+v.file+" selects on a receive from the done channel (the chan struct{} field the file closes)")
	}
	for _, v := range vers {
		g.def("receiveCallsHub"+v.suffix, "Option Bool", axOptBool(all[v.suffix].calls),
			"Receive, Delete or a same-file function they (transitively) call mention the field of type *msghub.Hub (they run on the hub goroutine: calling the hub from there would self-deadlock)")
	}
}
