package main

// T1 facts for C17 (Lua half): pkg/extension/luahost/{lua.go,pool.go,bind_inbucket.go,bind_smtpresponse.go,bind_inboundmessage.go}
// and pkg/extension/broker.go -> lean/Ibx/Gen/Lua.lean.
//   * which Lua function name is wired to which event and which Go listener (wireFunctions + the __newindex switches)
//   * per listener: the name passed to prepareInbucketFuncCall, the `if !ok` exit, the deferred putState right after it,
//     the lua.P literal of CallByParam (Fn, NRet, Protect), what the error branch returns, how the return value is taken
//     from the stack, the LVIsFalse test, the unwrap function, the final return
//   * the two unwrap functions: the chain of type assertions and the failure result
//   * the statement lists of getState / putState / createChannel / prepareInbucketFuncCall / Emit (normalised source)
//   * the defaults of smtp.deny

import (
	"fmt"
	"go/ast"
	"go/token"
	"regexp"
	"strconv"
	"strings"
)

func init() { extractors = append(extractors, extractLua) }

var wsRE = regexp.MustCompile(`\s+`)

func norm(n ast.Node) string { return strings.TrimSpace(wsRE.ReplaceAllString(src(n), " ")) }

func stmtList(fd *ast.FuncDecl) []string {
	res := []string{}
	if fd == nil || fd.Body == nil {
		return res
	}
	for _, s := range fd.Body.List {
		res = append(res, norm(s))
	}
	return res
}

func luaLeanBool(b bool) string {
	if b {
		return "true"
	}
	return "false"
}

type luaHandlerFacts struct {
	goName, luaName, fn, unwrap                                                       string
	notOkReturns, deferPut, protect, errReturnsNil, getTopPop, lvIsFalse, returnsRes bool
	nret                                                                              *int
	gets, puts                                                                        int
}

func handlerFacts(fd *ast.FuncDecl) luaHandlerFacts {
	f := luaHandlerFacts{goName: fd.Name.Name}
	l := fd.Body.List
	if len(l) >= 1 {
		if as, ok := l[0].(*ast.AssignStmt); ok && len(as.Rhs) == 1 && len(as.Lhs) == 4 && norm(as.Lhs[1]) == "ls" && norm(as.Lhs[3]) == "ok" {
			if ce, ok := as.Rhs[0].(*ast.CallExpr); ok && norm(ce.Fun) == "h.prepareInbucketFuncCall" && len(ce.Args) == 1 {
				if lit, ok := ce.Args[0].(*ast.BasicLit); ok && lit.Kind == token.STRING {
					f.luaName, _ = strconv.Unquote(lit.Value)
				}
			}
		}
	}
	if len(l) >= 2 {
		s := norm(l[1])
		f.notOkReturns = s == "if !ok { return nil }" || s == "if !ok { return }"
	}
	if len(l) >= 3 {
		f.deferPut = norm(l[2]) == "defer h.pool.putState(ls)"
	}
	ast.Inspect(fd.Body, func(x ast.Node) bool {
		switch v := x.(type) {
		case *ast.CallExpr:
			switch norm(v.Fun) {
			case "h.pool.getState":
				f.gets++
			case "h.pool.putState":
				f.puts++
			}
		case *ast.IfStmt:
			if v.Init != nil {
				if as, ok := v.Init.(*ast.AssignStmt); ok && len(as.Rhs) == 1 {
					if ce, ok := as.Rhs[0].(*ast.CallExpr); ok && norm(ce.Fun) == "ls.CallByParam" && len(ce.Args) == 2 && norm(v.Cond) == "err != nil" {
						if cl, ok := ce.Args[0].(*ast.CompositeLit); ok && norm(cl.Type) == "lua.P" {
							for _, e := range cl.Elts {
								if kv, ok := e.(*ast.KeyValueExpr); ok {
									switch norm(kv.Key) {
									case "Fn":
										f.fn = norm(kv.Value)
									case "NRet":
										if n, err := strconv.Atoi(norm(kv.Value)); err == nil {
											f.nret = &n
										}
									case "Protect":
										f.protect = norm(kv.Value) == "true"
									}
								}
							}
						}
						if n := len(v.Body.List); n > 0 {
							f.errReturnsNil = norm(v.Body.List[n-1]) == "return nil"
						}
					}
				}
			}
			if norm(v.Cond) == "lua.LVIsFalse(lval)" && norm(v.Body) == "{ return nil }" {
				f.lvIsFalse = true
			}
		case *ast.AssignStmt:
			if len(v.Rhs) == 1 && len(v.Lhs) == 2 && norm(v.Lhs[0]) == "result" {
				if ce, ok := v.Rhs[0].(*ast.CallExpr); ok && len(ce.Args) == 1 && norm(ce.Args[0]) == "lval" {
					f.unwrap = norm(ce.Fun)
				}
			}
		}
		return true
	})
	for i := 0; i+1 < len(l); i++ {
		if norm(l[i]) == "lval := ls.Get(-1)" && norm(l[i+1]) == "ls.Pop(1)" {
			f.getTopPop = true
		}
	}
	if n := len(l); n > 0 {
		f.returnsRes = norm(l[n-1]) == "return result"
	}
	return f
}

// assertChain: the types asserted on the way to the success return, and the final (failure) return statement
func assertChain(fd *ast.FuncDecl) ([]string, string) {
	types := []string{}
	if fd == nil {
		return types, ""
	}
	ast.Inspect(fd.Body, func(x ast.Node) bool {
		if ta, ok := x.(*ast.TypeAssertExpr); ok && ta.Type != nil {
			types = append(types, norm(ta.Type))
		}
		return true
	})
	last := ""
	if n := len(fd.Body.List); n > 0 {
		last = norm(fd.Body.List[n-1])
		if i := strings.Index(last, "fmt.Errorf("); i >= 0 {
			last = last[:i] + "fmt.Errorf(...)"
		}
	}
	return types, last
}

func extractLua() {
	g := gen("Lua")
	fmt.Fprintf(&g.buf, `structure Handler where
  goName : String
  luaName : String         -- argument of prepareInbucketFuncCall (first statement)
  notOkReturns : Bool      -- second statement: if !ok { return [nil] }
  deferPut : Bool          -- third statement: defer h.pool.putState(ls)
  fn : String              -- Fn of the lua.P literal
  nret : Option Nat
  protect : Bool
  errReturnsNil : Bool     -- the err != nil branch of CallByParam ends with return nil
  getTopPop : Bool         -- lval := ls.Get(-1); ls.Pop(1)
  lvIsFalse : Bool         -- if lua.LVIsFalse(lval) { return nil }
  unwrap : String          -- result, err := <unwrap>(lval)
  returnsResult : Bool     -- last statement: return result
  gets : Nat               -- direct calls of h.pool.getState in the body
  puts : Nat               -- calls of h.pool.putState in the body
  deriving DecidableEq, Repr

`)
	lf := parse("pkg/extension/luahost/lua.go")
	// ---- wireFunctions
	wired := []string{}
	if wf := fn(lf, "Host", "wireFunctions"); wf != nil {
		for _, s := range wf.Body.List {
			is, ok := s.(*ast.IfStmt)
			if !ok || is.Init != nil {
				continue
			}
			be, ok := is.Cond.(*ast.BinaryExpr)
			if !ok || be.Op != token.NEQ || norm(be.Y) != "nil" || !strings.HasPrefix(norm(be.X), "ib.") || len(is.Body.List) != 1 {
				continue
			}
			es, ok := is.Body.List[0].(*ast.ExprStmt)
			if !ok {
				wired = append(wired, fmt.Sprintf("(%s, \"?\", \"?\")", leanStr(norm(be.X))))
				continue
			}
			ce, ok := es.X.(*ast.CallExpr)
			if !ok || len(ce.Args) != 2 || !strings.HasSuffix(norm(ce.Fun), ".AddListener") {
				wired = append(wired, fmt.Sprintf("(%s, \"?\", \"?\")", leanStr(norm(be.X))))
				continue
			}
			ev := strings.TrimSuffix(strings.TrimPrefix(norm(ce.Fun), "events."), ".AddListener")
			wired = append(wired, fmt.Sprintf("(%s, %s, %s)", leanStr(norm(be.X)), leanStr(ev), leanStr(strings.TrimPrefix(norm(ce.Args[1]), "h."))))
		}
	}
	g.def("wired", "List (String × String × String)", "["+strings.Join(wired, ", ")+"]", "wireFunctions: (function slot tested for non-nil, event broker, listener registered), in source order")
	// ---- handlers
	hs := []string{}
	if lf != nil {
		for _, d := range lf.Decls {
			fd, ok := d.(*ast.FuncDecl)
			if !ok || fd.Recv == nil || !strings.HasPrefix(fd.Name.Name, "handle") {
				continue
			}
			f := handlerFacts(fd)
			hs = append(hs, fmt.Sprintf("{ goName := %s, luaName := %s, notOkReturns := %s, deferPut := %s, fn := %s, nret := %s, protect := %s, errReturnsNil := %s, getTopPop := %s, lvIsFalse := %s, unwrap := %s, returnsResult := %s, gets := %d, puts := %d }",
				leanStr(f.goName), leanStr(f.luaName), luaLeanBool(f.notOkReturns), luaLeanBool(f.deferPut), leanStr(f.fn), optNat(f.nret), luaLeanBool(f.protect), luaLeanBool(f.errReturnsNil),
				luaLeanBool(f.getTopPop), luaLeanBool(f.lvIsFalse), leanStr(f.unwrap), luaLeanBool(f.returnsRes), f.gets, f.puts))
		}
	}
	g.def("handlers", "List Handler", "[\n  "+strings.Join(hs, ",\n  ")+"]", "every method of Host whose name starts with `handle`, in source order")
	g.def("prepare", "List String", strList(stmtList(fn(lf, "Host", "prepareInbucketFuncCall"))), "statements of prepareInbucketFuncCall (whitespace-normalised)")
	// ---- calls of CallByParam / PCall anywhere in the package's non-test files that are NOT protected
	unprotected := []string{}
	for _, rel := range []string{"pkg/extension/luahost/lua.go", "pkg/extension/luahost/pool.go"} {
		f := parse(rel)
		if f == nil {
			unprotected = append(unprotected, "unparsed "+rel)
			continue
		}
		ast.Inspect(f, func(x ast.Node) bool {
			ce, ok := x.(*ast.CallExpr)
			if !ok {
				return true
			}
			name := norm(ce.Fun)
			if strings.HasSuffix(name, ".CallByParam") {
				okp := false
				if len(ce.Args) > 0 {
					if cl, ok := ce.Args[0].(*ast.CompositeLit); ok {
						for _, e := range cl.Elts {
							if kv, ok := e.(*ast.KeyValueExpr); ok && norm(kv.Key) == "Protect" && norm(kv.Value) == "true" {
								okp = true
							}
						}
					}
				}
				if !okp {
					unprotected = append(unprotected, rel+": "+norm(ce))
				}
			}
			if strings.HasSuffix(name, ".Call") || strings.HasSuffix(name, ".DoString") || strings.HasSuffix(name, ".DoFile") {
				unprotected = append(unprotected, rel+": "+norm(ce))
			}
			return true
		})
	}
	g.def("unprotectedCalls", "List String", strList(unprotected), "Lua entry points in lua.go / pool.go that are not protected calls (CallByParam without Protect: true, Call, DoString, DoFile)")
	// ---- Lua names -> function slots (bind_inbucket.go)
	bf := parse("pkg/extension/luahost/bind_inbucket.go")
	names := []string{}
	for _, p := range [][2]string{{"inbucketBeforeNewIndex", "before"}, {"inbucketAfterNewIndex", "after"}} {
		fd := fn(bf, "", p[0])
		if fd == nil {
			continue
		}
		ast.Inspect(fd.Body, func(x ast.Node) bool {
			cc, ok := x.(*ast.CaseClause)
			if !ok || len(cc.List) != 1 || len(cc.Body) != 1 {
				return true
			}
			lit, ok := cc.List[0].(*ast.BasicLit)
			if !ok {
				return true
			}
			key, _ := strconv.Unquote(lit.Value)
			if as, ok := cc.Body[0].(*ast.AssignStmt); ok && len(as.Lhs) == 1 && norm(as.Rhs[0]) == "ls.CheckFunction(3)" {
				names = append(names, fmt.Sprintf("(%s, %s)", leanStr(p[1]+"."+key), leanStr("ib."+strings.Title(p[1])+"."+strings.TrimPrefix(norm(as.Lhs[0]), "m."))))
			}
			return true
		})
	}
	g.def("luaNames", "List (String × String)", "["+strings.Join(names, ", ")+"]", "__newindex of inbucket.before / inbucket.after: (Lua name, function slot of the Inbucket struct assigned with CheckFunction)")
	idx := []string{}
	if fd := fn(bf, "", "inbucketIndex"); fd != nil {
		ast.Inspect(fd.Body, func(x ast.Node) bool {
			cc, ok := x.(*ast.CaseClause)
			if ok && len(cc.List) == 1 && len(cc.Body) == 1 {
				idx = append(idx, norm(cc.List[0])+" => "+norm(cc.Body[0]))
			}
			return true
		})
	}
	g.def("inbucketIndex", "List String", strList(idx), "cases of the __index of the `inbucket` global")
	// ---- unwrap functions
	for _, p := range [][3]string{{"pkg/extension/luahost/bind_smtpresponse.go", "unwrapSMTPResponse", "unwrapResponse"}, {"pkg/extension/luahost/bind_inboundmessage.go", "unwrapInboundMessage", "unwrapInbound"}} {
		types, last := assertChain(fn(parse(p[0]), "", p[1]))
		g.def(p[2], "List String × String", "("+strList(types)+", "+leanStr(last)+")", p[1]+": types asserted (in order), and the final statement (failure result)")
	}
	// ---- smtp.deny defaults
	sf := parse("pkg/extension/luahost/bind_smtpresponse.go")
	deny := []string{}
	if fd := fn(sf, "", "newSMTPResponse"); fd != nil {
		ast.Inspect(fd.Body, func(x ast.Node) bool {
			if is, ok := x.(*ast.IfStmt); ok && norm(is.Cond) == "action == event.ActionDeny" {
				for _, s := range is.Body.List {
					deny = append(deny, norm(s))
				}
			}
			return true
		})
	}
	g.def("denyDefaults", "List String", strList(deny), "newSMTPResponse: statements executed only for ActionDeny")
	// ---- pool.go
	pf := parse("pkg/extension/luahost/pool.go")
	g.def("getState", "List String", strList(stmtList(fn(pf, "statePool", "getState"))), "statements of statePool.getState")
	g.def("putState", "List String", strList(stmtList(fn(pf, "statePool", "putState"))), "statements of statePool.putState")
	g.def("createChannel", "List String", strList(stmtList(fn(pf, "statePool", "createChannel"))), "statements of statePool.createChannel")
	// every mention of lp.states in pool.go outside those three functions would be an unmodelled access
	others := []string{}
	if pf != nil {
		for _, d := range pf.Decls {
			fd, ok := d.(*ast.FuncDecl)
			if !ok || fd.Body == nil {
				continue
			}
			if fd.Name.Name == "getState" || fd.Name.Name == "putState" || fd.Name.Name == "createChannel" {
				continue
			}
			if strings.Contains(norm(fd.Body), ".states") {
				others = append(others, fd.Name.Name)
			}
		}
	}
	g.def("otherStatesUsers", "List String", strList(others), "other functions of pool.go that touch the free list")
	// getState / putState call sites of lua.go outside the handlers
	sites := []string{}
	if lf != nil {
		for _, d := range lf.Decls {
			fd, ok := d.(*ast.FuncDecl)
			if !ok || fd.Body == nil || strings.HasPrefix(fd.Name.Name, "handle") {
				continue
			}
			gts, pts := 0, 0
			ast.Inspect(fd.Body, func(x ast.Node) bool {
				if ce, ok := x.(*ast.CallExpr); ok {
					if strings.HasSuffix(norm(ce.Fun), "pool.getState") {
						gts++
					}
					if strings.HasSuffix(norm(ce.Fun), "pool.putState") {
						pts++
					}
				}
				return true
			})
			if gts+pts > 0 {
				sites = append(sites, fmt.Sprintf("(%s, %d, %d)", leanStr(fd.Name.Name), gts, pts))
			}
		}
	}
	g.def("poolSitesOutsideHandlers", "List (String × Nat × Nat)", "["+strings.Join(sites, ", ")+"]", "functions of lua.go other than the handlers that call getState / putState: (name, gets, puts)")
	// ---- EventBroker.Emit
	var emitFd *ast.FuncDecl
	if bfile := parse("pkg/extension/broker.go"); bfile != nil {
		for _, d := range bfile.Decls {
			if fd, ok := d.(*ast.FuncDecl); ok && fd.Name.Name == "Emit" && fd.Recv != nil && strings.Contains(norm(fd.Recv.List[0].Type), "EventBroker[") {
				emitFd = fd
			}
		}
	}
	g.def("emit", "List String", strList(stmtList(emitFd)), "statements of EventBroker.Emit")
}
