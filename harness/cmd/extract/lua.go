package main

// T1 facts for C17 (Lua half): pkg/extension/luahost/*.go (all non-test, non-verif files) and pkg/extension/broker.go
// -> lean/Ibx/Gen/Lua.lean.
//
// The facts describe STRUCTURE, not spelling.  Functions are run through a small symbolic path evaluator:
//   * a function body is enumerated into its control-flow PATHS (if / else / switch / early return all give the same set),
//   * calls to helpers of the same package are INLINED (so helper boundaries do not matter) unless the helper returns an
//     `error` (then it is an opaque primitive named by its RESULT TYPES) or is a pure constructor-style helper,
//     a pure helper is still executed in place when its arguments DECIDE it to a constant (`funcOrNil(nil)` is `lua.LNil`)
//     or when it only DISPATCHES on string / number literals (the selecting half of a field table) — see `decided`,
//   * `*&x` is x (a place selected first and written afterwards), the zero value of a pointer-like type is nil,
//   * local variables are replaced by their DEFINITIONS (`S` = the state obtained from the pool, `S.Get(-1)`, …),
//     parameters by their position ($0, $1, $recv), unexported fields of the receiver by their declared type,
//     unexported package functions by `fn-><result types>`, fresh error values by `<error>` (texts do not matter),
//   * only effects that matter are kept: calls on a Lua state, pool primitives, sync (Lock/Unlock/…), calls of function
//     values, stores to non-local places, calls of error-returning helpers.  Logging and other pure calls vanish.
// The pool's methods are found by ROLE (the struct with a []*LState field; the method that appends its parameter to it,
// the one that returns an element of it, the one that empties it, the one calling lua.NewState), listeners by being
// passed to AddListener, the unwrap functions by their signature, the __index/__newindex tables by their shape.
// A shape the evaluator does not understand yields a path with ret "?…", which no tie theorem accepts.

import (
	"fmt"
	"go/ast"
	"go/token"
	"os"
	"path/filepath"
	"sort"
	"strconv"
	"strings"
)

func init() { extractors = append(extractors, extractLua) }

const luaDir = "pkg/extension/luahost"

func luaLeanBool(b bool) string {
	if b {
		return "true"
	}
	return "false"
}

// ---------------------------------------------------------------------------------------------------------------------
// package model

type luaPkg struct {
	files   []*ast.File
	fileOf  map[*ast.FuncDecl]*ast.File
	funcs   map[string]*ast.FuncDecl
	meths   map[string][]*ast.FuncDecl
	all     []*ast.FuncDecl
	structs map[string]*ast.StructType
	stFile  map[string]*ast.File
	consts  map[string]*ast.BasicLit
	poolT   string            // struct holding the free list
	freeF   string            // its []*LState field
	role    map[string]string // method name -> get / put / new / flush
}

func luaLoad(dir string, only ...string) *luaPkg {
	pk := &luaPkg{fileOf: map[*ast.FuncDecl]*ast.File{}, funcs: map[string]*ast.FuncDecl{}, meths: map[string][]*ast.FuncDecl{},
		structs: map[string]*ast.StructType{}, stFile: map[string]*ast.File{}, consts: map[string]*ast.BasicLit{}, role: map[string]string{}}
	names := only
	if len(names) == 0 {
		ents, err := os.ReadDir(filepath.Join(repo, dir))
		if err != nil {
			fmt.Fprintln(os.Stderr, "lua: readdir", err)
			return pk
		}
		for _, e := range ents {
			n := e.Name()
			if e.IsDir() || !strings.HasSuffix(n, ".go") || strings.HasSuffix(n, "_test.go") || strings.HasPrefix(n, "verif_") {
				continue
			}
			names = append(names, n)
		}
		sort.Strings(names)
	}
	for _, n := range names {
		f := parse(filepath.Join(dir, n))
		if f == nil {
			continue
		}
		pk.files = append(pk.files, f)
		for _, d := range f.Decls {
			switch v := d.(type) {
			case *ast.FuncDecl:
				pk.fileOf[v] = f
				pk.all = append(pk.all, v)
				if v.Recv == nil {
					pk.funcs[v.Name.Name] = v
				} else {
					pk.meths[v.Name.Name] = append(pk.meths[v.Name.Name], v)
				}
			case *ast.GenDecl:
				for _, sp := range v.Specs {
					switch s := sp.(type) {
					case *ast.TypeSpec:
						if st, ok := s.Type.(*ast.StructType); ok {
							pk.structs[s.Name.Name] = st
							pk.stFile[s.Name.Name] = f
						}
					case *ast.ValueSpec:
						if v.Tok == token.CONST {
							for i, id := range s.Names {
								if i < len(s.Values) {
									if bl, ok := s.Values[i].(*ast.BasicLit); ok {
										pk.consts[id.Name] = bl
									}
								}
							}
						}
					}
				}
			}
		}
	}
	pk.findPool()
	return pk
}

func luaImports(f *ast.File) map[string]string {
	m := map[string]string{}
	if f == nil {
		return m
	}
	for _, im := range f.Imports {
		p, _ := strconv.Unquote(im.Path.Value)
		parts := strings.Split(p, "/")
		short := parts[len(parts)-1]
		if len(parts) > 1 && len(short) >= 2 && short[0] == 'v' && strings.Trim(short[1:], "0123456789") == "" {
			short = parts[len(parts)-2]
		}
		alias := short
		if im.Name != nil {
			alias = im.Name.Name
		}
		m[alias] = short
	}
	return m
}

var luaPredeclared = map[string]bool{"bool": true, "string": true, "int": true, "int8": true, "int16": true, "int32": true, "int64": true,
	"uint": true, "uint8": true, "uint16": true, "uint32": true, "uint64": true, "uintptr": true, "byte": true, "rune": true,
	"float32": true, "float64": true, "error": true, "any": true, "complex64": true, "complex128": true}

// luaType renders a type expression canonically: imports by the last element of their path, exported names as they are,
// unexported package-level type names as _t.
func luaType(f *ast.File, e ast.Expr) string {
	switch v := e.(type) {
	case nil:
		return ""
	case *ast.Ident:
		if luaPredeclared[v.Name] || ast.IsExported(v.Name) {
			return v.Name
		}
		return "_t"
	case *ast.StarExpr:
		return "*" + luaType(f, v.X)
	case *ast.SelectorExpr:
		if id, ok := v.X.(*ast.Ident); ok {
			if s, ok := luaImports(f)[id.Name]; ok {
				return s + "." + v.Sel.Name
			}
			return id.Name + "." + v.Sel.Name
		}
	case *ast.ArrayType:
		if v.Len == nil {
			return "[]" + luaType(f, v.Elt)
		}
		return "[" + src(v.Len) + "]" + luaType(f, v.Elt)
	case *ast.MapType:
		return "map[" + luaType(f, v.Key) + "]" + luaType(f, v.Value)
	case *ast.ChanType:
		return "chan " + luaType(f, v.Value)
	case *ast.FuncType:
		return "func"
	case *ast.InterfaceType:
		return "any"
	case *ast.IndexExpr:
		return luaType(f, v.X)
	case *ast.IndexListExpr:
		return luaType(f, v.X)
	case *ast.ParenExpr:
		return luaType(f, v.X)
	case *ast.Ellipsis:
		return "..." + luaType(f, v.Elt)
	}
	return "?"
}

func luaIsStateType(f *ast.File, e ast.Expr) bool {
	return strings.HasSuffix(luaType(f, e), "gopher-lua.LState") && strings.HasPrefix(luaType(f, e), "*")
}

func luaRecvBase(fd *ast.FuncDecl) string {
	if fd == nil || fd.Recv == nil || len(fd.Recv.List) != 1 {
		return ""
	}
	t := fd.Recv.List[0].Type
	for {
		switch v := t.(type) {
		case *ast.StarExpr:
			t = v.X
			continue
		case *ast.IndexExpr:
			t = v.X
			continue
		case *ast.IndexListExpr:
			t = v.X
			continue
		case *ast.ParenExpr:
			t = v.X
			continue
		case *ast.Ident:
			return v.Name
		}
		return ""
	}
}

func luaRecvName(fd *ast.FuncDecl) string {
	if fd == nil || fd.Recv == nil || len(fd.Recv.List) != 1 || len(fd.Recv.List[0].Names) != 1 {
		return ""
	}
	return fd.Recv.List[0].Names[0].Name
}

// results of a function as canonical type strings
func (pk *luaPkg) results(fd *ast.FuncDecl) []string {
	res := []string{}
	if fd == nil || fd.Type.Results == nil {
		return res
	}
	f := pk.fileOf[fd]
	for _, fl := range fd.Type.Results.List {
		n := len(fl.Names)
		if n == 0 {
			n = 1
		}
		for i := 0; i < n; i++ {
			res = append(res, luaType(f, fl.Type))
		}
	}
	return res
}

func (pk *luaPkg) paramTypes(fd *ast.FuncDecl) []string {
	res := []string{}
	if fd == nil || fd.Type.Params == nil {
		return res
	}
	f := pk.fileOf[fd]
	for _, fl := range fd.Type.Params.List {
		n := len(fl.Names)
		if n == 0 {
			n = 1
		}
		for i := 0; i < n; i++ {
			res = append(res, luaType(f, fl.Type))
		}
	}
	return res
}

func (pk *luaPkg) returnsError(fd *ast.FuncDecl) bool {
	for _, t := range pk.results(fd) {
		if t == "error" {
			return true
		}
	}
	return false
}

// sig: how a non-inlined package function is named: by its non-error result types
func (pk *luaPkg) sig(fd *ast.FuncDecl) string {
	rs := []string{}
	for _, t := range pk.results(fd) {
		if t != "error" {
			rs = append(rs, t)
		}
	}
	return "fn->" + strings.Join(rs, ",")
}

func luaMentionsField(n ast.Node, field string) bool {
	found := false
	if n == nil || field == "" {
		return false
	}
	ast.Inspect(n, func(x ast.Node) bool {
		if se, ok := x.(*ast.SelectorExpr); ok && se.Sel.Name == field {
			found = true
		}
		return !found
	})
	return found
}

// findPool: the pool struct is the one with a []*LState field; its methods get their roles from what they do with it.
func (pk *luaPkg) findPool() {
	names := []string{}
	for n := range pk.structs {
		names = append(names, n)
	}
	sort.Strings(names)
	for _, n := range names {
		for _, fl := range pk.structs[n].Fields.List {
			if luaType(pk.stFile[n], fl.Type) == "[]*gopher-lua.LState" && len(fl.Names) == 1 && pk.poolT == "" {
				pk.poolT, pk.freeF = n, fl.Names[0].Name
			}
		}
	}
	if pk.poolT == "" {
		return
	}
	for _, fd := range pk.all {
		if luaRecvBase(fd) != pk.poolT || fd.Body == nil {
			continue
		}
		f := pk.fileOf[fd]
		role := ""
		callsNewState, appendsParam := false, false
		params := map[string]bool{}
		stateParam := false
		if fd.Type.Params != nil {
			for _, fl := range fd.Type.Params.List {
				for _, id := range fl.Names {
					params[id.Name] = true
				}
				if luaIsStateType(f, fl.Type) {
					stateParam = true
				}
			}
		}
		ast.Inspect(fd.Body, func(x ast.Node) bool {
			ce, ok := x.(*ast.CallExpr)
			if !ok {
				return true
			}
			if se, ok := ce.Fun.(*ast.SelectorExpr); ok && se.Sel.Name == "NewState" {
				if id, ok := se.X.(*ast.Ident); ok && luaImports(f)[id.Name] == "gopher-lua" {
					callsNewState = true
				}
			}
			if id, ok := ce.Fun.(*ast.Ident); ok && id.Name == "append" && len(ce.Args) == 2 && luaMentionsField(ce.Args[0], pk.freeF) {
				if a, ok := ce.Args[1].(*ast.Ident); ok && params[a.Name] {
					appendsParam = true
				}
			}
			return true
		})
		res := pk.results(fd)
		stateRes := len(res) > 0 && res[0] == "*gopher-lua.LState"
		switch {
		case callsNewState && !luaMentionsField(fd.Body, pk.freeF):
			role = "new"
		case appendsParam && stateParam:
			role = "put"
		case stateRes && luaMentionsField(fd.Body, pk.freeF):
			role = "get"
		case !stateRes && !stateParam && luaMentionsField(fd.Body, pk.freeF):
			role = "flush"
		}
		if role != "" {
			if old, dup := pk.role[fd.Name.Name]; dup && old != role {
				role = "ambiguous"
			}
			pk.role[fd.Name.Name] = role
		}
	}
	pk.promoteRoleWrappers()
}

// promoteRoleWrappers: when the body of the pool's get / put was moved into a helper method of the pool, the role belongs
// to the outer method (the one with the same kind of signature that calls the helper); the helper is then simply inlined.
func (pk *luaPkg) promoteRoleWrappers() {
	for _, fd := range pk.all {
		if luaRecvBase(fd) != pk.poolT || fd.Body == nil || pk.role[fd.Name.Name] != "" {
			continue
		}
		f := pk.fileOf[fd]
		stateParam := false
		if fd.Type.Params != nil {
			for _, fl := range fd.Type.Params.List {
				if luaIsStateType(f, fl.Type) {
					stateParam = true
				}
			}
		}
		res := pk.results(fd)
		stateRes := len(res) > 0 && res[0] == "*gopher-lua.LState"
		callee := ""
		ast.Inspect(fd.Body, func(x ast.Node) bool {
			if ce, ok := x.(*ast.CallExpr); ok {
				if se, ok := ce.Fun.(*ast.SelectorExpr); ok && !ast.IsExported(se.Sel.Name) {
					r := pk.role[se.Sel.Name]
					if (r == "put" && stateParam && !stateRes) || (r == "get" && stateRes && !stateParam) {
						callee = se.Sel.Name
					}
				}
			}
			return true
		})
		if callee != "" {
			pk.role[fd.Name.Name] = pk.role[callee]
			delete(pk.role, callee)
		}
	}
}

func (pk *luaPkg) roleDecl(role string) []*ast.FuncDecl {
	res := []*ast.FuncDecl{}
	for _, fd := range pk.all {
		if luaRecvBase(fd) == pk.poolT && pk.poolT != "" && pk.role[fd.Name.Name] == role {
			res = append(res, fd)
		}
	}
	return res
}

// ---------------------------------------------------------------------------------------------------------------------
// symbolic values

type luaV struct {
	op string // param lit pkg glob fnref sel idx slice addr deref un bin comp kv call mcall vcall fcall prim tup assert is has each key err zero func opaque
	s  string
	k  []*luaV
	st bool      // known to be a *lua.LState
	at token.Pos // mcall on a state: the call site in the source (never printed; identifies the site through inlined helpers)
}

func luaLit(s string) *luaV { return &luaV{op: "lit", s: s} }

func luaArgs(k []*luaV) string {
	p := []string{}
	for _, a := range k {
		p = append(p, a.String())
	}
	return strings.Join(p, ", ")
}

func (v *luaV) String() string {
	if v == nil {
		return ""
	}
	switch v.op {
	case "param", "lit", "pkg", "glob", "fnref":
		return v.s
	case "sel":
		return v.k[0].String() + "." + v.s
	case "idx":
		return v.k[0].String() + "[" + v.k[1].String() + "]"
	case "has":
		return "has(" + v.k[0].String() + ", " + v.k[1].String() + ")"
	case "slice":
		return v.k[0].String() + "[" + v.k[1].String() + ":" + v.k[2].String() + "]"
	case "addr":
		return "&" + v.k[0].String()
	case "deref":
		return "*" + v.k[0].String()
	case "un":
		return v.s + v.k[0].String()
	case "bin":
		return "(" + v.k[0].String() + " " + v.s + " " + v.k[1].String() + ")"
	case "comp":
		return v.s + "{" + luaArgs(v.k) + "}"
	case "kv":
		return v.s + ": " + v.k[0].String()
	case "call":
		return v.s + "(" + luaArgs(v.k) + ")"
	case "mcall":
		if v.s == "CallByParam" {
			return v.k[0].String() + ".CallByParam(..)" // the arguments are shown once, in the effect
		}
		return v.k[0].String() + "." + v.s + "(" + luaArgs(v.k[1:]) + ")"
	case "vcall":
		return v.k[0].String() + "(" + luaArgs(v.k[1:]) + ")"
	case "fcall":
		return v.s + "(" + luaArgs(v.k) + ")"
	case "prim":
		return v.s + "(" + luaArgs(v.k) + ")"
	case "tup":
		inner := v.k[0]
		if v.s == "err" {
			if inner.op == "prim" && (inner.s == "get" || inner.s == "new") {
				return luaStateName(inner) + ".err"
			}
			return inner.String() + ".err"
		}
		if inner.op == "prim" && (inner.s == "get" || inner.s == "new") && v.s == "0" {
			return luaStateName(inner)
		}
		if v.s == "0" && inner.op == "fcall" {
			return inner.String()
		}
		return inner.String() + "." + v.s
	case "assert":
		return v.k[0].String() + ".(" + v.s + ")"
	case "is":
		return "is(" + v.k[0].String() + ", " + v.s + ")"
	case "each":
		return "each(" + v.k[0].String() + ")"
	case "key":
		return "key(" + v.k[0].String() + ")"
	case "err":
		return "<error>"
	case "zero":
		return "zero"
	case "func":
		return "func"
	}
	return "?" + v.s
}

// the state a pool primitive hands out: S (from get), N (from new)
func luaStateName(prim *luaV) string {
	if prim.s == "new" {
		return "N"
	}
	return "S"
}

func (v *luaV) walk(f func(*luaV)) {
	if v == nil {
		return
	}
	f(v)
	for _, c := range v.k {
		c.walk(f)
	}
}

type luaAtom struct {
	v   *luaV
	neg bool
}

var luaNegOp = map[string]string{"==": "!=", "!=": "==", "<": ">=", ">=": "<", ">": "<=", "<=": ">"}
var luaSwapOp = map[string]string{"==": "==", "!=": "!=", "<": ">", ">": "<", "<=": ">=", ">=": "<="}

func luaIsConstish(v *luaV) bool { return v.op == "lit" || v.op == "pkg" }

// normalise: no outer `!`, negation pushed into comparisons, constants on the right
func luaNormAtom(a luaAtom) luaAtom {
	for a.v.op == "un" && a.v.s == "!" {
		a = luaAtom{a.v.k[0], !a.neg}
	}
	if a.v.op == "bin" {
		if _, cmp := luaNegOp[a.v.s]; cmp {
			op, x, y := a.v.s, a.v.k[0], a.v.k[1]
			if a.neg {
				op = luaNegOp[op]
			}
			if luaIsConstish(x) && !luaIsConstish(y) {
				x, y, op = y, x, luaSwapOp[op]
			}
			// a length is never negative: len(x) > 0, >= 1  ==  != 0;   len(x) < 1, <= 0  ==  == 0
			if x.op == "call" && (x.s == "len" || x.s == "cap") && y.op == "lit" {
				switch op + y.s {
				case ">0", ">=1":
					op, y = "!=", luaLit("0")
				case "<1", "<=0":
					op, y = "==", luaLit("0")
				}
			}
			return luaAtom{&luaV{op: "bin", s: op, k: []*luaV{x, y}}, false}
		}
	}
	return a
}

func (a luaAtom) String() string {
	if a.neg {
		return "!" + a.v.String()
	}
	return a.v.String()
}

func luaNonNil(v *luaV) bool {
	return v.op == "err" || v.op == "addr" || v.op == "comp" || v.op == "func" || v.op == "fnref" || (v.op == "call" && (v.s == "make" || v.s == "new"))
}

func luaZeroIsNil(v *luaV) bool {
	if v.op == "lit" && v.s == "nil" {
		return true
	}
	if v.op != "zero" {
		return false
	}
	t := v.s
	return strings.HasPrefix(t, "*") || strings.HasPrefix(t, "[]") || strings.HasPrefix(t, "map[") || strings.HasPrefix(t, "chan ") || t == "func"
}

// fold: 1 = certainly true, 0 = certainly false, -1 = symbolic
func luaFold(a luaAtom) int {
	b2i := func(b bool) int {
		if b != a.neg {
			return 1
		}
		return 0
	}
	v := a.v
	if v.op == "lit" && (v.s == "true" || v.s == "false") {
		return b2i(v.s == "true")
	}
	if v.op == "bin" && (v.s == "==" || v.s == "!=") {
		x, y := v.k[0], v.k[1]
		if x.op == "lit" && y.op == "lit" {
			return b2i((x.s == y.s) == (v.s == "=="))
		}
		if y.op == "lit" && y.s == "nil" && luaNonNil(x) {
			return b2i(v.s == "!=")
		}
		if x.op == "lit" && x.s == "nil" && luaNonNil(y) {
			return b2i(v.s == "!=")
		}
		// the zero value of a pointer / slice / map / func / chan type IS nil (`var f *T` never assigned)
		if y.op == "lit" && y.s == "nil" && luaZeroIsNil(x) {
			return b2i(v.s == "==")
		}
		if x.op == "lit" && x.s == "nil" && luaZeroIsNil(y) {
			return b2i(v.s == "==")
		}
	}
	return -1
}

// ---------------------------------------------------------------------------------------------------------------------
// paths

type luaEff struct {
	kind string // call defer set loop
	v    *luaV  // call / defer: the call;  set: the place
	rhs  *luaV
	text string // loop: rendered body
}

func (e luaEff) String() string {
	switch e.kind {
	case "call":
		if e.v.op == "mcall" && e.v.s == "CallByParam" {
			return e.v.k[0].String() + ".CallByParam(" + luaArgs(e.v.k[1:]) + ")"
		}
		return e.v.String()
	case "defer":
		return "defer " + e.v.String()
	case "set":
		return e.v.String() + " := " + e.rhs.String()
	}
	return e.text
}

type luaBind struct {
	name  string
	v     *luaV
	depth int
}

type luaPath struct {
	atoms []luaAtom
	effs  []luaEff
	env   []luaBind
	depth int
	done  string // "" | return | break | continue | ?reason
	ret   []*luaV
}

func (p *luaPath) clone() *luaPath {
	q := &luaPath{depth: p.depth, done: p.done}
	q.atoms = append([]luaAtom{}, p.atoms...)
	q.effs = append([]luaEff{}, p.effs...)
	q.env = append([]luaBind{}, p.env...)
	q.ret = append([]*luaV{}, p.ret...)
	return q
}

func (p *luaPath) poison(why string) {
	if !strings.HasPrefix(p.done, "?") {
		p.done = "?" + why
	}
}

func (p *luaPath) lookup(name string) (*luaV, bool) {
	for i := len(p.env) - 1; i >= 0; i-- {
		if p.env[i].name == name {
			return p.env[i].v, true
		}
	}
	return nil, false
}

func (p *luaPath) define(name string, v *luaV) {
	if name == "_" {
		return
	}
	for i := len(p.env) - 1; i >= 0 && p.env[i].depth == p.depth; i-- {
		if p.env[i].name == name {
			p.env[i].v = v
			return
		}
	}
	p.env = append(p.env, luaBind{name, v, p.depth})
}

func (p *luaPath) assign(name string, v *luaV) bool {
	for i := len(p.env) - 1; i >= 0; i-- {
		if p.env[i].name == name {
			p.env[i].v = v
			return true
		}
	}
	return false
}

func (p *luaPath) popTo(depth int) {
	n := len(p.env)
	for n > 0 && p.env[n-1].depth > depth {
		n--
	}
	p.env = p.env[:n]
	p.depth = depth
}

// addAtom: false when the path became infeasible
func (p *luaPath) addAtom(v *luaV, neg bool) bool {
	a := luaNormAtom(luaAtom{v, neg})
	switch luaFold(a) {
	case 1:
		return true
	case 0:
		return false
	}
	s := a.String()
	n := luaNormAtom(luaAtom{a.v, !a.neg}).String()
	for _, b := range p.atoms {
		bs := b.String()
		if bs == s {
			return true
		}
		if bs == n {
			return false
		}
	}
	p.atoms = append(p.atoms, a)
	return true
}

type luaRes struct {
	p *luaPath
	v []*luaV
}

type luaEval struct {
	pk       *luaPkg
	files    []*ast.File
	stack    []*ast.FuncDecl
	named    [][]string
	recvT    string // struct of the top-level receiver (for rendering its unexported fields by type)
	inDefer  bool
	noInline bool
}

func (ev *luaEval) file() *ast.File { return ev.files[len(ev.files)-1] }

// ---- what gets inlined

var luaBenignStateAPI = map[string]bool{"NewUserData": true, "SetMetatable": true, "GetTypeMetatable": true, "NewTypeMetatable": true,
	"NewFunction": true, "NewTable": true}
var luaSyncAPI = map[string]bool{"Lock": true, "Unlock": true, "RLock": true, "RUnlock": true}

func (pk *luaPkg) resolveFunc(name string) *ast.FuncDecl { return pk.funcs[name] }

func (pk *luaPkg) resolveMeth(name string) *ast.FuncDecl {
	if l := pk.meths[name]; len(l) == 1 {
		return l[0]
	}
	return nil
}

// benign: a helper whose body (transitively) does nothing this analysis looks at — it stays an opaque pure call
func (pk *luaPkg) benign(fd *ast.FuncDecl, depth int) bool {
	if fd == nil || fd.Body == nil {
		return true
	}
	if depth > 4 {
		return false
	}
	f := pk.fileOf[fd]
	stateVars := map[string]bool{}
	if fd.Type.Params != nil {
		for _, fl := range fd.Type.Params.List {
			if luaIsStateType(f, fl.Type) {
				for _, id := range fl.Names {
					stateVars[id.Name] = true
				}
			}
		}
	}
	ok := true
	ast.Inspect(fd.Body, func(x ast.Node) bool {
		switch v := x.(type) {
		case *ast.TypeAssertExpr, *ast.GoStmt, *ast.SendStmt, *ast.SelectStmt, *ast.DeferStmt:
			ok = false
		case *ast.SelectorExpr:
			if pk.freeF != "" && v.Sel.Name == pk.freeF {
				ok = false
			}
		case *ast.CallExpr:
			switch fu := v.Fun.(type) {
			case *ast.Ident:
				if g := pk.resolveFunc(fu.Name); g != nil && (pk.returnsError(g) || !pk.benign(g, depth+1)) {
					ok = false
				}
			case *ast.SelectorExpr:
				name := fu.Sel.Name
				if luaSyncAPI[name] {
					ok = false
				}
				if id, isId := fu.X.(*ast.Ident); isId && stateVars[id.Name] {
					if !luaBenignStateAPI[name] {
						ok = false
					}
				} else if _, imp := luaImports(f)[luaRootIdent(fu.X)]; !imp || !isId {
					if pk.role[name] != "" && !ast.IsExported(name) {
						ok = false
					} else if g := pk.resolveMeth(name); g != nil && !ast.IsExported(name) && (pk.returnsError(g) || !pk.benign(g, depth+1)) {
						ok = false
					}
				}
			}
		}
		return ok
	})
	return ok
}

func luaRootIdent(e ast.Expr) string {
	for {
		switch v := e.(type) {
		case *ast.Ident:
			return v.Name
		case *ast.SelectorExpr:
			e = v.X
		case *ast.CallExpr:
			e = v.Fun
		case *ast.ParenExpr:
			e = v.X
		case *ast.StarExpr:
			e = v.X
		case *ast.IndexExpr:
			e = v.X
		default:
			return ""
		}
	}
}

func (ev *luaEval) shouldInline(fd *ast.FuncDecl) bool {
	if fd == nil || fd.Body == nil || ev.noInline || ev.inDefer || len(ev.stack) > 5 {
		return false
	}
	for _, s := range ev.stack {
		if s == fd {
			return false
		}
	}
	if ev.pk.returnsError(fd) || ev.pk.benign(fd, 0) {
		return false
	}
	if fd.Type.Params != nil {
		for _, fl := range fd.Type.Params.List {
			if _, variadic := fl.Type.(*ast.Ellipsis); variadic {
				return false
			}
		}
	}
	return true
}

// ---------------------------------------------------------------------------------------------------------------------
// expressions

func luaOne(p *luaPath, v *luaV) []luaRes { return []luaRes{{p, []*luaV{v}}} }

func luaFirst(vs []*luaV) *luaV {
	if len(vs) == 0 {
		return &luaV{op: "opaque", s: "novalue"}
	}
	return vs[0]
}

// exprs evaluates es left to right; every result carries one value per expression
func (ev *luaEval) exprs(p *luaPath, es []ast.Expr) []luaRes {
	cur := []luaRes{{p, nil}}
	for _, e := range es {
		next := []luaRes{}
		for _, c := range cur {
			for _, r := range ev.expr(c.p, e) {
				vs := append(append([]*luaV{}, c.v...), luaFirst(r.v))
				next = append(next, luaRes{r.p, vs})
			}
		}
		cur = next
	}
	return cur
}

func (ev *luaEval) fieldName(base *luaV, name string) string {
	if base.op == "param" && base.s == "$recv" && !ast.IsExported(name) && ev.recvT != "" {
		if ev.recvT == ev.pk.poolT && name == ev.pk.freeF {
			return "<free>"
		}
		if st := ev.pk.structs[ev.recvT]; st != nil {
			for _, fl := range st.Fields.List {
				for _, id := range fl.Names {
					if id.Name == name {
						return "<" + luaType(ev.pk.stFile[ev.recvT], fl.Type) + ">"
					}
				}
			}
		}
	}
	return name
}

func luaIsFree(v *luaV) bool { return v.op == "sel" && v.s == "<free>" }

func (ev *luaEval) isImport(p *luaPath, e ast.Expr) (string, bool) {
	id, ok := e.(*ast.Ident)
	if !ok {
		return "", false
	}
	if _, local := p.lookup(id.Name); local {
		return "", false
	}
	s, ok := luaImports(ev.file())[id.Name]
	return s, ok
}

func (ev *luaEval) expr(p *luaPath, e ast.Expr) []luaRes {
	switch v := e.(type) {
	case *ast.BasicLit:
		switch v.Kind {
		case token.INT:
			if n, err := strconv.ParseInt(v.Value, 0, 64); err == nil {
				return luaOne(p, luaLit(strconv.FormatInt(n, 10)))
			}
		case token.STRING:
			if s, err := strconv.Unquote(v.Value); err == nil {
				return luaOne(p, luaLit(strconv.Quote(s)))
			}
		}
		return luaOne(p, luaLit(v.Value))
	case *ast.Ident:
		if x, ok := p.lookup(v.Name); ok {
			return luaOne(p, x)
		}
		switch v.Name {
		case "nil", "true", "false":
			return luaOne(p, luaLit(v.Name))
		}
		if bl, ok := ev.pk.consts[v.Name]; ok {
			return ev.expr(p, bl)
		}
		if g := ev.pk.resolveFunc(v.Name); g != nil {
			return luaOne(p, &luaV{op: "fnref", s: ev.pk.sig(g)})
		}
		if ast.IsExported(v.Name) {
			return luaOne(p, &luaV{op: "glob", s: v.Name})
		}
		return luaOne(p, &luaV{op: "glob", s: "_g"})
	case *ast.ParenExpr:
		return ev.expr(p, v.X)
	case *ast.SelectorExpr:
		if s, ok := ev.isImport(p, v.X); ok {
			return luaOne(p, &luaV{op: "pkg", s: s + "." + v.Sel.Name})
		}
		out := []luaRes{}
		for _, r := range ev.expr(p, v.X) {
			b := luaFirst(r.v)
			out = append(out, luaRes{r.p, []*luaV{{op: "sel", s: ev.fieldName(b, v.Sel.Name), k: []*luaV{b}}}})
		}
		return out
	case *ast.StarExpr:
		out := []luaRes{}
		for _, r := range ev.expr(p, v.X) {
			x := luaFirst(r.v)
			if x.op == "addr" { // *&x is x (a place selected first and written afterwards)
				out = append(out, luaRes{r.p, []*luaV{x.k[0]}})
				continue
			}
			out = append(out, luaRes{r.p, []*luaV{{op: "deref", k: []*luaV{x}}}})
		}
		return out
	case *ast.UnaryExpr:
		if v.Op == token.ARROW {
			p.poison("receive")
			return luaOne(p, &luaV{op: "opaque", s: "recv"})
		}
		out := []luaRes{}
		for _, r := range ev.expr(p, v.X) {
			x := luaFirst(r.v)
			var nv *luaV
			switch {
			case v.Op == token.AND:
				nv = &luaV{op: "addr", k: []*luaV{x}}
			case v.Op == token.SUB && x.op == "lit":
				nv = luaLit("-" + x.s)
			default:
				nv = &luaV{op: "un", s: v.Op.String(), k: []*luaV{x}}
			}
			out = append(out, luaRes{r.p, []*luaV{nv}})
		}
		return out
	case *ast.BinaryExpr:
		out := []luaRes{}
		for _, r := range ev.exprs(p, []ast.Expr{v.X, v.Y}) {
			out = append(out, luaRes{r.p, []*luaV{{op: "bin", s: v.Op.String(), k: []*luaV{r.v[0], r.v[1]}}}})
		}
		return out
	case *ast.CallExpr:
		return ev.call(p, v, false)
	case *ast.CompositeLit:
		typ := luaType(ev.file(), v.Type)
		keyed := len(v.Elts) > 0
		vals := []ast.Expr{}
		keys := []string{}
		for _, el := range v.Elts {
			if kv, ok := el.(*ast.KeyValueExpr); ok {
				if id, ok := kv.Key.(*ast.Ident); ok {
					keys = append(keys, id.Name)
					vals = append(vals, kv.Value)
					continue
				}
				keyed = false
				keys = append(keys, "")
				vals = append(vals, kv.Value)
				continue
			}
			keyed = false
			keys = append(keys, "")
			vals = append(vals, el)
		}
		out := []luaRes{}
		for _, r := range ev.exprs(p, vals) {
			ks := []*luaV{}
			for i, x := range r.v {
				if keyed {
					ks = append(ks, &luaV{op: "kv", s: keys[i], k: []*luaV{x}})
				} else {
					ks = append(ks, x)
				}
			}
			if keyed {
				sort.SliceStable(ks, func(i, j int) bool { return ks[i].s < ks[j].s })
			}
			out = append(out, luaRes{r.p, []*luaV{{op: "comp", s: typ, k: ks}}})
		}
		return out
	case *ast.IndexExpr:
		out := []luaRes{}
		for _, r := range ev.exprs(p, []ast.Expr{v.X, v.Index}) {
			if r.v[1].op == "key" && r.v[1].k[0].String() == r.v[0].String() {
				// x[i] inside `for i := range x` is the element `for _, e := range x` names directly
				out = append(out, luaRes{r.p, []*luaV{{op: "each", k: []*luaV{r.v[0]}, st: luaIsFree(r.v[0])}}})
				continue
			}
			out = append(out, luaRes{r.p, []*luaV{{op: "idx", k: []*luaV{r.v[0], r.v[1]}, st: luaIsFree(r.v[0])}}})
		}
		return out
	case *ast.SliceExpr:
		if v.Slice3 {
			break
		}
		es := []ast.Expr{v.X}
		if v.Low != nil {
			es = append(es, v.Low)
		}
		if v.High != nil {
			es = append(es, v.High)
		}
		out := []luaRes{}
		for _, r := range ev.exprs(p, es) {
			lo, hi := luaLit(""), luaLit("")
			i := 1
			if v.Low != nil {
				lo = r.v[i]
				i++
				if lo.op == "lit" && lo.s == "0" {
					lo = luaLit("")
				}
			}
			if v.High != nil {
				hi = r.v[i]
			}
			out = append(out, luaRes{r.p, []*luaV{{op: "slice", k: []*luaV{r.v[0], lo, hi}}}})
		}
		return out
	case *ast.TypeAssertExpr:
		if v.Type == nil {
			break
		}
		out := []luaRes{}
		for _, r := range ev.expr(p, v.X) {
			out = append(out, luaRes{r.p, []*luaV{{op: "assert", s: luaType(ev.file(), v.Type), k: []*luaV{luaFirst(r.v)}}}})
		}
		return out
	case *ast.FuncLit:
		return luaOne(p, &luaV{op: "func"})
	}
	p.poison("expr")
	return luaOne(p, &luaV{op: "opaque", s: "expr"})
}

var luaBuiltins = map[string]bool{"len": true, "cap": true, "append": true, "make": true, "new": true, "delete": true, "copy": true,
	"panic": true, "close": true, "min": true, "max": true, "print": true, "println": true, "clear": true}
var luaBuiltinEffect = map[string]bool{"delete": true, "copy": true, "panic": true, "close": true, "clear": true}

func (p *luaPath) effect(kind string, v *luaV) { p.effs = append(p.effs, luaEff{kind: kind, v: v}) }

func (ev *luaEval) call(p *luaPath, ce *ast.CallExpr, deferred bool) []luaRes {
	kind := "call"
	if deferred {
		kind = "defer"
	}
	fun := ce.Fun
	for {
		if pe, ok := fun.(*ast.ParenExpr); ok {
			fun = pe.X
			continue
		}
		break
	}
	finish := func(mk func(args []*luaV) (*luaV, bool), argExprs []ast.Expr, base *luaPath) []luaRes {
		out := []luaRes{}
		for _, r := range ev.exprs(base, argExprs) {
			v, eff := mk(r.v)
			if eff {
				r.p.effect(kind, v)
			}
			out = append(out, luaRes{r.p, []*luaV{v}})
		}
		return out
	}
	switch fu := fun.(type) {
	case *ast.Ident:
		if lv, ok := p.lookup(fu.Name); ok {
			return finish(func(a []*luaV) (*luaV, bool) { return &luaV{op: "vcall", k: append([]*luaV{lv}, a...)}, true }, ce.Args, p)
		}
		if luaBuiltins[fu.Name] {
			args := ce.Args
			pre := []*luaV{}
			if (fu.Name == "make" || fu.Name == "new") && len(args) > 0 {
				pre = append(pre, luaLit(luaType(ev.file(), args[0])))
				args = args[1:]
			}
			return finish(func(a []*luaV) (*luaV, bool) {
				return &luaV{op: "call", s: fu.Name, k: append(append([]*luaV{}, pre...), a...)}, luaBuiltinEffect[fu.Name]
			}, args, p)
		}
		if g := ev.pk.resolveFunc(fu.Name); g != nil {
			return ev.pkgCall(p, g, nil, ce.Args, kind, deferred)
		}
		name := fu.Name
		if !luaPredeclared[name] && !ast.IsExported(name) {
			name = "_t"
		}
		return finish(func(a []*luaV) (*luaV, bool) { return &luaV{op: "call", s: name, k: a}, false }, ce.Args, p)
	case *ast.SelectorExpr:
		name := fu.Sel.Name
		if s, ok := ev.isImport(p, fu.X); ok {
			full := s + "." + name
			if full == "fmt.Errorf" || full == "errors.New" {
				return luaOne(p, &luaV{op: "err"})
			}
			return finish(func(a []*luaV) (*luaV, bool) {
				return &luaV{op: "call", s: full, k: a, st: full == "gopher-lua.NewState"}, false
			}, ce.Args, p)
		}
		out := []luaRes{}
		for _, rr := range ev.expr(p, fu.X) {
			recv := luaFirst(rr.v)
			switch {
			case recv.st:
				out = append(out, finish(func(a []*luaV) (*luaV, bool) {
					return &luaV{op: "mcall", s: name, k: append([]*luaV{recv}, a...), at: ce.Pos()}, true
				}, ce.Args, rr.p)...)
			case ev.pk.role[name] != "" && !ast.IsExported(name):
				role := ev.pk.role[name]
				for _, r := range ev.exprs(rr.p, ce.Args) {
					pv := &luaV{op: "prim", s: role, k: r.v}
					r.p.effect(kind, pv)
					if role == "get" || role == "new" {
						out = append(out, luaRes{r.p, []*luaV{{op: "tup", s: "0", k: []*luaV{pv}, st: true}, {op: "tup", s: "err", k: []*luaV{pv}}}})
					} else {
						out = append(out, luaRes{r.p, []*luaV{pv}})
					}
				}
			default:
				if g := ev.pk.resolveMeth(name); g != nil && (!ast.IsExported(name) || (recv.op == "param" && recv.s == "$recv")) {
					out = append(out, ev.pkgCall(rr.p, g, recv, ce.Args, kind, deferred)...)
				} else {
					out = append(out, finish(func(a []*luaV) (*luaV, bool) {
						return &luaV{op: "mcall", s: name, k: append([]*luaV{recv}, a...)}, luaSyncAPI[name]
					}, ce.Args, rr.p)...)
				}
			}
		}
		return out
	case *ast.FuncLit:
		p.poison("funclit-call")
		return luaOne(p, &luaV{op: "opaque", s: "funclit"})
	}
	out := []luaRes{}
	for _, rr := range ev.expr(p, fun) {
		callee := luaFirst(rr.v)
		out = append(out, finish(func(a []*luaV) (*luaV, bool) { return &luaV{op: "vcall", k: append([]*luaV{callee}, a...)}, true }, ce.Args, rr.p)...)
	}
	return out
}

// pkgCall: a call of a function / method declared in the analysed package
func (ev *luaEval) pkgCall(p *luaPath, g *ast.FuncDecl, recv *luaV, argExprs []ast.Expr, kind string, deferred bool) []luaRes {
	out := []luaRes{}
	for _, r := range ev.exprs(p, argExprs) {
		if !deferred && ev.shouldInline(g) {
			out = append(out, ev.inline(r.p, g, recv, r.v)...)
			continue
		}
		if !deferred {
			if res, ok := ev.decided(r.p, g, recv, r.v); ok {
				out = append(out, res...)
				continue
			}
		}
		args := r.v
		if recv != nil {
			args = append([]*luaV{recv}, args...)
		}
		cv := &luaV{op: "fcall", s: ev.pk.sig(g), k: args}
		if ev.pk.returnsError(g) || deferred || !ev.pk.benign(g, 0) {
			r.p.effect(kind, cv)
		}
		res := ev.pk.results(g)
		vals := []*luaV{}
		nonErr := 0
		for _, t := range res {
			if t != "error" {
				nonErr++
			}
		}
		i := 0
		for _, t := range res {
			switch {
			case t == "error":
				vals = append(vals, &luaV{op: "tup", s: "err", k: []*luaV{cv}})
			case nonErr == 1 && !ev.pk.returnsError(g):
				vals = append(vals, cv)
				i++
			default:
				vals = append(vals, &luaV{op: "tup", s: strconv.Itoa(i), k: []*luaV{cv}, st: t == "*gopher-lua.LState"})
				i++
			}
		}
		if len(vals) == 0 {
			vals = []*luaV{cv}
		}
		out = append(out, luaRes{r.p, vals})
	}
	return out
}

// decided: a helper that is otherwise kept as an opaque pure call (`fn->T(args)`) is executed in place in two cases.
//
//	(1) its arguments DECIDE it: exactly one path survives, it needed no new condition and did nothing that is kept, and
//	    every result is a constant (nil / a literal / a name of another package).  `funcOrNil(nil)` is `lua.LNil` by
//	    funcOrNil's own definition, so "select the field, then push funcOrNil(selected)" with nothing selected pushes what
//	    a `default: Push(LNil)` arm pushes.
//	(2) it only DISPATCHES on constants: it does nothing that is kept and every condition it adds compares a value with a
//	    string / number literal — the selecting half of a field table moved into a helper (`afterField(after, key)`); its
//	    cases become the caller's cases, exactly as if the switch stood there.
//
// Anything else (a nil / type test on the argument as in funcOrNil(x) or the unwrap functions, an effect, a wrapper that
// just forwards its arguments) leaves the call opaque.
func (ev *luaEval) decided(p *luaPath, g *ast.FuncDecl, recv *luaV, args []*luaV) ([]luaRes, bool) {
	if g == nil || g.Body == nil || ev.noInline || ev.inDefer || len(ev.stack) > 5 || ev.pk.returnsError(g) || !ev.pk.benign(g, 0) {
		return nil, false
	}
	for _, s := range ev.stack {
		if s == g {
			return nil, false
		}
	}
	nres := len(ev.pk.results(g))
	if nres == 0 {
		return nil, false
	}
	if g.Type.Params != nil {
		for _, fl := range g.Type.Params.List {
			if _, variadic := fl.Type.(*ast.Ellipsis); variadic {
				return nil, false
			}
		}
	}
	q := p.clone()
	na, ne := len(q.atoms), len(q.effs)
	res := ev.inline(q, g, recv, args)
	if len(res) == 0 || len(res) > 64 {
		return nil, false
	}
	newAtoms := 0
	for _, o := range res {
		if o.p.done != "" || len(o.p.effs) != ne || len(o.v) != nres || len(o.p.atoms) < na {
			return nil, false
		}
		for _, v := range o.v {
			if v == nil {
				return nil, false
			}
		}
		for _, a := range o.p.atoms[na:] {
			v := a.v
			if a.neg || v.op != "bin" || (v.s != "==" && v.s != "!=") || v.k[1].op != "lit" || v.k[1].s == "nil" || v.k[1].s == "true" || v.k[1].s == "false" {
				return nil, false
			}
			newAtoms++
		}
	}
	if newAtoms == 0 {
		if len(res) != 1 {
			return nil, false
		}
		for _, v := range res[0].v {
			if !(v.op == "lit" || v.op == "pkg") {
				return nil, false
			}
		}
	}
	return res, true
}

func (ev *luaEval) bindParams(q *luaPath, g *ast.FuncDecl, recv *luaV, args []*luaV) []string {
	f := ev.pk.fileOf[g]
	if rn := luaRecvName(g); rn != "" && recv != nil {
		q.define(rn, recv)
	}
	i := 0
	if g.Type.Params != nil {
		for _, fl := range g.Type.Params.List {
			for _, id := range fl.Names {
				var a *luaV = &luaV{op: "opaque", s: "arg"}
				if i < len(args) {
					a = args[i]
				}
				if luaIsStateType(f, fl.Type) && !a.st {
					c := *a
					c.st = true
					a = &c
				}
				q.define(id.Name, a)
				i++
			}
			if len(fl.Names) == 0 {
				i++
			}
		}
	}
	named := []string{}
	if g.Type.Results != nil {
		for _, fl := range g.Type.Results.List {
			for _, id := range fl.Names {
				q.define(id.Name, &luaV{op: "zero", s: luaType(f, fl.Type)})
				named = append(named, id.Name)
			}
		}
	}
	return named
}

func (ev *luaEval) inline(p *luaPath, g *ast.FuncDecl, recv *luaV, args []*luaV) []luaRes {
	savedEnv := append([]luaBind{}, p.env...)
	savedDepth := p.depth
	p.env = nil
	p.depth = 0
	named := ev.bindParams(p, g, recv, args)
	ev.files = append(ev.files, ev.pk.fileOf[g])
	ev.stack = append(ev.stack, g)
	ev.named = append(ev.named, named)
	outs := ev.block([]*luaPath{p}, g.Body.List)
	ev.files = ev.files[:len(ev.files)-1]
	ev.stack = ev.stack[:len(ev.stack)-1]
	ev.named = ev.named[:len(ev.named)-1]
	res := []luaRes{}
	for _, o := range outs {
		var vals []*luaV
		switch {
		case o.done == "return":
			vals = o.ret
			o.done = ""
		case o.done == "":
		case o.done == "break" || o.done == "continue":
			o.poison("stray-" + o.done)
		}
		o.ret = nil
		o.env = append([]luaBind{}, savedEnv...)
		o.depth = savedDepth
		res = append(res, luaRes{o, vals})
	}
	return res
}

// ---------------------------------------------------------------------------------------------------------------------
// conditions and statements

// cond forks p on e: the paths on which e holds and those on which it does not
func (ev *luaEval) cond(p *luaPath, e ast.Expr) (tr, fl []*luaPath) {
	switch v := e.(type) {
	case *ast.ParenExpr:
		return ev.cond(p, v.X)
	case *ast.UnaryExpr:
		if v.Op == token.NOT {
			f, t := ev.cond(p, v.X)
			return t, f
		}
	case *ast.BinaryExpr:
		if v.Op == token.LAND {
			ta, fa := ev.cond(p, v.X)
			fl = fa
			for _, q := range ta {
				tb, fb := ev.cond(q, v.Y)
				tr = append(tr, tb...)
				fl = append(fl, fb...)
			}
			return
		}
		if v.Op == token.LOR {
			ta, fa := ev.cond(p, v.X)
			tr = ta
			for _, q := range fa {
				tb, fb := ev.cond(q, v.Y)
				tr = append(tr, tb...)
				fl = append(fl, fb...)
			}
			return
		}
	}
	for _, r := range ev.expr(p, e) {
		t, f := luaSplit(r.p, luaFirst(r.v))
		tr = append(tr, t...)
		fl = append(fl, f...)
	}
	return
}

func luaSplit(p *luaPath, v *luaV) (tr, fl []*luaPath) {
	if strings.HasPrefix(p.done, "?") {
		return []*luaPath{p}, nil
	}
	q := p.clone()
	if p.addAtom(v, false) {
		tr = append(tr, p)
	}
	if q.addAtom(v, true) {
		fl = append(fl, q)
	}
	return
}

func (ev *luaEval) block(ps []*luaPath, stmts []ast.Stmt) []*luaPath {
	for _, s := range stmts {
		next := []*luaPath{}
		for _, p := range ps {
			if p.done != "" {
				next = append(next, p)
				continue
			}
			next = append(next, ev.stmt(p, s)...)
		}
		ps = next
		if len(ps) > 4096 {
			for _, p := range ps {
				p.poison("too-many-paths")
			}
		}
	}
	return ps
}

func (ev *luaEval) scoped(p *luaPath, f func(p *luaPath) []*luaPath) []*luaPath {
	d := p.depth
	p.depth++
	outs := f(p)
	for _, o := range outs {
		o.popTo(d)
	}
	return outs
}

func (ev *luaEval) store(p *luaPath, lhs ast.Expr, v *luaV, define bool) []*luaPath {
	if id, ok := lhs.(*ast.Ident); ok {
		if define {
			p.define(id.Name, v)
			return []*luaPath{p}
		}
		if id.Name == "_" || p.assign(id.Name, v) {
			return []*luaPath{p}
		}
		name := "_g"
		if ast.IsExported(id.Name) {
			name = id.Name
		}
		p.effs = append(p.effs, luaEff{kind: "set", v: &luaV{op: "glob", s: name}, rhs: v})
		return []*luaPath{p}
	}
	outs := []*luaPath{}
	for _, r := range ev.expr(p, lhs) {
		r.p.effs = append(r.p.effs, luaEff{kind: "set", v: luaFirst(r.v), rhs: v})
		outs = append(outs, r.p)
	}
	return outs
}

func (ev *luaEval) storeAll(p *luaPath, lhs []ast.Expr, vals []*luaV, define bool) []*luaPath {
	ps := []*luaPath{p}
	for i, l := range lhs {
		var v *luaV = &luaV{op: "opaque", s: "arity"}
		if i < len(vals) {
			v = vals[i]
		}
		next := []*luaPath{}
		for _, q := range ps {
			next = append(next, ev.store(q, l, v, define)...)
		}
		ps = next
	}
	return ps
}

func (ev *luaEval) assignStmt(p *luaPath, s *ast.AssignStmt) []*luaPath {
	define := s.Tok == token.DEFINE
	if s.Tok != token.DEFINE && s.Tok != token.ASSIGN {
		// x op= y
		op := strings.TrimSuffix(s.Tok.String(), "=")
		outs := []*luaPath{}
		for _, r := range ev.exprs(p, []ast.Expr{s.Lhs[0], s.Rhs[0]}) {
			outs = append(outs, ev.store(r.p, s.Lhs[0], &luaV{op: "bin", s: op, k: []*luaV{r.v[0], r.v[1]}}, false)...)
		}
		return outs
	}
	if len(s.Rhs) == 1 && len(s.Lhs) > 1 {
		rhs := s.Rhs[0]
		for {
			if pe, ok := rhs.(*ast.ParenExpr); ok {
				rhs = pe.X
				continue
			}
			break
		}
		outs := []*luaPath{}
		switch v := rhs.(type) {
		case *ast.TypeAssertExpr:
			for _, r := range ev.expr(p, v.X) {
				x := luaFirst(r.v)
				t := luaType(ev.file(), v.Type)
				outs = append(outs, ev.storeAll(r.p, s.Lhs, []*luaV{{op: "assert", s: t, k: []*luaV{x}}, {op: "is", s: t, k: []*luaV{x}}}, define)...)
			}
			return outs
		case *ast.IndexExpr:
			for _, r := range ev.exprs(p, []ast.Expr{v.X, v.Index}) {
				outs = append(outs, ev.storeAll(r.p, s.Lhs, []*luaV{{op: "idx", k: r.v}, {op: "has", k: r.v}}, define)...)
			}
			return outs
		case *ast.CallExpr:
			for _, r := range ev.call(p, v, false) {
				vals := r.v
				if len(vals) == 1 && len(s.Lhs) > 1 {
					one := vals[0]
					vals = nil
					for i := range s.Lhs {
						vals = append(vals, &luaV{op: "tup", s: strconv.Itoa(i), k: []*luaV{one}})
					}
				}
				outs = append(outs, ev.storeAll(r.p, s.Lhs, vals, define)...)
			}
			return outs
		}
		p.poison("multi-assign")
		return []*luaPath{p}
	}
	outs := []*luaPath{}
	for _, r := range ev.exprs(p, s.Rhs) {
		outs = append(outs, ev.storeAll(r.p, s.Lhs, r.v, define)...)
	}
	return outs
}

func (ev *luaEval) ifStmt(p *luaPath, s *ast.IfStmt) []*luaPath {
	return ev.scoped(p, func(p *luaPath) []*luaPath {
		ps := []*luaPath{p}
		if s.Init != nil {
			ps = ev.stmt(p, s.Init)
		}
		outs := []*luaPath{}
		for _, q := range ps {
			if q.done != "" {
				outs = append(outs, q)
				continue
			}
			tr, fl := ev.cond(q, s.Cond)
			for _, t := range tr {
				outs = append(outs, ev.scoped(t, func(t *luaPath) []*luaPath { return ev.block([]*luaPath{t}, s.Body.List) })...)
			}
			for _, f := range fl {
				if s.Else == nil || f.done != "" {
					outs = append(outs, f)
				} else {
					outs = append(outs, ev.stmt(f, s.Else)...)
				}
			}
		}
		return outs
	})
}

func (ev *luaEval) switchStmt(p *luaPath, s *ast.SwitchStmt) []*luaPath {
	return ev.scoped(p, func(p *luaPath) []*luaPath {
		ps := []*luaPath{p}
		if s.Init != nil {
			ps = ev.stmt(p, s.Init)
		}
		outs := []*luaPath{}
		for _, q0 := range ps {
			if q0.done != "" {
				outs = append(outs, q0)
				continue
			}
			type tagged struct {
				p   *luaPath
				tag *luaV
			}
			remaining := []tagged{}
			if s.Tag != nil {
				for _, r := range ev.expr(q0, s.Tag) {
					remaining = append(remaining, tagged{r.p, luaFirst(r.v)})
				}
			} else {
				remaining = append(remaining, tagged{q0, nil})
			}
			var deflt *ast.CaseClause
			for _, c := range s.Body.List {
				cc := c.(*ast.CaseClause)
				if cc.List == nil {
					deflt = cc
					continue
				}
				for _, st := range cc.Body {
					if b, ok := st.(*ast.BranchStmt); ok && b.Tok == token.FALLTHROUGH {
						q0.poison("fallthrough")
					}
				}
				taken := []*luaPath{}
				for _, ce := range cc.List {
					next := []tagged{}
					for _, r := range remaining {
						if r.tag == nil {
							t, f := ev.cond(r.p, ce)
							taken = append(taken, t...)
							for _, x := range f {
								next = append(next, tagged{x, nil})
							}
							continue
						}
						for _, er := range ev.expr(r.p, ce) {
							t, f := luaSplit(er.p, &luaV{op: "bin", s: "==", k: []*luaV{r.tag, luaFirst(er.v)}})
							taken = append(taken, t...)
							for _, x := range f {
								next = append(next, tagged{x, r.tag})
							}
						}
					}
					remaining = next
				}
				for _, t := range taken {
					outs = append(outs, ev.scoped(t, func(t *luaPath) []*luaPath { return ev.block([]*luaPath{t}, cc.Body) })...)
				}
			}
			for _, r := range remaining {
				if deflt != nil && r.p.done == "" {
					outs = append(outs, ev.scoped(r.p, func(t *luaPath) []*luaPath { return ev.block([]*luaPath{t}, deflt.Body) })...)
				} else {
					outs = append(outs, r.p)
				}
			}
		}
		for _, o := range outs {
			if o.done == "break" {
				o.done = ""
			}
		}
		return outs
	})
}

func (ev *luaEval) rangeStmt(p *luaPath, s *ast.RangeStmt) []*luaPath {
	outs := []*luaPath{}
	for _, r := range ev.expr(p, s.X) {
		x := luaFirst(r.v)
		body := &luaPath{env: append([]luaBind{}, r.p.env...), depth: r.p.depth + 1}
		if id, ok := s.Key.(*ast.Ident); ok && s.Key != nil {
			body.define(id.Name, &luaV{op: "key", k: []*luaV{x}})
		}
		if id, ok := s.Value.(*ast.Ident); ok && s.Value != nil {
			body.define(id.Name, &luaV{op: "each", k: []*luaV{x}, st: luaIsFree(x)})
		}
		// assignments to variables of the enclosing function inside the body are not tracked
		outer := map[string]bool{}
		for _, b := range r.p.env {
			outer[b.name] = true
		}
		bad := false
		ast.Inspect(s.Body, func(n ast.Node) bool {
			switch a := n.(type) {
			case *ast.AssignStmt:
				if a.Tok != token.DEFINE {
					for _, l := range a.Lhs {
						if id, ok := l.(*ast.Ident); ok && outer[id.Name] {
							bad = true
						}
					}
				}
			case *ast.IncDecStmt:
				if id, ok := a.X.(*ast.Ident); ok && outer[id.Name] {
					bad = true
				}
			}
			return true
		})
		bps := ev.block([]*luaPath{body}, s.Body.List)
		parts := []string{}
		for _, b := range luaFinish(bps) {
			parts = append(parts, b.String())
		}
		r.p.effs = append(r.p.effs, luaEff{kind: "loop", text: "loop " + x.String() + " { " + strings.Join(parts, " | ") + " }"})
		if bad {
			r.p.poison("loop-assigns-outer")
		}
		outs = append(outs, r.p)
	}
	return outs
}

func (ev *luaEval) stmt(p *luaPath, s ast.Stmt) []*luaPath {
	switch v := s.(type) {
	case *ast.EmptyStmt:
		return []*luaPath{p}
	case *ast.ExprStmt:
		outs := []*luaPath{}
		for _, r := range ev.expr(p, v.X) {
			outs = append(outs, r.p)
		}
		return outs
	case *ast.AssignStmt:
		return ev.assignStmt(p, v)
	case *ast.IncDecStmt:
		op := "+"
		if v.Tok == token.DEC {
			op = "-"
		}
		outs := []*luaPath{}
		for _, r := range ev.expr(p, v.X) {
			outs = append(outs, ev.store(r.p, v.X, &luaV{op: "bin", s: op, k: []*luaV{luaFirst(r.v), luaLit("1")}}, false)...)
		}
		return outs
	case *ast.DeclStmt:
		gd, ok := v.Decl.(*ast.GenDecl)
		if !ok || gd.Tok == token.TYPE {
			return []*luaPath{p}
		}
		ps := []*luaPath{p}
		for _, sp := range gd.Specs {
			vs := sp.(*ast.ValueSpec)
			next := []*luaPath{}
			for _, q := range ps {
				if len(vs.Values) == 0 {
					for _, id := range vs.Names {
						q.define(id.Name, &luaV{op: "zero", s: luaType(ev.file(), vs.Type)})
					}
					next = append(next, q)
					continue
				}
				for _, r := range ev.exprs(q, vs.Values) {
					for i, id := range vs.Names {
						if i < len(r.v) {
							r.p.define(id.Name, r.v[i])
						}
					}
					next = append(next, r.p)
				}
			}
			ps = next
		}
		return ps
	case *ast.BlockStmt:
		return ev.scoped(p, func(p *luaPath) []*luaPath { return ev.block([]*luaPath{p}, v.List) })
	case *ast.IfStmt:
		return ev.ifStmt(p, v)
	case *ast.SwitchStmt:
		return ev.switchStmt(p, v)
	case *ast.RangeStmt:
		return ev.rangeStmt(p, v)
	case *ast.ReturnStmt:
		if len(v.Results) == 0 {
			if n := len(ev.named); n > 0 {
				for _, name := range ev.named[n-1] {
					x, _ := p.lookup(name)
					p.ret = append(p.ret, x)
				}
			}
			p.done = "return"
			return []*luaPath{p}
		}
		outs := []*luaPath{}
		if len(v.Results) == 1 {
			for _, r := range ev.expr(p, v.Results[0]) {
				r.p.ret = r.v
				if r.p.done == "" {
					r.p.done = "return"
				}
				outs = append(outs, r.p)
			}
			return outs
		}
		for _, r := range ev.exprs(p, v.Results) {
			r.p.ret = r.v
			if r.p.done == "" {
				r.p.done = "return"
			}
			outs = append(outs, r.p)
		}
		return outs
	case *ast.DeferStmt:
		outs := []*luaPath{}
		for _, r := range ev.call(p, v.Call, true) {
			outs = append(outs, r.p)
		}
		return outs
	case *ast.BranchStmt:
		switch v.Tok {
		case token.BREAK, token.CONTINUE:
			if v.Label == nil {
				p.done = v.Tok.String()
				return []*luaPath{p}
			}
		}
	}
	p.poison(fmt.Sprintf("%T", s))
	return []*luaPath{p}
}

// ---------------------------------------------------------------------------------------------------------------------
// finished paths

type luaOut struct {
	atoms []luaAtom
	conds []string // sorted
	effs  []luaEff
	effS  []string
	ret   string
	retv  []*luaV
}

func (o luaOut) String() string {
	return "[" + strings.Join(o.conds, ", ") + "] |- [" + strings.Join(o.effS, "; ") + "] => " + o.ret
}

func (o luaOut) key() string { return strings.Join(o.effS, "; ") + " => " + o.ret }

func luaFinish(ps []*luaPath, top ...bool) []luaOut {
	isTop := len(top) > 0 && top[0]
	outs := []luaOut{}
	for _, p := range ps {
		o := luaOut{atoms: p.atoms, effs: p.effs, retv: p.ret}
		for _, e := range p.effs {
			o.effS = append(o.effS, e.String())
		}
		switch {
		case p.done == "return":
			vs := []string{}
			for _, v := range p.ret {
				vs = append(vs, v.String())
			}
			o.ret = strings.Join(vs, ", ")
			if !isTop {
				o.ret = strings.TrimSpace("return " + o.ret)
			} else if len(vs) == 0 {
				o.ret = "-"
			}
		case p.done == "":
			o.ret = "-"
			if !isTop {
				o.ret = "next"
			}
		case p.done == "continue":
			o.ret = "next"
		default:
			o.ret = p.done
		}
		outs = append(outs, o)
	}
	// merge paths that differ only in the sign of one condition (an `if` whose branches do nothing that is kept)
	for changed := true; changed; {
		changed = false
	search:
		for i := 0; i < len(outs); i++ {
			for j := i + 1; j < len(outs); j++ {
				if outs[i].key() != outs[j].key() || len(outs[i].atoms) != len(outs[j].atoms) {
					continue
				}
				inJ := map[string]bool{}
				for _, a := range outs[j].atoms {
					inJ[a.String()] = true
				}
				var onlyI []luaAtom
				common := []luaAtom{}
				for _, a := range outs[i].atoms {
					if inJ[a.String()] {
						common = append(common, a)
					} else {
						onlyI = append(onlyI, a)
					}
				}
				if len(onlyI) == 1 && inJ[luaNormAtom(luaAtom{onlyI[0].v, !onlyI[0].neg}).String()] {
					outs[i].atoms = common
					outs = append(outs[:j], outs[j+1:]...)
					changed = true
					break search
				}
				if len(onlyI) == 0 {
					outs = append(outs[:j], outs[j+1:]...)
					changed = true
					break search
				}
			}
		}
	}
	for i := range outs {
		outs[i].conds = nil
		for _, a := range outs[i].atoms {
			outs[i].conds = append(outs[i].conds, a.String())
		}
		sort.Strings(outs[i].conds)
	}
	sort.SliceStable(outs, func(i, j int) bool { return outs[i].String() < outs[j].String() })
	return outs
}

func (pk *luaPkg) analyze(fd *ast.FuncDecl) []luaOut {
	if fd == nil || fd.Body == nil {
		return []luaOut{{ret: "?missing"}}
	}
	ev := &luaEval{pk: pk, files: []*ast.File{pk.fileOf[fd]}, stack: []*ast.FuncDecl{fd}, recvT: luaRecvBase(fd)}
	p := &luaPath{}
	n := 0
	if fd.Type.Params != nil {
		for _, fl := range fd.Type.Params.List {
			n += len(fl.Names)
		}
	}
	args := []*luaV{}
	for i := 0; i < n; i++ {
		args = append(args, &luaV{op: "param", s: "$" + strconv.Itoa(i)})
	}
	named := ev.bindParams(p, fd, &luaV{op: "param", s: "$recv"}, args)
	ev.named = [][]string{named}
	return luaFinish(ev.block([]*luaPath{p}, fd.Body.List), true)
}

// analyzeLit: a function literal inside outer; outer's parameters are $o0, $o1, …
func (pk *luaPkg) analyzeLit(lit *ast.FuncLit, outer *ast.FuncDecl) []luaOut {
	f := pk.fileOf[outer]
	ev := &luaEval{pk: pk, files: []*ast.File{f}, stack: []*ast.FuncDecl{outer}, recvT: luaRecvBase(outer), named: [][]string{nil}}
	p := &luaPath{}
	i := 0
	if outer.Type.Params != nil {
		for _, fl := range outer.Type.Params.List {
			for _, id := range fl.Names {
				p.define(id.Name, &luaV{op: "param", s: "$o" + strconv.Itoa(i), st: luaIsStateType(f, fl.Type)})
				i++
			}
		}
	}
	i = 0
	if lit.Type.Params != nil {
		for _, fl := range lit.Type.Params.List {
			for _, id := range fl.Names {
				p.define(id.Name, &luaV{op: "param", s: "$" + strconv.Itoa(i), st: luaIsStateType(f, fl.Type)})
				i++
			}
		}
	}
	return luaFinish(ev.block([]*luaPath{p}, lit.Body.List), true)
}

func luaPathsLean(outs []luaOut) string {
	ps := []string{}
	for _, o := range outs {
		ps = append(ps, fmt.Sprintf("{ conds := %s, effects := %s, ret := %s }", strList(o.conds), strList(o.effS), leanStr(o.ret)))
	}
	if len(ps) == 0 {
		return "[]"
	}
	return "[\n    " + strings.Join(ps, ",\n    ") + "]"
}

// ---------------------------------------------------------------------------------------------------------------------
// facts

type luaListener struct {
	slot, event, fn   string
	nret              *int
	protect, deferPut bool
	gets, puts        int
	paths             []luaOut
	sites             map[token.Pos]bool // the CallByParam call sites (source positions) its paths go through, helpers looked through
}

func luaUnq(s string) string {
	if u, err := strconv.Unquote(s); err == nil {
		return u
	}
	return s
}

func luaIsNilIdent(e ast.Expr) bool {
	id, ok := e.(*ast.Ident)
	return ok && id.Name == "nil"
}

// slotOf: `<root>.A.B` with exported A, B  ->  root, "A.B"
func luaSlotExpr(e ast.Expr) (string, string) {
	b, ok := e.(*ast.SelectorExpr)
	if !ok {
		return "", "?"
	}
	a, ok := b.X.(*ast.SelectorExpr)
	if !ok || !ast.IsExported(a.Sel.Name) || !ast.IsExported(b.Sel.Name) {
		return "", "?"
	}
	root, ok := a.X.(*ast.Ident)
	if !ok {
		return "", "?"
	}
	return root.Name, a.Sel.Name + "." + b.Sel.Name
}

// definedFromInbucketLookup: inside fd, the variable `name` is assigned from a package call whose first result is *Inbucket
func (pk *luaPkg) definedFromInbucketLookup(fd *ast.FuncDecl, name string) bool {
	found := false
	ast.Inspect(fd.Body, func(x ast.Node) bool {
		as, ok := x.(*ast.AssignStmt)
		if !ok || len(as.Rhs) != 1 || len(as.Lhs) == 0 {
			return true
		}
		id, ok := as.Lhs[0].(*ast.Ident)
		if !ok || id.Name != name {
			return true
		}
		if ce, ok := as.Rhs[0].(*ast.CallExpr); ok {
			if fid, ok := ce.Fun.(*ast.Ident); ok {
				if g := pk.resolveFunc(fid.Name); g != nil {
					if rs := pk.results(g); len(rs) > 0 && rs[0] == "*Inbucket" {
						found = true
					}
				}
			}
		}
		return true
	})
	return found
}

func luaIsAddListener(ce *ast.CallExpr) bool {
	se, ok := ce.Fun.(*ast.SelectorExpr)
	return ok && se.Sel.Name == "AddListener"
}

func (pk *luaPkg) listenerFacts(slot, event string, reg ast.Expr) luaListener {
	l := luaListener{slot: slot, event: event, fn: "?", sites: map[token.Pos]bool{}}
	se, ok := reg.(*ast.SelectorExpr)
	if !ok {
		l.paths = []luaOut{{ret: "?listener-not-a-method-value"}}
		return l
	}
	fd := pk.resolveMeth(se.Sel.Name)
	if fd == nil {
		l.paths = []luaOut{{ret: "?listener-not-found"}}
		return l
	}
	l.paths = pk.analyze(fd)
	fns := map[string]bool{}
	nrets := map[string]bool{}
	calls := 0
	l.protect, l.deferPut = true, true
	for _, p := range l.paths {
		gets, puts := 0, 0
		deferred := false
		for _, e := range p.effs {
			if e.v == nil {
				continue
			}
			v := e.v
			if v.op == "prim" && v.s == "get" {
				gets++
			}
			if v.op == "prim" && v.s == "put" {
				puts++
				if e.kind == "defer" && len(v.k) == 1 && v.k[0].String() == "S" {
					deferred = true
				}
			}
			if v.op == "mcall" && v.k[0].st {
				if !deferred {
					l.deferPut = false
				}
				if v.s == "PCall" || v.s == "Call" || v.s == "DoString" || v.s == "DoFile" || v.s == "Resume" {
					l.protect = false
					calls++
				}
			}
			if v.op == "mcall" && v.s == "CallByParam" && v.k[0].st {
				calls++
				l.sites[v.at] = true
				prot := false
				if len(v.k) >= 2 && v.k[1].op == "comp" && v.k[1].s == "gopher-lua.P" {
					for _, kv := range v.k[1].k {
						if kv.op != "kv" {
							continue
						}
						x := kv.k[0]
						switch kv.s {
						case "Fn":
							slot := "?"
							if x.op == "sel" && x.k[0].op == "sel" && strings.HasPrefix(x.k[0].k[0].String(), "fn->*Inbucket(") {
								slot = x.k[0].s + "." + x.s
							}
							fns[slot] = true
						case "NRet":
							nrets[x.String()] = true
						case "Protect":
							prot = x.op == "lit" && x.s == "true"
						}
					}
				}
				if !prot {
					l.protect = false
				}
			}
		}
		if gets > l.gets {
			l.gets = gets
		}
		if puts > l.puts {
			l.puts = puts
		}
	}
	if calls == 0 {
		l.protect, l.deferPut = false, false
	}
	if len(fns) == 1 {
		for k := range fns {
			l.fn = k
		}
	}
	if len(nrets) == 1 {
		for k := range nrets {
			if n, err := strconv.Atoi(k); err == nil && n >= 0 {
				l.nret = &n
			}
		}
	}
	return l
}

func (pk *luaPkg) listeners() ([]luaListener, []*ast.FuncDecl) {
	res := []luaListener{}
	decls := []*ast.FuncDecl{}
	for _, fd := range pk.all {
		if fd.Body == nil {
			continue
		}
		handled := map[*ast.CallExpr]bool{}
		add := func(slot string, ce *ast.CallExpr) {
			handled[ce] = true
			event := "?"
			if se, ok := ce.Fun.(*ast.SelectorExpr); ok {
				if ev, ok := se.X.(*ast.SelectorExpr); ok && ast.IsExported(ev.Sel.Name) {
					event = ev.Sel.Name
				}
			}
			if len(ce.Args) != 2 {
				res = append(res, luaListener{slot: slot, event: event, fn: "?", paths: []luaOut{{ret: "?AddListener-arity"}}})
				return
			}
			res = append(res, pk.listenerFacts(slot, event, ce.Args[1]))
			if se, ok := ce.Args[1].(*ast.SelectorExpr); ok {
				if g := pk.resolveMeth(se.Sel.Name); g != nil {
					decls = append(decls, g)
				}
			}
		}
		ast.Inspect(fd.Body, func(x ast.Node) bool {
			is, ok := x.(*ast.IfStmt)
			if !ok {
				return true
			}
			slot := "?"
			if be, ok := is.Cond.(*ast.BinaryExpr); ok && be.Op == token.NEQ && is.Init == nil && is.Else == nil {
				var side ast.Expr
				if luaIsNilIdent(be.Y) {
					side = be.X
				} else if luaIsNilIdent(be.X) {
					side = be.Y
				}
				if side != nil {
					root, s := luaSlotExpr(side)
					if s != "?" && pk.definedFromInbucketLookup(fd, root) {
						slot = s
					}
				}
			}
			for _, st := range is.Body.List {
				if es, ok := st.(*ast.ExprStmt); ok {
					if ce, ok := es.X.(*ast.CallExpr); ok && luaIsAddListener(ce) && !handled[ce] {
						add(slot, ce)
					}
				}
			}
			return true
		})
		ast.Inspect(fd.Body, func(x ast.Node) bool {
			if ce, ok := x.(*ast.CallExpr); ok && luaIsAddListener(ce) && !handled[ce] {
				add("?unguarded", ce)
			}
			return true
		})
	}
	sort.SliceStable(res, func(i, j int) bool { return res[i].slot+"|"+res[i].event < res[j].slot+"|"+res[j].event })
	return res, decls
}

// reachable: package functions reachable from roots through calls resolved by name
func (pk *luaPkg) reachable(roots []*ast.FuncDecl) map[*ast.FuncDecl]bool {
	seen := map[*ast.FuncDecl]bool{}
	work := append([]*ast.FuncDecl{}, roots...)
	for len(work) > 0 {
		fd := work[len(work)-1]
		work = work[:len(work)-1]
		if fd == nil || seen[fd] || fd.Body == nil {
			continue
		}
		seen[fd] = true
		ast.Inspect(fd.Body, func(x ast.Node) bool {
			if ce, ok := x.(*ast.CallExpr); ok {
				switch fu := ce.Fun.(type) {
				case *ast.Ident:
					work = append(work, pk.funcs[fu.Name])
				case *ast.SelectorExpr:
					work = append(work, pk.meths[fu.Sel.Name]...)
				}
			}
			return true
		})
	}
	return seen
}

// onlyCalledFromRoles: an unexported method of the pool all of whose callers are the pool's get / put / flush methods —
// a helper whose body is already part of those methods' paths (it is inlined there)
func (pk *luaPkg) onlyCalledFromRoles(fd *ast.FuncDecl) bool {
	if luaRecvBase(fd) != pk.poolT || ast.IsExported(fd.Name.Name) {
		return false
	}
	callers, bad := 0, false
	for _, c := range pk.all {
		if c.Body == nil || c == fd {
			continue
		}
		calls := false
		ast.Inspect(c.Body, func(x ast.Node) bool {
			switch v := x.(type) {
			case *ast.SelectorExpr:
				if v.Sel.Name == fd.Name.Name {
					calls = true
				}
			case *ast.Ident:
				if v.Name == fd.Name.Name {
					calls = true
				}
			}
			return true
		})
		if !calls {
			continue
		}
		callers++
		r := pk.role[c.Name.Name]
		if luaRecvBase(c) != pk.poolT || (r != "get" && r != "put" && r != "flush") {
			bad = true
		}
	}
	return callers > 0 && !bad
}

func luaPubName(fd *ast.FuncDecl) string {
	if ast.IsExported(fd.Name.Name) {
		return fd.Name.Name
	}
	return "fn"
}

// index tables: (key, T, field) of every `case key: <x.(*T)>.field = S.CheckFunction(3)` and (key, field) of every
// `case key: S.Push(… &<x.(*Inbucket)>.field …)` in the func(*LState) int functions of the package
func (pk *luaPkg) indexTables() (setters [][3]string, getters [][2]string) {
	names := []string{}
	for n := range pk.funcs {
		names = append(names, n)
	}
	sort.Strings(names)
	for _, n := range names {
		fd := pk.funcs[n]
		pt, rt := pk.paramTypes(fd), pk.results(fd)
		if len(pt) != 1 || pt[0] != "*gopher-lua.LState" || len(rt) != 1 || rt[0] != "int" || fd.Body == nil {
			continue
		}
		if !luaMentionsField(fd.Body, "CheckString") {
			continue
		}
		for _, p := range pk.analyze(fd) {
			key := ""
			nkeys := 0
			for _, a := range p.atoms {
				v := a.v
				if a.neg || v.op != "bin" || v.s != "==" || v.k[1].op != "lit" {
					continue
				}
				c := v.k[0]
				if c.op == "mcall" && c.s == "CheckString" && c.k[0].st && len(c.k) == 2 && c.k[1].String() == "2" {
					key = luaUnq(v.k[1].s)
					nkeys++
				}
			}
			if nkeys != 1 {
				continue
			}
			for _, e := range p.effs {
				if e.kind == "set" && e.v.op == "sel" && e.rhs.op == "mcall" && e.rhs.s == "CheckFunction" && e.rhs.k[0].st && len(e.rhs.k) == 2 && e.rhs.k[1].String() == "3" {
					t := "?"
					if b := e.v.k[0]; b.op == "lit" && b.s == "nil" {
						continue // the path on which the userdata check has raised an argument error
					}
					e.v.k[0].walk(func(x *luaV) {
						if x.op == "assert" {
							t = strings.TrimPrefix(x.s, "*")
						}
					})
					setters = append(setters, [3]string{key, t, e.v.s})
				}
				if e.kind == "call" && e.v.op == "mcall" && e.v.s == "Push" && e.v.k[0].st {
					e.v.walk(func(x *luaV) {
						if x.op == "addr" && x.k[0].op == "sel" && ast.IsExported(x.k[0].s) {
							isIb := false
							x.k[0].k[0].walk(func(y *luaV) {
								if y.op == "assert" && y.s == "*Inbucket" {
									isIb = true
								}
							})
							if isIb {
								getters = append(getters, [2]string{key, x.k[0].s})
							}
						}
					})
				}
			}
		}
	}
	return
}

func (pk *luaPkg) ownerField(t string) string {
	st := pk.structs["Inbucket"]
	if st == nil {
		return "?"
	}
	for _, fl := range st.Fields.List {
		if luaType(pk.stFile["Inbucket"], fl.Type) == t && len(fl.Names) == 1 {
			return fl.Names[0].Name
		}
	}
	return "?"
}

func luaPairs(l [][2]string) string {
	sort.SliceStable(l, func(i, j int) bool { return l[i][0]+"|"+l[i][1] < l[j][0]+"|"+l[j][1] })
	p := []string{}
	for _, x := range l {
		p = append(p, fmt.Sprintf("(%s, %s)", leanStr(x[0]), leanStr(x[1])))
	}
	return "[" + strings.Join(p, ", ") + "]"
}

func extractLua() {
	g := gen("Lua")
	fmt.Fprintf(&g.buf, `/-- one control-flow path of a function after inlining the package's own helpers.
    conds: what must hold (sorted); effects: the calls / stores that matter, in execution order; ret: what is returned
    (`+"`-`"+` = nothing, `+"`?…`"+` = a shape the extractor does not understand).
    Names: $recv / $0 / $1 = receiver and parameters; S = the state handed out by the pool's get; `+"`fn->T(…)`"+` = a helper of
    the package that is not inlined, named by its result types (`+"`.err`"+` = its error result); `+"`<T>`"+` = the receiver's unexported
    field of type T (`+"`<free>`"+` = the pool's free list); get / put / new / flush = the pool's methods, found by what they do. -/
structure Path where
  conds : List String
  effects : List String
  ret : String
  deriving DecidableEq, Repr

/-- a listener registered with AddListener: the slot tested for non-nil in front of the registration, the event broker,
    and what the registered method does -/
structure Listener where
  slot : String            -- `+"`<inbucket>.A.B != nil`"+` guarding the registration
  event : String           -- Events.<event>.AddListener
  fn : String              -- slot passed as Fn of lua.P to CallByParam
  nret : Option Nat
  protect : Bool           -- every Lua entry of every path is CallByParam with Protect: true (and there is one)
  deferPut : Bool          -- on every path `+"`defer put(S)`"+` comes before the first call on S
  gets : Nat               -- pool gets on a path (max)
  puts : Nat               -- pool puts on a path (max)
  paths : List Path
  deriving DecidableEq, Repr

`)
	pk := luaLoad(luaDir)
	// ---- listeners
	ls, ldecls := pk.listeners()
	ll := []string{}
	for _, l := range ls {
		ll = append(ll, fmt.Sprintf("{ slot := %s, event := %s, fn := %s, nret := %s, protect := %s, deferPut := %s, gets := %d, puts := %d,\n    paths := %s }",
			leanStr(l.slot), leanStr(l.event), leanStr(l.fn), optNat(l.nret), luaLeanBool(l.protect), luaLeanBool(l.deferPut), l.gets, l.puts, luaPathsLean(l.paths)))
	}
	g.def("listeners", "List Listener", "[\n  "+strings.Join(ll, ",\n  ")+"]", "every AddListener call of the package, sorted by slot")
	// ---- Lua entry points that are not protected
	// A CallByParam site counts once per listener whose paths go through it (a helper shared by two listeners is two Lua
	// entries, exactly as if it were written out in both) and once when NO listener reaches it (an entry point outside the
	// listeners).  With `listeners.length` this says: every listener has one site and there is no other.
	unprotected := []string{}
	sites := 0
	for _, f := range pk.files {
		ast.Inspect(f, func(x ast.Node) bool {
			ce, ok := x.(*ast.CallExpr)
			if !ok {
				return true
			}
			se, ok := ce.Fun.(*ast.SelectorExpr)
			if !ok {
				return true
			}
			switch se.Sel.Name {
			case "CallByParam":
				users := 0
				for _, l := range ls {
					if l.sites[ce.Pos()] {
						users++
					}
				}
				if users == 0 {
					users = 1
				}
				sites += users
				okp := false
				if len(ce.Args) > 0 {
					if cl, ok := ce.Args[0].(*ast.CompositeLit); ok {
						for _, e := range cl.Elts {
							if kv, ok := e.(*ast.KeyValueExpr); ok {
								k, _ := kv.Key.(*ast.Ident)
								v, _ := kv.Value.(*ast.Ident)
								if k != nil && v != nil && k.Name == "Protect" && v.Name == "true" {
									okp = true
								}
							}
						}
					}
				}
				if !okp {
					unprotected = append(unprotected, "CallByParam")
				}
			case "Call", "DoString", "DoFile", "Resume":
				unprotected = append(unprotected, se.Sel.Name)
			}
			return true
		})
	}
	sort.Strings(unprotected)
	g.def("unprotectedCalls", "List String", strList(unprotected), "Lua entry points anywhere in the package that are not protected calls (CallByParam without a literal Protect: true, Call, DoString, DoFile, Resume)")
	g.def("callByParamSites", "Nat", strconv.Itoa(sites), "Lua entries of the package: each CallByParam call site once per listener whose paths go through it (helpers looked through), and once if no listener reaches it")
	// ---- Lua names
	setters, getters := pk.indexTables()
	names := [][2]string{}
	for _, s := range setters {
		owner := pk.ownerField(s[1])
		prefix := "?"
		for _, gt := range getters {
			if gt[1] == owner {
				prefix = gt[0]
			}
		}
		names = append(names, [2]string{prefix + "." + s[0], owner + "." + s[2]})
	}
	g.def("luaNames", "List (String × String)", luaPairs(names), "(Lua name, slot of the Inbucket struct): `inbucket.<k1>.<k2> = f` stores f (CheckFunction(3)) in that slot — from the __index / __newindex functions")
	g.def("inbucketIndex", "List (String × String)", luaPairs(getters), "__index of the `inbucket` global: (key, field of Inbucket whose address is wrapped and pushed)")
	// ---- unwrap functions: func(x) (*event.T, error)
	uw := []string{}
	fnames := []string{}
	for n := range pk.funcs {
		fnames = append(fnames, n)
	}
	sort.Strings(fnames)
	type luaUw struct {
		t     string
		paths []luaOut
	}
	uws := []luaUw{}
	for _, n := range fnames {
		fd := pk.funcs[n]
		rs, ps := pk.results(fd), pk.paramTypes(fd)
		if len(rs) == 2 && rs[1] == "error" && strings.HasPrefix(rs[0], "*event.") && len(ps) == 1 && ps[0] == "gopher-lua.LValue" {
			uws = append(uws, luaUw{rs[0], pk.analyze(fd)})
		}
	}
	sort.SliceStable(uws, func(i, j int) bool { return uws[i].t < uws[j].t })
	for _, u := range uws {
		uw = append(uw, fmt.Sprintf("(%s, %s)", leanStr(u.t), luaPathsLean(u.paths)))
	}
	g.def("unwraps", "List (String × List Path)", "[\n  "+strings.Join(uw, ",\n  ")+"]", "the functions func(lua.LValue) (*event.T, error): (T, paths)")
	// ---- smtp.allow / defer / deny constructor
	ctor := []luaOut{{ret: "?not-found"}}
	nctor := 0
	for _, fd := range pk.all {
		if fd.Body == nil {
			continue
		}
		ast.Inspect(fd.Body, func(x ast.Node) bool {
			lit, ok := x.(*ast.FuncLit)
			if !ok {
				return true
			}
			has := false
			ast.Inspect(lit.Body, func(y ast.Node) bool {
				if cl, ok := y.(*ast.CompositeLit); ok && luaType(pk.fileOf[fd], cl.Type) == "event.SMTPResponse" {
					has = true
				}
				return true
			})
			if has {
				nctor++
				ctor = pk.analyzeLit(lit, fd)
			}
			return true
		})
	}
	if nctor > 1 {
		ctor = []luaOut{{ret: "?ambiguous"}}
	}
	g.def("smtpCtor", "List Path", luaPathsLean(ctor), "the closure that builds smtp.allow / defer / deny results ($o0 = the action it was made for)")
	var denyCode *int
	var denyMsg *string
	okDeny := true
	for _, p := range ctor {
		isDeny := false
		for _, c := range p.conds {
			if c == "($o0 == event.ActionDeny)" {
				isDeny = true
			}
		}
		for _, e := range p.effs {
			if e.kind != "set" || e.v.op != "sel" || (e.v.s != "ErrorCode" && e.v.s != "ErrorMsg") {
				continue
			}
			r := e.rhs
			if !isDeny || r.op != "mcall" || !r.k[0].st || len(r.k) != 3 || r.k[2].op != "lit" {
				okDeny = false
				continue
			}
			if e.v.s == "ErrorCode" && r.s == "OptInt" && r.k[1].String() == "1" {
				if n, err := strconv.Atoi(r.k[2].s); err == nil && n >= 0 && denyCode == nil {
					denyCode = &n
					continue
				}
			}
			if e.v.s == "ErrorMsg" && r.s == "OptString" && r.k[1].String() == "2" && denyMsg == nil {
				s := luaUnq(r.k[2].s)
				denyMsg = &s
				continue
			}
			okDeny = false
		}
	}
	if !okDeny {
		denyCode, denyMsg = nil, nil
	}
	g.def("denyCode", "Option Nat", optNat(denyCode), "n of `.ErrorCode = S.OptInt(1, n)`, executed only when the action is ActionDeny")
	g.def("denyMsg", "Option String", optStr(denyMsg), "s of `.ErrorMsg = S.OptString(2, s)`, executed only when the action is ActionDeny")
	// ---- pool
	for _, role := range []string{"get", "put", "flush"} {
		ds := pk.roleDecl(role)
		paths := []luaOut{{ret: fmt.Sprintf("?%d-methods-with-this-role", len(ds))}}
		if len(ds) == 1 {
			paths = pk.analyze(ds[0])
		}
		g.def("pool"+strings.Title(role), "List Path", luaPathsLean(paths), "the pool method with role `"+role+"`")
	}
	others := []string{}
	for _, fd := range pk.all {
		r := ""
		if luaRecvBase(fd) == pk.poolT {
			r = pk.role[fd.Name.Name]
		}
		if fd.Body != nil && pk.freeF != "" && (r != "get" && r != "put" && r != "flush") && luaMentionsField(fd.Body, pk.freeF) && !pk.onlyCalledFromRoles(fd) {
			others = append(others, luaPubName(fd))
		}
	}
	if pk.freeF == "" {
		others = append(others, "?no-pool")
	}
	g.def("otherStatesUsers", "List String", strList(others), "other functions of the package (verif_* files excluded) that touch the free list")
	reach := pk.reachable(ldecls)
	sitesOut := []string{}
	for _, fd := range pk.all {
		if fd.Body == nil || reach[fd] || (luaRecvBase(fd) == pk.poolT && pk.role[fd.Name.Name] != "") {
			continue
		}
		gts, pts := 0, 0
		ast.Inspect(fd.Body, func(x ast.Node) bool {
			if ce, ok := x.(*ast.CallExpr); ok {
				if se, ok := ce.Fun.(*ast.SelectorExpr); ok {
					switch pk.role[se.Sel.Name] {
					case "get":
						gts++
					case "put":
						pts++
					}
				}
			}
			return true
		})
		if gts+pts > 0 {
			sitesOut = append(sitesOut, fmt.Sprintf("(%s, %d, %d)", leanStr(luaPubName(fd)), gts, pts))
		}
	}
	sort.Strings(sitesOut)
	g.def("poolSitesOutsideListeners", "List (String × Nat × Nat)", "["+strings.Join(sitesOut, ", ")+"]", "functions not reachable from a listener that call the pool's get / put: (exported name or `fn`, gets, puts)")
	// ---- EventBroker.Emit
	bk := luaLoad("pkg/extension", "broker.go")
	emit := []luaOut{{ret: "?not-found"}}
	for _, fd := range bk.meths["Emit"] {
		if luaRecvBase(fd) == "EventBroker" {
			emit = bk.analyze(fd)
		}
	}
	g.def("emit", "List Path", luaPathsLean(emit), "EventBroker.Emit")
}
