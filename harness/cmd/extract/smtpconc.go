package main

// T1 facts for the concurrent SMTP model (C19 / C03 / C01: Model.SmtpConc), re-read from pkg/server/smtp/*.go (test files
// and the verif-only exports left out).  The model's step of a session is a function of the session's own state and
// pending input and of nothing else; what makes that true of the SOURCE is that (a) two sessions share no value that is
// written after initialisation, (b) the session code cannot observe the cancellation, (c) the only thing the session
// code asks of the message manager is Deliver.  Everything is found by ROLE:
//   * the SERVER TYPE is the receiver type of the function that calls `Accept()`;
//   * the SESSION TYPE is the struct type that embeds the server type (by pointer or by value);
//   * the SESSION ROOTS are the package functions called by the `go` statement of the accept loop (directly or from its
//     function literal); SESSION CODE is everything the roots reach through calls the package resolves by name (every
//     declaration of that name, over-approximating), plus every method of the session type, plus every method of a
//     package type that session code builds a value of (a hook object handed to a library);
//   * the CONSTRUCTORS are the functions holding a composite literal of the server / session type.
// Facts:
//   pkgVars            every package-level `var` with a verdict:
//                        regexp      initialised by regexp.MustCompile(<string literal>), never assigned, address never
//                                    taken, used only as the receiver of method calls (a compiled regexp is safe for
//                                    concurrent use and immutable);
//                        readOnlyTable  initialised by a map / slice / array literal of literals, never assigned (no
//                                    `v = `, `v[k] = `, `delete(v, …)`, `&v`, append), used only as `v[k]`, `len(v)`,
//                                    `range v`;
//                        constant    initialised by a basic literal, never assigned;
//                        metricWriteOnly  initialised by new(expvar.…) / list.New(); never assigned; session code uses it
//                                    only in expression statements `v.Add(…)` / `v.Set(…)`: nothing flows back;
//                        notReachedFromSessions  never assigned and not mentioned in session code at all;
//                        unknown     anything else (a slice handed to sessions, a cache, a flag …).
//   sessionInit        the fields the session constructor's literal sets, each with where its value comes from:
//                        server (the server parameter itself), param (another parameter: id, conn, logger), fresh (a call of
//                        make / new / a library constructor over parameters and locals, or a local defined from such),
//                        config (a selector path below the server parameter: immutable configuration, copied), const (a
//                        literal or a package constant); anything mentioning a package variable is `pkgvar:<name>`,
//                        anything else `unknown`.  none = no / several literals of the session type.
//   serverFieldsSharedMutable   fields of the server type that are assigned outside the server constructor AND mentioned in
//                        session code (a field set in Start from the context and polled by the sessions, say).
//   sessionChanOps     select statements, channel receives / sends and go statements in session code.
//   sessionReachesCtx  session code has a context.Context parameter or mentions an identifier ctx / context / Context.
//   sessionManagerCalls  the methods session code calls on the server's message.Manager field, sorted.
//   sessionFunctions   the names of the functions counted as session code (for the reader of the evidence).

import (
	"fmt"
	"go/ast"
	"go/token"
	"sort"
	"strings"
)

func init() { extractors = append(extractors, extractSmtpConc) }

type scPkg struct {
	p        *rtPkg
	names    []string // file names, sorted
	vars     map[string]*ast.ValueSpec
	varInit  map[string]ast.Expr
	consts   map[string]bool
	types    map[string]*ast.StructType
	allFuncs []*ast.FuncDecl
}

func scLoad(dir string) *scPkg {
	s := &scPkg{p: rtLoadPkg(dir), vars: map[string]*ast.ValueSpec{}, varInit: map[string]ast.Expr{}, consts: map[string]bool{}, types: map[string]*ast.StructType{}}
	for n := range s.p.files {
		s.names = append(s.names, n)
	}
	sort.Strings(s.names)
	for _, n := range s.names {
		f := s.p.files[n]
		for _, d := range f.Decls {
			switch v := d.(type) {
			case *ast.FuncDecl:
				if v.Body != nil {
					s.allFuncs = append(s.allFuncs, v)
				}
			case *ast.GenDecl:
				for _, sp := range v.Specs {
					switch x := sp.(type) {
					case *ast.ValueSpec:
						for i, id := range x.Names {
							if id.Name == "_" {
								continue
							}
							if v.Tok == token.CONST {
								s.consts[id.Name] = true
							} else if v.Tok == token.VAR {
								s.vars[id.Name] = x
								if i < len(x.Values) && len(x.Values) == len(x.Names) {
									s.varInit[id.Name] = x.Values[i]
								}
							}
						}
					case *ast.TypeSpec:
						if st, ok := x.Type.(*ast.StructType); ok {
							s.types[x.Name.Name] = st
						}
					}
				}
			}
		}
	}
	return s
}

func scRecvName(fd *ast.FuncDecl) string {
	if fd.Recv == nil || len(fd.Recv.List) != 1 {
		return ""
	}
	t := fd.Recv.List[0].Type
	if st, ok := t.(*ast.StarExpr); ok {
		t = st.X
	}
	if id, ok := t.(*ast.Ident); ok {
		return id.Name
	}
	return ""
}

// scIsPkgLevel: the identifier names the package-level object `name` (not a local of the same name, not a field selector, not a key).
func scIsPkgLevel(id *ast.Ident, name string) bool {
	if id.Name != name {
		return false
	}
	if id.Obj == nil {
		return true // unresolved in its file: declared in another file of the package
	}
	switch id.Obj.Decl.(type) {
	case *ast.ValueSpec:
		return id.Obj.Kind == ast.Var && id.Obj.Data == nil || id.Obj.Kind == ast.Var || id.Obj.Kind == ast.Con
	}
	return false
}

// scCalleeName: the name a call resolves to inside the package (f(…) or x.f(…)); "" otherwise.
func scCalleeName(ce *ast.CallExpr) string {
	switch f := rtUnparen(ce.Fun).(type) {
	case *ast.Ident:
		return f.Name
	case *ast.SelectorExpr:
		return f.Sel.Name
	}
	return ""
}

func (s *scPkg) structFieldNames(t string) map[string]ast.Expr {
	res := map[string]ast.Expr{}
	st := s.types[t]
	if st == nil {
		return res
	}
	for _, f := range st.Fields.List {
		if len(f.Names) == 0 {
			res["<embedded>"+axTypeBase(f.Type)] = f.Type
			continue
		}
		for _, n := range f.Names {
			res[n.Name] = f.Type
		}
	}
	return res
}

func (s *scPkg) embeds(outer, inner string) bool {
	st := s.types[outer]
	if st == nil {
		return false
	}
	for _, f := range st.Fields.List {
		if len(f.Names) == 0 && axTypeBase(f.Type) == inner {
			return true
		}
	}
	return false
}

// sessionCode: see the file comment.
func (s *scPkg) sessionCode() (server, session string, code []*ast.FuncDecl, ok bool) {
	// the server type: receiver of the function that calls Accept()
	var acceptFn *ast.FuncDecl
	n := 0
	for _, fd := range s.allFuncs {
		has := false
		ast.Inspect(fd.Body, func(x ast.Node) bool {
			if ce, ok := x.(*ast.CallExpr); ok {
				if se, ok := ce.Fun.(*ast.SelectorExpr); ok && se.Sel.Name == "Accept" && len(ce.Args) == 0 {
					has = true
				}
			}
			return true
		})
		if has {
			acceptFn = fd
			n++
		}
	}
	if n != 1 || scRecvName(acceptFn) == "" {
		return "", "", nil, false
	}
	server = scRecvName(acceptFn)
	var sess []string
	for t := range s.types {
		if s.embeds(t, server) {
			sess = append(sess, t)
		}
	}
	if len(sess) != 1 {
		return server, "", nil, false
	}
	session = sess[0]
	// roots: calls inside the go statements of the accept function
	roots := map[string]bool{}
	ast.Inspect(acceptFn.Body, func(x ast.Node) bool {
		gs, ok := x.(*ast.GoStmt)
		if !ok {
			return true
		}
		ast.Inspect(gs.Call, func(y ast.Node) bool {
			if ce, ok := y.(*ast.CallExpr); ok {
				if nm := scCalleeName(ce); nm != "" && len(s.p.funcs[nm]) > 0 {
					roots[nm] = true
				}
			}
			return true
		})
		return true
	})
	if len(roots) == 0 {
		return server, session, nil, false
	}
	in := map[*ast.FuncDecl]bool{}
	var work []*ast.FuncDecl
	add := func(fd *ast.FuncDecl) {
		if !in[fd] {
			in[fd] = true
			work = append(work, fd)
		}
	}
	for nm := range roots {
		for _, fd := range s.p.funcs[nm] {
			add(fd)
		}
	}
	for _, fd := range s.allFuncs {
		if scRecvName(fd) == session {
			add(fd)
		}
	}
	for len(work) > 0 {
		fd := work[len(work)-1]
		work = work[:len(work)-1]
		ast.Inspect(fd.Body, func(x ast.Node) bool {
			switch v := x.(type) {
			case *ast.CallExpr:
				if nm := scCalleeName(v); nm != "" {
					for _, g := range s.p.funcs[nm] {
						// a method of the server type that is not session code by itself (Start, the accept loop, Drain) is entered only
						// when it is called, like any function
						add(g)
					}
				}
			case *ast.CompositeLit:
				// a value of a package type is built: its methods may be called by whoever receives it
				if id, ok := v.Type.(*ast.Ident); ok {
					if _, isType := s.types[id.Name]; isType && id.Name != session && id.Name != server {
						for _, g := range s.allFuncs {
							if scRecvName(g) == id.Name {
								add(g)
							}
						}
					}
				}
			}
			return true
		})
	}
	// the accept function itself and whatever spawns it are NOT session code even when the name-based closure reached them
	// through a shared helper name: a session never calls the accept loop
	for fd := range in {
		if fd == acceptFn {
			continue
		}
		code = append(code, fd)
	}
	sort.Slice(code, func(i, j int) bool { return code[i].Pos() < code[j].Pos() })
	return server, session, code, true
}

type scUse struct {
	kind string // write | index | method:<name> | methodStmt:<name> | other
	fn   *ast.FuncDecl
}

// usesOf: every mention of the package-level variable `name` in function bodies and in other initialisers, classified.
func (s *scPkg) usesOf(name string) []scUse {
	var res []scUse
	classify := func(fd *ast.FuncDecl, root ast.Node) {
		var stack []ast.Node
		ast.Inspect(root, func(n ast.Node) bool {
			if n == nil {
				stack = stack[:len(stack)-1]
				return true
			}
			stack = append(stack, n)
			id, ok := n.(*ast.Ident)
			if !ok || !scIsPkgLevel(id, name) {
				return true
			}
			parent := func(k int) ast.Node {
				if len(stack)-1-k < 0 {
					return nil
				}
				return stack[len(stack)-1-k]
			}
			p1 := parent(1)
			// not a use: the selected name of a selector, a struct-literal key
			if se, ok := p1.(*ast.SelectorExpr); ok && se.Sel == id {
				return true
			}
			if kv, ok := p1.(*ast.KeyValueExpr); ok && kv.Key == ast.Expr(id) {
				if cl, ok := parent(2).(*ast.CompositeLit); ok {
					switch cl.Type.(type) {
					case *ast.MapType, *ast.ArrayType:
					default:
						return true
					}
				}
			}
			kind := "other"
			switch v := p1.(type) {
			case *ast.AssignStmt:
				for _, l := range v.Lhs {
					if l == ast.Expr(id) {
						kind = "write"
					}
				}
			case *ast.IncDecStmt:
				kind = "write"
			case *ast.UnaryExpr:
				if v.Op == token.AND {
					kind = "write"
				}
			case *ast.IndexExpr:
				if v.X == ast.Expr(id) {
					kind = "index"
					switch pp := parent(2).(type) {
					case *ast.AssignStmt:
						for _, l := range pp.Lhs {
							if l == ast.Expr(v) {
								kind = "write"
							}
						}
					case *ast.IncDecStmt:
						kind = "write"
					case *ast.UnaryExpr:
						if pp.Op == token.AND {
							kind = "write"
						}
					}
				}
			case *ast.RangeStmt:
				if v.X == ast.Expr(id) {
					kind = "index"
				}
			case *ast.CallExpr:
				if fid, ok := v.Fun.(*ast.Ident); ok && fid.Obj == nil {
					switch fid.Name {
					case "len", "cap":
						kind = "index"
					case "delete", "append", "copy", "clear":
						kind = "write"
					}
				}
			case *ast.SelectorExpr:
				if v.X == ast.Expr(id) {
					if ce, ok := parent(2).(*ast.CallExpr); ok && ce.Fun == ast.Expr(v) {
						kind = "method:" + v.Sel.Name
						if _, ok := parent(3).(*ast.ExprStmt); ok {
							kind = "methodStmt:" + v.Sel.Name
						}
					} else if as, ok := parent(2).(*ast.AssignStmt); ok {
						for _, l := range as.Lhs {
							if l == ast.Expr(v) {
								kind = "write"
							}
						}
					}
				}
			}
			res = append(res, scUse{kind: kind, fn: fd})
			return true
		})
	}
	for _, fd := range s.allFuncs {
		classify(fd, fd.Body)
	}
	for other, init := range s.varInit {
		if other != name && init != nil {
			classify(nil, init)
		}
	}
	return res
}

func scIsLiteralTable(e ast.Expr) bool {
	cl, ok := e.(*ast.CompositeLit)
	if !ok {
		return false
	}
	switch cl.Type.(type) {
	case *ast.MapType, *ast.ArrayType:
	default:
		return false
	}
	lit := func(x ast.Expr) bool {
		switch v := x.(type) {
		case *ast.BasicLit:
			return true
		case *ast.Ident:
			return v.Name == "true" || v.Name == "false" || v.Name == "nil"
		}
		return false
	}
	for _, el := range cl.Elts {
		if kv, ok := el.(*ast.KeyValueExpr); ok {
			if !lit(kv.Key) || !lit(kv.Value) {
				return false
			}
		} else if !lit(el) {
			return false
		}
	}
	return true
}

func scIsPkgCall(e ast.Expr, pkg string, names ...string) (*ast.CallExpr, bool) {
	ce, ok := e.(*ast.CallExpr)
	if !ok {
		return nil, false
	}
	se, ok := ce.Fun.(*ast.SelectorExpr)
	if !ok {
		return nil, false
	}
	x, ok := se.X.(*ast.Ident)
	if !ok || x.Name != pkg || x.Obj != nil {
		return nil, false
	}
	for _, n := range names {
		if se.Sel.Name == n {
			return ce, true
		}
	}
	return nil, false
}

func (s *scPkg) varVerdict(name string, inSession map[*ast.FuncDecl]bool) string {
	init := s.varInit[name]
	uses := s.usesOf(name)
	written, sessionUses := false, 0
	for _, u := range uses {
		if u.kind == "write" {
			written = true
		}
		if u.fn != nil && inSession[u.fn] {
			sessionUses++
		}
	}
	if written || init == nil {
		return "unknown"
	}
	all := func(p func(scUse) bool) bool {
		for _, u := range uses {
			if !p(u) {
				return false
			}
		}
		return true
	}
	if ce, ok := scIsPkgCall(init, "regexp", "MustCompile", "MustCompilePOSIX"); ok && len(ce.Args) == 1 {
		if bl, ok := ce.Args[0].(*ast.BasicLit); ok && bl.Kind == token.STRING {
			if all(func(u scUse) bool {
				return strings.HasPrefix(u.kind, "method:") || strings.HasPrefix(u.kind, "methodStmt:")
			}) {
				return "regexp"
			}
		}
		return "unknown"
	}
	if scIsLiteralTable(init) {
		if all(func(u scUse) bool { return u.kind == "index" }) {
			return "readOnlyTable"
		}
		return "unknown"
	}
	if _, ok := init.(*ast.BasicLit); ok {
		return "constant"
	}
	metric := false
	if ce, ok := init.(*ast.CallExpr); ok {
		if id, ok := ce.Fun.(*ast.Ident); ok && id.Name == "new" && id.Obj == nil && len(ce.Args) == 1 {
			if se, ok := ce.Args[0].(*ast.SelectorExpr); ok {
				if x, ok := se.X.(*ast.Ident); ok && x.Name == "expvar" && x.Obj == nil {
					metric = true
				}
			}
		}
		if _, ok := scIsPkgCall(init, "list", "New"); ok {
			metric = true
		}
	}
	if sessionUses == 0 {
		return "notReachedFromSessions"
	}
	if metric {
		okAll := true
		for _, u := range uses {
			if u.fn != nil && inSession[u.fn] && u.kind != "methodStmt:Add" && u.kind != "methodStmt:Set" {
				okAll = false
			}
		}
		if okAll {
			return "metricWriteOnly"
		}
	}
	return "unknown"
}

// scMentionsPkgVar: the first package-level variable the expression mentions, if any.
func (s *scPkg) scMentionsPkgVar(e ast.Expr) string {
	found := ""
	ast.Inspect(e, func(n ast.Node) bool {
		if se, ok := n.(*ast.SelectorExpr); ok {
			ast.Inspect(se.X, func(m ast.Node) bool {
				if id, ok := m.(*ast.Ident); ok && found == "" {
					if _, isVar := s.vars[id.Name]; isVar && scIsPkgLevel(id, id.Name) {
						found = id.Name
					}
				}
				return true
			})
			return false
		}
		if id, ok := n.(*ast.Ident); ok && found == "" {
			if _, isVar := s.vars[id.Name]; isVar && scIsPkgLevel(id, id.Name) {
				found = id.Name
			}
		}
		return true
	})
	return found
}

// sessionInit: see the file comment.
func (s *scPkg) sessionInit(server, session string) ([][2]string, bool) {
	var lit *ast.CompositeLit
	var ctor *ast.FuncDecl
	n := 0
	for _, fd := range s.allFuncs {
		ast.Inspect(fd.Body, func(x ast.Node) bool {
			if cl, ok := x.(*ast.CompositeLit); ok {
				if id, ok := cl.Type.(*ast.Ident); ok && id.Name == session {
					lit, ctor = cl, fd
					n++
				}
			}
			return true
		})
	}
	if n != 1 {
		return nil, false
	}
	params := map[*ast.Object]string{}
	if ctor.Type.Params != nil {
		for _, f := range ctor.Type.Params.List {
			for _, nm := range f.Names {
				if nm.Obj != nil {
					if axTypeBase(f.Type) == server {
						params[nm.Obj] = "server"
					} else {
						params[nm.Obj] = "param"
					}
				}
			}
		}
	}
	// locals of the constructor defined once by `:=` / var, with their defining expression
	localDef := map[*ast.Object]ast.Expr{}
	ast.Inspect(ctor.Body, func(x ast.Node) bool {
		if as, ok := x.(*ast.AssignStmt); ok && as.Tok == token.DEFINE {
			for i, l := range as.Lhs {
				if id, ok := l.(*ast.Ident); ok && id.Obj != nil && id.Name != "_" {
					if len(as.Lhs) == len(as.Rhs) {
						localDef[id.Obj] = as.Rhs[i]
					} else if len(as.Rhs) == 1 {
						localDef[id.Obj] = as.Rhs[0] // one of the results of a call
					}
				}
			}
		}
		return true
	})
	visiting := map[*ast.Object]bool{}
	var classify func(e ast.Expr, depth int) string
	classify = func(e ast.Expr, depth int) string {
		if depth > 12 {
			return "unknown"
		}
		if v := s.scMentionsPkgVar(e); v != "" {
			return "pkgvar:" + v
		}
		switch v := rtUnparen(e).(type) {
		case *ast.BasicLit:
			return "const"
		case *ast.Ident:
			if v.Obj != nil {
				if k, ok := params[v.Obj]; ok {
					return k
				}
				if v.Obj.Kind == ast.Con {
					return "const"
				}
				if d, ok := localDef[v.Obj]; ok {
					// a local: what it was defined from, and every later assignment to it must be of the same harmless kind
					if visiting[v.Obj] {
						return "fresh" // a cycle among locals of the constructor (a = f(b); b = g(a)): judged by their other sources
					}
					visiting[v.Obj] = true
					defer delete(visiting, v.Obj)
					k := classify(d, depth+1)
					if k == "param" || k == "fresh" || k == "const" || k == "config" {
						bad := false
						ast.Inspect(ctor.Body, func(x ast.Node) bool {
							if as, ok := x.(*ast.AssignStmt); ok && as.Tok != token.DEFINE {
								for i, l := range as.Lhs {
									if id, ok := l.(*ast.Ident); ok && id.Obj == v.Obj {
										if i >= len(as.Rhs) {
											bad = true
										} else if kk := classify(as.Rhs[i], depth+1); kk != "param" && kk != "fresh" && kk != "const" && kk != "config" {
											bad = true
										}
									}
								}
							}
							return true
						})
						if bad {
							return "unknown"
						}
						if k == "param" {
							return "fresh" // derived from a parameter
						}
						return k
					}
					return k
				}
				return "unknown"
			}
			if s.consts[v.Name] {
				return "const"
			}
			if v.Name == "true" || v.Name == "false" || v.Name == "nil" {
				return "const"
			}
			return "unknown"
		case *ast.SelectorExpr:
			// a selector path below the server parameter: configuration
			root := ast.Expr(v)
			for {
				se, ok := rtUnparen(root).(*ast.SelectorExpr)
				if !ok {
					break
				}
				root = se.X
			}
			if id, ok := rtUnparen(root).(*ast.Ident); ok && id.Obj != nil && params[id.Obj] == "server" {
				return "config"
			}
			return "unknown"
		case *ast.CallExpr:
			// make / new / a library constructor or method over harmless arguments
			for _, a := range v.Args {
				switch a.(type) {
				case *ast.ArrayType, *ast.MapType, *ast.ChanType, *ast.StarExpr, *ast.SelectorExpr:
					if id, ok := v.Fun.(*ast.Ident); ok && (id.Name == "make" || id.Name == "new") && id.Obj == nil {
						continue // a type argument
					}
				}
				if k := classify(a, depth+1); k != "param" && k != "fresh" && k != "const" && k != "config" {
					if _, isType := a.(*ast.ArrayType); isType {
						continue
					}
					return "unknown"
				}
			}
			switch f := rtUnparen(v.Fun).(type) {
			case *ast.Ident:
				if f.Obj == nil && (f.Name == "make" || f.Name == "new") {
					return "fresh"
				}
				return "unknown" // a package function: not looked into
			case *ast.SelectorExpr:
				if x, ok := f.X.(*ast.Ident); ok && x.Obj == nil {
					return "fresh" // pkg.NewX(params…): a library constructor
				}
				if k := classify(f.X, depth+1); k == "param" || k == "fresh" {
					return "fresh" // a method of a parameter / fresh value (conn.RemoteAddr().String())
				}
				return "unknown"
			}
			return "unknown"
		}
		return "unknown"
	}
	var res [][2]string
	for _, el := range lit.Elts {
		kv, ok := el.(*ast.KeyValueExpr)
		if !ok {
			return nil, false
		}
		k, ok := kv.Key.(*ast.Ident)
		if !ok {
			return nil, false
		}
		res = append(res, [2]string{k.Name, classify(kv.Value, 0)})
	}
	sort.Slice(res, func(i, j int) bool { return res[i][0] < res[j][0] })
	return res, true
}

func extractSmtpConc() { extractSessionSharing("SmtpConc", "pkg/server/smtp") }

// the same facts for the POP3 server (Gen/Pop3Share.lean, pinned by Tie/Pop3Conc.lean): what one POP3 session can share with another
func extractPop3Share() { extractSessionSharing("Pop3Share", "pkg/server/pop3") }

func init() { extractors = append(extractors, extractPop3Share) }

func extractSessionSharing(genName, dir string) {
	g := gen(genName)
	s := scLoad(dir)
	server, session, code, ok := s.sessionCode()
	inSession := map[*ast.FuncDecl]bool{}
	var fnames []string
	for _, fd := range code {
		inSession[fd] = true
		nm := fd.Name.Name
		if r := scRecvName(fd); r != "" {
			nm = r + "." + nm
		}
		fnames = append(fnames, nm)
	}
	sort.Strings(fnames)
	g.def("sessionFunctions", "List String", strList(fnames), "the functions of "+dir+" counted as session code: what the go statement of the accept loop runs and everything that reaches, every method of the session type, every method of a package type session code builds a value of (empty = the roles were not found)")

	// ---- package-level variables
	var vnames []string
	for n := range s.vars {
		vnames = append(vnames, n)
	}
	sort.Strings(vnames)
	var pv []string
	for _, n := range vnames {
		v := "unknown"
		if ok {
			v = s.varVerdict(n, inSession)
		}
		pv = append(pv, fmt.Sprintf("(%s, %s)", leanStr(n), leanStr(v)))
	}
	g.def("pkgVars", "List (String × String)", "["+strings.Join(pv, ", ")+"]", "every package-level variable of "+dir+" with a verdict: regexp | readOnlyTable | constant | metricWriteOnly | notReachedFromSessions | unknown (see harness/cmd/extract/smtpconc.go)")

	// ---- the session constructor
	val := "none"
	if ok {
		if fields, ok2 := s.sessionInit(server, session); ok2 {
			var p []string
			for _, f := range fields {
				p = append(p, fmt.Sprintf("(%s, %s)", leanStr(f[0]), leanStr(f[1])))
			}
			val = "some [" + strings.Join(p, ", ") + "]"
		}
	}
	g.def("sessionInit", "Option (List (String × String))", val, "the fields the one composite literal of the session type sets, with where each value comes from: server | param | fresh | config | const | pkgvar:<name> | unknown (none = no / several literals)")

	// ---- server fields assigned outside the constructor and mentioned by session code
	val = "none"
	if ok {
		sf := s.structFieldNames(server)
		ssf := s.structFieldNames(session)
		var ctor *ast.FuncDecl
		nlit := 0
		for _, fd := range s.allFuncs {
			ast.Inspect(fd.Body, func(x ast.Node) bool {
				if cl, ok := x.(*ast.CompositeLit); ok {
					if id, ok := cl.Type.(*ast.Ident); ok && id.Name == server {
						ctor = fd
						nlit++
					}
				}
				return true
			})
		}
		if nlit == 1 {
			assigned := map[string]bool{}
			for _, fd := range s.allFuncs {
				if fd == ctor {
					continue
				}
				ast.Inspect(fd.Body, func(x ast.Node) bool {
					mark := func(e ast.Expr) {
						if se, ok := rtUnparen(e).(*ast.SelectorExpr); ok {
							if _, isF := sf[se.Sel.Name]; isF {
								if _, shadow := ssf[se.Sel.Name]; !shadow {
									assigned[se.Sel.Name] = true
								}
							}
						}
					}
					switch v := x.(type) {
					case *ast.AssignStmt:
						for _, l := range v.Lhs {
							mark(l)
						}
					case *ast.IncDecStmt:
						mark(v.X)
					case *ast.UnaryExpr:
						if v.Op == token.AND {
							mark(v.X)
						}
					}
					return true
				})
			}
			read := map[string]bool{}
			for _, fd := range code {
				ast.Inspect(fd.Body, func(x ast.Node) bool {
					if se, ok := x.(*ast.SelectorExpr); ok {
						if _, isF := sf[se.Sel.Name]; isF {
							read[se.Sel.Name] = true
						}
					}
					return true
				})
			}
			var both []string
			for f := range assigned {
				if read[f] {
					both = append(both, f)
				}
			}
			sort.Strings(both)
			val = "some " + strList(both)
		}
	}
	g.def("serverFieldsSharedMutable", "Option (List String)", val, "fields of the server type that are assigned outside the server constructor AND mentioned in session code (none = no / several literals of the server type)")

	// ---- channel operations, contexts, manager calls in session code
	chanOps, ctxSeen := 0, false
	mgrCalls := map[string]bool{}
	mgrField := ""
	if ok {
		for f, t := range s.structFieldNames(server) {
			if axIsQualified(t, "message", "Manager", false) {
				mgrField = f
			}
		}
		for _, fd := range code {
			if fd.Type.Params != nil {
				for _, f := range fd.Type.Params.List {
					if axIsQualified(f.Type, "context", "Context", false) {
						ctxSeen = true
					}
				}
			}
			ast.Inspect(fd.Body, func(x ast.Node) bool {
				switch v := x.(type) {
				case *ast.SelectStmt, *ast.SendStmt, *ast.GoStmt:
					chanOps++
				case *ast.UnaryExpr:
					if v.Op == token.ARROW {
						chanOps++
					}
				case *ast.Ident:
					if v.Name == "ctx" || v.Name == "context" || v.Name == "Context" {
						ctxSeen = true
					}
				case *ast.CallExpr:
					if se, ok := v.Fun.(*ast.SelectorExpr); ok && mgrField != "" {
						if in, ok := rtUnparen(se.X).(*ast.SelectorExpr); ok && in.Sel.Name == mgrField {
							mgrCalls[se.Sel.Name] = true
						}
						if id, ok := rtUnparen(se.X).(*ast.Ident); ok && id.Name == mgrField {
							mgrCalls[se.Sel.Name] = true
						}
					}
				}
				return true
			})
			// the manager handed on as a value (to a helper, into a variable) is not followed: count it as an unknown call
			ast.Inspect(fd.Body, func(x ast.Node) bool {
				if mgrField == "" {
					return false
				}
				se, ok := x.(*ast.SelectorExpr)
				if !ok || se.Sel.Name != mgrField {
					return true
				}
				return true
			})
		}
		if mgrField != "" {
			// every mention of the manager field in session code must be the receiver of a direct method call
			for _, fd := range code {
				var stack []ast.Node
				ast.Inspect(fd.Body, func(n ast.Node) bool {
					if n == nil {
						stack = stack[:len(stack)-1]
						return true
					}
					stack = append(stack, n)
					se, ok := n.(*ast.SelectorExpr)
					if !ok || se.Sel.Name != mgrField || len(stack) < 3 {
						return true
					}
					outer, ok1 := stack[len(stack)-2].(*ast.SelectorExpr)
					call, ok2 := stack[len(stack)-3].(*ast.CallExpr)
					if !(ok1 && ok2 && outer.X == ast.Expr(se) && call.Fun == ast.Expr(outer)) {
						mgrCalls["<escapes>"] = true
					}
					return true
				})
			}
		}
	}
	if ok {
		g.def("sessionChanOps", "Option Nat", fmt.Sprintf("some %d", chanOps), "select statements, channel receives / sends and go statements in session code")
		g.def("sessionReachesCtx", "Option Bool", "some "+shutLeanBool(ctxSeen), "session code has a context.Context parameter or mentions an identifier ctx / context / Context")
	} else {
		g.def("sessionChanOps", "Option Nat", "none", "select statements, channel receives / sends and go statements in session code (none = the roles were not found)")
		g.def("sessionReachesCtx", "Option Bool", "none", "session code has a context.Context parameter or mentions an identifier ctx / context / Context (none = the roles were not found)")
	}
	val = "none"
	if ok && mgrField != "" {
		var l []string
		for m := range mgrCalls {
			l = append(l, m)
		}
		sort.Strings(l)
		val = "some " + strList(l)
	}
	g.def("sessionManagerCalls", "Option (List String)", val, "the methods session code calls on the server's message.Manager field, sorted; `<escapes>` = the field is used otherwise than as the receiver of a call (none = no such field)")
}
