package main

// kit_t1b: helpers shared by assembly.go / shutdown.go / retention.go that make their facts independent of helper
// boundaries and of where an effect is written relative to a branch that only rejoins:
//
//   t1bDeep          visit every node reachable from a function body: function literals included, same-package
//                    UNEXPORTED callees entered at their call sites with their parameters bound (rtEnv) — so a block
//                    that was cut out into a helper is seen exactly where it stood
//   rebase           rewrite an expression of such a helper into the terms of the root function (parameters /
//                    receiver replaced by the call-site expressions); a helper-local variable becomes a marker no
//                    tie accepts
//   t1bRecvFields    the fields of the ROOT function's receiver that an expression reads, followed through
//                    once-assigned locals and helper parameters
//   t1bBreakTarget   the statement an (un)labelled break leaves
//   t1bTri / t1bEvalEq   three-valued evaluation of a condition over one variable compared with constants
//
// Built on the rt toolkit of retention.go (rtPkg / rtEnv / resolve); nothing here looks at the spelling of a local,
// a parameter, a receiver, an unexported field or an unexported function.

import (
	"go/ast"
	"go/token"
)

// t1bWalker remembers which helper each environment belongs to.
type t1bWalker struct {
	p     *rtPkg
	owner map[*rtEnv]*ast.FuncDecl
}

func t1bNewWalker(p *rtPkg) *t1bWalker {
	return &t1bWalker{p: p, owner: map[*rtEnv]*ast.FuncDecl{}}
}

// deep visits the nodes of body in source order (pre-order); at a call of a same-package unexported function /
// method the callee's body is visited right after the call expression (at most 4 levels, no recursion).
// visit gets the environment of the function the node is written in and that function (nil = the root body).
func (w *t1bWalker) deep(body ast.Node, env *rtEnv, visit func(n ast.Node, env *rtEnv, in *ast.FuncDecl)) {
	var stack []*ast.FuncDecl
	var walk func(n ast.Node, env *rtEnv, in *ast.FuncDecl)
	walk = func(n ast.Node, env *rtEnv, in *ast.FuncDecl) {
		ast.Inspect(n, func(x ast.Node) bool {
			if x == nil {
				return true
			}
			visit(x, env, in)
			ce, ok := x.(*ast.CallExpr)
			if !ok {
				return true
			}
			fd, recv := w.p.helper(ce)
			if fd == nil || fd.Body == nil || len(stack) >= 4 {
				return true
			}
			for _, s := range stack {
				if s == fd {
					return true
				}
			}
			sub := rtBind(fd, recv, ce.Args, env)
			w.owner[sub] = fd
			stack = append(stack, fd)
			walk(fd.Body, sub, fd)
			stack = stack[:len(stack)-1]
			return true
		})
	}
	if body == nil || isNilNode(body) {
		return
	}
	walk(body, env, nil)
}

// t1bForeign marks a variable of a helper that has no meaning in the root function.
const t1bForeign = "?helper-local"

// rebase rewrites e (written in the function env belongs to) into the root function's terms.
func (w *t1bWalker) rebase(e ast.Expr, env *rtEnv) ast.Expr {
	switch v := e.(type) {
	case nil:
		return nil
	case *ast.Ident:
		if v.Obj == nil {
			return v
		}
		for l := env; l != nil; l = l.up {
			if b, ok := l.m[v.Obj]; ok {
				if w.p.assigns[v.Obj] > 0 {
					// the helper overwrites (or takes the address of) its parameter: no longer the caller's value
					return &ast.Ident{Name: t1bForeign}
				}
				return w.rebase(b, l.up)
			}
		}
		if env != nil {
			if fd := w.owner[env]; fd != nil && v.Obj.Pos() >= fd.Pos() && v.Obj.Pos() < fd.End() {
				return &ast.Ident{Name: t1bForeign}
			}
		}
		return v
	case *ast.ParenExpr:
		return &ast.ParenExpr{X: w.rebase(v.X, env)}
	case *ast.SelectorExpr:
		return &ast.SelectorExpr{X: w.rebase(v.X, env), Sel: v.Sel}
	case *ast.StarExpr:
		return &ast.StarExpr{X: w.rebase(v.X, env)}
	case *ast.UnaryExpr:
		return &ast.UnaryExpr{Op: v.Op, X: w.rebase(v.X, env)}
	case *ast.BinaryExpr:
		return &ast.BinaryExpr{X: w.rebase(v.X, env), Op: v.Op, Y: w.rebase(v.Y, env)}
	case *ast.IndexExpr:
		return &ast.IndexExpr{X: w.rebase(v.X, env), Index: w.rebase(v.Index, env)}
	case *ast.CallExpr:
		args := make([]ast.Expr, len(v.Args))
		for i, a := range v.Args {
			args[i] = w.rebase(a, env)
		}
		return &ast.CallExpr{Fun: w.rebase(v.Fun, env), Args: args, Ellipsis: v.Ellipsis}
	}
	return e
}

// t1bRecvFields: the names F of every `<recv>.F` the expression reads, <recv> being the object `recv` (the receiver
// of the root function) — directly, through a helper's receiver / parameter, or through a once-assigned local.
func t1bRecvFields(p *rtPkg, e ast.Node, env *rtEnv, recv *ast.Object, depth int) []string {
	var res []string
	if e == nil || recv == nil {
		return res
	}
	ast.Inspect(e, func(x ast.Node) bool {
		switch v := x.(type) {
		case *ast.FuncLit:
			return false
		case *ast.SelectorExpr:
			if xo := rtIdentObj(v.X); xo != nil && p.assigns[xo] > 0 {
				if _, isParam := xo.Decl.(*ast.Field); isParam {
					res = append(res, "!reassigned-parameter")
					return false
				}
			}
			if o := p.obj(v.X, env); o != nil && o == recv {
				res = append(res, v.Sel.Name)
				return false
			}
		case *ast.Ident:
			if v.Obj != nil && depth < 8 {
				r, renv := p.resolve(v, env)
				if r != ast.Expr(v) {
					res = append(res, t1bRecvFields(p, r, renv, recv, depth+1)...)
				}
			}
		}
		return true
	})
	return res
}

// t1bBreakTarget: the for / range / switch / select statement inside root that the break statement br leaves
// (nil when it is not found inside root).
func t1bBreakTarget(root ast.Node, br *ast.BranchStmt) ast.Stmt {
	if br.Label != nil {
		if br.Label.Obj != nil {
			if ls, ok := br.Label.Obj.Decl.(*ast.LabeledStmt); ok {
				return ls.Stmt
			}
		}
		return nil
	}
	var innermost ast.Stmt
	ast.Inspect(root, func(x ast.Node) bool {
		if x == nil {
			return true
		}
		if br.Pos() < x.Pos() || br.Pos() >= x.End() {
			return false
		}
		switch v := x.(type) {
		case *ast.FuncLit:
			innermost = nil
		case *ast.ForStmt:
			innermost = v
		case *ast.RangeStmt:
			innermost = v
		case *ast.SwitchStmt:
			innermost = v
		case *ast.TypeSwitchStmt:
			innermost = v
		case *ast.SelectStmt:
			innermost = v
		}
		return true
	})
	return innermost
}

// three-valued truth
type t1bTri int

const (
	t1bFalse t1bTri = iota
	t1bTrue
	t1bUnknown
)

func (a t1bTri) not() t1bTri {
	switch a {
	case t1bFalse:
		return t1bTrue
	case t1bTrue:
		return t1bFalse
	}
	return t1bUnknown
}

// t1bEvalEq evaluates cond when the variable `v` holds the constant that prints as `val`: comparisons `v == C` /
// `v != C` (either side), !, &&, || and parentheses are understood, anything else is unknown.
func t1bEvalEq(cond ast.Expr, v *ast.Object, val string) t1bTri {
	switch c := rtUnparen(cond).(type) {
	case *ast.UnaryExpr:
		if c.Op == token.NOT {
			return t1bEvalEq(c.X, v, val).not()
		}
	case *ast.BinaryExpr:
		switch c.Op {
		case token.LAND:
			a, b := t1bEvalEq(c.X, v, val), t1bEvalEq(c.Y, v, val)
			switch {
			case a == t1bFalse || b == t1bFalse:
				return t1bFalse
			case a == t1bTrue && b == t1bTrue:
				return t1bTrue
			}
			return t1bUnknown
		case token.LOR:
			a, b := t1bEvalEq(c.X, v, val), t1bEvalEq(c.Y, v, val)
			switch {
			case a == t1bTrue || b == t1bTrue:
				return t1bTrue
			case a == t1bFalse && b == t1bFalse:
				return t1bFalse
			}
			return t1bUnknown
		case token.EQL, token.NEQ:
			var other ast.Expr
			switch {
			case v != nil && rtIdentObj(c.X) == v:
				other = c.Y
			case v != nil && rtIdentObj(c.Y) == v:
				other = c.X
			default:
				return t1bUnknown
			}
			// the other side must be a constant: a qualified name pkg.Name or a literal
			switch o := rtUnparen(other).(type) {
			case *ast.SelectorExpr:
				if id, ok := rtUnparen(o.X).(*ast.Ident); !ok || id.Obj != nil {
					return t1bUnknown
				}
			case *ast.BasicLit:
			default:
				return t1bUnknown
			}
			eq := oneLine(src(other)) == val
			if (c.Op == token.EQL) == eq {
				return t1bTrue
			}
			return t1bFalse
		}
	}
	return t1bUnknown
}

// t1bFunc: the package-level function `name` of the package (no receiver), nil if absent or ambiguous.
func t1bFunc(p *rtPkg, name string) *ast.FuncDecl {
	var hit *ast.FuncDecl
	for _, fd := range p.funcs[name] {
		if fd.Recv == nil {
			if hit != nil {
				return nil
			}
			hit = fd
		}
	}
	return hit
}
