package main

// T1 facts for C02 (lean/Ibx/Gen/Dot.lean): the two trace-line format strings and their arguments, the order of
// Deliver's MultiReader, how the DATA block is read, and the shape of the POP3 line loop (scanner limit, dot-prefix
// test, line terminator).  Anything not recognised is emitted as `none` / `[]`, which no tie theorem accepts.

import (
	"go/ast"
	"go/token"
	"strconv"
)

func init() { extractors = append(extractors, extractDot) }

// sprintfAssign: `<lhs> := fmt.Sprintf(<literal>, args…)` inside n; (format, argument sources).
func sprintfAssign(n ast.Node, lhs string) (*string, []string) {
	var fm *string
	var args []string
	count := 0
	if n == nil || isNilNode(n) {
		return nil, nil
	}
	ast.Inspect(n, func(x ast.Node) bool {
		as, ok := x.(*ast.AssignStmt)
		if !ok || len(as.Lhs) != 1 || len(as.Rhs) != 1 || src(as.Lhs[0]) != lhs {
			return true
		}
		ce, ok := as.Rhs[0].(*ast.CallExpr)
		if !ok || src(ce.Fun) != "fmt.Sprintf" || len(ce.Args) < 1 {
			return true
		}
		lit, ok := ce.Args[0].(*ast.BasicLit)
		if !ok || lit.Kind != token.STRING {
			return true
		}
		s, err := strconv.Unquote(lit.Value)
		if err != nil {
			return true
		}
		count++
		fm = &s
		args = nil
		for _, a := range ce.Args[1:] {
			args = append(args, src(a))
		}
		return true
	})
	if count != 1 {
		return nil, nil
	}
	return fm, args
}

// callArgs: argument sources of the unique call of `fun` inside n (nil if not exactly one).
func callArgs(n ast.Node, fun string) ([]string, bool) {
	var res []string
	count := 0
	if n == nil || isNilNode(n) {
		return nil, false
	}
	ast.Inspect(n, func(x ast.Node) bool {
		ce, ok := x.(*ast.CallExpr)
		if ok && src(ce.Fun) == fun {
			count++
			res = []string{}
			for _, a := range ce.Args {
				res = append(res, src(a))
			}
		}
		return true
	})
	if count != 1 {
		return nil, false
	}
	return res, true
}

func dotOptBytes(s *string) string {
	if s == nil {
		return "none"
	}
	return "some " + byteList(*s)
}

func optStrList(l []string, ok bool) string {
	if !ok {
		return "none"
	}
	return "some " + strList(l)
}

// hasPrefixLits: literals of `strings.HasPrefix(<subject>, <literal>)` calls inside n.
func hasPrefixLits(n ast.Node, subject string) []string {
	res := []string{}
	if n == nil || isNilNode(n) {
		return res
	}
	ast.Inspect(n, func(x ast.Node) bool {
		ce, ok := x.(*ast.CallExpr)
		if ok && src(ce.Fun) == "strings.HasPrefix" && len(ce.Args) == 2 && src(ce.Args[0]) == subject {
			if lit, ok := ce.Args[1].(*ast.BasicLit); ok && lit.Kind == token.STRING {
				if s, err := strconv.Unquote(lit.Value); err == nil {
					res = append(res, s)
				}
			}
		}
		return true
	})
	return res
}

// assignSources: right-hand sides of `<lhs> = …` (plain assignment) inside n.
func assignSources(n ast.Node, lhs string) []string {
	res := []string{}
	if n == nil || isNilNode(n) {
		return res
	}
	ast.Inspect(n, func(x ast.Node) bool {
		as, ok := x.(*ast.AssignStmt)
		if ok && as.Tok == token.ASSIGN && len(as.Lhs) == 1 && len(as.Rhs) == 1 && src(as.Lhs[0]) == lhs {
			res = append(res, src(as.Rhs[0]))
		}
		return true
	})
	return res
}

func extractDot() {
	g := gen("Dot")
	mf := parse("pkg/message/manager.go")
	deliver := fn(mf, "StoreManager", "Deliver")
	rp, rpArgs := sprintfAssign(deliver, "returnPath")
	g.def("returnPathFmt", "Option (List Nat)", dotOptBytes(rp), "format of `returnPath := fmt.Sprintf(…)` in Deliver: "+optStr(rp))
	g.def("returnPathArgs", "List String", strList(rpArgs), "its arguments")
	rv, rvArgs := sprintfAssign(deliver, "recvd")
	g.def("recvdFmt", "Option (List Nat)", dotOptBytes(rv), "format of `recvd := fmt.Sprintf(…)` in Deliver: "+optStr(rv))
	g.def("recvdArgs", "List String", strList(rvArgs), "its arguments")
	mr, ok := callArgs(deliver, "io.MultiReader")
	g.def("multiReaderArgs", "Option (List String)", optStrList(mr, ok), "the readers concatenated into the stored source, in order")
	// the constant recvdTimeFmt
	var tf *string
	if mf != nil {
		for _, d := range mf.Decls {
			gd, ok := d.(*ast.GenDecl)
			if !ok || gd.Tok != token.CONST {
				continue
			}
			for _, sp := range gd.Specs {
				vs := sp.(*ast.ValueSpec)
				for i, nm := range vs.Names {
					if nm.Name == "recvdTimeFmt" && i < len(vs.Values) {
						if lit, ok := vs.Values[i].(*ast.BasicLit); ok {
							if s, err := strconv.Unquote(lit.Value); err == nil {
								tf = &s
							}
						}
					}
				}
			}
		}
	}
	g.def("recvdTimeFmt", "Option String", optStr(tf), "time layout of the Received timestamp (rendered in UTC: fixed width)")

	sf := parse("pkg/server/smtp/handler.go")
	dh := fn(sf, "Session", "dataHandler")
	rh, rhArgs := sprintfAssign(dh, "recvdHeader")
	g.def("recvdHeaderFmt", "Option (List Nat)", dotOptBytes(rh), "format of `recvdHeader := fmt.Sprintf(…)` in dataHandler: "+optStr(rh))
	g.def("recvdHeaderArgs", "List String", strList(rhArgs), "its arguments")
	da, ok := callArgs(dh, "s.manager.Deliver")
	g.def("deliverArgs", "Option (List String)", optStrList(da, ok), "what dataHandler passes to Deliver")
	md := assignSources(dh, "mailData")
	md2 := []string{}
	if dh != nil {
		ast.Inspect(dh, func(x ast.Node) bool {
			as, ok := x.(*ast.AssignStmt)
			if ok && as.Tok == token.DEFINE && len(as.Lhs) == 1 && src(as.Lhs[0]) == "mailData" {
				md2 = append(md2, src(as.Rhs[0]))
			}
			return true
		})
	}
	g.def("mailDataDefs", "List String", strList(append(md, md2...)), "every definition of mailData in dataHandler")
	rdb := fn(sf, "Session", "readDataBlock")
	_, reads := callArgs(rdb, "s.text.ReadDotBytes")
	g.def("readsDotBytes", "Bool", map[bool]string{true: "true", false: "false"}[reads], "readDataBlock calls s.text.ReadDotBytes() exactly once")

	pf := parse("pkg/server/pop3/handler.go")
	for _, name := range []string{"sendMessage", "sendMessageTop"} {
		f := fn(pf, "Session", name)
		ba, ok := callArgs(f, "scanner.Buffer")
		g.def(name+"Buffer", "Option (List String)", optStrList(ba, ok), "arguments of scanner.Buffer in "+name+" (none = default 64 KiB token limit, or not recognised)")
		g.def(name+"DotTest", "List (List Nat)", func() string {
			p := []string{}
			for _, s := range hasPrefixLits(f, "line") {
				p = append(p, byteList(s))
			}
			return "[" + joinComma(p) + "]"
		}(), "literals of strings.HasPrefix(line, …) in "+name)
		g.def(name+"LineRewrites", "List String", strList(assignSources(f, "line")), "every `line = …` in "+name)
		sc, ok := callArgs(f, "bufio.NewScanner")
		g.def(name+"Scanner", "Option (List String)", optStrList(sc, ok), "argument of bufio.NewScanner in "+name+" (no Split call = ScanLines)")
		_, hasSplit := callArgs(f, "scanner.Split")
		g.def(name+"HasSplit", "Bool", map[bool]string{true: "true", false: "false"}[hasSplit], "a scanner.Split call would replace ScanLines")
	}
	snd := fn(pf, "Session", "send")
	sa, ok := callArgs(snd, "fmt.Fprint")
	g.def("pop3SendArgs", "Option (List String)", optStrList(sa, ok), "what POP3 send writes for a line")
}

func joinComma(p []string) string {
	o := ""
	for i, s := range p {
		if i > 0 {
			o += ", "
		}
		o += s
	}
	return o
}
