package main

// T1 facts for C02 (lean/Ibx/Gen/Dot.lean): the two trace-line format strings and their arguments, the order of
// Deliver's MultiReader, how the DATA block reaches Deliver, and the shape of the POP3 line loop (scanner source and
// limit, dot-prefix test, what is written per line).  Anything not recognised is emitted as `none` / `[]`, which no
// tie theorem accepts.
//
// Nothing here depends on the name of a local, a parameter, a receiver or an unexported helper (k1kit.go): a value is
// identified by where it comes from.  `strings.NewReader(returnPath)` is reported as "strings.NewReader(format#0)"
// when `returnPath` is a string built from literal pieces and values (fmt.Sprintf with plain verbs, `+`, strconv.Itoa:
// one format + arguments form, kit_t1a.go), whose format and canonical arguments are fact 0; the body handed to Deliver
// is `$r.text.ReadDotBytes()#0` whatever the locals and the reading helper are called, directly or through a
// bytes.Buffer that is only read (the identity); the functions that stream a message to a POP3 client are the helpers that the RETR and TOP
// rows of the TRANSACTION handler's table call (read off executed paths) and that build a bufio.Scanner.  A value computed before a loop and used in
// it is `$outer(…)`: hoisting a reader out of the per-mailbox loop is NOT the same program.

import (
	"go/ast"
	"go/token"
	"strconv"
	"strings"
)

func init() { extractors = append(extractors, extractDot) }

// callArgs: argument sources of the unique call of `fun` inside n (nil if not exactly one).
func callArgs(n ast.Node, fun string) ([]string, bool) {
	var res []string
	count := 0
	if n == nil || isNilNode(n) {
		return nil, false
	}
	ast.Inspect(n, func(x ast.Node) bool {
		ce, ok := x.(*ast.CallExpr)
		if ok && src(ce.Fun) == fun {
			count++
			res = []string{}
			for _, a := range ce.Args {
				res = append(res, src(a))
			}
		}
		return true
	})
	if count != 1 {
		return nil, false
	}
	return res, true
}

func dotOptBytes(s *string) string {
	if s == nil {
		return "none"
	}
	return "some " + byteList(*s)
}

func optStrList(l []string, ok bool) string {
	if !ok {
		return "none"
	}
	return "some " + strList(l)
}

// dotSprintf: x (through locals that are defined once) is a string built from literal pieces and values — by
// fmt.Sprintf, by `+`, with strconv.Itoa — : its format + arguments form (kit_t1a.go: k2FormatStr; the plain verbs
// %s %v %d are one verb, written %s), and whether the value is computed outside a loop that uses it.
func dotSprintf(e *k1Env, x ast.Expr) (fm *string, args []string, outer bool, ok bool) {
	c := e.canon(x)
	if strings.HasPrefix(c, "$outer(") && strings.HasSuffix(c, ")") {
		outer = true
		c = c[len("$outer(") : len(c)-1]
	}
	f, as, isFmt := k2FormatStr(c)
	if !isFmt {
		return nil, nil, outer, false
	}
	return &f, as, outer, true
}

// dotBufferIdentity: x is `B.Bytes()` where B is bytes.NewBuffer(y) — directly, or a local defined once by it that the
// function otherwise only READS (Bytes, Len, String, Cap): the bytes handed on are y itself.
func dotBufferIdentity(e *k1Env, body ast.Node, x ast.Expr) (ast.Expr, bool) {
	ce, ok := k1Unparen(x).(*ast.CallExpr)
	if !ok || len(ce.Args) != 0 {
		return nil, false
	}
	sel, ok := ce.Fun.(*ast.SelectorExpr)
	if !ok || sel.Sel.Name != "Bytes" {
		return nil, false
	}
	nb, ok := e.deref(sel.X).(*ast.CallExpr)
	if !ok || !k1QualCall(nb, "bytes", "NewBuffer") || len(nb.Args) != 1 {
		return nil, false
	}
	if id, isId := k1Unparen(sel.X).(*ast.Ident); isId && id.Obj != nil {
		// every use of the local is a read-only method call
		readOnly := map[string]bool{"Bytes": true, "Len": true, "String": true, "Cap": true}
		okUses := true
		uses := map[*ast.Ident]bool{}
		ast.Inspect(body, func(n ast.Node) bool {
			if c, isCall := n.(*ast.CallExpr); isCall {
				if s, isSel := c.Fun.(*ast.SelectorExpr); isSel && readOnly[s.Sel.Name] {
					if i, isI := k1Unparen(s.X).(*ast.Ident); isI && i.Obj == id.Obj {
						uses[i] = true
					}
				}
			}
			return true
		})
		ast.Inspect(body, func(n ast.Node) bool {
			if i, isI := n.(*ast.Ident); isI && i.Obj == id.Obj && !uses[i] && i.Pos() != id.Obj.Pos() {
				okUses = false
			}
			return true
		})
		if !okUses {
			return nil, false
		}
	}
	return nb.Args[0], true
}

// dotUnique: the unique call inside n satisfying pred (nil when there is not exactly one)
func dotUnique(n ast.Node, pred func(*ast.CallExpr) bool) *ast.CallExpr {
	var res *ast.CallExpr
	cnt := 0
	for _, ce := range k1Calls(n) {
		if pred(ce) {
			cnt++
			res = ce
		}
	}
	if cnt != 1 {
		return nil
	}
	return res
}

func dotCanonArgs(e *k1Env, ce *ast.CallExpr) ([]string, bool) {
	if ce == nil {
		return nil, false
	}
	res := []string{}
	for _, a := range ce.Args {
		res = append(res, e.canon(a))
	}
	return res, true
}

func extractDot() {
	defer k1Recover("extractDot")
	g := gen("Dot")
	mf := parse("pkg/message/manager.go")
	deliver := fn(mf, "StoreManager", "Deliver")
	mp := &k1Pkg{named: map[string][]*ast.FuncDecl{}}
	var fmts [2]*string
	var fargs [2][]string
	var shape []string
	shapeOK := false
	if deliver != nil && deliver.Body != nil {
		e := k1NewEnv(mp, deliver)
		if mr := dotUnique(deliver.Body, func(ce *ast.CallExpr) bool { return k1QualCall(ce, "io", "MultiReader") }); mr != nil {
			shapeOK = true
			nf := 0
			for _, a := range mr.Args {
				in, isCall := k1Unparen(a).(*ast.CallExpr)
				if isCall && k1QualCall(in, "strings", "NewReader") && len(in.Args) == 1 && nf < 2 {
					if fm, as, outer, ok := dotSprintf(e, in.Args[0]); ok {
						fmts[nf], fargs[nf] = fm, as
						s := "format#" + strconv.Itoa(nf)
						if outer {
							s = "$outer(" + s + ")"
						}
						shape = append(shape, "strings.NewReader("+s+")")
						nf++
						continue
					}
				}
				shape = append(shape, e.canon(a))
			}
		}
	}
	g.def("returnPathFmt", "Option (List Nat)", dotOptBytes(fmts[0]), "format (+ arguments form of the Sprintf / concatenation) of the first built string that Deliver's MultiReader reads (format#0): "+optStr(fmts[0]))
	g.def("returnPathArgs", "List String", strList(fargs[0]), "its arguments ($p<i> = i-th parameter of Deliver)")
	g.def("recvdFmt", "Option (List Nat)", dotOptBytes(fmts[1]), "format of the second one (format#1): "+optStr(fmts[1]))
	g.def("recvdArgs", "List String", strList(fargs[1]), "its arguments")
	g.def("multiReaderArgs", "Option (List String)", optStrList(shape, shapeOK), "the readers concatenated into the stored source, in order")
	// the constant recvdTimeFmt
	var tf *string
	if mf != nil {
		for _, d := range mf.Decls {
			gd, ok := d.(*ast.GenDecl)
			if !ok || gd.Tok != token.CONST {
				continue
			}
			for _, sp := range gd.Specs {
				vs := sp.(*ast.ValueSpec)
				for i, nm := range vs.Names {
					if nm.Name == "recvdTimeFmt" && i < len(vs.Values) {
						if lit, ok := vs.Values[i].(*ast.BasicLit); ok {
							if s, err := strconv.Unquote(lit.Value); err == nil {
								tf = &s
							}
						}
					}
				}
			}
		}
	}
	g.def("recvdTimeFmt", "Option String", optStr(tf), "time layout of the Received timestamp (package-level constant recvdTimeFmt; rendered in UTC: fixed width)")

	// ---- SMTP: what the DATA handler hands to Deliver
	sp := k1LoadPkg("pkg/server/smtp")
	roles := smtpFindRoles(sp)
	var rh *string
	var rhArgs []string
	var da []string
	daOK := false
	if roles.data != nil {
		e := k1NewEnv(sp, roles.data)
		if dc := dotUnique(roles.data.Body, func(ce *ast.CallExpr) bool { return k1SelCall(ce, "Deliver") }); dc != nil {
			daOK = true
			for _, a := range dc.Args {
				if fm, as, _, ok := dotSprintf(e, a); ok && rh == nil {
					rh, rhArgs = fm, as
					da = append(da, "format#hdr")
					continue
				}
				if y, ok := dotBufferIdentity(e, roles.data.Body, a); ok {
					da = append(da, e.canon(y)) // a bytes.Buffer that is only read is the identity
					continue
				}
				da = append(da, e.canon(a))
			}
		}
	}
	g.def("recvdHeaderFmt", "Option (List Nat)", dotOptBytes(rh), "format of the built string the DATA handler passes to Deliver (format#hdr): "+optStr(rh))
	g.def("recvdHeaderArgs", "List String", strList(rhArgs), "its arguments ($r = the session)")
	g.def("deliverArgs", "Option (List String)", optStrList(da, daOK), "what the DATA handler passes to Deliver, each argument traced to where it comes from (locals and the block-reading helper looked through)")

	// ---- POP3: the line loops behind RETR and TOP
	pp := k1LoadPkg("pkg/server/pop3")
	d := k1FindDispatch(pp)
	var psend *ast.FuncDecl
	for _, fd := range pp.funcs {
		if fd.Recv != nil && !k1Exported(fd.Name.Name) && dotUnique(fd.Body, func(ce *ast.CallExpr) bool { return k1QualCall(ce, "fmt", "Fprint") }) != nil && psend == nil {
			psend = fd
		}
	}
	bodyOf, _ := pop3BodyFuncs(pp, d)
	for _, pair := range [][2]string{{"sendMessage", "RETR"}, {"sendMessageTop", "TOP"}} {
		name, verb := pair[0], pair[1]
		// the helper behind the row of the verb that builds a scanner (ends.go: pop3BodyFuncs)
		f := bodyOf[verb]
		var ba, sc, sent []string
		baOK, scOK, hasSplit := false, false, false
		dots := []string{}
		rewrites := []string{}
		if f != nil {
			e := k1NewEnv(pp, f)
			if ns := dotScannerCalls(f); len(ns) == 1 {
				sc, scOK = dotCanonArgs(e, ns[0])
				scanner := e.canon(ns[0])
				isScanner := func(ce *ast.CallExpr, m string) bool {
					sel, ok := ce.Fun.(*ast.SelectorExpr)
					return ok && sel.Sel.Name == m && e.canon(sel.X) == scanner
				}
				ba, baOK = dotCanonArgs(e, dotUnique(f.Body, func(ce *ast.CallExpr) bool { return isScanner(ce, "Buffer") }))
				for _, ce := range k1Calls(f.Body) {
					if isScanner(ce, "Split") {
						hasSplit = true
					}
				}
				// the line variable: first argument of strings.HasPrefix(<line>, <literal>)
				var line *ast.Object
				for _, ce := range k1Calls(f.Body) {
					if k1QualCall(ce, "strings", "HasPrefix") && len(ce.Args) == 2 {
						if lit, ok := k1Str(ce.Args[1]); ok {
							dots = append(dots, lit)
							if id, ok := k1Unparen(ce.Args[0]).(*ast.Ident); ok && id.Obj != nil {
								line = id.Obj
							}
						}
					}
				}
				if line != nil {
					// where the line comes from, then every later assignment to it
					if ds := e.defs[line]; len(ds) > 0 && ds[0].rhs != nil {
						rewrites = append(rewrites, "$line := "+e.canon(ds[0].rhs))
						e.override[line] = "$line"
						for _, dd := range ds[1:] {
							if dd.rhs != nil {
								rewrites = append(rewrites, "$line = "+e.canon(dd.rhs))
							}
						}
					}
					e.override[line] = "$line"
				}
				// what the scan loop writes
				ast.Inspect(f.Body, func(n ast.Node) bool {
					fs, ok := n.(*ast.ForStmt)
					if !ok || fs.Cond == nil {
						return true
					}
					if cc, ok := k1Unparen(fs.Cond).(*ast.CallExpr); !ok || !isScanner(cc, "Scan") {
						return true
					}
					for _, ce := range k1Calls(fs.Body) {
						if h := pp.resolve(ce); h != nil && h == psend && len(ce.Args) == 1 {
							sent = append(sent, e.canon(ce.Args[0]))
						}
					}
					return true
				})
			}
		}
		g.def(name+"Buffer", "Option (List String)", optStrList(ba, baOK), "arguments of <scanner>.Buffer in the helper behind "+verb+" (none = default 64 KiB token limit, or not recognised); $p = a parameter of the helper")
		g.def(name+"DotTest", "List (List Nat)", func() string {
			p := []string{}
			for _, s := range dots {
				p = append(p, byteList(s))
			}
			return "[" + joinComma(p) + "]"
		}(), "literals of strings.HasPrefix(<line>, …) in the helper behind "+verb)
		g.def(name+"LineRewrites", "List String", strList(rewrites), "where <line> comes from and every later assignment to it")
		g.def(name+"LoopSends", "List String", strList(sent), "what the scan loop hands to the reply helper")
		g.def(name+"Scanner", "Option (List String)", optStrList(sc, scOK), "argument of bufio.NewScanner in the helper behind "+verb+" (no Split call = ScanLines)")
		g.def(name+"HasSplit", "Bool", map[bool]string{true: "true", false: "false"}[hasSplit], "a <scanner>.Split call would replace ScanLines")
	}
	var sa []string
	saOK := false
	if psend != nil {
		e := k1NewEnv(pp, psend)
		sa, saOK = dotCanonArgs(e, dotUnique(psend.Body, func(ce *ast.CallExpr) bool { return k1QualCall(ce, "fmt", "Fprint") }))
	}
	g.def("pop3SendArgs", "Option (List String)", optStrList(sa, saOK), "what the POP3 reply helper (the unexported method that calls fmt.Fprint) writes for a line")
}

func dotScannerCalls(fd *ast.FuncDecl) []*ast.CallExpr {
	var res []*ast.CallExpr
	for _, ce := range k1Calls(fd.Body) {
		if k1QualCall(ce, "bufio", "NewScanner") {
			res = append(res, ce)
		}
	}
	return res
}

func joinComma(p []string) string {
	o := ""
	for i, s := range p {
		if i > 0 {
			o += ", "
		}
		o += s
	}
	return o
}
