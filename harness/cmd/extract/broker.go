package main

// T1 facts about pkg/extension's brokers (Ibx/Gen/Broker.lean).  All of them are recognised from the STRUCTURE of
// the code: exported names (Emit, AddListener, RemoveListener, NewHost, Events, AsyncEventBroker, EventBroker, the
// sync package's Lock/Unlock/RLock/RUnlock/Signal/Broadcast/Wait), builtins, operators, literals, `go` statements
// and the identity of variables (ast.Ident.Obj) — never the names of unexported methods, fields or locals, the
// order of if-branches, or break-vs-return.
//
//   asyncEmit            how AsyncEventBroker.Emit hands an event to a listener:
//     "goroutinePerEvent"  Emit (or something of the file it calls) contains a `go` statement
//     "perListenerQueue"   all of:
//        (E) Emit and the same-file functions it calls have, outside function literals, only lock calls and exactly
//            one call P(func literal) of a same-file method P ("push");
//        (P) push has no `go`/send, stores its parameter by `<recv>.F = append(<recv>.F, <param>)` and otherwise
//            only calls Lock/Unlock/Signal/Broadcast;
//        (R) the worker method W ("run") — the callee of the file's ONLY `go` statement — has no `go`, takes the head
//            `c := <recv>.F[0]` of the same slice field F, drops it by `<recv>.F = <recv>.F[1:]`, and makes exactly
//            one dynamic call outside function literals, namely c();
//        (W) that `go <q>.W()` stands in the same block as, and after, the creation `<q> = &T{…}` / `<q> := &T{…}` of
//            the queue it runs (T = receiver type of W; the file has no other composite literal of T), and the
//            creation is reached only when the lookup `<q> := <map>[<key>]` came back nil (either inside
//            `if q == nil {…}` or after `if q != nil { …; return }`).
//     "unknown"            anything else
//   asyncCopiesEvent     Emit itself (not a queued closure) dereferences its event-pointer parameter (`*event`)
//   asyncBrokerFields    the fields of struct Events whose type is AsyncEventBroker[…]
//   hostSharesQueues     NewHost assigns ONE variable to the queue-set field (the pointer-typed field of
//                        AsyncEventBroker) of every one of them
//   msghubOneListenerName  msghub registers with every one of them under ONE name (string literal, whatever it is)
//   syncEmitFirstResult  EventBroker.Emit: one range loop over a receiver field; the loop calls the range value with
//                        `*<param>`, returns that result iff it is != nil; the function ends with `return nil`
//   registryRemoveFirstThenAppend   AddListener of both brokers calls, before any append to a receiver field, the
//                        same-file method that RemoveListener also calls, passing its name parameter; that method
//                        ranges over a receiver slice field, compares with `==` against its parameter, splices the hit
//                        out with append(x[:i…], x[i+1:]...) and leaves the loop (break / return) right after

import (
	"go/ast"
	"go/token"
	"sort"
	"strings"
)

func init() { extractors = append(extractors, extractBroker) }

func bkGoStmts(n ast.Node) []*ast.GoStmt {
	var res []*ast.GoStmt
	if n == nil || isNilNode(n) {
		return res
	}
	ast.Inspect(n, func(x ast.Node) bool {
		if g, ok := x.(*ast.GoStmt); ok {
			res = append(res, g)
		}
		return true
	})
	return res
}

// bkCallsOutsideLits: the call expressions under n that are not inside a function literal.
func bkCallsOutsideLits(n ast.Node) []*ast.CallExpr {
	var res []*ast.CallExpr
	if n == nil || isNilNode(n) {
		return res
	}
	ast.Inspect(n, func(x ast.Node) bool {
		if _, ok := x.(*ast.FuncLit); ok {
			return false
		}
		if ce, ok := x.(*ast.CallExpr); ok {
			res = append(res, ce)
		}
		return true
	})
	return res
}

// bkAnyMethod: the same-file method (of any receiver type) or function a call goes to.
func bkAnyCallee(f *ast.File, ce *ast.CallExpr) *ast.FuncDecl {
	if fd := axCallee(f, "", ce); fd != nil {
		return fd
	}
	_, name, ok := axSel(ce.Fun)
	if !ok || ast.IsExported(name) {
		return nil
	}
	var hit *ast.FuncDecl
	n := 0
	for _, d := range f.Decls {
		if fd, ok := d.(*ast.FuncDecl); ok && fd.Recv != nil && fd.Name.Name == name {
			hit = fd
			n++
		}
	}
	if n == 1 {
		return hit
	}
	return nil
}

var bkLockNames = map[string]bool{"Lock": true, "Unlock": true, "RLock": true, "RUnlock": true}
var bkCondNames = map[string]bool{"Signal": true, "Broadcast": true}

func bkIsSelCall(ce *ast.CallExpr, names map[string]bool) bool {
	_, name, ok := axSel(ce.Fun)
	return ok && names[name]
}

// bkAppendTo: s is `<recv>.F = append(<recv>.F, v)`; returns F and v.
func bkAppendTo(s ast.Stmt, recv *ast.Object) (string, ast.Expr, bool) {
	as, ok := s.(*ast.AssignStmt)
	if !ok || as.Tok != token.ASSIGN || len(as.Lhs) != 1 || len(as.Rhs) != 1 {
		return "", nil, false
	}
	lb, lf, ok := axSel(as.Lhs[0])
	if !ok || !axIs(lb, recv) {
		return "", nil, false
	}
	ce, ok := axBuiltin(axUnparen(as.Rhs[0]), "append")
	if !ok || len(ce.Args) != 2 || ce.Ellipsis.IsValid() {
		return "", nil, false
	}
	ab, af, ok := axSel(ce.Args[0])
	if !ok || !axIs(ab, recv) || af != lf {
		return "", nil, false
	}
	return lf, ce.Args[1], true
}

// bkPush: (P) of the header; returns the slice field F.
func bkPush(push *ast.FuncDecl) (string, bool) {
	if push == nil || push.Body == nil || len(bkGoStmts(push)) > 0 {
		return "", false
	}
	recv, param := axRecvObj(push), axParamObj(push, 0)
	if recv == nil || param == nil || axParamObj(push, 1) != nil {
		return "", false
	}
	if axCount(push.Body, func(x ast.Node) bool { _, ok := x.(*ast.SendStmt); return ok }) > 0 {
		return "", false
	}
	field, n := "", 0
	ast.Inspect(push.Body, func(x ast.Node) bool {
		if s, ok := x.(ast.Stmt); ok {
			if f, v, ok := bkAppendTo(s, recv); ok && axIs(v, param) {
				field = f
				n++
			}
		}
		return true
	})
	if n != 1 {
		return "", false
	}
	for _, ce := range bkCallsOutsideLits(push.Body) {
		if _, ok := axBuiltin(ce, "append"); ok {
			continue
		}
		if bkIsSelCall(ce, bkLockNames) || bkIsSelCall(ce, bkCondNames) {
			continue
		}
		return "", false
	}
	return field, true
}

// bkRun: (R) of the header for the slice field F.
func bkRun(run *ast.FuncDecl, field string) bool {
	if run == nil || run.Body == nil || len(bkGoStmts(run)) > 0 {
		return false
	}
	recv := axRecvObj(run)
	if recv == nil {
		return false
	}
	isField := func(e ast.Expr) bool {
		b, f, ok := axSel(e)
		return ok && f == field && axIs(b, recv)
	}
	// c := <recv>.F[0]
	var head *ast.Object
	heads := 0
	// <recv>.F = <recv>.F[1:]
	drops := 0
	// any other assignment to <recv>.F (e.g. F = F[:0], F = nil) changes what is dropped
	otherWrites := 0
	ast.Inspect(run.Body, func(x ast.Node) bool {
		as, ok := x.(*ast.AssignStmt)
		if !ok {
			return true
		}
		for i, l := range as.Lhs {
			if len(as.Rhs) != len(as.Lhs) {
				if isField(l) {
					otherWrites++
				}
				continue
			}
			r := axUnparen(as.Rhs[i])
			if ix, ok := r.(*ast.IndexExpr); ok && isField(ix.X) {
				if v := axIntValue(ix.Index); v != nil && *v == 0 && as.Tok == token.DEFINE {
					if id, ok := l.(*ast.Ident); ok && id.Obj != nil {
						head = id.Obj
						heads++
					}
				}
			}
			if isField(l) {
				se, ok := r.(*ast.SliceExpr)
				low := (*int)(nil)
				if ok && se.Low != nil {
					low = axIntValue(se.Low)
				}
				if ok && isField(se.X) && low != nil && *low == 1 && se.High == nil && se.Max == nil {
					drops++
				} else {
					otherWrites++
				}
			}
		}
		return true
	})
	if heads != 1 || drops != 1 || otherWrites != 0 {
		return false
	}
	// exactly one dynamic call (callee = a local variable) outside function literals: the head
	dyn, headCalls := 0, 0
	for _, ce := range bkCallsOutsideLits(run.Body) {
		if id, ok := axUnparen(ce.Fun).(*ast.Ident); ok && id.Obj != nil && id.Obj.Kind == ast.Var {
			dyn++
			if id.Obj == head && len(ce.Args) == 0 {
				headCalls++
			}
		}
	}
	if dyn != 1 || headCalls != 1 {
		return false
	}
	// … and it is not inside a loop nested in the outer `for` (one call per pop)
	ok := true
	ast.Inspect(run.Body, func(x ast.Node) bool {
		if rs, isRange := x.(*ast.RangeStmt); isRange {
			for _, ce := range bkCallsOutsideLits(rs.Body) {
				if axIs(ce.Fun, head) {
					ok = false
				}
			}
		}
		return true
	})
	return ok
}

// bkBlocks: every statement list under n (blocks, case / comm clauses).
func bkBlocks(n ast.Node, visit func(l []ast.Stmt, path []ast.Node)) {
	var path []ast.Node
	ast.Inspect(n, func(x ast.Node) bool {
		if x == nil {
			path = path[:len(path)-1]
			return true
		}
		path = append(path, x)
		switch b := x.(type) {
		case *ast.BlockStmt:
			visit(b.List, path)
		case *ast.CaseClause:
			visit(b.Body, path)
		case *ast.CommClause:
			visit(b.Body, path)
		}
		return true
	})
}

// bkFromMapLookup: o is defined by `o := <m>[<k>]` / `o, ok := <m>[<k>]`.
func bkFromMapLookup(o *ast.Object) bool {
	if o == nil {
		return false
	}
	as, ok := o.Decl.(*ast.AssignStmt)
	if !ok || as.Tok != token.DEFINE || len(as.Rhs) != 1 {
		return false
	}
	_, ok = axUnparen(as.Rhs[0]).(*ast.IndexExpr)
	return ok
}

// bkWorker: (W) of the header.  Returns the worker method.
func bkWorker(f *ast.File) (*ast.FuncDecl, bool) {
	gos := bkGoStmts(f)
	if f == nil || len(gos) != 1 {
		return nil, false
	}
	g := gos[0]
	run := bkAnyCallee(f, g.Call)
	qBase, _, isSel := axSel(g.Call.Fun)
	if run == nil || run.Recv == nil || !isSel || len(g.Call.Args) != 0 {
		return nil, false
	}
	q := axObj(qBase)
	typ := axRecvType(run)
	if q == nil || typ == "" {
		return nil, false
	}
	isNewQueue := func(e ast.Expr) bool {
		u, ok := axUnparen(e).(*ast.UnaryExpr)
		if !ok || u.Op != token.AND {
			return false
		}
		cl, ok := u.X.(*ast.CompositeLit)
		return ok && axTypeBase(cl.Type) == typ
	}
	// the only composite literal of the queue type in the file
	if axCount(f, func(x ast.Node) bool { cl, ok := x.(*ast.CompositeLit); return ok && cl.Type != nil && axTypeBase(cl.Type) == typ }) != 1 {
		return nil, false
	}
	okW := false
	bkBlocks(f, func(l []ast.Stmt, path []ast.Node) {
		iGo, iNew := -1, -1
		var newObj *ast.Object
		for i, s := range l {
			if s == ast.Stmt(g) {
				iGo = i
			}
			if as, ok := s.(*ast.AssignStmt); ok && len(as.Lhs) == 1 && len(as.Rhs) == 1 && isNewQueue(as.Rhs[0]) {
				iNew, newObj = i, axObj(as.Lhs[0])
			}
		}
		if iGo < 0 || iNew < 0 || iNew > iGo || newObj != q {
			return
		}
		// nothing between creation and `go` leaves the block
		for _, s := range l[iNew:iGo] {
			if axCount(s, func(x ast.Node) bool {
				switch x.(type) {
				case *ast.ReturnStmt, *ast.BranchStmt:
					return true
				}
				return false
			}) > 0 {
				return
			}
		}
		// guard shape 1: the block is the body of `if <q> == nil` with q looked up in a map
		if len(path) >= 2 {
			if is, ok := path[len(path)-2].(*ast.IfStmt); ok && is.Body == path[len(path)-1] {
				if x, eq, ok := axNilTest(is.Cond); ok && eq && axIs(x, q) && bkFromMapLookup(q) {
					okW = true
					return
				}
			}
		}
		// guard shape 2: earlier in the block, `if [x := m[k];] x != nil { …; return }`
		for _, s := range l[:iNew+1] {
			is, ok := s.(*ast.IfStmt)
			if !ok || is.Else != nil || !axTerminates(is.Body.List) {
				continue
			}
			if x, eq, ok := axNilTest(is.Cond); ok && !eq && bkFromMapLookup(axObj(x)) {
				okW = true
				return
			}
		}
	})
	return run, okW
}

// bkEmitShape: (E) of the header; returns the push method.
func bkEmitShape(f *ast.File, emit *ast.FuncDecl) (push *ast.FuncDecl, why string) {
	scope := axReach(f, axRecvType(emit), emit)
	nPush := 0
	for _, fd := range scope {
		for _, ce := range bkCallsOutsideLits(fd.Body) {
			switch {
			case bkIsSelCall(ce, bkLockNames):
			case axCallee(f, axRecvType(emit), ce) != nil: // a helper that is part of the scope
			case len(ce.Args) == 1 && func() bool { _, ok := ce.Args[0].(*ast.FuncLit); return ok }() && bkAnyCallee(f, ce) != nil:
				push = bkAnyCallee(f, ce)
				nPush++
			default:
				if _, ok := axBuiltin(ce, "len"); ok {
					continue
				}
				return nil, "Emit calls " + src(ce.Fun) + " outside a queued function literal"
			}
		}
	}
	if nPush != 1 {
		return nil, "Emit does not hand exactly one function literal to a same-file method"
	}
	return push, ""
}

func bkAsyncEmit(f *ast.File, emit *ast.FuncDecl) (string, string) {
	if f == nil || emit == nil || emit.Body == nil {
		return "unknown", "AsyncEventBroker.Emit not found"
	}
	for _, fd := range axReach(f, axRecvType(emit), emit) {
		if len(bkGoStmts(fd)) > 0 {
			return "goroutinePerEvent", "Emit contains a go statement"
		}
	}
	push, why := bkEmitShape(f, emit)
	if push == nil {
		return "unknown", why
	}
	field, ok := bkPush(push)
	if !ok {
		return "unknown", "the method Emit hands its closure to does not just append it to a slice field"
	}
	run, ok := bkWorker(f)
	if !ok {
		return "unknown", "the file's go statement is not `one worker per newly created queue`"
	}
	if axRecvType(run) != axRecvType(push) {
		return "unknown", "worker and push belong to different types"
	}
	if !bkRun(run, field) {
		return "unknown", "the worker does not pop exactly the head of the queue and call it"
	}
	return "perListenerQueue", "Emit only pushes; one worker per queue pops the head and calls"
}

// bkSyncEmit: syncEmitFirstResult of the header.
func bkSyncEmit(se *ast.FuncDecl) bool {
	if se == nil || se.Body == nil || len(bkGoStmts(se)) > 0 {
		return false
	}
	recv, param := axRecvObj(se), axParamObj(se, 0)
	if recv == nil || param == nil {
		return false
	}
	stmts := se.Body.List
	if len(stmts) == 0 {
		return false
	}
	// the function ends with `return nil`
	last, ok := stmts[len(stmts)-1].(*ast.ReturnStmt)
	if !ok || len(last.Results) != 1 || !axIsNil(last.Results[0]) {
		return false
	}
	// exactly one loop, a top-level range over a receiver field
	var loop *ast.RangeStmt
	nLoops := axCount(se.Body, func(x ast.Node) bool {
		switch x.(type) {
		case *ast.RangeStmt, *ast.ForStmt:
			return true
		}
		return false
	})
	for _, s := range stmts {
		if rs, ok := s.(*ast.RangeStmt); ok {
			loop = rs
		}
	}
	if nLoops != 1 || loop == nil {
		return false
	}
	if b, _, ok := axSel(loop.X); !ok || !axIs(b, recv) {
		return false
	}
	lv := axObj(loop.Value)
	if lv == nil {
		return false
	}
	// the listener call l(*param); its result variable
	var res *ast.Object
	nCalls := 0
	ast.Inspect(loop.Body, func(x ast.Node) bool {
		as, ok := x.(*ast.AssignStmt)
		if !ok || len(as.Lhs) != 1 || len(as.Rhs) != 1 {
			return true
		}
		ce, ok := axUnparen(as.Rhs[0]).(*ast.CallExpr)
		if !ok || !axIs(ce.Fun, lv) || len(ce.Args) != 1 {
			return true
		}
		if st, ok := axUnparen(ce.Args[0]).(*ast.StarExpr); ok && axIs(st.X, param) {
			res = axObj(as.Lhs[0])
			nCalls++
		}
		return true
	})
	totalCalls := 0
	for _, ce := range bkCallsOutsideLits(loop.Body) {
		if axIs(ce.Fun, lv) {
			totalCalls++
		}
	}
	if nCalls != 1 || totalCalls != 1 || res == nil {
		return false
	}
	// returns: the only ones besides the final one are `return res`, reached iff res != nil
	okRet, nRet := true, 0
	bkBlocks(loop.Body, func(l []ast.Stmt, path []ast.Node) {
		for i, s := range l {
			rs, ok := s.(*ast.ReturnStmt)
			if !ok {
				continue
			}
			nRet++
			if len(rs.Results) != 1 || !axIs(rs.Results[0], res) {
				okRet = false
				continue
			}
			guarded := false
			// shape 1: inside `if res != nil { return res }`
			if len(path) >= 2 {
				if is, ok := path[len(path)-2].(*ast.IfStmt); ok && is.Body == path[len(path)-1] {
					if x, eq, ok := axNilTest(is.Cond); ok && !eq && axIs(x, res) {
						guarded = true
					}
				}
			}
			// shape 2: preceded by `if res == nil { continue }`
			for _, p := range l[:i] {
				if is, ok := p.(*ast.IfStmt); ok && is.Else == nil && len(is.Body.List) == 1 {
					if br, ok := is.Body.List[0].(*ast.BranchStmt); ok && br.Tok == token.CONTINUE && br.Label == nil {
						if x, eq, ok := axNilTest(is.Cond); ok && eq && axIs(x, res) {
							guarded = true
						}
					}
				}
			}
			if !guarded {
				okRet = false
			}
		}
	})
	if !okRet || nRet != 1 {
		return false
	}
	// no break that would skip the remaining listeners without a result
	if axCount(loop.Body, func(x ast.Node) bool { b, ok := x.(*ast.BranchStmt); return ok && b.Tok == token.BREAK }) > 0 {
		return false
	}
	// no other return in the function
	return axCount(se.Body, func(x ast.Node) bool { _, ok := x.(*ast.ReturnStmt); return ok }) == 2
}

// bkIsSplice: e is append(<x>[:i…], <x>[i+1:]...) with i bound to the object idx.
func bkIsSplice(e ast.Expr, idx *ast.Object) bool {
	ce, ok := axBuiltin(axUnparen(e), "append")
	if !ok || len(ce.Args) != 2 || !ce.Ellipsis.IsValid() {
		return false
	}
	a, ok1 := axUnparen(ce.Args[0]).(*ast.SliceExpr)
	b, ok2 := axUnparen(ce.Args[1]).(*ast.SliceExpr)
	if !ok1 || !ok2 || a.Low != nil || !axIs(a.High, idx) || b.High != nil {
		return false
	}
	be, ok := axUnparen(b.Low).(*ast.BinaryExpr)
	if !ok || be.Op != token.ADD || !axIs(be.X, idx) {
		return false
	}
	one := axIntValue(be.Y)
	return one != nil && *one == 1 && src(a.X) == src(b.X)
}

// bkRegistry: registryRemoveFirstThenAppend of the header for one broker type.
func bkRegistry(f *ast.File, typ string) bool {
	ms := axMethods(f, typ)
	add, remL := ms["AddListener"], ms["RemoveListener"]
	if add == nil || remL == nil || add.Body == nil || remL.Body == nil {
		return false
	}
	name := axParamObj(add, 0)
	if name == nil {
		return false
	}
	// the same-file method AddListener calls with its name parameter, that RemoveListener calls too
	var rem *ast.FuncDecl
	var remCall *ast.CallExpr
	for _, ce := range bkCallsOutsideLits(add.Body) {
		if len(ce.Args) == 1 && axIs(ce.Args[0], name) {
			if fd := axCallee(f, typ, ce); fd != nil && fd.Recv != nil {
				if rem != nil {
					return false
				}
				rem, remCall = fd, ce
			}
		}
	}
	if rem == nil || rem.Body == nil {
		return false
	}
	calledByRemove := false
	for _, ce := range bkCallsOutsideLits(remL.Body) {
		if axCallee(f, typ, ce) == rem && len(ce.Args) == 1 && axIs(ce.Args[0], axParamObj(remL, 0)) {
			calledByRemove = true
		}
	}
	if !calledByRemove {
		return false
	}
	// every append of AddListener to a receiver field comes after the removal; there is at least one
	recv := axRecvObj(add)
	nApp := 0
	okOrder := true
	ast.Inspect(add.Body, func(x ast.Node) bool {
		if s, ok := x.(ast.Stmt); ok {
			if _, _, ok := bkAppendTo(s, recv); ok {
				nApp++
				if s.Pos() < remCall.End() {
					okOrder = false
				}
			}
		}
		return true
	})
	if nApp == 0 || !okOrder {
		return false
	}
	// the removal: one range loop over a receiver field, `==` against the parameter, splice, leave
	rrecv, rname := axRecvObj(rem), axParamObj(rem, 0)
	var loop *ast.RangeStmt
	nLoops := 0
	for _, s := range rem.Body.List {
		if rs, ok := s.(*ast.RangeStmt); ok {
			loop = rs
			nLoops++
		}
	}
	if rrecv == nil || rname == nil || nLoops != 1 {
		return false
	}
	if b, _, ok := axSel(loop.X); !ok || !axIs(b, rrecv) {
		return false
	}
	idx := axObj(loop.Key)
	if idx == nil {
		return false
	}
	compares := axCount(loop.Body, func(x ast.Node) bool {
		be, ok := x.(*ast.BinaryExpr)
		return ok && (be.Op == token.EQL || be.Op == token.NEQ) && (axIs(be.X, rname) || axIs(be.Y, rname))
	})
	if compares != 1 {
		return false
	}
	// in the block that holds the splice, a later statement of the same block is break / return
	leaves := false
	nSplice := 0
	bkBlocks(loop.Body, func(l []ast.Stmt, _ []ast.Node) {
		for i, s := range l {
			as, ok := s.(*ast.AssignStmt)
			if !ok || len(as.Rhs) != 1 || !bkIsSplice(as.Rhs[0], idx) {
				continue
			}
			nSplice++
			for _, t := range l[i+1:] {
				switch v := t.(type) {
				case *ast.ReturnStmt:
					leaves = true
				case *ast.BranchStmt:
					if v.Tok == token.BREAK && v.Label == nil {
						leaves = true
					}
				}
			}
		}
	})
	return nSplice >= 1 && leaves
}

func extractBroker() {
	g := gen("Broker")
	af := parse("pkg/extension/async_broker.go")
	emit := axMethods(af, "AsyncEventBroker")["Emit"]

	variant, why := bkAsyncEmit(af, emit)
	g.def("asyncEmit", "String", leanStr(variant), "how AsyncEventBroker.Emit hands an event to a listener ("+why+")")

	// the dereference must be evaluated by Emit itself, not later inside a queued function literal
	copies := false
	if emit != nil && emit.Body != nil {
		ev := axParamObj(emit, 0)
		ast.Inspect(emit.Body, func(x ast.Node) bool {
			if _, ok := x.(*ast.FuncLit); ok {
				return false
			}
			if se, ok := x.(*ast.StarExpr); ok && axIs(se.X, ev) {
				copies = true
			}
			return true
		})
	}
	g.def("asyncCopiesEvent", "Bool", axLeanBool(copies), "Emit itself passes a copy (`*<event parameter>`) to the listeners")

	// NewHost: every AsyncEventBroker field of Events gets the same queue-set value
	hf := parse("pkg/extension/host.go")
	asyncFields := axFieldsWhere(axStruct(hf, "Events"), func(t ast.Expr) bool {
		_, isPtr := t.(*ast.StarExpr)
		return !isPtr && axTypeBase(t) == "AsyncEventBroker"
	})
	// the queue-set field: the pointer-typed field of struct AsyncEventBroker
	qsFields := axFieldsWhere(axStruct(af, "AsyncEventBroker"), func(t ast.Expr) bool {
		s, ok := t.(*ast.StarExpr)
		if !ok {
			return false
		}
		_, ok = s.X.(*ast.Ident)
		return ok
	})
	nh := fn(hf, "", "NewHost")
	assigned := map[string]*ast.Object{}
	if nh != nil && len(qsFields) == 1 {
		ast.Inspect(nh, func(x ast.Node) bool {
			as, ok := x.(*ast.AssignStmt)
			if !ok || len(as.Lhs) != 1 || len(as.Rhs) != 1 {
				return true
			}
			if b, f, ok := axSel(as.Lhs[0]); ok && f == qsFields[0] {
				if _, broker, ok := axSel(b); ok {
					if _, dup := assigned[broker]; dup {
						assigned[broker] = nil // assigned twice: do not guess
					} else {
						assigned[broker] = axObj(as.Rhs[0])
					}
				}
			}
			return true
		})
	}
	shares := len(asyncFields) > 0
	var first *ast.Object
	for i, f := range asyncFields {
		v := assigned[f]
		if v == nil || (i > 0 && v != first) {
			shares = false
		}
		first = v
	}
	g.def("asyncBrokerFields", "List String", strList(asyncFields), "the AsyncEventBroker fields of extension.Events")
	g.def("hostSharesQueues", "Bool", axLeanBool(shares), "NewHost assigns one and the same variable to the queue-set field of all of them (a listener name has ONE queue for stored and deleted)")

	// msghub registers with each After-event broker; the queue is per listener NAME, so the ordering contract
	// between `stored` and `deleted` reaches the hub only if it uses one name for both
	mh := parse("pkg/msghub/hub.go")
	var regs []string
	regsOK := mh != nil
	if mh != nil {
		ast.Inspect(mh, func(x ast.Node) bool {
			ce, ok := x.(*ast.CallExpr)
			if !ok {
				return true
			}
			b, name, ok := axSel(ce.Fun)
			if !ok || name != "AddListener" {
				return true
			}
			_, broker, ok := axSel(b)
			if !ok {
				return true
			}
			isAsync := false
			for _, f := range asyncFields {
				isAsync = isAsync || f == broker
			}
			if !isAsync {
				return true
			}
			lit, isLit := ce.Args[0].(*ast.BasicLit)
			if len(ce.Args) != 2 || !isLit || lit.Kind != token.STRING {
				regsOK = false // a computed name: do not guess
				return true
			}
			regs = append(regs, broker+"="+lit.Value)
			return true
		})
	}
	sort.Strings(regs)
	sortedFields := append([]string{}, asyncFields...)
	sort.Strings(sortedFields)
	sameName := regsOK && len(regs) == len(sortedFields) && len(regs) > 0
	for i, r := range regs {
		if i >= len(sortedFields) || !strings.HasPrefix(r, sortedFields[i]+"=") ||
			strings.TrimPrefix(r, sortedFields[i]+"=") != strings.TrimPrefix(regs[0], sortedFields[0]+"=") {
			sameName = false
		}
	}
	g.def("msghubOneListenerName", "Bool", axLeanBool(sameName),
		"pkg/msghub/hub.go calls AddListener exactly once on every AsyncEventBroker field of Events, each time with the same string literal as name (whatever it is)")

	// synchronous broker
	bf := parse("pkg/extension/broker.go")
	g.def("syncEmitFirstResult", "Bool", axLeanBool(bkSyncEmit(axMethods(bf, "EventBroker")["Emit"])),
		"EventBroker.Emit returns the first non-nil listener result, in slice order, else nil")

	g.def("registryRemoveFirstThenAppend", "Bool", axLeanBool(bkRegistry(bf, "EventBroker") && bkRegistry(af, "AsyncEventBroker")),
		"AddListener of both brokers removes the first same-named entry, then appends")
}
