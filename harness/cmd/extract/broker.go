package main

// T1 facts about pkg/extension's brokers (Ibx/Gen/Broker.lean):
//   asyncEmit            how AsyncEventBroker.Emit hands an event to a listener:
//                          "goroutinePerEvent"  Emit contains a `go` statement (go l(*event))
//                          "perListenerQueue"   Emit has no `go`, calls no listener itself and only does
//                                               <listener>.queue.push(func literal); push only appends under the queue
//                                               mutex; the queue's run loop pops calls[0] and makes exactly one call per
//                                               iteration; the only `go` statement of the file is `go q.run()` inside
//                                               acquire, on the branch that creates the queue
//                          "unknown"            anything else
//   asyncCopiesEvent     Emit itself (not a queued closure) dereferences the event pointer (`*event`)
//   hostSharesQueues     NewHost gives every AsyncEventBroker field of Events the same queue set
//   syncEmitFirstResult  EventBroker.Emit is "for range listenerFuncs { if result := l(*event); result != nil { return result } }; return nil"
//   registryRemoveFirstThenAppend   AddListener = lockedRemoveListener(name) then append; lockedRemoveListener breaks after one hit

import (
	"go/ast"
	"strings"
)

func init() { extractors = append(extractors, extractBroker) }

func countGo(n ast.Node) int {
	k := 0
	if n == nil || isNilNode(n) {
		return 0
	}
	ast.Inspect(n, func(x ast.Node) bool {
		if _, ok := x.(*ast.GoStmt); ok {
			k++
		}
		return true
	})
	return k
}

func hasNode(n ast.Node, pred func(ast.Node) bool) bool {
	found := false
	if n == nil || isNilNode(n) {
		return false
	}
	ast.Inspect(n, func(x ast.Node) bool {
		if x != nil && pred(x) {
			found = true
		}
		return !found
	})
	return found
}

// fnG: like fn, but also finds methods whose receiver is a generic type (`*T[E]`, `*T[E, R]`).
func fnG(f *ast.File, recv, name string) *ast.FuncDecl {
	if f == nil {
		return nil
	}
	for _, d := range f.Decls {
		fd, ok := d.(*ast.FuncDecl)
		if !ok || fd.Name.Name != name || fd.Recv == nil || len(fd.Recv.List) != 1 {
			continue
		}
		t := fd.Recv.List[0].Type
		if s, ok := t.(*ast.StarExpr); ok {
			t = s.X
		}
		switch x := t.(type) {
		case *ast.IndexExpr:
			t = x.X
		case *ast.IndexListExpr:
			t = x.X
		}
		if id, ok := t.(*ast.Ident); ok && id.Name == recv {
			return fd
		}
	}
	return nil
}

func brokerLeanBool(b bool) string {
	if b {
		return "true"
	}
	return "false"
}

// callsOutsideFuncLits: source text of every call expression in n that is not inside a function literal
func callsOutsideFuncLits(n ast.Node) []string {
	var res []string
	if n == nil || isNilNode(n) {
		return res
	}
	ast.Inspect(n, func(x ast.Node) bool {
		if _, ok := x.(*ast.FuncLit); ok {
			return false
		}
		if ce, ok := x.(*ast.CallExpr); ok {
			res = append(res, src(ce.Fun))
		}
		return true
	})
	return res
}

func extractBroker() {
	g := gen("Broker")
	af := parse("pkg/extension/async_broker.go")
	emit := fnG(af, "AsyncEventBroker", "Emit")
	push := fn(af, "asyncQueue", "push")
	run := fn(af, "asyncQueue", "run")
	acquire := fn(af, "asyncQueues", "acquire")

	variant := "unknown"
	why := "shape not recognised"
	switch {
	case emit == nil:
		why = "AsyncEventBroker.Emit not found"
	case countGo(emit) > 0:
		variant, why = "goroutinePerEvent", "Emit contains a go statement"
	default:
		// Emit: outside function literals only RLock/RUnlock/push calls
		okCalls := true
		nPush := 0
		for _, c := range callsOutsideFuncLits(emit.Body) {
			switch {
			case c == "eb.RLock" || c == "eb.RUnlock":
			case strings.HasSuffix(c, ".queue.push"):
				nPush++
			default:
				okCalls = false
				why = "Emit calls " + c
			}
		}
		pushArgLit := hasNode(emit.Body, func(x ast.Node) bool {
			ce, ok := x.(*ast.CallExpr)
			if !ok || !strings.HasSuffix(src(ce.Fun), ".queue.push") || len(ce.Args) != 1 {
				return false
			}
			_, lit := ce.Args[0].(*ast.FuncLit)
			return lit
		})
		// push: no go, no channel send, appends to q.calls
		pushOK := push != nil && countGo(push) == 0 &&
			!hasNode(push, func(x ast.Node) bool { _, ok := x.(*ast.SendStmt); return ok }) &&
			strings.Contains(src(push.Body), "q.calls = append(q.calls, call)")
		for _, c := range callsOutsideFuncLits(push) {
			switch c {
			case "q.mu.Lock", "q.mu.Unlock", "append", "q.ready.Signal", "q.ready.Broadcast":
			default:
				pushOK = false
			}
		}
		// run: pops the head, exactly one `call()` and no go statement
		runOK := false
		if run != nil && countGo(run) == 0 {
			n := 0
			for _, c := range callsOutsideFuncLits(run) {
				if c == "call" {
					n++
				}
			}
			body := src(run.Body)
			runOK = n == 1 && strings.Contains(body, "call := q.calls[0]") && strings.Contains(body, "q.calls = q.calls[1:]")
		}
		// the only goroutine of the file: `go q.run()` in acquire, under `if q == nil`
		workerOK := false
		if af != nil && countGo(af) == 1 && acquire != nil && countGo(acquire) == 1 {
			workerOK = hasNode(acquire, func(x ast.Node) bool {
				is, ok := x.(*ast.IfStmt)
				return ok && src(is.Cond) == "q == nil" && hasNode(is.Body, func(y ast.Node) bool {
					gs, ok := y.(*ast.GoStmt)
					return ok && src(gs.Call) == "q.run()"
				})
			})
		}
		if okCalls && nPush == 1 && pushArgLit && pushOK && runOK && workerOK {
			variant, why = "perListenerQueue", "Emit only pushes; one worker per queue pops the head and calls"
		} else if okCalls {
			why = "queue shape not recognised"
		}
	}
	g.def("asyncEmit", "String", leanStr(variant), "how AsyncEventBroker.Emit hands an event to a listener ("+why+")")

	// the dereference must be evaluated by Emit itself, not later inside a queued function literal
	copies := false
	if emit != nil {
		ast.Inspect(emit.Body, func(x ast.Node) bool {
			if _, ok := x.(*ast.FuncLit); ok {
				return false
			}
			if se, ok := x.(*ast.StarExpr); ok && src(se.X) == "event" {
				copies = true
			}
			return true
		})
	}
	g.def("asyncCopiesEvent", "Bool", brokerLeanBool(copies), "Emit passes a copy (`*event`) to the listeners")

	// NewHost: every AsyncEventBroker field of Events gets the same `queues` value
	hf := parse("pkg/extension/host.go")
	var asyncFields []string
	if hf != nil {
		ast.Inspect(hf, func(x ast.Node) bool {
			ts, ok := x.(*ast.TypeSpec)
			if !ok || ts.Name.Name != "Events" {
				return true
			}
			if st, ok := ts.Type.(*ast.StructType); ok {
				for _, f := range st.Fields.List {
					if strings.HasPrefix(src(f.Type), "AsyncEventBroker[") {
						for _, n := range f.Names {
							asyncFields = append(asyncFields, n.Name)
						}
					}
				}
			}
			return false
		})
	}
	nh := fn(hf, "", "NewHost")
	assigned := map[string]string{}
	if nh != nil {
		ast.Inspect(nh, func(x ast.Node) bool {
			as, ok := x.(*ast.AssignStmt)
			if ok && len(as.Lhs) == 1 && len(as.Rhs) == 1 {
				l := src(as.Lhs[0])
				if strings.HasPrefix(l, "h.Events.") && strings.HasSuffix(l, ".queues") {
					assigned[strings.TrimSuffix(strings.TrimPrefix(l, "h.Events."), ".queues")] = src(as.Rhs[0])
				}
			}
			return true
		})
	}
	shares := len(asyncFields) > 0
	first := ""
	for _, f := range asyncFields {
		v, ok := assigned[f]
		if !ok || (first != "" && v != first) {
			shares = false
		}
		first = v
	}
	g.def("asyncBrokerFields", "List String", strList(asyncFields), "the AsyncEventBroker fields of extension.Events")
	g.def("hostSharesQueues", "Bool", brokerLeanBool(shares), "NewHost gives all of them one queue set (a listener name has ONE queue for stored and deleted)")

	// synchronous broker
	bf := parse("pkg/extension/broker.go")
	se := fnG(bf, "EventBroker", "Emit")
	syncOK := false
	if se != nil && countGo(se) == 0 {
		stmts := se.Body.List
		// eb.RLock(); defer eb.RUnlock(); for …; return nil
		if len(stmts) == 4 {
			rs, ok1 := stmts[2].(*ast.RangeStmt)
			ret, ok2 := stmts[3].(*ast.ReturnStmt)
			if ok1 && ok2 && src(rs.X) == "eb.listenerFuncs" && len(ret.Results) == 1 && src(ret.Results[0]) == "nil" && len(rs.Body.List) == 1 {
				if is, ok := rs.Body.List[0].(*ast.IfStmt); ok && is.Init != nil && is.Else == nil &&
					src(is.Init) == "result := "+src(rs.Value)+"(*event)" && src(is.Cond) == "result != nil" && len(is.Body.List) == 1 {
					if r, ok := is.Body.List[0].(*ast.ReturnStmt); ok && len(r.Results) == 1 && src(r.Results[0]) == "result" {
						syncOK = true
					}
				}
			}
		}
	}
	g.def("syncEmitFirstResult", "Bool", brokerLeanBool(syncOK), "EventBroker.Emit returns the first non-nil listener result, in slice order, else nil")

	regOK := func(f *ast.File, recv string) bool {
		add := fnG(f, recv, "AddListener")
		rem := fnG(f, recv, "lockedRemoveListener")
		if add == nil || rem == nil {
			return false
		}
		body := src(add.Body)
		i := strings.Index(body, "eb.lockedRemoveListener(name)")
		j := strings.LastIndex(body, "append(")
		hasBreak := hasNode(rem, func(x ast.Node) bool {
			b, ok := x.(*ast.BranchStmt)
			return ok && b.Tok.String() == "break"
		})
		return i >= 0 && j > i && hasBreak && strings.Count(body, "append(") >= 1
	}
	g.def("registryRemoveFirstThenAppend", "Bool", brokerLeanBool(regOK(bf, "EventBroker") && regOK(af, "AsyncEventBroker")),
		"AddListener of both brokers removes the first same-named entry, then appends")
}
