package main

// T1 facts for C18 (style-tag filter, differential parse): how pkg/webui/sanitize/html.go constructs and drives its
// x/net/html tokenizer, how bluemonday (the version the repository's go.mod selects) constructs and drives its own,
// and the facts about the x/net/html version in use that the model / the harness rely on (which options a Tokenizer
// has, after which start tags it reads raw text, which bytes EscapeString escapes and to what).

import (
	"go/ast"
	"go/token"
	"os"
	"os/exec"
	"path/filepath"
	"sort"
	"strconv"
	"strings"
)

func sanIsMethod(ce *ast.CallExpr, name string) bool {
	se, ok := ce.Fun.(*ast.SelectorExpr)
	return ok && se.Sel.Name == name
}

func init() { extractors = append(extractors, extractSanFilter) }

func modInfo(mod, field string) string {
	cmd := exec.Command("go", "list", "-m", "-f", "{{."+field+"}}", mod)
	cmd.Dir = repo
	cmd.Env = append(os.Environ(), "GOFLAGS=-mod=mod", "GOPROXY=off", "GOSUMDB=off", "GOTOOLCHAIN=local")
	out, err := cmd.Output()
	if err != nil {
		return ""
	}
	return strings.TrimSpace(string(out))
}

func parseAbs(path string) *ast.File {
	saved := repo
	repo = ""
	f := parse(path)
	repo = saved
	return f
}

// sanMethodsOnDef: distinct sorted names M of every call `v.M(…)` inside n, v being a variable DEFINED (`v := …` /
// `v = …` / `var v = …`) by a call for which isCtor holds; also the constructor calls themselves as "path.Name/arity".
func sanMethodsOnDef(n ast.Node, isCtor func(ce *ast.CallExpr) (string, bool)) (ctors []string, methods []string) {
	vars := map[string]bool{}
	note := func(lhs []ast.Expr, rhs []ast.Expr) {
		for i, r := range rhs {
			if ce, ok := r.(*ast.CallExpr); ok && i < len(lhs) {
				if _, ok := isCtor(ce); ok {
					if id, ok := lhs[i].(*ast.Ident); ok {
						vars[id.Name] = true
					}
				}
			}
		}
	}
	ast.Inspect(n, func(x ast.Node) bool {
		switch s := x.(type) {
		case *ast.AssignStmt:
			note(s.Lhs, s.Rhs)
		case *ast.ValueSpec:
			lhs := []ast.Expr{}
			for _, id := range s.Names {
				lhs = append(lhs, id)
			}
			note(lhs, s.Values)
		case *ast.CallExpr:
			if c, ok := isCtor(s); ok {
				ctors = append(ctors, c)
			}
		}
		return true
	})
	set := map[string]bool{}
	ast.Inspect(n, func(x ast.Node) bool {
		if ce, ok := x.(*ast.CallExpr); ok {
			if se, ok := ce.Fun.(*ast.SelectorExpr); ok {
				if id, ok := se.X.(*ast.Ident); ok && vars[id.Name] {
					set[se.Sel.Name] = true
				}
			}
		}
		return true
	})
	for k := range set {
		methods = append(methods, k)
	}
	sort.Strings(methods)
	return
}

const sanXHTML = "golang.org/x/net/html"

func extractSanFilter() {
	g := gen("SanFilter")
	// html.go: sanitize.HTML with sanitizeStyleTags / styleTagFilter (and whatever helpers they are split into) inlined
	pkg := sanLoadPkg("pkg/webui/sanitize", "sanitizeStyle")
	g.def("filterSem", "List String", strList(pkg.sanPrint("HTML")), "semantic summary of sanitize.HTML (html.go), unexported helpers inlined: the token loop L1, the attribute loop L2, then the policy; <sanitizeStyle> is the function of cssSem")
	ctorSet, methSet := map[string]bool{}, map[string]bool{}
	pkg.sanAll("HTML", func(v *sanV) {
		if v.k == "pcall" && v.p == sanXHTML && strings.HasPrefix(v.s, "NewTokenizer") {
			ctorSet[v.p+"."+v.s+"/"+strconv.Itoa(len(v.a))] = true
		}
		if v.k == "mcall" && v.a[0].k == "pcall" && v.a[0].p == sanXHTML && strings.HasPrefix(v.a[0].s, "NewTokenizer") {
			methSet[v.s] = true
		}
	})
	keysOf := func(m map[string]bool) []string {
		res := []string{}
		for k := range m {
			res = append(res, k)
		}
		sort.Strings(res)
		return res
	}
	g.def("filterTokenizerCtors", "List String", strList(keysOf(ctorSet)), "the x/net/html tokenizer constructors sanitize.HTML reaches, as importpath.Name/arity")
	g.def("filterTokenizerMethods", "List String", strList(keysOf(methSet)), "methods called on a tokenizer so constructed, anywhere under sanitize.HTML, sorted (an option setter — AllowCDATA, NextIsNotRawText, SetMaxBuf — would appear here)")

	// bluemonday: its tokenizer
	bmDir := modInfo("github.com/microcosm-cc/bluemonday", "Dir")
	var bmCtors, bmMethods []string
	if bmDir != "" {
		if f := parseAbs(filepath.Join(bmDir, "sanitize.go")); f != nil {
			alias := ""
			for _, im := range f.Imports {
				if p, _ := unq(im.Path); p == sanXHTML {
					alias = "html"
					if im.Name != nil {
						alias = im.Name.Name
					}
				}
			}
			isCtor := func(ce *ast.CallExpr) (string, bool) {
				se, ok := ce.Fun.(*ast.SelectorExpr)
				if !ok {
					return "", false
				}
				id, ok := se.X.(*ast.Ident)
				if !ok || alias == "" || id.Name != alias || !strings.HasPrefix(se.Sel.Name, "NewTokenizer") {
					return "", false
				}
				return sanXHTML + "." + se.Sel.Name + "/" + strconv.Itoa(len(ce.Args)), true
			}
			set := map[string]bool{}
			for _, d := range f.Decls {
				if fd, ok := d.(*ast.FuncDecl); ok {
					c, m := sanMethodsOnDef(fd, isCtor)
					bmCtors = append(bmCtors, c...)
					for _, x := range m {
						set[x] = true
					}
				}
			}
			bmMethods = keysOf(set)
		}
	}
	g.def("policyTokenizerCtors", "List String", strList(bmCtors), "every x/net/html NewTokenizer… call of bluemonday's sanitize.go, as importpath.Name/arity")
	g.def("policyTokenizerMethods", "List String", strList(bmMethods), "methods called in bluemonday's sanitize.go on a variable defined by such a call, sorted")

	// x/net/html: options, raw-text elements, EscapeString
	xDir := modInfo("golang.org/x/net", "Dir")
	g.def("xnetVersion", "String", leanStr(modInfo("golang.org/x/net", "Version")), "version of golang.org/x/net selected by the repository's go.mod")
	var exported, ctors, rawTags, escCases []string
	escChars := ""
	if xDir != "" {
		if f := parseAbs(filepath.Join(xDir, "html", "token.go")); f != nil {
			for _, d := range f.Decls {
				fd, ok := d.(*ast.FuncDecl)
				if !ok || !fd.Name.IsExported() {
					continue
				}
				if fd.Recv != nil && len(fd.Recv.List) == 1 && strings.TrimPrefix(src(fd.Recv.List[0].Type), "*") == "Tokenizer" {
					exported = append(exported, fd.Name.Name)
				}
				if fd.Recv == nil && fd.Type.Results != nil && len(fd.Type.Results.List) == 1 && src(fd.Type.Results.List[0].Type) == "*Tokenizer" {
					ctors = append(ctors, fd.Name.Name)
				}
			}
			sort.Strings(exported)
			sort.Strings(ctors)
			if rs := fn(f, "Tokenizer", "readStartTag"); rs != nil {
				ast.Inspect(rs, func(x ast.Node) bool {
					if ce, ok := x.(*ast.CallExpr); ok && sanIsMethod(ce, "startTagIn") {
						for _, a := range ce.Args {
							if s, ok := unq(a); ok {
								rawTags = append(rawTags, s)
							}
						}
					}
					return true
				})
				sort.Strings(rawTags)
			}
		}
		if f := parseAbs(filepath.Join(xDir, "html", "escape.go")); f != nil {
			for _, d := range f.Decls {
				gd, ok := d.(*ast.GenDecl)
				if !ok || gd.Tok != token.CONST {
					continue
				}
				for _, sp := range gd.Specs {
					vs := sp.(*ast.ValueSpec)
					for i, n := range vs.Names {
						if n.Name == "escapedChars" && i < len(vs.Values) {
							escChars, _ = unq(vs.Values[i])
						}
					}
				}
			}
			if ef := fn(f, "", "escape"); ef != nil {
				ast.Inspect(ef, func(x ast.Node) bool {
					cc, ok := x.(*ast.CaseClause)
					if !ok || len(cc.List) != 1 || len(cc.Body) != 1 {
						return true
					}
					as, ok := cc.Body[0].(*ast.AssignStmt)
					if !ok || len(as.Rhs) != 1 {
						return true
					}
					if v, ok := unq(as.Rhs[0]); ok {
						escCases = append(escCases, src(cc.List[0])+"->"+v)
					}
					return true
				})
			}
		}
	}
	g.def("tokenizerMethods", "List String", strList(exported), "exported methods of x/net/html *Tokenizer (token.go), sorted: the option setters among them are AllowCDATA, NextIsNotRawText, SetMaxBuf")
	g.def("tokenizerCtors", "List String", strList(ctors), "exported functions of token.go returning *Tokenizer, sorted")
	g.def("tokenizerRawTags", "List String", strList(rawTags), "arguments of the startTagIn calls in readStartTag: the elements whose content the tokenizer reads as raw text, sorted")
	g.def("escapedChars", "List Nat", byteList(escChars), "the constant escapedChars of x/net/html escape.go, as bytes")
	g.def("escapeCases", "List String", strList(escCases), "`case c: esc = s` clauses of x/net/html escape(), in source order, as \"c->s\"")
}
