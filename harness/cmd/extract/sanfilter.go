package main

// T1 facts for C18 (style-tag filter, differential parse): how pkg/webui/sanitize/html.go constructs and drives its
// x/net/html tokenizer, how bluemonday (the version the repository's go.mod selects) constructs and drives its own,
// and the facts about the x/net/html version in use that the model / the harness rely on (which options a Tokenizer
// has, after which start tags it reads raw text, which bytes EscapeString escapes and to what).

import (
	"go/ast"
	"go/token"
	"os"
	"os/exec"
	"path/filepath"
	"sort"
	"strings"
)

func init() { extractors = append(extractors, extractSanFilter) }

func modInfo(mod, field string) string {
	cmd := exec.Command("go", "list", "-m", "-f", "{{."+field+"}}", mod)
	cmd.Dir = repo
	cmd.Env = append(os.Environ(), "GOFLAGS=-mod=mod", "GOPROXY=off", "GOSUMDB=off", "GOTOOLCHAIN=local")
	out, err := cmd.Output()
	if err != nil {
		return ""
	}
	return strings.TrimSpace(string(out))
}

func parseAbs(path string) *ast.File {
	saved := repo
	repo = ""
	f := parse(path)
	repo = saved
	return f
}

// methodsOn: distinct sorted names M of every call `recv.M(…)` inside n.
func methodsOn(n ast.Node, recv string) []string {
	set := map[string]bool{}
	if n != nil && !isNilNode(n) {
		ast.Inspect(n, func(x ast.Node) bool {
			if ce, ok := x.(*ast.CallExpr); ok {
				if se, ok := ce.Fun.(*ast.SelectorExpr); ok {
					if id, ok := se.X.(*ast.Ident); ok && id.Name == recv {
						set[se.Sel.Name] = true
					}
				}
			}
			return true
		})
	}
	res := []string{}
	for k := range set {
		res = append(res, k)
	}
	sort.Strings(res)
	return res
}

// ctorCalls: printed calls `pkg.F(…)` with F starting with "NewTokenizer", in source order.
func ctorCalls(n ast.Node, pkg string) []string {
	res := []string{}
	if n == nil || isNilNode(n) {
		return res
	}
	ast.Inspect(n, func(x ast.Node) bool {
		if ce, ok := x.(*ast.CallExpr); ok {
			if se, ok := ce.Fun.(*ast.SelectorExpr); ok {
				if id, ok := se.X.(*ast.Ident); ok && id.Name == pkg && strings.HasPrefix(se.Sel.Name, "NewTokenizer") {
					res = append(res, strings.Join(strings.Fields(src(ce)), ""))
				}
			}
		}
		return true
	})
	return res
}

func extractSanFilter() {
	g := gen("SanFilter")
	htm := parse("pkg/webui/sanitize/html.go")
	imports := []string{}
	if htm != nil {
		for _, im := range htm.Imports {
			p, _ := unq(im.Path)
			if im.Name != nil {
				p = im.Name.Name + "=" + p
			}
			imports = append(imports, p)
		}
	}
	sort.Strings(imports)
	g.def("htmlImports", "List String", strList(imports), "imports of html.go, sorted (`html` must be golang.org/x/net/html, whose EscapeString escapes six bytes)")
	var filter ast.Node = &ast.BlockStmt{}
	body := ""
	if f := fn(htm, "", "styleTagFilter"); f != nil {
		filter = f
		body = strings.Join(strings.Fields(src(f.Body)), " ")
	}
	g.def("filterTokenizerCtors", "List String", strList(ctorCalls(filter, "html")), "every html.NewTokenizer…(…) call of styleTagFilter")
	g.def("filterTokenizerMethods", "List String", strList(methodsOn(filter, "z")), "methods called on the tokenizer `z` in styleTagFilter, sorted (an option setter — AllowCDATA, NextIsNotRawText, SetMaxBuf — would appear here)")
	cases := []string{}
	ast.Inspect(filter, func(x ast.Node) bool {
		if sw, ok := x.(*ast.SwitchStmt); ok && sw.Tag != nil && src(sw.Tag) == "tt" {
			for _, st := range sw.Body.List {
				cc := st.(*ast.CaseClause)
				if cc.List == nil {
					cases = append(cases, "default")
					continue
				}
				p := []string{}
				for _, e := range cc.List {
					p = append(p, src(e))
				}
				cases = append(cases, strings.Join(p, ","))
			}
		}
		return true
	})
	g.def("filterCases", "List String", strList(cases), "case lists of `switch tt` in styleTagFilter, in source order")
	g.def("filterSrc", "String", leanStr(body), "body of styleTagFilter, printed with single spaces")
	tags := fn(htm, "", "sanitizeStyleTags")
	g.def("sanitizeStyleTagsReturns", "List String", strList(returnsOf(tags)), "results of the return statements of sanitizeStyleTags")

	// bluemonday: its tokenizer
	bmDir := modInfo("github.com/microcosm-cc/bluemonday", "Dir")
	var bmCtors, bmMethods []string
	if bmDir != "" {
		if f := parseAbs(filepath.Join(bmDir, "sanitize.go")); f != nil {
			bmCtors = ctorCalls(f, "html")
			set := map[string]bool{}
			for _, d := range f.Decls {
				if fd, ok := d.(*ast.FuncDecl); ok && len(ctorCalls(fd, "html")) > 0 {
					for _, m := range methodsOn(fd, "tokenizer") {
						set[m] = true
					}
				}
			}
			for k := range set {
				bmMethods = append(bmMethods, k)
			}
			sort.Strings(bmMethods)
		}
	}
	g.def("policyTokenizerCtors", "List String", strList(bmCtors), "every html.NewTokenizer…(…) call of bluemonday's sanitize.go")
	g.def("policyTokenizerMethods", "List String", strList(bmMethods), "methods called on `tokenizer` in the bluemonday function(s) constructing one, sorted")

	// x/net/html: options, raw-text elements, EscapeString
	xDir := modInfo("golang.org/x/net", "Dir")
	g.def("xnetVersion", "String", leanStr(modInfo("golang.org/x/net", "Version")), "version of golang.org/x/net selected by the repository's go.mod")
	var exported, ctors, rawTags, escCases []string
	escChars := ""
	if xDir != "" {
		if f := parseAbs(filepath.Join(xDir, "html", "token.go")); f != nil {
			for _, d := range f.Decls {
				fd, ok := d.(*ast.FuncDecl)
				if !ok || !fd.Name.IsExported() {
					continue
				}
				if fd.Recv != nil && len(fd.Recv.List) == 1 && strings.TrimPrefix(src(fd.Recv.List[0].Type), "*") == "Tokenizer" {
					exported = append(exported, fd.Name.Name)
				}
				if fd.Recv == nil && fd.Type.Results != nil && len(fd.Type.Results.List) == 1 && src(fd.Type.Results.List[0].Type) == "*Tokenizer" {
					ctors = append(ctors, fd.Name.Name)
				}
			}
			sort.Strings(exported)
			sort.Strings(ctors)
			if rs := fn(f, "Tokenizer", "readStartTag"); rs != nil {
				ast.Inspect(rs, func(x ast.Node) bool {
					if ce, ok := x.(*ast.CallExpr); ok && src(ce.Fun) == "z.startTagIn" {
						for _, a := range ce.Args {
							if s, ok := unq(a); ok {
								rawTags = append(rawTags, s)
							}
						}
					}
					return true
				})
				sort.Strings(rawTags)
			}
		}
		if f := parseAbs(filepath.Join(xDir, "html", "escape.go")); f != nil {
			for _, d := range f.Decls {
				gd, ok := d.(*ast.GenDecl)
				if !ok || gd.Tok != token.CONST {
					continue
				}
				for _, sp := range gd.Specs {
					vs := sp.(*ast.ValueSpec)
					for i, n := range vs.Names {
						if n.Name == "escapedChars" && i < len(vs.Values) {
							escChars, _ = unq(vs.Values[i])
						}
					}
				}
			}
			if ef := fn(f, "", "escape"); ef != nil {
				ast.Inspect(ef, func(x ast.Node) bool {
					cc, ok := x.(*ast.CaseClause)
					if !ok || len(cc.List) != 1 || len(cc.Body) != 1 {
						return true
					}
					as, ok := cc.Body[0].(*ast.AssignStmt)
					if !ok || len(as.Rhs) != 1 {
						return true
					}
					if v, ok := unq(as.Rhs[0]); ok {
						escCases = append(escCases, src(cc.List[0])+"->"+v)
					}
					return true
				})
			}
		}
	}
	g.def("tokenizerMethods", "List String", strList(exported), "exported methods of x/net/html *Tokenizer (token.go), sorted: the option setters among them are AllowCDATA, NextIsNotRawText, SetMaxBuf")
	g.def("tokenizerCtors", "List String", strList(ctors), "exported functions of token.go returning *Tokenizer, sorted")
	g.def("tokenizerRawTags", "List String", strList(rawTags), "arguments of z.startTagIn in readStartTag: the elements whose content the tokenizer reads as raw text, sorted")
	g.def("escapedChars", "List Nat", byteList(escChars), "the constant escapedChars of x/net/html escape.go, as bytes")
	g.def("escapeCases", "List String", strList(escCases), "`case c: esc = s` clauses of x/net/html escape(), in source order, as \"c->s\"")
}
