package main

// entry.go — T1 facts about THE WAYS INTO THE STORE (lean/Ibx/Gen/Entry.lean, pinned by lean/Ibx/Tie/Entry.lean and used by
// lean/Ibx/Props/C06Entry.lean to discharge the hypothesis "every delivery comes through SMTP" of the system-level theorems).
//
// Unlike the other extractors this one TYPE-CHECKS the repository (go/types): every package under pkg/ and cmd/ as the
// default build sees it (`go list`: no test files, no files behind the `verif` tag), dependencies read from the export data
// `go list -export` produces (the build cache the harness build fills anyway).  A method call is then identified by the
// method OBJECT it resolves to and the type it is called on, not by its spelling:
//
//   * a use of `Deliver` (or any other method of message.Manager) counts when the method belongs to message.Manager, to a
//     type that implements it, or to any interface such a type satisfies (a local `interface{ Deliver(..) }` included);
//     likewise for storage.Store.  Method VALUES (`f := m.Deliver`) and method expressions count as uses of kind "value".
//   * the function a use is written in is named by ROLE: the SMTP DATA handler is the function the SMTP extractor identifies
//     as such (called by the session loop while the state is DATA); otherwise the use is attributed to the exported functions
//     / methods (or unreferenced functions) from which the enclosing function is reachable through references inside the
//     repository.  Renaming a local, a parameter, a receiver or an unexported helper, or cutting a block out into an unexported
//     helper, changes no fact; a new call site, route, listener or exposed Lua function does.
//   * what an HTTP handler / a Lua-exposed function can reach is the closure over every reference to a repository function
//     (calls, method values, function values; function literals belong to the function they are written in).
//
// What cannot exist in Go and is therefore not searched for: an assignment to an unexported field of a store from outside its
// package.  What is outside this analysis: reflection and `unsafe` (reported as a count of imports of reflect / unsafe /
// plugin in the packages that name the store or the manager).

import (
	"encoding/json"
	"fmt"
	"go/ast"
	"go/importer"
	"go/parser"
	"go/token"
	"go/types"
	"io"
	"os"
	"os/exec"
	"path/filepath"
	"sort"
	"strconv"
	"strings"
)

func init() { extractors = append(extractors, extractEntry) }

const entModule = "github.com/inbucket/inbucket/v3"

type entListPkg struct {
	ImportPath string
	Export     string
	Dir        string
	Name       string
	GoFiles    []string
	Standard   bool
	Imports    []string
	Error      *struct{ Err string }
}

type entPkg struct {
	rel   string
	lp    *entListPkg
	files []*ast.File
	tp    *types.Package
	info  *types.Info
	errs  []string
}

// entFunc: a function or method DECLARATION of the repository
type entFunc struct {
	pkg  *entPkg
	decl *ast.FuncDecl
	obj  *types.Func
	refs map[*types.Func]bool // repository functions referenced in the body (literals included)
	uses []entUse             // manager / store method uses written in the body
	body bool                 // reads the request body of an *http.Request
}

type entUse struct {
	method string // "Manager.Deliver" / "Store.AddMessage" …
	kind   string // call | go | defer | value
	pos    token.Pos
}

type entWorld struct {
	fset    *token.FileSet
	list    map[string]*entListPkg
	pkgs    map[string]*entPkg // by import path (repository packages only)
	order   []*entPkg
	gc      types.Importer
	errs    []string
	funcs   map[*types.Func]*entFunc
	byDecl  []*entFunc
	parents map[ast.Node]ast.Node
	mgrI    *types.Named
	storeI  *types.Named
	mgrImpl []types.Type
	stImpl  []types.Type
	inits   map[*entPkg]*entFunc // package-level initialisers (var x = …) as one pseudo function per package
}

func (w *entWorld) fail(format string, a ...interface{}) {
	w.errs = append(w.errs, fmt.Sprintf(format, a...))
}

func entRel(path string) string {
	if path == entModule {
		return "."
	}
	return strings.TrimPrefix(path, entModule+"/")
}

func entIsRepo(path string) bool { return path == entModule || strings.HasPrefix(path, entModule+"/") }

// entLoad: go list + parse + type-check
func entLoad() *entWorld {
	w := &entWorld{fset: fset, list: map[string]*entListPkg{}, pkgs: map[string]*entPkg{}, funcs: map[*types.Func]*entFunc{},
		parents: map[ast.Node]ast.Node{}, inits: map[*entPkg]*entFunc{}}
	cmd := exec.Command("go", "list", "-export", "-deps", "-json=ImportPath,Export,Dir,Name,GoFiles,Standard,Imports,Error", "./pkg/...", "./cmd/...")
	cmd.Dir = repo
	env := []string{}
	for _, kv := range os.Environ() {
		if strings.HasPrefix(kv, "GOFLAGS=") || strings.HasPrefix(kv, "GOPROXY=") || strings.HasPrefix(kv, "GOSUMDB=") || strings.HasPrefix(kv, "GOTOOLCHAIN=") {
			continue
		}
		env = append(env, kv)
	}
	cmd.Env = append(env, "GOFLAGS=-mod=mod", "GOPROXY=off", "GOSUMDB=off", "GOTOOLCHAIN=local")
	var stderr strings.Builder
	cmd.Stderr = &stderr
	out, err := cmd.Output()
	if err != nil {
		w.fail("go list: %v: %s", err, stderr.String())
		return w
	}
	dec := json.NewDecoder(strings.NewReader(string(out)))
	var repoOrder []*entListPkg
	for {
		var p entListPkg
		if err := dec.Decode(&p); err == io.EOF {
			break
		} else if err != nil {
			w.fail("go list output: %v", err)
			return w
		}
		q := p
		w.list[p.ImportPath] = &q
		if entIsRepo(p.ImportPath) {
			repoOrder = append(repoOrder, &q)
		}
		if p.Error != nil {
			w.fail("package %s: %s", p.ImportPath, p.Error.Err)
		}
	}
	w.gc = importer.ForCompiler(w.fset, "gc", func(path string) (io.ReadCloser, error) {
		lp := w.list[path]
		if lp == nil || lp.Export == "" {
			return nil, fmt.Errorf("no export data for %q", path)
		}
		return os.Open(lp.Export)
	})
	// go list -deps prints dependencies first: check in that order
	for _, lp := range repoOrder {
		p := &entPkg{rel: entRel(lp.ImportPath), lp: lp}
		for _, f := range lp.GoFiles {
			af, err := parser.ParseFile(w.fset, filepath.Join(lp.Dir, f), nil, parser.SkipObjectResolution)
			if err != nil {
				w.fail("parse %s/%s: %v", p.rel, f, err)
				continue
			}
			p.files = append(p.files, af)
		}
		p.info = &types.Info{Types: map[ast.Expr]types.TypeAndValue{}, Defs: map[*ast.Ident]types.Object{}, Uses: map[*ast.Ident]types.Object{},
			Selections: map[*ast.SelectorExpr]*types.Selection{}}
		conf := types.Config{Importer: entImporter{w}, Error: func(err error) { p.errs = append(p.errs, err.Error()) }}
		p.tp, _ = conf.Check(lp.ImportPath, w.fset, p.files, p.info)
		for _, e := range p.errs {
			w.fail("type-check %s: %s", p.rel, e)
		}
		w.pkgs[lp.ImportPath] = p
		w.order = append(w.order, p)
	}
	return w
}

type entImporter struct{ w *entWorld }

func (i entImporter) Import(path string) (*types.Package, error) {
	if p := i.w.pkgs[path]; p != nil && p.tp != nil {
		return p.tp, nil
	}
	if path == "unsafe" {
		return types.Unsafe, nil
	}
	return i.w.gc.Import(path)
}

func (w *entWorld) named(rel, name string) *types.Named {
	p := w.pkgs[entModule+"/"+rel]
	if p == nil || p.tp == nil {
		return nil
	}
	o := p.tp.Scope().Lookup(name)
	if o == nil {
		return nil
	}
	n, _ := o.Type().(*types.Named)
	return n
}

// index: parents, declarations, implementations
func (w *entWorld) index() {
	w.mgrI = w.named("pkg/message", "Manager")
	w.storeI = w.named("pkg/storage", "Store")
	if w.mgrI == nil || w.storeI == nil {
		w.fail("message.Manager / storage.Store not found")
		return
	}
	if _, ok := w.mgrI.Underlying().(*types.Interface); !ok {
		w.fail("message.Manager is not an interface")
		return
	}
	if _, ok := w.storeI.Underlying().(*types.Interface); !ok {
		w.fail("storage.Store is not an interface")
		return
	}
	for _, p := range w.order {
		if p.tp == nil {
			continue
		}
		sc := p.tp.Scope()
		for _, n := range sc.Names() {
			tn, ok := sc.Lookup(n).(*types.TypeName)
			if !ok || tn.IsAlias() {
				continue
			}
			t := tn.Type()
			if _, isI := t.Underlying().(*types.Interface); isI {
				continue
			}
			if entImplements(t, w.mgrI) {
				w.mgrImpl = append(w.mgrImpl, t)
			}
			if entImplements(t, w.storeI) {
				w.stImpl = append(w.stImpl, t)
			}
		}
	}
	for _, p := range w.order {
		ini := &entFunc{pkg: p, refs: map[*types.Func]bool{}}
		w.inits[p] = ini
		for _, f := range p.files {
			var stack []ast.Node
			ast.Inspect(f, func(n ast.Node) bool {
				if n == nil {
					stack = stack[:len(stack)-1]
					return true
				}
				if len(stack) > 0 {
					w.parents[n] = stack[len(stack)-1]
				}
				stack = append(stack, n)
				return true
			})
			for _, d := range f.Decls {
				switch v := d.(type) {
				case *ast.FuncDecl:
					obj, _ := p.info.Defs[v.Name].(*types.Func)
					ef := &entFunc{pkg: p, decl: v, obj: obj, refs: map[*types.Func]bool{}}
					if obj != nil {
						w.funcs[obj] = ef
					}
					w.byDecl = append(w.byDecl, ef)
					if v.Body != nil {
						w.scan(ef, v.Body)
					}
				case *ast.GenDecl:
					w.scan(ini, v)
				}
			}
		}
	}
}

func entImplements(t types.Type, i *types.Named) bool {
	it := i.Underlying().(*types.Interface)
	return types.Implements(t, it) || types.Implements(types.NewPointer(t), it)
}

// couldBe: a method declared on R (the receiver type of the method object) may be a method of an implementation of iface
func (w *entWorld) couldBe(R types.Type, iface *types.Named, impls []types.Type) bool {
	if p, ok := R.(*types.Pointer); ok {
		R = p.Elem()
	}
	it := iface.Underlying().(*types.Interface)
	if ri, ok := R.Underlying().(*types.Interface); ok {
		if types.Identical(R, iface) || types.Identical(ri, it) || types.Implements(R, it) {
			return true
		}
		for _, im := range impls {
			if types.Implements(im, ri) || types.Implements(types.NewPointer(im), ri) {
				return true
			}
		}
		return false
	}
	return entImplements(R, iface)
}

func entHasMethod(i *types.Named, name string) bool {
	it := i.Underlying().(*types.Interface)
	for k := 0; k < it.NumMethods(); k++ {
		if it.Method(k).Name() == name {
			return true
		}
	}
	return false
}

// useKind: how the selector is used
func (w *entWorld) useKind(sel ast.Node) string {
	var child ast.Node = sel
	par := w.parents[sel]
	for {
		pe, ok := par.(*ast.ParenExpr)
		if !ok {
			break
		}
		child, par = pe, w.parents[pe]
	}
	ce, ok := par.(*ast.CallExpr)
	if !ok || ce.Fun != child {
		return "value"
	}
	switch w.parents[ce].(type) {
	case *ast.GoStmt:
		return "go"
	case *ast.DeferStmt:
		return "defer"
	}
	return "call"
}

var entBodyMethods = map[string]bool{"ParseForm": true, "ParseMultipartForm": true, "FormValue": true, "PostFormValue": true, "FormFile": true, "MultipartReader": true}

func entIsHTTPRequest(t types.Type) bool {
	if p, ok := t.(*types.Pointer); ok {
		t = p.Elem()
	}
	n, ok := t.(*types.Named)
	return ok && n.Obj().Pkg() != nil && n.Obj().Pkg().Path() == "net/http" && n.Obj().Name() == "Request"
}

// scan: references and uses written in n, attributed to ef
func (w *entWorld) scan(ef *entFunc, n ast.Node) {
	p := ef.pkg
	ast.Inspect(n, func(x ast.Node) bool {
		switch v := x.(type) {
		case *ast.Ident:
			if f, ok := p.info.Uses[v].(*types.Func); ok && f.Pkg() != nil && entIsRepo(f.Pkg().Path()) {
				ef.refs[entOrigin(f)] = true
			}
		case *ast.SelectorExpr:
			sel := p.info.Selections[v]
			if sel == nil {
				return true
			}
			if sel.Kind() == types.FieldVal {
				if sel.Obj().Name() == "Body" && entIsHTTPRequest(sel.Recv()) {
					ef.body = true
				}
				return true
			}
			f, ok := sel.Obj().(*types.Func)
			if !ok {
				return true
			}
			if entBodyMethods[f.Name()] && entIsHTTPRequest(sel.Recv()) {
				ef.body = true
			}
			sig, _ := f.Type().(*types.Signature)
			if sig == nil || sig.Recv() == nil {
				return true
			}
			R := sig.Recv().Type()
			if w.mgrI != nil && entHasMethod(w.mgrI, f.Name()) && (w.couldBe(R, w.mgrI, w.mgrImpl) || w.couldBe(sel.Recv(), w.mgrI, w.mgrImpl)) {
				ef.uses = append(ef.uses, entUse{"Manager." + f.Name(), w.useKind(v), v.Pos()})
			}
			if w.storeI != nil && entHasMethod(w.storeI, f.Name()) && (w.couldBe(R, w.storeI, w.stImpl) || w.couldBe(sel.Recv(), w.storeI, w.stImpl)) {
				ef.uses = append(ef.uses, entUse{"Store." + f.Name(), w.useKind(v), v.Pos()})
			}
		}
		return true
	})
}

func entOrigin(f *types.Func) *types.Func {
	if o := f.Origin(); o != nil {
		return o
	}
	return f
}

// closure: every declared repository function reachable from the given ones by references
func (w *entWorld) closure(start []*entFunc) []*entFunc {
	seen := map[*entFunc]bool{}
	var res []*entFunc
	var visit func(f *entFunc)
	visit = func(f *entFunc) {
		if f == nil || seen[f] {
			return
		}
		seen[f] = true
		res = append(res, f)
		for r := range f.refs {
			visit(w.funcs[r])
		}
	}
	for _, f := range start {
		visit(f)
	}
	return res
}

func entUsesOf(fs []*entFunc) ([]string, bool) {
	set := map[string]bool{}
	body := false
	for _, f := range fs {
		for _, u := range f.uses {
			set[u.method] = true
		}
		body = body || f.body
	}
	res := []string{}
	for m := range set {
		res = append(res, m)
	}
	sort.Strings(res)
	return res, body
}

func entFuncName(f *entFunc) string {
	if f.decl == nil {
		return "<package initialiser>"
	}
	if r := axRecvType(f.decl); r != "" {
		return r + "." + f.decl.Name.Name
	}
	return f.decl.Name.Name
}

func entExported(f *entFunc) bool {
	if f.decl == nil {
		return true
	}
	if !ast.IsExported(f.decl.Name.Name) && f.decl.Name.Name != "main" && f.decl.Name.Name != "init" {
		return false
	}
	if r := axRecvType(f.decl); r != "" && !ast.IsExported(r) {
		return false
	}
	return true
}

// roots: the exported / unreferenced functions (or the DATA handler) from which f is reachable
func (w *entWorld) roots(f *entFunc, data *entFunc, referrers map[*entFunc][]*entFunc) []string {
	seen := map[*entFunc]bool{}
	set := map[string]bool{}
	var up func(g *entFunc)
	up = func(g *entFunc) {
		if seen[g] {
			return
		}
		seen[g] = true
		if g == data {
			set["<DATA handler>"] = true
			return
		}
		if entExported(g) || len(referrers[g]) == 0 {
			set[entFuncName(g)] = true
			return
		}
		for _, r := range referrers[g] {
			up(r)
		}
	}
	up(f)
	res := []string{}
	for s := range set {
		res = append(res, s)
	}
	sort.Strings(res)
	return res
}

// encl: the declaration a position is written in
func (w *entWorld) encl(p *entPkg, n ast.Node) *entFunc {
	for x := n; x != nil; x = w.parents[x] {
		if fd, ok := x.(*ast.FuncDecl); ok {
			for _, f := range w.byDecl {
				if f.decl == fd {
					return f
				}
			}
		}
	}
	return w.inits[p]
}

func entTuple3(l [][3]string) string {
	p := []string{}
	for _, t := range l {
		p = append(p, "("+leanStr(t[0])+", "+leanStr(t[1])+", "+leanStr(t[2])+")")
	}
	return "[" + strings.Join(p, ", ") + "]"
}

func extractEntry() {
	g := gen("Entry")
	w := entLoad()
	if len(w.errs) == 0 {
		w.index()
	}
	unknown := len(w.errs) > 0
	if unknown {
		for _, e := range w.errs {
			fmt.Fprintln(os.Stderr, "entry:", e)
		}
	}
	note := ""
	if unknown {
		note = w.errs[0]
		if len(note) > 300 {
			note = note[:300]
		}
	}
	g.def("loaded", "Bool", strconv.FormatBool(!unknown), "every package under pkg/ and cmd/ (default build: no test files, no `verif` files) parsed and type-checked with go/types, dependencies from `go list -export`")
	g.def("loadError", "String", leanStr(note), "first problem met while loading (empty when loaded)")
	if unknown {
		// every table carries a marker no tie accepts
		u3 := "[(\"unknown\", \"unknown\", \"unknown\")]"
		g.def("analysed", "Nat", "0", "packages analysed")
		g.def("unlinked", "List String", "[\"unknown\"]", "")
		g.def("deliverSites", "List (String × String × String)", u3, "")
		g.def("addMessageSites", "List (String × String × String)", u3, "")
		g.def("managerImpls", "List String", "[\"unknown\"]", "")
		g.def("storeImpls", "List String", "[\"unknown\"]", "")
		g.def("packageUses", "List (String × List String)", "[(\"unknown\", [\"unknown\"])]", "")
		g.def("handlerCalls", "List (String × List String × Bool)", "[(\"unknown\", [\"unknown\"], true)]", "")
		g.def("otherHttpHandlers", "List (String × String × Nat × List String)", "[(\"unknown\", \"unknown\", 0, [\"unknown\"])]", "")
		g.def("httpServers", "List (String × Nat)", "[(\"unknown\", 0)]", "")
		g.def("listeners", "List (String × Nat)", "[(\"unknown\", 0)]", "")
		g.def("luaExposed", "Nat", "0", "")
		g.def("luaExposedUses", "List String", "[\"unknown\"]", "")
		g.def("luaPreloads", "List String", "[\"unknown\"]", "")
		g.def("luaLinks", "List String", "[\"unknown\"]", "")
		g.def("escapeHatches", "List (String × String)", "[(\"unknown\", \"unknown\")]", "")
		return
	}

	// ---- which packages are linked into a program (import closure of the main packages)
	linked := map[*entPkg]bool{}
	var link func(p *entPkg)
	link = func(p *entPkg) {
		if p == nil || linked[p] {
			return
		}
		linked[p] = true
		for _, ip := range p.lp.Imports {
			link(w.pkgs[ip])
		}
	}
	for _, p := range w.order {
		if p.lp.Name == "main" {
			link(p)
		}
	}
	unl := []string{}
	for _, p := range w.order {
		if !linked[p] {
			unl = append(unl, p.rel)
		}
	}
	sort.Strings(unl)
	g.def("analysed", "Nat", strconv.Itoa(len(w.order)), "packages analysed")
	g.def("unlinked", "List String", strList(unl), "analysed packages that no program of cmd/ links (not in the import closure of a main package): test support; their code cannot run in the server and is left out of the tables below")

	// ---- the DATA handler by role (smtp.go)
	var data *entFunc
	if r := smtpFindRoles(k1LoadPkg("pkg/server/smtp")); r != nil && r.data != nil {
		want := fset.Position(r.data.Pos())
		for _, f := range w.byDecl {
			if f.decl == nil || f.pkg.rel != "pkg/server/smtp" {
				continue
			}
			got := fset.Position(f.decl.Pos())
			if filepath.Base(got.Filename) == filepath.Base(want.Filename) && got.Line == want.Line && f.decl.Name.Name == r.data.Name.Name {
				data = f
			}
		}
	}

	// ---- referrers
	referrers := map[*entFunc][]*entFunc{}
	all := append([]*entFunc{}, w.byDecl...)
	for _, p := range w.order {
		all = append(all, w.inits[p])
	}
	for _, f := range all {
		if !linked[f.pkg] {
			continue
		}
		for r := range f.refs {
			if t := w.funcs[r]; t != nil && t != f {
				referrers[t] = append(referrers[t], f)
			}
		}
	}

	// ---- (i) (ii) the sites that hand a message to the manager / the store
	var dSites, aSites [][3]string
	uses := map[string]map[string]bool{}
	for _, f := range all {
		if !linked[f.pkg] {
			continue
		}
		for _, u := range f.uses {
			if uses[f.pkg.rel] == nil {
				uses[f.pkg.rel] = map[string]bool{}
			}
			uses[f.pkg.rel][u.method] = true
			if u.method != "Manager.Deliver" && u.method != "Store.AddMessage" {
				continue
			}
			for _, root := range w.roots(f, data, referrers) {
				t := [3]string{f.pkg.rel, root, u.kind}
				if u.method == "Manager.Deliver" {
					dSites = append(dSites, t)
				} else {
					aSites = append(aSites, t)
				}
			}
		}
	}
	less := func(l [][3]string) func(i, j int) bool {
		return func(i, j int) bool { return strings.Join(l[i][:], "\x00") < strings.Join(l[j][:], "\x00") }
	}
	sort.Slice(dSites, less(dSites))
	sort.Slice(aSites, less(aSites))
	g.def("deliverSites", "List (String × String × String)", entTuple3(dSites),
		"every use of the Deliver method of a message.Manager (the interface, a type implementing it, any interface such a type satisfies) in linked code: (package, function it is reachable from — `<DATA handler>` = the function the SMTP session loop calls while the state is DATA, whose exits are Gen.Smtp.dataPaths —, kind: call | go | defer | value), one entry per use and root")
	g.def("addMessageSites", "List (String × String × String)", entTuple3(aSites),
		"every use of the AddMessage method of a storage.Store (same resolution); the stores' own AddMessage methods are declarations, not uses")

	implNames := func(l []types.Type) []string {
		res := []string{}
		for _, t := range l {
			n := t.(*types.Named)
			p := w.pkgs[n.Obj().Pkg().Path()]
			if p == nil || !linked[p] {
				continue
			}
			res = append(res, p.rel+"."+n.Obj().Name())
		}
		sort.Strings(res)
		return res
	}
	g.def("managerImpls", "List String", strList(implNames(w.mgrImpl)), "the named types of linked packages that implement message.Manager")
	g.def("storeImpls", "List String", strList(implNames(w.stImpl)), "the named types of linked packages that implement storage.Store")

	pk := []string{}
	for rel := range uses {
		pk = append(pk, rel)
	}
	sort.Strings(pk)
	rows := []string{}
	for _, rel := range pk {
		ms := []string{}
		for m := range uses[rel] {
			ms = append(ms, m)
		}
		sort.Strings(ms)
		rows = append(rows, "("+leanStr(rel)+", "+strList(ms)+")")
	}
	g.def("packageUses", "List (String × List String)", "[\n  "+strings.Join(rows, ",\n  ")+"]",
		"per linked package the methods of message.Manager / storage.Store its code uses (packages that use none are absent)")

	// ---- (iii) HTTP: handlers registered on a router
	webHandler := w.named("pkg/server/web", "Handler")
	type reg struct {
		pkg, fn string
		n       int
		starts  map[*entFunc]bool
	}
	hc := map[string][]*entFunc{} // handler function name -> start set
	hcUnknown := false
	others := map[string]*reg{}
	servers := map[string]int{}
	listens := map[string]int{}
	luaN := 0
	var luaStarts []*entFunc
	luaPre := []string{}
	luaUnknown := false
	isRouterType := func(t types.Type) bool {
		if p, ok := t.(*types.Pointer); ok {
			t = p.Elem()
		}
		n, ok := t.(*types.Named)
		if !ok || n.Obj().Pkg() == nil {
			return false
		}
		pp, nm := n.Obj().Pkg().Path(), n.Obj().Name()
		return (pp == "github.com/gorilla/mux" && (nm == "Router" || nm == "Route")) || (pp == "net/http" && nm == "ServeMux")
	}
	for _, p := range w.order {
		if !linked[p] {
			continue
		}
		for _, f := range p.files {
			ast.Inspect(f, func(x ast.Node) bool {
				switch v := x.(type) {
				case *ast.CompositeLit:
					if tv, ok := p.info.Types[v]; ok {
						if n, ok := tv.Type.(*types.Named); ok && n.Obj().Pkg() != nil && n.Obj().Pkg().Path() == "net/http" && n.Obj().Name() == "Server" {
							servers[p.rel]++
						}
					}
				case *ast.CallExpr:
					// a conversion web.Handler(F)
					if tv, ok := p.info.Types[v.Fun]; ok && tv.IsType() && webHandler != nil && types.Identical(tv.Type, webHandler) && len(v.Args) == 1 {
						name, starts := w.funcValue(p, v.Args[0])
						if name == "" {
							hcUnknown = true
							name = "unknown"
						}
						hc[name] = append(hc[name], starts...)
						return true
					}
					var callee *types.Func
					var recv types.Type
					switch fx := axUnparen(v.Fun).(type) {
					case *ast.SelectorExpr:
						if sel := p.info.Selections[fx]; sel != nil {
							callee, _ = sel.Obj().(*types.Func)
							recv = sel.Recv()
						} else {
							callee, _ = p.info.Uses[fx.Sel].(*types.Func)
						}
					case *ast.Ident:
						callee, _ = p.info.Uses[fx].(*types.Func)
					}
					if callee == nil || callee.Pkg() == nil {
						return true
					}
					cp, cn := callee.Pkg().Path(), callee.Name()
					switch {
					case recv != nil && isRouterType(recv) && (cn == "Handler" || cn == "HandlerFunc" || cn == "Handle" || cn == "HandleFunc"),
						recv == nil && cp == "net/http" && (cn == "Handle" || cn == "HandleFunc"):
						arg := v.Args[len(v.Args)-1]
						if ce, ok := axUnparen(arg).(*ast.CallExpr); ok {
							if tv, ok := p.info.Types[ce.Fun]; ok && tv.IsType() && webHandler != nil && types.Identical(tv.Type, webHandler) {
								return true // counted by the conversion
							}
						}
						ef := w.encl(p, v)
						key := p.rel + "\x00" + entFuncName(ef)
						if others[key] == nil {
							others[key] = &reg{pkg: p.rel, fn: entFuncName(ef), starts: map[*entFunc]bool{}}
						}
						others[key].n++
						others[key].starts[ef] = true
					case recv == nil && cp == "net/http" && (cn == "ListenAndServe" || cn == "ListenAndServeTLS" || cn == "Serve" || cn == "ServeTLS"):
						servers[p.rel]++
					case recv == nil && (cp == "net" || cp == "crypto/tls") && strings.HasPrefix(cn, "Listen"):
						listens[p.rel]++
					case recv != nil && cp == "net" && strings.HasPrefix(cn, "Listen"): // (*net.ListenConfig).Listen
						listens[p.rel]++
					case recv != nil && cp == "github.com/yuin/gopher-lua" && (cn == "NewFunction" || cn == "NewClosure" || cn == "SetFuncs" || cn == "RegisterModule" || cn == "PreloadModule" || cn == "Register"):
						// (iv) Go code handed to Lua scripts
						if cn == "PreloadModule" && len(v.Args) == 2 {
							if s, ok := entStrLit(p, v.Args[0]); ok {
								luaPre = append(luaPre, s)
							} else {
								luaUnknown = true
							}
						}
						for _, a := range v.Args {
							tv, ok := p.info.Types[a]
							if !ok {
								continue
							}
							switch tv.Type.Underlying().(type) {
							case *types.Signature:
								luaN++
								name, starts := w.funcValue(p, a)
								if name == "" {
									luaUnknown = true
								}
								luaStarts = append(luaStarts, starts...)
							case *types.Map: // SetFuncs / RegisterModule: map[string]LGFunction
								luaN++
								luaStarts = append(luaStarts, w.encl(p, v))
							}
						}
					}
				}
				return true
			})
		}
	}
	hn := []string{}
	for n := range hc {
		hn = append(hn, n)
	}
	sort.Strings(hn)
	rows = rows[:0]
	for _, n := range hn {
		us, body := entUsesOf(w.closure(hc[n]))
		if hcUnknown && n == "unknown" {
			us = []string{"unknown"}
		}
		rows = append(rows, "("+leanStr(n)+", "+strList(us)+", "+strconv.FormatBool(body)+")")
	}
	g.def("handlerCalls", "List (String × List String × Bool)", "[\n  "+strings.Join(rows, ",\n  ")+"]",
		"every function converted to web.Handler (the only way a function with a *web.Context becomes an http.Handler): (function, the message.Manager / storage.Store methods reachable from it through references inside the repository, whether that code reads the request body: Request.Body / ParseForm / FormValue / MultipartReader …), sorted by function")
	ok2 := []string{}
	for k := range others {
		ok2 = append(ok2, k)
	}
	sort.Strings(ok2)
	rows = rows[:0]
	for _, k := range ok2 {
		r := others[k]
		var st []*entFunc
		for f := range r.starts {
			st = append(st, f)
		}
		us, _ := entUsesOf(w.closure(st))
		rows = append(rows, "("+leanStr(r.pkg)+", "+leanStr(r.fn)+", "+strconv.Itoa(r.n)+", "+strList(us)+")")
	}
	g.def("otherHttpHandlers", "List (String × String × Nat × List String)", "["+strings.Join(rows, ", ")+"]",
		"the other registrations on a mux.Router / mux.Route / http.ServeMux (Handler, HandlerFunc, Handle, HandleFunc with an argument that is not a web.Handler conversion: static files, the SPA page, redirects, expvar, pprof): (package, function they are written in, how many, the Manager / Store methods reachable from that function)")
	natRows := func(m map[string]int) string {
		ks := []string{}
		for k := range m {
			ks = append(ks, k)
		}
		sort.Strings(ks)
		p := []string{}
		for _, k := range ks {
			p = append(p, "("+leanStr(k)+", "+strconv.Itoa(m[k])+")")
		}
		return "[" + strings.Join(p, ", ") + "]"
	}
	g.def("httpServers", "List (String × Nat)", natRows(servers), "per linked package: http.Server literals and calls of http.ListenAndServe / Serve (…TLS)")
	g.def("listeners", "List (String × Nat)", natRows(listens), "per linked package: calls of net.Listen… / tls.Listen… / ListenConfig.Listen — the network interfaces of the program")

	// ---- (iv) Lua
	lu, _ := entUsesOf(w.closure(luaStarts))
	if luaUnknown {
		lu = append(lu, "unknown")
	}
	sort.Strings(luaPre)
	g.def("luaExposed", "Nat", strconv.Itoa(luaN), "Go function values handed to gopher-lua (arguments of LState.NewFunction / NewClosure / SetFuncs / RegisterModule / PreloadModule / Register) anywhere in linked code")
	g.def("luaExposedUses", "List String", strList(lu), "the message.Manager / storage.Store methods reachable from any of them")
	g.def("luaPreloads", "List String", strList(luaPre), "names of the modules preloaded into every Lua state")
	links := []string{}
	if lp := w.pkgs[entModule+"/pkg/extension/luahost"]; lp != nil {
		seen := map[*entPkg]bool{}
		var cl func(p *entPkg)
		cl = func(p *entPkg) {
			if p == nil || seen[p] {
				return
			}
			seen[p] = true
			if p != lp {
				links = append(links, p.rel)
			}
			for _, ip := range p.lp.Imports {
				cl(w.pkgs[ip])
			}
		}
		cl(lp)
	} else {
		links = append(links, "unknown")
	}
	sort.Strings(links)
	g.def("luaLinks", "List String", strList(links), "repository packages in the import closure of pkg/extension/luahost: neither pkg/message nor pkg/storage, so no value of a store or manager type can be named there")

	// ---- what this analysis cannot see through
	esc := [][2]string{}
	for _, p := range w.order {
		if !linked[p] || len(uses[p.rel]) == 0 {
			continue
		}
		for _, ip := range p.lp.Imports {
			if ip == "reflect" || ip == "unsafe" || ip == "plugin" {
				esc = append(esc, [2]string{p.rel, ip})
			}
		}
	}
	sort.Slice(esc, func(i, j int) bool { return esc[i][0]+esc[i][1] < esc[j][0]+esc[j][1] })
	er := []string{}
	for _, e := range esc {
		er = append(er, "("+leanStr(e[0])+", "+leanStr(e[1])+")")
	}
	g.def("escapeHatches", "List (String × String)", "["+strings.Join(er, ", ")+"]",
		"imports of reflect / unsafe / plugin in the linked packages that use a Manager / Store method (calls made through them are invisible to go/types)")
}

func entStrLit(p *entPkg, e ast.Expr) (string, bool) {
	tv, ok := p.info.Types[e]
	if !ok || tv.Value == nil {
		return "", false
	}
	s, err := strconv.Unquote(tv.Value.ExactString())
	if err != nil {
		return "", false
	}
	return s, true
}

// funcValue: the repository functions an expression of function type stands for: a named function / method value, a function
// literal (→ the declaration it is written in), a call of a repository function that returns one (→ that function), or a
// function of another module ("ext:pkg.Name", nothing to follow).  "" = not understood.
func (w *entWorld) funcValue(p *entPkg, e ast.Expr) (string, []*entFunc) {
	e = axUnparen(e)
	switch v := e.(type) {
	case *ast.Ident:
		if f, ok := p.info.Uses[v].(*types.Func); ok {
			return w.funcObj(f)
		}
	case *ast.SelectorExpr:
		if sel := p.info.Selections[v]; sel != nil {
			if f, ok := sel.Obj().(*types.Func); ok {
				return w.funcObj(f)
			}
			return "", nil
		}
		if f, ok := p.info.Uses[v.Sel].(*types.Func); ok {
			return w.funcObj(f)
		}
	case *ast.FuncLit:
		ef := w.encl(p, v)
		return "<literal in " + entFuncName(ef) + ">", []*entFunc{ef}
	case *ast.CallExpr:
		name, st := w.funcValue(p, v.Fun)
		if name != "" {
			return "<result of " + name + ">", st
		}
	}
	return "", nil
}

func (w *entWorld) funcObj(f *types.Func) (string, []*entFunc) {
	f = entOrigin(f)
	if ef := w.funcs[f]; ef != nil {
		return entFuncName(ef), []*entFunc{ef}
	}
	if f.Pkg() != nil && !entIsRepo(f.Pkg().Path()) {
		return "ext:" + f.Pkg().Path() + "." + f.Name(), nil
	}
	return "", nil
}
