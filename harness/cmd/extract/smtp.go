package main

// T1 facts about pkg/server/smtp for the SMTP session model (Ibx/Model/Smtp.lean).
//
// Every fact is found through the STRUCTURE of the package (k1kit.go), never through the name of a local variable,
// of a parameter, of a receiver or of an unexported helper, and never through a log / reply / error text:
//   * the command loop is the function holding `switch <session>.<state> { case GREET: <session>.h(cmd, arg) … }`;
//     the handlers of GREET / READY / MAIL are whatever that switch calls, the DATA handler is what the loop calls
//     under `<session>.<state> == DATA`;
//   * the reply helper is the unexported method that calls PrintfLine, the state helper the one that assigns its
//     parameter to the state field, the reset helper the one the any-state RSET clause calls;
//   * a command table is a switch whose tag is the command word and whose labels are string literals, wherever a
//     helper boundary happens to be (the AUTH sub-table is the string switch under the READY handler's AUTH clause);
//   * expressions are rendered canonically ($r receiver, $s session, $cmd / $arg the handler's parameters, $p a
//     parameter, locals replaced by their definitions, helpers by what they return);
//   * the tables and the exits of the handlers are read off EXECUTED paths (kit_t1a.go): a local has the value it was
//     given on that path, a helper that replies is executed in place and its exits go on in the caller with what it
//     returned, `switch`, if-chain, guard clause, else branch, nested `if` and `&&` are the same decisions.

import (
	"go/ast"
	"go/token"
	"regexp"
	"sort"
	"strconv"
	"strings"
)

func init() { extractors = append(extractors, extractSmtp) }

func smtpSrcNoArgs(n ast.Node) string { return src(n) }

// smtpRoles: the helpers of the package by what they do.
type smtpRoles struct {
	pkg      *k1Pkg
	d        *k1Dispatch
	send     *ast.FuncDecl // writes a reply line
	setState *ast.FuncDecl // assigns its parameter to the state field
	reset    *ast.FuncDecl // called by the any-state RSET clause
	data     *ast.FuncDecl // called by the loop while the state is DATA
	parse    *ast.FuncDecl // produces (cmd, arg, ok) from the line
	anyState *k1Switch
	from     string // session field handed to Deliver as the sender
	rcpts    string // session field handed to Deliver as the recipient list
}

// smtpDirectCall: fd's own body (function literals excluded) calls <x>.name(..).
func smtpDirectCall(fd *ast.FuncDecl, name string) bool {
	for _, ce := range k1Calls(fd.Body) {
		if k1SelCall(ce, name) {
			return true
		}
	}
	return false
}

func smtpFindRoles(p *k1Pkg) *smtpRoles {
	r := &smtpRoles{pkg: p, d: k1FindDispatch(p)}
	for _, fd := range p.funcs {
		if fd.Recv == nil || k1Exported(fd.Name.Name) {
			continue
		}
		if smtpDirectCall(fd, "PrintfLine") && r.send == nil {
			r.send = fd
		}
	}
	if r.d == nil {
		return r
	}
	// the state helper: `recv.<stateField> = <parameter>`
	for _, fd := range p.funcs {
		if fd.Recv == nil || k1Exported(fd.Name.Name) || fd.Type.Params == nil || len(fd.Type.Params.List) != 1 {
			continue
		}
		e := k1NewEnv(p, fd)
		ast.Inspect(fd.Body, func(n ast.Node) bool {
			as, ok := n.(*ast.AssignStmt)
			if !ok || as.Tok != token.ASSIGN || len(as.Lhs) != 1 || len(as.Rhs) != 1 {
				return true
			}
			if e.canon(as.Lhs[0]) == "$r."+r.d.stateField && e.canon(as.Rhs[0]) == "$p" {
				r.setState = fd
			}
			return true
		})
	}
	// the DATA handler: `if <session>.<state> == DATA { <session>.h() … }` inside the loop
	ast.Inspect(r.d.fn.Body, func(n ast.Node) bool {
		is, ok := n.(*ast.IfStmt)
		if !ok || r.d.env.canon(is.Cond) != "$s."+r.d.stateField+" == DATA" {
			return true
		}
		for _, ce := range k1Calls(is.Body) {
			if fd := p.resolve(ce); fd != nil && fd != r.send && r.data == nil {
				r.data = fd
			}
		}
		return true
	})
	// the any-state table: the string switch on $cmd of the loop that is not reached through the state dispatch
	r.d.env.skip = map[ast.Node]bool{r.d.sw: true}
	var any []k1Switch
	for _, s := range r.d.env.strSwitches([]ast.Node{r.d.fn.Body}, 1) {
		if s.env.canon(s.sw.Tag) == "$cmd" {
			any = append(any, s)
		}
	}
	if len(any) == 1 {
		r.anyState = &any[0]
		if cc := r.anyState.clause("RSET"); cc != nil {
			var hs []*ast.FuncDecl
			for _, st := range cc.Body {
				for _, ce := range k1Calls(st) {
					if fd := p.resolve(ce); fd != nil && fd != r.send && fd != r.setState {
						hs = append(hs, fd)
					}
				}
			}
			if len(hs) == 1 {
				r.reset = hs[0]
			}
		}
	}
	// the parser: cmd is result 0 of a helper call
	if ds := r.d.env.defs[r.d.cmd]; len(ds) == 1 && ds[0].rhs != nil {
		if ce, ok := k1Unparen(ds[0].rhs).(*ast.CallExpr); ok && ds[0].idx == 0 {
			r.parse = p.resolve(ce)
		}
	}
	// the envelope fields: what the DATA handler hands to Deliver
	if r.data != nil {
		e := k1NewEnv(p, r.data)
		for _, ce := range k1Calls(r.data.Body) {
			if k1SelCall(ce, "Deliver") && len(ce.Args) == 4 {
				a0, a1 := e.canon(ce.Args[0]), e.canon(ce.Args[1])
				if strings.HasPrefix(a0, "$r.") && strings.HasPrefix(a1, "$r.") {
					r.from, r.rcpts = a0[3:], a1[3:]
				}
			}
		}
	}
	return r
}

var smtpSeen = map[string]bool{"Deliver": true, "ReadDotBytes": true, "ReadLine": true, "NewRecipient": true, "ParseOrigin": true,
	"ShouldAccept": true, "Emit": true}

// assignEvent: the event of an assignment statement: a change of the state, the sender or the recipient list written
// directly.
func (r *smtpRoles) assignEvent(e *k1Env, lhs, rhs ast.Expr) string {
	l := e.canon(lhs)
	for _, pre := range []string{"$r.", "$s."} {
		if strings.HasPrefix(l, pre) {
			f := l[len(pre):]
			switch {
			case r.d != nil && f == r.d.stateField:
				return "state:" + e.canon(rhs)
			case f == r.from && f != "":
				return "set:from=" + r.short(e, rhs)
			case f == r.rcpts && f != "":
				return "set:rcpts=" + r.short(e, rhs)
			}
		}
	}
	return ""
}

// short: canonical form with the envelope fields named by role
func (r *smtpRoles) short(e *k1Env, x ast.Expr) string {
	s := e.canon(x)
	if r.rcpts != "" {
		s = strings.ReplaceAll(s, "$r."+r.rcpts, "$rcpts")
	}
	if r.from != "" {
		s = strings.ReplaceAll(s, "$r."+r.from, "$from")
	}
	return s
}

func (r *smtpRoles) roleNames(paths []string) []string {
	out := []string{}
	for _, s := range paths {
		if r.rcpts != "" {
			s = strings.ReplaceAll(s, "$r."+r.rcpts, "$rcpts")
		}
		if r.from != "" {
			s = strings.ReplaceAll(s, "$r."+r.from, "$from")
		}
		if r.d != nil {
			s = strings.ReplaceAll(s, "$r."+r.d.stateField, "$state")
		}
		out = append(out, s)
	}
	return out
}

// smtpCode: the reply code of a reply whose canonical text is c (`"250 ok"`, `"250-" + X`, `fmt.Sprintf("552 …", n)`):
// "250" / "250-"; "*" when the text does not start with a literal code (an extension's own reply).
func smtpCode(c string) string {
	c = strings.TrimPrefix(c, "fmt.Sprintf(")
	if len(c) >= 4 && c[0] == '"' && c[1] >= '0' && c[1] <= '9' && c[2] >= '0' && c[2] <= '9' && c[3] >= '0' && c[3] <= '9' {
		if len(c) > 4 && c[4] == '-' {
			return c[1:5]
		}
		return c[1:4]
	}
	return "*"
}

// walker2: the path-sensitive walker (kit_t1a.go) with the events of the SMTP facts.  withReset = the reset helper is
// an event of its own (false when the fact is about the reset helper itself).
func (r *smtpRoles) walker2(withReset bool) *k2Walker {
	w := k2NewWalker(r.pkg)
	w.classify = func(e *k1Env, ce *ast.CallExpr) (string, bool) {
		fd := r.pkg.resolve(ce)
		switch {
		case fd != nil && fd == r.send:
			if len(ce.Args) == 1 {
				return "send:" + smtpCode(e.canon(ce.Args[0])), false
			}
			return "send:?", false
		case fd != nil && fd == r.setState:
			if len(ce.Args) == 1 {
				return "state:" + e.canon(ce.Args[0]), false
			}
			return "state:?", false
		case fd != nil && fd == r.reset && withReset:
			return "reset", false
		case fd != nil:
			return "", true
		}
		if sel, ok := ce.Fun.(*ast.SelectorExpr); ok && smtpSeen[sel.Sel.Name] {
			if sel.Sel.Name == "Emit" {
				if in, ok := sel.X.(*ast.SelectorExpr); ok {
					return "emit:" + in.Sel.Name, false
				}
			}
			return "call:" + sel.Sel.Name, false
		}
		return "", false
	}
	w.assign = r.assignEvent
	w.elide = func(ce *ast.CallExpr) (string, bool) {
		if sel, ok := ce.Fun.(*ast.SelectorExpr); ok && smtpSeen[sel.Sel.Name] && r.pkg.resolve(ce) == nil {
			if sel.Sel.Name == "Emit" {
				if in, ok := sel.X.(*ast.SelectorExpr); ok {
					return in.Sel.Name + ".Emit(..)", true
				}
			}
			return sel.Sel.Name + "(..)", true
		}
		return "", false
	}
	return w
}

var smtpWordGuardRe = regexp.MustCompile(`^\[(.*) (==|!=) "((?:[^"\\]|\\.)*)"\]$`)
var smtpCmdGuardRe = regexp.MustCompile(`^\[\$cmd (==|!=) "((?:[^"\\]|\\.)*)"\]$`)

// smtpTable: the exits of a handler(cmd, arg) as a command table: every exit belongs to the command word its path
// compared $cmd EQUAL to ("<default>" when to none); the comparisons with the command word themselves are the row
// labels, not guards.  Rows with the same exits are one row (labels sorted, joined by ","); rows sorted by label.
func smtpTable(ps []k2Path) (labels []string, rows map[string][]string, paths map[string][]k2Path) {
	byLabel := map[string][]k2Path{}
	for _, p := range ps {
		label := "<default>"
		var items []string
		for _, it := range p.items {
			if m := smtpCmdGuardRe.FindStringSubmatch(it); m != nil {
				if m[1] == "==" {
					label = m[2]
				}
				continue
			}
			items = append(items, it)
		}
		byLabel[label] = append(byLabel[label], k2Path{items: items, term: p.term})
	}
	byRows := map[string][]string{}
	keyRows := map[string][]string{}
	keyPaths := map[string][]k2Path{}
	for l, lp := range byLabel {
		cp := k2CanonicalPaths(lp)
		var c []string
		for i := range cp {
			if cp[i].term == "" {
				cp[i].term = "return" // falling off the end of the handler
			}
			c = append(c, k2PathString(cp[i]))
		}
		key := strings.Join(c, "\x00")
		byRows[key] = append(byRows[key], l)
		keyRows[key] = c
		keyPaths[key] = cp
	}
	rows = map[string][]string{}
	paths = map[string][]k2Path{}
	for key, ls := range byRows {
		sort.Strings(ls)
		l := strings.Join(ls, ",")
		labels = append(labels, l)
		rows[l] = keyRows[key]
		paths[l] = keyPaths[key]
	}
	sort.Strings(labels)
	return labels, rows, paths
}

var smtpLimitRe = regexp.MustCompile(`\[len\(\$rcpts\) (\S+) \$r\.config\.MaxRecipients\]`)
var smtpArgMinRe = regexp.MustCompile(`len\(\$arg\) (\S+) (\d+)\b`)

func extractSmtp() {
	defer k1Recover("extractSmtp")
	g := gen("Smtp")
	p := k1LoadPkg("pkg/server/smtp")
	r := smtpFindRoles(p)

	// ---- the command tables
	keys, vals, ok := p.boolMapKeys()
	cmds := []string{}
	if ok {
		for i, k := range keys {
			if vals[i] == "true" {
				cmds = append(cmds, k)
			}
		}
	}
	g.def("commands", "List String", strList(cmds), "keys (value true) of the package's command set (its one package-level map[string]bool literal), in source order")
	states := []string{}
	if r.d != nil {
		states = r.d.states
	}
	g.def("dispatchStates", "List String", strList(states), "the states the command loop dispatches to a handler(cmd, arg), in source order")
	// ---- the tables.  Everything below is read off EXECUTED paths (kit_t1a.go), not off `switch` statements: a table
	// written as an if-chain, moved into a helper, or followed by its default case is the same table.
	trans := []string{}
	rcptPaths := []string{}
	caseLists := map[string][][]string{}
	lists := func(labels []string) [][]string {
		out := [][]string{}
		for _, l := range labels {
			out = append(out, strings.Split(l, ","))
		}
		return out
	}
	// the any-state table: the paths through the body of the command loop that compare the command word EQUAL to a
	// word and do not reach the state dispatch.  What all of them have decided before (not DATA, the line was read,
	// not LOGIN / PASSWORD, parsed, not empty, a known command) is the preamble, reported once.
	preamble := []string{"?"}
	if r.d == nil || r.d.loop == nil {
		trans = append(trans, "(\"*\", \"?\", [])")
	} else {
		w := r.walker2(true)
		w.pinned = map[*ast.Object]bool{r.d.cmd: true, r.d.arg: true}
		isHandler := map[*ast.FuncDecl]bool{}
		for _, h := range r.d.handlers {
			isHandler[h] = true
		}
		inner := w.classify
		w.classify = func(e *k1Env, ce *ast.CallExpr) (string, bool) {
			if fd := r.pkg.resolve(ce); fd != nil && isHandler[fd] {
				return "dispatch", false
			}
			return inner(e, ce)
		}
		var anyPaths []k2Path
		for _, x := range k2CanonicalPaths(w.paths(r.d.env, nil, r.d.loop.Body.List)) {
			word, dispatched := false, false
			for _, it := range x.items {
				if m := smtpCmdGuardRe.FindStringSubmatch(it); m != nil && m[1] == "==" && m[2] != "" {
					word = true
				}
				if it == "dispatch" {
					dispatched = true
				}
			}
			if word && !dispatched {
				anyPaths = append(anyPaths, x)
			}
		}
		// the preamble: the longest common prefix, comparisons with the command word aside
		strip := func(items []string) []string {
			var out []string
			for _, it := range items {
				if m := smtpCmdGuardRe.FindStringSubmatch(it); m != nil && m[2] != "" {
					continue
				}
				out = append(out, it)
			}
			return out
		}
		if len(anyPaths) > 0 {
			pre := strip(anyPaths[0].items)
			for _, x := range anyPaths[1:] {
				it := strip(x.items)
				n := 0
				for n < len(pre) && n < len(it) && pre[n] == it[n] {
					n++
				}
				pre = pre[:n]
			}
			preamble = r.roleNames(pre)
			for i := range anyPaths {
				// drop the preamble (the comparisons with the command word stay for smtpTable to file the exit)
				var items []string
				k := 0
				for _, it := range anyPaths[i].items {
					if k < len(pre) && it == pre[k] {
						k++
						continue
					}
					items = append(items, it)
				}
				anyPaths[i].items = items
			}
		}
		labels, rows, _ := smtpTable(anyPaths)
		for _, l := range labels {
			exits := []string{}
			for _, x := range r.roleNames(rows[l]) {
				exits = append(exits, x)
			}
			trans = append(trans, "(\"*\", "+leanStr(l)+", "+strList(exits)+")")
		}
		caseLists["*"] = lists(labels)
		if len(labels) == 0 {
			trans = append(trans, "(\"*\", \"?\", [])")
		}
	}
	// a handler(cmd, arg) is executed as a whole
	authCases := [][]string{}
	authTag := ""
	for _, state := range []string{"GREET", "READY", "MAIL"} {
		if r.d == nil || r.d.handlers[state] == nil {
			trans = append(trans, "("+leanStr(state)+", \"?\", [])")
			continue
		}
		w := r.walker2(true)
		labels, rows, paths := smtpTable(w.paths(r.d.handlerEnv(p, state), nil, r.d.handlers[state].Body.List))
		caseLists[state] = lists(labels)
		for _, l := range labels {
			exits := r.roleNames(rows[l])
			trans = append(trans, "("+leanStr(state)+", "+leanStr(l)+", "+strList(exits)+")")
			if state == "MAIL" && l == "RCPT" {
				rcptPaths = exits
			}
			if state == "READY" && l == "AUTH" {
				// the sub-table of AUTH: the one value its paths compare with string literals
				tags := map[string]bool{}
				words := map[string]bool{}
				def := false
				for _, x := range paths[l] {
					pos := false
					for _, it := range x.items {
						if m := smtpWordGuardRe.FindStringSubmatch(it); m != nil {
							tags[m[1]] = true
							if m[2] == "==" {
								words[m[3]] = true
								pos = true
							}
						}
					}
					if !pos {
						def = true
					}
				}
				if len(tags) == 1 {
					for t := range tags {
						authTag = t
					}
					var ws []string
					for x := range words {
						ws = append(ws, x)
					}
					sort.Strings(ws)
					for _, x := range ws {
						authCases = append(authCases, []string{x})
					}
					if def {
						authCases = append(authCases, []string{"<default>"})
					}
				}
			}
		}
	}
	g.def("anyStatePreamble", "List String", strList(preamble), "what every path to the any-state table has decided before it compares the command word ($cmd): the state is not DATA, a line was read, the state reads commands, the line parsed, the word is not empty and is a known command")
	g.def("anyStateCases", "List (List String)", k1ListOfLists(caseLists["*"]), "the command words of the any-state table (the paths through the command loop that compare the command word equal to a word without reaching the state dispatch): one list per row of `transitions`, sorted")
	g.def("greetCases", "List (List String)", k1ListOfLists(caseLists["GREET"]), "the rows of the GREET handler's table (command words its paths compare $cmd equal to; <default>: to none), sorted")
	g.def("readyCases", "List (List String)", k1ListOfLists(caseLists["READY"]), "the rows of the READY handler's table")
	g.def("mailCases", "List (List String)", k1ListOfLists(caseLists["MAIL"]), "the rows of the MAIL handler's table")
	g.def("authCases", "List (List String)", k1ListOfLists(authCases), "the words the paths of the AUTH row of the READY table compare the method with (sorted; <default>: a path that compares it equal to none)")
	g.def("authTag", "String", leanStr(authTag), "what they compare: the one value the AUTH row compares with string literals")
	g.def("transitions", "List (String × String × List String)", "[\n  "+strings.Join(trans, ",\n  ")+"]",
		"(state, command words, exits): the any-state table (*) clause by clause, and the GREET / READY / MAIL handlers executed path by path (kit_t1a.go), every exit filed under the command word its path compared $cmd equal to (<default>: to none); "+
			"an exit is the guards [c] decided and the events met on its path, in execution order: replies (send:code), calls of the address policy and of the extension hooks, changes of state / sender / recipients")

	// ---- reset()
	resetFact := "unknown"
	if r.reset != nil && r.d != nil && r.from != "" && r.rcpts != "" {
		w := r.walker2(false)
		var ps []string
		for _, x := range r.roleNames(k1AsReturn(k2Canonical(w.paths(k1NewEnv(p, r.reset), nil, r.reset.Body.List)))) {
			ev := strings.Split(x, "; ") // the order in which independent fields are written is not behaviour
			sort.Strings(ev)
			ps = append(ps, strings.Join(ev, "; "))
		}
		sort.Strings(ps)
		switch strings.Join(ps, " | ") {
		case "[$state != GREET]; return; set:from=nil; set:rcpts=nil; state:READY | [$state == GREET]; return; set:from=nil; set:rcpts=nil":
			resetFact = "keepsGreet"
		case "return; set:from=nil; set:rcpts=nil; state:READY":
			resetFact = "promotesToReady"
		}
	}
	g.def("resetFromGreet", "String", leanStr(resetFact), "what the reset helper (the one the any-state RSET clause calls) does: keepsGreet = clears sender and recipients and enters READY unless the state is GREET | promotesToReady = clears them and enters READY | unknown")

	// ---- the DATA handler: its exits
	dataPaths := []string{}
	if r.data != nil {
		w := r.walker2(true)
		dataPaths = r.roleNames(k1AsReturn(k2Canonical(w.paths(k1NewEnv(p, r.data), nil, r.data.Body.List))))
	}
	g.def("dataPaths", "List String", strList(dataPaths), "the exits of the DATA handler (same notation): replies (send:code), helper and library calls of interest, state changes, in execution order; [c] = a guard decided on the path")
	const sizeGuard = "[len(ReadDotBytes(..)#0) > $r.config.MaxMessageBytes]"
	const sizeOK = "[len(ReadDotBytes(..)#0) <= $r.config.MaxMessageBytes]"
	sizeFact := "none"
	nReset, nRefuse := 0, 0
	for _, s := range dataPaths {
		if strings.HasSuffix(s, "; reset; return") {
			nReset++
		}
		switch {
		case strings.Contains(s, sizeGuard):
			nRefuse++
			// the refusal follows the read with nothing but decisions in between, and is 552, reset, return
			i := strings.Index(s, "call:ReadDotBytes; ")
			ok := i >= 0 && strings.HasSuffix(s, sizeGuard+"; send:552; reset; return")
			if ok {
				for _, it := range strings.Split(s[i+len("call:ReadDotBytes; "):strings.Index(s, sizeGuard)], "; ") {
					if it != "" && !strings.HasPrefix(it, "[") {
						ok = false
					}
				}
			}
			if ok && sizeFact == "none" {
				sizeFact = "afterRead"
			} else {
				sizeFact = "unknown"
			}
		case strings.Contains(s, "len(ReadDotBytes(..)#0) ") && !strings.Contains(s, sizeOK):
			sizeFact = "unknown"
		case strings.Contains(s, "call:Deliver") && !strings.Contains(s, sizeOK):
			nRefuse = 99 // a way to Deliver that does not pass the test
		}
	}
	if sizeFact == "afterRead" && nRefuse != 1 {
		sizeFact = "unknown"
	}
	if sizeFact == "none" && nRefuse != 0 && nRefuse != 99 {
		sizeFact = "unknown"
	}
	if r.data == nil {
		sizeFact = "unknown"
	}
	g.def("dataSizeCheck", "String", leanStr(sizeFact), "the DATA handler refuses (552, reset, return) a block longer than MaxMessageBytes right after reading it, and every path to Deliver passes that test: afterRead | none | unknown")
	g.def("dataHandlerResets", "Nat", strconv.Itoa(nReset), "number of exits of the DATA handler that end with the reset helper (552, 451, 250)")

	// ---- RCPT
	op, lim := "?", "?"
	{
		// the comparison the model's RCPT step rests on, read off the guard of the 552 exit
		ops := map[string]bool{}
		for _, ps := range rcptPaths {
			if !strings.Contains(ps, "send:552") {
				continue
			}
			n := 0
			for _, m := range smtpLimitRe.FindAllStringSubmatch(ps, -1) {
				op, lim = m[1], "MaxRecipients"
				ops[m[1]] = true
				n++
			}
			if n != 1 {
				ops["?"] = true
			}
		}
		if len(ops) != 1 || ops["?"] {
			op, lim = "?", "?"
		}
	}
	g.def("rcptPaths", "List String", strList(rcptPaths), "the exits of the RCPT row of the MAIL handler (same notation as dataPaths)")
	g.def("rcptLimitTest", "String × String", "("+leanStr(op)+", "+leanStr(lim)+")", "the recipient limit comparison `len(<recipients>) <op> <config>.MaxRecipients` that guards the 552 exit of RCPT")
	smtpCmp := func(name string, e *k1Env, nodes []ast.Node, lhs, wantOp, comment string) {
		var ops []string
		var vs []int
		for _, n := range nodes {
			if n == nil {
				continue
			}
			ast.Inspect(n, func(x ast.Node) bool {
				be, ok := x.(*ast.BinaryExpr)
				if !ok {
					return true
				}
				if lit, ok := k1Unparen(be.Y).(*ast.BasicLit); ok && lit.Kind == token.INT && e.canon(be.X) == lhs && (wantOp == "" || wantOp == be.Op.String()) {
					if v, err := strconv.Atoi(lit.Value); err == nil {
						ops = append(ops, be.Op.String())
						vs = append(vs, v)
					}
				}
				return true
			})
		}
		val := "none"
		if len(ops) == 1 {
			val = "some (" + leanStr(ops[0]) + ", " + strconv.Itoa(vs[0]) + ")"
		}
		g.def(name, "Option (String × Nat)", val, comment)
	}
	{
		// the tests of len($arg) against a literal on the paths of RCPT, each written as the refusing comparison
		val := "none"
		set := map[string]bool{}
		for _, ps := range rcptPaths {
			for _, m := range smtpArgMinRe.FindAllStringSubmatch(ps, -1) {
				o, n := m[1], m[2]
				if o == ">=" {
					o = "<"
				}
				set["some ("+leanStr(o)+", "+n+")"] = true
			}
		}
		if len(set) == 1 {
			for k := range set {
				val = k
			}
		}
		g.def("rcptArgMin", "Option (String × Nat)", val, "minimum RCPT argument length test guarding $arg[0:3] (the only comparison of len($arg) with a literal among the guards of rcptPaths; `>= n` on the paths that go on is `< n` on the one that refuses)")
	}
	if r.parse != nil {
		// the length of the command word: the variable that holds strings.IndexByte(line, ' ') (or len(line))
		e := k1NewEnv(p, r.parse)
		// … or the length of the word strings.Cut(line, " ") splits off
		for o, ds := range e.defs {
			for _, d := range ds {
				if ce, ok := d.rhs.(*ast.CallExpr); ok && k1QualCall(ce, "strings", "IndexByte") {
					e.override[o] = "$wordLen"
				}
				if ce, ok := d.rhs.(*ast.CallExpr); ok && k1QualCall(ce, "strings", "Cut") && d.idx == 0 && d.n == 3 && len(ce.Args) == 2 {
					if sep, isStr := k1Str(ce.Args[1]); isStr && sep == " " {
						e.override[o] = "$word"
					}
				}
			}
		}
		lhs := "$wordLen"
		ast.Inspect(r.parse.Body, func(x ast.Node) bool {
			if be, ok := x.(*ast.BinaryExpr); ok && e.canon(be.X) == "len($word)" {
				lhs = "len($word)"
			}
			return true
		})
		smtpCmp("cmdMinLen", e, []ast.Node{r.parse.Body}, lhs, "<", "the command parser: a command word shorter than this is garbled")
	} else {
		g.def("cmdMinLen", "Option (String × Nat)", "none", "command parser not found")
	}

	// ---- regular expressions
	var fromRe, argsRe *string
	for _, f := range p.files {
		ast.Inspect(f, func(x ast.Node) bool {
			ce, ok := x.(*ast.CallExpr)
			if !ok || !k1QualCall(ce, "regexp", "MustCompile") || len(ce.Args) != 1 {
				return true
			}
			if s, ok := k1Str(ce.Args[0]); ok {
				s := s
				if strings.Contains(s, "FROM:") {
					fromRe = &s
				} else {
					argsRe = &s
				}
			}
			return true
		})
	}
	g.def("fromRegex", "Option String", optStr(fromRe), "source text of the MAIL FROM expression")
	g.def("argsRegex", "Option String", optStr(argsRe), "source text of the ESMTP parameter expression")

	// ---- index / slice expressions
	set := map[string]bool{}
	reached := map[*ast.FuncDecl]bool{}
	if r.d != nil {
		r.d.env.skip = nil
		// the loop itself, then each handler with ($cmd, $arg)
		visiting := map[*ast.FuncDecl]int{}
		for _, st := range r.d.states {
			visiting[r.d.handlers[st]]++ // entered below with their own parameter names
		}
		r.d.env.sites(r.d.fn.Body, set, visiting)
		for _, st := range r.d.states {
			visiting[r.d.handlers[st]]--
			if e := r.d.handlerEnv(p, st); e != nil {
				e.sites(r.d.handlers[st].Body, set, visiting)
			}
			visiting[r.d.handlers[st]]++
		}
		smtpReach(p, r.d.fn, reached)
	}
	// functions of the same file the loop never reaches (constructors, String methods): standalone
	for _, fd := range p.funcs {
		if !reached[fd] && r.d != nil && fset.File(fd.Pos()) == fset.File(r.d.fn.Pos()) {
			vis := map[*ast.FuncDecl]int{fd: 1}
			for c := range reached {
				vis[c] = 1
			}
			k1NewEnv(p, fd).sites(fd.Body, set, vis)
		}
	}
	sites := []string{}
	for k := range set {
		sites = append(sites, k)
	}
	sort.Strings(sites)
	g.def("sliceSites", "List String", strList(sites), "every index / slice expression of the package in canonical form ($cmd / $arg: the handler's parameters, $p: a parameter, $pv / $v: a re-assigned parameter / local, locals replaced by their definitions, helpers looked through)")

	// ---- manager.Deliver
	mf := parse("pkg/message/manager.go")
	dl := fn(mf, "StoreManager", "Deliver")
	deliverFacts := []string{}
	if dl != nil {
		// structure, not spelling: which calls occur, and which strings are built (format + arguments form: fmt.Sprintf
		// and concatenation are the same string; local variable names may change freely)
		calls := map[string]bool{}
		fmts := map[string]bool{}
		de := k1NewEnv(&k1Pkg{named: map[string][]*ast.FuncDecl{}}, dl)
		ast.Inspect(dl.Body, func(x ast.Node) bool {
			if e, ok := x.(*ast.CallExpr); ok {
				f := smtpSrcNoArgs(e.Fun)
				for _, suffix := range []string{"enmime.DecodeHeaders", ".BeforeMessageStored.Emit", ".ShouldStore", ".Store.AddMessage", ".AfterMessageStored.Emit", "io.MultiReader"} {
					if strings.HasSuffix(f, suffix) || f == suffix {
						calls[suffix] = true
					}
				}
				if k1QualCall(e, "strings", "NewReader") && len(e.Args) == 1 {
					if fm, _, _, ok := dotSprintf(de, e.Args[0]); ok {
						fmts[*fm] = true
					}
				}
			}
			return true
		})
		for _, k := range []string{"enmime.DecodeHeaders", ".BeforeMessageStored.Emit", ".ShouldStore", ".Store.AddMessage", ".AfterMessageStored.Emit", "io.MultiReader"} {
			if calls[k] {
				deliverFacts = append(deliverFacts, "call "+k)
			}
		}
		for _, k := range []string{"%s  for <%s>; %s\r\n", "Return-Path: <%s>\r\n"} {
			if fmts[k] {
				deliverFacts = append(deliverFacts, "format "+k)
			}
		}
	}
	g.def("deliverShape", "List String", strList(deliverFacts), "statements of StoreManager.Deliver the model relies on (present ones): the calls, and the formats of the strings its readers are made of")
}

// smtpReach: the functions reachable from fd through the package's own calls.
func smtpReach(p *k1Pkg, fd *ast.FuncDecl, seen map[*ast.FuncDecl]bool) {
	if fd == nil || seen[fd] {
		return
	}
	seen[fd] = true
	for _, ce := range k1Calls(fd.Body) {
		if c := p.resolve(ce); c != nil {
			smtpReach(p, c, seen)
		}
	}
}
