package main

// T1 facts about pkg/server/smtp for the SMTP session model (Ibx/Model/Smtp.lean).
//
// Every fact is found through the STRUCTURE of the package (k1kit.go), never through the name of a local variable,
// of a parameter, of a receiver or of an unexported helper, and never through a log / reply / error text:
//   * the command loop is the function holding `switch <session>.<state> { case GREET: <session>.h(cmd, arg) … }`;
//     the handlers of GREET / READY / MAIL are whatever that switch calls, the DATA handler is what the loop calls
//     under `<session>.<state> == DATA`;
//   * the reply helper is the unexported method that calls PrintfLine, the state helper the one that assigns its
//     parameter to the state field, the reset helper the one the any-state RSET clause calls;
//   * a command table is a switch whose tag is the command word and whose labels are string literals, wherever a
//     helper boundary happens to be (the AUTH sub-table is the string switch under the READY handler's AUTH clause);
//   * expressions are rendered canonically ($r receiver, $s session, $cmd / $arg the handler's parameters, $p a
//     parameter, locals replaced by their definitions, helpers by what they return).

import (
	"go/ast"
	"go/token"
	"regexp"
	"sort"
	"strconv"
	"strings"
)

func init() { extractors = append(extractors, extractSmtp) }

func smtpSrcNoArgs(n ast.Node) string { return src(n) }

// smtpRoles: the helpers of the package by what they do.
type smtpRoles struct {
	pkg      *k1Pkg
	d        *k1Dispatch
	send     *ast.FuncDecl // writes a reply line
	setState *ast.FuncDecl // assigns its parameter to the state field
	reset    *ast.FuncDecl // called by the any-state RSET clause
	data     *ast.FuncDecl // called by the loop while the state is DATA
	parse    *ast.FuncDecl // produces (cmd, arg, ok) from the line
	anyState *k1Switch
	from     string // session field handed to Deliver as the sender
	rcpts    string // session field handed to Deliver as the recipient list
}

// smtpDirectCall: fd's own body (function literals excluded) calls <x>.name(..).
func smtpDirectCall(fd *ast.FuncDecl, name string) bool {
	for _, ce := range k1Calls(fd.Body) {
		if k1SelCall(ce, name) {
			return true
		}
	}
	return false
}

func smtpFindRoles(p *k1Pkg) *smtpRoles {
	r := &smtpRoles{pkg: p, d: k1FindDispatch(p)}
	for _, fd := range p.funcs {
		if fd.Recv == nil || k1Exported(fd.Name.Name) {
			continue
		}
		if smtpDirectCall(fd, "PrintfLine") && r.send == nil {
			r.send = fd
		}
	}
	if r.d == nil {
		return r
	}
	// the state helper: `recv.<stateField> = <parameter>`
	for _, fd := range p.funcs {
		if fd.Recv == nil || k1Exported(fd.Name.Name) || fd.Type.Params == nil || len(fd.Type.Params.List) != 1 {
			continue
		}
		e := k1NewEnv(p, fd)
		ast.Inspect(fd.Body, func(n ast.Node) bool {
			as, ok := n.(*ast.AssignStmt)
			if !ok || as.Tok != token.ASSIGN || len(as.Lhs) != 1 || len(as.Rhs) != 1 {
				return true
			}
			if e.canon(as.Lhs[0]) == "$r."+r.d.stateField && e.canon(as.Rhs[0]) == "$p" {
				r.setState = fd
			}
			return true
		})
	}
	// the DATA handler: `if <session>.<state> == DATA { <session>.h() … }` inside the loop
	ast.Inspect(r.d.fn.Body, func(n ast.Node) bool {
		is, ok := n.(*ast.IfStmt)
		if !ok || r.d.env.canon(is.Cond) != "$s."+r.d.stateField+" == DATA" {
			return true
		}
		for _, ce := range k1Calls(is.Body) {
			if fd := p.resolve(ce); fd != nil && fd != r.send && r.data == nil {
				r.data = fd
			}
		}
		return true
	})
	// the any-state table: the string switch on $cmd of the loop that is not reached through the state dispatch
	r.d.env.skip = map[ast.Node]bool{r.d.sw: true}
	var any []k1Switch
	for _, s := range r.d.env.strSwitches([]ast.Node{r.d.fn.Body}, 1) {
		if s.env.canon(s.sw.Tag) == "$cmd" {
			any = append(any, s)
		}
	}
	if len(any) == 1 {
		r.anyState = &any[0]
		if cc := r.anyState.clause("RSET"); cc != nil {
			var hs []*ast.FuncDecl
			for _, st := range cc.Body {
				for _, ce := range k1Calls(st) {
					if fd := p.resolve(ce); fd != nil && fd != r.send && fd != r.setState {
						hs = append(hs, fd)
					}
				}
			}
			if len(hs) == 1 {
				r.reset = hs[0]
			}
		}
	}
	// the parser: cmd is result 0 of a helper call
	if ds := r.d.env.defs[r.d.cmd]; len(ds) == 1 && ds[0].rhs != nil {
		if ce, ok := k1Unparen(ds[0].rhs).(*ast.CallExpr); ok && ds[0].idx == 0 {
			r.parse = p.resolve(ce)
		}
	}
	// the envelope fields: what the DATA handler hands to Deliver
	if r.data != nil {
		e := k1NewEnv(p, r.data)
		for _, ce := range k1Calls(r.data.Body) {
			if k1SelCall(ce, "Deliver") && len(ce.Args) == 4 {
				a0, a1 := e.canon(ce.Args[0]), e.canon(ce.Args[1])
				if strings.HasPrefix(a0, "$r.") && strings.HasPrefix(a1, "$r.") {
					r.from, r.rcpts = a0[3:], a1[3:]
				}
			}
		}
	}
	return r
}

// smtpReplyCode: "250" / "250-" from the first string literal inside the reply expression, "*" when the code is
// computed (an extension's own reply).
func smtpReplyCode(e *k1Env, x ast.Expr) string {
	code := "*"
	found := false
	var look func(n ast.Node)
	look = func(n ast.Node) {
		ast.Inspect(n, func(y ast.Node) bool {
			if found {
				return false
			}
			switch v := y.(type) {
			case *ast.BasicLit:
				if s, ok := k1Str(v); ok {
					found = true
					if len(s) >= 3 && s[0] >= '0' && s[0] <= '9' && s[1] >= '0' && s[1] <= '9' && s[2] >= '0' && s[2] <= '9' {
						code = s[:3]
						if len(s) > 3 && s[3] == '-' {
							code += "-"
						}
					}
				}
			case *ast.Ident:
				if d := e.deref(v); d != ast.Expr(v) {
					look(d)
				}
			}
			return true
		})
	}
	look(x)
	return code
}

var smtpSeen = map[string]bool{"Deliver": true, "ReadDotBytes": true, "ReadLine": true, "NewRecipient": true, "ParseOrigin": true,
	"ShouldAccept": true, "Emit": true}

func (r *smtpRoles) walker() *k1Walker {
	w := &k1Walker{}
	w.classify = func(e *k1Env, ce *ast.CallExpr) (string, bool) {
		fd := r.pkg.resolve(ce)
		switch {
		case fd != nil && fd == r.send:
			if len(ce.Args) == 1 {
				return "send:" + smtpReplyCode(e, ce.Args[0]), false
			}
			return "send:?", false
		case fd != nil && fd == r.setState:
			if len(ce.Args) == 1 {
				return "state:" + e.canon(ce.Args[0]), false
			}
			return "state:?", false
		case fd != nil && fd == r.reset:
			return "reset", false
		case fd != nil:
			return "", true
		}
		if sel, ok := ce.Fun.(*ast.SelectorExpr); ok && smtpSeen[sel.Sel.Name] {
			if sel.Sel.Name == "Emit" {
				if in, ok := sel.X.(*ast.SelectorExpr); ok {
					return "emit:" + in.Sel.Name, false
				}
			}
			return "call:" + sel.Sel.Name, false
		}
		return "", false
	}
	w.assign = func(e *k1Env, lhs, rhs ast.Expr) string {
		l := e.canon(lhs)
		for _, pre := range []string{"$r.", "$s."} {
			if strings.HasPrefix(l, pre) {
				f := l[len(pre):]
				switch {
				case r.d != nil && f == r.d.stateField:
					return "state:" + e.canon(rhs)
				case f == r.from && f != "":
					return "set:from=" + r.short(e, rhs)
				case f == r.rcpts && f != "":
					return "set:rcpts=" + r.short(e, rhs)
				}
			}
		}
		return ""
	}
	return w
}

// short: canonical form with the envelope fields named by role
func (r *smtpRoles) short(e *k1Env, x ast.Expr) string {
	s := e.canon(x)
	if r.rcpts != "" {
		s = strings.ReplaceAll(s, "$r."+r.rcpts, "$rcpts")
	}
	if r.from != "" {
		s = strings.ReplaceAll(s, "$r."+r.from, "$from")
	}
	return s
}

func (r *smtpRoles) elide(e *k1Env) {
	e.elide = func(ce *ast.CallExpr) (string, bool) {
		if sel, ok := ce.Fun.(*ast.SelectorExpr); ok && smtpSeen[sel.Sel.Name] && r.pkg.resolve(ce) == nil {
			if sel.Sel.Name == "Emit" {
				if in, ok := sel.X.(*ast.SelectorExpr); ok {
					return in.Sel.Name + ".Emit(..)", true
				}
			}
			return sel.Sel.Name + "(..)", true
		}
		return "", false
	}
}

func (r *smtpRoles) roleNames(paths []string) []string {
	out := []string{}
	for _, s := range paths {
		if r.rcpts != "" {
			s = strings.ReplaceAll(s, "$r."+r.rcpts, "$rcpts")
		}
		if r.from != "" {
			s = strings.ReplaceAll(s, "$r."+r.from, "$from")
		}
		if r.d != nil {
			s = strings.ReplaceAll(s, "$r."+r.d.stateField, "$state")
		}
		out = append(out, s)
	}
	return out
}

var smtpLimitRe = regexp.MustCompile(`\[len\(\$rcpts\) (\S+) \$r\.config\.MaxRecipients\]`)
var smtpArgMinRe = regexp.MustCompile(`len\(\$arg\) (\S+) (\d+)\b`)

func extractSmtp() {
	defer k1Recover("extractSmtp")
	g := gen("Smtp")
	p := k1LoadPkg("pkg/server/smtp")
	r := smtpFindRoles(p)

	// ---- the command tables
	keys, vals, ok := p.boolMapKeys()
	cmds := []string{}
	if ok {
		for i, k := range keys {
			if vals[i] == "true" {
				cmds = append(cmds, k)
			}
		}
	}
	g.def("commands", "List String", strList(cmds), "keys (value true) of the package's command set (its one package-level map[string]bool literal), in source order")
	states := []string{}
	if r.d != nil {
		states = r.d.states
	}
	g.def("dispatchStates", "List String", strList(states), "the states the command loop dispatches to a handler(cmd, arg), in source order")
	none := [][]string{}
	anyCases := none
	if r.anyState != nil {
		anyCases = r.anyState.labels
	}
	g.def("anyStateCases", "List (List String)", k1ListOfLists(anyCases), "case labels of the any-state command switch of the command loop (the string switch on the command word outside the state dispatch)")
	table := func(state string) (*k1Switch, [][]string) {
		if r.d == nil || r.d.handlers[state] == nil {
			return nil, none
		}
		s := k1TopSwitch(r.d.handlerEnv(p, state), r.d.handlers[state].Body)
		if s == nil {
			return nil, none
		}
		ls := s.labels
		if h := r.d.handlers[state]; s.clause("<default>") == nil && s.env.level == 0 && len(h.Body.List) > 0 && h.Body.List[len(h.Body.List)-1] != ast.Stmt(s.sw) {
			// statements behind a table without default clause: the default written differently
			ls = append(append([][]string{}, ls...), []string{"<default>"})
		}
		return s, ls
	}
	_, gc := table("GREET")
	rs, rc := table("READY")
	ms, mc := table("MAIL")
	g.def("greetCases", "List (List String)", k1ListOfLists(gc), "command table of the GREET handler")
	g.def("readyCases", "List (List String)", k1ListOfLists(rc), "command table of the READY handler")
	g.def("mailCases", "List (List String)", k1ListOfLists(mc), "command table of the MAIL handler")
	ac := none
	authTag := ""
	if rs != nil {
		if cc := rs.clause("AUTH"); cc != nil {
			if in := rs.env.strSwitches(k1ClauseNodes(cc), 2); len(in) == 1 {
				ac = in[0].labels
				authTag = in[0].env.canon(in[0].sw.Tag)
			}
		}
	}
	g.def("authCases", "List (List String)", k1ListOfLists(ac), "the string switch under the AUTH clause of the READY table (through helpers)")
	g.def("authTag", "String", leanStr(authTag), "what that switch looks at")

	// ---- the transition table: every clause of every command table as its exits
	trans := []string{}
	addTable := func(state string, sw *k1Switch) {
		if sw == nil {
			trans = append(trans, "("+leanStr(state)+", \"?\", [])")
			return
		}
		// what the handler does behind its table (the MAIL handler answers 503 there); nothing = leaving a clause is returning
		after := []string{"end"}
		if h := sw.env.fd; h != nil && sw.env.level == 0 && state != "*" {
			e := sw.env
			var rest []ast.Stmt
			for _, st := range h.Body.List {
				if st != ast.Stmt(sw.sw) {
					rest = append(rest, st)
				}
			}
			after = r.roleNames(k1PathStrings(r.walker().block(e, rest)))
		}
		plain := len(after) == 1 && after[0] == "end"
		for i, cc := range sw.clauses {
			e := sw.env
			r.elide(e)
			ps := r.roleNames(k1PathStrings(r.walker().block(e, cc.Body)))
			e.elide = nil
			if plain && state != "*" {
				ps = k1AsReturn(ps)
			}
			trans = append(trans, "("+leanStr(state)+", "+leanStr(strings.Join(sw.labels[i], ","))+", "+strList(ps)+")")
		}
		if !plain {
			// code behind a table whose clauses all return is the table's default clause written differently
			label := "<after>"
			if sw.clause("<default>") == nil {
				label = "<default>"
			}
			trans = append(trans, "("+leanStr(state)+", "+leanStr(label)+", "+strList(k1AsReturn(after))+")")
		}
	}
	addTable("*", r.anyState)
	gs, _ := table("GREET")
	addTable("GREET", gs)
	addTable("READY", rs)
	addTable("MAIL", ms)
	g.def("transitions", "List (String × String × List String)", "[\n  "+strings.Join(trans, ",\n  ")+"]",
		"(state, clause labels, exits) for every clause of the any-state table (*) and of the GREET / READY / MAIL tables, and for what a handler does outside its table (<after>); exits in the notation of dataPaths")

	// ---- reset()
	resetFact := "unknown"
	if r.reset != nil && r.d != nil && r.from != "" && r.rcpts != "" {
		e := k1NewEnv(p, r.reset)
		ps := r.roleNames(k1PathStrings(r.walker().block(e, r.reset.Body.List)))
		if len(ps) == 1 {
			ev := strings.Split(ps[0], "; ")
			sort.Strings(ev)
			switch strings.Join(ev, "; ") {
			case "?[$state != GREET]state:READY; end; set:from=nil; set:rcpts=nil":
				resetFact = "keepsGreet"
			case "end; set:from=nil; set:rcpts=nil; state:READY":
				resetFact = "promotesToReady"
			}
		}
	}
	g.def("resetFromGreet", "String", leanStr(resetFact), "what the reset helper (the one the any-state RSET clause calls) does: keepsGreet = clears sender and recipients and enters READY unless the state is GREET | promotesToReady = clears them and enters READY | unknown")

	// ---- the DATA handler: its exits
	dataPaths := []string{}
	if r.data != nil {
		e := k1NewEnv(p, r.data)
		r.elide(e)
		dataPaths = r.roleNames(k1AsReturn(k1PathStrings(r.walker().block(e, r.data.Body.List))))
	}
	g.def("dataPaths", "List String", strList(dataPaths), "the exits of the DATA handler: replies (send:code), helper and library calls of interest, state changes, in execution order; [c] = the guard of an exit, ?[c]e = e happens under c and execution goes on")
	sizeFact := "none"
	nReset := 0
	for _, s := range dataPaths {
		if strings.HasSuffix(s, "; reset; return") {
			nReset++
		}
		if i := strings.Index(s, "[len(ReadDotBytes(..)#0) "); i >= 0 {
			if strings.HasSuffix(s, "call:ReadDotBytes; [len(ReadDotBytes(..)#0) > $r.config.MaxMessageBytes]; send:552; reset; return") {
				sizeFact = "afterRead"
			} else {
				sizeFact = "unknown"
			}
		}
	}
	if r.data == nil {
		sizeFact = "unknown"
	}
	g.def("dataSizeCheck", "String", leanStr(sizeFact), "the DATA handler refuses (552, reset, return) a block longer than MaxMessageBytes right after reading it: afterRead | none | unknown")
	g.def("dataHandlerResets", "Nat", strconv.Itoa(nReset), "number of exits of the DATA handler that end with the reset helper (552, 451, 250)")

	// ---- RCPT
	rcptPaths := []string{}
	op, lim := "?", "?"
	var rcptClause *ast.CaseClause
	if ms != nil {
		rcptClause = ms.clause("RCPT")
	}
	if rcptClause != nil {
		e := ms.env
		r.elide(e)
		rcptPaths = r.roleNames(k1PathStrings(r.walker().block(e, rcptClause.Body)))
		e.elide = nil
		// the two comparisons the model's RCPT step rests on, read off the guards of the exits
		n := 0
		for _, ps := range rcptPaths {
			for _, m := range smtpLimitRe.FindAllStringSubmatch(ps, -1) {
				op, lim = m[1], "MaxRecipients"
				n++
			}
		}
		if n != 1 {
			op, lim = "?", "?"
		}
	}
	g.def("rcptPaths", "List String", strList(rcptPaths), "the exits of the RCPT clause of the MAIL table (same notation as dataPaths)")
	g.def("rcptLimitTest", "String × String", "("+leanStr(op)+", "+leanStr(lim)+")", "the recipient limit comparison `len(<recipients>) <op> <config>.MaxRecipients`")
	smtpCmp := func(name string, e *k1Env, nodes []ast.Node, lhs, wantOp, comment string) {
		var ops []string
		var vs []int
		for _, n := range nodes {
			if n == nil {
				continue
			}
			ast.Inspect(n, func(x ast.Node) bool {
				be, ok := x.(*ast.BinaryExpr)
				if !ok {
					return true
				}
				if lit, ok := k1Unparen(be.Y).(*ast.BasicLit); ok && lit.Kind == token.INT && e.canon(be.X) == lhs && (wantOp == "" || wantOp == be.Op.String()) {
					if v, err := strconv.Atoi(lit.Value); err == nil {
						ops = append(ops, be.Op.String())
						vs = append(vs, v)
					}
				}
				return true
			})
		}
		val := "none"
		if len(ops) == 1 {
			val = "some (" + leanStr(ops[0]) + ", " + strconv.Itoa(vs[0]) + ")"
		}
		g.def(name, "Option (String × Nat)", val, comment)
	}
	{
		val := "none"
		var ms [][]string
		for _, ps := range rcptPaths {
			ms = append(ms, smtpArgMinRe.FindAllStringSubmatch(ps, -1)...)
		}
		if len(ms) == 1 {
			val = "some (" + leanStr(ms[0][1]) + ", " + ms[0][2] + ")"
		}
		g.def("rcptArgMin", "Option (String × Nat)", val, "minimum RCPT argument length test guarding $arg[0:3] (the only comparison of len($arg) with a literal among the guards of rcptPaths)")
	}
	if r.parse != nil {
		// the length of the command word: the variable that holds strings.IndexByte(line, ' ') (or len(line))
		e := k1NewEnv(p, r.parse)
		for o, ds := range e.defs {
			for _, d := range ds {
				if ce, ok := d.rhs.(*ast.CallExpr); ok && k1QualCall(ce, "strings", "IndexByte") {
					e.override[o] = "$wordLen"
				}
			}
		}
		smtpCmp("cmdMinLen", e, []ast.Node{r.parse.Body}, "$wordLen", "<", "the command parser: a command word shorter than this is garbled")
	} else {
		g.def("cmdMinLen", "Option (String × Nat)", "none", "command parser not found")
	}

	// ---- regular expressions
	var fromRe, argsRe *string
	for _, f := range p.files {
		ast.Inspect(f, func(x ast.Node) bool {
			ce, ok := x.(*ast.CallExpr)
			if !ok || !k1QualCall(ce, "regexp", "MustCompile") || len(ce.Args) != 1 {
				return true
			}
			if s, ok := k1Str(ce.Args[0]); ok {
				s := s
				if strings.Contains(s, "FROM:") {
					fromRe = &s
				} else {
					argsRe = &s
				}
			}
			return true
		})
	}
	g.def("fromRegex", "Option String", optStr(fromRe), "source text of the MAIL FROM expression")
	g.def("argsRegex", "Option String", optStr(argsRe), "source text of the ESMTP parameter expression")

	// ---- index / slice expressions
	set := map[string]bool{}
	reached := map[*ast.FuncDecl]bool{}
	if r.d != nil {
		r.d.env.skip = nil
		// the loop itself, then each handler with ($cmd, $arg)
		visiting := map[*ast.FuncDecl]int{}
		for _, st := range r.d.states {
			visiting[r.d.handlers[st]]++ // entered below with their own parameter names
		}
		r.d.env.sites(r.d.fn.Body, set, visiting)
		for _, st := range r.d.states {
			visiting[r.d.handlers[st]]--
			if e := r.d.handlerEnv(p, st); e != nil {
				e.sites(r.d.handlers[st].Body, set, visiting)
			}
			visiting[r.d.handlers[st]]++
		}
		smtpReach(p, r.d.fn, reached)
	}
	// functions of the same file the loop never reaches (constructors, String methods): standalone
	for _, fd := range p.funcs {
		if !reached[fd] && r.d != nil && fset.File(fd.Pos()) == fset.File(r.d.fn.Pos()) {
			vis := map[*ast.FuncDecl]int{fd: 1}
			for c := range reached {
				vis[c] = 1
			}
			k1NewEnv(p, fd).sites(fd.Body, set, vis)
		}
	}
	sites := []string{}
	for k := range set {
		sites = append(sites, k)
	}
	sort.Strings(sites)
	g.def("sliceSites", "List String", strList(sites), "every index / slice expression of the package in canonical form ($cmd / $arg: the handler's parameters, $p: a parameter, $pv / $v: a re-assigned parameter / local, locals replaced by their definitions, helpers looked through)")

	// ---- manager.Deliver
	mf := parse("pkg/message/manager.go")
	dl := fn(mf, "StoreManager", "Deliver")
	deliverFacts := []string{}
	if dl != nil {
		// structure, not spelling: which calls and which format literals occur (local variable names may change freely)
		calls := map[string]bool{}
		lits := map[string]bool{}
		ast.Inspect(dl.Body, func(x ast.Node) bool {
			switch e := x.(type) {
			case *ast.CallExpr:
				f := smtpSrcNoArgs(e.Fun)
				for _, suffix := range []string{"enmime.DecodeHeaders", ".BeforeMessageStored.Emit", ".ShouldStore", ".Store.AddMessage", ".AfterMessageStored.Emit", "io.MultiReader", "fmt.Sprintf"} {
					if strings.HasSuffix(f, suffix) || f == suffix {
						calls[suffix] = true
					}
				}
			case *ast.BasicLit:
				if e.Kind == token.STRING {
					if v, err := strconv.Unquote(e.Value); err == nil {
						lits[v] = true
					}
				}
			}
			return true
		})
		for _, k := range []string{"enmime.DecodeHeaders", ".BeforeMessageStored.Emit", ".ShouldStore", ".Store.AddMessage", ".AfterMessageStored.Emit", "io.MultiReader"} {
			if calls[k] {
				deliverFacts = append(deliverFacts, "call "+k)
			}
		}
		for _, k := range []string{"%s  for <%s>; %s\r\n", "Return-Path: <%s>\r\n"} {
			if lits[k] {
				deliverFacts = append(deliverFacts, "format "+k)
			}
		}
	}
	g.def("deliverShape", "List String", strList(deliverFacts), "statements of StoreManager.Deliver the model relies on (present ones)")
}

// smtpReach: the functions reachable from fd through the package's own calls.
func smtpReach(p *k1Pkg, fd *ast.FuncDecl, seen map[*ast.FuncDecl]bool) {
	if fd == nil || seen[fd] {
		return
	}
	seen[fd] = true
	for _, ce := range k1Calls(fd.Body) {
		if c := p.resolve(ce); c != nil {
			smtpReach(p, c, seen)
		}
	}
}
