package main

// T1 facts about pkg/server/smtp/handler.go for the SMTP session model (Ibx/Model/Smtp.lean).

import (
	"go/ast"
	"go/token"
	"sort"
	"strconv"
	"strings"
)

func init() { extractors = append(extractors, extractSmtp) }

// smtpCaseLabels: the string labels of every `case` of the switch statements on `tag` inside n, in source order.
func smtpCaseLabels(n ast.Node, tag string) [][]string {
	var res [][]string
	if n == nil || isNilNode(n) {
		return res
	}
	ast.Inspect(n, func(x ast.Node) bool {
		sw, ok := x.(*ast.SwitchStmt)
		if !ok || sw.Tag == nil || src(sw.Tag) != tag {
			return true
		}
		for _, st := range sw.Body.List {
			cc := st.(*ast.CaseClause)
			var labels []string
			for _, e := range cc.List {
				if lit, ok := e.(*ast.BasicLit); ok && lit.Kind == token.STRING {
					s, _ := strconv.Unquote(lit.Value)
					labels = append(labels, s)
				} else {
					labels = append(labels, "?"+src(e))
				}
			}
			if cc.List == nil {
				labels = []string{"<default>"}
			}
			res = append(res, labels)
		}
		return true
	})
	return res
}

func smtpListOfLists(l [][]string) string {
	p := []string{}
	for _, x := range l {
		p = append(p, strList(x))
	}
	return "[" + strings.Join(p, ", ") + "]"
}

// smtpSliceExprs: every index / slice expression inside n as source text, sorted and de-duplicated.
func smtpSliceExprs(n ast.Node) []string {
	set := map[string]bool{}
	if n == nil || isNilNode(n) {
		return nil
	}
	ast.Inspect(n, func(x ast.Node) bool {
		switch e := x.(type) {
		case *ast.SliceExpr:
			set[src(e)] = true
		case *ast.IndexExpr:
			set[src(e)] = true
		}
		return true
	})
	res := []string{}
	for k := range set {
		res = append(res, k)
	}
	sort.Strings(res)
	return res
}

func smtpContainsCall(n ast.Node, fun string) bool {
	found := false
	if n == nil || isNilNode(n) {
		return false
	}
	ast.Inspect(n, func(x ast.Node) bool {
		if ce, ok := x.(*ast.CallExpr); ok && src(ce.Fun) == fun {
			found = true
		}
		return true
	})
	return found
}

func smtpSrcNoArgs(n ast.Node) string { return src(n) }

func extractSmtp() {
	g := gen("Smtp")
	f := parse("pkg/server/smtp/handler.go")
	// the `commands` map keys
	var cmds []string
	if f != nil {
		for _, d := range f.Decls {
			gd, ok := d.(*ast.GenDecl)
			if !ok {
				continue
			}
			for _, sp := range gd.Specs {
				vs, ok := sp.(*ast.ValueSpec)
				if !ok || len(vs.Names) != 1 || vs.Names[0].Name != "commands" || len(vs.Values) != 1 {
					continue
				}
				if cl, ok := vs.Values[0].(*ast.CompositeLit); ok {
					for _, e := range cl.Elts {
						if kv, ok := e.(*ast.KeyValueExpr); ok {
							if lit, ok := kv.Key.(*ast.BasicLit); ok && src(kv.Value) == "true" {
								s, _ := strconv.Unquote(lit.Value)
								cmds = append(cmds, s)
							}
						}
					}
				}
			}
		}
	}
	g.def("commands", "List String", strList(cmds), "keys of the `commands` map (value true), in source order")
	ss := fn(f, "Server", "startSession")
	g.def("anyStateCases", "List (List String)", smtpListOfLists(smtpCaseLabels(ss, "cmd")), "case labels of the any-state `switch cmd` in startSession")
	g.def("greetCases", "List (List String)", smtpListOfLists(smtpCaseLabels(fn(f, "Session", "greetHandler"), "cmd")), "")
	g.def("readyCases", "List (List String)", smtpListOfLists(smtpCaseLabels(fn(f, "Session", "readyHandler"), "cmd")), "")
	g.def("mailCases", "List (List String)", smtpListOfLists(smtpCaseLabels(fn(f, "Session", "mailHandler"), "cmd")), "")
	g.def("authCases", "List (List String)", smtpListOfLists(smtpCaseLabels(fn(f, "Session", "readyHandler"), "authMethod")), "")
	// reset(): does it keep GREET?
	rs := fn(f, "Session", "reset")
	resetFact := "unknown"
	if rs != nil && rs.Body != nil && len(rs.Body.List) > 0 {
		switch first := rs.Body.List[0].(type) {
		case *ast.IfStmt:
			if src(first.Cond) == "s.state != GREET" && first.Else == nil && len(first.Body.List) == 1 && src(first.Body.List[0]) == "s.enterState(READY)" {
				resetFact = "keepsGreet"
			}
		case *ast.ExprStmt:
			if src(first) == "s.enterState(READY)" {
				resetFact = "promotesToReady"
			}
		}
		// the rest must clear the envelope
		body := src(rs.Body)
		if !strings.Contains(body, "s.from = nil") || !strings.Contains(body, "s.recipients = nil") {
			resetFact = "unknown"
		}
	}
	g.def("resetFromGreet", "String", leanStr(resetFact), "shape of Session.reset(): keepsGreet | promotesToReady | unknown")
	// dataHandler: size check after the block has been read, and reset() on every exit after a successful read
	dh := fn(f, "Session", "dataHandler")
	sizeFact := "none"
	if dh != nil {
		op, v := "", ""
		ast.Inspect(dh, func(x ast.Node) bool {
			if is, ok := x.(*ast.IfStmt); ok {
				if be, ok := is.Cond.(*ast.BinaryExpr); ok && src(be.X) == "len(msgBuf)" {
					op, v = be.Op.String(), src(be.Y)
					body := src(is.Body)
					if op == ">" && v == "s.config.MaxMessageBytes" && strings.Contains(body, `s.send("552`) && strings.Contains(body, "s.reset()") && strings.Contains(body, "return") {
						sizeFact = "afterRead"
					} else {
						sizeFact = "unknown"
					}
				}
			}
			return true
		})
	} else {
		sizeFact = "unknown"
	}
	g.def("dataSizeCheck", "String", leanStr(sizeFact), "dataHandler enforces MaxMessageBytes after reading the block: afterRead | none | unknown")
	nReset := 0
	if dh != nil {
		ast.Inspect(dh, func(x ast.Node) bool {
			if ce, ok := x.(*ast.CallExpr); ok && src(ce.Fun) == "s.reset" {
				nReset++
			}
			return true
		})
	}
	g.def("dataHandlerResets", "Nat", strconv.Itoa(nReset), "number of s.reset() calls in dataHandler (one per exit after a successful read: 552, 451, 250)")
	mh := fn(f, "Session", "mailHandler")
	op, lim := "?", "?"
	if mh != nil {
		ast.Inspect(mh, func(x ast.Node) bool {
			if be, ok := x.(*ast.BinaryExpr); ok && src(be.X) == "len(s.recipients)" && src(be.Y) == "s.config.MaxRecipients" {
				op, lim = be.Op.String(), src(be.Y)
			}
			return true
		})
	}
	g.def("rcptLimitTest", "String × String", "("+leanStr(op)+", "+leanStr(lim)+")", "the recipient limit comparison `len(s.recipients) <op> s.config.MaxRecipients`")
	cmpDef(g, "rcptArgMin", mh, "len(arg)", "<", "minimum RCPT argument length test guarding arg[0:3]")
	cmpDef(g, "cmdMinLen", fn(f, "Session", "parseCmd"), "l", "<", "parseCmd: commands shorter than this are garbled")
	// regular expressions
	var fromRe, argsRe *string
	if f != nil {
		ast.Inspect(f, func(x ast.Node) bool {
			ce, ok := x.(*ast.CallExpr)
			if !ok || src(ce.Fun) != "regexp.MustCompile" || len(ce.Args) != 1 {
				return true
			}
			if lit, ok := ce.Args[0].(*ast.BasicLit); ok && lit.Kind == token.STRING {
				s, err := strconv.Unquote(lit.Value)
				if err == nil {
					if strings.Contains(s, "FROM:") {
						fromRe = &s
					} else {
						argsRe = &s
					}
				}
			}
			return true
		})
	}
	g.def("fromRegex", "Option String", optStr(fromRe), "source text of fromRegex")
	g.def("argsRegex", "Option String", optStr(argsRe), "source text of the parseArgs expression")
	g.def("sliceSites", "List String", strList(smtpSliceExprs(f)), "every index / slice expression of handler.go")
	// manager.Deliver
	mf := parse("pkg/message/manager.go")
	dl := fn(mf, "StoreManager", "Deliver")
	deliverFacts := []string{}
	if dl != nil {
		// structure, not spelling: which calls and which format literals occur (local variable names may change freely)
		calls := map[string]bool{}
		lits := map[string]bool{}
		ast.Inspect(dl.Body, func(x ast.Node) bool {
			switch e := x.(type) {
			case *ast.CallExpr:
				f := smtpSrcNoArgs(e.Fun)
				for _, suffix := range []string{"enmime.DecodeHeaders", ".BeforeMessageStored.Emit", ".ShouldStore", ".Store.AddMessage", ".AfterMessageStored.Emit", "io.MultiReader", "fmt.Sprintf"} {
					if strings.HasSuffix(f, suffix) || f == suffix {
						calls[suffix] = true
					}
				}
			case *ast.BasicLit:
				if e.Kind == token.STRING {
					if v, err := strconv.Unquote(e.Value); err == nil {
						lits[v] = true
					}
				}
			}
			return true
		})
		for _, k := range []string{"enmime.DecodeHeaders", ".BeforeMessageStored.Emit", ".ShouldStore", ".Store.AddMessage", ".AfterMessageStored.Emit", "io.MultiReader"} {
			if calls[k] {
				deliverFacts = append(deliverFacts, "call "+k)
			}
		}
		for _, k := range []string{"%s  for <%s>; %s\r\n", "Return-Path: <%s>\r\n"} {
			if lits[k] {
				deliverFacts = append(deliverFacts, "format "+k)
			}
		}
	}
	g.def("deliverShape", "List String", strList(deliverFacts), "statements of StoreManager.Deliver the model relies on (present ones)")
}
