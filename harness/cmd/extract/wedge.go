package main

// T1 facts for "every store operation returns" (Ibx/Gen/Wedge.lean, pinned by Ibx/Tie/Wedge.lean; models
// Ibx/Model/CapLoop.lean and Ibx/Model/EmitLock.lean).  STRUCTURAL and fail-closed: functions are found by their ROLE
// (the mailbox method that the exported RemoveMessage calls; the loop whose condition measures the field that method
// splices; the field initialised from MailboxMsgCap; the worker started by the file's only `go` statement), things are
// compared by identity of the declared object, exported / library names, operators and literals — never by the names of
// unexported functions, fields or locals.  Anything not recognised is "unknown" / false / a different list.
//
//   removeListEffect      what the mailbox's remove method R (the one method of another receiver type that the store's exported
//                         RemoveMessage calls) does to the in-memory list:
//        "shrinksAlways"      R assigns a receiver field F exactly once, by the splice `F = append(F[:i], F[i+1:]...)` with i the
//                             key of the enclosing `range F`; no other statement of R, and no same-package function reachable from
//                             a call that follows the splice, assigns that field;
//        "restoresOnFailure"  R (also) assigns F from a local that was bound to F earlier (`old := F … F = old`);
//        "unknown"            anything else.
//   removeMatchesByID     the splice is reached under the test `<parameter of R> == <range value>.ID()` (either order)
//   removeFallibleBeforeSplice   the calls of R that precede the splice and can fail (same-package callee with an `error` result):
//        "none" | "loadGuardOnly" (all of them inside one leading `if !<recv>.<bool field> { … return … }`) | "other"
//   capLoopCond           the `for` whose condition measures that field F:
//        "len(F)>=cap"        exactly one `for` in the package has a condition over len(<recv>.F); it has no init / post and its
//                             condition is `len(<recv>.F) >= <…>.<cap>` (or `<…>.<cap> <= len(<recv>.F)`), cap the field initialised
//                             from <cfg>.MailboxMsgCap; it stands inside `if <…>.<cap> > 0`
//   capLoopBody           "removeHead" = the body calls R exactly once, with `<recv>.F[0].ID()` (directly or through a local bound to
//                         it in the body), makes no other same-package call, assigns no receiver field, has no break / return /
//                         goto / continue — R's error, if tested, guards nothing but calls into other packages (logging)
//   capLoopLoadsFirst     the function of that loop starts with the same `if !<recv>.<bool field> { if err := <recv>.L(); err != nil
//                         { return … } }` guard as R, and L sets that field to true before each `return nil`
//   storeLoops            every `for` / `range` statement of pkg/storage/file and pkg/storage/mem (files named verif_* excluded), in
//                         source order, as "<pkg>.<receiver type or ->.<function>:<shape>", shape one of
//        range                    a range statement (over a slice, map, string or integer: as many rounds as elements)
//        len>=cap:removeHead      the cap loop above, with capLoopBody = removeHead
//        len>cap:cursor++         `for len(M) > c { … }` whose body increments a receiver-side cursor field unconditionally once per
//                                 round and contains a delete(M, …) — the memory store's cap loop (Gen.Conc.memCapEvict has the rest)
//        drainList                body: `e := L.Front()`, `if e == nil { break }`, `L.Remove(e)`, all unconditional
//        untilError               `for { … }` whose body assigns an error from a call at top level and leaves (break / return) on
//                                 every path where it is non-nil: as many rounds as the input has records
//        redraw                   the condition is a same-package predicate of one local, the body re-binds that local from calls
//        selectForever            `for { select { … } }` — a goroutine's service loop
//        counter:forever          a three-clause `for` whose condition is the literal true — a generator goroutine
//        unknown                  anything else
//   goroutineFuncs        the same-package functions started by a `go` statement in those packages
//   emitBlockingOps       operations that can block, reachable from AsyncEventBroker.Emit through same-file functions and outside
//                         function literals (a queued closure is not run by Emit), other than mutex Lock / RLock: calls named Wait /
//                         Sleep / After / Acquire, channel sends and receives, `select` without default, range over a channel expression
//   workerCallsOutsideQueueMutex   in the worker (callee of the file's only `go` statement) the dynamic call of the popped function
//                         stands between an Unlock() and a Lock() of the same mutex in one block

import (
	"go/ast"
	"go/token"
	"sort"
	"strings"
)

func init() { extractors = append(extractors, extractWedge) }

// ---------------------------------------------------------------------------------------------------------------- helpers

func wdIsVerifFile(f *ast.File) bool {
	name := fset.Position(f.Pos()).Filename
	if i := strings.LastIndex(name, "/"); i >= 0 {
		name = name[i+1:]
	}
	return strings.HasPrefix(name, "verif_")
}

// wdRecvField: e is `<recv>.<F>`; returns F.
func wdRecvField(e ast.Expr, recv *ast.Object) (string, bool) {
	b, f, ok := axSel(e)
	if !ok || !axIs(b, recv) {
		return "", false
	}
	return f, true
}

// wdIsSplice: rhs is append(<recv>.F[:i], <recv>.F[i+1:]...) for the object i.
func wdIsSplice(rhs ast.Expr, recv *ast.Object, field string, i *ast.Object) bool {
	ce, ok := axBuiltin(axUnparen(rhs), "append")
	if !ok || len(ce.Args) != 2 || !ce.Ellipsis.IsValid() {
		return false
	}
	lo, ok1 := axUnparen(ce.Args[0]).(*ast.SliceExpr)
	hi, ok2 := axUnparen(ce.Args[1]).(*ast.SliceExpr)
	if !ok1 || !ok2 {
		return false
	}
	if f, ok := wdRecvField(lo.X, recv); !ok || f != field {
		return false
	}
	if f, ok := wdRecvField(hi.X, recv); !ok || f != field {
		return false
	}
	// F[:i]  (a full slice expression F[:i:i] copies instead of shifting: not this shape)
	if lo.Low != nil || lo.Slice3 || !axIs(lo.High, i) {
		return false
	}
	// F[i+1:]
	if hi.High != nil || hi.Slice3 {
		return false
	}
	be, ok := axUnparen(hi.Low).(*ast.BinaryExpr)
	if !ok || be.Op != token.ADD {
		return false
	}
	one := func(e ast.Expr) bool { v := axIntValue(e); return v != nil && *v == 1 }
	return (axIs(be.X, i) && one(be.Y)) || (axIs(be.Y, i) && one(be.X))
}

// wdAssignsField: the assignments under n (function literals included) one of whose left sides is `<anything>.<field>` with the
// base bound to recv (recv nil: any base).
type wdAssign struct {
	as  *ast.AssignStmt
	idx int
}

func wdAssignsField(n ast.Node, recv *ast.Object, field string) []wdAssign {
	var res []wdAssign
	if n == nil || isNilNode(n) {
		return res
	}
	ast.Inspect(n, func(x ast.Node) bool {
		switch s := x.(type) {
		case *ast.AssignStmt:
			for i, l := range s.Lhs {
				b, f, ok := axSel(l)
				if ok && f == field && (recv == nil || axIs(b, recv)) {
					res = append(res, wdAssign{s, i})
				}
			}
		case *ast.IncDecStmt:
			b, f, ok := axSel(s.X)
			if ok && f == field && (recv == nil || axIs(b, recv)) {
				res = append(res, wdAssign{nil, 0})
			}
		}
		return true
	})
	return res
}

// wdHasErrorResult: fd declares a result of type `error`.
func wdHasErrorResult(fd *ast.FuncDecl) bool {
	if fd == nil || fd.Type.Results == nil {
		return false
	}
	for _, r := range fd.Type.Results.List {
		if id, ok := r.Type.(*ast.Ident); ok && id.Name == "error" && id.Obj == nil {
			return true
		}
	}
	return false
}

// wdReachAfter: the same-package functions reachable from the calls of fd positioned after pos.
func wdReachAfter(p *ccPkg, fd *ast.FuncDecl, pos token.Pos) []*ast.FuncDecl {
	seen := map[*ast.FuncDecl]bool{}
	var res []*ast.FuncDecl
	var work []*ast.FuncDecl
	ast.Inspect(fd.Body, func(x ast.Node) bool {
		if ce, ok := x.(*ast.CallExpr); ok && ce.Pos() > pos {
			if c := p.callee(ce, fd); c != nil {
				work = append(work, c)
			}
		}
		return true
	})
	for len(work) > 0 {
		c := work[0]
		work = work[1:]
		if c == nil || c.Body == nil || seen[c] {
			continue
		}
		seen[c] = true
		res = append(res, c)
		ast.Inspect(c.Body, func(x ast.Node) bool {
			if ce, ok := x.(*ast.CallExpr); ok {
				if d := p.callee(ce, c); d != nil {
					work = append(work, d)
				}
			}
			return true
		})
	}
	return res
}

// wdLoadGuard: s is `if !<recv>.<B> { … }` whose body is one `if err := <recv>.L(); err != nil { return … }` (or the two-statement
// form); returns B and L.
func wdLoadGuard(p *ccPkg, cur *ast.FuncDecl, s ast.Stmt, recv *ast.Object) (string, *ast.FuncDecl, bool) {
	is, ok := s.(*ast.IfStmt)
	if !ok || is.Init != nil || is.Else != nil {
		return "", nil, false
	}
	ue, ok := axUnparen(is.Cond).(*ast.UnaryExpr)
	if !ok || ue.Op != token.NOT {
		return "", nil, false
	}
	b, ok := wdRecvField(ue.X, recv)
	if !ok {
		return "", nil, false
	}
	var loader *ast.FuncDecl
	calls := 0
	ast.Inspect(is.Body, func(x ast.Node) bool {
		if ce, ok := x.(*ast.CallExpr); ok {
			if c := p.callee(ce, cur); c != nil {
				calls++
				loader = c
			}
		}
		return true
	})
	if calls != 1 || !wdHasErrorResult(loader) {
		return "", nil, false
	}
	// every path through the guard's body that saw an error returns
	rets := axCount(is.Body, func(x ast.Node) bool { _, ok := x.(*ast.ReturnStmt); return ok })
	if rets == 0 {
		return "", nil, false
	}
	return b, loader, true
}

// ---------------------------------------------------------------------------------------------------------------- the remove method

type wdRemove struct {
	fd      *ast.FuncDecl
	recv    *ast.Object
	field   string // the spliced field
	splice  *ast.AssignStmt
	effect  string
	byID    bool
	before  string
	guardB  string
	guardL  *ast.FuncDecl
}

func wdFindRemove(p *ccPkg) *wdRemove {
	r := &wdRemove{effect: "unknown", before: "other"}
	// the exported RemoveMessage of the store: its callees on another receiver type that return an error
	var exported *ast.FuncDecl
	for _, fd := range p.methods["RemoveMessage"] {
		if exported != nil {
			return r
		}
		exported = fd
	}
	if exported == nil || exported.Body == nil {
		return r
	}
	var cands []*ast.FuncDecl
	ast.Inspect(exported.Body, func(x ast.Node) bool {
		if ce, ok := x.(*ast.CallExpr); ok {
			if c := p.callee(ce, exported); c != nil && c.Recv != nil && ccRecvType(c) != ccRecvType(exported) && wdHasErrorResult(c) {
				cands = append(cands, c)
			}
		}
		return true
	})
	if len(cands) != 1 || cands[0].Body == nil {
		return r
	}
	fd := cands[0]
	recv := axRecvObj(fd)
	param := axParamObj(fd, 0)
	if recv == nil || param == nil {
		return r
	}
	r.fd, r.recv = fd, recv

	// all assignments to receiver fields in R
	type asg struct {
		field string
		as    *ast.AssignStmt
		idx   int
	}
	var asgs []asg
	otherWrites := false
	ast.Inspect(fd.Body, func(x ast.Node) bool {
		switch s := x.(type) {
		case *ast.AssignStmt:
			for i, l := range s.Lhs {
				if f, ok := wdRecvField(l, recv); ok {
					asgs = append(asgs, asg{f, s, i})
				}
			}
		case *ast.IncDecStmt:
			if _, ok := wdRecvField(s.X, recv); ok {
				otherWrites = true
			}
		}
		return true
	})
	// find the splice: inside `for i, _ := range <recv>.F`
	var spliceLoop *ast.RangeStmt
	ast.Inspect(fd.Body, func(x ast.Node) bool {
		rs, ok := x.(*ast.RangeStmt)
		if !ok {
			return true
		}
		f, ok := wdRecvField(rs.X, recv)
		if !ok || rs.Key == nil {
			return true
		}
		key := axObj(rs.Key)
		if key == nil {
			return true
		}
		for _, a := range asgs {
			if a.field == f && a.as.Tok == token.ASSIGN && len(a.as.Lhs) == len(a.as.Rhs) && ccWithin(a.as, rs.Body) &&
				wdIsSplice(a.as.Rhs[a.idx], recv, f, key) {
				if r.splice != nil && r.splice != a.as {
					r.splice = nil
					return false
				}
				r.splice, r.field, spliceLoop = a.as, f, rs
			}
		}
		return true
	})

	// find-then-act form: a position variable set in a loop over the whole list (`for k, v := range F` / `for k := 0; k < len(F); k++`) under the
	// id test, the splice `F = append(F[:pos], F[pos+1:]...)` after the loop.  `markIf` is then the `if` that sets the position.
	var markIf *ast.IfStmt
	var markLoopBody *ast.BlockStmt
	var markVal, markKey *ast.Object
	var markField string
	if r.splice == nil {
		for _, a := range asgs {
			if a.as.Tok != token.ASSIGN || len(a.as.Lhs) != len(a.as.Rhs) {
				continue
			}
			ce, ok := axBuiltin(axUnparen(a.as.Rhs[a.idx]), "append")
			if !ok || len(ce.Args) != 2 {
				continue
			}
			lo, ok := axUnparen(ce.Args[0]).(*ast.SliceExpr)
			if !ok || lo.High == nil {
				continue
			}
			pos := axObj(lo.High)
			if pos == nil || !wdIsSplice(a.as.Rhs[a.idx], recv, a.field, pos) {
				continue
			}
			// the one loop over F before the splice that assigns pos
			for _, st := range fd.Body.List {
				if st.Pos() >= a.as.Pos() {
					break
				}
				var body *ast.BlockStmt
				var key, val *ast.Object
				switch l := st.(type) {
				case *ast.RangeStmt:
					if f, ok := wdRecvField(l.X, recv); ok && f == a.field && l.Key != nil {
						body, key, val = l.Body, axObj(l.Key), axObj(l.Value)
					}
				case *ast.ForStmt:
					if be, ok := axUnparen(l.Cond).(*ast.BinaryExpr); ok && be.Op == token.LSS {
						if f, arg, ok := wdLenOf(be.Y); ok && f == a.field && axIs(arg, recv) {
							body, key = l.Body, axObj(be.X)
						}
					}
				}
				if body == nil || key == nil {
					continue
				}
				ast.Inspect(body, func(x ast.Node) bool {
					is, ok := x.(*ast.IfStmt)
					if !ok {
						return true
					}
					for _, bs := range is.Body.List {
						if as2, ok := bs.(*ast.AssignStmt); ok && as2.Tok == token.ASSIGN && len(as2.Lhs) == 1 && len(as2.Rhs) == 1 && axIs(as2.Lhs[0], pos) && axIs(as2.Rhs[0], key) {
							markIf, markLoopBody, markVal, markKey, markField = is, body, val, key, a.field
						}
					}
					return true
				})
			}
			if markIf != nil {
				r.splice, r.field = a.as, a.field
				break
			}
		}
	}

	// restoresOnFailure: some assignment `<recv>.F = v` with v a local bound (`v := <recv>.F`) to the same field
	for _, a := range asgs {
		if len(a.as.Lhs) != len(a.as.Rhs) {
			continue
		}
		v := axObj(a.as.Rhs[a.idx])
		if v == nil {
			continue
		}
		if def, ok := v.Decl.(*ast.AssignStmt); ok && len(def.Lhs) == len(def.Rhs) {
			for i, l := range def.Lhs {
				if axIs(l, v) {
					if f, ok := wdRecvField(def.Rhs[i], recv); ok && f == a.field {
						r.effect = "restoresOnFailure"
						if r.field == "" {
							r.field = a.field
						}
					}
				}
			}
		}
	}
	if r.effect == "restoresOnFailure" {
		return r
	}
	if r.splice == nil || (spliceLoop == nil && markIf == nil) || otherWrites {
		return r
	}
	// exactly one assignment to F in R, the splice; assignments to other receiver fields are none of our business only if they are
	// not the list: but a second list-typed field cannot be told apart structurally, so demand that F is the only field assigned
	for _, a := range asgs {
		if a.as != r.splice {
			return r
		}
	}
	// nothing reachable from a call after the splice assigns `.F` on anything
	for _, c := range wdReachAfter(p, fd, r.splice.End()) {
		if c == fd {
			return r // recursion
		}
		if len(wdAssignsField(c.Body, nil, r.field)) > 0 {
			return r
		}
	}
	r.effect = "shrinksAlways"

	// the test the splice stands under: `<param> == <value>.ID()`
	var val *ast.Object
	var testBody *ast.BlockStmt
	if spliceLoop != nil {
		val, testBody = axObj(spliceLoop.Value), spliceLoop.Body
	} else {
		val, testBody = markVal, markLoopBody
	}
	ast.Inspect(testBody, func(x ast.Node) bool {
		is, ok := x.(*ast.IfStmt)
		if !ok || (spliceLoop != nil && !ccWithin(r.splice, is.Body)) || (spliceLoop == nil && is != markIf) {
			return true
		}
		be, ok := axUnparen(is.Cond).(*ast.BinaryExpr)
		if !ok || be.Op != token.EQL {
			return true
		}
		isID := func(e ast.Expr) bool {
			ce, ok := axUnparen(e).(*ast.CallExpr)
			if !ok || len(ce.Args) != 0 {
				return false
			}
			b, n, ok := axSel(ce.Fun)
			if !ok || n != "ID" {
				return false
			}
			if val != nil && axIs(b, val) {
				return true
			}
			// <recv>.F[key].ID() in the index form
			if ix, ok := axUnparen(b).(*ast.IndexExpr); ok && markKey != nil && axIs(ix.Index, markKey) {
				if f, ok := wdRecvField(ix.X, recv); ok && f == markField {
					return true
				}
			}
			return false
		}
		if (axIs(be.X, param) && isID(be.Y)) || (axIs(be.Y, param) && isID(be.X)) {
			r.byID = true
		}
		return true
	})

	// fallible calls before the splice
	var fallible []*ast.CallExpr
	ast.Inspect(fd.Body, func(x ast.Node) bool {
		if ce, ok := x.(*ast.CallExpr); ok && ce.Pos() < r.splice.Pos() {
			if c := p.callee(ce, fd); c != nil && wdHasErrorResult(c) {
				fallible = append(fallible, ce)
			}
		}
		return true
	})
	switch {
	case len(fallible) == 0:
		r.before = "none"
	case len(fd.Body.List) > 0:
		if b, l, ok := wdLoadGuard(p, fd, fd.Body.List[0], recv); ok {
			all := true
			for _, ce := range fallible {
				all = all && ccWithin(ce, fd.Body.List[0])
			}
			if all {
				r.before, r.guardB, r.guardL = "loadGuardOnly", b, l
			}
		}
	}
	return r
}

// ---------------------------------------------------------------------------------------------------------------- the cap loop

// wdCapField: the field initialised from `<x>.MailboxMsgCap` in a composite literal of the package.
func wdCapField(p *ccPkg) string {
	name, n := "", 0
	for _, fd := range p.all {
		if fd.Body == nil {
			continue
		}
		ast.Inspect(fd.Body, func(x ast.Node) bool {
			kv, ok := x.(*ast.KeyValueExpr)
			if !ok {
				return true
			}
			if _, f, ok := axSel(kv.Value); ok && f == "MailboxMsgCap" {
				if id, ok := kv.Key.(*ast.Ident); ok {
					name = id.Name
					n++
				}
			}
			return true
		})
	}
	if n != 1 {
		return ""
	}
	return name
}

// wdLenOf: e is len(<recv>.F) for some receiver-bound base; returns F.
func wdLenOf(e ast.Expr) (string, ast.Expr, bool) {
	ce, ok := axBuiltin(axUnparen(e), "len")
	if !ok || len(ce.Args) != 1 {
		return "", nil, false
	}
	b, f, ok := axSel(ce.Args[0])
	if !ok {
		return "", nil, false
	}
	return f, b, true
}

type wdCapLoop struct {
	loop       *ast.ForStmt
	fn         *ast.FuncDecl
	cond, body string
	loadsFirst bool
}

func wdFindCapLoop(p *ccPkg, rm *wdRemove) *wdCapLoop {
	cl := &wdCapLoop{cond: "unknown", body: "unknown"}
	if rm.field == "" {
		return cl
	}
	capField := wdCapField(p)
	var loops []*ast.ForStmt
	var owners []*ast.FuncDecl
	for _, fd := range p.all {
		if fd.Body == nil {
			continue
		}
		fd := fd
		ast.Inspect(fd.Body, func(x ast.Node) bool {
			fs, ok := x.(*ast.ForStmt)
			if !ok || fs.Cond == nil {
				return true
			}
			if fs.Init != nil && fs.Post != nil {
				return true // the index form of a range loop (classified by wdLoopShape); the cap loop is a while loop
			}
			mentions := false
			ast.Inspect(fs.Cond, func(y ast.Node) bool {
				if e, ok := y.(ast.Expr); ok {
					if f, _, ok := wdLenOf(e); ok && f == rm.field {
						mentions = true
					}
				}
				return true
			})
			if mentions {
				loops = append(loops, fs)
				owners = append(owners, fd)
			}
			return true
		})
	}
	if len(loops) != 1 {
		return cl
	}
	fs, fd := loops[0], owners[0]
	cl.loop, cl.fn = fs, fd
	recv := axRecvObj(fd)
	if recv == nil || fs.Init != nil || fs.Post != nil || capField == "" {
		return cl
	}
	isCap := func(e ast.Expr) bool { _, f, ok := axSel(e); return ok && f == capField }
	be, ok := axUnparen(fs.Cond).(*ast.BinaryExpr)
	if !ok {
		return cl
	}
	lenSide, capSide := be.X, be.Y
	op := be.Op
	if op == token.LEQ {
		lenSide, capSide, op = be.Y, be.X, token.GEQ
	}
	f, base, isLen := wdLenOf(lenSide)
	if op != token.GEQ || !isLen || f != rm.field || !axIs(base, recv) || !isCap(capSide) {
		return cl
	}
	// inside `if <cap> > 0`
	guarded := false
	ast.Inspect(fd.Body, func(x ast.Node) bool {
		is, ok := x.(*ast.IfStmt)
		if !ok || !ccWithin(fs, is.Body) {
			return true
		}
		g, ok := axUnparen(is.Cond).(*ast.BinaryExpr)
		if !ok {
			return true
		}
		zero := func(e ast.Expr) bool { v := axIntValue(e); return v != nil && *v == 0 }
		if (g.Op == token.GTR && isCap(g.X) && zero(g.Y)) || (g.Op == token.LSS && zero(g.X) && isCap(g.Y)) {
			guarded = true
		}
		return true
	})
	if !guarded {
		return cl
	}
	cl.cond = "len(F)>=cap"

	// ---- the body
	ok = true
	rmCalls := 0
	headArg := false
	isHeadID := func(e ast.Expr) bool { // <recv>.F[0].ID()
		ce, isCall := axUnparen(e).(*ast.CallExpr)
		if !isCall || len(ce.Args) != 0 {
			return false
		}
		b, n, isSel := axSel(ce.Fun)
		if !isSel || n != "ID" {
			return false
		}
		ix, isIx := axUnparen(b).(*ast.IndexExpr)
		if !isIx {
			return false
		}
		v := axIntValue(ix.Index)
		ff, okf := wdRecvField(ix.X, recv)
		return v != nil && *v == 0 && okf && ff == rm.field
	}
	ast.Inspect(fs.Body, func(x ast.Node) bool {
		switch s := x.(type) {
		case *ast.BranchStmt, *ast.ReturnStmt, *ast.GoStmt, *ast.DeferStmt, *ast.ForStmt, *ast.RangeStmt, *ast.SelectStmt, *ast.SendStmt:
			ok = false
		case *ast.IncDecStmt:
			if _, isF := wdRecvField(s.X, recv); isF {
				ok = false
			}
		case *ast.AssignStmt:
			for _, l := range s.Lhs {
				if _, isF := wdRecvField(l, recv); isF {
					ok = false
				}
				if b, _, isSel := axSel(l); isSel {
					if _, deeper := wdRecvField(b, recv); deeper {
						ok = false // <recv>.x.y = …
					}
				}
			}
		case *ast.CallExpr:
			if c := p.callee(s, fd); c != nil {
				if c != rm.fd {
					// another same-package call: only pure accessors of the element are tolerated (ID())
					if !(c.Name.Name == "ID" && len(s.Args) == 0) {
						ok = false
					}
					return true
				}
				rmCalls++
				if b, _, isSel := axSel(s.Fun); !isSel || !axIs(b, recv) || len(s.Args) != 1 {
					ok = false
					return true
				}
				arg := s.Args[0]
				if isHeadID(arg) {
					headArg = true
				} else if v := axObj(arg); v != nil {
					if def, isDef := v.Decl.(*ast.AssignStmt); isDef && ccWithin(def, fs.Body) && len(def.Lhs) == 1 && len(def.Rhs) == 1 &&
						isHeadID(def.Rhs[0]) && ccAssignCount(fd, v) == 1 {
						headArg = true
					}
				}
			}
		}
		return true
	})
	if ok && rmCalls == 1 && headArg {
		cl.body = "removeHead"
	}

	// ---- the load guard first
	if rm.guardL != nil && len(fd.Body.List) > 0 {
		if b, l, isGuard := wdLoadGuard(p, fd, fd.Body.List[0], recv); isGuard && b == rm.guardB && l == rm.guardL {
			// L sets the flag before each `return nil` and nothing in R or the loop clears it
			lrecv := axRecvObj(l)
			sets := 0
			clears := false
			for _, a := range wdAssignsField(l.Body, lrecv, b) {
				if a.as != nil && len(a.as.Rhs) == len(a.as.Lhs) {
					if id, isID := axUnparen(a.as.Rhs[a.idx]).(*ast.Ident); isID && id.Obj == nil && id.Name == "true" {
						sets++
						continue
					}
				}
				clears = true
			}
			nilReturns, covered := 0, 0
			ast.Inspect(l.Body, func(x ast.Node) bool {
				if _, isLit := x.(*ast.FuncLit); isLit {
					return false
				}
				rs, isRet := x.(*ast.ReturnStmt)
				if !isRet || len(rs.Results) != 1 || !axIsNil(rs.Results[0]) {
					return true
				}
				nilReturns++
				// the statement before it in its block sets the flag
				if wdPrevSetsFlag(l.Body, rs, lrecv, b) {
					covered++
				}
				return true
			})
			elsewhere := len(wdAssignsField(rm.fd.Body, nil, b)) + len(wdAssignsField(fs.Body, nil, b))
			cl.loadsFirst = !clears && sets > 0 && nilReturns > 0 && nilReturns == covered && elsewhere == 0
		}
	}
	return cl
}

// wdPrevSetsFlag: in the block that holds ret, an earlier statement of that block is `<recv>.<flag> = true`, with nothing but
// non-assigning statements between.
func wdPrevSetsFlag(body *ast.BlockStmt, ret *ast.ReturnStmt, recv *ast.Object, flag string) bool {
	found := false
	ast.Inspect(body, func(x ast.Node) bool {
		bs, ok := x.(*ast.BlockStmt)
		if !ok {
			return true
		}
		for i, s := range bs.List {
			if s != ast.Stmt(ret) {
				continue
			}
			for j := i - 1; j >= 0; j-- {
				if as, ok := bs.List[j].(*ast.AssignStmt); ok && len(as.Lhs) == 1 && len(as.Rhs) == 1 {
					if f, ok := wdRecvField(as.Lhs[0], recv); ok && f == flag {
						if id, ok := axUnparen(as.Rhs[0]).(*ast.Ident); ok && id.Name == "true" && id.Obj == nil {
							found = true
						}
						return false
					}
				}
				if _, isExpr := bs.List[j].(*ast.ExprStmt); !isExpr {
					return false
				}
			}
		}
		return true
	})
	return found
}

// ---------------------------------------------------------------------------------------------------------------- all loops

func wdTopLevel(body *ast.BlockStmt, p func(ast.Stmt) bool) bool {
	for _, s := range body.List {
		if p(s) {
			return true
		}
	}
	return false
}

func wdLoopShape(p *ccPkg, fd *ast.FuncDecl, n ast.Node, cl *wdCapLoop) string {
	switch s := n.(type) {
	case *ast.RangeStmt:
		if ue, ok := axUnparen(s.X).(*ast.UnaryExpr); ok && ue.Op == token.ARROW {
			return "unknown"
		}
		return "range"
	case *ast.ForStmt:
		if cl != nil && cl.loop == s {
			if cl.cond == "len(F)>=cap" && cl.body == "removeHead" {
				return "len>=cap:removeHead"
			}
			return "unknown"
		}
		if s.Cond == nil && s.Init == nil && s.Post == nil {
			if len(s.Body.List) == 1 {
				if _, ok := s.Body.List[0].(*ast.SelectStmt); ok {
					return "selectForever"
				}
			}
			// untilError: top-level `… err = <call>` / `if err = <call>; err != nil { … break|return }`
			leaves := false
			for _, st := range s.Body.List {
				is, ok := st.(*ast.IfStmt)
				if !ok {
					continue
				}
				x, eq, isNil := axNilTest(is.Cond)
				if !isNil || eq || axObj(x) == nil {
					continue
				}
				// the error comes from a call: in the if's init, or in the statement before
				fromCall := false
				if as, ok := is.Init.(*ast.AssignStmt); ok && len(as.Rhs) == 1 {
					if _, isCall := axUnparen(as.Rhs[0]).(*ast.CallExpr); isCall {
						for _, l := range as.Lhs {
							fromCall = fromCall || axIs(l, axObj(x))
						}
					}
				}
				if !fromCall {
					// … or in the statement right before this if: `err = <call>` at the top level of the loop body
					for k, prev := range s.Body.List {
						if prev == st && k > 0 {
							for j := k - 1; j >= 0; j-- {
								if as, ok := s.Body.List[j].(*ast.AssignStmt); ok && len(as.Rhs) == 1 {
									if _, isCall := axUnparen(as.Rhs[0]).(*ast.CallExpr); isCall {
										for _, l := range as.Lhs {
											fromCall = fromCall || axIs(l, axObj(x))
										}
									}
									break
								}
								if _, isIf := s.Body.List[j].(*ast.IfStmt); !isIf {
									break // only tests of the same error may stand between the call and this test
								}
							}
						}
					}
				}
				if !fromCall {
					continue
				}
				// every path of the body ends in break / return
				if wdAlwaysLeaves(is.Body.List) {
					leaves = true
				}
			}
			if leaves {
				return "untilError"
			}
			return "unknown"
		}
		if s.Cond != nil && s.Init != nil && s.Post != nil {
			if id, ok := axUnparen(s.Cond).(*ast.Ident); ok && id.Name == "true" && id.Obj == nil {
				return "counter:forever"
			}
			// the index form of a range loop: `for i := 0; i < len(X); i++` whose body never assigns i — bounded by construction like `range`
			if be, ok := axUnparen(s.Cond).(*ast.BinaryExpr); ok && be.Op == token.LSS {
				if _, _, isLen := wdLenOf(be.Y); isLen {
					i := axObj(be.X)
					init, okI := s.Init.(*ast.AssignStmt)
					post, okP := s.Post.(*ast.IncDecStmt)
					if i != nil && okI && okP && init.Tok == token.DEFINE && len(init.Lhs) == 1 && axIs(init.Lhs[0], i) && post.Tok == token.INC && axIs(post.X, i) {
						touched := axCount(s.Body, func(x ast.Node) bool {
							switch v := x.(type) {
							case *ast.AssignStmt:
								for _, l := range v.Lhs {
									if axIs(l, i) {
										return true
									}
								}
							case *ast.IncDecStmt:
								return axIs(v.X, i)
							}
							return false
						}) > 0
						if !touched {
							return "range"
						}
					}
				}
			}
			return "unknown"
		}
		if s.Cond != nil && s.Init == nil && s.Post == nil {
			// len(M) > c with a cursor increment and a delete
			if be, ok := axUnparen(s.Cond).(*ast.BinaryExpr); ok && be.Op == token.GTR {
				if _, mbase, isLen := wdLenOf(be.X); isLen {
					inc := wdTopLevel(s.Body, func(st ast.Stmt) bool {
						ids, ok := st.(*ast.IncDecStmt)
						if !ok || ids.Tok != token.INC {
							return false
						}
						b, _, isSel := axSel(ids.X)
						return isSel && axObj(b) != nil && axObj(b) == axObj(mbase)
					})
					del := axCount(s.Body, func(x ast.Node) bool { _, ok := axBuiltin(x, "delete"); return ok }) > 0
					leaves := axCount(s.Body, func(x ast.Node) bool {
						switch x.(type) {
						case *ast.BranchStmt, *ast.ReturnStmt:
							return true
						}
						return false
					}) > 0
					if inc && del && !leaves {
						return "len>cap:cursor++"
					}
				}
			}
			// drainList
			var front *ast.Object
			var list ast.Expr
			nilBreak, removed := false, false
			for _, st := range s.Body.List {
				switch v := st.(type) {
				case *ast.AssignStmt:
					if len(v.Lhs) == 1 && len(v.Rhs) == 1 {
						if ce, ok := axUnparen(v.Rhs[0]).(*ast.CallExpr); ok && len(ce.Args) == 0 {
							if b, n, ok := axSel(ce.Fun); ok && n == "Front" {
								front, list = axObj(v.Lhs[0]), b
							}
						}
					}
				case *ast.IfStmt:
					if x, eq, ok := axNilTest(v.Cond); ok && eq && front != nil && axIs(x, front) && len(v.Body.List) > 0 {
						if br, ok := v.Body.List[len(v.Body.List)-1].(*ast.BranchStmt); ok && br.Tok == token.BREAK && br.Label == nil {
							nilBreak = true
						}
					}
				case *ast.ExprStmt:
					if ce, ok := axUnparen(v.X).(*ast.CallExpr); ok && len(ce.Args) == 1 && front != nil && axIs(ce.Args[0], front) {
						if b, n, ok := axSel(ce.Fun); ok && n == "Remove" && list != nil && axObj(b) != nil && axObj(b) == axObj(list) {
							removed = nilBreak
						}
					}
				}
			}
			if removed {
				return "drainList"
			}
			// redraw: cond = same-package predicate of one local; the body re-binds that local from a call
			if ce, ok := axUnparen(s.Cond).(*ast.CallExpr); ok && len(ce.Args) == 1 {
				if c := p.callee(ce, fd); c != nil {
					if v := axObj(ce.Args[0]); v != nil {
						rebinds := wdTopLevel(s.Body, func(st ast.Stmt) bool {
							as, ok := st.(*ast.AssignStmt)
							if !ok || as.Tok != token.ASSIGN || len(as.Lhs) != 1 || len(as.Rhs) != 1 || !axIs(as.Lhs[0], v) {
								return false
							}
							_, isCall := axUnparen(as.Rhs[0]).(*ast.CallExpr)
							return isCall
						})
						if rebinds {
							return "redraw"
						}
					}
				}
			}
		}
	}
	return "unknown"
}

// wdAlwaysLeaves: every path through the statement list ends in break (of the loop) or return.
func wdAlwaysLeaves(l []ast.Stmt) bool {
	if len(l) == 0 {
		return false
	}
	switch s := l[len(l)-1].(type) {
	case *ast.ReturnStmt:
		return true
	case *ast.BranchStmt:
		return s.Tok == token.BREAK && s.Label == nil
	case *ast.IfStmt:
		// if c { break } followed by nothing: only when there is an else that leaves too
		if s.Else == nil {
			return false
		}
		eb, ok := s.Else.(*ast.BlockStmt)
		return ok && wdAlwaysLeaves(s.Body.List) && wdAlwaysLeaves(eb.List)
	}
	// `if err == io.EOF { break }; return …` is list-final return: handled by the first case
	return false
}

func wdLoops(pkgName string, p *ccPkg, cl *wdCapLoop) ([]string, []string) {
	var loops, gos []string
	for _, f := range p.files {
		if wdIsVerifFile(f) {
			continue
		}
		for _, d := range f.Decls {
			fd, ok := d.(*ast.FuncDecl)
			if !ok || fd.Body == nil {
				continue
			}
			recv := "-"
			if fd.Recv != nil {
				recv = ccRecvType(fd)
			}
			ast.Inspect(fd.Body, func(x ast.Node) bool {
				switch s := x.(type) {
				case *ast.ForStmt, *ast.RangeStmt:
					loops = append(loops, pkgName+"."+recv+"."+fd.Name.Name+":"+wdLoopShape(p, fd, s.(ast.Node), cl))
				case *ast.GoStmt:
					if c := p.callee(s.Call, fd); c != nil {
						gos = append(gos, pkgName+"."+c.Name.Name)
					} else {
						gos = append(gos, pkgName+".?")
					}
				}
				return true
			})
		}
	}
	return loops, gos
}

// ---------------------------------------------------------------------------------------------------------------- Emit

func wdEmitBlocking(af *ast.File) ([]string, bool) {
	emit := axMethods(af, "AsyncEventBroker")["Emit"]
	if emit == nil || emit.Body == nil {
		return []string{"?"}, false
	}
	blockNames := map[string]bool{"Wait": true, "Sleep": true, "After": true, "Acquire": true, "Tick": true}
	found := map[string]bool{}
	seen := map[*ast.FuncDecl]bool{}
	var walk func(fd *ast.FuncDecl)
	walk = func(fd *ast.FuncDecl) {
		if fd == nil || fd.Body == nil || seen[fd] {
			return
		}
		seen[fd] = true
		inSelectDefault := map[ast.Node]bool{}
		ast.Inspect(fd.Body, func(x ast.Node) bool {
			switch s := x.(type) {
			case *ast.FuncLit:
				return false
			case *ast.GoStmt:
				return false // what a new goroutine does is not done by Emit
			case *ast.SelectStmt:
				hasDefault := false
				for _, c := range s.Body.List {
					if cc, ok := c.(*ast.CommClause); ok && cc.Comm == nil {
						hasDefault = true
					}
				}
				if !hasDefault {
					found["select"] = true
				} else {
					for _, c := range s.Body.List {
						if cc, ok := c.(*ast.CommClause); ok && cc.Comm != nil {
							inSelectDefault[cc.Comm] = true
						}
					}
				}
			case *ast.SendStmt:
				if !inSelectDefault[s] {
					found["send"] = true
				}
			case *ast.UnaryExpr:
				if s.Op == token.ARROW {
					found["recv"] = true
				}
			case *ast.RangeStmt:
				if ue, ok := axUnparen(s.X).(*ast.UnaryExpr); ok && ue.Op == token.ARROW {
					found["recv"] = true
				}
			case *ast.CallExpr:
				if _, n, ok := axSel(s.Fun); ok && blockNames[n] {
					found[n] = true
				}
				// same-file callees: plain functions and methods of ANY receiver type declared in the file
				if c := bkAnyCallee(af, s); c != nil {
					walk(c)
				}
			}
			return true
		})
	}
	walk(emit)
	var res []string
	for k := range found {
		res = append(res, k)
	}
	sort.Strings(res)

	// the worker: callee of the file's only go statement
	outside := false
	gos := bkGoStmts(af)
	if len(gos) == 1 {
		if w := bkAnyCallee(af, gos[0].Call); w != nil && w.Body != nil {
			ast.Inspect(w.Body, func(x ast.Node) bool {
				bs, ok := x.(*ast.BlockStmt)
				if !ok {
					return true
				}
				for i, st := range bs.List {
					es, ok := st.(*ast.ExprStmt)
					if !ok {
						continue
					}
					ce, ok := es.X.(*ast.CallExpr)
					if !ok || len(ce.Args) != 0 {
						continue
					}
					id, ok := axUnparen(ce.Fun).(*ast.Ident)
					if !ok || id.Obj == nil || id.Obj.Kind != ast.Var {
						continue
					}
					// the dynamic call: previous statement Unlock(), next statement Lock(), same base expression
					if i == 0 || i+1 >= len(bs.List) {
						continue
					}
					mu := func(s ast.Stmt, name string) string {
						e, ok := s.(*ast.ExprStmt)
						if !ok {
							return ""
						}
						c, ok := e.X.(*ast.CallExpr)
						if !ok || len(c.Args) != 0 {
							return ""
						}
						b, n, ok := axSel(c.Fun)
						if !ok || n != name {
							return ""
						}
						return src(b)
					}
					if a, b := mu(bs.List[i-1], "Unlock"), mu(bs.List[i+1], "Lock"); a != "" && a == b {
						outside = true
					}
				}
				return true
			})
		}
	}
	return res, outside
}

// ---------------------------------------------------------------------------------------------------------------- main

func extractWedge() {
	g := gen("Wedge")
	file := ccLoadPkg("pkg/storage/file")
	mem := ccLoadPkg("pkg/storage/mem")

	rm := wdFindRemove(file)
	g.def("removeListEffect", "String", leanStr(rm.effect),
		"file store, the mailbox method R that the exported RemoveMessage calls: \"shrinksAlways\" = R assigns a receiver field F exactly once, by the splice F = append(F[:i], F[i+1:]...) inside `range F`, and neither R nor anything reachable from a call after the splice assigns that field again; \"restoresOnFailure\" = R assigns F from a local that was bound to F earlier")
	g.def("removeMatchesByID", "Bool", axLeanBool(rm.byID),
		"the splice is reached under `<parameter of R> == <range value>.ID()`")
	g.def("removeFallibleBeforeSplice", "String", leanStr(rm.before),
		"calls of R that can return an error and precede the splice: none / loadGuardOnly (all inside one leading `if !<recv>.<bool field> {...}` that returns the error) / other")

	cl := wdFindCapLoop(file, rm)
	g.def("capLoopCond", "String", leanStr(cl.cond),
		"the one `for` of the package whose condition measures len(<recv>.F), F the spliced field: no init / post, condition len(<recv>.F) >= <cap> with cap the field initialised from MailboxMsgCap, inside `if <cap> > 0`")
	g.def("capLoopBody", "String", leanStr(cl.body),
		"\"removeHead\" = the body calls R exactly once with <recv>.F[0].ID(), makes no other same-package call but ID(), assigns no receiver field and has no break / return / continue / goto / nested loop: R's error is at most logged")
	g.def("capLoopLoadsFirst", "Bool", axLeanBool(cl.loadsFirst),
		"the function of that loop starts with the same load guard as R (same flag, same loader), the loader sets the flag to true right before each `return nil` and never clears it, and neither R nor the loop body assigns the flag")

	fl, fg := wdLoops("file", file, cl)
	ml, mg := wdLoops("mem", mem, nil)
	g.def("storeLoops", "List String", strList(append(fl, ml...)),
		"every for / range statement of pkg/storage/file and pkg/storage/mem in source order with its shape")
	g.def("goroutineFuncs", "List String", strList(append(fg, mg...)),
		"functions of those packages started by a `go` statement")

	af := parse("pkg/extension/async_broker.go")
	blocking, outside := wdEmitBlocking(af)
	g.def("emitBlockingOps", "List String", strList(blocking),
		"blocking operations reachable from AsyncEventBroker.Emit through same-file functions, outside function literals and go statements, other than mutex Lock / RLock")
	g.def("workerCallsOutsideQueueMutex", "Bool", axLeanBool(outside),
		"the queue's worker makes the dynamic call of the popped function between an Unlock() and a Lock() of the same mutex")
}
