package main

// T1 facts about the deletion loop of the POP3 session (C13 / C19, concurrent form: Model.Pop3Conc.DelLoop), re-read from
// pkg/server/pop3/*.go.  Everything is found by ROLE, never by name:
//   * a REMOVAL SITE is a call of the storage.Store method RemoveMessage (a selector call the package does not resolve
//     to one of its own functions);
//   * the DELETION LOOP of a removal site is the innermost `for` / `range` statement around it in its own function; when
//     the site's function has no loop around it (the call was moved into a helper `removeOne(id)`), the innermost loop
//     around each call of that function in the package, and so on upwards (the helpers passed through are the CHAIN);
//     the command loop itself is never reached this way as long as some loop lies between it and the site.
// Facts:
//   deleteLoopExits     some (sorted list) when the package has exactly ONE deletion loop: every way a statement of its
//                       body can leave the loop other than by finishing the iteration: "return", "break" (targeting this
//                       loop or one around it), "continue-outer", "goto", "panic" (panic / os.Exit / log.Fatal… /
//                       zerolog's .Fatal() / .Panic() in the body or in a helper of the chain); a `return` inside a helper
//                       of the chain returns INTO the loop and is not an exit; function literals are not entered.
//                       [] = the loop has no exit but the end of the range (the model's `DelLoop.goesOn`);
//                       none = no / several deletion loops (no tie accepts it).
//   deleteLoopCarried   how many variables or fields that live longer than one iteration the loop body (and the helpers
//                       of the chain) assign: 0 = an iteration cannot tell a later one that an earlier removal failed.
//   quitRowStore        for every executed path of the TRANSACTION handler's QUIT row (kit_t1a.go; helpers executed in
//                       place): the store methods called on it, joined by "+"; sorted set.  ["RemoveMessage"] = every path
//                       of the row runs the deletion loop: QUIT calls it unconditionally.

import (
	"go/ast"
	"go/token"
	"sort"
	"strings"
)

func init() { extractors = append(extractors, extractPop3Del) }

type delLoopSite struct {
	loop  ast.Stmt
	fn    *ast.FuncDecl
	chain []*ast.FuncDecl // helpers between the loop body and the removal site
}

// pop3EnclosingLoop: the innermost for / range statement of fd around pos (function literals are transparent: a loop
// around a literal that holds the call still is "around" it; a loop INSIDE a literal around the call is found first).
func pop3EnclosingLoop(fd *ast.FuncDecl, target ast.Node) ast.Stmt {
	var best ast.Stmt
	var stack []ast.Node
	ast.Inspect(fd.Body, func(n ast.Node) bool {
		if n == nil {
			stack = stack[:len(stack)-1]
			return true
		}
		stack = append(stack, n)
		if n == target {
			for i := len(stack) - 1; i >= 0; i-- {
				switch v := stack[i].(type) {
				case *ast.ForStmt:
					if v.Body.Pos() <= target.Pos() && target.End() <= v.Body.End() {
						best = v
						return false
					}
				case *ast.RangeStmt:
					if v.Body.Pos() <= target.Pos() && target.End() <= v.Body.End() {
						best = v
						return false
					}
				}
			}
		}
		return true
	})
	return best
}

func pop3LoopBody(l ast.Stmt) *ast.BlockStmt {
	switch v := l.(type) {
	case *ast.ForStmt:
		return v.Body
	case *ast.RangeStmt:
		return v.Body
	}
	return nil
}

// pop3DeletionLoops: see the file comment.
func pop3DeletionLoops(p *k1Pkg) []delLoopSite {
	var res []delLoopSite
	seen := map[ast.Stmt]bool{}
	var up func(fd *ast.FuncDecl, target ast.Node, chain []*ast.FuncDecl, depth int)
	up = func(fd *ast.FuncDecl, target ast.Node, chain []*ast.FuncDecl, depth int) {
		if l := pop3EnclosingLoop(fd, target); l != nil {
			if !seen[l] {
				seen[l] = true
				res = append(res, delLoopSite{loop: l, fn: fd, chain: append([]*ast.FuncDecl{}, chain...)})
			}
			return
		}
		if depth >= 6 {
			res = append(res, delLoopSite{}) // not understood
			return
		}
		for _, c := range chain {
			if c == fd {
				return // recursion
			}
		}
		callers := 0
		for _, g := range p.funcs {
			for _, ce := range k1Calls(g.Body) {
				if p.resolve(ce) == fd {
					callers++
					up(g, ce, append(append([]*ast.FuncDecl{}, chain...), fd), depth+1)
				}
			}
		}
		if callers == 0 {
			res = append(res, delLoopSite{fn: fd}) // a removal site no loop is around: loop == nil
		}
	}
	for _, fd := range p.funcs {
		for _, ce := range k1Calls(fd.Body) {
			if k1SelCall(ce, "RemoveMessage") && p.resolve(ce) == nil {
				up(fd, ce, nil, 0)
			}
		}
	}
	return res
}

func pop3FatalCall(ce *ast.CallExpr) bool {
	switch f := ce.Fun.(type) {
	case *ast.Ident:
		return f.Name == "panic" && f.Obj == nil
	case *ast.SelectorExpr:
		switch f.Sel.Name {
		case "Fatal", "Fatalf", "Fatalln", "Panic", "Panicf", "Panicln", "Exit", "Goexit":
			return true
		}
	}
	return false
}

// pop3LoopExits: the ways out of loop other than the end of an iteration.
func pop3LoopExits(loop ast.Stmt, fd *ast.FuncDecl, chain []*ast.FuncDecl) []string {
	set := map[string]bool{}
	body := pop3LoopBody(loop)
	// the label of this loop and of the statements around it
	own, outer := map[string]bool{}, map[string]bool{}
	ast.Inspect(fd.Body, func(n ast.Node) bool {
		if ls, ok := n.(*ast.LabeledStmt); ok {
			if ls.Stmt == loop {
				own[ls.Label.Name] = true
			} else if ls.Stmt.Pos() <= loop.Pos() && loop.End() <= ls.Stmt.End() {
				outer[ls.Label.Name] = true
			}
		}
		return true
	})
	var walk func(n ast.Node, breakable, loops int)
	walk = func(n ast.Node, breakable, loops int) {
		if n == nil || isNilNode(n) {
			return
		}
		switch v := n.(type) {
		case *ast.FuncLit:
			return
		case *ast.ReturnStmt:
			set["return"] = true
		case *ast.BranchStmt:
			switch v.Tok {
			case token.BREAK:
				if v.Label == nil {
					if breakable == 0 {
						set["break"] = true
					}
				} else if own[v.Label.Name] || outer[v.Label.Name] {
					set["break"] = true
				}
			case token.CONTINUE:
				if v.Label != nil && outer[v.Label.Name] {
					set["continue-outer"] = true
				}
			case token.GOTO:
				set["goto"] = true
			}
			return
		case *ast.CallExpr:
			if pop3FatalCall(v) {
				set["panic"] = true
			}
		case *ast.ForStmt:
			walk(v.Init, breakable, loops)
			walk(v.Cond, breakable, loops)
			walk(v.Post, breakable, loops)
			walk(v.Body, breakable+1, loops+1)
			return
		case *ast.RangeStmt:
			walk(v.X, breakable, loops)
			walk(v.Body, breakable+1, loops+1)
			return
		case *ast.SwitchStmt:
			walk(v.Init, breakable, loops)
			walk(v.Tag, breakable, loops)
			walk(v.Body, breakable+1, loops)
			return
		case *ast.TypeSwitchStmt:
			walk(v.Init, breakable, loops)
			walk(v.Assign, breakable, loops)
			walk(v.Body, breakable+1, loops)
			return
		case *ast.SelectStmt:
			walk(v.Body, breakable+1, loops)
			return
		}
		// generic descent over the children, one level
		first := true
		ast.Inspect(n, func(c ast.Node) bool {
			if first {
				first = false
				return true
			}
			if c != nil {
				walk(c, breakable, loops)
			}
			return false
		})
	}
	if body != nil {
		for _, s := range body.List {
			walk(s, 0, 0)
		}
	}
	for _, h := range chain {
		for _, ce := range k1Calls(h.Body) {
			if pop3FatalCall(ce) {
				set["panic"] = true
			}
		}
	}
	res := []string{}
	for k := range set {
		res = append(res, k)
	}
	sort.Strings(res)
	return res
}

// pop3LoopCarried: the objects (locals declared outside the body, fields, package variables) that the body of the loop
// or a helper of the chain assigns: state an iteration leaves for a later one.  The loop's own key / value / post
// variables are not counted.
func pop3LoopCarried(loop ast.Stmt, chain []*ast.FuncDecl) int {
	body := pop3LoopBody(loop)
	if body == nil {
		return -1
	}
	set := map[string]bool{}
	note := func(lhs ast.Expr, scope ast.Node) {
		switch v := k1Unparen(lhs).(type) {
		case *ast.Ident:
			if v.Name == "_" {
				return
			}
			if v.Obj != nil && v.Obj.Pos() >= scope.Pos() && v.Obj.Pos() < scope.End() {
				return // declared inside: dies with the iteration / the helper call
			}
			set["var:"+v.Name] = true
		case *ast.SelectorExpr, *ast.IndexExpr, *ast.StarExpr:
			set["mem:"+src(v)] = true
		}
	}
	scan := func(scope ast.Node) {
		ast.Inspect(scope, func(n ast.Node) bool {
			switch v := n.(type) {
			case *ast.FuncLit:
				return false
			case *ast.AssignStmt:
				if v.Tok == token.DEFINE {
					// `x, err := …` may re-use an outer variable only when it is declared in the same scope: inside the body
					// every name on the left of := is (re)declared inside
					return true
				}
				for _, l := range v.Lhs {
					note(l, scope)
				}
			case *ast.IncDecStmt:
				note(v.X, scope)
			}
			return true
		})
	}
	scan(body)
	for _, h := range chain {
		scan(h.Body)
	}
	return len(set)
}

func extractPop3Del() {
	defer k1Recover("extractPop3Del")
	g := gen("Pop3")
	p := k1LoadPkg("pkg/server/pop3")
	loops := pop3DeletionLoops(p)
	exits, carried := "none", "none"
	if len(loops) == 1 && loops[0].loop != nil {
		exits = "some " + strList(pop3LoopExits(loops[0].loop, loops[0].fn, loops[0].chain))
		if n := pop3LoopCarried(loops[0].loop, loops[0].chain); n >= 0 {
			carried = "some " + strList(make([]string, 0))
			if n > 0 {
				l := []string{}
				for i := 0; i < n; i++ {
					l = append(l, "assigned")
				}
				carried = "some " + strList(l)
			}
		}
	}
	g.def("deleteLoopExits", "Option (List String)", exits,
		"the ways a statement inside the deletion loop (the innermost for / range around the package's one Store.RemoveMessage call site, helpers followed upwards) can leave it other than by finishing the iteration: return / break / continue-outer / goto / panic; [] = none; none = the package does not have exactly one deletion loop")
	g.def("deleteLoopCarried", "Option (List String)", carried,
		"one entry per variable or field outliving an iteration that the body of the deletion loop (or a helper between it and the RemoveMessage call) assigns; [] = no iteration leaves anything for a later one")

	// QUIT runs the deletion loop on every path of its row
	rowStore := []string{"?"}
	if d := k1FindDispatch(p); d != nil {
		store := pop3StoreMethods()
		for _, st := range d.states {
			if d.handlers[st] == nil {
				continue
			}
			w := k2NewWalker(p)
			w.classify = func(e *k1Env, ce *ast.CallExpr) (string, bool) {
				if p.resolve(ce) != nil {
					return "", true
				}
				if sel, ok := ce.Fun.(*ast.SelectorExpr); ok && store[sel.Sel.Name] {
					return "call:" + sel.Sel.Name, false
				}
				return "", false
			}
			labels, _, paths := smtpTable(w.paths(d.handlerEnv(p, st), nil, d.handlers[st].Body.List))
			for _, row := range labels {
				isQuit := false
				for _, l := range strings.Split(row, ",") {
					if l == "QUIT" {
						isQuit = true
					}
				}
				if !isQuit {
					continue
				}
				set := map[string]bool{}
				any := false
				for _, x := range paths[row] {
					var ms []string
					for _, it := range x.items {
						it = strings.TrimPrefix(strings.TrimPrefix(it, "*"), "defer:")
						if strings.HasPrefix(it, "call:") {
							ms = append(ms, it[5:])
						}
						if strings.HasPrefix(it, "unknown:") {
							ms = append(ms, it)
						}
					}
					if len(ms) > 0 {
						any = true
					}
					set[strings.Join(ms, "+")] = true
				}
				if !any {
					continue // the QUIT row of a state that removes nothing (AUTHORIZATION)
				}
				rowStore = rowStore[:0]
				for k := range set {
					rowStore = append(rowStore, k)
				}
				sort.Strings(rowStore)
			}
		}
	}
	g.def("quitRowStore", "List String", strList(rowStore),
		"for every executed path of the QUIT row of the handler whose QUIT touches the store: the Store methods called on that path joined by +, as a sorted set; [\"RemoveMessage\"] = every path of the row runs the deletion loop")
}
