package main

// kit_t1a.go: a PATH-SENSITIVE walker on top of k1kit.go (prefix k2), used by smtp.go, ends.go, dot.go and pop3.go.
//
// k1Walker summarises a block flow-INsensitively: a local that is assigned twice is `$v`, a helper is flattened into
// optional events, and a flag a helper returns is an opaque `$h(..)#1`.  That makes three behaviour-preserving
// rewrites visible: (1) a helper that does part of the work and tells its caller what it did (`act, denied :=
// s.apply(r); if denied { return }`), (2) a default value that is overwritten under a condition (`a := D; if r != nil
// { a = r.A }; if a == X`), (3) a helper call followed by `break` / `continue`.  k2 executes the statements
// symbolically instead:
//   * a STATE is (the symbolic value of every local, the guards and events met so far); a local's value is the
//     canonical text (k1Env.canon) of what was assigned to it ON THIS PATH;
//   * every decision splits the state; a condition is evaluated down to its ATOMS (`a && b`, `if a { if b {`, `!(x ||
//     y)`, an if-chain and a switch are the same thing), the atom is rendered with the values of the path, and an
//     atom whose value is known (`true`, `false`, two different constants, the same text on both sides, an atom
//     already decided on this path) decides nothing;
//   * a call of an unexported helper of the package that (transitively) has events is EXECUTED in place, parameters
//     bound to the actual values, every one of its exits continuing in the caller with the values it returns; a helper
//     without events stays what k1Env.canon makes of it (what it returns, or `$h(args)`);
//   * NOTHING is merged on the way: an exit carries every decision of its path, so that what the exits are does not
//     depend on how an intermediate value is represented (a flag, an action code, an early return);
//   * the exits are a SET: two exits with the same events that differ in the polarity of ONE guard are one exit
//     without that guard (a branch that only logs, `if a { R } else { R }`), repeatedly; sorted, duplicates removed.
// Nothing is guessed: a statement kind the walker does not execute becomes an `unknown:<kind>` event, too many
// states set `overflow`; both end up in the fact, and no tie accepts them.
//
// The file also holds the small string-level tools the facts share: splitting a canonical expression at its
// top-level operators, negating an atom, the format + arguments form of a string built by fmt.Sprintf / `+` /
// strconv.Itoa (k2FormatStr), the constants of the repository's packages (k2Consts).

import (
	"go/ast"
	"go/token"
	"os"
	"path/filepath"
	"sort"
	"strconv"
	"strings"
)

// ---------------------------------------------------------------------------------------------- canonical strings

// k2SplitTop: split a canonical expression at the top-level occurrences of sep (outside quotes, parentheses,
// brackets and braces).
func k2SplitTop(s, sep string) []string {
	var parts []string
	depth := 0
	start := 0
	for i := 0; i < len(s); i++ {
		c := s[i]
		switch c {
		case '"', '\'', '`':
			// skip the literal
			j := i + 1
			for j < len(s) && s[j] != c {
				if s[j] == '\\' && c != '`' {
					j++
				}
				j++
			}
			i = j
			continue
		case '(', '[', '{':
			depth++
		case ')', ']', '}':
			depth--
		}
		if depth == 0 && strings.HasPrefix(s[i:], sep) {
			parts = append(parts, s[start:i])
			i += len(sep) - 1
			start = i + 1
		}
	}
	return append(parts, s[start:])
}

// k2Outer: s is `(` … `)` with the two parentheses matching each other.
func k2Outer(s string) (string, bool) {
	if len(s) < 2 || s[0] != '(' || s[len(s)-1] != ')' {
		return s, false
	}
	depth := 0
	in := s[1 : len(s)-1]
	for i := 0; i < len(in); i++ {
		c := in[i]
		switch c {
		case '"', '\'', '`':
			j := i + 1
			for j < len(in) && in[j] != c {
				if in[j] == '\\' && c != '`' {
					j++
				}
				j++
			}
			i = j
			continue
		case '(', '[', '{':
			depth++
		case ')', ']', '}':
			depth--
			if depth < 0 {
				return s, false
			}
		}
	}
	return in, depth == 0
}

var k2CmpOps = []string{" == ", " != ", " <= ", " >= ", " < ", " > "}
var k2CmpNeg = map[string]string{" == ": " != ", " != ": " == ", " < ": " >= ", " >= ": " < ", " > ": " <= ", " <= ": " > "}

// k2Cmp: the atom is `L op R` with ONE top-level comparison.
func k2Cmp(a string) (l, op, r string, ok bool) {
	n := 0
	for _, o := range k2CmpOps {
		if p := k2SplitTop(a, o); len(p) == 2 {
			// " < " also matches inside " <= "? no: the separators carry their blanks
			l, op, r = p[0], o, p[1]
			n++
		} else if len(p) > 2 {
			return "", "", "", false
		}
	}
	return l, op, r, n == 1
}

func k2HasTopBinary(a string) bool {
	for _, o := range []string{" || ", " && ", " == ", " != ", " <= ", " >= ", " < ", " > ", " + ", " - ", " * ", " / ", " % ", " & ", " | ", " ^ ", " << ", " >> ", " &^ "} {
		if len(k2SplitTop(a, o)) > 1 {
			return true
		}
	}
	return false
}

// k2Neg: the negation of an atom: the comparison flipped, a `!` removed or added.
func k2Neg(a string) string {
	if l, op, r, ok := k2Cmp(a); ok {
		return l + k2CmpNeg[op] + r
	}
	if strings.HasPrefix(a, "!") {
		in := a[1:]
		if x, ok := k2Outer(in); ok {
			return x
		}
		if !k2HasTopBinary(in) {
			return in
		}
	}
	if k2HasTopBinary(a) {
		return "!(" + a + ")"
	}
	return "!" + a
}

// k2FormatStr: the format + arguments form of a canonical string-valued expression: string literals are the text,
// `fmt.Sprintf("…", a, b)` is its format, every other operand of `+` is a `%s` with the operand as argument;
// `strconv.Itoa(x)` / `strconv.FormatInt(x, 10)` count as x.  The plain verbs %s %v %d are all written `%s` (for a
// string operand they print the same bytes, for an integer operand %v, %d and Itoa do); any other verb stays as written.
// ok = the expression contains at least one literal piece (otherwise it is not recognisably a built string).
func k2FormatStr(c string) (fm string, args []string, ok bool) {
	c = strings.TrimSpace(c)
	for {
		in, isOuter := k2Outer(c)
		if !isOuter {
			break
		}
		c = in
	}
	var b strings.Builder
	for _, p := range k2SplitTop(c, " + ") {
		p = strings.TrimSpace(p)
		for {
			in, isOuter := k2Outer(p)
			if !isOuter {
				break
			}
			p = in
		}
		if len(p) >= 2 && p[0] == '"' {
			if s, err := strconv.Unquote(p); err == nil {
				b.WriteString(strings.ReplaceAll(s, "%", "%%"))
				ok = true
				continue
			}
		}
		if strings.HasPrefix(p, "fmt.Sprintf(") && strings.HasSuffix(p, ")") {
			as := k2SplitTop(p[len("fmt.Sprintf("):len(p)-1], ", ")
			if len(as) >= 1 && len(as[0]) >= 2 && as[0][0] == '"' {
				if s, err := strconv.Unquote(as[0]); err == nil {
					// normalise the plain verbs
					for i := 0; i < len(s); i++ {
						if s[i] != '%' || i+1 >= len(s) {
							b.WriteByte(s[i])
							continue
						}
						switch s[i+1] {
						case '%':
							b.WriteString("%%")
						case 's', 'v', 'd':
							b.WriteString("%s")
						default:
							b.WriteByte('%')
							b.WriteByte(s[i+1])
						}
						i++
					}
					args = append(args, as[1:]...)
					ok = true
					continue
				}
			}
		}
		if strings.HasPrefix(p, "strconv.Itoa(") && strings.HasSuffix(p, ")") {
			b.WriteString("%s")
			args = append(args, p[len("strconv.Itoa("):len(p)-1])
			continue
		}
		if strings.HasPrefix(p, "strconv.FormatInt(") && strings.HasSuffix(p, ", 10)") {
			b.WriteString("%s")
			args = append(args, p[len("strconv.FormatInt("):len(p)-len(", 10)")])
			continue
		}
		b.WriteString("%s")
		args = append(args, p)
	}
	return b.String(), args, ok
}

// ------------------------------------------------------------------------------------------------------ constants

// k2Consts: the values of the constants a package can name: its own, and those of the repository's packages it
// imports (as `pkg.Name`).  Only what can be evaluated syntactically: integer / string literals, iota, implicit
// repetition, a conversion T(x), + - * << | of those.
type k2Consts struct {
	val map[string]string
}

const k2Module = "github.com/inbucket/inbucket/v3/"

func k2LoadConsts(p *k1Pkg) *k2Consts {
	c := &k2Consts{val: map[string]string{}}
	if p == nil {
		return c
	}
	for _, f := range p.files {
		k2FileConsts(f, "", c.val)
	}
	done := map[string]bool{}
	for _, f := range p.files {
		for _, im := range f.Imports {
			path, err := strconv.Unquote(im.Path.Value)
			if err != nil || !strings.HasPrefix(path, k2Module) {
				continue
			}
			rel := path[len(k2Module):]
			name := filepath.Base(rel)
			if im.Name != nil {
				name = im.Name.Name
			}
			if done[name+"="+rel] {
				continue
			}
			done[name+"="+rel] = true
			ents, err := os.ReadDir(filepath.Join(repo, rel))
			if err != nil {
				continue
			}
			for _, e := range ents {
				n := e.Name()
				if e.IsDir() || !strings.HasSuffix(n, ".go") || strings.HasSuffix(n, "_test.go") {
					continue
				}
				if pf := parse(rel + "/" + n); pf != nil {
					k2FileConsts(pf, name+".", c.val)
				}
			}
		}
	}
	return c
}

func k2FileConsts(f *ast.File, prefix string, out map[string]string) {
	for _, d := range f.Decls {
		gd, ok := d.(*ast.GenDecl)
		if !ok || gd.Tok != token.CONST {
			continue
		}
		var last []ast.Expr
		for iota, sp := range gd.Specs {
			vs, ok := sp.(*ast.ValueSpec)
			if !ok {
				continue
			}
			if len(vs.Values) > 0 {
				last = vs.Values
			}
			for i, nm := range vs.Names {
				if i < len(last) {
					if v, ok := k2ConstExpr(last[i], iota, prefix, out); ok {
						out[prefix+nm.Name] = v
					}
				}
			}
		}
	}
}

func k2ConstExpr(x ast.Expr, iota int, prefix string, known map[string]string) (string, bool) {
	switch v := k1Unparen(x).(type) {
	case *ast.BasicLit:
		switch v.Kind {
		case token.INT:
			if n, err := strconv.ParseInt(v.Value, 0, 64); err == nil {
				return strconv.FormatInt(n, 10), true
			}
		case token.STRING:
			if s, err := strconv.Unquote(v.Value); err == nil {
				return strconv.Quote(s), true
			}
		case token.CHAR:
			return v.Value, true
		}
	case *ast.Ident:
		if v.Name == "iota" {
			return strconv.Itoa(iota), true
		}
		if s, ok := known[prefix+v.Name]; ok {
			return s, true
		}
	case *ast.CallExpr: // a conversion T(x)
		if len(v.Args) == 1 {
			if _, isId := v.Fun.(*ast.Ident); isId {
				return k2ConstExpr(v.Args[0], iota, prefix, known)
			}
		}
	case *ast.UnaryExpr:
		if v.Op == token.SUB {
			if s, ok := k2ConstExpr(v.X, iota, prefix, known); ok {
				if n, err := strconv.ParseInt(s, 10, 64); err == nil {
					return strconv.FormatInt(-n, 10), true
				}
			}
		}
	case *ast.BinaryExpr:
		a, ok1 := k2ConstExpr(v.X, iota, prefix, known)
		b, ok2 := k2ConstExpr(v.Y, iota, prefix, known)
		if ok1 && ok2 {
			m, e1 := strconv.ParseInt(a, 10, 64)
			n, e2 := strconv.ParseInt(b, 10, 64)
			if e1 == nil && e2 == nil {
				switch v.Op {
				case token.ADD:
					return strconv.FormatInt(m+n, 10), true
				case token.SUB:
					return strconv.FormatInt(m-n, 10), true
				case token.MUL:
					return strconv.FormatInt(m*n, 10), true
				case token.SHL:
					if n >= 0 && n < 63 {
						return strconv.FormatInt(m<<uint(n), 10), true
					}
				case token.OR:
					return strconv.FormatInt(m|n, 10), true
				}
			}
		}
	}
	return "", false
}

// value: the constant a canonical operand denotes (a literal, or a known constant name).
func (c *k2Consts) value(s string) (string, bool) {
	if s == "" {
		return "", false
	}
	if s == "true" || s == "false" || s == "nil" {
		return s, true
	}
	if s[0] == '"' {
		if u, err := strconv.Unquote(s); err == nil {
			return strconv.Quote(u), true
		}
		return "", false
	}
	if s[0] == '\'' {
		return s, true
	}
	if n, err := strconv.ParseInt(s, 0, 64); err == nil {
		return strconv.FormatInt(n, 10), true
	}
	if c != nil {
		if v, ok := c.val[s]; ok {
			return v, true
		}
	}
	return "", false
}

// ---------------------------------------------------------------------------------------------------------- walker

type k2State struct {
	vals  map[*ast.Object]string     // the value of a local on this path
	subst map[*ast.CallExpr]string   // result 0 of the helper calls executed in place (for rendering)
	multi map[*ast.CallExpr][]string // all results of such a call
	items []string                   // `[guard]` and events, in evaluation order
}

func k2NewState(init map[*ast.Object]string) *k2State {
	st := &k2State{vals: map[*ast.Object]string{}, subst: map[*ast.CallExpr]string{}, multi: map[*ast.CallExpr][]string{}}
	for o, v := range init {
		st.vals[o] = v
	}
	return st
}

func (st *k2State) clone() *k2State {
	n := &k2State{vals: make(map[*ast.Object]string, len(st.vals)), subst: make(map[*ast.CallExpr]string, len(st.subst)),
		multi: make(map[*ast.CallExpr][]string, len(st.multi)), items: append([]string{}, st.items...)}
	for o, v := range st.vals {
		n.vals[o] = v
	}
	for c, v := range st.subst {
		n.subst[c] = v
	}
	for c, v := range st.multi {
		n.multi[c] = v
	}
	return n
}

type k2Out struct {
	st   *k2State
	term string // "" = goes on; "return", "break", "continue", "panic"
	rets []string
}

type k2Path struct {
	items []string
	term  string
	rets  []string
}

type k2Walker struct {
	pkg      *k1Pkg
	classify k1Classify
	assign   func(e *k1Env, lhs, rhs ast.Expr) string
	elide    func(*ast.CallExpr) (string, bool)
	opaque   func(fd *ast.FuncDecl) bool // helpers never executed in place
	pinned   map[*ast.Object]bool        // locals that keep the name they start with, whatever is assigned to them
	consts   *k2Consts
	overflow bool
	limit    int
	stack    []*ast.FuncDecl
	hasEv    map[*ast.FuncDecl]int
	envs     map[*ast.FuncDecl]*k1Env
}

func k2NewWalker(p *k1Pkg) *k2Walker {
	return &k2Walker{pkg: p, consts: k2LoadConsts(p), limit: 6000, hasEv: map[*ast.FuncDecl]int{}, envs: map[*ast.FuncDecl]*k1Env{}}
}

// with: run f with e rendering under the values of st.
func (w *k2Walker) with(e *k1Env, st *k2State, f func()) {
	so, se := e.override, e.elide
	e.override = st.vals
	e.elide = func(ce *ast.CallExpr) (string, bool) {
		if s, ok := st.subst[ce]; ok {
			return s, true
		}
		if w.elide != nil {
			return w.elide(ce)
		}
		return "", false
	}
	defer func() { e.override, e.elide = so, se }()
	f()
}

func (w *k2Walker) canon(e *k1Env, st *k2State, x ast.Expr) string {
	s := ""
	w.with(e, st, func() { s = e.canon(x) })
	return s
}

func (w *k2Walker) plainEnv(fd *ast.FuncDecl) *k1Env {
	if e, ok := w.envs[fd]; ok {
		return e
	}
	e := k1NewEnv(w.pkg, fd)
	w.envs[fd] = e
	return e
}

// hasEvents: fd (transitively, through the package's unexported helpers) contains a call or an assignment the fact
// reports.
func (w *k2Walker) hasEvents(fd *ast.FuncDecl) bool {
	switch w.hasEv[fd] {
	case 1:
		return false
	case 2:
		return true
	}
	w.hasEv[fd] = 1 // recursion: assume none
	e := w.plainEnv(fd)
	found := false
	ast.Inspect(fd.Body, func(n ast.Node) bool {
		if found {
			return false
		}
		switch v := n.(type) {
		case *ast.FuncLit:
			return false
		case *ast.CallExpr:
			label, descend := w.classify(e, v)
			if label != "" {
				found = true
				return false
			}
			if c := w.pkg.resolve(v); c != nil && descend && !k1Exported(c.Name.Name) && c != fd && w.hasEvents(c) {
				found = true
				return false
			}
		case *ast.AssignStmt:
			if w.assign != nil && len(v.Lhs) == len(v.Rhs) {
				for i := range v.Lhs {
					if w.assign(e, v.Lhs[i], v.Rhs[i]) != "" {
						found = true
					}
				}
			}
		}
		return true
	})
	if found {
		w.hasEv[fd] = 2
	}
	return found
}

func (w *k2Walker) inlinable(e *k1Env, fd *ast.FuncDecl) bool {
	if fd == nil || fd.Body == nil || k1Exported(fd.Name.Name) || e.level >= 5 || len(w.stack) >= 8 {
		return false
	}
	if w.opaque != nil && w.opaque(fd) {
		return false
	}
	for _, s := range w.stack {
		if s == fd {
			return false
		}
	}
	return fd != e.fd && w.hasEvents(fd)
}

// ---- guards

// addGuard: the atom holds on this path.  false = the path is impossible (the opposite was already decided).
func (st *k2State) addGuard(a string) bool {
	g, ng := "["+a+"]", "["+k2Neg(a)+"]"
	for _, x := range st.items {
		if x == g {
			return true
		}
		if x == ng {
			return false
		}
	}
	st.items = append(st.items, g)
	return true
}

// fold: the value of an atom when it is known without deciding anything.
func (w *k2Walker) fold(st *k2State, a string) (val, known bool) {
	switch a {
	case "true":
		return true, true
	case "false":
		return false, true
	}
	if l, op, r, ok := k2Cmp(a); ok && (op == " == " || op == " != ") {
		if l == r {
			return op == " == ", true
		}
		lv, ok1 := w.consts.value(l)
		rv, ok2 := w.consts.value(r)
		if ok1 && ok2 {
			return (lv == rv) == (op == " == "), true
		}
	}
	g, ng := "["+a+"]", "["+k2Neg(a)+"]"
	for _, x := range st.items {
		if x == g {
			return true, true
		}
		if x == ng {
			return false, true
		}
	}
	return false, false
}

type k2Branch struct {
	st  *k2State
	val bool
}

// condStr: decide a canonical condition text on st.
func (w *k2Walker) condStr(st *k2State, c string) []k2Branch {
	c = strings.TrimSpace(c)
	if parts := k2SplitTop(c, " || "); len(parts) > 1 {
		var res []k2Branch
		cur := []*k2State{st}
		for _, p := range parts {
			var next []*k2State
			for _, s := range cur {
				for _, b := range w.condStr(s, p) {
					if b.val {
						res = append(res, b)
					} else {
						next = append(next, b.st)
					}
				}
			}
			cur = next
		}
		for _, s := range cur {
			res = append(res, k2Branch{s, false})
		}
		return res
	}
	if parts := k2SplitTop(c, " && "); len(parts) > 1 {
		var res []k2Branch
		cur := []*k2State{st}
		for _, p := range parts {
			var next []*k2State
			for _, s := range cur {
				for _, b := range w.condStr(s, p) {
					if !b.val {
						res = append(res, b)
					} else {
						next = append(next, b.st)
					}
				}
			}
			cur = next
		}
		for _, s := range cur {
			res = append(res, k2Branch{s, true})
		}
		return res
	}
	if in, ok := k2Outer(c); ok {
		return w.condStr(st, in)
	}
	if strings.HasPrefix(c, "!") {
		in := c[1:]
		if x, ok := k2Outer(in); ok {
			in = x
		} else if k2HasTopBinary(in) {
			in = ""
		}
		if in != "" {
			bs := w.condStr(st, in)
			for i := range bs {
				bs[i].val = !bs[i].val
			}
			return bs
		}
	}
	if v, known := w.fold(st, c); known {
		return []k2Branch{{st, v}}
	}
	// prefer the comparison with the positive operator as the atom that is written down
	t, f := st.clone(), st.clone()
	var res []k2Branch
	if t.addGuard(c) {
		res = append(res, k2Branch{t, true})
	}
	if f.addGuard(k2Neg(c)) {
		res = append(res, k2Branch{f, false})
	}
	return res
}

// cond: decide a condition expression on st (short-circuit order, the calls inside an operand evaluated only on the
// paths that reach it).
func (w *k2Walker) cond(e *k1Env, st *k2State, x ast.Expr) []k2Branch {
	x = k1Unparen(x)
	switch v := x.(type) {
	case *ast.UnaryExpr:
		if v.Op == token.NOT {
			bs := w.cond(e, st, v.X)
			for i := range bs {
				bs[i].val = !bs[i].val
			}
			return bs
		}
	case *ast.BinaryExpr:
		if v.Op == token.LAND || v.Op == token.LOR {
			var res []k2Branch
			for _, b := range w.cond(e, st, v.X) {
				if b.val == (v.Op == token.LOR) {
					res = append(res, b)
				} else {
					res = append(res, w.cond(e, b.st, v.Y)...)
				}
			}
			return res
		}
	}
	var res []k2Branch
	for _, s := range w.eval(e, st, x) {
		res = append(res, w.condStr(s, w.canon(e, s, x))...)
	}
	return res
}

// ---- expressions

// orderedCalls: the calls inside n in evaluation order (arguments before the call), function literals excluded.
func k2OrderedCalls(n ast.Node) []*ast.CallExpr {
	var res []*ast.CallExpr
	var visit func(x ast.Node)
	visit = func(x ast.Node) {
		if x == nil {
			return
		}
		switch v := x.(type) {
		case *ast.FuncLit:
			return
		case *ast.CallExpr:
			visit(v.Fun)
			for _, a := range v.Args {
				visit(a)
			}
			res = append(res, v)
			return
		}
		ast.Inspect(x, func(y ast.Node) bool {
			if y == x {
				return true
			}
			if y != nil {
				visit(y)
			}
			return false
		})
	}
	visit(n)
	return res
}

// eval: evaluate the calls inside x on st: events are recorded, helpers with events are executed in place (which may
// split the state); afterwards canon(x) renders x on each returned state.
func (w *k2Walker) eval(e *k1Env, st *k2State, x ast.Node) []*k2State {
	if x == nil || isNilNode(x) {
		return []*k2State{st}
	}
	cur := []*k2State{st}
	for _, ce := range k2OrderedCalls(x) {
		var next []*k2State
		for _, s := range cur {
			next = append(next, w.call(e, s, ce, "")...)
		}
		cur = next
		if len(cur) > w.limit {
			w.overflow = true
			return cur[:1]
		}
	}
	return cur
}

// call: one call on st.  mark = "" | "defer:" | "go:".
func (w *k2Walker) call(e *k1Env, st *k2State, ce *ast.CallExpr, mark string) []*k2State {
	label, descend := "", false
	w.with(e, st, func() { label, descend = w.classify(e, ce) })
	if label != "" {
		st.items = append(st.items, mark+label)
	}
	fd := w.pkg.resolve(ce)
	if fd == nil || !descend || !w.inlinable(e, fd) {
		return []*k2State{st}
	}
	if mark != "" {
		st.items = append(st.items, mark+"unknown:helper")
		return []*k2State{st}
	}
	var sub *k1Env
	w.with(e, st, func() { sub = e.sub(fd, ce) })
	sub.depth = 0
	in := st.clone()
	for ob, pv := range sub.params {
		in.vals[ob] = pv
	}
	// named results start at their zero value
	var named []*ast.Object
	if fd.Type.Results != nil {
		for _, f := range fd.Type.Results.List {
			for _, nm := range f.Names {
				if nm.Obj != nil {
					in.vals[nm.Obj] = k2Zero(f.Type)
					named = append(named, nm.Obj)
				}
			}
		}
	}
	w.stack = append(w.stack, fd)
	outs := w.block(sub, in, fd.Body.List)
	w.stack = w.stack[:len(w.stack)-1]
	nres := k1NumResults(fd)
	var live []k2Out
	for _, o := range outs {
		switch o.term {
		case "", "return":
			rets := o.rets
			if len(rets) != nres {
				rets = nil
				if len(named) == nres {
					for _, ob := range named {
						rets = append(rets, o.st.vals[ob])
					}
				} else {
					for i := 0; i < nres; i++ {
						rets = append(rets, "$unknown")
					}
				}
			}
			// the helper's locals end here
			for ob := range o.st.vals {
				if ob.Pos() >= fd.Pos() && ob.Pos() <= fd.End() {
					delete(o.st.vals, ob)
				}
			}
			live = append(live, k2Out{st: o.st, rets: rets})
		default:
			o.st.items = append(o.st.items, "unknown:"+o.term+" leaves helper")
			live = append(live, k2Out{st: o.st, rets: make([]string, nres)})
		}
	}
	var res []*k2State
	for _, o := range live {
		if len(o.rets) > 0 {
			o.st.subst[ce] = o.rets[0]
		} else {
			o.st.subst[ce] = "$none"
		}
		o.st.multi[ce] = o.rets
		res = append(res, o.st)
	}
	return res
}

func k2Zero(t ast.Expr) string {
	switch v := t.(type) {
	case *ast.Ident:
		switch v.Name {
		case "string":
			return `""`
		case "bool":
			return "false"
		case "int", "int8", "int16", "int32", "int64", "uint", "uint8", "uint16", "uint32", "uint64", "uintptr", "byte", "rune", "float32", "float64":
			return "0"
		case "error":
			return "nil"
		}
		return "$zero(" + v.Name + ")"
	case *ast.StarExpr, *ast.ArrayType, *ast.MapType, *ast.ChanType, *ast.FuncType, *ast.InterfaceType:
		if a, ok := v.(*ast.ArrayType); ok && a.Len != nil {
			return "$zero(" + src(t) + ")"
		}
		return "nil"
	}
	return "$zero(" + src(t) + ")"
}

func k2Compound(s ast.Stmt) bool {
	switch s.(type) {
	case *ast.IfStmt, *ast.SwitchStmt, *ast.TypeSwitchStmt, *ast.ForStmt, *ast.RangeStmt, *ast.BlockStmt, *ast.SelectStmt, *ast.LabeledStmt:
		return true
	}
	return false
}

// ---- statements

func (w *k2Walker) block(e *k1Env, st *k2State, list []ast.Stmt) []k2Out {
	live := []*k2State{st}
	var done []k2Out
	for _, s := range list {
		var next []*k2State
		for _, cur := range live {
			outs := w.stmt(e, cur, s)
			if k2Compound(s) {
				for _, o := range outs {
					if o.term == "" {
						for ob := range o.st.vals {
							if ob.Pos() >= s.Pos() && ob.Pos() < s.End() {
								delete(o.st.vals, ob)
							}
						}
					}
				}
			}
			for _, o := range outs {
				if o.term == "" {
					next = append(next, o.st)
				} else {
					done = append(done, o)
				}
			}
		}
		live = next
		if len(live)+len(done) > w.limit {
			w.overflow = true
			break
		}
	}
	for _, cur := range live {
		done = append(done, k2Out{st: cur})
	}
	return done
}

func k2Live(sts []*k2State) []k2Out {
	var res []k2Out
	for _, s := range sts {
		res = append(res, k2Out{st: s})
	}
	return res
}

func (w *k2Walker) bind(st *k2State, lhs ast.Expr, val string) {
	if id, ok := k1Unparen(lhs).(*ast.Ident); ok && id.Obj != nil && id.Name != "_" && id.Obj.Kind == ast.Var && !w.pinned[id.Obj] {
		st.vals[id.Obj] = val
	}
}

// assigned: the local objects assigned (or ++/--, or address taken) under n.
func k2Assigned(n ast.Node) []*ast.Object {
	var res []*ast.Object
	seen := map[*ast.Object]bool{}
	add := func(x ast.Expr) {
		if id, ok := k1Unparen(x).(*ast.Ident); ok && id.Obj != nil && id.Obj.Kind == ast.Var && !seen[id.Obj] {
			seen[id.Obj] = true
			res = append(res, id.Obj)
		}
	}
	ast.Inspect(n, func(x ast.Node) bool {
		switch v := x.(type) {
		case *ast.AssignStmt:
			for _, l := range v.Lhs {
				add(l)
			}
		case *ast.IncDecStmt:
			add(v.X)
		case *ast.RangeStmt:
			if v.Key != nil {
				add(v.Key)
			}
			if v.Value != nil {
				add(v.Value)
			}
		case *ast.UnaryExpr:
			if v.Op == token.AND {
				add(v.X)
			}
		}
		return true
	})
	return res
}

func (w *k2Walker) stmt(e *k1Env, st *k2State, s ast.Stmt) []k2Out {
	switch v := s.(type) {
	case nil:
		return []k2Out{{st: st}}
	case *ast.EmptyStmt:
		return []k2Out{{st: st}}
	case *ast.ExprStmt:
		if ce, ok := axBuiltin(k1Unparen(v.X), "panic"); ok {
			var res []k2Out
			for _, s2 := range w.eval(e, st, ce) {
				res = append(res, k2Out{st: s2, term: "panic"})
			}
			return res
		}
		return k2Live(w.eval(e, st, v.X))
	case *ast.AssignStmt:
		return w.assignStmt(e, st, v)
	case *ast.DeclStmt:
		gd, ok := v.Decl.(*ast.GenDecl)
		if !ok || gd.Tok != token.VAR {
			return []k2Out{{st: st}}
		}
		cur := []*k2State{st}
		for _, sp := range gd.Specs {
			vs, ok := sp.(*ast.ValueSpec)
			if !ok {
				continue
			}
			var next []*k2State
			for _, c := range cur {
				switch {
				case len(vs.Values) == 0:
					for _, nm := range vs.Names {
						w.bind(c, nm, k2Zero(vs.Type))
					}
					next = append(next, c)
				case len(vs.Values) == len(vs.Names):
					sts := []*k2State{c}
					for _, val := range vs.Values {
						var n2 []*k2State
						for _, s2 := range sts {
							n2 = append(n2, w.eval(e, s2, val)...)
						}
						sts = n2
					}
					for _, s2 := range sts {
						var vals []string
						for _, val := range vs.Values {
							vals = append(vals, w.canon(e, s2, val))
						}
						for i, nm := range vs.Names {
							w.bind(s2, nm, vals[i])
						}
						next = append(next, s2)
					}
				default:
					for _, s2 := range w.eval(e, c, vs.Values[0]) {
						for i, nm := range vs.Names {
							w.bind(s2, nm, w.tupleVal(e, s2, vs.Values[0], i))
						}
						next = append(next, s2)
					}
				}
			}
			cur = next
		}
		return k2Live(cur)
	case *ast.IncDecStmt:
		w.bind(st, v.X, "$v")
		return []k2Out{{st: st}}
	case *ast.ReturnStmt:
		cur := []*k2State{st}
		for _, r := range v.Results {
			var next []*k2State
			for _, c := range cur {
				next = append(next, w.eval(e, c, r)...)
			}
			cur = next
		}
		var res []k2Out
		for _, c := range cur {
			var rets []string
			if len(v.Results) == 1 {
				if ce, ok := k1Unparen(v.Results[0]).(*ast.CallExpr); ok {
					if m, ok := c.multi[ce]; ok && len(m) > 1 {
						rets = m
					}
				}
			}
			if rets == nil {
				for _, r := range v.Results {
					rets = append(rets, w.canon(e, c, r))
				}
			}
			res = append(res, k2Out{st: c, term: "return", rets: rets})
		}
		return res
	case *ast.BranchStmt:
		switch {
		case v.Tok == token.BREAK && v.Label == nil:
			return []k2Out{{st: st, term: "break"}}
		case v.Tok == token.CONTINUE && v.Label == nil:
			return []k2Out{{st: st, term: "continue"}}
		}
		st.items = append(st.items, "unknown:"+v.Tok.String())
		return []k2Out{{st: st, term: "return"}}
	case *ast.BlockStmt:
		return w.block(e, st, v.List)
	case *ast.LabeledStmt:
		st.items = append(st.items, "unknown:label")
		return w.stmt(e, st, v.Stmt)
	case *ast.IfStmt:
		var res []k2Out
		for _, o := range w.stmt(e, st, v.Init) {
			if o.term != "" {
				res = append(res, o)
				continue
			}
			for _, b := range w.cond(e, o.st, v.Cond) {
				switch {
				case b.val:
					res = append(res, w.block(e, b.st, v.Body.List)...)
				case v.Else != nil:
					res = append(res, w.stmt(e, b.st, v.Else)...)
				default:
					res = append(res, k2Out{st: b.st})
				}
			}
		}
		return res
	case *ast.SwitchStmt:
		return w.switchStmt(e, st, v)
	case *ast.TypeSwitchStmt:
		st.items = append(st.items, "unknown:typeswitch")
		return []k2Out{{st: st}}
	case *ast.SelectStmt:
		st.items = append(st.items, "unknown:select")
		return []k2Out{{st: st}}
	case *ast.ForStmt:
		return w.loop(e, st, v.Init, v.Cond, v.Post, nil, v.Body, v)
	case *ast.RangeStmt:
		return w.loop(e, st, nil, nil, nil, v, v.Body, v)
	case *ast.DeferStmt:
		return w.marked(e, st, v.Call, "defer:")
	case *ast.GoStmt:
		return w.marked(e, st, v.Call, "go:")
	}
	return k2Live(w.eval(e, st, s))
}

func (w *k2Walker) marked(e *k1Env, st *k2State, ce *ast.CallExpr, mark string) []k2Out {
	cur := []*k2State{st}
	for _, a := range ce.Args {
		var next []*k2State
		for _, c := range cur {
			next = append(next, w.eval(e, c, a)...)
		}
		cur = next
	}
	var res []*k2State
	for _, c := range cur {
		res = append(res, w.call(e, c, ce, mark)...)
	}
	return k2Live(res)
}

// tupleVal: result i of a multi-valued right-hand side.
func (w *k2Walker) tupleVal(e *k1Env, st *k2State, rhs ast.Expr, i int) string {
	if ce, ok := k1Unparen(rhs).(*ast.CallExpr); ok {
		if m, ok := st.multi[ce]; ok {
			if i < len(m) {
				return m[i]
			}
			return "$unknown"
		}
		s := ""
		w.with(e, st, func() { s = e.call(ce, i) })
		return s
	}
	return w.canon(e, st, rhs) + "#" + strconv.Itoa(i)
}

func (w *k2Walker) assignStmt(e *k1Env, st *k2State, v *ast.AssignStmt) []k2Out {
	if v.Tok != token.DEFINE && v.Tok != token.ASSIGN {
		// op-assignment
		var res []*k2State
		for _, c := range w.eval(e, st, v) {
			for _, l := range v.Lhs {
				w.bind(c, l, "$v")
			}
			res = append(res, c)
		}
		return k2Live(res)
	}
	cur := []*k2State{st}
	for _, r := range v.Rhs {
		var next []*k2State
		for _, c := range cur {
			next = append(next, w.eval(e, c, r)...)
		}
		cur = next
	}
	for _, l := range v.Lhs {
		if _, isId := k1Unparen(l).(*ast.Ident); isId {
			continue
		}
		var next []*k2State
		for _, c := range cur {
			next = append(next, w.eval(e, c, l)...)
		}
		cur = next
	}
	for _, c := range cur {
		var vals []string
		switch {
		case len(v.Lhs) == len(v.Rhs):
			for _, r := range v.Rhs {
				vals = append(vals, w.canon(e, c, r))
			}
			if w.assign != nil {
				for i := range v.Lhs {
					ev := ""
					w.with(e, c, func() { ev = w.assign(e, v.Lhs[i], v.Rhs[i]) })
					if ev != "" {
						c.items = append(c.items, ev)
					}
				}
			}
		case len(v.Rhs) == 1:
			for i := range v.Lhs {
				vals = append(vals, w.tupleVal(e, c, v.Rhs[0], i))
			}
		default:
			for range v.Lhs {
				vals = append(vals, "$unknown")
			}
		}
		for i, l := range v.Lhs {
			w.bind(c, l, vals[i])
		}
	}
	return k2Live(cur)
}

func (w *k2Walker) switchStmt(e *k1Env, st *k2State, v *ast.SwitchStmt) []k2Out {
	var res []k2Out
	for _, o := range w.stmt(e, st, v.Init) {
		if o.term != "" {
			res = append(res, o)
			continue
		}
		starts := []*k2State{o.st}
		if v.Tag != nil {
			starts = w.eval(e, o.st, v.Tag)
		}
		for _, s0 := range starts {
			tag := ""
			if v.Tag != nil {
				tag = w.canon(e, s0, v.Tag)
				if k2HasTopBinary(tag) {
					tag = "(" + tag + ")"
				}
			}
			open := []*k2State{s0} // no clause matched yet
			var def *ast.CaseClause
			body := func(sts []*k2State, cc *ast.CaseClause) {
				for _, s := range sts {
					for _, bo := range w.block(e, s, cc.Body) {
						if bo.term == "break" {
							bo.term = ""
						}
						if n := len(cc.Body); n > 0 {
							if br, ok := cc.Body[n-1].(*ast.BranchStmt); ok && br.Tok == token.FALLTHROUGH && bo.term == "" {
								bo.st.items = append(bo.st.items, "unknown:fallthrough")
							}
						}
						res = append(res, bo)
					}
				}
			}
			for _, cs := range v.Body.List {
				cc, ok := cs.(*ast.CaseClause)
				if !ok {
					continue
				}
				if cc.List == nil {
					def = cc
					continue
				}
				var matched []*k2State
				for _, x := range cc.List {
					var next []*k2State
					for _, s := range open {
						var bs []k2Branch
						if v.Tag != nil {
							for _, s2 := range w.eval(e, s, x) {
								lab := w.canon(e, s2, x)
								if k2HasTopBinary(lab) {
									lab = "(" + lab + ")"
								}
								bs = append(bs, w.condStr(s2, tag+" == "+lab)...)
							}
						} else {
							bs = w.cond(e, s, x)
						}
						for _, b := range bs {
							if b.val {
								matched = append(matched, b.st)
							} else {
								next = append(next, b.st)
							}
						}
					}
					open = next
				}
				body(matched, cc)
			}
			if def != nil {
				body(open, def)
			} else {
				res = append(res, k2Live(open)...)
			}
		}
	}
	return res
}

// loop: the body is executed once from a state in which everything the loop assigns is unknown; what it does is
// marked `*` (zero or more times); a return from inside is an exit `[loop]; *…; return`.
func (w *k2Walker) loop(e *k1Env, st *k2State, init ast.Stmt, cond ast.Expr, post ast.Stmt, rg *ast.RangeStmt, body *ast.BlockStmt, whole ast.Stmt) []k2Out {
	var res []k2Out
	for _, o := range w.stmt(e, st, init) {
		if o.term != "" {
			res = append(res, o)
			continue
		}
		starts := []*k2State{o.st}
		if rg != nil {
			starts = w.eval(e, o.st, rg.X)
		}
		for _, s0 := range starts {
			base := len(s0.items)
			in := s0.clone()
			for _, ob := range k2Assigned(whole) {
				if _, has := in.vals[ob]; has || (ob.Pos() >= whole.Pos() && ob.Pos() < whole.End()) {
					in.vals[ob] = "$v"
				}
			}
			if rg != nil {
				x := w.canon(e, s0, rg.X)
				if rg.Key != nil {
					w.bind(in, rg.Key, "$key("+x+")")
				}
				if rg.Value != nil {
					w.bind(in, rg.Value, "$each("+x+")")
				}
			}
			var stmts []ast.Stmt
			if cond != nil {
				stmts = append(stmts, &ast.ExprStmt{X: cond})
			}
			stmts = append(stmts, body.List...)
			if post != nil {
				stmts = append(stmts, post)
			}
			after := s0.clone()
			for _, ob := range k2Assigned(whole) {
				if _, has := after.vals[ob]; has {
					after.vals[ob] = "$v"
				}
			}
			seen := map[string]bool{}
			for _, bo := range w.block(e, in, stmts) {
				var evs []string
				for _, x := range bo.st.items[base:] {
					if strings.HasPrefix(x, "[") {
						continue
					}
					if !strings.HasPrefix(x, "*") {
						x = "*" + x
					}
					evs = append(evs, x)
				}
				if bo.term == "return" || bo.term == "panic" {
					ex := s0.clone()
					ex.items = append(append(ex.items, "[loop]"), evs...)
					res = append(res, k2Out{st: ex, term: bo.term, rets: bo.rets})
					continue
				}
				for _, x := range evs {
					if !seen[x] {
						seen[x] = true
						after.items = append(after.items, x)
					}
				}
			}
			res = append(res, k2Out{st: after})
		}
	}
	return res
}

// ------------------------------------------------------------------------------------------------------- results

// paths: the exits of a statement list started in a state that knows init.
func (w *k2Walker) paths(e *k1Env, init map[*ast.Object]string, list []ast.Stmt) []k2Path {
	st := k2NewState(e.override)
	for o, v := range e.params {
		if _, has := st.vals[o]; !has {
			st.vals[o] = v
		}
	}
	for o, v := range init {
		st.vals[o] = v
	}
	var res []k2Path
	for _, o := range w.block(e, st, list) {
		res = append(res, k2Path{items: o.st.items, term: o.term, rets: o.rets})
	}
	if w.overflow {
		res = append(res, k2Path{items: []string{"unknown:overflow"}, term: "return"})
	}
	return res
}

func k2PathString(p k2Path) string {
	t := p.term
	if t == "" {
		t = "end"
	}
	return strings.Join(append(append([]string{}, p.items...), t), "; ")
}

// k2Canonical: the exits as a set of strings: two exits that are the same up to the polarity of ONE guard are one exit
// without that guard (`if a { R } else { R }` is R); sorted; duplicates removed.
func k2CanonicalPaths(ps []k2Path) []k2Path {
	// only exits with the same events and the same terminator can be the same exit: work bucket by bucket
	type path struct {
		items []string
		term  string
	}
	buckets := map[string][]path{}
	var order []string
	for _, p := range ps {
		var ev []string
		for _, x := range p.items {
			if !strings.HasPrefix(x, "[") {
				ev = append(ev, x)
			}
		}
		key := p.term + "\x00" + strings.Join(ev, "\x01")
		if _, ok := buckets[key]; !ok {
			order = append(order, key)
		}
		buckets[key] = append(buckets[key], path{append([]string{}, p.items...), p.term})
	}
	out := []k2Path{}
	for _, key := range order {
		l := buckets[key]
		for changed := true; changed; {
			changed = false
		outer:
			for i := 0; i < len(l); i++ {
				for j := i + 1; j < len(l); j++ {
					a, b := l[i], l[j]
					if len(a.items) != len(b.items) {
						continue
					}
					diff := -1
					for k := range a.items {
						if a.items[k] != b.items[k] {
							if diff >= 0 {
								diff = -2
								break
							}
							diff = k
						}
					}
					if diff == -1 {
						l = append(l[:j], l[j+1:]...)
						changed = true
						break outer
					}
					if diff >= 0 && strings.HasPrefix(a.items[diff], "[") && strings.HasPrefix(b.items[diff], "[") &&
						"["+k2Neg(a.items[diff][1:len(a.items[diff])-1])+"]" == b.items[diff] {
						l[i].items = append(append([]string{}, a.items[:diff]...), a.items[diff+1:]...)
						l = append(l[:j], l[j+1:]...)
						changed = true
						break outer
					}
				}
			}
		}
		for _, p := range l {
			out = append(out, k2Path{items: p.items, term: p.term})
		}
	}
	sort.SliceStable(out, func(i, j int) bool { return k2PathString(out[i]) < k2PathString(out[j]) })
	return out
}

func k2Canonical(ps []k2Path) []string {
	out := []string{}
	for _, p := range k2CanonicalPaths(ps) {
		out = append(out, k2PathString(p))
	}
	return out
}
