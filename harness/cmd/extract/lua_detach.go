package main

// afterHandlersDetach (T1, C17 after events): does an after-listener hand Lua its OWN copies of the address objects?
//
// The fact is computed by EXECUTING the listener on an abstract heap, path by path, up to the statement that enters Lua
// (`<state>.CallByParam`), following the package's own helpers in place (a helper is executed with the caller's values:
// a tail shared by both listeners, a nil-preserving clone helper, a helper that receives &msg …).  Spelling does not
// matter; what is recorded is what the heap looks like when Lua is entered:
//
//   objects   meta   an event.MessageMetadata value (the listener's by-value parameter, copies of it, literals)
//             addr   a mail.Address: SHARED (the event's From object / the generic i-th element of the event's To)
//                    or LOCAL (made by `c := *p`, `&mail.Address{Name: p.Name, Address: p.Address}`, new + `*n = *p`,
//                    field by field) with `copyOf` = the shared object whose content it holds
//             slice  a []*mail.Address: the event's (shared backing array) or FRESH (slices.Clone, append(x[:0:0], x...),
//                    append([]T(nil), x...), make + copy, make + a loop), with its length token (whose length it has) and
//                    what its elements are: the event's pointers (orig) / pointers to copies (copied) / nil (zero) / mixed
//   a loop    over all indices of a slice (range with key and / or value, `for i := 0; i < len(x); i++`) is executed ONCE
//             for the generic index; it may store to t[i] of a fresh slice of that length or append once per iteration to
//             a fresh empty slice — every path through the body must leave a copy (or nil where the element is nil)
//   a branch  on `p == nil` / `len(x) == 0` is an assumption of the path: a nil pointer left alone IS nil-preserving
//
// Verdict over ALL paths that reach the Lua call: `detached` (From is a pointer to a local copy of the event's From — or
// nil where that is nil — and To is a fresh slice of the same length whose elements are copies), `shared` (both are the
// event's), anything else `unknown:<why>` (fail closed: a shape that is not understood is never `detached`).

import (
	"fmt"
	"go/ast"
	"go/token"
	"sort"
	"strings"
)

type dObj struct {
	kind string // meta | addr | slice | opq
	// meta
	from, to *dVal
	// addr
	shared   bool
	id       string
	copyOf   *dObj
	modified bool
	fields   map[string]*dObj
	// slice
	fresh    bool
	tok      string
	elems    string // orig | copied | zero | mixed
	building bool   // empty so far (make(T, 0, n), []T{}, x[:0:0] …)
	// opq: the meta objects it (may) hold
	carries []*dObj
}

type dVal struct {
	kind string // opq nil refS valS ptrA valA slice len idx zero0 fieldA bad
	obj  *dObj
	s    string
}

type dVar struct{ v *dVal }

type dLoop struct {
	tok       string
	scopeBase int
	start     int // value of the object counter when the loop was entered
	stores    map[*dObj]*dVal
	appends   map[*dObj][]*dVal
}

type dFrame struct {
	env       []map[string]*dVar
	scopeBase int
}

type dState struct {
	env      []map[string]*dVar
	frames   []dFrame          // the environments of the callers (helpers are executed in place)
	nilness  map[*dObj]string  // shared addr object -> nil | nonnil
	emptines map[string]string // length token -> empty | nonempty
	elem     *dObj             // the generic element of the event's To
	from0    *dObj             // the event's From object
	loop     *dLoop
	done     string // "" return continue break lua dead ?why
	ret      []*dVal
	verdict  string
	uniq     *int
}

var dOpq = &dVal{kind: "opq"}
var dNil = &dVal{kind: "nil"}

func (st *dState) poison(why string) {
	if !strings.HasPrefix(st.done, "?") {
		st.done = "?" + why
	}
}

func (st *dState) fresh() string {
	*st.uniq++
	return fmt.Sprintf("#%d", *st.uniq)
}

// ---- deep copy (paths fork; objects are mutable)

type dMemo struct {
	o map[*dObj]*dObj
	v map[*dVar]*dVar
}

func (m *dMemo) obj(o *dObj) *dObj {
	if o == nil {
		return nil
	}
	if c, ok := m.o[o]; ok {
		return c
	}
	c := &dObj{}
	m.o[o] = c
	*c = *o
	c.from, c.to = m.val(o.from), m.val(o.to)
	c.copyOf = m.obj(o.copyOf)
	if o.fields != nil {
		c.fields = map[string]*dObj{}
		for k, x := range o.fields {
			c.fields[k] = m.obj(x)
		}
	}
	c.carries = nil
	for _, x := range o.carries {
		c.carries = append(c.carries, m.obj(x))
	}
	return c
}

func (m *dMemo) val(v *dVal) *dVal {
	if v == nil {
		return nil
	}
	if v.obj == nil {
		return v
	}
	return &dVal{kind: v.kind, obj: m.obj(v.obj), s: v.s}
}

func (st *dState) clone() *dState {
	m := &dMemo{o: map[*dObj]*dObj{}, v: map[*dVar]*dVar{}}
	return st.cloneWith(m)
}

func (st *dState) cloneWith(m *dMemo) *dState {
	q := &dState{done: st.done, verdict: st.verdict, uniq: st.uniq, nilness: map[*dObj]string{}, emptines: map[string]string{}}
	cloneEnv := func(env []map[string]*dVar) []map[string]*dVar {
		res := []map[string]*dVar{}
		for _, sc := range env {
			n := map[string]*dVar{}
			for k, x := range sc {
				c, ok := m.v[x]
				if !ok {
					c = &dVar{m.val(x.v)}
					m.v[x] = c
				}
				n[k] = c
			}
			res = append(res, n)
		}
		return res
	}
	q.env = cloneEnv(st.env)
	for _, fr := range st.frames {
		q.frames = append(q.frames, dFrame{cloneEnv(fr.env), fr.scopeBase})
	}
	for o, s := range st.nilness {
		q.nilness[m.obj(o)] = s
	}
	for k, s := range st.emptines {
		q.emptines[k] = s
	}
	q.elem, q.from0 = m.obj(st.elem), m.obj(st.from0)
	for _, v := range st.ret {
		q.ret = append(q.ret, m.val(v))
	}
	if st.loop != nil {
		l := &dLoop{tok: st.loop.tok, scopeBase: st.loop.scopeBase, start: st.loop.start, stores: map[*dObj]*dVal{}, appends: map[*dObj][]*dVal{}}
		for o, v := range st.loop.stores {
			l.stores[m.obj(o)] = m.val(v)
		}
		for o, vs := range st.loop.appends {
			for _, v := range vs {
				l.appends[m.obj(o)] = append(l.appends[m.obj(o)], m.val(v))
			}
		}
		q.loop = l
	}
	return q
}

// ---- environment

func (st *dState) push() { st.env = append(st.env, map[string]*dVar{}) }
func (st *dState) popTo(n int) {
	if len(st.env) > n {
		st.env = st.env[:n]
	}
}

func (st *dState) lookup(name string) (*dVar, int) {
	for i := len(st.env) - 1; i >= 0; i-- {
		if x, ok := st.env[i][name]; ok {
			return x, i
		}
	}
	return nil, -1
}

func (st *dState) define(name string, v *dVal) {
	if name == "_" {
		return
	}
	st.env[len(st.env)-1][name] = &dVar{st.materialise(v)}
}

// the content an address value stands for: the shared object it is an unmodified copy of, else itself
func dRoot(o *dObj) *dObj {
	if o != nil && o.copyOf != nil && !o.modified {
		return o.copyOf
	}
	return o
}

// materialise: a struct VALUE stored into a variable / field / parameter becomes an object of its own
func (st *dState) materialise(v *dVal) *dVal {
	switch v.kind {
	case "valS":
		return &dVal{kind: "valS", obj: &dObj{kind: "meta", from: v.obj.from, to: v.obj.to}}
	case "valA":
		n := &dObj{kind: "addr", id: st.fresh()}
		if r := dRoot(v.obj); r != nil && r.shared {
			n.copyOf = r
		} else {
			n.modified = true // a copy of something that is not the event's content
		}
		return &dVal{kind: "valA", obj: n}
	}
	return v
}

func dTracked(v *dVal) bool {
	if v == nil {
		return false
	}
	switch v.kind {
	case "refS", "valS", "ptrA", "valA", "slice", "fieldA", "bad":
		return true
	case "opq":
		return v.obj != nil && len(v.obj.carries) > 0
	}
	return false
}

func dMetas(v *dVal) []*dObj {
	if v == nil {
		return nil
	}
	switch v.kind {
	case "refS", "valS":
		return []*dObj{v.obj}
	case "opq":
		if v.obj != nil {
			return v.obj.carries
		}
	}
	return nil
}

// mentionsTracked: does the node name a variable that holds something tracked (or the Lua entry)?
func (st *dState) mentionsTracked(n ast.Node) bool {
	found := false
	ast.Inspect(n, func(x ast.Node) bool {
		switch v := x.(type) {
		case *ast.Ident:
			if vr, _ := st.lookup(v.Name); vr != nil && dTracked(vr.v) {
				found = true
			}
		case *ast.SelectorExpr:
			if v.Sel.Name == "CallByParam" {
				found = true
			}
		}
		return !found
	})
	return found
}

// ---------------------------------------------------------------------------------------------------------------------
// expressions

type dRes struct {
	st *dState
	v  []*dVal
}

type dEval struct {
	pk    *luaPkg
	files []*ast.File
	stack []*ast.FuncDecl
	named [][]string
}

func (ev *dEval) file() *ast.File { return ev.files[len(ev.files)-1] }

func dOne(st *dState, v *dVal) []dRes { return []dRes{{st, []*dVal{v}}} }

func dFirst(vs []*dVal) *dVal {
	if len(vs) == 0 || vs[0] == nil {
		return dOpq
	}
	return vs[0]
}

func (ev *dEval) exprs(st *dState, es []ast.Expr) []dRes {
	cur := []dRes{{st, nil}}
	for _, e := range es {
		next := []dRes{}
		for _, c := range cur {
			if c.st.done != "" {
				next = append(next, dRes{c.st, append(append([]*dVal{}, c.v...), dOpq)})
				continue
			}
			rs := ev.expr(c.st, e)
			if len(rs) > 1 && dAnyObj(c.v) {
				// the values computed so far live in the heap of ONE of the forks
				for _, r := range rs {
					r.st.poison("fork-inside-an-expression-list")
				}
			}
			for _, r := range rs {
				next = append(next, dRes{r.st, append(append([]*dVal{}, c.v...), dFirst(r.v))})
			}
		}
		cur = next
	}
	return cur
}

func dAnyObj(vs []*dVal) bool {
	for _, v := range vs {
		if v != nil && v.obj != nil {
			return true
		}
	}
	return false
}

func (ev *dEval) isImport(st *dState, e ast.Expr) (string, bool) {
	id, ok := e.(*ast.Ident)
	if !ok {
		return "", false
	}
	if v, _ := st.lookup(id.Name); v != nil {
		return "", false
	}
	s, ok := luaImports(ev.file())[id.Name]
	return s, ok
}

// assumeNonNil: p is dereferenced on this path (a nil p would have panicked: the path does not go on)
func (st *dState) assumeNonNil(o *dObj) {
	if o == nil || !o.shared {
		return
	}
	if st.nilness[o] == "nil" {
		st.done = "dead"
		return
	}
	st.nilness[o] = "nonnil"
}

func (ev *dEval) typeName(e ast.Expr) string { return luaType(ev.file(), e) }

func (ev *dEval) compositeLit(st *dState, cl *ast.CompositeLit) []dRes {
	typ := ev.typeName(cl.Type)
	keys, vals := []string{}, []ast.Expr{}
	for _, el := range cl.Elts {
		if kv, ok := el.(*ast.KeyValueExpr); ok {
			k := ""
			if id, ok := kv.Key.(*ast.Ident); ok {
				k = id.Name
			}
			keys, vals = append(keys, k), append(vals, kv.Value)
		} else {
			keys, vals = append(keys, ""), append(vals, el)
		}
	}
	out := []dRes{}
	for _, r := range ev.exprs(st, vals) {
		switch {
		case typ == "mail.Address":
			n := &dObj{kind: "addr", id: r.st.fresh(), fields: map[string]*dObj{}, modified: true}
			for i, k := range keys {
				ev.setAddrField(r.st, n, k, r.v[i])
			}
			out = append(out, dRes{r.st, []*dVal{{kind: "valA", obj: n, s: "own"}}})
		case typ == "event.MessageMetadata":
			n := &dObj{kind: "meta", from: dNil, to: dNil}
			for i, k := range keys {
				switch k {
				case "From":
					n.from = r.st.materialise(r.v[i])
				case "To":
					n.to = r.st.materialise(r.v[i])
				case "":
					if dTracked(r.v[i]) {
						r.st.poison("unkeyed-metadata-literal")
					}
				}
			}
			out = append(out, dRes{r.st, []*dVal{{kind: "valS", obj: n, s: "own"}}})
		case strings.HasPrefix(typ, "[]") && len(vals) == 0:
			out = append(out, dRes{r.st, []*dVal{{kind: "slice", obj: &dObj{kind: "slice", id: r.st.fresh(), fresh: true, building: true, tok: r.st.fresh(), elems: "zero"}}}})
		default:
			c := &dObj{kind: "opq"}
			for _, v := range r.v {
				c.carries = append(c.carries, dMetas(v)...)
				if v.kind == "ptrA" || v.kind == "slice" || v.kind == "bad" || v.kind == "valA" || v.kind == "fieldA" {
					r.st.poison("address-objects-stored-in-another-value")
				}
			}
			out = append(out, dRes{r.st, []*dVal{{kind: "opq", obj: c}}})
		}
	}
	return out
}

// setAddrField: <local address object>.<field> = v
func (ev *dEval) setAddrField(st *dState, o *dObj, field string, v *dVal) {
	if o.fields == nil {
		o.fields = map[string]*dObj{}
	}
	if v.kind == "fieldA" && v.s == field {
		r := dRoot(v.obj)
		if o.copyOf != nil && !o.modified && r == o.copyOf {
			return // a copy re-assigned its own content
		}
		o.fields[field] = r
	} else {
		o.fields[field] = nil
	}
	n, a := o.fields["Name"], o.fields["Address"]
	if n != nil && n == a && n.shared && len(o.fields) == 2 {
		o.copyOf, o.modified = n, false
		return
	}
	o.modified = true
}

func (ev *dEval) expr(st *dState, e ast.Expr) []dRes {
	if st.done != "" {
		return dOne(st, dOpq)
	}
	switch v := e.(type) {
	case *ast.BasicLit:
		if v.Kind == token.INT && v.Value == "0" {
			return dOne(st, &dVal{kind: "zero0"})
		}
		return dOne(st, dOpq)
	case *ast.Ident:
		if x, _ := st.lookup(v.Name); x != nil {
			return dOne(st, x.v)
		}
		if v.Name == "nil" {
			return dOne(st, dNil)
		}
		return dOne(st, dOpq)
	case *ast.ParenExpr:
		return ev.expr(st, v.X)
	case *ast.SelectorExpr:
		if _, ok := ev.isImport(st, v.X); ok {
			return dOne(st, dOpq)
		}
		out := []dRes{}
		for _, r := range ev.expr(st, v.X) {
			b := dFirst(r.v)
			var res *dVal = dOpq
			switch b.kind {
			case "refS", "valS":
				switch v.Sel.Name {
				case "From":
					res = b.obj.from
				case "To":
					res = b.obj.to
				}
			case "ptrA":
				r.st.assumeNonNil(b.obj)
				res = &dVal{kind: "fieldA", obj: b.obj, s: v.Sel.Name}
			case "valA":
				res = &dVal{kind: "fieldA", obj: b.obj, s: v.Sel.Name}
			case "opq":
				res = b
			case "bad", "slice", "fieldA":
				res = &dVal{kind: "bad"}
			}
			out = append(out, dRes{r.st, []*dVal{res}})
		}
		return out
	case *ast.StarExpr:
		out := []dRes{}
		for _, r := range ev.expr(st, v.X) {
			b := dFirst(r.v)
			var res *dVal = dOpq
			switch b.kind {
			case "refS":
				res = &dVal{kind: "valS", obj: b.obj}
			case "ptrA":
				r.st.assumeNonNil(b.obj)
				res = &dVal{kind: "valA", obj: b.obj}
			case "opq", "nil":
			default:
				res = &dVal{kind: "bad"}
			}
			out = append(out, dRes{r.st, []*dVal{res}})
		}
		return out
	case *ast.UnaryExpr:
		if v.Op == token.AND {
			x := v.X
			for {
				if pe, ok := x.(*ast.ParenExpr); ok {
					x = pe.X
					continue
				}
				break
			}
			switch t := x.(type) {
			case *ast.Ident:
				if vr, _ := st.lookup(t.Name); vr != nil {
					switch vr.v.kind {
					case "valS":
						return dOne(st, &dVal{kind: "refS", obj: vr.v.obj})
					case "valA":
						return dOne(st, &dVal{kind: "ptrA", obj: vr.v.obj})
					}
					if dTracked(vr.v) {
						return dOne(st, &dVal{kind: "bad"})
					}
				}
				return dOne(st, dOpq)
			case *ast.CompositeLit:
				out := []dRes{}
				for _, r := range ev.compositeLit(st, t) {
					b := dFirst(r.v)
					switch b.kind {
					case "valA":
						b = &dVal{kind: "ptrA", obj: b.obj}
					case "valS":
						b = &dVal{kind: "refS", obj: b.obj}
					}
					out = append(out, dRes{r.st, []*dVal{b}})
				}
				return out
			case *ast.StarExpr: // &*p
				return ev.expr(st, t.X)
			}
			out := []dRes{}
			for _, r := range ev.expr(st, x) {
				if dTracked(dFirst(r.v)) || st.mentionsTracked(x) {
					out = append(out, dRes{r.st, []*dVal{{kind: "bad"}}})
				} else {
					out = append(out, dRes{r.st, []*dVal{dOpq}})
				}
			}
			return out
		}
		if v.Op == token.ARROW {
			if st.mentionsTracked(v.X) {
				st.poison("receive")
			}
			return dOne(st, dOpq)
		}
		out := []dRes{}
		for _, r := range ev.expr(st, v.X) {
			out = append(out, dRes{r.st, []*dVal{dOpq}})
		}
		return out
	case *ast.BinaryExpr:
		out := []dRes{}
		for _, r := range ev.exprs(st, []ast.Expr{v.X, v.Y}) {
			out = append(out, dRes{r.st, []*dVal{dOpq}})
		}
		return out
	case *ast.CallExpr:
		return ev.call(st, v)
	case *ast.CompositeLit:
		return ev.compositeLit(st, v)
	case *ast.IndexExpr:
		out := []dRes{}
		for _, r := range ev.exprs(st, []ast.Expr{v.X, v.Index}) {
			x, i := r.v[0], r.v[1]
			var res *dVal = dOpq
			switch {
			case x.kind == "slice":
				res = r.st.element(x.obj, i)
			case dTracked(x):
				res = &dVal{kind: "bad"}
			}
			out = append(out, dRes{r.st, []*dVal{res}})
		}
		return out
	case *ast.SliceExpr:
		out := []dRes{}
		for _, r := range ev.expr(st, v.X) {
			x := dFirst(r.v)
			var res *dVal = dOpq
			if x.kind == "slice" {
				zero := func(e ast.Expr) bool { return e != nil && strings.TrimSpace(src(e)) == "0" }
				if v.Slice3 && (v.Low == nil || zero(v.Low)) && zero(v.High) && zero(v.Max) {
					// x[:0:0]: no length, no capacity — the first append allocates
					res = &dVal{kind: "slice", obj: &dObj{kind: "slice", id: r.st.fresh(), fresh: true, building: true, tok: r.st.fresh(), elems: "zero"}}
				} else {
					res = &dVal{kind: "bad"}
				}
			} else if dTracked(x) {
				res = &dVal{kind: "bad"}
			}
			out = append(out, dRes{r.st, []*dVal{res}})
		}
		return out
	case *ast.TypeAssertExpr:
		return ev.expr(st, v.X)
	case *ast.FuncLit:
		if st.mentionsTracked(v.Body) {
			st.poison("closure-over-the-metadata")
		}
		return dOne(st, dOpq)
	case *ast.KeyValueExpr:
		return ev.expr(st, v.Value)
	}
	if st.mentionsTracked(e) {
		st.poison(fmt.Sprintf("%T", e))
	}
	return dOne(st, dOpq)
}

// element: x[i] for the generic index of the loop being executed
func (st *dState) element(o *dObj, i *dVal) *dVal {
	if st.loop == nil || i.kind != "idx" || i.s != o.tok || o.building {
		return &dVal{kind: "bad"}
	}
	if v, ok := st.loop.stores[o]; ok {
		return v
	}
	switch o.elems {
	case "orig":
		return &dVal{kind: "ptrA", obj: st.elem}
	case "copied":
		if st.nilness[st.elem] == "nil" {
			return dNil
		}
		return &dVal{kind: "ptrA", obj: &dObj{kind: "addr", id: st.fresh(), copyOf: st.elem}}
	case "zero":
		return dNil
	}
	return &dVal{kind: "bad"}
}

// ---------------------------------------------------------------------------------------------------------------------
// calls

func dCarry(st *dState, vals []*dVal) *dVal {
	c := &dObj{kind: "opq"}
	for _, v := range vals {
		c.carries = append(c.carries, dMetas(v)...)
	}
	return &dVal{kind: "opq", obj: c}
}

func (st *dState) newSliceLike(src *dObj) *dVal {
	return &dVal{kind: "slice", obj: &dObj{kind: "slice", id: st.fresh(), fresh: true, tok: src.tok, elems: src.elems, building: src.building}}
}

func dEmptyFresh(v *dVal) bool {
	return v.kind == "nil" || (v.kind == "slice" && v.obj.fresh && v.obj.building)
}

func (ev *dEval) builtin(st *dState, name string, ce *ast.CallExpr) ([]dRes, bool) {
	if v, _ := st.lookup(name); v != nil {
		return nil, false
	}
	switch name {
	case "len", "cap":
		out := []dRes{}
		for _, r := range ev.exprs(st, ce.Args) {
			var res *dVal = dOpq
			if name == "len" && len(r.v) == 1 && r.v[0].kind == "slice" {
				if r.v[0].obj.building {
					res = &dVal{kind: "zero0"}
				} else {
					res = &dVal{kind: "len", s: r.v[0].obj.tok}
				}
			}
			out = append(out, dRes{r.st, []*dVal{res}})
		}
		return out, true
	case "make":
		if len(ce.Args) == 0 {
			return dOne(st, dOpq), true
		}
		if !strings.HasPrefix(ev.typeName(ce.Args[0]), "[]") {
			out := []dRes{}
			for _, r := range ev.exprs(st, ce.Args[1:]) {
				out = append(out, dRes{r.st, []*dVal{dOpq}})
			}
			return out, true
		}
		out := []dRes{}
		for _, r := range ev.exprs(st, ce.Args[1:]) {
			o := &dObj{kind: "slice", id: r.st.fresh(), fresh: true, elems: "zero", tok: r.st.fresh()}
			if len(r.v) > 0 {
				switch r.v[0].kind {
				case "zero0":
					o.building = true
				case "len":
					o.tok = r.v[0].s
				}
			} else {
				o.building = true
			}
			out = append(out, dRes{r.st, []*dVal{{kind: "slice", obj: o}}})
		}
		return out, true
	case "new":
		if len(ce.Args) == 1 {
			switch ev.typeName(ce.Args[0]) {
			case "mail.Address":
				return dOne(st, &dVal{kind: "ptrA", obj: &dObj{kind: "addr", id: st.fresh(), modified: true}}), true
			case "event.MessageMetadata":
				return dOne(st, &dVal{kind: "refS", obj: &dObj{kind: "meta", from: dNil, to: dNil}}), true
			}
		}
		return dOne(st, dOpq), true
	case "append":
		out := []dRes{}
		for _, r := range ev.exprs(st, ce.Args) {
			out = append(out, dRes{r.st, []*dVal{ev.appendCall(r.st, ce, r.v)}})
		}
		return out, true
	case "copy":
		out := []dRes{}
		for _, r := range ev.exprs(st, ce.Args) {
			if len(r.v) == 2 && (dTracked(r.v[0]) || dTracked(r.v[1])) {
				d, s := r.v[0], r.v[1]
				switch {
				case d.kind != "slice" || r.st.loop != nil:
					r.st.poison("copy-shape")
				case !d.obj.fresh:
					r.st.poison("writes-the-event's-slice")
				case s.kind == "slice" && s.obj.tok == d.obj.tok && !d.obj.building:
					d.obj.elems = s.obj.elems
				default:
					d.obj.elems = "mixed"
				}
			}
			out = append(out, dRes{r.st, []*dVal{dOpq}})
		}
		return out, true
	case "panic":
		out := []dRes{}
		for _, r := range ev.exprs(st, ce.Args) {
			if r.st.done == "" {
				r.st.done = "dead"
			}
			out = append(out, dRes{r.st, []*dVal{dOpq}})
		}
		return out, true
	case "delete", "close", "clear", "min", "max", "print", "println":
		out := []dRes{}
		for _, r := range ev.exprs(st, ce.Args) {
			for _, v := range r.v {
				if dTracked(v) {
					r.st.poison("builtin-" + name)
				}
			}
			out = append(out, dRes{r.st, []*dVal{dOpq}})
		}
		return out, true
	}
	return nil, false
}

func (ev *dEval) appendCall(st *dState, ce *ast.CallExpr, a []*dVal) *dVal {
	any := false
	for _, v := range a {
		if dTracked(v) {
			any = true
		}
	}
	if !any {
		return dOpq
	}
	if len(a) == 2 && ce.Ellipsis != token.NoPos {
		// append(<empty, no capacity to reuse>, x...): a fresh slice with x's elements
		if dEmptyFresh(a[0]) && a[1].kind == "slice" {
			return st.newSliceLike(a[1].obj)
		}
		return &dVal{kind: "bad"}
	}
	if len(a) == 2 && a[0].kind == "slice" && a[0].obj.fresh && a[0].obj.building {
		o := a[0].obj
		if st.loop != nil {
			st.loop.appends[o] = append(st.loop.appends[o], a[1])
			return a[0]
		}
		o.building, o.elems, o.tok = false, "mixed", st.fresh()
		return a[0]
	}
	return &dVal{kind: "bad"}
}

func (ev *dEval) call(st *dState, ce *ast.CallExpr) []dRes {
	fun := ce.Fun
	for {
		if pe, ok := fun.(*ast.ParenExpr); ok {
			fun = pe.X
			continue
		}
		break
	}
	opaque := func(base *dState, recv *dVal) []dRes {
		out := []dRes{}
		for _, r := range ev.exprs(base, ce.Args) {
			vs := r.v
			if recv != nil {
				vs = append([]*dVal{recv}, vs...)
			}
			out = append(out, dRes{r.st, []*dVal{dCarry(r.st, vs)}})
		}
		return out
	}
	switch fu := fun.(type) {
	case *ast.ArrayType: // []T(x)
		out := []dRes{}
		for _, r := range ev.exprs(st, ce.Args) {
			v := dFirst(r.v)
			if v.kind == "nil" {
				v = &dVal{kind: "slice", obj: &dObj{kind: "slice", id: r.st.fresh(), fresh: true, building: true, tok: r.st.fresh(), elems: "zero"}}
			}
			out = append(out, dRes{r.st, []*dVal{v}})
		}
		return out
	case *ast.Ident:
		if res, ok := ev.builtin(st, fu.Name, ce); ok {
			return res
		}
		if vr, _ := st.lookup(fu.Name); vr != nil {
			out := []dRes{}
			for _, r := range ev.exprs(st, ce.Args) {
				for _, v := range r.v {
					if dTracked(v) {
						r.st.poison("call-of-a-function-value")
					}
				}
				out = append(out, dRes{r.st, []*dVal{dOpq}})
			}
			return out
		}
		if g := ev.pk.resolveFunc(fu.Name); g != nil {
			return ev.pkgCall(st, g, nil, ce)
		}
		return opaque(st, nil)
	case *ast.SelectorExpr:
		name := fu.Sel.Name
		if imp, ok := ev.isImport(st, fu.X); ok {
			if imp == "slices" && name == "Clone" && len(ce.Args) == 1 {
				out := []dRes{}
				for _, r := range ev.exprs(st, ce.Args) {
					v := r.v[0]
					switch {
					case v.kind == "slice":
						v = r.st.newSliceLike(v.obj)
					case dTracked(v):
						v = &dVal{kind: "bad"}
					}
					out = append(out, dRes{r.st, []*dVal{v}})
				}
				return out
			}
			return opaque(st, nil)
		}
		out := []dRes{}
		for _, rr := range ev.expr(st, fu.X) {
			recv := dFirst(rr.v)
			if rr.st.done != "" {
				out = append(out, dRes{rr.st, []*dVal{dOpq}})
				continue
			}
			if name == "CallByParam" {
				for _, r := range ev.exprs(rr.st, ce.Args) {
					if r.st.done == "" {
						ms := []*dObj{}
						for _, v := range r.v[min(1, len(r.v)):] {
							ms = append(ms, dMetas(v)...)
						}
						r.st.enterLua(ms)
					}
					out = append(out, dRes{r.st, []*dVal{dOpq}})
				}
				continue
			}
			if g := ev.pk.resolveMeth(name); g != nil && (recv.kind == "opq" || recv.kind == "refS" || recv.kind == "valS") {
				if _, isImp := luaImports(ev.file())[luaRootIdent(fu.X)]; !isImp || recv.kind != "opq" {
					out = append(out, ev.pkgCall(rr.st, g, recv, ce)...)
					continue
				}
			}
			out = append(out, opaque(rr.st, recv)...)
		}
		return out
	case *ast.FuncLit:
		if st.mentionsTracked(ce) {
			st.poison("closure-over-the-metadata")
		}
		return dOne(st, dOpq)
	}
	if st.mentionsTracked(ce) {
		st.poison("call-shape")
	}
	return dOne(st, dOpq)
}

// pkgCall: a function / method of the package.  With something tracked among receiver and arguments it is EXECUTED in
// place; otherwise it cannot reach the listener's copy (closures over it are refused elsewhere) and stays opaque.
func (ev *dEval) pkgCall(st *dState, g *ast.FuncDecl, recv *dVal, ce *ast.CallExpr) []dRes {
	out := []dRes{}
	for _, r := range ev.exprs(st, ce.Args) {
		if r.st.done != "" {
			out = append(out, dRes{r.st, []*dVal{dOpq}})
			continue
		}
		tracked := dTracked(recv)
		for _, v := range r.v {
			if dTracked(v) {
				tracked = true
			}
		}
		if !tracked {
			n := len(ev.pk.results(g))
			vals := []*dVal{}
			for i := 0; i < n; i++ {
				vals = append(vals, &dVal{kind: "opq", obj: &dObj{kind: "opq"}})
			}
			if n == 0 {
				vals = []*dVal{dOpq}
			}
			out = append(out, dRes{r.st, vals})
			continue
		}
		if g.Body == nil || len(ev.stack) > 6 || ce.Ellipsis != token.NoPos {
			r.st.poison("helper-not-followed")
			out = append(out, dRes{r.st, []*dVal{dOpq}})
			continue
		}
		rec := false
		for _, s := range ev.stack {
			if s == g {
				rec = true
			}
		}
		if rec {
			r.st.poison("recursive-helper")
			out = append(out, dRes{r.st, []*dVal{dOpq}})
			continue
		}
		out = append(out, ev.inline(r.st, g, recv, r.v)...)
	}
	return out
}

func (ev *dEval) inline(st *dState, g *ast.FuncDecl, recv *dVal, args []*dVal) []dRes {
	fr := dFrame{env: st.env}
	if st.loop != nil {
		// a helper called from a loop body sees the loop's generic index; its own variables are all local to the iteration
		fr.scopeBase = st.loop.scopeBase
		st.loop.scopeBase = 0
	}
	st.frames = append(st.frames, fr)
	st.env = []map[string]*dVar{{}}
	if rn := luaRecvName(g); rn != "" && recv != nil {
		st.define(rn, recv)
	}
	i := 0
	if g.Type.Params != nil {
		for _, fl := range g.Type.Params.List {
			if _, variadic := fl.Type.(*ast.Ellipsis); variadic {
				for _, a := range args[min(i, len(args)):] {
					if dTracked(a) {
						st.poison("variadic-helper")
					}
				}
			}
			for _, id := range fl.Names {
				var a *dVal = dOpq
				if i < len(args) {
					a = args[i]
				}
				st.define(id.Name, a)
				i++
			}
			if len(fl.Names) == 0 {
				i++
			}
		}
	}
	named := []string{}
	if g.Type.Results != nil {
		for _, fl := range g.Type.Results.List {
			for _, id := range fl.Names {
				st.define(id.Name, dNil) // only pointer / slice results matter here; their zero value is nil
				named = append(named, id.Name)
			}
		}
	}
	ev.files = append(ev.files, ev.pk.fileOf[g])
	ev.stack = append(ev.stack, g)
	ev.named = append(ev.named, named)
	outs := ev.block([]*dState{st}, g.Body.List)
	ev.files = ev.files[:len(ev.files)-1]
	ev.stack = ev.stack[:len(ev.stack)-1]
	ev.named = ev.named[:len(ev.named)-1]
	res := []dRes{}
	for _, o := range outs {
		var vals []*dVal
		switch o.done {
		case "return":
			vals, o.done = o.ret, ""
		case "break", "continue":
			o.poison("stray-" + o.done)
		}
		o.ret = nil
		// the caller's environment of THIS path (forks inside the helper have copied it along with the heap)
		top := o.frames[len(o.frames)-1]
		o.frames = o.frames[:len(o.frames)-1]
		o.env = top.env
		if o.loop != nil {
			o.loop.scopeBase = top.scopeBase
		}
		res = append(res, dRes{o, vals})
	}
	return res
}

// ---------------------------------------------------------------------------------------------------------------------
// conditions

func dFork(st *dState) (*dState, *dState) { return st, st.clone() }

// nilTest: forks st on `v == nil`
func (st *dState) nilTest(v *dVal) (isNil, nonNil []*dState) {
	switch v.kind {
	case "nil":
		return []*dState{st}, nil
	case "ptrA":
		if !v.obj.shared {
			return nil, []*dState{st}
		}
		switch st.nilness[v.obj] {
		case "nil":
			return []*dState{st}, nil
		case "nonnil":
			return nil, []*dState{st}
		}
		a, b := dFork(st)
		// b is a deep copy; there are two shared address objects: the event's From and the generic element of its To
		a.nilness[v.obj] = "nil"
		if v.obj == st.elem {
			b.nilness[b.elem] = "nonnil"
		} else {
			b.nilness[b.from0] = "nonnil"
		}
		return []*dState{a}, []*dState{b}
	case "slice":
		if v.obj.building {
			a, b := dFork(st) // an empty slice may or may not be nil
			return []*dState{a}, []*dState{b}
		}
		switch st.emptines[v.obj.tok] {
		case "nonempty":
			return nil, []*dState{st}
		}
		a, b := dFork(st)
		a.emptines[v.obj.tok] = "empty" // nil => empty; non-nil says nothing
		return []*dState{a}, []*dState{b}
	}
	a, b := dFork(st)
	return []*dState{a}, []*dState{b}
}

// emptyTest: forks st on `len == 0` for the length token
func (st *dState) emptyTest(tok string) (empty, nonEmpty []*dState) {
	switch st.emptines[tok] {
	case "empty":
		return []*dState{st}, nil
	case "nonempty":
		return nil, []*dState{st}
	}
	a, b := dFork(st)
	a.emptines[tok] = "empty"
	b.emptines[tok] = "nonempty"
	return []*dState{a}, []*dState{b}
}

func (ev *dEval) cond(st *dState, e ast.Expr) (tr, fl []*dState) {
	if st.done != "" {
		return []*dState{st}, nil
	}
	switch v := e.(type) {
	case *ast.ParenExpr:
		return ev.cond(st, v.X)
	case *ast.UnaryExpr:
		if v.Op == token.NOT {
			f, t := ev.cond(st, v.X)
			return t, f
		}
	case *ast.BinaryExpr:
		switch v.Op {
		case token.LAND:
			ta, fa := ev.cond(st, v.X)
			fl = fa
			for _, q := range ta {
				tb, fb := ev.cond(q, v.Y)
				tr, fl = append(tr, tb...), append(fl, fb...)
			}
			return
		case token.LOR:
			ta, fa := ev.cond(st, v.X)
			tr = ta
			for _, q := range fa {
				tb, fb := ev.cond(q, v.Y)
				tr, fl = append(tr, tb...), append(fl, fb...)
			}
			return
		case token.EQL, token.NEQ, token.GTR, token.LSS, token.GEQ, token.LEQ:
			for _, r := range ev.exprs(st, []ast.Expr{v.X, v.Y}) {
				if r.st.done != "" {
					tr = append(tr, r.st)
					continue
				}
				x, y, op := r.v[0], r.v[1], v.Op
				if x.kind == "nil" || x.kind == "zero0" {
					x, y = y, x
					switch op {
					case token.GTR:
						op = token.LSS
					case token.LSS:
						op = token.GTR
					case token.GEQ:
						op = token.LEQ
					case token.LEQ:
						op = token.GEQ
					}
				}
				var yes, no []*dState // yes: "x is nil / empty"
				switch {
				case y.kind == "nil" && (op == token.EQL || op == token.NEQ):
					yes, no = r.st.nilTest(x)
					if op == token.NEQ {
						yes, no = no, yes
					}
				case y.kind == "zero0" && x.kind == "len" && (op == token.EQL || op == token.NEQ || op == token.GTR || op == token.LEQ):
					yes, no = r.st.emptyTest(x.s)
					if op == token.NEQ || op == token.GTR {
						yes, no = no, yes
					}
				case y.kind == "zero0" && x.kind == "zero0":
					t := op == token.EQL || op == token.GEQ || op == token.LEQ
					if t {
						yes = []*dState{r.st}
					} else {
						no = []*dState{r.st}
					}
				default:
					a, b := dFork(r.st)
					yes, no = []*dState{a}, []*dState{b}
				}
				tr, fl = append(tr, yes...), append(fl, no...)
			}
			return
		}
	}
	for _, r := range ev.expr(st, e) {
		if r.st.done != "" {
			tr = append(tr, r.st)
			continue
		}
		a, b := dFork(r.st)
		tr, fl = append(tr, a), append(fl, b)
	}
	return
}

// ---------------------------------------------------------------------------------------------------------------------
// statements

func dBorn(o *dObj) int {
	n := 0
	fmt.Sscanf(o.id, "#%d", &n)
	return n
}

// writable: a local address object may be written — inside a loop only one made in this iteration
func (st *dState) writable(o *dObj) bool {
	if o.shared {
		st.poison("writes-an-address-object-of-the-event")
		return false
	}
	if st.loop != nil && dBorn(o) <= st.loop.start {
		st.poison("loop-writes-an-older-object")
		return false
	}
	return true
}

func (ev *dEval) store(st *dState, lhs ast.Expr, val *dVal, define bool) []*dState {
	if st.done != "" {
		return []*dState{st}
	}
	for {
		if pe, ok := lhs.(*ast.ParenExpr); ok {
			lhs = pe.X
			continue
		}
		break
	}
	switch l := lhs.(type) {
	case *ast.Ident:
		if l.Name == "_" {
			return []*dState{st}
		}
		if define {
			st.define(l.Name, val)
			return []*dState{st}
		}
		vr, depth := st.lookup(l.Name)
		if vr == nil {
			if dTracked(val) {
				st.poison("stored-in-a-package-variable")
			}
			return []*dState{st}
		}
		if st.loop != nil && depth < st.loop.scopeBase {
			sameSlice := val.kind == "slice" && vr.v.kind == "slice" && val.obj == vr.v.obj
			if !sameSlice && (dTracked(val) || dTracked(vr.v)) {
				st.poison("loop-assigns-an-outer-variable")
			}
			if !sameSlice {
				vr.v = dOpq
			}
			return []*dState{st}
		}
		vr.v = st.materialise(val)
		return []*dState{st}
	case *ast.SelectorExpr:
		outs := []*dState{}
		rs := ev.expr(st, l.X)
		if len(rs) > 1 && val.obj != nil {
			for _, r := range rs {
				r.st.poison("fork-inside-an-assignment")
			}
		}
		for _, r := range rs {
			b, q := dFirst(r.v), r.st
			if q.done != "" {
				outs = append(outs, q)
				continue
			}
			switch b.kind {
			case "refS", "valS":
				if l.Sel.Name == "From" || l.Sel.Name == "To" {
					if q.loop != nil {
						q.poison("loop-assigns-the-metadata")
					} else if l.Sel.Name == "From" {
						b.obj.from = q.materialise(val)
					} else {
						b.obj.to = q.materialise(val)
					}
				}
			case "ptrA", "valA":
				if b.kind == "ptrA" {
					q.assumeNonNil(b.obj)
				}
				if q.writable(b.obj) {
					ev.setAddrField(q, b.obj, l.Sel.Name, val)
				}
			case "opq":
				if ms := dMetas(val); len(ms) > 0 {
					if b.obj == nil {
						q.poison("metadata-stored-in-an-unknown-object")
					} else {
						b.obj.carries = append(b.obj.carries, ms...)
					}
				} else if dTracked(val) {
					q.poison("address-objects-stored-in-another-value")
				}
			default:
				q.poison("store-shape")
			}
			outs = append(outs, q)
		}
		return outs
	case *ast.IndexExpr:
		outs := []*dState{}
		rs := ev.exprs(st, []ast.Expr{l.X, l.Index})
		if len(rs) > 1 && val.obj != nil {
			for _, r := range rs {
				r.st.poison("fork-inside-an-assignment")
			}
		}
		for _, r := range rs {
			q := r.st
			if q.done != "" {
				outs = append(outs, q)
				continue
			}
			x, i := r.v[0], r.v[1]
			switch {
			case x.kind == "slice" && !x.obj.fresh:
				q.poison("writes-the-event's-slice")
			case x.kind == "slice" && q.loop != nil && i.kind == "idx" && i.s == x.obj.tok && !x.obj.building:
				q.loop.stores[x.obj] = val
			case x.kind == "slice":
				if q.loop != nil {
					q.poison("loop-store-shape")
				}
				x.obj.elems = "mixed"
			case dTracked(x) || dTracked(val):
				q.poison("store-shape")
			}
			outs = append(outs, q)
		}
		return outs
	case *ast.StarExpr:
		outs := []*dState{}
		rs := ev.expr(st, l.X)
		if len(rs) > 1 && val.obj != nil {
			for _, r := range rs {
				r.st.poison("fork-inside-an-assignment")
			}
		}
		for _, r := range rs {
			b, q := dFirst(r.v), r.st
			if q.done != "" {
				outs = append(outs, q)
				continue
			}
			switch {
			case b.kind == "ptrA":
				q.assumeNonNil(b.obj)
				if q.writable(b.obj) {
					if rt := dRoot(val.obj); val.kind == "valA" && rt != nil && rt.shared {
						b.obj.copyOf, b.obj.modified, b.obj.fields = rt, false, nil
					} else {
						b.obj.modified = true
					}
				}
			case b.kind == "refS" && val.kind == "valS" && q.loop == nil:
				b.obj.from, b.obj.to = val.obj.from, val.obj.to
			case dTracked(b) || dTracked(val):
				q.poison("store-shape")
			}
			outs = append(outs, q)
		}
		return outs
	}
	if dTracked(val) || st.mentionsTracked(lhs) {
		st.poison("store-shape")
	}
	return []*dState{st}
}

func (ev *dEval) assignStmt(st *dState, s *ast.AssignStmt) []*dState {
	define := s.Tok == token.DEFINE
	if s.Tok != token.DEFINE && s.Tok != token.ASSIGN {
		if st.mentionsTracked(s) {
			st.poison("op-assign")
		}
		return []*dState{st}
	}
	outs := []*dState{}
	if len(s.Rhs) == 1 && len(s.Lhs) > 1 {
		for _, r := range ev.expr(st, s.Rhs[0]) {
			ps := []*dState{r.st}
			for i, l := range s.Lhs {
				var v *dVal = dOpq
				if i < len(r.v) && r.v[i] != nil {
					v = r.v[i]
				} else if i > 0 && len(r.v) == 1 && dTracked(r.v[0]) && r.v[0].kind != "opq" {
					v = dOpq // `v, ok := x.(T)`: ok is a bool
				}
				next := []*dState{}
				for _, q := range ps {
					next = append(next, ev.store(q, l, v, define)...)
				}
				ps = next
			}
			outs = append(outs, ps...)
		}
		return outs
	}
	if len(s.Rhs) != len(s.Lhs) {
		st.poison("assign-arity")
		return []*dState{st}
	}
	for _, r := range ev.exprs(st, s.Rhs) {
		ps := []*dState{r.st}
		for i, l := range s.Lhs {
			next := []*dState{}
			for _, q := range ps {
				next = append(next, ev.store(q, l, r.v[i], define)...)
			}
			ps = next
		}
		outs = append(outs, ps...)
	}
	return outs
}

func (ev *dEval) block(sts []*dState, stmts []ast.Stmt) []*dState {
	for _, s := range stmts {
		next := []*dState{}
		for _, st := range sts {
			if st.done != "" {
				next = append(next, st)
				continue
			}
			next = append(next, ev.stmt(st, s)...)
		}
		sts = next
		if len(sts) > 512 {
			for _, st := range sts {
				st.poison("too-many-paths")
			}
		}
	}
	return sts
}

func (ev *dEval) scoped(st *dState, f func(st *dState) []*dState) []*dState {
	d := len(st.env)
	st.push()
	outs := f(st)
	for _, o := range outs {
		o.popTo(d)
	}
	return outs
}

// skipOrPoison: a statement this interpreter does not execute — harmless when it cannot touch anything tracked
func (ev *dEval) skipOrPoison(st *dState, s ast.Node, why string) []*dState {
	if st.mentionsTracked(s) {
		st.poison(why)
	}
	return []*dState{st}
}

func (ev *dEval) stmt(st *dState, s ast.Stmt) []*dState {
	switch v := s.(type) {
	case *ast.EmptyStmt:
		return []*dState{st}
	case *ast.ExprStmt:
		outs := []*dState{}
		for _, r := range ev.expr(st, v.X) {
			outs = append(outs, r.st)
		}
		return outs
	case *ast.AssignStmt:
		return ev.assignStmt(st, v)
	case *ast.IncDecStmt:
		return ev.skipOrPoison(st, v, "incdec")
	case *ast.DeclStmt:
		gd, ok := v.Decl.(*ast.GenDecl)
		if !ok || gd.Tok != token.VAR {
			return []*dState{st}
		}
		sts := []*dState{st}
		for _, sp := range gd.Specs {
			vs := sp.(*ast.ValueSpec)
			next := []*dState{}
			for _, q := range sts {
				if len(vs.Values) == 0 {
					t := ev.typeName(vs.Type)
					for _, id := range vs.Names {
						switch {
						case strings.HasPrefix(t, "[]"):
							q.define(id.Name, &dVal{kind: "slice", obj: &dObj{kind: "slice", id: q.fresh(), fresh: true, building: true, tok: q.fresh(), elems: "zero"}})
						case t == "mail.Address":
							q.define(id.Name, &dVal{kind: "valA", obj: &dObj{kind: "addr", id: q.fresh(), modified: true}})
						case t == "event.MessageMetadata":
							q.define(id.Name, &dVal{kind: "valS", obj: &dObj{kind: "meta", from: dNil, to: dNil}})
						case strings.HasPrefix(t, "*"):
							q.define(id.Name, dNil)
						default:
							q.define(id.Name, dOpq)
						}
					}
					next = append(next, q)
					continue
				}
				for _, r := range ev.exprs(q, vs.Values) {
					for i, id := range vs.Names {
						if i < len(r.v) {
							r.st.define(id.Name, r.v[i])
						}
					}
					next = append(next, r.st)
				}
			}
			sts = next
		}
		return sts
	case *ast.BlockStmt:
		return ev.scoped(st, func(st *dState) []*dState { return ev.block([]*dState{st}, v.List) })
	case *ast.IfStmt:
		return ev.scoped(st, func(st *dState) []*dState {
			sts := []*dState{st}
			if v.Init != nil {
				sts = ev.stmt(st, v.Init)
			}
			outs := []*dState{}
			for _, q := range sts {
				if q.done != "" {
					outs = append(outs, q)
					continue
				}
				tr, fl := ev.cond(q, v.Cond)
				for _, t := range tr {
					if t.done != "" {
						outs = append(outs, t)
						continue
					}
					outs = append(outs, ev.scoped(t, func(t *dState) []*dState { return ev.block([]*dState{t}, v.Body.List) })...)
				}
				for _, f := range fl {
					if v.Else == nil || f.done != "" {
						outs = append(outs, f)
					} else {
						outs = append(outs, ev.stmt(f, v.Else)...)
					}
				}
			}
			return outs
		})
	case *ast.SwitchStmt:
		return ev.switchStmt(st, v)
	case *ast.RangeStmt:
		return ev.rangeStmt(st, v)
	case *ast.ForStmt:
		return ev.forStmt(st, v)
	case *ast.ReturnStmt:
		if len(v.Results) == 0 {
			if n := len(ev.named); n > 0 {
				for _, name := range ev.named[n-1] {
					if x, _ := st.lookup(name); x != nil {
						st.ret = append(st.ret, x.v)
					}
				}
			}
			st.done = "return"
			return []*dState{st}
		}
		outs := []*dState{}
		if len(v.Results) == 1 {
			for _, r := range ev.expr(st, v.Results[0]) {
				if r.st.done == "" {
					r.st.ret, r.st.done = r.v, "return"
				}
				outs = append(outs, r.st)
			}
			return outs
		}
		for _, r := range ev.exprs(st, v.Results) {
			if r.st.done == "" {
				r.st.ret, r.st.done = r.v, "return"
			}
			outs = append(outs, r.st)
		}
		return outs
	case *ast.DeferStmt:
		return ev.skipOrPoison(st, v, "defer-with-the-metadata")
	case *ast.GoStmt:
		return ev.skipOrPoison(st, v, "go-with-the-metadata")
	case *ast.BranchStmt:
		if v.Label == nil && (v.Tok == token.BREAK || v.Tok == token.CONTINUE) {
			st.done = v.Tok.String()
			return []*dState{st}
		}
	}
	return ev.skipOrPoison(st, s, fmt.Sprintf("%T", s))
}

// switchStmt: a tagless switch is an if-chain; a switch on a tag forks into every clause without assumptions
func (ev *dEval) switchStmt(st *dState, s *ast.SwitchStmt) []*dState {
	return ev.scoped(st, func(st *dState) []*dState {
		sts := []*dState{st}
		if s.Init != nil {
			sts = ev.stmt(st, s.Init)
		}
		outs := []*dState{}
		for _, q0 := range sts {
			if q0.done != "" {
				outs = append(outs, q0)
				continue
			}
			if s.Tag != nil && q0.mentionsTracked(s.Tag) {
				q0.poison("switch-on-a-tracked-value")
				outs = append(outs, q0)
				continue
			}
			remaining := []*dState{q0}
			var deflt *ast.CaseClause
			for _, c := range s.Body.List {
				cc := c.(*ast.CaseClause)
				if cc.List == nil {
					deflt = cc
					continue
				}
				for _, b := range cc.Body {
					if br, ok := b.(*ast.BranchStmt); ok && br.Tok == token.FALLTHROUGH {
						q0.poison("fallthrough")
					}
				}
				taken := []*dState{}
				for _, ce := range cc.List {
					next := []*dState{}
					for _, r := range remaining {
						if s.Tag == nil {
							t, f := ev.cond(r, ce)
							taken, next = append(taken, t...), append(next, f...)
						} else {
							a, b := dFork(r)
							taken, next = append(taken, a), append(next, b)
						}
					}
					remaining = next
				}
				for _, t := range taken {
					if t.done != "" {
						outs = append(outs, t)
						continue
					}
					outs = append(outs, ev.scoped(t, func(t *dState) []*dState { return ev.block([]*dState{t}, cc.Body) })...)
				}
			}
			for _, r := range remaining {
				if deflt != nil && r.done == "" {
					outs = append(outs, ev.scoped(r, func(t *dState) []*dState { return ev.block([]*dState{t}, deflt.Body) })...)
				} else {
					outs = append(outs, r)
				}
			}
		}
		for _, o := range outs {
			if o.done == "break" {
				o.done = ""
			}
		}
		return outs
	})
}

// ---------------------------------------------------------------------------------------------------------------------
// loops: executed once, for the generic index of a slice's length

func (st *dState) classOf(v *dVal) string {
	switch v.kind {
	case "ptrA":
		o := v.obj
		switch {
		case o == st.elem:
			if st.nilness[o] == "nil" {
				return "nilok"
			}
			return "orig"
		case !o.shared && o.copyOf == st.elem && !o.modified:
			return "copy"
		}
	case "nil":
		if st.nilness[st.elem] == "nil" {
			return "nilok"
		}
		return "zero"
	}
	return "other"
}

func dJoin(cs map[string]bool) string {
	switch {
	case cs["other"] || len(cs) == 0:
		return "mixed"
	case cs["copy"] && !cs["orig"] && !cs["zero"]:
		return "copied"
	case cs["orig"] && !cs["copy"] && !cs["zero"]:
		return "orig"
	case cs["zero"] && !cs["copy"] && !cs["orig"] && !cs["nilok"]:
		return "zero"
	case len(cs) == 1 && cs["nilok"]:
		return "copied"
	}
	return "mixed"
}

// slices reachable from the variables of the state, by id
func (st *dState) slicesByID() map[string]*dObj {
	res := map[string]*dObj{}
	seen := map[*dObj]bool{}
	var visit func(v *dVal)
	visit = func(v *dVal) {
		if v == nil || v.obj == nil || seen[v.obj] {
			return
		}
		o := v.obj
		seen[o] = true
		if o.kind == "slice" {
			res[o.id] = o
		}
		visit(o.from)
		visit(o.to)
		for _, c := range o.carries {
			visit(&dVal{kind: "refS", obj: c})
		}
	}
	envs := [][]map[string]*dVar{st.env}
	for _, f := range st.frames {
		envs = append(envs, f.env)
	}
	for _, env := range envs {
		for _, sc := range env {
			for _, x := range sc {
				visit(x.v)
			}
		}
	}
	return res
}

// runLoop: `body` for every index of a slice whose length token is tok; bind defines the loop variables
func (ev *dEval) runLoop(st *dState, tok string, bind func(b *dState), body []ast.Stmt, whole ast.Node) []*dState {
	if st.loop != nil {
		return ev.skipOrPoison(st, whole, "nested-loop")
	}
	b := st.clone()
	b.push()
	b.loop = &dLoop{tok: tok, scopeBase: len(b.env) - 1, start: *st.uniq, stores: map[*dObj]*dVal{}, appends: map[*dObj][]*dVal{}}
	bind(b)
	outs := ev.block([]*dState{b}, body)
	stored := map[string]map[string]bool{}   // slice id -> classes of t[i] at the end of an iteration
	appended := map[string]map[string]bool{} // slice id -> classes of the ONE value appended per iteration
	live := []*dState{}
	for _, o := range outs {
		switch {
		case o.done == "" || o.done == "continue":
			live = append(live, o)
		case o.done == "dead":
		case strings.HasPrefix(o.done, "?"):
			st.poison(o.done[1:])
			return []*dState{st}
		default:
			st.poison("loop-left-by-" + o.done)
			return []*dState{st}
		}
	}
	for _, o := range live {
		for s := range o.loop.stores {
			if stored[s.id] == nil {
				stored[s.id] = map[string]bool{}
			}
		}
		for s := range o.loop.appends {
			if appended[s.id] == nil {
				appended[s.id] = map[string]bool{}
			}
		}
	}
	pre := st.slicesByID()
	for _, o := range live {
		for id := range stored {
			var cls string
			found := false
			for s, v := range o.loop.stores {
				if s.id == id {
					cls, found = o.classOf(v), true
				}
			}
			if !found {
				p := pre[id]
				switch {
				case p == nil:
					cls = "other"
				case p.elems == "orig":
					cls = o.classOf(&dVal{kind: "ptrA", obj: o.elem})
				case p.elems == "copied":
					cls = "copy"
				case p.elems == "zero":
					cls = o.classOf(dNil)
				default:
					cls = "other"
				}
			}
			stored[id][cls] = true
		}
		for id := range appended {
			cls := "other"
			for s, vs := range o.loop.appends {
				if s.id == id && len(vs) == 1 {
					cls = o.classOf(vs[0])
				}
			}
			appended[id][cls] = true
		}
	}
	for id, cs := range stored {
		p := pre[id]
		if p == nil || appended[id] != nil {
			st.poison("loop-writes-a-slice-made-inside")
			continue
		}
		p.elems = dJoin(cs)
	}
	for id, cs := range appended {
		p := pre[id]
		if p == nil {
			st.poison("loop-writes-a-slice-made-inside")
			continue
		}
		p.building, p.tok, p.elems = false, tok, dJoin(cs)
		if cs["nilok"] && len(cs) > 1 && p.elems == "copied" {
			// fine: `append(t, nil)` where the element is nil keeps positions
		}
	}
	return []*dState{st}
}

func (ev *dEval) rangeStmt(st *dState, s *ast.RangeStmt) []*dState {
	outs := []*dState{}
	for _, r := range ev.expr(st, s.X) {
		q, x := r.st, dFirst(r.v)
		if q.done != "" {
			outs = append(outs, q)
			continue
		}
		tok := ""
		switch {
		case x.kind == "slice" && x.obj.building:
			outs = append(outs, q) // no elements: no iteration
			continue
		case x.kind == "slice":
			tok = x.obj.tok
		case x.kind == "len":
			tok = x.s
		}
		if tok == "" || (s.Tok != token.DEFINE && (s.Key != nil || s.Value != nil)) {
			outs = append(outs, ev.skipOrPoison(q, s, "loop-shape")...)
			continue
		}
		xid := ""
		if x.kind == "slice" {
			xid = x.obj.id
		}
		outs = append(outs, ev.runLoop(q, tok, func(b *dState) {
			if id, ok := s.Key.(*ast.Ident); ok && s.Key != nil {
				b.define(id.Name, &dVal{kind: "idx", s: tok})
			}
			if id, ok := s.Value.(*ast.Ident); ok && s.Value != nil {
				var ev0 *dVal = dOpq
				if o := b.slicesByID()[xid]; o != nil {
					ev0 = b.element(o, &dVal{kind: "idx", s: tok})
				}
				b.define(id.Name, ev0)
			}
		}, s.Body.List, s)...)
	}
	return outs
}

// forStmt: `for i := 0; i < len(x); i++` (also `i != len(x)`, `i < n` with n := len(x), `i += 1`) whose body leaves i alone
func (ev *dEval) forStmt(st *dState, s *ast.ForStmt) []*dState {
	name := ""
	if as, ok := s.Init.(*ast.AssignStmt); ok && as.Tok == token.DEFINE && len(as.Lhs) == 1 && len(as.Rhs) == 1 && strings.TrimSpace(src(as.Rhs[0])) == "0" {
		if id, ok := as.Lhs[0].(*ast.Ident); ok {
			name = id.Name
		}
	}
	okPost := false
	switch p := s.Post.(type) {
	case *ast.IncDecStmt:
		okPost = p.Tok == token.INC && src(p.X) == name
	case *ast.AssignStmt:
		okPost = p.Tok == token.ADD_ASSIGN && len(p.Lhs) == 1 && src(p.Lhs[0]) == name && strings.TrimSpace(src(p.Rhs[0])) == "1"
	}
	be, _ := s.Cond.(*ast.BinaryExpr)
	if name == "" || !okPost || be == nil || s.Body == nil {
		return ev.skipOrPoison(st, s, "loop-shape")
	}
	var bound ast.Expr
	switch {
	case (be.Op == token.LSS || be.Op == token.NEQ) && src(be.X) == name:
		bound = be.Y
	case (be.Op == token.GTR || be.Op == token.NEQ) && src(be.Y) == name:
		bound = be.X
	}
	assigned := false
	ast.Inspect(s.Body, func(n ast.Node) bool {
		switch a := n.(type) {
		case *ast.AssignStmt:
			for _, l := range a.Lhs {
				if id, ok := l.(*ast.Ident); ok && id.Name == name {
					assigned = true
				}
			}
		case *ast.IncDecStmt:
			if id, ok := a.X.(*ast.Ident); ok && id.Name == name {
				assigned = true
			}
		case *ast.UnaryExpr:
			if id, ok := a.X.(*ast.Ident); ok && a.Op == token.AND && id.Name == name {
				assigned = true
			}
		}
		return true
	})
	if bound == nil || assigned {
		return ev.skipOrPoison(st, s, "loop-shape")
	}
	outs := []*dState{}
	for _, r := range ev.expr(st, bound) {
		q, n := r.st, dFirst(r.v)
		if q.done != "" {
			outs = append(outs, q)
			continue
		}
		if n.kind == "zero0" {
			outs = append(outs, q)
			continue
		}
		if n.kind != "len" {
			outs = append(outs, ev.skipOrPoison(q, s, "loop-shape")...)
			continue
		}
		outs = append(outs, ev.runLoop(q, n.s, func(b *dState) { b.define(name, &dVal{kind: "idx", s: n.s}) }, s.Body.List, s)...)
	}
	return outs
}

// ---------------------------------------------------------------------------------------------------------------------
// the verdict

// enterLua: the path has reached <state>.CallByParam(…) whose arguments hold the meta objects ms
func (st *dState) enterLua(ms []*dObj) {
	st.done = "lua"
	if st.loop != nil {
		st.verdict = "unknown:Lua-entered-inside-a-loop"
		return
	}
	if len(ms) == 0 {
		st.verdict = "unknown:argument-is-not-the-listener's-copy"
		return
	}
	vs := map[string]bool{}
	for _, m := range ms {
		vs[st.metaVerdict(m)] = true
	}
	keys := []string{}
	for k := range vs {
		keys = append(keys, k)
	}
	sort.Strings(keys)
	if len(keys) == 1 {
		st.verdict = keys[0]
	} else {
		st.verdict = "unknown:several-objects:" + strings.Join(keys, "+")
	}
}

// metaVerdict: detached | shared | any (nothing to share on this path: From nil, To empty) | unknown:…
func (st *dState) metaVerdict(m *dObj) string {
	from, to := "other", "other"
	switch f := m.from; {
	case f == nil:
	case f.kind == "ptrA" && f.obj == st.from0:
		from = "shared"
		if st.nilness[st.from0] == "nil" {
			from = "nilok"
		}
	case f.kind == "nil" && st.nilness[st.from0] == "nil":
		from = "nilok"
	case f.kind == "ptrA" && !f.obj.shared && f.obj.copyOf == st.from0 && !f.obj.modified:
		from = "det"
	case f.kind == "ptrA" && f.obj.shared:
		from = "other:an-element-of-To"
	case f.kind == "nil":
		from = "other:dropped"
	case f.kind == "ptrA":
		from = "other:not-a-copy-of-the-event's"
	}
	switch t := m.to; {
	case t == nil:
	case t.kind == "slice" && !t.obj.fresh:
		to = "shared"
		if st.emptines[t.obj.tok] == "empty" {
			to = "nilok"
		}
	case t.kind == "slice" && t.obj.tok == "To0" && !t.obj.building:
		switch t.obj.elems {
		case "copied":
			to = "det"
		case "orig":
			to = "other:fresh-slice-of-the-event's-pointers"
			if st.emptines["To0"] == "empty" {
				to = "nilok"
			}
		default:
			to = "other:elements-" + t.obj.elems
		}
	case t.kind == "slice" && st.emptines["To0"] == "empty" && t.obj.building:
		to = "nilok"
	case t.kind == "nil" && st.emptines["To0"] == "empty":
		to = "nilok"
	case t.kind == "slice":
		to = "other:another-length"
	case t.kind == "nil":
		to = "other:dropped"
	}
	det := func(s string) bool { return s == "det" || s == "nilok" }
	sh := func(s string) bool { return s == "shared" || s == "nilok" }
	switch {
	case from == "nilok" && to == "nilok":
		return "any"
	case det(from) && det(to):
		return "detached"
	case sh(from) && sh(to):
		return "shared"
	}
	return "unknown:from=" + from + ",to=" + to
}

// afterDetach: detached | shared | unknown:<why>
func (pk *luaPkg) afterDetach(fd *ast.FuncDecl) string {
	if fd == nil || fd.Body == nil || fd.Type.Params == nil {
		return "unknown:no-body"
	}
	f := pk.fileOf[fd]
	uniq := 0
	st := &dState{nilness: map[*dObj]string{}, emptines: map[string]string{}, uniq: &uniq}
	st.env = []map[string]*dVar{{}}
	st.from0 = &dObj{kind: "addr", shared: true, id: "From0"}
	st.elem = &dObj{kind: "addr", shared: true, id: "To0[i]"}
	param := ""
	for _, fl := range fd.Type.Params.List {
		t := luaType(f, fl.Type)
		for _, nm := range fl.Names {
			if t == "event.MessageMetadata" && param == "" {
				param = nm.Name
				st.env[0][nm.Name] = &dVar{&dVal{kind: "valS", obj: &dObj{kind: "meta",
					from: &dVal{kind: "ptrA", obj: st.from0},
					to:   &dVal{kind: "slice", obj: &dObj{kind: "slice", id: "To0", tok: "To0", elems: "orig"}}}}}
			} else {
				st.env[0][nm.Name] = &dVar{dOpq}
			}
		}
	}
	if param == "" {
		return "unknown:no-metadata-parameter"
	}
	if rn := luaRecvName(fd); rn != "" {
		st.env[0][rn] = &dVar{dOpq}
	}
	ev := &dEval{pk: pk, files: []*ast.File{f}, stack: []*ast.FuncDecl{fd}, named: [][]string{nil}}
	outs := ev.block([]*dState{st}, fd.Body.List)
	vs := map[string]bool{}
	for _, o := range outs {
		switch {
		case o.done == "lua":
			vs[o.verdict] = true
		case strings.HasPrefix(o.done, "?"):
			vs["unknown:"+o.done[1:]] = true
		}
	}
	delete(vs, "any")
	keys := []string{}
	for k := range vs {
		keys = append(keys, k)
	}
	sort.Strings(keys)
	switch {
	case len(keys) == 0:
		return "unknown:no-CallByParam-in-listener"
	case len(keys) == 1:
		return keys[0]
	}
	for i, k := range keys {
		keys[i] = strings.TrimPrefix(k, "unknown:")
	}
	return "unknown:paths-differ:" + strings.Join(keys, "|")
}
