package main

// T1 facts for C19 (accept-loop failure, session exits): regenerated into lean/Ibx/Gen/Notify.lean and pinned by
// lean/Ibx/Tie/Notify.lean.
//
// STRUCTURAL, like shutdown.go (whose anchors are reused): the Notify channel is "the struct field the method
// Notify() returns", the accept loop "what Start's go statement runs (it calls Accept())", the session function
// "what the go statement of that loop runs" (a wrapper function literal is read together with it), the WaitGroup
// "a struct field of type sync.WaitGroup".  Unexported helpers are followed as if inlined (rtWalk).
//
//   <srv>_notifyCloses     every `close(<notify field>)` of the package, classified by where it stands:
//                            start:beforeAcceptLoop   in Start, before the go statement, on a path that does NOT lead to it
//                                                     (a bind failure: send, close, return — no accept loop ever exists)
//                            start:afterGo            in Start behind the go statement (e.g. after `<-ctx.Done()`)
//                            start:onPathToGo         in Start on the path that goes on to start the accept loop
//                            acceptLoop:fatalPath     in the accept loop, in the `default` case of a select that also receives
//                                                     from <ctx>.Done(), right after a send on the same field, followed by return
//                            acceptLoop:other | other | hidden (inside a function literal)
//   <srv>_notifySends      every send on that field, classified the same way
//   <srv>_notifyCap        the capacity the field is made with (make(chan error, N) in the composite literal)
//   <srv>_sessionSkeleton  the statements of the session goroutine that matter for the WaitGroup balance, in source order:
//                          wrapper literal first, then the session function (helpers inlined):
//                            add        unconditional <wg>.Add(1)
//                            deferDone  a defer that is a TOP-LEVEL statement of its function and runs exactly one <wg>.Done()
//                            return     a return statement of the wrapper / the session function itself
//                            unknown:…  any other WaitGroup call (conditional, in a loop, in a helper, a Done that is not
//                                       deferred, a defer nested in a block), goto, os.Exit, runtime.Goexit
//
// A shape that is not recognised yields `unknown…` / `hidden` / none, which no tie theorem accepts.

import (
	"fmt"
	"go/ast"
	"go/token"
	"sort"
	"strconv"
)

func init() { extractors = append(extractors, extractNotify) }

// ntIsCloseOf: ce is close(<v>.<field>).
func ntIsCloseOf(ce *ast.CallExpr, field string) bool {
	id, ok := ce.Fun.(*ast.Ident)
	if !ok || id.Name != "close" || id.Obj != nil || len(ce.Args) != 1 {
		return false
	}
	return field != "" && sdChanField(ce.Args[0]) == field
}

type ntAnch struct {
	p          *rtPkg
	start      *ast.FuncDecl
	serve      *ast.FuncDecl
	sess       *ast.FuncDecl
	wrapper    *ast.FuncLit
	sessCall   *ast.CallExpr
	sw, sv     *rtWalk
	startGo    int
	notify     string
	wg         map[string]bool
	whyMissing string
}

func ntAnchors(srv string) *ntAnch {
	a := &ntAnch{p: rtLoadPkg("pkg/server/" + srv), startGo: -1}
	p := a.p
	a.wg = sdFieldsOfType(p, "sync", "WaitGroup")
	a.start = p.method("Server", "Start")
	if nm := p.method("Server", "Notify"); nm != nil && len(nm.Body.List) == 1 {
		if rs, ok := nm.Body.List[0].(*ast.ReturnStmt); ok && len(rs.Results) == 1 {
			a.notify = p.field(rs.Results[0], nil)
		}
	}
	if a.notify == "" {
		a.whyMissing = "Notify() is not `return <receiver>.<field>`"
	}
	if a.start == nil {
		a.whyMissing = "Server.Start not found"
		return a
	}
	a.sw = rtWalkBody(p, a.start.Body, nil)
	n := 0
	for i, l := range a.sw.leaves {
		if gs, ok := l.st.(*ast.GoStmt); ok {
			n++
			a.startGo = i
			a.serve, _, _ = sdGoTarget(p, gs)
		}
	}
	if n != 1 || a.serve == nil {
		a.serve, a.startGo = nil, -1
		a.whyMissing = "Start does not have exactly one go statement running a package function"
		return a
	}
	a.sv = rtWalkBody(p, a.serve.Body, nil)
	accepts := false
	n = 0
	for _, l := range a.sv.leaves {
		if gs, ok := l.st.(*ast.GoStmt); ok {
			n++
			a.sess, a.wrapper, a.sessCall = sdGoTarget(p, gs)
		}
		for _, ce := range rtCalls(l.scope()) {
			if rtCallName(ce) == "Accept" && len(ce.Args) == 0 {
				accepts = true
			}
		}
	}
	if n != 1 || !accepts {
		a.sess = nil
		a.whyMissing = "the goroutine Start spawns is not an accept loop with exactly one go statement"
	}
	return a
}

// ntSiteClass classifies the leaf at index i of walk w (which = "start" | "acceptLoop").
func (a *ntAnch) ntSiteClass(which string, w *rtWalk, i int, isClose bool) string {
	l := w.leaves[i]
	switch which {
	case "start":
		goLeaf := w.leaves[a.startGo]
		switch {
		case i > a.startGo:
			return "start:afterGo"
		case sdPrefixPc(l.pc, goLeaf.pc):
			return "start:onPathToGo"
		default:
			return "start:beforeAcceptLoop"
		}
	case "acceptLoop":
		// in the default clause of a select that also receives from ctx.Done()
		inDefault := false
		for _, at := range l.pc {
			if at.comm == nil || at.comm.Comm != nil {
				continue
			}
			// find the select statement owning this clause among the leaves
			for _, sl := range w.leaves {
				sel, ok := sl.st.(*ast.SelectStmt)
				if !ok {
					continue
				}
				owns, hasDone := false, false
				for _, c := range sel.Body.List {
					cc := c.(*ast.CommClause)
					if cc == at.comm {
						owns = true
					}
					if cc.Comm != nil && a.p.isDoneRecv(cc.Comm, sl.env) {
						hasDone = true
					}
				}
				if owns && hasDone {
					inDefault = true
				}
			}
		}
		if !inDefault {
			return "acceptLoop:other"
		}
		if isClose {
			// right after a send on the same field (same path condition) …
			if i == 0 {
				return "acceptLoop:other"
			}
			prev := w.leaves[i-1]
			ss, ok := prev.st.(*ast.SendStmt)
			if !ok || sdChanField(ss.Chan) != a.notify || !sdSamePc(prev.pc, l.pc) {
				return "acceptLoop:other"
			}
		}
		// … and followed, on the same path, by a return of the accept loop itself (helper-call statements and logging
		// in between are the inlined call's own leaf)
		for j := i + 1; j < len(w.leaves); j++ {
			n := w.leaves[j]
			if !sdPrefixPc(l.pc[:ntMin(len(l.pc), len(n.pc))], n.pc) && !sdPrefixPc(n.pc, l.pc) {
				break
			}
			if _, ok := n.st.(*ast.ReturnStmt); ok && n.owner == 0 {
				return "acceptLoop:fatalPath"
			}
			switch v := n.st.(type) {
			case *ast.ExprStmt:
				if ce, ok := v.X.(*ast.CallExpr); ok && (ntIsCloseOf(ce, a.notify) || rtIsLogging(v)) {
					continue
				}
				if ce, ok := v.X.(*ast.CallExpr); ok {
					if fd, _ := a.p.helper(ce); fd != nil {
						continue
					}
				}
			case *ast.ReturnStmt:
				continue // a helper's own return
			}
			break
		}
		return "acceptLoop:other"
	}
	return "other"
}

func ntMin(a, b int) int {
	if a < b {
		return a
	}
	return b
}

// ntNotifySites: classes of all close(<notify>) calls and all sends on <notify> in the package.
func (a *ntAnch) ntNotifySites() (closes, sends []string) {
	p := a.p
	if a.notify == "" {
		return []string{"unknown:" + a.whyMissing}, []string{"unknown:" + a.whyMissing}
	}
	seen := map[ast.Node]bool{}
	classify := func(which string, w *rtWalk) {
		if w == nil {
			return
		}
		for i, l := range w.leaves {
			switch v := l.st.(type) {
			case *ast.ExprStmt:
				// every inlined occurrence is a site of its own (a helper shared by several paths is read once per call)
				if ce, ok := v.X.(*ast.CallExpr); ok && ntIsCloseOf(ce, a.notify) {
					seen[ce] = true
					closes = append(closes, a.ntSiteClass(which, w, i, true))
				}
			case *ast.SendStmt:
				if sdChanField(v.Chan) == a.notify {
					seen[v] = true
					sends = append(sends, a.ntSiteClass(which, w, i, false))
				}
			}
		}
	}
	if a.startGo >= 0 {
		classify("start", a.sw)
	}
	classify("acceptLoop", a.sv)
	// everything else, lexically (function literals included)
	for _, fds := range p.funcs {
		for _, fd := range fds {
			inLit := 0
			var visit func(n ast.Node)
			visit = func(n ast.Node) {
				ast.Inspect(n, func(x ast.Node) bool {
					switch v := x.(type) {
					case *ast.FuncLit:
						if x == n {
							return true
						}
						inLit++
						visit(v.Body)
						inLit--
						return false
					case *ast.CallExpr:
						if ntIsCloseOf(v, a.notify) && !seen[v] {
							seen[v] = true
							if inLit > 0 {
								closes = append(closes, "hidden")
							} else {
								closes = append(closes, "other")
							}
						}
					case *ast.SendStmt:
						if sdChanField(v.Chan) == a.notify && !seen[v] {
							seen[v] = true
							if inLit > 0 {
								sends = append(sends, "hidden")
							} else {
								sends = append(sends, "other")
							}
						}
					}
					return true
				})
			}
			visit(fd.Body)
		}
	}
	if (a.sw != nil && a.sw.unknown) || (a.sv != nil && a.sv.unknown) {
		closes = append(closes, "unknown:control flow of Start / the accept loop not understood")
	}
	if a.serve == nil {
		closes = append(closes, "unknown:"+a.whyMissing)
	}
	sort.Strings(closes)
	sort.Strings(sends)
	return
}

// ntNotifyCap: the capacity in `<field>: make(chan …, N)` of the unique composite literal that sets the field.
func (a *ntAnch) ntNotifyCap() string {
	if a.notify == "" {
		return "none"
	}
	var caps []int
	bad := false
	for _, f := range a.p.files {
		ast.Inspect(f, func(x ast.Node) bool {
			kv, ok := x.(*ast.KeyValueExpr)
			if !ok {
				return true
			}
			if id, ok := kv.Key.(*ast.Ident); !ok || id.Name != a.notify {
				return true
			}
			ce, ok := rtUnparen(kv.Value).(*ast.CallExpr)
			if !ok {
				bad = true
				return true
			}
			if id, ok := ce.Fun.(*ast.Ident); !ok || id.Name != "make" || len(ce.Args) < 1 {
				bad = true
				return true
			}
			if _, ok := ce.Args[0].(*ast.ChanType); !ok {
				bad = true
				return true
			}
			if len(ce.Args) == 1 {
				caps = append(caps, 0)
				return true
			}
			if lit, ok := ce.Args[1].(*ast.BasicLit); ok && lit.Kind == token.INT {
				if n, err := strconv.Atoi(lit.Value); err == nil {
					caps = append(caps, n)
					return true
				}
			}
			bad = true
			return true
		})
		// plain assignments to the field anywhere else make the capacity unknown
		ast.Inspect(f, func(x ast.Node) bool {
			if as, ok := x.(*ast.AssignStmt); ok {
				for _, l := range as.Lhs {
					if sdChanField(l) == a.notify {
						bad = true
					}
				}
			}
			return true
		})
	}
	if bad || len(caps) != 1 {
		return "none"
	}
	return fmt.Sprintf("some %d", caps[0])
}

// ntSkeleton: the balance skeleton of the session goroutine.
func (a *ntAnch) ntSkeleton() []string {
	if a.sess == nil {
		return []string{"unknown:" + a.whyMissing}
	}
	p := a.p
	var out []string
	wgCall := func(n ast.Node) int { return sdCountFieldCalls(n, a.wg, "Add", "Done", "Wait") }
	// the session function: rtWalk (helpers inlined); its top-level statements decide what an unconditional defer is
	sessPass := func() {
		b := a.sess.Body
		top := map[ast.Stmt]bool{}
		for _, s := range b.List {
			top[s] = true
		}
		w := rtWalkBody(p, b, nil)
		if w.unknown {
			out = append(out, "unknown:goto / fallthrough / type switch in the session function")
		}
		understood := 0
		for _, l := range w.leaves {
			switch v := l.st.(type) {
			case *ast.DeferStmt:
				d := sdDeferDones(v, a.wg)
				switch {
				case d == 0 && wgCall(v) == 0:
				case d == 1 && l.owner == 0 && top[v]:
					out = append(out, "deferDone")
					understood += wgCall(v)
				default:
					out = append(out, "unknown:a defer touching the WaitGroup is nested, in a helper, or runs Done other than once")
					understood += wgCall(v)
				}
			case *ast.ExprStmt:
				if sdStmtFieldCall(v, a.wg, "Add") {
					if l.owner == 0 && len(l.pc) == 0 && len(l.loops) == 0 {
						out = append(out, "add")
					} else {
						out = append(out, "unknown:conditional / repeated / helper Add")
					}
					understood++
				} else if sdStmtFieldCall(v, a.wg, "Done") {
					out = append(out, "unknown:Done that is not deferred")
					understood++
				}
				for _, ce := range rtCalls(v) {
					if rtIsPkgSel(ce.Fun, "os", "Exit") || rtIsPkgSel(ce.Fun, "runtime", "Goexit") {
						out = append(out, "unknown:os.Exit / runtime.Goexit")
					}
				}
			case *ast.ReturnStmt:
				if l.owner == 0 {
					out = append(out, "return")
				}
			}
		}
		// every WaitGroup call written in this body and the helpers inlined from it must be one of the above
		lex := wgCall(b)
		for fd := range w.inlined {
			lex += wgCall(fd.Body)
		}
		if lex != understood {
			out = append(out, fmt.Sprintf("unknown:%d WaitGroup calls written in the session function and its helpers, %d understood", lex, understood))
		}
	}
	if a.wrapper == nil {
		sessPass()
		return out
	}
	// the wrapper literal: its top-level statements, in order
	called := false
	for _, st := range a.wrapper.Body.List {
		switch v := st.(type) {
		case *ast.DeferStmt:
			d := sdDeferDones(v, a.wg)
			switch {
			case d == 0 && wgCall(v) == 0:
			case d == 1:
				out = append(out, "deferDone")
			default:
				out = append(out, "unknown:a defer of the go wrapper runs Done other than once")
			}
			continue
		case *ast.ExprStmt:
			if v.X == ast.Expr(a.sessCall) && !called {
				called = true
				sessPass()
				continue
			}
			if sdStmtFieldCall(v, a.wg, "Add") {
				out = append(out, "add")
				continue
			}
		case *ast.ReturnStmt:
			out = append(out, "return")
			continue
		}
		// any other statement: must not touch the WaitGroup; a return inside it is an exit point
		if wgCall(st) != 0 {
			out = append(out, "unknown:WaitGroup call of the go wrapper that is not a top-level Add / deferred Done")
		}
		ast.Inspect(st, func(x ast.Node) bool {
			switch x.(type) {
			case *ast.FuncLit:
				return false
			case *ast.ReturnStmt:
				out = append(out, "return")
			}
			return true
		})
	}
	if !called {
		out = append(out, "unknown:the go wrapper does not call the session function as a top-level statement")
	}
	return out
}

func extractNotify() {
	g := gen("Notify")
	for _, srv := range []string{"smtp", "pop3"} {
		a := ntAnchors(srv)
		closes, sends := a.ntNotifySites()
		g.def(srv+"_notifyCloses", "List String", strList(closes),
			"every close(<the field Notify() returns>) of package "+srv+", by position: start:beforeAcceptLoop (bind failure path, never reaches the go statement) | start:afterGo | start:onPathToGo | acceptLoop:fatalPath (default case of the select beside <-ctx.Done(), right after the send, then return) | acceptLoop:other | other | hidden | unknown:…")
		g.def(srv+"_notifySends", "List String", strList(sends),
			"every send on that field, classified the same way")
		g.def(srv+"_notifyCap", "Option Nat", a.ntNotifyCap(),
			"capacity the field is made with in the server's composite literal (none: not a make(chan …, <int literal>) there, or assigned elsewhere)")
		g.def(srv+"_sessionSkeleton", "List String", strList(a.ntSkeleton()),
			"WaitGroup balance skeleton of the session goroutine (wrapper literal, then the session function, helpers inlined), in source order: add | deferDone (top-level defer running exactly one Done) | return | unknown:…")
	}
}
