package main

// astutil.go: name-independent go/ast helpers (prefix ax) shared by hub.go and broker.go.
//
// The T1 facts are meant to describe STRUCTURE, not spelling.  The helpers here identify things by
//   * identity of the declared object (ast.Ident.Obj, resolved by go/parser for locals, parameters, receivers
//     and file-level declarations) instead of the identifier's name,
//   * the declared TYPE of a struct field instead of its name (the name is then derived from the declaration),
//   * exported / standard-library selector names (Lock, RemoveListener, Do, Signal, …), builtins (close, append,
//     make), operators and literal values,
//   * the call graph inside one file (calls to same-file functions and to methods declared in the file are
//     followed, so extracting or inlining an unexported helper does not change a fact).

import (
	"go/ast"
	"go/token"
	"strconv"
)

func axUnparen(e ast.Expr) ast.Expr {
	for {
		p, ok := e.(*ast.ParenExpr)
		if !ok {
			return e
		}
		e = p.X
	}
}

// axObj: the declared object an identifier expression refers to (nil for non-identifiers, builtins, other packages).
func axObj(e ast.Expr) *ast.Object {
	if e == nil {
		return nil
	}
	id, ok := axUnparen(e).(*ast.Ident)
	if !ok {
		return nil
	}
	return id.Obj
}

// axIs: e is an identifier bound to exactly the object o (o != nil).
func axIs(e ast.Expr, o *ast.Object) bool { return o != nil && axObj(e) == o }

// axBuiltin: call is `name(...)` with name an unresolved (= predeclared, not shadowed in this file) identifier.
func axBuiltin(n ast.Node, name string) (*ast.CallExpr, bool) {
	ce, ok := n.(*ast.CallExpr)
	if !ok {
		return nil, false
	}
	id, ok := axUnparen(ce.Fun).(*ast.Ident)
	if !ok || id.Name != name || id.Obj != nil {
		return nil, false
	}
	return ce, true
}

func axIsNil(e ast.Expr) bool {
	id, ok := axUnparen(e).(*ast.Ident)
	return ok && id.Name == "nil" && id.Obj == nil
}

// axSel: e is `<base>.<name>`.
func axSel(e ast.Expr) (ast.Expr, string, bool) {
	se, ok := axUnparen(e).(*ast.SelectorExpr)
	if !ok {
		return nil, "", false
	}
	return se.X, se.Sel.Name, true
}

// axIsField: e is a selector whose last name is field (whatever the base: receiver, parameter, alias of it).
func axIsField(e ast.Expr, field string) bool {
	_, n, ok := axSel(e)
	return ok && field != "" && n == field
}

// axTypeBase: name of the (possibly pointer, possibly generic-instantiated) named type expression, "" otherwise.
func axTypeBase(t ast.Expr) string {
	if s, ok := t.(*ast.StarExpr); ok {
		t = s.X
	}
	switch x := t.(type) {
	case *ast.IndexExpr:
		t = x.X
	case *ast.IndexListExpr:
		t = x.X
	}
	if id, ok := t.(*ast.Ident); ok {
		return id.Name
	}
	return ""
}

func axRecvType(fd *ast.FuncDecl) string {
	if fd == nil || fd.Recv == nil || len(fd.Recv.List) != 1 {
		return ""
	}
	return axTypeBase(fd.Recv.List[0].Type)
}

// axRecvObj: the object of the receiver variable (nil when anonymous).
func axRecvObj(fd *ast.FuncDecl) *ast.Object {
	if fd == nil || fd.Recv == nil || len(fd.Recv.List) != 1 || len(fd.Recv.List[0].Names) != 1 {
		return nil
	}
	return fd.Recv.List[0].Names[0].Obj
}

// axParamObj: object of the i-th parameter (flattened), nil if absent / anonymous.
func axParamObj(fd *ast.FuncDecl, i int) *ast.Object {
	if fd == nil || fd.Type.Params == nil {
		return nil
	}
	k := 0
	for _, f := range fd.Type.Params.List {
		if len(f.Names) == 0 {
			k++
			continue
		}
		for _, n := range f.Names {
			if k == i {
				return n.Obj
			}
			k++
		}
	}
	return nil
}

// axMethods: the methods declared in f on the named type (generic receivers included), by name.
func axMethods(f *ast.File, typ string) map[string]*ast.FuncDecl {
	res := map[string]*ast.FuncDecl{}
	if f == nil {
		return res
	}
	for _, d := range f.Decls {
		if fd, ok := d.(*ast.FuncDecl); ok && fd.Recv != nil && axRecvType(fd) == typ {
			res[fd.Name.Name] = fd
		}
	}
	return res
}

// axStruct: the struct type declared under the given name in f.
func axStruct(f *ast.File, name string) *ast.StructType {
	if f == nil {
		return nil
	}
	for _, d := range f.Decls {
		gd, ok := d.(*ast.GenDecl)
		if !ok || gd.Tok != token.TYPE {
			continue
		}
		for _, sp := range gd.Specs {
			if ts, ok := sp.(*ast.TypeSpec); ok && ts.Name.Name == name {
				st, _ := ts.Type.(*ast.StructType)
				return st
			}
		}
	}
	return nil
}

// axFieldsWhere: names of the fields of st whose declared type satisfies p, in declaration order.
func axFieldsWhere(st *ast.StructType, p func(t ast.Expr) bool) []string {
	var res []string
	if st == nil || st.Fields == nil {
		return res
	}
	for _, f := range st.Fields.List {
		if p(f.Type) {
			for _, n := range f.Names {
				res = append(res, n.Name)
			}
		}
	}
	return res
}

func axIsChanOfEmptyStruct(t ast.Expr) bool {
	ct, ok := t.(*ast.ChanType)
	if !ok {
		return false
	}
	st, ok := ct.Value.(*ast.StructType)
	return ok && (st.Fields == nil || len(st.Fields.List) == 0)
}

// axIsQualified: t is `pkg.Name` or `*pkg.Name`.
func axIsQualified(t ast.Expr, pkg, name string, ptr bool) bool {
	if ptr {
		s, ok := t.(*ast.StarExpr)
		if !ok {
			return false
		}
		t = s.X
	}
	se, ok := t.(*ast.SelectorExpr)
	if !ok || se.Sel.Name != name {
		return false
	}
	id, ok := se.X.(*ast.Ident)
	return ok && id.Name == pkg
}

// axTypesWithMethods: names of the types of f that declare ALL the named methods.
func axTypesWithMethods(f *ast.File, names ...string) []string {
	have := map[string]map[string]bool{}
	var order []string
	if f == nil {
		return nil
	}
	for _, d := range f.Decls {
		fd, ok := d.(*ast.FuncDecl)
		if !ok || fd.Recv == nil {
			continue
		}
		t := axRecvType(fd)
		if t == "" {
			continue
		}
		if have[t] == nil {
			have[t] = map[string]bool{}
			order = append(order, t)
		}
		have[t][fd.Name.Name] = true
	}
	var res []string
	for _, t := range order {
		all := true
		for _, n := range names {
			all = all && have[t][n]
		}
		if all {
			res = append(res, t)
		}
	}
	return res
}

// axCallee: the same-file declaration a call goes to: a file-level function called by its name, or a method
// `<base>.<name>(…)` whose name is declared on typ in this file (typ "" = do not follow method calls).  The base is
// not type-checked; it is only ruled out when it is a package name or a parameter / receiver declared with another type.
func axCallee(f *ast.File, typ string, ce *ast.CallExpr) *ast.FuncDecl {
	switch fun := axUnparen(ce.Fun).(type) {
	case *ast.Ident:
		if fun.Obj != nil && fun.Obj.Kind == ast.Fun {
			if fd, ok := fun.Obj.Decl.(*ast.FuncDecl); ok && fd.Recv == nil {
				return fd
			}
		}
	case *ast.SelectorExpr:
		if typ == "" {
			return nil
		}
		if id, ok := axUnparen(fun.X).(*ast.Ident); ok {
			if id.Obj == nil {
				return nil // package-qualified function, or something declared in another file
			}
			if fld, ok := id.Obj.Decl.(*ast.Field); ok && axTypeBase(fld.Type) != typ {
				return nil // a parameter / receiver of another type (conn.Close() is not the listener's Close)
			}
		}
		if fd, ok := axMethods(f, typ)[fun.Sel.Name]; ok {
			return fd
		}
	}
	return nil
}

// axReach: start plus every same-file function / method of typ (transitively) called from them.
func axReach(f *ast.File, typ string, start ...*ast.FuncDecl) []*ast.FuncDecl {
	seen := map[*ast.FuncDecl]bool{}
	var res []*ast.FuncDecl
	work := append([]*ast.FuncDecl{}, start...)
	for len(work) > 0 {
		fd := work[0]
		work = work[1:]
		if fd == nil || fd.Body == nil || seen[fd] {
			continue
		}
		seen[fd] = true
		res = append(res, fd)
		ast.Inspect(fd.Body, func(x ast.Node) bool {
			if ce, ok := x.(*ast.CallExpr); ok {
				if c := axCallee(f, typ, ce); c != nil {
					work = append(work, c)
				}
			}
			return true
		})
	}
	return res
}

// axAny: some node of one of the bodies satisfies p.
func axAny(fds []*ast.FuncDecl, p func(ast.Node) bool) bool {
	found := false
	for _, fd := range fds {
		if fd == nil || fd.Body == nil {
			continue
		}
		ast.Inspect(fd.Body, func(x ast.Node) bool {
			if x != nil && !found && p(x) {
				found = true
			}
			return !found
		})
	}
	return found
}

// axCount: number of nodes under n satisfying p (n may be nil).
func axCount(n ast.Node, p func(ast.Node) bool) int {
	k := 0
	if n == nil || isNilNode(n) {
		return 0
	}
	ast.Inspect(n, func(x ast.Node) bool {
		if x != nil && p(x) {
			k++
		}
		return true
	})
	return k
}

// axIntValue: e is an integer literal, or an identifier bound to a file-level / local constant whose value is one.
func axIntValue(e ast.Expr) *int {
	switch v := axUnparen(e).(type) {
	case *ast.BasicLit:
		if v.Kind == token.INT {
			if n, err := strconv.ParseInt(v.Value, 0, 64); err == nil {
				i := int(n)
				return &i
			}
		}
	case *ast.Ident:
		if v.Obj == nil || v.Obj.Kind != ast.Con {
			return nil
		}
		vs, ok := v.Obj.Decl.(*ast.ValueSpec)
		if !ok {
			return nil
		}
		for i, n := range vs.Names {
			if n.Obj == v.Obj && i < len(vs.Values) {
				return axIntValue(vs.Values[i])
			}
		}
	}
	return nil
}

// axMakeChanCap: e is make(chan …, N); returns N (nil when e is not such a call or N is not a known integer).
func axMakeChanCap(e ast.Expr) (*int, bool) {
	ce, ok := axBuiltin(axUnparen(e), "make")
	if !ok || len(ce.Args) < 1 {
		return nil, false
	}
	if _, ok := ce.Args[0].(*ast.ChanType); !ok {
		return nil, false
	}
	if len(ce.Args) == 1 {
		z := 0
		return &z, true
	}
	return axIntValue(ce.Args[1]), true
}

// axFieldInits: every expression assigned to field `name` under n: as `name: v` in a composite literal or
// as `<x>.name = v`; bad = an assignment to the field that cannot be paired with one value.
func axFieldInits(n ast.Node, name string) (vals []ast.Expr, bad bool) {
	if n == nil || isNilNode(n) {
		return nil, false
	}
	ast.Inspect(n, func(x ast.Node) bool {
		switch v := x.(type) {
		case *ast.KeyValueExpr:
			if id, ok := v.Key.(*ast.Ident); ok && id.Name == name {
				vals = append(vals, v.Value)
			}
		case *ast.AssignStmt:
			for i, l := range v.Lhs {
				if axIsField(l, name) {
					if len(v.Rhs) == len(v.Lhs) {
						vals = append(vals, v.Rhs[i])
					} else {
						bad = true
					}
				}
			}
		}
		return true
	})
	return vals, bad
}

// axComm describes the communication of one select clause.
type axComm struct {
	isDefault bool
	send      ast.Expr // channel sent on (nil if not a send)
	recv      ast.Expr // channel received from (nil if not a receive)
	clause    *ast.CommClause
}

func axComms(ss *ast.SelectStmt) []axComm {
	var res []axComm
	for _, cl := range ss.Body.List {
		cc, ok := cl.(*ast.CommClause)
		if !ok {
			continue
		}
		c := axComm{clause: cc}
		switch v := cc.Comm.(type) {
		case nil:
			c.isDefault = true
		case *ast.SendStmt:
			c.send = v.Chan
		case *ast.ExprStmt:
			if u, ok := axUnparen(v.X).(*ast.UnaryExpr); ok && u.Op == token.ARROW {
				c.recv = u.X
			}
		case *ast.AssignStmt:
			if len(v.Rhs) == 1 {
				if u, ok := axUnparen(v.Rhs[0]).(*ast.UnaryExpr); ok && u.Op == token.ARROW {
					c.recv = u.X
				}
			}
		}
		res = append(res, c)
	}
	return res
}

// axSelectsRecvField: some select under the bodies has a case receiving from `<x>.<field>`.
func axSelectsRecvField(fds []*ast.FuncDecl, field string) bool {
	return axAny(fds, func(x ast.Node) bool {
		ss, ok := x.(*ast.SelectStmt)
		if !ok {
			return false
		}
		for _, c := range axComms(ss) {
			if c.recv != nil && axIsField(c.recv, field) {
				return true
			}
		}
		return false
	})
}

// axClosesField: close(<x>.<field>) occurs under n; returns the number of such calls.
func axClosesField(n ast.Node, field string) int {
	return axCount(n, func(x ast.Node) bool {
		ce, ok := axBuiltin(x, "close")
		return ok && len(ce.Args) == 1 && axIsField(ce.Args[0], field)
	})
}

// axTerminates: the statement list always leaves the enclosing loop iteration / function at its end
// (last statement is return, break, continue, goto or panic(...)).
func axTerminates(l []ast.Stmt) bool {
	if len(l) == 0 {
		return false
	}
	switch s := l[len(l)-1].(type) {
	case *ast.ReturnStmt:
		return true
	case *ast.BranchStmt:
		return s.Tok == token.BREAK || s.Tok == token.CONTINUE || s.Tok == token.GOTO
	case *ast.ExprStmt:
		_, ok := axBuiltin(s.X, "panic")
		return ok
	case *ast.BlockStmt:
		return axTerminates(s.List)
	}
	return false
}

// axNilTest: cond is `<x> == nil` (eq=true) or `<x> != nil` (eq=false), either operand order; returns x.
func axNilTest(cond ast.Expr) (x ast.Expr, eq bool, ok bool) {
	be, isBin := axUnparen(cond).(*ast.BinaryExpr)
	if !isBin || (be.Op != token.EQL && be.Op != token.NEQ) {
		return nil, false, false
	}
	switch {
	case axIsNil(be.Y):
		return be.X, be.Op == token.EQL, true
	case axIsNil(be.X):
		return be.Y, be.Op == token.EQL, true
	}
	return nil, false, false
}

func axLeanBool(b bool) string {
	if b {
		return "true"
	}
	return "false"
}

func axOptBool(b *bool) string {
	if b == nil {
		return "none"
	}
	return "some " + axLeanBool(*b)
}
