package main

// T1 facts for C16 on the file store under concurrent use (Ibx/Tie/FileLock.lean): the SCOPE of the mailbox lock per
// exported method of file.Store.
//
// Every exported method is evaluated by the walker of crash.go in mode crModeScope: every package-local call is inlined
// (so a helper that takes the lock itself — `reserveMessage`, say — is looked through and not mistaken for "no lock"; a
// deferred Unlock counts at the end of the function that registered it), and the atoms are
//
//	lock / rlock / unlock / runlock     a call of Lock / RLock / Unlock / RUnlock without arguments
//	load                                 a call of the index loader (the function that sets the loaded flag; not inlined)
//	list                                 an access to the message list (the mailbox struct's only slice field)
//	emit                                 <…>.AfterMessageDeleted.Emit(…)
//	fs                                   a file-system mutation (os.Create / OpenFile / Rename / Remove / RemoveAll / MkdirAll,
//	                                     io.Copy into, Flush / Close / Write of a handle so obtained)
//
// The PROFILE of a method is the sequence of its locked sections and unlocked stretches in program order: a locked
// section prints as `W[…]` / `R[…]` with the sorted set of atom classes that occur in it, an unlocked stretch as the
// sorted set of its classes (nothing when empty).  So
//
//	["W[emit+fs+list+load]"]                            Lock is the first effect, the (deferred) Unlock the last, nothing outside
//	["W[emit+fs+list+load]", "fs", "W[fs+list]"]        the lock is given up around a file-system mutation and the second section
//	                                                    touches the message list WITHOUT loading the index again
//
// A branch that leaves the lock state different from its sibling, a loop body that changes it, a Lock while it is held or
// an Unlock while it is not make the profile `["?…"]`, which no tie accepts.  Nothing depends on the spelling of a local,
// receiver, unexported helper or field.

import (
	"go/ast"
	"sort"
	"strings"
)

func init() { extractors = append(extractors, extractFileLock) }

type flWalk struct {
	held    string          // "" | "W" | "R"
	inside  map[string]bool // classes of the section in progress
	outside map[string]bool // classes of the unlocked stretch in progress
	out     []string
	bad     string
}

func flClass(atom string) string {
	switch {
	case atom == "L":
		return "load"
	case atom == "M":
		return "list"
	case atom == "E":
		return "emit"
	case strings.HasPrefix(atom, "@"), strings.HasPrefix(atom, "["):
		return ""
	case strings.HasPrefix(atom, "?"):
		return atom
	}
	return "fs"
}

func flSet(m map[string]bool) string {
	ks := []string{}
	for k := range m {
		ks = append(ks, k)
	}
	sort.Strings(ks)
	return strings.Join(ks, "+")
}

func (f *flWalk) flushOutside() {
	if len(f.outside) > 0 {
		f.out = append(f.out, flSet(f.outside))
	}
	f.outside = map[string]bool{}
}

func (f *flWalk) atom(a string) {
	switch a {
	case "lock", "rlock":
		if f.held != "" {
			f.bad = "?lock-while-held"
			return
		}
		f.flushOutside()
		f.held = map[string]string{"lock": "W", "rlock": "R"}[a]
		f.inside = map[string]bool{}
	case "unlock", "runlock":
		if want := map[string]string{"W": "unlock", "R": "runlock"}[f.held]; want != a {
			f.bad = "?unlock-not-held"
			return
		}
		f.out = append(f.out, f.held+"["+flSet(f.inside)+"]")
		f.held = ""
	default:
		c := flClass(a)
		if c == "" {
			return
		}
		if strings.HasPrefix(c, "?") {
			f.bad = c
			return
		}
		if f.held != "" {
			f.inside[c] = true
		} else {
			f.outside[c] = true
		}
	}
}

// seq: walks a program; alternatives must agree on the lock state they leave and may not lock / unlock themselves unless
// every one of them does the same (then they are walked one after the other, which gives the same profile); a loop body
// must leave the lock state as it found it
func (f *flWalk) seq(items []crItem) {
	for _, it := range items {
		if f.bad != "" {
			return
		}
		switch it.kind {
		case 0:
			f.atom(it.atom)
		case 1:
			start := f.held
			touches := false
			for _, b := range it.alt {
				for _, a := range crFlat(b) {
					if a == "lock" || a == "rlock" || a == "unlock" || a == "runlock" {
						touches = true
					}
				}
			}
			if !touches {
				for _, b := range it.alt {
					f.seq(b)
				}
				continue
			}
			// branches that lock / unlock: each is walked from the same state and all must end alike, with the same profile
			var first []string
			end := ""
			for i, b := range it.alt {
				g := &flWalk{held: start, inside: map[string]bool{}, outside: map[string]bool{}}
				for k, v := range f.inside {
					g.inside[k] = v
				}
				for k, v := range f.outside {
					g.outside[k] = v
				}
				g.seq(b)
				if g.bad != "" {
					f.bad = g.bad
					return
				}
				sig := append(append([]string{}, g.out...), "|"+g.held+"|"+flSet(g.inside)+"|"+flSet(g.outside))
				if i == 0 {
					first, end = sig, g.held
					f.out = append(f.out, g.out...)
					f.inside, f.outside = g.inside, g.outside
				} else if strings.Join(sig, ",") != strings.Join(first, ",") {
					f.bad = "?branches-disagree-on-lock"
					return
				}
			}
			f.held = end
		case 2:
			start := f.held
			n := len(f.out)
			f.seq(it.loop)
			if f.bad == "" && f.held != start {
				f.bad = "?loop-changes-lock"
			}
			// a loop that locks and unlocks per iteration (VisitMailboxes) contributes its section once
			_ = n
		}
	}
}

func flProfile(prog []crItem) []string {
	f := &flWalk{inside: map[string]bool{}, outside: map[string]bool{}}
	f.seq(prog)
	if f.bad == "" && f.held != "" {
		f.bad = "?returns-with-lock-held"
	}
	if f.bad != "" {
		return []string{f.bad}
	}
	f.flushOutside()
	return f.out
}

func extractFileLock() {
	g := gen("FileLock")
	p := crFilePkg()
	loader := fsLoader(p)
	rows := []string{}
	var names []string
	for _, fd := range p.exportedMethods("Store") {
		names = append(names, fd.Name.Name)
		prof := []string{"?no-loader"}
		if loader != nil && p.sliceField != "" {
			prof = flProfile((&crWalk{p: p, mode: crModeScope, locks: true, loader: loader}).prog(fd))
		}
		rows = append(rows, "("+leanStr(fd.Name.Name)+", "+strList(prof)+")")
	}
	_ = ast.IsExported
	g.def("fileLockProfiles", "List (String × List String)", "["+strings.Join(rows, ", ")+"]",
		"per exported method of file.Store (sorted by name), with every package-local call inlined (a helper that takes the lock itself is looked through; a deferred Unlock counts at the end of the function that registered it): the sequence of its locked sections and unlocked stretches in program order. A locked section prints as W[…] (Lock … Unlock) or R[…] (RLock … RUnlock) with the sorted set of what happens inside: load = a call of the index loader (the function that sets the loaded flag), list = an access to the message list (the mailbox struct's only slice field), emit = AfterMessageDeleted.Emit, fs = a file-system mutation (os.Create / OpenFile / Rename / Remove / RemoveAll / MkdirAll, io.Copy into / Flush / Close / Write of a handle so obtained); an unlocked stretch prints as the sorted set of what happens in it and is left out when nothing does. ?… = a shape the walk cannot interpret (branches that disagree on the lock state, a loop that changes it, Lock while held, Unlock while not held, a return with the lock held)")
}
