package main

// T1 facts for C18 (sanitiser): pkg/webui/sanitize/{css,html}.go, pkg/server/web/helpers.go and the
// token-name table of the gorilla/css scanner the repository's go.mod selects.

import (
	"go/ast"
	"go/token"
	"os"
	"os/exec"
	"path/filepath"
	"sort"
	"strconv"
	"strings"
)

func init() { extractors = append(extractors, extractSan) }

func unq(e ast.Expr) (string, bool) {
	lit, ok := e.(*ast.BasicLit)
	if !ok || lit.Kind != token.STRING {
		return "", false
	}
	s, err := strconv.Unquote(lit.Value)
	return s, err == nil
}

func sanBytesList(l []string) string {
	p := []string{}
	for _, s := range l {
		p = append(p, byteList(s))
	}
	return "[" + strings.Join(p, ", ") + "]"
}

func optBytesList(l []string, ok bool) string {
	if !ok {
		return "none"
	}
	return "some " + sanBytesList(l)
}

// mapKeys: the string keys of the composite literal assigned to package-level var `name` (sorted).
func mapKeys(f *ast.File, name string) ([]string, bool) {
	if f == nil {
		return nil, false
	}
	for _, d := range f.Decls {
		gd, ok := d.(*ast.GenDecl)
		if !ok || gd.Tok != token.VAR {
			continue
		}
		for _, sp := range gd.Specs {
			vs := sp.(*ast.ValueSpec)
			for i, n := range vs.Names {
				if n.Name != name || i >= len(vs.Values) {
					continue
				}
				cl, ok := vs.Values[i].(*ast.CompositeLit)
				if !ok {
					return nil, false
				}
				keys := []string{}
				for _, e := range cl.Elts {
					kv, ok := e.(*ast.KeyValueExpr)
					if !ok {
						return nil, false
					}
					k, ok := unq(kv.Key)
					if !ok {
						return nil, false
					}
					keys = append(keys, k)
				}
				sort.Strings(keys)
				return keys, true
			}
		}
	}
	return nil, false
}

func varSrc(f *ast.File, name string) *string {
	if f == nil {
		return nil
	}
	for _, d := range f.Decls {
		gd, ok := d.(*ast.GenDecl)
		if !ok || gd.Tok != token.VAR {
			continue
		}
		for _, sp := range gd.Specs {
			vs := sp.(*ast.ValueSpec)
			for i, n := range vs.Names {
				if n.Name == name && i < len(vs.Values) {
					s := strings.Join(strings.Fields(src(vs.Values[i])), "")
					return &s
				}
			}
		}
	}
	return nil
}

// strLits: all string literals inside n, in source order.
func strLits(n ast.Node) []string {
	res := []string{}
	if n == nil || isNilNode(n) {
		return res
	}
	ast.Inspect(n, func(x ast.Node) bool {
		if s, ok := x.(ast.Expr); ok {
			if v, ok := unq(s); ok {
				res = append(res, v)
			}
		}
		return true
	})
	return res
}

// selNames: the names X of every selector `pkg.X` inside n (source order, with repetitions).
func selNames(n ast.Node, pkg string) []string {
	res := []string{}
	if n == nil || isNilNode(n) {
		return res
	}
	ast.Inspect(n, func(x ast.Node) bool {
		if se, ok := x.(*ast.SelectorExpr); ok {
			if id, ok := se.X.(*ast.Ident); ok && id.Name == pkg {
				res = append(res, se.Sel.Name)
			}
		}
		return true
	})
	return res
}

// calls: the callee expressions (printed) of every call inside n, in source order.
func calls(n ast.Node) []string {
	res := []string{}
	if n == nil || isNilNode(n) {
		return res
	}
	ast.Inspect(n, func(x ast.Node) bool {
		if ce, ok := x.(*ast.CallExpr); ok {
			res = append(res, strings.Join(strings.Fields(src(ce.Fun)), ""))
		}
		return true
	})
	return res
}

// returnsOf: printed results of all return statements in n.
func returnsOf(n ast.Node) []string {
	res := []string{}
	if n == nil || isNilNode(n) {
		return res
	}
	ast.Inspect(n, func(x ast.Node) bool {
		if r, ok := x.(*ast.ReturnStmt); ok {
			p := []string{}
			for _, e := range r.Results {
				p = append(p, src(e))
			}
			res = append(res, strings.Join(p, ","))
		}
		return true
	})
	return res
}

func gorillaDir() string {
	cmd := exec.Command("go", "list", "-m", "-f", "{{.Dir}}", "github.com/gorilla/css")
	cmd.Dir = repo
	cmd.Env = append(os.Environ(), "GOFLAGS=-mod=mod", "GOPROXY=off", "GOSUMDB=off", "GOTOOLCHAIN=local")
	out, err := cmd.Output()
	if err != nil {
		return ""
	}
	return strings.TrimSpace(string(out))
}

// scannerTokenNames: tokenNames[...] values in the iota order of the const block of scanner.go.
func scannerTokenNames() ([]string, []string, bool) {
	dir := gorillaDir()
	if dir == "" {
		return nil, nil, false
	}
	saved := repo
	repo = ""
	f := parse(filepath.Join(dir, "scanner", "scanner.go"))
	repo = saved
	if f == nil {
		return nil, nil, false
	}
	var order []string
	for _, d := range f.Decls {
		gd, ok := d.(*ast.GenDecl)
		if !ok || gd.Tok != token.CONST {
			continue
		}
		for _, sp := range gd.Specs {
			for _, n := range sp.(*ast.ValueSpec).Names {
				if strings.HasPrefix(n.Name, "Token") {
					order = append(order, n.Name)
				}
			}
		}
	}
	names := map[string]string{}
	for _, d := range f.Decls {
		gd, ok := d.(*ast.GenDecl)
		if !ok || gd.Tok != token.VAR {
			continue
		}
		for _, sp := range gd.Specs {
			vs := sp.(*ast.ValueSpec)
			for i, n := range vs.Names {
				if n.Name != "tokenNames" || i >= len(vs.Values) {
					continue
				}
				cl, ok := vs.Values[i].(*ast.CompositeLit)
				if !ok {
					return nil, nil, false
				}
				for _, e := range cl.Elts {
					kv := e.(*ast.KeyValueExpr)
					v, ok := unq(kv.Value)
					if !ok {
						return nil, nil, false
					}
					names[src(kv.Key)] = v
				}
			}
		}
	}
	res := []string{}
	for _, c := range order {
		v, ok := names[c]
		if !ok {
			return nil, nil, false
		}
		res = append(res, v)
	}
	return order, res, len(order) > 0
}

func extractSan() {
	g := gen("San")
	css := parse("pkg/webui/sanitize/css.go")
	keys, ok := mapKeys(css, "allowedProperties")
	g.def("allowedProperties", "Option (List (List Nat))", optBytesList(keys, ok), "keys of allowedProperties (css.go), sorted, as bytes")
	g.def("allowedPropertyNames", "List String", strList(keys), "the same, readable")
	// the state handlers: every function whose result type is stateHandler
	handlers := []string{}
	if css != nil {
		for _, d := range css.Decls {
			if fd, ok := d.(*ast.FuncDecl); ok && fd.Type.Results != nil && len(fd.Type.Results.List) == 1 && src(fd.Type.Results.List[0].Type) == "stateHandler" {
				handlers = append(handlers, fd.Name.Name)
			}
		}
	}
	g.def("stateHandlers", "List String", strList(handlers), "functions of css.go returning a stateHandler, in source order")
	for _, h := range []string{"sanitizeStyle", "stateStart", "stateEat", "stateValid"} {
		fd := fn(css, "", h)
		g.def(h+"Lits", "List String", strList(strLits(fd)), "string literals of "+h+", in source order")
		g.def(h+"Types", "List String", strList(selNames(fd, "scanner")), "scanner.X selectors of "+h+", in source order")
		g.def(h+"Returns", "List String", strList(returnsOf(fd)), "results of the return statements of "+h+", in source order")
		g.def(h+"Calls", "List String", strList(calls(fd)), "callees of "+h+", in source order")
	}
	order, names, ok := scannerTokenNames()
	g.def("tokenConsts", "List String", strList(order), "Token* constants of gorilla/css scanner.go in iota order")
	g.def("tokenNames", "Option (List (List Nat))", optBytesList(names, ok), "tokenNames[c] for each of them, as bytes (what tokenType.String() returns)")

	htm := parse("pkg/webui/sanitize/html.go")
	g.def("policySrc", "Option String", optStr(varSrc(htm, "policy")), "initialiser of `policy` in html.go, white space removed")
	g.def("cssSafeSrc", "Option String", optStr(varSrc(htm, "cssSafe")), "initialiser of `cssSafe` in html.go")
	g.def("htmlCalls", "List String", strList(calls(fn(htm, "", "HTML"))), "callees of sanitize.HTML, in source order")
	g.def("filterCalls", "List String", strList(calls(fn(htm, "", "styleTagFilter"))), "callees of styleTagFilter, in source order")
	g.def("filterLits", "List String", strList(strLits(fn(htm, "", "styleTagFilter"))), "string literals of styleTagFilter")

	hl := parse("pkg/server/web/helpers.go")
	var t2h ast.Node = &ast.BlockStmt{}
	if f := fn(hl, "", "TextToHTML"); f != nil {
		t2h = f
	}
	g.def("textToHTMLCalls", "List String", strList(calls(t2h)), "callees of TextToHTML, in source order")
	tl := strLits(t2h)
	g.def("textToHTMLLits", "List (List Nat)", sanBytesList(tl), "string literals of TextToHTML (the replacer's arguments), as bytes")
	rf := "?"
	ast.Inspect(t2h, func(x ast.Node) bool {
		if ce, ok := x.(*ast.CallExpr); ok && t2h != nil && src(ce.Fun) == "urlRE.ReplaceAllStringFunc" && len(ce.Args) == 2 {
			rf = src(ce.Args[1])
		}
		return true
	})
	g.def("textToHTMLReplaceFunc", "String", leanStr(rf), "second argument of urlRE.ReplaceAllStringFunc in TextToHTML")
	wm := fn(hl, "", "wrapMatch")
	g.def("wrapMatchLits", "List (List Nat)", sanBytesList(strLits(wm)), "string literals of wrapMatch (the case list), as bytes")
	g.def("wrapMatchCalls", "List String", strList(calls(wm)), "callees of wrapMatch, in source order")
	g.def("wrapMatchReturns", "List String", strList(returnsOf(wm)), "results of wrapMatch's return statements")
	wu := fn(hl, "", "WrapURL")
	g.def("wrapURLCalls", "List String", strList(calls(wu)), "callees of WrapURL, in source order")
	g.def("wrapURLLits", "List (List Nat)", sanBytesList(strLits(wu)), "string literals of WrapURL, as bytes")
	g.def("wrapURLReturns", "List String", strList(returnsOf(wu)), "results of WrapURL's return statements")
	lk := fn(hl, "", "linkable")
	g.def("linkableLits", "List (List Nat)", sanBytesList(strLits(lk)), "string literals of linkable, as bytes")
	lsrc := ""
	if lk != nil {
		lsrc = strings.Join(strings.Fields(src(lk.Body)), " ")
	}
	g.def("linkableSrc", "String", leanStr(lsrc), "body of linkable, printed with single spaces")
	sk, ok := mapKeys(hl, "linkSchemes")
	g.def("linkSchemes", "Option (List (List Nat))", optBytesList(sk, ok), "keys of linkSchemes (helpers.go), sorted, as bytes")
}
