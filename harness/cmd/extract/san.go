package main

// T1 facts for C18 (sanitiser): pkg/webui/sanitize/{css,html}.go, pkg/server/web/helpers.go and the
// token-name table of the gorilla/css scanner the repository's go.mod selects.

import (
	"fmt"
	"go/ast"
	"go/token"
	"os"
	"os/exec"
	"path/filepath"
	"sort"
	"strconv"
	"strings"
)

func init() { extractors = append(extractors, extractSan) }

func unq(e ast.Expr) (string, bool) {
	lit, ok := e.(*ast.BasicLit)
	if !ok || lit.Kind != token.STRING {
		return "", false
	}
	s, err := strconv.Unquote(lit.Value)
	return s, err == nil
}

func sanBytesList(l []string) string {
	p := []string{}
	for _, s := range l {
		p = append(p, byteList(s))
	}
	return "[" + strings.Join(p, ", ") + "]"
}

func optBytesList(l []string, ok bool) string {
	if !ok {
		return "none"
	}
	return "some " + sanBytesList(l)
}

func gorillaDir() string {
	cmd := exec.Command("go", "list", "-m", "-f", "{{.Dir}}", "github.com/gorilla/css")
	cmd.Dir = repo
	cmd.Env = append(os.Environ(), "GOFLAGS=-mod=mod", "GOPROXY=off", "GOSUMDB=off", "GOTOOLCHAIN=local")
	out, err := cmd.Output()
	if err != nil {
		return ""
	}
	return strings.TrimSpace(string(out))
}

// scannerTokenNames: tokenNames[...] values in the iota order of the const block of scanner.go.
func scannerTokenNames() ([]string, []string, bool) {
	dir := gorillaDir()
	if dir == "" {
		return nil, nil, false
	}
	saved := repo
	repo = ""
	f := parse(filepath.Join(dir, "scanner", "scanner.go"))
	repo = saved
	if f == nil {
		return nil, nil, false
	}
	var order []string
	for _, d := range f.Decls {
		gd, ok := d.(*ast.GenDecl)
		if !ok || gd.Tok != token.CONST {
			continue
		}
		for _, sp := range gd.Specs {
			for _, n := range sp.(*ast.ValueSpec).Names {
				if strings.HasPrefix(n.Name, "Token") {
					order = append(order, n.Name)
				}
			}
		}
	}
	names := map[string]string{}
	for _, d := range f.Decls {
		gd, ok := d.(*ast.GenDecl)
		if !ok || gd.Tok != token.VAR {
			continue
		}
		for _, sp := range gd.Specs {
			vs := sp.(*ast.ValueSpec)
			for i, n := range vs.Names {
				if n.Name != "tokenNames" || i >= len(vs.Values) {
					continue
				}
				cl, ok := vs.Values[i].(*ast.CompositeLit)
				if !ok {
					return nil, nil, false
				}
				for _, e := range cl.Elts {
					kv := e.(*ast.KeyValueExpr)
					v, ok := unq(kv.Value)
					if !ok {
						return nil, nil, false
					}
					names[src(kv.Key)] = v
				}
			}
		}
	}
	res := []string{}
	for _, c := range order {
		v, ok := names[c]
		if !ok {
			return nil, nil, false
		}
		res = append(res, v)
	}
	return order, res, len(order) > 0
}

// =====================================================================================================================
// Semantic summaries.  A function of the repository is executed SYMBOLICALLY, path by path, and summarised as a table
//     condition && condition => effect; effect -> outcome
// in a canonical form that does not depend on spelling or statement layout:
//   * a local variable is replaced by its DEFINITION (the value it holds on that path), a parameter by $n;
//   * an imported name is written <last element of the import path>.<Name>, the import paths used are listed in
//     `import` rows (so the standard library's html and golang.org/x/net/html differ);
//   * calls of unexported functions of the same package are INLINED (helper extraction does not show), functions
//     used as values are summarised as tables of their own (F1, F2, … in order of first appearance in the canonical
//     rows), exported functions and the anchors (functions the verif hooks name) are kept as calls;
//   * string building is normalised: a + b, append(b, x...), fmt.Sprintf with only %s verbs, string(x) / []byte(x)
//     conversions and make([]byte, 0, n) all become concatenations of pieces (adjacent literals merged);
//   * a search for ONE ASCII byte is strings.IndexByte / LastIndexByte however it is spelled (Index / LastIndex with a
//     one-character string, IndexRune with an ASCII rune); a character literal and a one-character string are one value;
//   * indexing a package-level map[string]bool literal whose values are all true, used as a condition, is the set test
//     `k in {keys}` — the same multi-way test as a switch over k with `return true` cases;
//   * `for v := E; C; v = E { B }` is `for { v := E; if !C { break }; B }` (sanRotate): the scanner loop written with a
//     for clause or with an explicit end-of-input return gives the same loop table;
//   * bytes.Buffer / strings.Builder objects are <membuf> (an in-memory sink whose Write cannot fail), Grow is ignored;
//   * package-level variables are replaced by their initialiser (composite-literal tables by T1, §T2, …);
//   * EFFECTS are the method calls on objects (tokenizer, writers, buffers, replacers, policies), in execution order;
//     the result of one is #Method (##Method inside a loop, …); everything else is a pure expression;
//   * the conditions are decided by enumerating all paths and are then re-expanded into a decision tree over the atoms
//     in a fixed order (shorter atoms first), `x == K` tests on one subject being one multi-way test: if/else chains,
//     switches, early returns, flag variables and reordered cases give the same rows;
//   * a loop is a table of its own (L1, L2, …) over ONE iteration; the variables it carries from one iteration to the
//     next are @1, @2, … (ordered by their initial value), `@1 := v` is an effect, the outcome is next / exit / return.
// Anything outside the small statement subset understood here makes the whole summary ["unknown: …"].
// =====================================================================================================================

type sanV struct {
	k  string // lit sym q tab fn res carry post loopret field index slice un bin cat call pcall mcall tuple comp raw
	s  string
	p  string // import path (q, pcall)
	a  []*sanV
	lp *sanLoop
}

func sanLit(s string) *sanV { return &sanV{k: "lit", s: s} }
func sanSym(s string) *sanV { return &sanV{k: "sym", s: s} }

var sanMembuf = &sanV{k: "sym", s: "<membuf>"}

// sanPr renders values.  mode 0: final (λ / L / §T numbered in order of first rendering, short package names);
// mode 1: key (identity: real names, full paths, loop contents); mode 2: sort (λ? L? §T?: independent of spelling).
type sanPr struct {
	mode   int
	fnNum  map[string]int
	fns    []string
	lpNum  map[string]int
	lps    []*sanLoop
	tabNum map[string]int
	tabs   []string
	pkgs   map[string]string // short -> full
	objNum map[string]int
	objs   []string
}

func sanNewPr(mode int) *sanPr {
	return &sanPr{mode: mode, fnNum: map[string]int{}, lpNum: map[string]int{}, tabNum: map[string]int{}, pkgs: map[string]string{}, objNum: map[string]int{}}
}

var sanKeyPr = sanNewPr(1)
var sanSortPr = sanNewPr(2)

func sanKey(v *sanV) string { return sanKeyPr.r(v) }

func (p *sanPr) pkg(path string) string {
	if p.mode == 1 {
		return path
	}
	short := path
	if i := strings.LastIndexByte(path, '/'); i >= 0 {
		short = path[i+1:]
	}
	if p.mode == 2 {
		return short
	}
	if full, ok := p.pkgs[short]; ok && full != path {
		return path
	}
	p.pkgs[short] = path
	return short
}

func (p *sanPr) loopName(l *sanLoop) string {
	switch p.mode {
	case 1:
		return "L{" + l.key + "}"
	case 2:
		return "L?"
	}
	n, ok := p.lpNum[l.key]
	if !ok {
		n = len(p.lps) + 1
		p.lpNum[l.key] = n
		p.lps = append(p.lps, l)
	}
	return "L" + strconv.Itoa(n)
}

func (p *sanPr) list(a []*sanV) string {
	s := []string{}
	for _, x := range a {
		s = append(s, p.r(x))
	}
	return strings.Join(s, ", ")
}

func (p *sanPr) r(v *sanV) string {
	if v == nil {
		return ""
	}
	switch v.k {
	case "lit":
		return strconv.Quote(v.s)
	case "sym", "res", "carry":
		return v.s
	case "q":
		return p.pkg(v.p) + "." + v.s
	case "tab":
		switch p.mode {
		case 1:
			return "T{" + v.s + "}"
		case 2:
			return "T?"
		}
		n, ok := p.tabNum[v.s]
		if !ok {
			n = len(p.tabs) + 1
			p.tabNum[v.s] = n
			p.tabs = append(p.tabs, v.s)
		}
		return "T" + strconv.Itoa(n)
	case "fn":
		switch p.mode {
		case 1:
			return "F{" + v.s + "}"
		case 2:
			return "F?"
		}
		n, ok := p.fnNum[v.s]
		if !ok {
			n = len(p.fns) + 1
			p.fnNum[v.s] = n
			p.fns = append(p.fns, v.s)
		}
		return "F" + strconv.Itoa(n)
	case "post":
		return p.loopName(v.lp) + "." + v.s
	case "loopret":
		return "ret(" + p.loopName(v.lp) + ")"
	case "field":
		return p.r(v.a[0]) + "." + v.s
	case "comp":
		return p.r(v.a[0]) + "." + v.s
	case "index":
		return p.r(v.a[0]) + "[" + p.r(v.a[1]) + "]"
	case "slice":
		return p.r(v.a[0]) + "[" + p.r(v.a[1]) + ":" + p.r(v.a[2]) + "]"
	case "un":
		return v.s + p.r(v.a[0])
	case "bin":
		return "(" + p.r(v.a[0]) + " " + v.s + " " + p.r(v.a[1]) + ")"
	case "cat":
		if len(v.a) == 0 {
			return `""`
		}
		s := []string{}
		for _, x := range v.a {
			s = append(s, p.r(x))
		}
		return strings.Join(s, " ++ ")
	case "call":
		return p.r(v.a[0]) + "(" + p.list(v.a[1:]) + ")"
	case "pcall":
		if v.p == "" {
			return v.s + "(" + p.list(v.a) + ")"
		}
		return p.pkg(v.p) + "." + v.s + "(" + p.list(v.a) + ")"
	case "mcall":
		recv := p.r(v.a[0])
		if k := v.a[0].k; p.mode == 0 && (k == "pcall" || k == "mcall") { // an object made by a constructor: o1, o2, … (defined in `o1 = …` rows)
			n, ok := p.objNum[recv]
			if !ok {
				n = len(p.objs) + 1
				p.objNum[recv] = n
				p.objs = append(p.objs, recv)
			}
			recv = "o" + strconv.Itoa(n)
		}
		return recv + "." + v.s + "(" + p.list(v.a[1:]) + ")"
	case "tuple":
		return "(" + p.list(v.a) + ")"
	case "raw":
		return "?{" + v.s + "}"
	}
	return "?" + v.k
}

// sanCat: concatenation with flattening and merging of adjacent literals.
func sanCat(parts ...*sanV) *sanV {
	out := []*sanV{}
	var add func(x *sanV)
	add = func(x *sanV) {
		if x.k == "cat" {
			for _, y := range x.a {
				add(y)
			}
			return
		}
		if x.k == "lit" {
			if x.s == "" {
				return
			}
			if n := len(out); n > 0 && out[n-1].k == "lit" {
				out[n-1] = sanLit(out[n-1].s + x.s)
				return
			}
		}
		out = append(out, x)
	}
	for _, x := range parts {
		add(x)
	}
	if len(out) == 1 {
		return out[0]
	}
	if len(out) == 0 {
		return sanLit("")
	}
	return &sanV{k: "cat", a: out}
}

// ---- environment (block scoped) ----

type sanEnv struct{ scopes []map[string]*sanV }

func sanNewEnv() *sanEnv { return &sanEnv{scopes: []map[string]*sanV{{}}} }
func (e *sanEnv) push()  { e.scopes = append(e.scopes, map[string]*sanV{}) }
func (e *sanEnv) pop()   { e.scopes = e.scopes[:len(e.scopes)-1] }
func (e *sanEnv) get(n string) (*sanV, bool) {
	for i := len(e.scopes) - 1; i >= 0; i-- {
		if v, ok := e.scopes[i][n]; ok {
			return v, true
		}
	}
	return nil, false
}
func (e *sanEnv) has(n string) bool { _, ok := e.get(n); return ok }
func (e *sanEnv) def(n string, v *sanV) {
	e.scopes[len(e.scopes)-1][n] = v
}
func (e *sanEnv) set(n string, v *sanV) bool {
	for i := len(e.scopes) - 1; i >= 0; i-- {
		if _, ok := e.scopes[i][n]; ok {
			e.scopes[i][n] = v
			return true
		}
	}
	return false
}
func (e *sanEnv) clone() *sanEnv {
	c := &sanEnv{}
	for _, s := range e.scopes {
		m := map[string]*sanV{}
		for k, v := range s {
			m[k] = v
		}
		c.scopes = append(c.scopes, m)
	}
	return c
}

// ---- package context ----

type sanPkg struct {
	files   []*ast.File
	funcs   map[string]*ast.FuncDecl
	fileOf  map[*ast.FuncDecl]*ast.File
	vars    map[string]ast.Expr
	varFile map[string]*ast.File
	anchors map[string]bool // same-package functions summarised on their own: kept as calls <name>, never inlined
	elideRe bool            // regexp.MustCompile("…") is written regexp.MustCompile(<re>) (the expression is a parameter of the model)
	sums    map[string]*sanSum
	imps    map[*ast.File]map[string]string
	lastPr  *sanPr // printer of the last sanPrint (table / function numbering)
}

func sanLoadPkg(rel string, anchors ...string) *sanPkg {
	p := &sanPkg{funcs: map[string]*ast.FuncDecl{}, fileOf: map[*ast.FuncDecl]*ast.File{}, vars: map[string]ast.Expr{},
		varFile: map[string]*ast.File{}, anchors: map[string]bool{}, sums: map[string]*sanSum{}, imps: map[*ast.File]map[string]string{}}
	for _, a := range anchors {
		p.anchors[a] = true
	}
	ents, err := os.ReadDir(filepath.Join(repo, rel))
	if err != nil {
		return p
	}
	for _, e := range ents {
		n := e.Name()
		if e.IsDir() || !strings.HasSuffix(n, ".go") || strings.HasSuffix(n, "_test.go") {
			continue
		}
		f := parse(filepath.Join(rel, n))
		if f == nil {
			continue
		}
		p.files = append(p.files, f)
		im := map[string]string{}
		for _, is := range f.Imports {
			path, _ := unq(is.Path)
			name := path
			if i := strings.LastIndexByte(path, '/'); i >= 0 {
				name = path[i+1:]
			}
			if is.Name != nil {
				name = is.Name.Name
			}
			im[name] = path
		}
		p.imps[f] = im
		for _, d := range f.Decls {
			switch x := d.(type) {
			case *ast.FuncDecl:
				if x.Recv == nil && x.Body != nil {
					p.funcs[x.Name.Name] = x
					p.fileOf[x] = f
				}
			case *ast.GenDecl:
				if x.Tok != token.VAR && x.Tok != token.CONST {
					continue
				}
				for _, sp := range x.Specs {
					vs := sp.(*ast.ValueSpec)
					for i, id := range vs.Names {
						if i < len(vs.Values) && len(vs.Values) == len(vs.Names) {
							p.vars[id.Name] = vs.Values[i]
							p.varFile[id.Name] = f
						}
					}
				}
			}
		}
	}
	return p
}

// ---- one symbolic run ----

type sanCond struct {
	id   string // identity of the variable: subject key (multi-way) or atom key (boolean)
	sort string
	x, y *sanV
	op   string // "==" (y constant: multi-way test on subject x), "eq" (boolean x == y), "<", "atom"
	k    string // key of y for "=="
	val  bool
	rank int // index (in the path) of the last effect whose result the test reads; -1: none
}

type sanEv struct {
	k    string // call set loop
	v    *sanV
	name string
	lp   *sanLoop
}

type sanPath struct {
	conds []sanCond
	ev    []sanEv
	outK  string // return next exit end
	outV  *sanV
	key   string
}

type sanLoop struct {
	names  []string // carried variables in canonical order
	syms   []*sanV
	inits  []*sanV
	live   []bool
	tree   *sanNode
	paths  []*sanPath
	key    string
	canEx  bool
	hasRet bool
}

type sanFrame struct {
	env   *sanEnv
	named []string
	file  *ast.File
}

type sanRun struct {
	p     *sanPkg
	dec   []bool
	pos   int
	conds []sanCond
	ev    []sanEv
	depth int
	inl   []string
	fail  string
	cnt   map[string]int
	pure  bool
	root  *ast.BlockStmt // body of the function being summarised (a loop directly in it absorbs what follows it)
}

const (
	sanNormal = iota
	sanBreak
	sanContinue
	sanReturn
)

type sanSig struct {
	k int
	v *sanV
}

func (r *sanRun) failf(format string, a ...interface{}) *sanV {
	if r.fail == "" {
		r.fail = fmt.Sprintf(format, a...)
	}
	return sanSym("?")
}

func sanConstLike(v *sanV) bool {
	switch v.k {
	case "lit", "q":
		return true
	case "sym":
		return v.s == "nil" || v.s == "true" || v.s == "false" || (len(v.s) > 0 && v.s[0] >= '0' && v.s[0] <= '9')
	}
	return false
}

// decide: the value of a condition variable on this path (forks when not yet determined).
func (r *sanRun) decide(c sanCond) bool {
	for _, d := range r.conds {
		if d.id != c.id || d.op != c.op {
			continue
		}
		if c.op != "==" {
			return d.val
		}
		if d.k == c.k {
			return d.val
		}
		if d.val {
			return false // the subject equals another constant
		}
	}
	c.rank = -1
	for _, v := range []*sanV{c.x, c.y} {
		sanWalk(v, func(x *sanV) {
			if x.k == "res" {
				for i, e := range r.ev {
					if e.name == x.s && i > c.rank {
						c.rank = i
					}
				}
			}
		})
	}
	if r.pos < len(r.dec) {
		c.val = r.dec[r.pos]
	} else {
		c.val = true
		r.dec = append(r.dec, true)
	}
	r.pos++
	r.conds = append(r.conds, c)
	return c.val
}

// truth: the truth value of a (boolean) symbolic value on this path.
func (r *sanRun) truth(v *sanV) bool {
	switch v.k {
	case "sym":
		if v.s == "true" {
			return true
		}
		if v.s == "false" {
			return false
		}
	case "un":
		if v.s == "!" {
			return !r.truth(v.a[0])
		}
	case "bin":
		x, y := v.a[0], v.a[1]
		switch v.s {
		case "&&":
			return r.truth(x) && r.truth(y)
		case "||":
			return r.truth(x) || r.truth(y)
		case "==", "!=":
			neg := v.s == "!="
			if sanConstLike(x) && !sanConstLike(y) {
				x, y = y, x
			}
			kx, ky := sanKey(x), sanKey(y)
			if kx == ky {
				return !neg
			}
			if sanConstLike(x) && sanConstLike(y) {
				return neg
			}
			var res bool
			if sanConstLike(y) {
				res = r.decide(sanCond{id: kx, sort: sanSortPr.r(x), x: x, y: y, op: "==", k: ky})
			} else {
				if ky < kx {
					x, y, kx, ky = y, x, ky, kx
				}
				res = r.decide(sanCond{id: kx + " == " + ky, sort: sanSortPr.r(x) + " == " + sanSortPr.r(y), x: x, y: y, op: "eq"})
			}
			return res != neg
		case "<", ">", "<=", ">=":
			neg := v.s == ">=" || v.s == "<="
			if v.s == ">" || v.s == "<=" {
				x, y = y, x
			}
			srt := sanSortPr.r(x)
			if sanConstLike(x) {
				srt = sanSortPr.r(y)
			}
			res := r.decide(sanCond{id: sanKey(x) + " < " + sanKey(y), sort: srt, x: x, y: y, op: "<"})
			return res != neg
		}
	}
	if v.k == "index" && v.a[0].k == "tab" {
		// T[k] for a map[string]bool literal whose values are all true is the set test `k in {keys}`: the same multi-way
		// test as `switch k { case "a", "b": return true }; return false`
		if keys, ok := r.p.sanTrueSet(v.a[0].s); ok {
			x := v.a[1]
			kx, srt := sanKey(x), sanSortPr.r(x)
			for _, k := range keys {
				y := sanLit(k)
				if r.decide(sanCond{id: kx, sort: srt, x: x, y: y, op: "==", k: sanKey(y)}) {
					return true
				}
			}
			return false
		}
	}
	return r.decide(sanCond{id: sanKey(v), sort: sanSortPr.r(v), x: v, op: "atom"})
}

// sanTrueSet: package-level `name` is a map[string]bool composite literal with string-literal keys that are all mapped
// to true (a set; an absent key reads as false): its keys, sorted.
func (p *sanPkg) sanTrueSet(name string) ([]string, bool) {
	cl, ok := p.vars[name].(*ast.CompositeLit)
	if !ok {
		return nil, false
	}
	mt, ok := cl.Type.(*ast.MapType)
	if !ok || src(mt.Key) != "string" || src(mt.Value) != "bool" {
		return nil, false
	}
	keys := []string{}
	seen := map[string]bool{}
	for _, e := range cl.Elts {
		kv, ok := e.(*ast.KeyValueExpr)
		if !ok {
			return nil, false
		}
		k, ok := unq(kv.Key)
		if v, isID := kv.Value.(*ast.Ident); !ok || !isID || v.Name != "true" || seen[k] {
			return nil, false
		}
		seen[k] = true
		keys = append(keys, k)
	}
	sort.Strings(keys)
	return keys, len(keys) > 0
}

func (r *sanRun) cond(e ast.Expr, f *sanFrame) bool {
	switch x := e.(type) {
	case *ast.ParenExpr:
		return r.cond(x.X, f)
	case *ast.UnaryExpr:
		if x.Op == token.NOT {
			return !r.cond(x.X, f)
		}
	case *ast.BinaryExpr:
		if x.Op == token.LAND {
			return r.cond(x.X, f) && r.cond(x.Y, f)
		}
		if x.Op == token.LOR {
			return r.cond(x.X, f) || r.cond(x.Y, f)
		}
	}
	return r.truth(r.eval(e, f))
}

func (r *sanRun) imp(name string, f *sanFrame) (string, bool) {
	if f.env.has(name) {
		return "", false
	}
	path, ok := r.p.imps[f.file][name]
	return path, ok
}

func sanIsType(e ast.Expr, f *sanFrame, r *sanRun, names ...string) bool {
	if s, ok := e.(*ast.StarExpr); ok {
		e = s.X
	}
	se, ok := e.(*ast.SelectorExpr)
	if !ok {
		return false
	}
	id, ok := se.X.(*ast.Ident)
	if !ok {
		return false
	}
	path, ok := r.imp(id.Name, f)
	if !ok {
		return false
	}
	for _, n := range names {
		if path+"."+se.Sel.Name == n {
			return true
		}
	}
	return false
}

func sanIsMembufType(e ast.Expr, f *sanFrame, r *sanRun) bool {
	return sanIsType(e, f, r, "bytes.Buffer", "strings.Builder")
}

func (r *sanRun) ident(name string, f *sanFrame) *sanV {
	if v, ok := f.env.get(name); ok {
		return v
	}
	switch name {
	case "nil", "true", "false":
		return sanSym(name)
	}
	if _, ok := r.p.funcs[name]; ok {
		return &sanV{k: "fn", s: name}
	}
	if init, ok := r.p.vars[name]; ok {
		if cl, ok := init.(*ast.CompositeLit); ok {
			if _, isMap := cl.Type.(*ast.MapType); isMap {
				return &sanV{k: "tab", s: name}
			}
		}
		sub := &sanRun{p: r.p, pure: true, cnt: map[string]int{}, inl: append(append([]string{}, r.inl...), "var "+name)}
		if len(sub.inl) > 6 {
			return r.failf("initialiser cycle at %s", name)
		}
		v := sub.eval(init, &sanFrame{env: sanNewEnv(), file: r.p.varFile[name]})
		if sub.fail != "" {
			return r.failf("%s", sub.fail)
		}
		return v
	}
	return r.failf("unresolved identifier %s", name)
}

func (r *sanRun) evals(es []ast.Expr, f *sanFrame) []*sanV {
	res := []*sanV{}
	for _, e := range es {
		res = append(res, r.eval(e, f))
	}
	return res
}

func (r *sanRun) eval(e ast.Expr, f *sanFrame) *sanV {
	switch x := e.(type) {
	case *ast.BasicLit:
		switch x.Kind {
		case token.STRING:
			s, _ := strconv.Unquote(x.Value)
			return sanLit(s)
		case token.CHAR:
			s, err := strconv.Unquote(x.Value)
			if err != nil {
				return r.failf("char literal %s", x.Value)
			}
			return sanLit(s)
		}
		return sanSym(x.Value)
	case *ast.Ident:
		return r.ident(x.Name, f)
	case *ast.ParenExpr:
		return r.eval(x.X, f)
	case *ast.StarExpr:
		return r.eval(x.X, f)
	case *ast.SelectorExpr:
		if id, ok := x.X.(*ast.Ident); ok {
			if path, ok := r.imp(id.Name, f); ok {
				return &sanV{k: "q", p: path, s: x.Sel.Name}
			}
		}
		return &sanV{k: "field", s: x.Sel.Name, a: []*sanV{r.eval(x.X, f)}}
	case *ast.CallExpr:
		return r.call(x, f)
	case *ast.BinaryExpr:
		a, b := r.eval(x.X, f), r.eval(x.Y, f)
		if x.Op == token.ADD {
			return sanCat(a, b)
		}
		return &sanV{k: "bin", s: x.Op.String(), a: []*sanV{a, b}}
	case *ast.UnaryExpr:
		if x.Op == token.AND {
			if cl, ok := x.X.(*ast.CompositeLit); ok && len(cl.Elts) == 0 && sanIsMembufType(cl.Type, f, r) {
				return sanMembuf
			}
			if _, ok := x.X.(*ast.Ident); ok {
				return r.eval(x.X, f) // a pointer to an object stands for the object
			}
		}
		if x.Op == token.NOT || x.Op == token.SUB {
			return &sanV{k: "un", s: x.Op.String(), a: []*sanV{r.eval(x.X, f)}}
		}
	case *ast.IndexExpr:
		return &sanV{k: "index", a: []*sanV{r.eval(x.X, f), r.eval(x.Index, f)}}
	case *ast.SliceExpr:
		if x.Slice3 {
			break
		}
		if x.Low == nil && x.High != nil {
			if l, ok := x.High.(*ast.BasicLit); ok && l.Value == "0" {
				return sanLit("") // b[:0]
			}
		}
		lo, hi := sanSym(""), sanSym("")
		if x.Low != nil {
			lo = r.eval(x.Low, f)
		}
		if x.High != nil {
			hi = r.eval(x.High, f)
		}
		return &sanV{k: "slice", a: []*sanV{r.eval(x.X, f), lo, hi}}
	case *ast.CompositeLit:
		if len(x.Elts) == 0 && sanIsMembufType(x.Type, f, r) {
			return sanMembuf
		}
	}
	return r.failf("expression not understood: %s", strings.Join(strings.Fields(src(e)), " "))
}

func (r *sanRun) fresh(m string) string {
	base := strings.Repeat("#", r.depth+1) + m
	r.cnt[base]++
	if n := r.cnt[base]; n > 1 {
		return base + "'" + strconv.Itoa(n)
	}
	return base
}

func (r *sanRun) event(v *sanV, m string) *sanV {
	name := r.fresh(m)
	r.ev = append(r.ev, sanEv{k: "call", v: v, name: name})
	return &sanV{k: "res", s: name}
}

func (r *sanRun) call(ce *ast.CallExpr, f *sanFrame) *sanV {
	switch fun := ce.Fun.(type) {
	case *ast.ParenExpr:
		return r.call(&ast.CallExpr{Fun: fun.X, Args: ce.Args, Ellipsis: ce.Ellipsis}, f)
	case *ast.ArrayType:
		if len(ce.Args) == 1 { // []byte(x)
			return r.eval(ce.Args[0], f)
		}
	case *ast.Ident:
		if fv, ok := f.env.get(fun.Name); ok { // a function held in a local variable
			args := append([]*sanV{fv}, r.evals(ce.Args, f)...)
			v := &sanV{k: "call", a: args}
			if r.pure {
				return v
			}
			return r.event(v, "call")
		}
		switch fun.Name {
		case "string":
			if len(ce.Args) == 1 {
				return r.eval(ce.Args[0], f)
			}
		case "append":
			if len(ce.Args) == 0 {
				break
			}
			parts := r.evals(ce.Args, f)
			return sanCat(parts...)
		case "make":
			if len(ce.Args) >= 2 {
				if l, ok := ce.Args[1].(*ast.BasicLit); ok && l.Value == "0" {
					return sanLit("")
				}
			}
		case "new":
			if len(ce.Args) == 1 && sanIsMembufType(ce.Args[0], f, r) {
				return sanMembuf
			}
		case "len", "cap", "min", "max":
			return &sanV{k: "pcall", s: fun.Name, a: r.evals(ce.Args, f)}
		}
		if fd, ok := r.p.funcs[fun.Name]; ok {
			if ce.Ellipsis != token.NoPos {
				break
			}
			args := r.evals(ce.Args, f)
			if r.p.anchors[fun.Name] {
				return &sanV{k: "pcall", s: "<" + fun.Name + ">", a: args}
			}
			if ast.IsExported(fun.Name) {
				return &sanV{k: "pcall", s: fun.Name, a: args}
			}
			return r.inline(fd, args)
		}
	case *ast.SelectorExpr:
		if id, ok := fun.X.(*ast.Ident); ok {
			if path, ok := r.imp(id.Name, f); ok {
				if ce.Ellipsis != token.NoPos {
					break
				}
				args := r.evals(ce.Args, f)
				full := path + "." + fun.Sel.Name
				if name := sanByteSearch(path, fun.Sel.Name, args); name != "" {
					return &sanV{k: "pcall", p: path, s: name, a: args}
				}
				if full == "fmt.Sprintf" && len(args) > 0 && args[0].k == "lit" {
					if v := sanSprintf(args[0].s, args[1:]); v != nil {
						return v
					}
				}
				if full == "regexp.MustCompile" && r.p.elideRe && len(args) == 1 && args[0].k == "lit" {
					args = []*sanV{sanSym("<re>")}
				}
				if (full == "bytes.NewBuffer" || full == "bytes.NewBufferString") && len(args) == 1 && (sanKey(args[0]) == "nil" || sanKey(args[0]) == `""`) {
					return sanMembuf
				}
				return &sanV{k: "pcall", p: path, s: fun.Sel.Name, a: args}
			}
		}
		if ce.Ellipsis != token.NoPos {
			break
		}
		recv := r.eval(fun.X, f)
		v := &sanV{k: "mcall", s: fun.Sel.Name, a: append([]*sanV{recv}, r.evals(ce.Args, f)...)}
		if _, isField := fun.X.(*ast.SelectorExpr); isField || r.pure {
			return v // an accessor of a field value (t.Type.String()), or an initialiser
		}
		if recv == sanMembuf && fun.Sel.Name == "Grow" {
			return sanSym("_")
		}
		return r.event(v, fun.Sel.Name)
	}
	return r.failf("call not understood: %s", strings.Join(strings.Fields(src(ce)), " "))
}

// sanByteSearch: searching a string for ONE ASCII byte is the same search however it is spelled — strings.Index(s, "c"),
// strings.IndexRune(s, 'c') and strings.IndexByte(s, 'c') (character and string literals are the same value here), and
// likewise strings.LastIndex / LastIndexByte; the canonical name is the …Byte one.  "" when the call is not of that kind.
func sanByteSearch(path, name string, args []*sanV) string {
	if (path != "strings" && path != "bytes") || len(args) != 2 || args[1].k != "lit" || len(args[1].s) != 1 || args[1].s[0] >= 0x80 {
		return ""
	}
	switch name {
	case "Index", "IndexRune", "IndexByte":
		return "IndexByte"
	case "LastIndex", "LastIndexByte":
		return "LastIndexByte"
	}
	return ""
}

// sanSprintf: fmt.Sprintf with %s verbs only is a concatenation.
func sanSprintf(format string, args []*sanV) *sanV {
	parts := []*sanV{}
	for {
		i := strings.IndexByte(format, '%')
		if i < 0 {
			break
		}
		if i+1 >= len(format) {
			return nil
		}
		parts = append(parts, sanLit(format[:i]))
		switch format[i+1] {
		case '%':
			parts = append(parts, sanLit("%"))
		case 's':
			if len(args) == 0 {
				return nil
			}
			parts = append(parts, args[0])
			args = args[1:]
		default:
			return nil
		}
		format = format[i+2:]
	}
	if len(args) != 0 {
		return nil
	}
	parts = append(parts, sanLit(format))
	return sanCat(parts...)
}

// ---- statements ----

func sanZero(t ast.Expr, f *sanFrame, r *sanRun) *sanV {
	if sanIsMembufType(t, f, r) {
		return sanMembuf
	}
	if id, ok := t.(*ast.Ident); ok {
		switch id.Name {
		case "string":
			return sanLit("")
		case "bool":
			return sanSym("false")
		case "error":
			return sanSym("nil")
		case "int", "int64", "int32", "uint", "byte", "rune":
			return sanSym("0")
		}
	}
	switch t.(type) {
	case *ast.StarExpr, *ast.InterfaceType, *ast.FuncType, *ast.MapType, *ast.ChanType:
		return sanSym("nil")
	case *ast.ArrayType:
		return sanLit("")
	}
	return sanSym("zero")
}

func (r *sanRun) newFrame(fd *ast.FuncDecl, args []*sanV) *sanFrame {
	nf := &sanFrame{env: sanNewEnv(), file: r.p.fileOf[fd]}
	i := 0
	for _, fl := range fd.Type.Params.List {
		if _, variadic := fl.Type.(*ast.Ellipsis); variadic || len(fl.Names) == 0 {
			r.failf("parameters of %s", fd.Name.Name)
			return nf
		}
		for _, n := range fl.Names {
			if i >= len(args) {
				r.failf("arity of %s", fd.Name.Name)
				return nf
			}
			nf.env.def(n.Name, args[i])
			i++
		}
	}
	if i != len(args) {
		r.failf("arity of %s", fd.Name.Name)
	}
	if fd.Type.Results != nil {
		for _, fl := range fd.Type.Results.List {
			for _, n := range fl.Names {
				nf.env.def(n.Name, sanZero(fl.Type, nf, r))
				nf.named = append(nf.named, n.Name)
			}
		}
	}
	return nf
}

func (r *sanRun) inline(fd *ast.FuncDecl, args []*sanV) *sanV {
	for _, n := range r.inl {
		if n == fd.Name.Name {
			return r.failf("recursive helper %s", n)
		}
	}
	if len(r.inl) >= 4 {
		return r.failf("helpers nested too deeply at %s", fd.Name.Name)
	}
	if len(args) == 1 && args[0].k == "tuple" {
		args = args[0].a
	}
	nf := r.newFrame(fd, args)
	r.inl = append(r.inl, fd.Name.Name)
	sig := r.block(fd.Body.List, nf)
	r.inl = r.inl[:len(r.inl)-1]
	if sig.k == sanReturn && sig.v != nil {
		return sig.v
	}
	return sanSym("_")
}

func (r *sanRun) block(list []ast.Stmt, f *sanFrame) sanSig {
	f.env.push()
	defer f.env.pop()
	for i, s := range list {
		if fs, ok := s.(*ast.ForStmt); ok && r.root != nil && r.depth == 0 && len(r.inl) == 1 && len(list) == len(r.root.List) && &list[0] == &r.root.List[0] {
			// a loop in the body of the summarised function itself: leaving it (break / condition) continues with the
			// statements after it, so `break` + `return x` after the loop and `return x` inside it give the same rows
			return r.loop(fs, f, list[i+1:])
		}
		if sig := r.stmt(s, f); sig.k != sanNormal {
			return sig
		}
		if r.fail != "" {
			return sanSig{k: sanReturn, v: sanSym("?")}
		}
	}
	return sanSig{}
}

func (r *sanRun) assign(lhs []ast.Expr, vals []*sanV, define bool, f *sanFrame) {
	if len(lhs) > 1 && len(vals) == 1 {
		v := vals[0]
		vals = nil
		for i := range lhs {
			if v.k == "tuple" && i < len(v.a) {
				vals = append(vals, v.a[i])
			} else {
				vals = append(vals, &sanV{k: "comp", s: strconv.Itoa(i), a: []*sanV{v}})
			}
		}
	}
	if len(lhs) != len(vals) {
		r.failf("assignment arity")
		return
	}
	for i, l := range lhs {
		id, ok := l.(*ast.Ident)
		if !ok {
			r.failf("assignment to %s", src(l))
			return
		}
		if id.Name == "_" {
			continue
		}
		if define {
			if _, here := f.env.scopes[len(f.env.scopes)-1][id.Name]; here {
				f.env.set(id.Name, vals[i])
			} else {
				f.env.def(id.Name, vals[i])
			}
		} else if !f.env.set(id.Name, vals[i]) {
			r.failf("assignment to non-local %s", id.Name)
		}
	}
}

func (r *sanRun) stmt(s ast.Stmt, f *sanFrame) sanSig {
	switch x := s.(type) {
	case *ast.EmptyStmt:
		return sanSig{}
	case *ast.ExprStmt:
		if _, ok := x.X.(*ast.CallExpr); ok {
			r.eval(x.X, f)
			return sanSig{}
		}
	case *ast.BlockStmt:
		return r.block(x.List, f)
	case *ast.DeclStmt:
		gd, ok := x.Decl.(*ast.GenDecl)
		if !ok || gd.Tok != token.VAR {
			break
		}
		for _, sp := range gd.Specs {
			vs := sp.(*ast.ValueSpec)
			for i, n := range vs.Names {
				switch {
				case len(vs.Values) == len(vs.Names):
					f.env.def(n.Name, r.eval(vs.Values[i], f))
				case len(vs.Values) == 0 && vs.Type != nil:
					f.env.def(n.Name, sanZero(vs.Type, f, r))
				default:
					r.failf("declaration %s", n.Name)
				}
			}
		}
		return sanSig{}
	case *ast.AssignStmt:
		switch x.Tok {
		case token.DEFINE, token.ASSIGN:
			var vals []*sanV
			if len(x.Rhs) == 1 && len(x.Lhs) == 2 {
				if ix, ok := x.Rhs[0].(*ast.IndexExpr); ok { // v, ok := m[k]
					m, k := r.eval(ix.X, f), r.eval(ix.Index, f)
					vals = []*sanV{{k: "index", a: []*sanV{m, k}}, {k: "pcall", s: "has", a: []*sanV{m, k}}}
				}
			}
			if vals == nil {
				vals = r.evals(x.Rhs, f)
			}
			r.assign(x.Lhs, vals, x.Tok == token.DEFINE, f)
			return sanSig{}
		case token.ADD_ASSIGN:
			if len(x.Lhs) == 1 && len(x.Rhs) == 1 {
				r.assign(x.Lhs, []*sanV{sanCat(r.eval(x.Lhs[0], f), r.eval(x.Rhs[0], f))}, false, f)
				return sanSig{}
			}
		}
	case *ast.ReturnStmt:
		var v *sanV
		switch {
		case len(x.Results) == 1:
			v = r.eval(x.Results[0], f)
		case len(x.Results) > 1:
			v = &sanV{k: "tuple", a: r.evals(x.Results, f)}
		case len(f.named) == 1:
			v, _ = f.env.get(f.named[0])
		case len(f.named) > 1:
			v = &sanV{k: "tuple"}
			for _, n := range f.named {
				nv, _ := f.env.get(n)
				v.a = append(v.a, nv)
			}
		}
		return sanSig{k: sanReturn, v: v}
	case *ast.BranchStmt:
		if x.Label == nil && x.Tok == token.BREAK {
			return sanSig{k: sanBreak}
		}
		if x.Label == nil && x.Tok == token.CONTINUE {
			return sanSig{k: sanContinue}
		}
	case *ast.IfStmt:
		f.env.push()
		defer f.env.pop()
		if x.Init != nil {
			if sig := r.stmt(x.Init, f); sig.k != sanNormal {
				return sig
			}
		}
		if r.cond(x.Cond, f) {
			return r.block(x.Body.List, f)
		}
		if x.Else != nil {
			return r.stmt(x.Else, f)
		}
		return sanSig{}
	case *ast.SwitchStmt:
		f.env.push()
		defer f.env.pop()
		if x.Init != nil {
			if sig := r.stmt(x.Init, f); sig.k != sanNormal {
				return sig
			}
		}
		var tag *sanV
		if x.Tag != nil {
			tag = r.eval(x.Tag, f)
		}
		var chosen, def *ast.CaseClause
		for _, cs := range x.Body.List {
			cc := cs.(*ast.CaseClause)
			if cc.List == nil {
				def = cc
				continue
			}
			for _, e := range cc.List {
				var hit bool
				if tag != nil {
					hit = r.truth(&sanV{k: "bin", s: "==", a: []*sanV{tag, r.eval(e, f)}})
				} else {
					hit = r.cond(e, f)
				}
				if hit {
					chosen = cc
					break
				}
			}
			if chosen != nil {
				break
			}
		}
		if chosen == nil {
			chosen = def
		}
		if chosen == nil {
			return sanSig{}
		}
		for _, b := range chosen.Body {
			if bs, ok := b.(*ast.BranchStmt); ok && bs.Tok == token.FALLTHROUGH {
				r.failf("fallthrough")
			}
		}
		sig := r.block(chosen.Body, f)
		if sig.k == sanBreak {
			return sanSig{}
		}
		return sig
	case *ast.ForStmt:
		return r.loop(x, f, nil)
	}
	r.failf("statement not understood: %s", strings.Join(strings.Fields(src(s)), " "))
	return sanSig{k: sanReturn, v: sanSym("?")}
}

// sanAssigned: names assigned (not defined) inside n.
func sanAssigned(n ast.Node) []string {
	set := map[string]bool{}
	ast.Inspect(n, func(x ast.Node) bool {
		switch s := x.(type) {
		case *ast.AssignStmt:
			if s.Tok != token.DEFINE {
				for _, l := range s.Lhs {
					if id, ok := l.(*ast.Ident); ok {
						set[id.Name] = true
					}
				}
			}
		case *ast.IncDecStmt:
			if id, ok := s.X.(*ast.Ident); ok {
				set[id.Name] = true
			}
		}
		return true
	})
	res := []string{}
	for k := range set {
		res = append(res, k)
	}
	sort.Strings(res)
	return res
}

// sanEnum: all paths of `body` (re-executed once per decision string).
func sanEnum(mk func(dec []bool) *sanRun, body func(r *sanRun) (string, *sanV)) ([]*sanPath, string) {
	paths := []*sanPath{}
	dec := []bool{}
	for {
		r := mk(dec)
		outK, outV := body(r)
		if r.fail != "" {
			return nil, r.fail
		}
		paths = append(paths, &sanPath{conds: r.conds, ev: r.ev, outK: outK, outV: outV})
		if len(paths) > 5000 {
			return nil, "too many paths"
		}
		d := r.dec
		i := len(d) - 1
		for i >= 0 && !d[i] {
			i--
		}
		if i < 0 {
			break
		}
		dec = append(append([]bool{}, d[:i]...), false)
	}
	return paths, ""
}

// sanRotate: `for v := E; C; v = E { B }` (the same E before the loop and after every iteration) is
// `for { v := E; if !C { break }; B }` — a `continue` in B re-evaluates E and then C in both.  nil when x is not of that form.
func sanRotate(x *ast.ForStmt) *ast.ForStmt {
	in, ok1 := x.Init.(*ast.AssignStmt)
	po, ok2 := x.Post.(*ast.AssignStmt)
	if !ok1 || !ok2 || x.Cond == nil || len(in.Lhs) != 1 || len(in.Rhs) != 1 || len(po.Lhs) != 1 || len(po.Rhs) != 1 {
		return nil
	}
	if (in.Tok != token.DEFINE && in.Tok != token.ASSIGN) || po.Tok != token.ASSIGN {
		return nil
	}
	a, okA := in.Lhs[0].(*ast.Ident)
	b, okB := po.Lhs[0].(*ast.Ident)
	if !okA || !okB || a.Name != b.Name || a.Name == "_" || src(in.Rhs[0]) != src(po.Rhs[0]) {
		return nil
	}
	mentions := false
	ast.Inspect(in.Rhs[0], func(n ast.Node) bool {
		if id, ok := n.(*ast.Ident); ok && id.Name == a.Name {
			mentions = true
		}
		return true
	})
	if mentions {
		return nil
	}
	leave := &ast.IfStmt{Cond: &ast.UnaryExpr{Op: token.NOT, X: &ast.ParenExpr{X: x.Cond}},
		Body: &ast.BlockStmt{List: []ast.Stmt{&ast.BranchStmt{Tok: token.BREAK}}}}
	body := append([]ast.Stmt{in, leave}, x.Body.List...)
	return &ast.ForStmt{For: x.For, Body: &ast.BlockStmt{Lbrace: x.Body.Lbrace, List: body, Rbrace: x.Body.Rbrace}}
}

func (r *sanRun) loop(x *ast.ForStmt, f *sanFrame, rest []ast.Stmt) sanSig {
	if rot := sanRotate(x); rot != nil {
		x = rot
	}
	f.env.push()
	defer f.env.pop()
	if x.Init != nil {
		if sig := r.stmt(x.Init, f); sig.k != sanNormal {
			return sig
		}
	}
	lp := &sanLoop{}
	type cv struct {
		name string
		init *sanV
	}
	cands := []cv{}
	for _, n := range sanAssigned(x) {
		if v, ok := f.env.get(n); ok {
			cands = append(cands, cv{n, v})
		}
	}
	sort.SliceStable(cands, func(i, j int) bool {
		a, b := sanSortPr.r(cands[i].init), sanSortPr.r(cands[j].init)
		if a != b {
			return a < b
		}
		return sanKey(cands[i].init) < sanKey(cands[j].init)
	})
	for i, c := range cands {
		lp.names = append(lp.names, c.name)
		lp.inits = append(lp.inits, c.init)
		lp.syms = append(lp.syms, &sanV{k: "carry", s: strings.Repeat("@", r.depth+1) + strconv.Itoa(i+1)})
	}
	mk := func(dec []bool) *sanRun {
		return &sanRun{p: r.p, dec: dec, depth: r.depth + 1, inl: append([]string{}, r.inl...), cnt: map[string]int{}}
	}
	paths, fail := sanEnum(mk, func(sr *sanRun) (string, *sanV) {
		sf := &sanFrame{env: f.env.clone(), named: f.named, file: f.file}
		for i, n := range lp.names {
			sf.env.set(n, lp.syms[i])
		}
		outK, outV := "next", (*sanV)(nil)
		if x.Cond != nil && !sr.cond(x.Cond, sf) {
			outK = "exit"
		} else {
			sig := sr.block(x.Body.List, sf)
			switch sig.k {
			case sanBreak:
				outK = "exit"
			case sanReturn:
				outK, outV = "return", sig.v
			default:
				if x.Post != nil {
					sr.stmt(x.Post, sf)
				}
			}
		}
		if outK == "exit" && rest != nil {
			outK, outV = "return", nil
			if sig := sr.block(rest, sf); sig.k == sanReturn {
				outV = sig.v
			}
			return outK, outV
		}
		if outK == "return" {
			return outK, outV // what the carried variables hold is dead once the function returns
		}
		for i, n := range lp.names {
			if v, _ := sf.env.get(n); v != nil && sanKey(v) != sanKey(lp.syms[i]) {
				sr.ev = append(sr.ev, sanEv{k: "set", name: lp.syms[i].s, v: v})
			}
		}
		return outK, outV
	})
	if fail != "" {
		r.failf("%s", fail)
		return sanSig{k: sanReturn, v: sanSym("?")}
	}
	for _, p := range paths {
		if p.outK == "exit" {
			lp.canEx = true
		}
		if p.outK == "return" {
			lp.hasRet = true
		}
	}
	// liveness of the carried variables: one that no path ever reads is dropped when the loop cannot be left normally
	for i := range lp.names {
		used := false
		sanWalkPaths(paths, func(v *sanV) {
			if v.k == "carry" && v.s == lp.syms[i].s {
				used = true
			}
		}, map[*sanLoop]bool{})
		lp.live = append(lp.live, used || lp.canEx)
	}
	for _, p := range paths {
		ev := []sanEv{}
		for _, e := range p.ev {
			keep := true
			if e.k == "set" {
				for i := range lp.names {
					if lp.syms[i].s == e.name && !lp.live[i] {
						keep = false
					}
				}
			}
			if keep {
				ev = append(ev, e)
			}
		}
		p.ev = ev
	}
	lp.paths = paths
	lp.tree = sanBuildTree(paths)
	lp.key = strings.Join(sanRows(lp.tree, sanKeyPr), "\n")
	r.ev = append(r.ev, sanEv{k: "loop", lp: lp})
	for i, n := range lp.names {
		f.env.set(n, &sanV{k: "post", s: lp.syms[i].s, lp: lp})
	}
	ret := &sanV{k: "loopret", lp: lp}
	if !lp.canEx {
		return sanSig{k: sanReturn, v: ret}
	}
	if lp.hasRet && r.truth(&sanV{k: "pcall", s: "returned", a: []*sanV{ret}}) {
		return sanSig{k: sanReturn, v: ret}
	}
	return sanSig{}
}

func sanWalk(v *sanV, visit func(v *sanV)) {
	if v == nil {
		return
	}
	visit(v)
	for _, x := range v.a {
		sanWalk(x, visit)
	}
}

// sanWalkPaths: every value of the paths (conditions, effects, outcomes), loop tables included.
func sanWalkPaths(paths []*sanPath, visit func(v *sanV), seen map[*sanLoop]bool) {
	var walk func(v *sanV)
	walk = func(v *sanV) {
		if v == nil {
			return
		}
		visit(v)
		for _, x := range v.a {
			walk(x)
		}
		if v.lp != nil && !seen[v.lp] {
			seen[v.lp] = true
			sanWalkPaths(v.lp.paths, visit, seen)
		}
	}
	for _, p := range paths {
		for _, c := range p.conds {
			walk(c.x)
			walk(c.y)
		}
		for _, e := range p.ev {
			walk(e.v)
			if e.lp != nil {
				for _, in := range e.lp.inits {
					walk(in)
				}
				if !seen[e.lp] {
					seen[e.lp] = true
					sanWalkPaths(e.lp.paths, visit, seen)
				}
			}
		}
		walk(p.outV)
	}
}

// ---- canonical decision tree ----

type sanGroup struct {
	ks    []*sanV
	child *sanNode
}

type sanNode struct {
	leaf   *sanPath
	c      sanCond // the variable tested
	t, f   *sanNode
	groups []sanGroup
	other  *sanNode
	key    string
}

func sanEvKey(e sanEv, pr *sanPr) string {
	switch e.k {
	case "set":
		return e.name + " := " + pr.r(e.v)
	case "loop":
		s := []string{}
		for i := range e.lp.names {
			if e.lp.live[i] {
				s = append(s, e.lp.syms[i].s+" = "+pr.r(e.lp.inits[i]))
			}
		}
		return "loop " + pr.loopName(e.lp) + "(" + strings.Join(s, "; ") + ")"
	}
	return pr.r(e.v)
}

func sanLeafKey(p *sanPath, pr *sanPr) string {
	s := []string{}
	for _, e := range p.ev {
		s = append(s, sanEvKey(e, pr))
	}
	evs := "-"
	if len(s) > 0 {
		evs = strings.Join(s, "; ")
	}
	out := p.outK
	if p.outV != nil {
		out += " " + pr.r(p.outV)
	}
	return evs + " -> " + out
}

type sanAssign map[string]string // variable id -> "T" / "F" (boolean) or key of the constant / "\x00other" (multi-way)

func sanCompatible(p *sanPath, as sanAssign) bool {
	for _, c := range p.conds {
		a, ok := as[c.op+"\x01"+c.id]
		if !ok {
			continue
		}
		if c.op == "==" {
			if (a == c.k) != c.val {
				return false
			}
		} else if (a == "T") != c.val {
			return false
		}
	}
	return true
}

func sanBuildTree(paths []*sanPath) *sanNode {
	for _, p := range paths {
		p.key = sanLeafKey(p, sanKeyPr)
	}
	// the variables, in canonical order: shorter first (a test that depends on another one contains it)
	vars := []sanCond{}
	seen := map[string]int{}
	for _, p := range paths {
		for _, c := range p.conds {
			id := c.op + "\x01" + c.id
			if i, ok := seen[id]; !ok {
				seen[id] = len(vars)
				vars = append(vars, c)
			} else if c.rank < vars[i].rank {
				vars[i].rank = c.rank
			}
		}
	}
	sort.SliceStable(vars, func(i, j int) bool {
		a, b := vars[i], vars[j]
		if a.rank != b.rank {
			return a.rank < b.rank
		}
		if len(a.sort) != len(b.sort) {
			return len(a.sort) < len(b.sort)
		}
		if a.sort != b.sort {
			return a.sort < b.sort
		}
		return a.id < b.id
	})
	var build func(as sanAssign, vars []sanCond, paths []*sanPath) *sanNode
	with := func(as sanAssign, id, v string) sanAssign {
		n := sanAssign{}
		for k, x := range as {
			n[k] = x
		}
		n[id] = v
		return n
	}
	filter := func(paths []*sanPath, as sanAssign) []*sanPath {
		res := []*sanPath{}
		for _, p := range paths {
			if sanCompatible(p, as) {
				res = append(res, p)
			}
		}
		return res
	}
	build = func(as sanAssign, vars []sanCond, paths []*sanPath) *sanNode {
		if len(paths) == 0 {
			return &sanNode{key: "unreachable"}
		}
		same := true
		for _, p := range paths {
			if p.key != paths[0].key {
				same = false
			}
		}
		if same || len(vars) == 0 {
			return &sanNode{leaf: paths[0], key: paths[0].key}
		}
		v := vars[0]
		id := v.op + "\x01" + v.id
		if v.op != "==" {
			t := build(with(as, id, "T"), vars[1:], filter(paths, with(as, id, "T")))
			f := build(with(as, id, "F"), vars[1:], filter(paths, with(as, id, "F")))
			if t.key == f.key {
				return t
			}
			return &sanNode{c: v, t: t, f: f, key: "(" + v.id + " ? " + t.key + " : " + f.key + ")"}
		}
		ks := map[string]*sanV{}
		for _, p := range paths {
			for _, c := range p.conds {
				if c.op == "==" && c.id == v.id {
					ks[c.k] = c.y
				}
			}
		}
		keys := []string{}
		for k := range ks {
			keys = append(keys, k)
		}
		sort.Slice(keys, func(i, j int) bool {
			a, b := sanSortPr.r(ks[keys[i]]), sanSortPr.r(ks[keys[j]])
			if a != b {
				return a < b
			}
			return keys[i] < keys[j]
		})
		n := &sanNode{c: v}
		n.other = build(with(as, id, "\x00other"), vars[1:], filter(paths, with(as, id, "\x00other")))
		for _, k := range keys {
			ch := build(with(as, id, k), vars[1:], filter(paths, with(as, id, k)))
			if ch.key == n.other.key {
				continue
			}
			placed := false
			for i := range n.groups {
				if n.groups[i].child.key == ch.key {
					n.groups[i].ks = append(n.groups[i].ks, ks[k])
					placed = true
				}
			}
			if !placed {
				n.groups = append(n.groups, sanGroup{ks: []*sanV{ks[k]}, child: ch})
			}
		}
		if len(n.groups) == 0 {
			return n.other
		}
		n.key = "(" + v.id
		for _, g := range n.groups {
			n.key += " ["
			for _, k := range g.ks {
				n.key += sanKey(k) + ","
			}
			n.key += "] " + g.child.key
		}
		n.key += " else " + n.other.key + ")"
		return n
	}
	return build(sanAssign{}, vars, paths)
}

func sanRows(n *sanNode, pr *sanPr) []string {
	rows := []string{}
	var walk func(n *sanNode, conds []string)
	walk = func(n *sanNode, conds []string) {
		ext := func(c string) []string { return append(append([]string{}, conds...), c) }
		switch {
		case n.leaf != nil:
			c := "always"
			if len(conds) > 0 {
				c = strings.Join(conds, " && ")
			}
			rows = append(rows, c+" => "+sanLeafKey(n.leaf, pr))
		case n.key == "unreachable":
		case n.c.op == "==":
			x := pr.r(n.c.x)
			all := []string{}
			for _, g := range n.groups {
				s := []string{}
				for _, k := range g.ks {
					s = append(s, pr.r(k))
				}
				all = append(all, s...)
				if len(s) == 1 {
					walk(g.child, ext(x+" == "+s[0]))
				} else {
					walk(g.child, ext(x+" in {"+strings.Join(s, ", ")+"}"))
				}
			}
			if len(all) == 1 {
				walk(n.other, ext(x+" != "+all[0]))
			} else {
				walk(n.other, ext(x+" notin {"+strings.Join(all, ", ")+"}"))
			}
		default:
			var t, f string
			switch n.c.op {
			case "eq":
				t, f = pr.r(n.c.x)+" == "+pr.r(n.c.y), pr.r(n.c.x)+" != "+pr.r(n.c.y)
			case "<":
				t, f = pr.r(n.c.x)+" < "+pr.r(n.c.y), pr.r(n.c.x)+" >= "+pr.r(n.c.y)
			default:
				t, f = pr.r(n.c.x), "!"+pr.r(n.c.x)
			}
			walk(n.t, ext(t))
			walk(n.f, ext(f))
		}
	}
	walk(n, nil)
	return rows
}

// ---- summaries of whole functions ----

type sanSum struct {
	paths []*sanPath
	tree  *sanNode
	fail  string
}

func (p *sanPkg) sum(name string) *sanSum {
	if s, ok := p.sums[name]; ok {
		return s
	}
	s := &sanSum{}
	p.sums[name] = s
	fd, ok := p.funcs[name]
	if !ok {
		s.fail = "no function " + name
		return s
	}
	args := []*sanV{}
	for _, fl := range fd.Type.Params.List {
		for range fl.Names {
			args = append(args, sanSym("$"+strconv.Itoa(len(args)+1)))
		}
	}
	mk := func(dec []bool) *sanRun {
		return &sanRun{p: p, dec: dec, cnt: map[string]int{}, inl: []string{name}, root: fd.Body}
	}
	s.paths, s.fail = sanEnum(mk, func(r *sanRun) (string, *sanV) {
		f := r.newFrame(fd, args)
		sig := r.block(fd.Body.List, f)
		if sig.k == sanReturn {
			return "return", sig.v
		}
		return "end", nil
	})
	if s.fail == "" {
		s.tree = sanBuildTree(s.paths)
	}
	return s
}

// sanPrint: the rows of `root`, then of the loops and function values it uses (numbered in order of appearance), then
// the import paths behind the package names used.
func (p *sanPkg) sanPrint(root string) []string {
	s := p.sum(root)
	if s.fail != "" {
		return []string{"unknown: " + s.fail}
	}
	pr := sanNewPr(0)
	rows := sanRows(s.tree, pr)
	li, fi := 0, 0
	for li < len(pr.lps) || fi < len(pr.fns) {
		if li < len(pr.lps) {
			l := pr.lps[li]
			li++
			for _, r := range sanRows(l.tree, pr) {
				rows = append(rows, "L"+strconv.Itoa(li)+": "+r)
			}
			continue
		}
		name := pr.fns[fi]
		fi++
		fs := p.sum(name)
		if fs.fail != "" {
			return []string{"unknown: " + fs.fail}
		}
		for _, r := range sanRows(fs.tree, pr) {
			rows = append(rows, "F"+strconv.Itoa(fi)+": "+r)
		}
	}
	for i, o := range pr.objs {
		rows = append(rows, "o"+strconv.Itoa(i+1)+" = "+o)
	}
	shorts := []string{}
	for k := range pr.pkgs {
		shorts = append(shorts, k)
	}
	sort.Strings(shorts)
	for _, k := range shorts {
		rows = append(rows, "import "+k+" = "+pr.pkgs[k])
	}
	p.lastPr = pr
	return rows
}

// sanAll: every value reachable from the summary of root (its loops and the functions it uses as values included).
func (p *sanPkg) sanAll(root string, visit func(v *sanV)) {
	done := map[string]bool{}
	var do func(name string)
	do = func(name string) {
		if done[name] {
			return
		}
		done[name] = true
		s := p.sum(name)
		if s.fail != "" {
			return
		}
		sanWalkPaths(s.paths, func(v *sanV) {
			visit(v)
			if v.k == "fn" {
				do(v.s)
			}
		}, map[*sanLoop]bool{})
	}
	do(root)
}

// sanTable: keys of the map literal of package-level variable `name` (sorted); a value other than true / {} is
// written key=value.
func (p *sanPkg) sanTable(name string) ([]string, bool) {
	cl, ok := p.vars[name].(*ast.CompositeLit)
	if !ok {
		return nil, false
	}
	keys := []string{}
	for _, e := range cl.Elts {
		kv, ok := e.(*ast.KeyValueExpr)
		if !ok {
			return nil, false
		}
		k, ok := unq(kv.Key)
		if !ok {
			return nil, false
		}
		if v := strings.Join(strings.Fields(src(kv.Value)), ""); v != "true" && v != "{}" {
			k += "=" + v
		}
		keys = append(keys, k)
	}
	sort.Strings(keys)
	return keys, true
}

// ---- the facts ----

func sanLitsOf(vs []*sanV) ([]string, bool) {
	res := []string{}
	for _, v := range vs {
		if v.k != "lit" {
			return nil, false
		}
		res = append(res, v.s)
	}
	return res, true
}

func sanUniqueTable(p *sanPkg, root string) (string, bool) {
	names := map[string]bool{}
	p.sanAll(root, func(v *sanV) {
		if v.k == "tab" {
			names[v.s] = true
		}
	})
	if len(names) != 1 {
		return "", false
	}
	for n := range names {
		return n, true
	}
	return "", false
}

func extractSan() {
	g := gen("San")
	// css.go: sanitizeStyle (anchor: the verif hook names it), its loop and the handlers it reaches as function values
	cssPkg := sanLoadPkg("pkg/webui/sanitize", "sanitizeStyle")
	g.def("cssSem", "List String", strList(cssPkg.sanPrint("sanitizeStyle")), "semantic summary of sanitizeStyle (css.go): the scan loop L1 and the state handlers F1 (initial), F2, … as condition => effects -> outcome rows")
	var keys []string
	tname, ok := sanUniqueTable(cssPkg, "sanitizeStyle")
	if ok {
		keys, ok = cssPkg.sanTable(tname)
	}
	g.def("allowedProperties", "Option (List (List Nat))", optBytesList(keys, ok), "keys of the one map literal the handlers consult (T1 of cssSem: allowedProperties of css.go), sorted, as bytes")
	g.def("allowedPropertyNames", "List String", strList(keys), "the same, readable")
	order, names, ok := scannerTokenNames()
	g.def("tokenConsts", "List String", strList(order), "Token* constants of gorilla/css scanner.go in iota order")
	g.def("tokenNames", "Option (List (List Nat))", optBytesList(names, ok), "tokenNames[c] for each of them, as bytes (what tokenType.String() returns)")

	// helpers.go: TextToHTML with the function it hands to ReplaceAllStringFunc (F1), and WrapURL (exported) with linkable inlined
	web := sanLoadPkg("pkg/server/web")
	web.elideRe = true // urlRE is a parameter of the model (its matches are oracle fields), the expression is not pinned here
	g.def("textSem", "List String", strList(web.sanPrint("TextToHTML")), "semantic summary of TextToHTML (helpers.go); F1 is the function applied to each match of urlRE")
	g.def("wrapURLSem", "List String", strList(web.sanPrint("WrapURL")), "semantic summary of WrapURL (helpers.go), unexported helpers inlined; the scheme test is a set test (`in {…}`) whether the code uses a set literal or a switch")
	var repl, partials, wrapLits, delims []string
	replOK, delimOK := false, false
	web.sanAll("TextToHTML", func(v *sanV) {
		if v.k == "mcall" && v.s == "Replace" && v.a[0].k == "pcall" && v.a[0].p == "strings" && v.a[0].s == "NewReplacer" {
			if l, ok := sanLitsOf(v.a[0].a); ok && repl == nil {
				repl, replOK = l, true
			} else {
				replOK = false
			}
		}
	})
	set := map[string]bool{}
	if s := web.sum("TextToHTML"); s.fail == "" {
		for _, name := range sanFnValues(web, "TextToHTML") {
			if fs := web.sum(name); fs.fail == "" {
				for _, p := range fs.paths {
					for _, c := range p.conds {
						if c.op == "==" && c.y.k == "lit" && !set[c.y.s] {
							set[c.y.s] = true
							partials = append(partials, c.y.s)
						}
					}
				}
			}
		}
	}
	sort.Strings(partials)
	web.sanAll("WrapURL", func(v *sanV) {
		if v.k == "pcall" && v.p == "strings" && v.s == "IndexAny" && len(v.a) == 2 && v.a[1].k == "lit" {
			if delims == nil || (len(delims) == 1 && delims[0] == v.a[1].s) {
				delims, delimOK = []string{v.a[1].s}, true
			} else {
				delimOK = false
			}
		}
	})
	if s := web.sum("WrapURL"); s.fail == "" {
		// the anchor: the one returned concatenation with more than one piece; its literal pieces in order, after the
		// literal arguments of the strings.ReplaceAll inside it
		seen := map[string]bool{}
		for _, p := range s.paths {
			if p.outV == nil || p.outV.k != "cat" || seen[sanKey(p.outV)] {
				continue
			}
			seen[sanKey(p.outV)] = true
			for _, piece := range p.outV.a {
				if piece.k == "pcall" && piece.p == "strings" && piece.s == "ReplaceAll" {
					if l, ok := sanLitsOf(piece.a[1:]); ok {
						wrapLits = append(wrapLits, l...)
					}
				}
			}
			for _, piece := range p.outV.a {
				if piece.k == "lit" {
					wrapLits = append(wrapLits, piece.s)
				}
			}
		}
	}
	if !replOK {
		repl = []string{"?"}
	}
	if !delimOK {
		delims = []string{}
	}
	g.def("replacerArgs", "List (List Nat)", sanBytesList(repl), "arguments of the strings.NewReplacer whose Replace ends TextToHTML (old, new, old, new, …: the order is the priority), as bytes")
	g.def("wrapMatchLits", "List (List Nat)", sanBytesList(partials), "the constants the match function (F1 of textSem) compares the tail of a match with, sorted, as bytes")
	g.def("wrapURLLits", "List (List Nat)", sanBytesList(wrapLits), "WrapURL's anchor: the literal arguments of strings.ReplaceAll (old, new), then the literal pieces of the returned concatenation in order, as bytes")
	g.def("linkableLits", "List (List Nat)", sanBytesList(delims), "the literal second argument of strings.IndexAny in WrapURL (helpers inlined), as bytes")
	// the scheme set: the constants the one strings.ToLower(…) subject of WrapURL's multi-way tests is compared with (a
	// map[string]bool set literal indexed with it and a switch over it are the same test, see sanRun.truth)
	var sk []string
	subjects, schemes := map[string]bool{}, map[string]bool{}
	if s := web.sum("WrapURL"); s.fail == "" {
		for _, p := range s.paths {
			for _, c := range p.conds {
				if c.op == "==" && c.x.k == "pcall" && c.x.p == "strings" && c.x.s == "ToLower" {
					subjects[c.id] = true
					if c.y.k != "lit" {
						subjects["?"+c.k] = true // compared with something that is not a literal: not a fixed set
					} else if !schemes[c.y.s] {
						schemes[c.y.s] = true
						sk = append(sk, c.y.s)
					}
				}
			}
		}
	}
	sort.Strings(sk)
	g.def("linkSchemes", "Option (List (List Nat))", optBytesList(sk, len(subjects) == 1 && len(sk) > 0),
		"the scheme set of WrapURL (helpers inlined): the string constants the one strings.ToLower(…) value it tests is compared with — the keys of a map[string]bool "+
			"set literal indexed with it, or the case values of a switch over it — sorted, as bytes")
}

// sanFnValues: the functions used as values in the summary of root.
func sanFnValues(p *sanPkg, root string) []string {
	set := map[string]bool{}
	res := []string{}
	p.sanAll(root, func(v *sanV) {
		if v.k == "fn" && !set[v.s] {
			set[v.s] = true
			res = append(res, v.s)
		}
	})
	return res
}
