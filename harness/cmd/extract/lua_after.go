package main

// T1 facts for C17 (Lua half, AFTER events), appended to lean/Ibx/Gen/Lua.lean (this extractor runs after extractLua:
// init order of the package follows the file names).
//
//   afterHandlersDetach   per after-listener (AsyncEventBroker listeners: the registered method takes an
//                         event.MessageMetadata BY VALUE): does it replace From by a pointer to a COPY and To by a fresh
//                         slice of pointers to copies BEFORE the value is wrapped for Lua?  Computed by lua_detach.go: the
//                         listener is executed on an abstract heap up to the Lua call, helpers followed in place; `shared`
//                         = both are still the event's, anything else `unknown:<why>`.
//   fieldTables           the __index / __newindex functions of the message_metadata, address and inbucket.after /
//                         inbucket.before userdata, read off the symbolic paths of lua.go's evaluator: per Lua key what is
//                         pushed / which field of the Go object is assigned from which Check…(3), the default branch
//                         (push nil / RaiseError), and that a receiver of the wrong type ends in ArgError.
//   toAssignForEach       the closure of messageMetadataNewIndex "to": appends exactly the entries that are userdata
//                         holding a *mail.Address, skips everything else, raises nothing.
//   newMetaCtor           message_metadata.new pushes a userdata around a zero event.MessageMetadata.

import (
	"fmt"
	"go/ast"
	"sort"
	"strings"
)

func init() { extractors = append(extractors, extractLuaAfter) }

// afterHandlersDetach is computed by the abstract interpreter of lua_detach.go

// ---------------------------------------------------------------------------------------------------------------------
// field tables

var luaAfterObjs = map[string]bool{"*event.MessageMetadata": true, "*mail.Address": true, "*InbucketAfterFuncs": true, "*InbucketBeforeFuncs": true}

type luaFieldRow struct {
	key   string
	conds []string
	eff   string
}

type luaFieldTable struct {
	decl        *ast.FuncDecl
	obj, kind   string
	selfChecked bool
	rows        []luaFieldRow
}

func (pk *luaPkg) fieldTables() []luaFieldTable {
	res := []luaFieldTable{}
	names := []string{}
	for n := range pk.funcs {
		names = append(names, n)
	}
	sort.Strings(names)
	for _, n := range names {
		fd := pk.funcs[n]
		pt, rt := pk.paramTypes(fd), pk.results(fd)
		if len(pt) != 1 || pt[0] != "*gopher-lua.LState" || len(rt) != 1 || rt[0] != "int" || fd.Body == nil || !luaMentionsField(fd.Body, "CheckString") {
			continue
		}
		paths := pk.analyze(fd)
		tb := luaFieldTable{selfChecked: true, decl: fd}
		bad := false
		sets, pushes := 0, 0
		for _, p := range paths {
			// the receiver check
			obj, okSelf, selfAtom := "", false, ""
			for _, a := range p.atoms {
				if a.v.op == "is" && strings.HasPrefix(a.v.k[0].String(), "$0.CheckUserData(1)") {
					obj, okSelf, selfAtom = a.v.s, !a.neg, a.String()
				}
			}
			if obj == "" {
				bad = true
				continue
			}
			tb.obj = obj
			if !okSelf {
				hasArgErr := false
				for _, e := range p.effs {
					if e.kind == "call" && e.v.op == "mcall" && e.v.s == "ArgError" {
						hasArgErr = true
					}
				}
				if !hasArgErr {
					tb.selfChecked = false
				}
				continue
			}
			self := "$0.CheckUserData(1).Value.(" + obj + ")"
			key, nkeys := "*", 0
			conds := []string{}
			for _, a := range p.atoms {
				s := a.String()
				if s == selfAtom {
					continue
				}
				v := a.v
				if v.op == "bin" && (v.s == "==" || v.s == "!=") && v.k[1].op == "lit" && v.k[0].op == "mcall" && v.k[0].s == "CheckString" && len(v.k[0].k) == 2 && v.k[0].k[1].String() == "2" {
					if (v.s == "==") != a.neg {
						key = luaUnq(v.k[1].s)
						nkeys++
					}
					continue
				}
				conds = append(conds, strings.ReplaceAll(s, self, "#"))
			}
			if nkeys > 1 {
				bad = true
				continue
			}
			sort.Strings(conds)
			effs := []string{}
			for _, e := range p.effs {
				s := e.String()
				if s == "$0.CheckUserData(1)" || s == "$0.CheckString(2)" {
					continue
				}
				if e.kind == "set" {
					sets++
				}
				if e.kind == "call" && e.v.op == "mcall" && e.v.s == "Push" {
					pushes++
				}
				effs = append(effs, strings.ReplaceAll(s, self, "#"))
			}
			tb.rows = append(tb.rows, luaFieldRow{key, conds, strings.Join(effs, "; ") + " => " + p.ret})
		}
		if bad || !luaAfterObjs[tb.obj] {
			continue
		}
		switch {
		case sets > 0 && pushes == 0:
			tb.kind = "newindex"
		case pushes > 0 && sets == 0:
			tb.kind = "index"
		default:
			tb.kind = "?mixed"
		}
		sort.SliceStable(tb.rows, func(i, j int) bool {
			a, b := tb.rows[i], tb.rows[j]
			return a.key+"|"+strings.Join(a.conds, ",") < b.key+"|"+strings.Join(b.conds, ",")
		})
		res = append(res, tb)
	}
	sort.SliceStable(res, func(i, j int) bool { return res[i].obj+"|"+res[i].kind < res[j].obj+"|"+res[j].kind })
	return res
}

// toAssignForEach: the closures handed to <table>.ForEach inside the newindex function of *event.MessageMetadata
func (pk *luaPkg) toAssignForEach(tables []luaFieldTable) string {
	verdicts := []string{}
	for _, tb := range tables {
		fd := tb.decl
		if tb.obj != "*event.MessageMetadata" || tb.kind != "newindex" {
			continue
		}
		ast.Inspect(fd.Body, func(x ast.Node) bool {
			ce, ok := x.(*ast.CallExpr)
			if !ok {
				return true
			}
			se, ok := ce.Fun.(*ast.SelectorExpr)
			if !ok || se.Sel.Name != "ForEach" || len(ce.Args) != 1 {
				return true
			}
			lit, ok := ce.Args[0].(*ast.FuncLit)
			if !ok {
				return true
			}
			// only closures that collect *mail.Address values
			collects := false
			ast.Inspect(lit.Body, func(y ast.Node) bool {
				if c2, ok := y.(*ast.CallExpr); ok {
					if id, ok := c2.Fun.(*ast.Ident); ok && id.Name == "append" {
						collects = true
					}
				}
				return true
			})
			if !collects || !luaMentionsField(fd.Body, "To") {
				return true
			}
			verdicts = append(verdicts, pk.forEachVerdict(pk.fileOf[fd], lit))
			return true
		})
	}
	sort.Strings(verdicts)
	if len(verdicts) == 0 {
		return "unknown:no-ForEach-collecting-closure"
	}
	return strings.Join(verdicts, "+")
}

// forEachVerdict: `skip-non-addresses` when the body is (possibly nested) `if v, ok := <type test / package helper>; ok { … }`
// whose innermost block is ONE append of the unwrapped value, nothing else is executed and nothing raises
func (pk *luaPkg) forEachVerdict(f *ast.File, lit *ast.FuncLit) string {
	raises := false
	ast.Inspect(lit.Body, func(y ast.Node) bool {
		if c2, ok := y.(*ast.CallExpr); ok {
			switch fu := c2.Fun.(type) {
			case *ast.SelectorExpr:
				if fu.Sel.Name == "RaiseError" || fu.Sel.Name == "ArgError" || fu.Sel.Name == "TypeError" || strings.HasPrefix(fu.Sel.Name, "Check") {
					raises = true
				}
			case *ast.Ident:
				if fu.Name == "panic" {
					raises = true
				}
			}
		}
		return true
	})
	if raises {
		return "raises"
	}
	list := lit.Body.List
	depth := 0
	sawUserData, sawAddress := false, false
	for {
		if len(list) != 1 {
			return "unknown:closure-shape"
		}
		switch s := list[0].(type) {
		case *ast.IfStmt:
			if s.Else != nil || s.Init == nil {
				return "unknown:closure-shape"
			}
			cond, _ := s.Cond.(*ast.Ident)
			as, _ := s.Init.(*ast.AssignStmt)
			if cond == nil || as == nil || len(as.Lhs) != 2 || len(as.Rhs) != 1 || src(as.Lhs[1]) != cond.Name {
				return "unknown:closure-shape"
			}
			switch r := as.Rhs[0].(type) {
			case *ast.TypeAssertExpr:
				t := luaType(f, r.Type)
				if t == "*gopher-lua.LUserData" {
					sawUserData = true
				} else if t == "*mail.Address" {
					sawAddress = true
				} else {
					return "unknown:type-test-" + t
				}
			case *ast.CallExpr:
				id, _ := r.Fun.(*ast.Ident)
				var g *ast.FuncDecl
				if id != nil {
					g = pk.resolveFunc(id.Name)
				}
				if g == nil {
					return "unknown:closure-shape"
				}
				rs := pk.results(g)
				if len(rs) == 2 && rs[0] == "*mail.Address" && rs[1] == "bool" {
					sawAddress = true
					ps := pk.paramTypes(g)
					if len(ps) == 1 && ps[0] == "*gopher-lua.LUserData" {
						sawUserData = true
					}
				} else {
					return "unknown:closure-shape"
				}
			default:
				return "unknown:closure-shape"
			}
			list = s.Body.List
			depth++
		case *ast.AssignStmt:
			if len(s.Lhs) == 1 && len(s.Rhs) == 1 {
				if ce, ok := s.Rhs[0].(*ast.CallExpr); ok {
					if id, ok := ce.Fun.(*ast.Ident); ok && id.Name == "append" && len(ce.Args) == 2 && src(ce.Args[0]) == src(s.Lhs[0]) {
						if sawUserData && sawAddress && depth >= 1 {
							return "skip-non-addresses"
						}
						return "unknown:appends-unchecked"
					}
				}
			}
			return "unknown:closure-shape"
		default:
			return "unknown:closure-shape"
		}
	}
}

func extractLuaAfter() {
	g := gen("Lua")
	pk := luaLoad(luaDir)
	// ---- detach
	type row struct{ slot, verdict string }
	rows := []row{}
	for _, fd := range pk.all {
		if fd.Body == nil {
			continue
		}
		ast.Inspect(fd.Body, func(x ast.Node) bool {
			ce, ok := x.(*ast.CallExpr)
			if !ok || !luaIsAddListener(ce) || len(ce.Args) != 2 {
				return true
			}
			se, ok := ce.Args[1].(*ast.SelectorExpr)
			if !ok {
				return true
			}
			m := pk.resolveMeth(se.Sel.Name)
			if m == nil || m.Type.Params == nil {
				return true
			}
			takes := false
			for _, fl := range m.Type.Params.List {
				t := luaType(pk.fileOf[m], fl.Type)
				if t == "event.MessageMetadata" || t == "*event.MessageMetadata" {
					takes = true
				}
			}
			if !takes {
				return true
			}
			event := "?"
			if s2, ok := ce.Fun.(*ast.SelectorExpr); ok {
				if ev, ok := s2.X.(*ast.SelectorExpr); ok {
					event = ev.Sel.Name
				}
			}
			rows = append(rows, row{event, pk.afterDetach(m)})
			return true
		})
	}
	sort.SliceStable(rows, func(i, j int) bool { return rows[i].slot < rows[j].slot })
	rs := [][2]string{}
	for _, r := range rows {
		rs = append(rs, [2]string{r.slot, r.verdict})
	}
	g.def("afterHandlersDetach", "List (String × String)", luaPairs(rs), "(event, verdict) for every listener that takes an event.MessageMetadata: `detached` = before the value is wrapped for Lua its From is replaced by a pointer to a copy and its To by a fresh slice of pointers to copies (inline or in a helper called with its address); `shared` = neither is touched; else `unknown:…`")
	// ---- field tables
	fmt.Fprintf(&g.buf, `/-- an __index / __newindex function of a userdata: the Go type its first argument must hold (anything else ends in
    ArgError iff selfChecked), and per Lua key (`+"`*`"+` = the default branch) the extra conditions and what is done; `+"`#`"+` = the Go object -/
structure FieldTable where
  obj : String
  kind : String
  selfChecked : Bool
  rows : List (String × List String × String)
  deriving DecidableEq, Repr

`)
	ts := []string{}
	tables := pk.fieldTables()
	for _, t := range tables {
		rr := []string{}
		for _, r := range t.rows {
			rr = append(rr, fmt.Sprintf("(%s, %s, %s)", leanStr(r.key), strList(r.conds), leanStr(r.eff)))
		}
		ts = append(ts, fmt.Sprintf("{ obj := %s, kind := %s, selfChecked := %s,\n    rows := [\n      %s] }", leanStr(t.obj), leanStr(t.kind), luaLeanBool(t.selfChecked), strings.Join(rr, ",\n      ")))
	}
	g.def("fieldTables", "List FieldTable", "[\n  "+strings.Join(ts, ",\n  ")+"]", "the index / newindex functions of the message_metadata, address, inbucket.after and inbucket.before userdata")
	g.def("toAssignForEach", "String", leanStr(pk.toAssignForEach(tables)), "what the ForEach closure of message_metadata's `to` assignment does with the table entries")
	ctor := "?not-found"
	for _, fd := range pk.all {
		if fd.Body == nil || fd.Recv != nil {
			continue
		}
		pt, rt := pk.paramTypes(fd), pk.results(fd)
		if len(pt) != 1 || pt[0] != "*gopher-lua.LState" || len(rt) != 1 || rt[0] != "int" {
			continue
		}
		has := false
		ast.Inspect(fd.Body, func(y ast.Node) bool {
			if cl, ok := y.(*ast.CompositeLit); ok && luaType(pk.fileOf[fd], cl.Type) == "event.MessageMetadata" {
				has = true
			}
			return true
		})
		if has {
			ps := []string{}
			for _, o := range pk.analyze(fd) {
				ps = append(ps, o.String())
			}
			if ctor != "?not-found" {
				ctor = "?ambiguous"
			} else {
				ctor = strings.Join(ps, " | ")
			}
		}
	}
	g.def("newMetaCtor", "String", leanStr(ctor), "message_metadata.new: the function(s) of the package that build an event.MessageMetadata literal")
}
