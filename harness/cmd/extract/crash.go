package main

// T1 facts for C11 (crash safety of the file store).
//
// Nothing here looks at the spelling of a local variable, receiver, unexported helper, unexported field or label.
// The extractor runs a small symbolic walk over pkg/storage/file/{fstore,mbox,fmessage}.go:
//
//   * the mailbox struct is "the struct that embeds sync.RWMutex"; its index-path / directory fields are the ones the
//     constructors fill from filepath.Join(<dir>, "index.gob") and from <dir>; its message list is its only slice
//     field and its loaded flag its only bool field;
//   * a path expression is evaluated symbolically (locals are followed to their definitions by ast.Object identity,
//     one-line helpers such as rawPath() are unfolded, parameters of inlined helpers are bound to their arguments):
//       dir, dir/index.gob, dir/index.gob.tmp, dir/<Fid>.raw, parent(dir), parent(parent(dir));
//   * a file-system mutation is recognised by its standard-library name (os.Create, os.OpenFile, os.Rename, os.Remove,
//     os.RemoveAll, os.MkdirAll, io.Copy, (*bufio.Writer).Flush and (*os.File).Close of a handle obtained from
//     os.Create / os.OpenFile); a verif hook by verifStep("<label>", …); a lock operation by Lock/RLock/Unlock/RUnlock;
//   * calls of functions and methods declared in the package are INLINED (so helper boundaries do not matter);
//   * the result is a PROGRAM: a sequence of atoms, alternatives `( a | b )` and loops `{ a }*`.  The branches of an
//     `if` / `switch` are alternatives (sorted, so swapping branches under a negated condition changes nothing); when a
//     branch ends in return / continue / break the statements after the `if` belong to the other branch (so a guard
//     clause and the nested form print alike); a branch `if e != nil { …; return …e… }` is a FAILURE HANDLER and is
//     left out (the programs describe the success path, like `addP` / `removeFoundP` of Ibx/Model/FsSteps.lean);
//     the two sides of a test `len(<messages>) > 0` carry the tags [nonempty] / [empty]; alternatives and loops that
//     contain no atom disappear.
//
// A shape the walk cannot interpret yields an atom starting with `?` (or an `os.Xxx` atom for an os function that is
// not in the table), which no tie accepts.

import (
	"go/ast"
	"go/token"
	"sort"
	"strconv"
	"strings"
)

func init() { extractors = append(extractors, extractCrash) }

// callsIn: all call expressions inside n in source order
func callsIn(n ast.Node) []*ast.CallExpr {
	var res []*ast.CallExpr
	if n == nil || isNilNode(n) {
		return res
	}
	ast.Inspect(n, func(x ast.Node) bool {
		if ce, ok := x.(*ast.CallExpr); ok {
			res = append(res, ce)
		}
		return true
	})
	return res
}

// callWith: calls of `fun` whose arguments print exactly as args
func callWith(calls []*ast.CallExpr, fun string, args ...string) []*ast.CallExpr {
	var res []*ast.CallExpr
	for _, ce := range calls {
		if src(ce.Fun) != fun || len(ce.Args) != len(args) {
			continue
		}
		ok := true
		for i, a := range args {
			if src(ce.Args[i]) != a {
				ok = false
			}
		}
		if ok {
			res = append(res, ce)
		}
	}
	return res
}

// ---- the package view -------------------------------------------------------------------------------------------

type crPkg struct {
	files      []*ast.File
	funcs      map[string][]*ast.FuncDecl // by name (functions and methods)
	imports    map[string]bool            // names under which packages are imported
	types      map[string]*ast.TypeSpec   // package-level types
	consts     map[string]ast.Expr        // package-level const / var initialisers
	boxType    string                     // the mailbox struct (embeds sync.RWMutex); "" when not found
	sliceField string                     // its only slice field (the message list)
	boolField  string                     // its only bool field (the index-loaded flag)
	fieldRole  map[string]string          // field name -> "dir" | "dir/index.gob"
}

func crUnparen(e ast.Expr) ast.Expr {
	for {
		p, ok := e.(*ast.ParenExpr)
		if !ok {
			return e
		}
		e = p.X
	}
}

func crLoadPkg(files ...*ast.File) *crPkg {
	p := &crPkg{funcs: map[string][]*ast.FuncDecl{}, imports: map[string]bool{}, types: map[string]*ast.TypeSpec{},
		consts: map[string]ast.Expr{}, fieldRole: map[string]string{}}
	for _, f := range files {
		if f == nil {
			continue
		}
		p.files = append(p.files, f)
		for _, im := range f.Imports {
			path, _ := strconv.Unquote(im.Path.Value)
			name := path[strings.LastIndex(path, "/")+1:]
			if im.Name != nil {
				name = im.Name.Name
			}
			p.imports[name] = true
		}
		for _, d := range f.Decls {
			switch v := d.(type) {
			case *ast.FuncDecl:
				p.funcs[v.Name.Name] = append(p.funcs[v.Name.Name], v)
			case *ast.GenDecl:
				for _, s := range v.Specs {
					switch sp := s.(type) {
					case *ast.TypeSpec:
						p.types[sp.Name.Name] = sp
					case *ast.ValueSpec:
						for i, n := range sp.Names {
							if i < len(sp.Values) {
								p.consts[n.Name] = sp.Values[i]
							}
						}
					}
				}
			}
		}
	}
	// the mailbox struct: the one that embeds (a pointer to) sync.RWMutex
	boxes := []string{}
	for name, ts := range p.types {
		st, ok := ts.Type.(*ast.StructType)
		if !ok {
			continue
		}
		for _, fl := range st.Fields.List {
			if len(fl.Names) != 0 {
				continue
			}
			t := fl.Type
			if s, ok := t.(*ast.StarExpr); ok {
				t = s.X
			}
			if se, ok := t.(*ast.SelectorExpr); ok && se.Sel.Name == "RWMutex" {
				if id, ok := se.X.(*ast.Ident); ok && id.Name == "sync" {
					boxes = append(boxes, name)
				}
			}
		}
	}
	if len(boxes) != 1 {
		return p
	}
	p.boxType = boxes[0]
	st := p.types[p.boxType].Type.(*ast.StructType)
	slices, bools := []string{}, []string{}
	for _, fl := range st.Fields.List {
		for _, n := range fl.Names {
			if at, ok := fl.Type.(*ast.ArrayType); ok && at.Len == nil {
				slices = append(slices, n.Name)
			}
			if id, ok := fl.Type.(*ast.Ident); ok && id.Name == "bool" {
				bools = append(bools, n.Name)
			}
		}
	}
	if len(slices) == 1 {
		p.sliceField = slices[0]
	}
	if len(bools) == 1 {
		p.boolField = bools[0]
	}
	// roles of the path fields, read off every composite literal of the mailbox struct
	consistent := true
	for _, cl := range p.boxLiterals() {
		idxKey, dirKey := "", ""
		var dirExpr ast.Expr
		for _, el := range cl.Elts {
			kv, ok := el.(*ast.KeyValueExpr)
			if !ok {
				continue
			}
			if ce, ok := p.defOf(kv.Value).(*ast.CallExpr); ok && p.isPkgCall(ce, "filepath", "Join") && len(ce.Args) == 2 {
				if s, ok := p.strValue(ce.Args[1]); ok && s == "index.gob" {
					idxKey = src(kv.Key)
					dirExpr = ce.Args[0]
				}
			}
		}
		if idxKey == "" {
			consistent = false
			continue
		}
		for _, el := range cl.Elts {
			if kv, ok := el.(*ast.KeyValueExpr); ok && src(kv.Key) != idxKey && crSameVar(kv.Value, dirExpr) {
				dirKey = src(kv.Key)
			}
		}
		if dirKey == "" || (p.fieldRole[idxKey] != "" && p.fieldRole[idxKey] != "dir/index.gob") || (p.fieldRole[dirKey] != "" && p.fieldRole[dirKey] != "dir") {
			consistent = false
			continue
		}
		p.fieldRole[idxKey] = "dir/index.gob"
		p.fieldRole[dirKey] = "dir"
	}
	if !consistent {
		p.fieldRole = map[string]string{}
	}
	return p
}

// boxLiterals: every composite literal of the mailbox struct in the package
func (p *crPkg) boxLiterals() []*ast.CompositeLit {
	var res []*ast.CompositeLit
	if p.boxType == "" {
		return res
	}
	for _, f := range p.files {
		ast.Inspect(f, func(x ast.Node) bool {
			if cl, ok := x.(*ast.CompositeLit); ok {
				if id, ok := cl.Type.(*ast.Ident); ok && id.Name == p.boxType {
					res = append(res, cl)
				}
			}
			return true
		})
	}
	return res
}

// crSameVar: both expressions are the same variable (same ast.Object) or print alike
func crSameVar(a, b ast.Expr) bool {
	a, b = crUnparen(a), crUnparen(b)
	ia, oka := a.(*ast.Ident)
	ib, okb := b.(*ast.Ident)
	if oka && okb {
		if ia.Obj != nil || ib.Obj != nil {
			return ia.Obj == ib.Obj
		}
		return ia.Name == ib.Name
	}
	if oka || okb {
		return false
	}
	return src(a) == src(b)
}

func (p *crPkg) isPkgCall(ce *ast.CallExpr, pkg, name string) bool {
	se, ok := crUnparen(ce.Fun).(*ast.SelectorExpr)
	if !ok || se.Sel.Name != name {
		return false
	}
	id, ok := se.X.(*ast.Ident)
	return ok && id.Name == pkg && id.Obj == nil && p.imports[pkg]
}

// defOf: follows an identifier to the expression it was defined from (single-value definitions only)
func (p *crPkg) defOf(e ast.Expr) ast.Expr {
	for i := 0; i < 8; i++ {
		e = crUnparen(e)
		id, ok := e.(*ast.Ident)
		if !ok {
			return e
		}
		var next ast.Expr
		if id.Obj != nil {
			switch d := id.Obj.Decl.(type) {
			case *ast.AssignStmt:
				for k, l := range d.Lhs {
					if li, ok := l.(*ast.Ident); ok && li.Obj == id.Obj {
						if len(d.Rhs) == len(d.Lhs) {
							next = d.Rhs[k]
						} else if len(d.Rhs) == 1 && k == 0 {
							next = d.Rhs[0] // v, err := f(..): v "is" the call
						}
					}
				}
			case *ast.ValueSpec:
				for k, n := range d.Names {
					if n.Obj == id.Obj && k < len(d.Values) {
						next = d.Values[k]
					}
				}
			}
		} else if v, ok := p.consts[id.Name]; ok {
			next = v
		}
		if next == nil {
			return e
		}
		e = next
	}
	return e
}

func (p *crPkg) strValue(e ast.Expr) (string, bool) {
	if lit, ok := p.defOf(e).(*ast.BasicLit); ok && lit.Kind == token.STRING {
		s, err := strconv.Unquote(lit.Value)
		return s, err == nil
	}
	return "", false
}

// uniqueFunc: the one declaration with this name (method when wantMethod), nil when absent or ambiguous
func (p *crPkg) uniqueFunc(name string, wantMethod bool) *ast.FuncDecl {
	var res *ast.FuncDecl
	for _, fd := range p.funcs[name] {
		if (fd.Recv != nil) != wantMethod || fd.Body == nil {
			continue
		}
		if res != nil {
			return nil
		}
		res = fd
	}
	return res
}

// method: the method `name` of receiver type `recv`
func (p *crPkg) method(recv, name string) *ast.FuncDecl {
	for _, fd := range p.funcs[name] {
		if fd.Recv == nil || len(fd.Recv.List) != 1 {
			continue
		}
		t := fd.Recv.List[0].Type
		if s, ok := t.(*ast.StarExpr); ok {
			t = s.X
		}
		if id, ok := t.(*ast.Ident); ok && id.Name == recv {
			return fd
		}
	}
	return nil
}

// exportedMethods: the exported methods of receiver type recv, sorted by name
func (p *crPkg) exportedMethods(recv string) []*ast.FuncDecl {
	var res []*ast.FuncDecl
	for name := range p.funcs {
		if !ast.IsExported(name) {
			continue
		}
		if fd := p.method(recv, name); fd != nil && fd.Body != nil {
			res = append(res, fd)
		}
	}
	sort.Slice(res, func(i, j int) bool { return res[i].Name.Name < res[j].Name.Name })
	return res
}

// ---- programs -----------------------------------------------------------------------------------------------------

type crItem struct {
	atom string     // kind 0
	alt  [][]crItem // kind 1
	loop []crItem   // kind 2
	kind int
}

func crAtom(s string) crItem { return crItem{atom: s} }

func crIsTag(it crItem) bool { return it.kind == 0 && strings.HasPrefix(it.atom, "[") }

// crNorm: canonical form (see the head of the file)
func crNorm(seq []crItem) []crItem {
	var out []crItem
	for _, it := range seq {
		switch it.kind {
		case 0:
			out = append(out, it)
		case 2:
			b := crNorm(it.loop)
			if crHasAtom(b) {
				out = append(out, crItem{kind: 2, loop: b})
			}
		case 1:
			var branches [][]crItem
			var add func(b []crItem)
			add = func(b []crItem) {
				b = crNorm(b)
				if len(b) == 1 && b[0].kind == 1 {
					for _, bb := range b[0].alt {
						add(bb)
					}
					return
				}
				branches = append(branches, b)
			}
			for _, b := range it.alt {
				add(b)
			}
			any := false
			for _, b := range branches {
				if crHasAtom(b) {
					any = true
				}
			}
			if !any {
				continue
			}
			seen := map[string]bool{}
			var uniq [][]crItem
			for _, b := range branches {
				if s := crStr(b); !seen[s] {
					seen[s] = true
					uniq = append(uniq, b)
				}
			}
			// ( 0 | { a }* ) is { a }*: a loop may run zero times anyway
			onlyLoop := false
			for _, b := range uniq {
				if len(b) == 1 && b[0].kind == 2 {
					onlyLoop = true
				}
			}
			if onlyLoop {
				var keep [][]crItem
				for _, b := range uniq {
					if len(b) != 0 {
						keep = append(keep, b)
					}
				}
				uniq = keep
			}
			sort.Slice(uniq, func(i, j int) bool { return crStr(uniq[i]) < crStr(uniq[j]) })
			if len(uniq) == 1 {
				out = append(out, uniq[0]...)
			} else {
				out = append(out, crItem{kind: 1, alt: uniq})
			}
		}
	}
	return out
}

// crHasAtom: does the sequence contain an atom that is not a tag?
func crHasAtom(seq []crItem) bool {
	for _, it := range seq {
		switch it.kind {
		case 0:
			if !crIsTag(it) {
				return true
			}
		case 1:
			for _, b := range it.alt {
				if crHasAtom(b) {
					return true
				}
			}
		case 2:
			if crHasAtom(it.loop) {
				return true
			}
		}
	}
	return false
}

func crStr(seq []crItem) string {
	if len(seq) == 0 {
		return "0"
	}
	parts := []string{}
	for _, it := range seq {
		switch it.kind {
		case 0:
			parts = append(parts, it.atom)
		case 1:
			bs := []string{}
			for _, b := range it.alt {
				bs = append(bs, crStr(b))
			}
			parts = append(parts, "( "+strings.Join(bs, " | ")+" )")
		case 2:
			parts = append(parts, "{ "+crStr(it.loop)+" }*")
		}
	}
	return strings.Join(parts, " ")
}

// crFlat: the atoms of a program in print order (tags left out)
func crFlat(seq []crItem) []string {
	var res []string
	for _, it := range seq {
		switch it.kind {
		case 0:
			if !crIsTag(it) {
				res = append(res, it.atom)
			}
		case 1:
			for _, b := range it.alt {
				res = append(res, crFlat(b)...)
			}
		case 2:
			res = append(res, crFlat(it.loop)...)
		}
	}
	return res
}

// ---- the walk -----------------------------------------------------------------------------------------------------

const (
	crModeFS   = iota // file-system mutations, hooks, lock operations; tags [empty] / [nonempty]
	crModeLoad        // L = call of the index loader, M = access to the message list; tags [loaded] / [unloaded]
	crModeScope       // everything of crModeFS plus L, M and E = AfterMessageDeleted.Emit; no tags (filelock.go)
)

// fsMode: file-system mutations, hooks and lock operations are atoms
func (w *crWalk) fsMode() bool { return w.mode == crModeFS || w.mode == crModeScope }

// loadMode: the index loader is an atom (not inlined) and accesses to the message list are atoms
func (w *crWalk) loadMode() bool { return w.mode == crModeLoad || w.mode == crModeScope }

type crWalk struct {
	p      *crPkg
	mode   int
	locks  bool
	loader *ast.FuncDecl          // crModeLoad: the function that sets the loaded flag (not inlined, atom L)
	env    map[*ast.Object]string // parameters of inlined helpers -> symbolic path of the argument
	stack  []*ast.FuncDecl
}

type crFrame struct{ deferred [][]crItem }

// prog: the normalised program of fd (inlined helpers included)
func (w *crWalk) prog(fd *ast.FuncDecl) []crItem {
	if fd == nil || fd.Body == nil {
		return []crItem{crAtom("?nofunc")}
	}
	if w.env == nil {
		w.env = map[*ast.Object]string{}
	}
	return crNorm(w.fn(fd.Body))
}

func (w *crWalk) fn(body *ast.BlockStmt) []crItem {
	fr := &crFrame{}
	items, _ := w.block(body.List, fr)
	for i := len(fr.deferred) - 1; i >= 0; i-- {
		items = append(items, fr.deferred[i]...)
	}
	return items
}

func (w *crWalk) block(stmts []ast.Stmt, fr *crFrame) (items []crItem, term bool) {
	for i, s := range stmts {
		switch v := s.(type) {
		case *ast.ReturnStmt:
			for _, r := range v.Results {
				items = append(items, w.expr(r)...)
			}
			return items, true
		case *ast.BranchStmt:
			if v.Tok == token.GOTO || v.Tok == token.FALLTHROUGH {
				items = append(items, crAtom("?"+v.Tok.String()))
			}
			return items, true
		case *ast.BlockStmt:
			it, t := w.block(v.List, fr)
			items = append(items, it...)
			if t {
				return items, true
			}
		case *ast.LabeledStmt:
			it, t := w.block([]ast.Stmt{v.Stmt}, fr)
			items = append(items, it...)
			if t {
				return items, true
			}
		case *ast.DeferStmt:
			for _, a := range v.Call.Args {
				items = append(items, w.expr(a)...)
			}
			fr.deferred = append(fr.deferred, w.call(v.Call, true))
		case *ast.GoStmt:
			if g := crNorm(w.call(v.Call, true)); len(g) > 0 {
				items = append(items, crAtom("?go"))
			}
		case *ast.IfStmt:
			it, t, consumedRest := w.ifStmt(v, stmts[i+1:], fr)
			items = append(items, it...)
			if t || consumedRest {
				return items, t
			}
		case *ast.SwitchStmt:
			if v.Init != nil {
				items = append(items, w.expr(v.Init)...)
			}
			chain := crSwitchToIf(v)
			if chain == nil {
				if v.Tag != nil {
					items = append(items, w.expr(v.Tag)...)
				}
				continue
			}
			it, t := w.block(append([]ast.Stmt{chain}, stmts[i+1:]...), fr)
			items = append(items, it...)
			return items, t
		case *ast.TypeSwitchStmt, *ast.SelectStmt:
			if g := crNorm(w.expr(s)); len(g) > 0 {
				items = append(items, crAtom("?switch"))
			}
		case *ast.ForStmt:
			if v.Init != nil {
				items = append(items, w.expr(v.Init)...)
			}
			var body []crItem
			if v.Cond != nil {
				body = append(body, w.expr(v.Cond)...)
			}
			b, _ := w.block(v.Body.List, fr)
			body = append(body, b...)
			if v.Post != nil {
				body = append(body, w.expr(v.Post)...)
			}
			items = append(items, crItem{kind: 2, loop: body})
		case *ast.RangeStmt:
			items = append(items, w.expr(v.X)...)
			b, _ := w.block(v.Body.List, fr)
			items = append(items, crItem{kind: 2, loop: b})
		default:
			items = append(items, w.expr(s)...)
		}
	}
	return items, false
}

// crSwitchToIf: `switch [tag] { case a, b: A; case c: C; default: D }` as an if / else-if chain (nil for an empty switch)
func crSwitchToIf(sw *ast.SwitchStmt) ast.Stmt {
	var clauses []*ast.CaseClause
	var def *ast.CaseClause
	for _, s := range sw.Body.List {
		cc, ok := s.(*ast.CaseClause)
		if !ok {
			continue
		}
		if cc.List == nil {
			def = cc
		} else {
			clauses = append(clauses, cc)
		}
	}
	var tail ast.Stmt
	if def != nil {
		tail = &ast.BlockStmt{List: crCaseBody(def.Body)}
	}
	for i := len(clauses) - 1; i >= 0; i-- {
		cc := clauses[i]
		var cond ast.Expr
		for _, e := range cc.List {
			c := e
			if sw.Tag != nil {
				c = &ast.BinaryExpr{X: sw.Tag, Op: token.EQL, Y: e}
			}
			if cond == nil {
				cond = c
			} else {
				cond = &ast.BinaryExpr{X: cond, Op: token.LOR, Y: c}
			}
		}
		tail = &ast.IfStmt{Cond: cond, Body: &ast.BlockStmt{List: crCaseBody(cc.Body)}, Else: tail}
	}
	return tail
}

// crCaseBody: a trailing `break` of a case body only ends the case
func crCaseBody(b []ast.Stmt) []ast.Stmt {
	if n := len(b); n > 0 {
		if br, ok := b[n-1].(*ast.BranchStmt); ok && br.Tok == token.BREAK && br.Label == nil {
			return b[:n-1]
		}
	}
	return b
}

// crConjuncts: the operands of a && b && c
func crConjuncts(e ast.Expr) []ast.Expr {
	e = crUnparen(e)
	if be, ok := e.(*ast.BinaryExpr); ok && be.Op == token.LAND {
		return append(crConjuncts(be.X), crConjuncts(be.Y)...)
	}
	return []ast.Expr{e}
}

func crIsNil(e ast.Expr) bool {
	id, ok := crUnparen(e).(*ast.Ident)
	return ok && id.Name == "nil" && id.Obj == nil
}

// crNilTest: cond has the conjunct `v <op> nil` (either side) for an identifier v; returns v's object
func crNilTest(cond ast.Expr, op token.Token) *ast.Ident {
	for _, c := range crConjuncts(cond) {
		be, ok := c.(*ast.BinaryExpr)
		if !ok || be.Op != op {
			continue
		}
		x, y := crUnparen(be.X), crUnparen(be.Y)
		if crIsNil(x) {
			x, y = y, x
		}
		if id, ok := x.(*ast.Ident); ok && crIsNil(y) {
			return id
		}
	}
	return nil
}

// crMentions: does n mention the variable id (same object; same name when the parser left it unresolved)?
func crMentions(n ast.Node, id *ast.Ident) bool {
	found := false
	ast.Inspect(n, func(x ast.Node) bool {
		if y, ok := x.(*ast.Ident); ok && y.Name == id.Name && y.Obj == id.Obj {
			found = true
		}
		return true
	})
	return found
}

// crFailureBranch: the block ends in a `return` that passes the tested error value on (explicitly, or as a named result)
func crFailureBranch(b *ast.BlockStmt, errVar *ast.Ident) bool {
	if b == nil || errVar == nil || len(b.List) == 0 {
		return false
	}
	ret, ok := b.List[len(b.List)-1].(*ast.ReturnStmt)
	if !ok {
		return false
	}
	for _, r := range ret.Results {
		if crMentions(r, errVar) {
			return true
		}
	}
	// a bare return hands a NAMED result back: `if err != nil { …; return }`
	if len(ret.Results) == 0 && errVar.Obj != nil {
		if _, named := errVar.Obj.Decl.(*ast.Field); named {
			return true
		}
	}
	return false
}

// ifStmt: returns the items, whether every path through them terminates, and whether the rest of the enclosing block
// has been consumed (it was appended to the branch that falls through)
func (w *crWalk) ifStmt(v *ast.IfStmt, rest []ast.Stmt, fr *crFrame) (items []crItem, term bool, consumed bool) {
	if v.Init != nil {
		items = append(items, w.expr(v.Init)...)
	}
	items = append(items, w.expr(v.Cond)...)
	elseStmts := func() []ast.Stmt {
		if v.Else == nil {
			return nil
		}
		return []ast.Stmt{v.Else}
	}
	// failure handlers are not part of the success path
	if crFailureBranch(v.Body, crNilTest(v.Cond, token.NEQ)) {
		it, t := w.block(elseStmts(), fr)
		return append(items, it...), t, false
	}
	if eb, ok := v.Else.(*ast.BlockStmt); ok && crFailureBranch(eb, crNilTest(v.Cond, token.EQL)) {
		it, t := w.block(v.Body.List, fr)
		return append(items, it...), t, false
	}
	thenTag, elseTag := w.tags(v.Cond)
	thenB, thenT := w.block(v.Body.List, fr)
	elseB, elseT := w.block(elseStmts(), fr)
	if thenTag != "" {
		thenB = append([]crItem{crAtom(thenTag)}, thenB...)
		elseB = append([]crItem{crAtom(elseTag)}, elseB...)
	}
	if thenT != elseT {
		// exactly one branch leaves: the statements after the if belong to the other one
		r, rt := w.block(rest, fr)
		if thenT {
			elseB = append(elseB, r...)
		} else {
			thenB = append(thenB, r...)
		}
		return append(items, crItem{kind: 1, alt: [][]crItem{thenB, elseB}}), rt, true
	}
	return append(items, crItem{kind: 1, alt: [][]crItem{thenB, elseB}}), thenT && elseT, false
}

// tags: the labels of the two sides of a recognised test
func (w *crWalk) tags(cond ast.Expr) (string, string) {
	cond = crUnparen(cond)
	switch w.mode {
	case crModeFS:
		if be, ok := cond.(*ast.BinaryExpr); ok {
			x, y, op := crUnparen(be.X), crUnparen(be.Y), be.Op
			if _, isLit := x.(*ast.BasicLit); isLit { // 0 < len(..)  ->  len(..) > 0
				x, y = y, x
				switch op {
				case token.LSS:
					op = token.GTR
				case token.GTR:
					op = token.LSS
				case token.LEQ:
					op = token.GEQ
				case token.GEQ:
					op = token.LEQ
				}
			}
			lit, isLit := y.(*ast.BasicLit)
			if ce, ok := x.(*ast.CallExpr); ok && isLit && lit.Kind == token.INT && len(ce.Args) == 1 && src(ce.Fun) == "len" && w.isBoxField(ce.Args[0], w.p.sliceField) {
				switch op.String() + lit.Value {
				case ">0", "!=0", ">=1":
					return "[nonempty]", "[empty]"
				case "==0", "<1", "<=0":
					return "[empty]", "[nonempty]"
				}
			}
		}
	case crModeLoad:
		if u, ok := cond.(*ast.UnaryExpr); ok && u.Op == token.NOT && w.isBoxField(u.X, w.p.boolField) {
			return "[unloaded]", "[loaded]"
		}
		if w.isBoxField(cond, w.p.boolField) {
			return "[loaded]", "[unloaded]"
		}
	}
	return "", ""
}

// isBoxField: e is `<something>.<field>` for the given (non-empty) field name
func (w *crWalk) isBoxField(e ast.Expr, field string) bool {
	se, ok := crUnparen(e).(*ast.SelectorExpr)
	return ok && field != "" && se.Sel.Name == field
}

// expr: the items of the calls inside n, arguments before the call (evaluation order), closures not entered
func (w *crWalk) expr(n ast.Node) []crItem {
	var items []crItem
	if n == nil {
		return items
	}
	ast.Inspect(n, func(x ast.Node) bool {
		switch v := x.(type) {
		case *ast.FuncLit:
			return false
		case *ast.CallExpr:
			if fl, ok := crUnparen(v.Fun).(*ast.FuncLit); ok { // func(){…}()
				for _, a := range v.Args {
					items = append(items, w.expr(a)...)
				}
				items = append(items, w.fn(fl.Body)...)
				return false
			}
			items = append(items, w.expr(v.Fun)...)
			for _, a := range v.Args {
				items = append(items, w.expr(a)...)
			}
			items = append(items, w.call(v, false)...)
			return false
		case *ast.SelectorExpr:
			if w.loadMode() && w.isBoxField(v, w.p.sliceField) {
				items = append(items, crAtom("M"))
			}
		}
		return true
	})
	return items
}

var crOsReadOnly = map[string]bool{"Stat": true, "Lstat": true, "Open": true, "IsNotExist": true, "IsExist": true, "IsPermission": true,
	"ReadDir": true, "ReadFile": true, "Getenv": true, "Getpid": true, "Getwd": true, "Hostname": true, "LookupEnv": true, "TempDir": true}

// call: the items of the call itself (its arguments are handled by expr); deferred = the call is the operand of defer / go
func (w *crWalk) call(ce *ast.CallExpr, deferred bool) []crItem {
	fun := crUnparen(ce.Fun)
	if fl, ok := fun.(*ast.FuncLit); ok {
		return w.fn(fl.Body)
	}
	arg := func(i int) string {
		if i < len(ce.Args) {
			return w.path(ce.Args[i])
		}
		return "?"
	}
	switch f := fun.(type) {
	case *ast.SelectorExpr:
		name := f.Sel.Name
		if id, ok := f.X.(*ast.Ident); ok && id.Obj == nil && w.p.imports[id.Name] {
			if !w.fsMode() {
				return nil
			}
			switch id.Name + "." + name {
			case "os.Create":
				return []crItem{crAtom("create(" + arg(0) + ")")}
			case "os.OpenFile":
				return []crItem{crAtom(w.openFile(ce))}
			case "os.Rename":
				return []crItem{crAtom("rename(" + arg(0) + "," + arg(1) + ")")}
			case "os.Remove":
				return []crItem{crAtom("unlink(" + arg(0) + ")")}
			case "os.RemoveAll":
				return []crItem{crAtom("removeall(" + arg(0) + ")")}
			case "os.MkdirAll", "os.Mkdir":
				return []crItem{crAtom("mkdirall(" + arg(0) + ")")}
			case "os.WriteFile", "ioutil.WriteFile":
				return []crItem{crAtom("writefile(" + arg(0) + ")")}
			case "io.Copy", "io.CopyBuffer", "io.CopyN":
				if len(ce.Args) > 0 {
					if k, p := w.handle(ce.Args[0]); k == "w" {
						return []crItem{crAtom("copy(" + p + ")")}
					}
				}
				return []crItem{crAtom("copy(?)")}
			}
			if id.Name == "os" && !crOsReadOnly[name] {
				return []crItem{crAtom("os." + name)}
			}
			return nil
		}
		// a method
		switch name {
		case "Lock", "RLock", "Unlock", "RUnlock":
			if w.fsMode() && w.locks && len(ce.Args) == 0 {
				return []crItem{crAtom(strings.ToLower(name))}
			}
			return nil
		case "Flush", "Close", "Sync", "Write", "WriteString", "Truncate":
			if len(w.p.funcs[name]) == 0 { // not a method of the package: a writer / file handle, or something foreign
				if k, p := w.handle(f.X); k == "w" && w.fsMode() {
					return []crItem{crAtom(strings.ToLower(name) + "(" + p + ")")}
				}
				return nil
			}
		}
		if w.mode == crModeScope && name == "Emit" {
			if inner, ok := crUnparen(f.X).(*ast.SelectorExpr); ok && inner.Sel.Name == "AfterMessageDeleted" {
				return []crItem{crAtom("E")}
			}
		}
		if fd := w.p.uniqueFunc(name, true); fd != nil {
			return w.inline(fd, ce)
		}
		return nil
	case *ast.Ident:
		if f.Name == "verifStep" && f.Obj == nil {
			if !w.fsMode() {
				return nil
			}
			if len(ce.Args) >= 1 {
				if lit, ok := ce.Args[0].(*ast.BasicLit); ok && lit.Kind == token.STRING {
					if s, err := strconv.Unquote(lit.Value); err == nil {
						return []crItem{crAtom("@" + s)}
					}
				}
			}
			return []crItem{crAtom("?hook")}
		}
		if f.Obj != nil && f.Obj.Kind != ast.Fun {
			return nil // a local function value, a conversion to a local type, …
		}
		if fd := w.p.uniqueFunc(f.Name, false); fd != nil {
			return w.inline(fd, ce)
		}
	}
	return nil
}

// openFile: os.OpenFile with O_CREATE|O_TRUNC and a write mode is a create; anything else keeps its flags
func (w *crWalk) openFile(ce *ast.CallExpr) string {
	if len(ce.Args) != 3 {
		return "?openfile"
	}
	flags := map[string]bool{}
	ok := true
	var collect func(e ast.Expr)
	collect = func(e ast.Expr) {
		e = crUnparen(e)
		if be, isBin := e.(*ast.BinaryExpr); isBin && be.Op == token.OR {
			collect(be.X)
			collect(be.Y)
			return
		}
		if se, isSel := e.(*ast.SelectorExpr); isSel {
			if id, isId := se.X.(*ast.Ident); isId && id.Name == "os" && id.Obj == nil {
				flags[se.Sel.Name] = true
				return
			}
		}
		ok = false
	}
	collect(ce.Args[1])
	p := w.path(ce.Args[0])
	if ok && flags["O_CREATE"] && flags["O_TRUNC"] && (flags["O_WRONLY"] || flags["O_RDWR"]) && !flags["O_APPEND"] && !flags["O_EXCL"] {
		return "create(" + p + ")"
	}
	names := []string{}
	for n := range flags {
		names = append(names, n)
	}
	sort.Strings(names)
	if !ok {
		names = append(names, "?")
	}
	return "openfile[" + strings.Join(names, "|") + "](" + p + ")"
}

func (w *crWalk) inline(fd *ast.FuncDecl, ce *ast.CallExpr) []crItem {
	if w.loadMode() && fd == w.loader {
		return []crItem{crAtom("L")}
	}
	if len(w.stack) > 10 {
		return []crItem{crAtom("?depth")}
	}
	for _, s := range w.stack {
		if s == fd {
			return []crItem{crAtom("?recursion")}
		}
	}
	// bind the parameters to the symbolic paths of the arguments
	saved := map[*ast.Object]string{}
	var bound []*ast.Object
	if fd.Type.Params != nil {
		k := 0
		for _, fl := range fd.Type.Params.List {
			for _, n := range fl.Names {
				if k < len(ce.Args) && n.Obj != nil {
					if _, variadic := fl.Type.(*ast.Ellipsis); !variadic {
						v := w.path(ce.Args[k])
						if old, ok := w.env[n.Obj]; ok {
							saved[n.Obj] = old
						}
						bound = append(bound, n.Obj)
						w.env[n.Obj] = v
					}
				}
				k++
			}
		}
	}
	w.stack = append(w.stack, fd)
	items := w.fn(fd.Body)
	w.stack = w.stack[:len(w.stack)-1]
	for _, o := range bound {
		if old, ok := saved[o]; ok {
			w.env[o] = old
		} else {
			delete(w.env, o)
		}
	}
	return items
}

// path: the symbolic value of a path expression ("?" parts where it cannot be told)
func (w *crWalk) path(e ast.Expr) string { return w.pathN(e, 0) }

func (w *crWalk) pathN(e ast.Expr, depth int) string {
	if depth > 12 {
		return "?"
	}
	e = crUnparen(e)
	switch v := e.(type) {
	case *ast.BasicLit:
		if v.Kind == token.STRING {
			if s, err := strconv.Unquote(v.Value); err == nil {
				return s
			}
		}
	case *ast.Ident:
		if v.Obj != nil {
			if s, ok := w.env[v.Obj]; ok {
				return s
			}
		}
		if d := w.p.defOf(v); d != ast.Expr(v) {
			if _, stillIdent := d.(*ast.Ident); !stillIdent {
				return w.pathN(d, depth+1)
			}
		}
	case *ast.BinaryExpr:
		if v.Op == token.ADD {
			return w.pathN(v.X, depth+1) + w.pathN(v.Y, depth+1)
		}
	case *ast.SelectorExpr:
		if r, ok := w.p.fieldRole[v.Sel.Name]; ok {
			return r
		}
		if ast.IsExported(v.Sel.Name) {
			return "<" + v.Sel.Name + ">"
		}
	case *ast.CallExpr:
		if w.p.isPkgCall(v, "filepath", "Join") || w.p.isPkgCall(v, "path", "Join") {
			parts := []string{}
			for _, a := range v.Args {
				parts = append(parts, w.pathN(a, depth+1))
			}
			return strings.Join(parts, "/")
		}
		if (w.p.isPkgCall(v, "filepath", "Dir") || w.p.isPkgCall(v, "path", "Dir")) && len(v.Args) == 1 {
			return "parent(" + w.pathN(v.Args[0], depth+1) + ")"
		}
		// a one-line helper of the package: `return <expr>`
		var fd *ast.FuncDecl
		switch f := crUnparen(v.Fun).(type) {
		case *ast.SelectorExpr:
			fd = w.p.uniqueFunc(f.Sel.Name, true)
		case *ast.Ident:
			fd = w.p.uniqueFunc(f.Name, false)
		}
		if fd != nil && len(fd.Body.List) == 1 {
			if ret, ok := fd.Body.List[0].(*ast.ReturnStmt); ok && len(ret.Results) == 1 {
				return w.pathN(ret.Results[0], depth+1)
			}
		}
	}
	return "?"
}

// handle: what an expression used as a writer / file is: ("w", path) for os.Create / os.OpenFile (also through
// bufio.NewWriter and friends), ("r", path) for os.Open, ("", "?") otherwise
func (w *crWalk) handle(e ast.Expr) (string, string) {
	for i := 0; i < 6; i++ {
		ce, ok := w.p.defOf(e).(*ast.CallExpr)
		if !ok {
			return "", "?"
		}
		switch {
		case w.p.isPkgCall(ce, "os", "Create") && len(ce.Args) == 1, w.p.isPkgCall(ce, "os", "OpenFile") && len(ce.Args) == 3:
			return "w", w.path(ce.Args[0])
		case w.p.isPkgCall(ce, "os", "Open") && len(ce.Args) == 1:
			return "r", w.path(ce.Args[0])
		case (w.p.isPkgCall(ce, "bufio", "NewWriter") || w.p.isPkgCall(ce, "bufio", "NewWriterSize")) && len(ce.Args) >= 1:
			e = ce.Args[0]
		default:
			return "", "?"
		}
	}
	return "", "?"
}

// ---- derived facts ------------------------------------------------------------------------------------------------

// crDirectly: the functions of the package whose own body (closures included, helpers not followed) calls <pkg>.<name>
func (p *crPkg) crDirectly(pkg, name string) []*ast.FuncDecl {
	var res []*ast.FuncDecl
	for _, f := range p.files {
		for _, d := range f.Decls {
			fd, ok := d.(*ast.FuncDecl)
			if !ok || fd.Body == nil {
				continue
			}
			for _, ce := range callsIn(fd.Body) {
				if p.isPkgCall(ce, pkg, name) {
					res = append(res, fd)
					break
				}
			}
		}
	}
	return res
}

func crIndexOf(l []string, s string) int {
	for i, x := range l {
		if x == s {
			return i
		}
	}
	return -1
}

// crIndexWriteKind: how the program of the index writer replaces dir/index.gob
//
//	"tmpRename": the only file it creates is dir/index.gob<suffix> (suffix not empty) and a later rename moves exactly
//	             that file onto dir/index.gob, with nothing but flush / close of that file and hooks in between
//	"inPlace":   it creates dir/index.gob itself and renames nothing
func crIndexWriteKind(prog []crItem) string {
	flat := crFlat(prog)
	var creates, renames []int
	for i, a := range flat {
		if strings.HasPrefix(a, "create(") || strings.HasPrefix(a, "openfile") || strings.HasPrefix(a, "writefile(") {
			creates = append(creates, i)
		}
		if strings.HasPrefix(a, "rename(") {
			renames = append(renames, i)
		}
	}
	if len(creates) != 1 {
		return "unknown"
	}
	c := flat[creates[0]]
	const idx = "dir/index.gob"
	switch {
	case c == "create("+idx+")" && len(renames) == 0:
		return "inPlace"
	case strings.HasPrefix(c, "create("+idx) && c != "create("+idx+")" && !strings.Contains(c, "?") && len(renames) == 1 && renames[0] > creates[0]:
		tmp := strings.TrimSuffix(strings.TrimPrefix(c, "create("), ")")
		if flat[renames[0]] != "rename("+tmp+","+idx+")" {
			return "unknown"
		}
		for _, a := range flat[creates[0]+1 : renames[0]] {
			if !strings.HasPrefix(a, "@") && a != "flush("+tmp+")" && a != "close("+tmp+")" && a != "write("+tmp+")" && a != "sync("+tmp+")" {
				return "unknown"
			}
		}
		return "tmpRename"
	}
	return "unknown"
}

// crRemoveDirKind: "indexFirst" = unlink(dir/index.gob) precedes the only removeall(dir); "removeAllFirst" = no unlink of
// the index before it
func crRemoveDirKind(prog []crItem) string {
	flat := crFlat(prog)
	n, first := 0, -1
	for i, a := range flat {
		if strings.HasPrefix(a, "removeall(") {
			n++
			if first < 0 {
				first = i
			}
		}
	}
	if n != 1 || flat[first] != "removeall(dir)" {
		return "unknown"
	}
	if i := crIndexOf(flat, "unlink(dir/index.gob)"); i >= 0 && i < first {
		return "indexFirst"
	}
	return "removeAllFirst"
}

// crHookPairs: every mutation atom of the program with the hook atom that stands immediately before it ("" when there
// is none), and every hook that is not followed by a mutation paired with ""
func crHookPairs(seq []crItem, acc map[[2]string]bool) {
	isOp := func(it crItem) bool {
		return it.kind == 0 && !crIsTag(it) && !strings.HasPrefix(it.atom, "@") &&
			it.atom != "lock" && it.atom != "rlock" && it.atom != "unlock" && it.atom != "runlock"
	}
	isHook := func(it crItem) bool { return it.kind == 0 && strings.HasPrefix(it.atom, "@") }
	for i, it := range seq {
		switch it.kind {
		case 0:
			if isOp(it) {
				h := ""
				if i > 0 && isHook(seq[i-1]) {
					h = seq[i-1].atom[1:]
				}
				acc[[2]string{h, it.atom}] = true
			}
			if isHook(it) && !(i+1 < len(seq) && isOp(seq[i+1])) {
				acc[[2]string{it.atom[1:], ""}] = true
			}
		case 1:
			for _, b := range it.alt {
				crHookPairs(b, acc)
			}
		case 2:
			crHookPairs(it.loop, acc)
		}
	}
}

// crFilePkg: the three files of the file store
func crFilePkg() *crPkg {
	return crLoadPkg(parse("pkg/storage/file/fstore.go"), parse("pkg/storage/file/mbox.go"), parse("pkg/storage/file/fmessage.go"))
}

// crOne: the program of the only function that directly calls <pkg>.<name> ("?" program when there is not exactly one)
func crOne(p *crPkg, pkg, name string) []crItem {
	fds := p.crDirectly(pkg, name)
	if len(fds) != 1 {
		return []crItem{crAtom("?" + pkg + "." + name)}
	}
	return (&crWalk{p: p, mode: crModeFS}).prog(fds[0])
}

// crIndexWriter: the function that writes the index: the only one that calls os.Rename, or — when nothing in the package
// renames — the only one whose own body creates dir/index.gob
func crIndexWriter(p *crPkg) *ast.FuncDecl {
	rn := p.crDirectly("os", "Rename")
	if len(rn) == 1 {
		return rn[0]
	}
	if len(rn) > 1 {
		return nil
	}
	var res *ast.FuncDecl
	for _, name := range []string{"Create", "OpenFile", "WriteFile"} {
		for _, fd := range p.crDirectly("os", name) {
			w := &crWalk{p: p, mode: crModeFS, env: map[*ast.Object]string{}}
			for _, ce := range callsIn(fd.Body) {
				if p.isPkgCall(ce, "os", name) && len(ce.Args) > 0 && w.path(ce.Args[0]) == "dir/index.gob" {
					if res != nil && res != fd {
						return nil
					}
					res = fd
				}
			}
		}
	}
	return res
}

// crProgTokens: the program as a list of tokens (Lean compares lists of short literals, it cannot compute with long strings)
func crProgTokens(prog []crItem) string { return strList(strings.Fields(crStr(prog))) }

func extractCrash() {
	g := gen("Crash")
	p := crFilePkg()

	// ---- how the index is replaced
	indexWrite := "unknown"
	if wi := crIndexWriter(p); wi != nil {
		indexWrite = crIndexWriteKind((&crWalk{p: p, mode: crModeFS}).prog(wi))
	}
	g.def("fileIndexWrite", "String", leanStr(indexWrite),
		"the function that writes the index (the one calling os.Rename, else the one creating dir/index.gob), helpers inlined: \"tmpRename\" = the only file it creates is dir/index.gob<suffix> (os.Create, or os.OpenFile with O_CREATE|O_TRUNC and a write mode) and os.Rename(<that file>, dir/index.gob) follows with only flush / close of that file in between; \"inPlace\" = it creates dir/index.gob itself and renames nothing")

	// ---- how a mailbox directory is removed: the program of the function that calls os.RemoveAll
	g.def("fileRemoveDir", "String", leanStr(crRemoveDirKind(crOne(p, "os", "RemoveAll"))),
		"the function that calls os.RemoveAll, helpers inlined: \"indexFirst\" = os.Remove(dir/index.gob) precedes the only os.RemoveAll(dir); \"removeAllFirst\" = no unlink of the index before it")

	// ---- the success-path programs of the mutating operations (exported methods of Store, everything inlined)
	progOf := func(name string) []crItem {
		return (&crWalk{p: p, mode: crModeFS, locks: true}).prog(p.method("Store", name))
	}
	note := " — success-path program, as tokens, with every package-local call inlined: atoms are file-system mutations op(path) (paths evaluated symbolically: dir, dir/index.gob, dir/<Fid>.raw, parent(dir) …), verif hooks @label and lock / unlock (a deferred call counts at the end of its function); ( a | b ) = alternatives of an if / switch, sorted, 0 = nothing; { a }* = loop; [empty] / [nonempty] = the side of a test of len(<message list>) against 0; failure handlers (`if e != nil { …; return …e… }`) are left out; ?… = not understood"
	g.def("fileAddProg", "List String", crProgTokens(progOf("AddMessage")), "(*Store).AddMessage"+note)
	g.def("fileRemoveMsgProg", "List String", crProgTokens(progOf("RemoveMessage")), "(*Store).RemoveMessage"+note)
	g.def("fileMarkSeenProg", "List String", crProgTokens(progOf("MarkSeen")), "(*Store).MarkSeen"+note)
	g.def("filePurgeProg", "List String", crProgTokens(progOf("PurgeMessages")), "(*Store).PurgeMessages"+note)

	// ---- hook sites: which hook announces which mutation
	acc := map[[2]string]bool{}
	for _, fd := range p.exportedMethods("Store") {
		crHookPairs((&crWalk{p: p, mode: crModeFS}).prog(fd), acc)
	}
	pairs := [][2]string{}
	for k := range acc {
		pairs = append(pairs, k)
	}
	sort.Slice(pairs, func(i, j int) bool {
		if pairs[i][0] != pairs[j][0] {
			return pairs[i][0] < pairs[j][0]
		}
		return pairs[i][1] < pairs[j][1]
	})
	ps := []string{}
	for _, k := range pairs {
		ps = append(ps, "("+leanStr(k[0])+", "+leanStr(k[1])+")")
	}
	g.def("fileHookSites", "List (String × String)", "["+strings.Join(ps, ", ")+"]",
		"over the programs of all exported Store methods: (hook label, mutation) for every mutation atom and the verifStep hook immediately before it (\"\" = no hook there; a hook not followed by a mutation is paired with \"\"), sorted, duplicates removed")
}
