package main

// T1 facts for C11 (crash safety of the file store): the shape of the two places where the order of
// file-system mutations decides whether a crash can be seen by a reader — how the index is replaced
// (writeIndex) and how a mailbox directory is removed (removeDir) — plus the order of the calls on the
// success path of AddMessage / removeMessage and the list of hook sites the T3 traces are made of.

import (
	"go/ast"
	"go/token"
	"strconv"
)

func init() { extractors = append(extractors, extractCrash) }

// callsIn: all call expressions inside n in source order
func callsIn(n ast.Node) []*ast.CallExpr {
	var res []*ast.CallExpr
	if n == nil || isNilNode(n) {
		return res
	}
	ast.Inspect(n, func(x ast.Node) bool {
		if ce, ok := x.(*ast.CallExpr); ok {
			res = append(res, ce)
		}
		return true
	})
	return res
}

// callWith: calls of `fun` whose arguments print exactly as args
func callWith(calls []*ast.CallExpr, fun string, args ...string) []*ast.CallExpr {
	var res []*ast.CallExpr
	for _, ce := range calls {
		if src(ce.Fun) != fun || len(ce.Args) != len(args) {
			continue
		}
		ok := true
		for i, a := range args {
			if src(ce.Args[i]) != a {
				ok = false
			}
		}
		if ok {
			res = append(res, ce)
		}
	}
	return res
}

// successPathCalls: the calls (printed callee in `want`) inside n in source order, leaving out everything in
// the BODY of an `if err != nil { … }` statement (its Init / Cond / Else still count).
func successPathCalls(n ast.Node, want map[string]bool) []string {
	res := []string{}
	if n == nil || isNilNode(n) {
		return res
	}
	var walk func(x ast.Node)
	walk = func(x ast.Node) {
		if x == nil {
			return
		}
		ast.Inspect(x, func(y ast.Node) bool {
			switch v := y.(type) {
			case *ast.IfStmt:
				if src(v.Cond) == "err != nil" {
					if v.Init != nil {
						walk(v.Init)
					}
					walk(v.Cond)
					if v.Else != nil {
						walk(v.Else)
					}
					return false
				}
			case *ast.FuncLit:
				return false // deferred / nested closures are not the straight-line path
			case *ast.CallExpr:
				// arguments first would be evaluation order; source order of the callee token is what we record
				if want[src(v.Fun)] {
					res = append(res, src(v.Fun))
				}
			}
			return true
		})
	}
	walk(n)
	return res
}

func extractCrash() {
	g := gen("Crash")
	fm := parse("pkg/storage/file/mbox.go")
	fs := parse("pkg/storage/file/fstore.go")

	// ---- writeIndex: through index.gob.tmp + rename, or in place
	indexWrite := "unknown"
	if wi := fn(fm, "mbox", "writeIndex"); wi != nil {
		calls := callsIn(wi.Body)
		inPlace := callWith(calls, "os.Create", "mb.indexPath")
		if len(inPlace) > 0 {
			indexWrite = "inPlace"
		} else {
			// variables defined as mb.indexPath + ".tmp"
			tmpVars := map[string]bool{}
			ast.Inspect(wi.Body, func(x ast.Node) bool {
				as, ok := x.(*ast.AssignStmt)
				if !ok || as.Tok != token.DEFINE || len(as.Lhs) != 1 || len(as.Rhs) != 1 {
					return true
				}
				id, ok := as.Lhs[0].(*ast.Ident)
				if !ok {
					return true
				}
				be, ok := as.Rhs[0].(*ast.BinaryExpr)
				if !ok || be.Op != token.ADD || src(be.X) != "mb.indexPath" {
					return true
				}
				if lit, ok := be.Y.(*ast.BasicLit); ok && lit.Kind == token.STRING {
					if s, err := strconv.Unquote(lit.Value); err == nil && s == ".tmp" {
						tmpVars[id.Name] = true
					}
				}
				return true
			})
			creates := []*ast.CallExpr{}
			for _, ce := range calls {
				if src(ce.Fun) == "os.Create" {
					creates = append(creates, ce)
				}
			}
			if len(creates) == 1 && len(creates[0].Args) == 1 {
				if id, ok := creates[0].Args[0].(*ast.Ident); ok && tmpVars[id.Name] {
					for _, rn := range callWith(calls, "os.Rename", id.Name, "mb.indexPath") {
						if rn.Pos() > creates[0].Pos() {
							indexWrite = "tmpRename"
						}
					}
				}
			}
		}
	}
	g.def("fileIndexWrite", "String", leanStr(indexWrite),
		"(*mbox).writeIndex: \"tmpRename\" = the only os.Create is of a variable defined as mb.indexPath + \".tmp\" and os.Rename(<it>, mb.indexPath) follows; \"inPlace\" = os.Create(mb.indexPath)")

	// ---- removeDir: index unlinked before RemoveAll, or RemoveAll first
	removeDir := "unknown"
	if rd := fn(fm, "mbox", "removeDir"); rd != nil {
		calls := callsIn(rd.Body)
		ra := callWith(calls, "os.RemoveAll", "mb.path")
		ri := callWith(calls, "os.Remove", "mb.indexPath")
		if len(ra) == 1 {
			removeDir = "removeAllFirst"
			for _, c := range ri {
				if c.Pos() < ra[0].Pos() {
					removeDir = "indexFirst"
				}
			}
		}
	}
	g.def("fileRemoveDir", "String", leanStr(removeDir),
		"(*mbox).removeDir: \"indexFirst\" = os.Remove(mb.indexPath) precedes os.RemoveAll(mb.path); \"removeAllFirst\" = no such call before it")

	// ---- order of the mutations on the success path
	addSet := map[string]bool{"mb.newMessage": true, "mb.createDir": true, "os.Create": true, "io.Copy": true, "w.Flush": true, "file.Close": true, "mb.writeIndex": true}
	addOrder := []string{}
	if am := fn(fs, "Store", "AddMessage"); am != nil {
		addOrder = successPathCalls(am.Body, addSet)
	}
	g.def("fileAddOrder", "List String", strList(addOrder),
		"(*Store).AddMessage: calls among newMessage/createDir/os.Create/io.Copy/w.Flush/file.Close/writeIndex in source order, outside the bodies of `if err != nil` blocks")

	rmSet := map[string]bool{"mb.writeIndex": true, "os.Remove": true}
	rmOrder := []string{}
	if rm := fn(fm, "mbox", "removeMessage"); rm != nil {
		rmOrder = successPathCalls(rm.Body, rmSet)
	}
	g.def("fileRemoveMsgOrder", "List String", strList(rmOrder),
		"(*mbox).removeMessage: calls among mb.writeIndex / os.Remove in source order on the success path (index first, then the raw file)")

	// ---- the hook sites (T3 traces are sequences of these)
	hooks := []string{}
	for _, f := range []*ast.File{fs, fm} {
		if f == nil {
			continue
		}
		for _, ce := range callsIn(f) {
			if src(ce.Fun) != "verifStep" || len(ce.Args) < 1 {
				continue
			}
			if lit, ok := ce.Args[0].(*ast.BasicLit); ok && lit.Kind == token.STRING {
				if s, err := strconv.Unquote(lit.Value); err == nil {
					hooks = append(hooks, s)
				}
			}
		}
	}
	g.def("fileHookSites", "List String", strList(hooks),
		"first arguments of the verifStep(...) calls in fstore.go, then mbox.go, in source order (one per file-system mutation)")
}
