package main

// C02 leg "content under eviction" (implementation only).  "Nothing lost, added, reordered or truncated … the reported size equals the length of
// the stored source" is a statement about every message a mailbox LISTS — also in a mailbox that is at its cap (1, 2, 3 …) or in a store at its
// byte limit, where each delivery makes older messages leave and the back-end deletes files / map entries around the new message.  After EVERY
// delivery every listed message of both real stores is read back through the store's own Source(), through GetMessage by id and through the
// manager's SourceReader: the bytes are those delivered under that id, the size is their length.
//   listed-content-reads-back     every listed message reads back the bytes it was delivered with (all three ways)
//   size-is-length                Size() of a listed message is the length of its source
//   newest-is-listed              the message just acknowledged is listed (eviction takes the oldest, never the new one)

import (
	"bytes"
	"fmt"
	"io"
	"os"
	"path/filepath"

	"github.com/inbucket/inbucket/v3/pkg/message"
	"github.com/inbucket/inbucket/v3/pkg/storage"

	"verif/harness/internal/core"
)

func init() {
	prev := extra["C02"]
	extra["C02"] = func(c *core.Ctx) {
		if prev != nil {
			prev(c)
		}
		c02Cap(c)
	}
}

func c02Cap(c *core.Ctx) {
	r := c.SubRng("c02-cap")
	n := c.Scale(60, 900)
	for idx := 0; idx < n; idx++ {
		kind := []string{"file", "mem"}[idx%2]
		cap := []int{1, 1, 2, 3, 5}[r.Intn(5)]
		maxkb := 0
		if kind == "mem" && r.Intn(3) == 0 {
			maxkb = 1 + r.Intn(3)
		}
		dir := filepath.Join(c.Workdir, fmt.Sprintf("c02-cap-%d-%d", c.Seed, idx))
		os.MkdirAll(dir, 0o755)
		be, err := newBackend(kind, cap, maxkb, dir)
		if err != nil {
			os.RemoveAll(dir)
			continue
		}
		mgr := &message.StoreManager{Store: be.st}
		c.H(fmt.Sprintf("cap-leg:%s:cap=%d:maxkb=%d", kind, cap, maxkb))
		trace := []string{fmt.Sprintf("# %s store, MailboxMsgCap=%d, maxkb=%d", kind, cap, maxkb)}
		boxes := []string{"solo", "other@example.com"}[:1+r.Intn(2)]
		body := map[string][]byte{} // box/id -> delivered bytes
		ok := true
		read := func(m storage.Message) ([]byte, error) {
			rd, err := m.Source()
			if err != nil {
				return nil, err
			}
			defer rd.Close()
			return io.ReadAll(rd)
		}
		for k, steps := 0, cap+2+r.Intn(6); k < steps && ok; k++ {
			box := boxes[r.Intn(len(boxes))]
			b := genBody(r, r.Intn(3) == 0)
			b = append([]byte(fmt.Sprintf("Subject: %s-%d\n\n", box, k)), b...)
			o := storeOp{kind: "add", box: box, body: b, from: "a@src.net", subj: fmt.Sprintf("%s-%d", box, k), date: 1700000000 + int64(k)}
			id, err := addRaw(be, o)
			trace = append(trace, fmt.Sprintf("AddMessage(%q, %d bytes) -> id=%s err=%v", box, len(b), id, err))
			if err != nil {
				if maxkb > 0 && len(b) > maxkb*1024 {
					continue
				}
				c.Fail("store-op-works", append([]string{}, trace...), err.Error(), "")
				ok = false
				break
			}
			body[box+"/"+id] = b
			for _, bx := range boxes {
				ms, err := be.st.GetMessages(bx)
				if err != nil {
					c.Fail("listed-content-reads-back", append([]string{}, trace...), fmt.Sprintf("GetMessages(%q): %v", bx, err), "")
					ok = false
					break
				}
				newest := false
				for _, m := range ms {
					want, known := body[bx+"/"+m.ID()]
					if bx == box && m.ID() == id {
						newest = true
					}
					c.Compared(3)
					if !known {
						c.Fail("listed-content-reads-back", append([]string{}, trace...), fmt.Sprintf("%q lists id %s which no delivery was given", bx, m.ID()), "")
						ok = false
						break
					}
					got, err := read(m)
					if err != nil || !bytes.Equal(got, want) {
						c.Fail("listed-content-reads-back", append([]string{}, trace...), fmt.Sprintf("%s store, mailbox %q: listed message %s reads back %d bytes (error %v), it was delivered with %d bytes%s", kind, bx, m.ID(), len(got), err, len(want), diffAt(got, want)), "")
						ok = false
						break
					}
					if m.Size() != int64(len(want)) {
						c.Fail("size-is-length", append([]string{}, trace...), fmt.Sprintf("%s store: message %s/%s reports size %d, its source has %d bytes", kind, bx, m.ID(), m.Size(), len(want)), "")
						ok = false
						break
					}
					g, err := be.st.GetMessage(bx, m.ID())
					var got2 []byte
					if err == nil && g != nil {
						got2, err = read(g)
					}
					if err != nil || g == nil || !bytes.Equal(got2, want) {
						c.Fail("listed-content-reads-back", append([]string{}, trace...), fmt.Sprintf("%s store: GetMessage(%q, %s) of a listed message: error %v, %d bytes, delivered %d", kind, bx, m.ID(), err, len(got2), len(want)), "")
						ok = false
						break
					}
					if rd, err := mgr.SourceReader(bx, m.ID()); err != nil {
						c.Fail("listed-content-reads-back", append([]string{}, trace...), fmt.Sprintf("%s store: StoreManager.SourceReader(%q, %s) of a listed message: %v", kind, bx, m.ID(), err), "")
						ok = false
						break
					} else {
						got3, _ := io.ReadAll(rd)
						rd.Close()
						if !bytes.Equal(got3, want) {
							c.Fail("listed-content-reads-back", append([]string{}, trace...), fmt.Sprintf("%s store: StoreManager.SourceReader(%q, %s) yields %d bytes, delivered %d%s", kind, bx, m.ID(), len(got3), len(want), diffAt(got3, want)), "")
							ok = false
							break
						}
					}
				}
				if !ok {
					break
				}
				if bx == box && !newest && (maxkb == 0 || len(b) <= maxkb*1024) { // a message larger than the whole byte limit cannot stay
					c.Fail("newest-is-listed", append([]string{}, trace...), fmt.Sprintf("%s store: the delivery just acknowledged with id %s is not listed in %q (%d listed)", kind, id, bx, len(ms)), "")
					ok = false
					break
				}
			}
		}
		c.Count(fmt.Sprintf("c02-cap %d %s cap=%d maxkb=%d", idx, kind, cap, maxkb), true)
		os.RemoveAll(dir)
		if !ok && c.Enough() {
			return
		}
	}
}

func diffAt(got, want []byte) string {
	n := len(got)
	if len(want) < n {
		n = len(want)
	}
	for i := 0; i < n; i++ {
		if got[i] != want[i] {
			return fmt.Sprintf(" (first difference at offset %d)", i)
		}
	}
	return ""
}
