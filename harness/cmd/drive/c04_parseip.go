package main

// C04 (and, cheaply, C05): T2 for Ibx/Model/ParseIP.lean — the Lean model of net.ParseIP against the REAL net.ParseIP of the
// Go toolchain this harness is built with (runtime.Version() is recorded in the evidence).  The theorems of
// Ibx/Props/C04ParseIP.lean (case-insensitivity, alphabet, the dotted-quad / "::" / length / zone characterisations and the
// C04 theorems instantiated with the model) are about the model; this leg is what ties the model to the function
// ValidateDomainPart actually calls.  Compared per string: nil / non-nil AND the 16 bytes.
//
//   (a) exhaustive: every string up to the tier's length over a class-representative alphabet
//       (digits 0 1 2 5 9, hex letters a f A F, the non-hex letter g, '.', ':', '%', ' ', '[', ']');
//       every string up to a larger length over {0 1 . :}; every sequence of up to nine tokens "1:" "::" "1" "1.1.1.1";
//       every dotted quad whose four fields come from a list of boundary spellings (0 … 255 256 … 00 01 001 0255 "" a);
//   (b) grammar: for every number of groups 0..9, every position of "::" (none, start, middle, end), an IPv4 tail in
//       every position, every group spelled in every boundary shape (1..5 hex digits, upper / lower, empty, non-hex),
//       a second "::" in every position, a zone, brackets, prefixes; plus random addresses (genIPString of c04x.go);
//   (c) byte mutations of the valid and near-valid strings of (b): delete / duplicate / replace / insert at every
//       position with every byte of a representative set, swap neighbours, truncate, re-case.
//
//   (d) (C04 only) the strings of (b), and single-byte mutations of some, as IP-literal domain parts "[s]" / "[IPv6:s]" /
//       "[ipv6:s]" behind mixed-case local parts: the REAL ValidateDomainPart / ParseEmailAddress / ExtractMailbox /
//       NewRecipient (three naming modes) against Model.Addr whose net.ParseIP is the model (ip=model), plus the C04
//       oracles (fixed point, by-address, re-casing, '+ext') on every one NewRecipient accepts.  This is the part that
//       sees a change of the REPOSITORY around IP literals (a zone let through, a literal lower-cased only sometimes).
//
// The implementation-only oracles parseip-case-insensitive and parseip-alphabet (c04x.go, checkParseIP) run on every
// string of (b) and (c) as well.

import (
	"fmt"
	"math/rand"
	"net"
	"runtime"
	"strings"
	"sync/atomic"

	"verif/harness/internal/core"
)

func init() {
	prev := extra["C05"]
	extra["C05"] = func(c *core.Ctx) {
		if prev != nil {
			prev(c)
		}
		c04ParseIPModel(c, false)
	}
}

type pipStats struct {
	cases, accepted atomic.Int64
}

// pipBatch compares a batch of strings; leg names the part for the histogram.
type pipBatch struct {
	c     *core.Ctx
	m     *core.Model
	leg   string
	st    *pipStats
	buf   []string
	near  bool // strings of this batch count as non-trivial even when rejected (grammar / mutation legs)
	oracl bool // also run the implementation-only oracles
}

func pipImpl(s string) string {
	ip := net.ParseIP(s)
	if ip == nil {
		return "0"
	}
	return "1" + core.Hex([]byte(ip.To16()))
}

func (b *pipBatch) add(s string) {
	b.buf = append(b.buf, s)
	if len(b.buf) >= 1000 {
		b.flush()
	}
}

func (b *pipBatch) flush() {
	if len(b.buf) == 0 {
		return
	}
	ans := b.m.Ask("parseips " + core.HexList(b.buf))
	outs := strings.Split(ans, ",")
	if len(outs) != len(b.buf) {
		b.c.Diverge("parseip", []string{"parseips (batch of " + fmt.Sprint(len(b.buf)) + ")", "first=" + fmt.Sprintf("%q", b.buf[0])},
			fmt.Sprintf("%d answers expected", len(b.buf)), ans[:min(len(ans), 200)])
		b.buf = b.buf[:0]
		return
	}
	acc := int64(0)
	for i, s := range b.buf {
		impl := pipImpl(s)
		if impl != outs[i] {
			b.c.Diverge("parseip", []string{"parseip " + core.HexS(s), "s=" + fmt.Sprintf("%q", s), "leg=" + b.leg, "go=" + runtime.Version()}, impl, outs[i])
		}
		ok := impl != "0"
		if ok {
			acc++
		}
		if b.oracl {
			checkParseIP(b.c, s)
		}
		b.c.Count("pip|"+s, ok || b.near)
	}
	b.c.Compared(len(b.buf))
	b.st.cases.Add(int64(len(b.buf)))
	b.st.accepted.Add(acc)
	b.buf = b.buf[:0]
}

// boundary spellings of one IPv4 field and of one IPv6 group
var pipV4Fields = []string{"0", "1", "9", "10", "99", "100", "199", "200", "249", "250", "255", "256", "260", "299", "300", "999", "1000",
	"00", "01", "001", "010", "0255", "", "a", "1a", " 1", "-1", "0x1"}
var pipV4Few = []string{"0", "7", "10", "255", "256", "00", "01", "", "a"}
var pipGroups = []string{"0", "1", "f", "F", "00", "a9", "Ff", "000", "abc", "ABC", "0000", "ffff", "FFFF", "1aB9", "00000", "10000", "fffff", "12345",
	"", "g", "fg", "G", " 1", "1 ", "0x1", "-1", "1.", ".1"}
var pipMutBytes = []byte{'0', '1', '9', 'a', 'f', 'F', 'g', 'G', '.', ':', '%', ' ', '[', ']', '/', '-', 0x00, 0x80, 0xc4}

// pipStructures: n groups, "::" at position e (-1 = none; 0..n), an IPv4 tail replacing group v (-1 = none), default group text g.
func pipStructure(groups []string, e int) string {
	if e < 0 {
		return strings.Join(groups, ":")
	}
	return strings.Join(groups[:e], ":") + "::" + strings.Join(groups[e:], ":")
}

func pipGrammar(visit func(string), r *rand.Rand, full bool) (bases []string) {
	base := func(s string) {
		bases = append(bases, s)
		visit(s)
	}
	dflt := []string{"1", "a", "FFFF", "0", "2b", "c3d", "9", "E"}
	for n := 0; n <= 10; n++ {
		groups := make([]string, n)
		for i := range groups {
			groups[i] = dflt[i%len(dflt)]
		}
		for e := -1; e <= n; e++ {
			base(pipStructure(groups, e))
			// an IPv4 address in every group position
			for v := 0; v < n; v++ {
				g2 := append([]string{}, groups...)
				for _, q := range []string{"1.2.3.4", "255.255.255.255", "0.0.0.0", "1.2.3", "1.2.3.4.5", "01.2.3.4", "1.2.3.256", "a.2.3.4", "1.2.3.a"} {
					g2[v] = q
					base(pipStructure(g2, e))
				}
			}
			// every group in every boundary spelling
			for v := 0; v < n; v++ {
				g2 := append([]string{}, groups...)
				for _, q := range pipGroups {
					g2[v] = q
					visit(pipStructure(g2, e))
				}
			}
			// a second "::" (or ":::") in every position; a zone; brackets; prefixes; trailing / leading colon
			s := pipStructure(groups, e)
			for k := 0; k <= len(s); k++ {
				visit(s[:k] + "::" + s[k:])
				visit(s[:k] + ":" + s[k:])
			}
			for _, z := range []string{"%eth0", "%", "%1", "%25", "%%"} {
				visit(s + z)
				visit(z + s)
				visit("::" + z)
				if len(s) > 2 {
					visit(s[:2] + z + s[2:])
				}
			}
			visit("[" + s + "]")
			visit("IPv6:" + s)
			visit(s + "/64")
			visit(" " + s)
			visit(s + " ")
			visit(s + "\n")
			visit(s + "\x00")
		}
	}
	// all groups at their longest: 39 bytes, with an IPv4 tail 45 bytes (the longest strings that parse), and one more
	long8 := "ffff:ffff:ffff:ffff:ffff:ffff:ffff:ffff"
	long6 := "ffff:ffff:ffff:ffff:ffff:ffff:255.255.255.255"
	for _, s := range []string{long8, long6, long8 + "f", long6 + "5", "0" + long8, "0" + long6, long6 + ".", "::" + long6[5:], "ffff::" + long6[10:], long8[:35] + ":",
		"::", ":", "", ".", "::.", "1.", ".1", "1.1", "1.1.1", "1.1.1.1.", ".1.1.1.1", "1..1.1", "1.1.1.1.1", "::1.1.1.1", "1::1.1.1.1", "::1.1.1.1:1", "1.1.1.1::", "1.1.1.1:1",
		"::ffff:1.2.3.4", "::FFFF:1.2.3.4", "0:0:0:0:0:ffff:1.2.3.4", "64:ff9b::1.2.3.4", "1:2:3:4:5:6:7::", "::2:3:4:5:6:7:8", "1::3:4:5:6:7:8", "1:2:3:4::5:6:7:8", "1:2:3:4:5:6:7::8",
		"::2:3:4:5:6:7:1.2.3.4", "::3:4:5:6:7:1.2.3.4", "1:2:3:4:5::1.2.3.4", "1:2:3:4:5:6::1.2.3.4", "1:2:3:4:5:6:7:1.2.3.4", "1:2:3:4:5:1.2.3.4", "::0255.1.1.1", "::12345.1.1.1", "::1a.1.1.1", "::a1.1.1.1", "::1.1.1.1a"} {
		base(s)
	}
	// random addresses (generator of the oracle leg): valid ones become bases for (c)
	n := 4000
	if full {
		n = 60000
	}
	for i := 0; i < n; i++ {
		s := genIPString(r)
		if i%16 == 0 || (net.ParseIP(s) != nil && i%4 == 0) {
			base(s)
		} else {
			visit(s)
		}
	}
	return bases
}

func pipMutations(visit func(string), s string, r *rand.Rand) {
	b := []byte(s)
	for k := 0; k <= len(b); k++ {
		for _, ch := range pipMutBytes {
			visit(string(b[:k]) + string([]byte{ch}) + string(b[k:])) // insert
			if k < len(b) && b[k] != ch {
				visit(string(b[:k]) + string([]byte{ch}) + string(b[k+1:])) // replace
			}
		}
		if k < len(b) {
			visit(string(b[:k]) + string(b[k+1:]))             // delete
			visit(string(b[:k+1]) + string(b[k:]))             // duplicate
			visit(string(b[:k]))                               // truncate
			visit(string(b[k:]))                               // drop the front
			if k+1 < len(b) {
				visit(string(b[:k]) + string([]byte{b[k+1], b[k]}) + string(b[k+2:])) // swap neighbours
			}
			if ('a' <= b[k] && b[k] <= 'z') || ('A' <= b[k] && b[k] <= 'Z') {
				visit(string(b[:k]) + string([]byte{b[k] ^ 0x20}) + string(b[k+1:])) // flip the case of one letter
			}
		}
	}
	visit(strings.ToUpper(s))
	visit(strings.ToLower(s))
	visit(recase(r, s))
}

// c04ParseIPModel: full = the C04 budget (by tier); otherwise a cheap pass (run under C05, whose SMTP legs use the same model).
func c04ParseIPModel(c *core.Ctx, full bool) {
	st := &pipStats{}
	var legCases [4]atomic.Int64
	newBatch := func(m *core.Model, leg string, near, oracl bool) *pipBatch {
		return &pipBatch{c: c, m: m, leg: leg, st: st, near: near, oracl: oracl}
	}
	// (a1) exhaustive over the class-representative alphabet
	alpha := []byte("01259afAFg.:% []")
	maxLen := 3
	if full {
		maxLen = c.Scale(5, 6)
	}
	workers := 16
	core.Parallel(len(alpha)*len(alpha)+1, workers, func(sh int) {
		m := c.NewModel()
		defer m.Close()
		b := newBatch(m, "enum", false, false)
		var rec func(p []byte)
		rec = func(p []byte) {
			b.add(string(p))
			legCases[0].Add(1)
			if len(p) >= maxLen {
				return
			}
			for _, ch := range alpha {
				rec(append(append([]byte{}, p...), ch))
			}
		}
		if sh == len(alpha)*len(alpha) { // the empty string and the one-byte strings
			b.add("")
			legCases[0].Add(1)
			for _, ch := range alpha {
				b.add(string([]byte{ch}))
				legCases[0].Add(1)
			}
		} else {
			rec([]byte{alpha[sh/len(alpha)], alpha[sh%len(alpha)]})
		}
		b.flush()
	})
	c.H(fmt.Sprintf("parseip-model-exhaustive-len<=%d-over-%d-bytes", maxLen, len(alpha)))
	// (a2) exhaustive over {0 1 . :} to a larger length
	alpha2 := []byte("01.:")
	maxLen2 := 7
	if full {
		maxLen2 = c.Scale(9, 12)
	}
	core.Parallel(len(alpha2)*len(alpha2), workers, func(sh int) {
		m := c.NewModel()
		defer m.Close()
		b := newBatch(m, "enum-01.:", false, false)
		var rec func(p []byte)
		rec = func(p []byte) {
			b.add(string(p))
			legCases[0].Add(1)
			if len(p) >= maxLen2 {
				return
			}
			for _, ch := range alpha2 {
				rec(append(append([]byte{}, p...), ch))
			}
		}
		rec([]byte{alpha2[sh/len(alpha2)], alpha2[sh%len(alpha2)]})
		b.flush()
	})
	c.H(fmt.Sprintf("parseip-model-exhaustive-len<=%d-over-0-1-dot-colon", maxLen2))
	// (a3) token sequences; (a4) dotted quads over the boundary fields
	tokens := []string{"1:", "::", "1", "1.1.1.1"}
	maxTok := 6
	if full {
		maxTok = c.Scale(9, 10)
	}
	core.Parallel(len(tokens), len(tokens), func(sh int) {
		m := c.NewModel()
		defer m.Close()
		b := newBatch(m, "enum-tokens", true, false)
		var rec func(p string, k int)
		rec = func(p string, k int) {
			b.add(p)
			legCases[0].Add(1)
			if k >= maxTok {
				return
			}
			for _, t := range tokens {
				rec(p+t, k+1)
			}
		}
		rec(tokens[sh], 1)
		b.flush()
	})
	c.H(fmt.Sprintf("parseip-model-exhaustive-tokens<=%d", maxTok))
	fields := pipV4Few
	if full {
		fields = pipV4Fields
	}
	core.Parallel(len(fields), workers, func(sh int) {
		m := c.NewModel()
		defer m.Close()
		b := newBatch(m, "enum-quads", true, true)
		for _, f2 := range fields {
			for _, f3 := range fields {
				for _, f4 := range fields {
					q := fields[sh] + "." + f2 + "." + f3 + "." + f4
					b.add(q)
					legCases[0].Add(1)
					if sh%4 == 0 && f2 == "1" {
						b.add("::" + q)
						b.add("1:2:3:4:5:6:" + q)
						legCases[0].Add(2)
					}
				}
			}
		}
		b.flush()
	})
	c.H(fmt.Sprintf("parseip-model-exhaustive-quads-over-%d-field-spellings", len(fields)))
	// (b) grammar
	var bases []string
	{
		m := c.NewModel()
		b := newBatch(m, "grammar", true, true)
		bases = pipGrammar(func(s string) { b.add(s); legCases[1].Add(1) }, c.SubRng("c04-parseip-grammar"), full)
		b.flush()
		m.Close()
	}
	// (c) mutations of the bases
	seen := map[string]bool{}
	uniq := []string{}
	for _, s := range bases {
		if !seen[s] && len(s) <= 64 {
			seen[s] = true
			uniq = append(uniq, s)
		}
	}
	nb := len(uniq)
	limit := 150
	if full {
		limit = c.Scale(1000, 12000)
	}
	if nb > limit {
		r := c.SubRng("c04-parseip-bases")
		r.Shuffle(nb, func(i, j int) { uniq[i], uniq[j] = uniq[j], uniq[i] })
		uniq = uniq[:limit]
	}
	core.Parallel(workers, workers, func(sh int) {
		m := c.NewModel()
		defer m.Close()
		b := newBatch(m, "mutation", false, true) // distinct non-trivial: only the mutants net.ParseIP accepts (millions of near misses otherwise)
		r := c.SubRng(fmt.Sprintf("c04-parseip-mut-%d", sh))
		for i := sh; i < len(uniq); i += workers {
			pipMutations(func(s string) { b.add(s); legCases[2].Add(1) }, uniq[i], r)
		}
		b.flush()
	})
	// (d) the strings of (b) as IP-literal domain parts through the REAL address functions
	if full {
		c04ParseIPLiterals(c, bases, &legCases[3])
	}
	c.Res.Hist["parseip-model-cases"] += st.cases.Load()
	c.Res.Hist["parseip-model-accepted-by-net.ParseIP"] += st.accepted.Load()
	c.Res.Hist["parseip-model-cases-exhaustive"] += legCases[0].Load()
	c.Res.Hist["parseip-model-cases-grammar"] += legCases[1].Load()
	c.Res.Hist["parseip-model-cases-mutation"] += legCases[2].Load()
	c.Res.Hist["parseip-literal-addresses"] += legCases[3].Load()
	c.H("parseip-model-toolchain-" + runtime.Version())
	c.Note("parseip model leg (Ibx/Model/ParseIP.lean vs the real net.ParseIP of %s, nil/non-nil and the 16 bytes): %d strings compared, %d accepted by net.ParseIP; exhaustive %d (len<=%d over %q, len<=%d over %q, <=%d tokens, quads over %d field spellings), grammar %d, mutations %d of %d bases; %d addresses with these strings as IP-literal domains through the real address functions",
		runtime.Version(), st.cases.Load(), st.accepted.Load(), legCases[0].Load(), maxLen, string(alpha), maxLen2, string(alpha2), maxTok, len(fields), legCases[1].Load(), legCases[2].Load(), len(uniq), legCases[3].Load())
	c.Sample(map[string]interface{}{"leg": "parseip-model", "go": runtime.Version(), "s": "1:2:3:4:5:6:1.2.3.4", "impl": pipImpl("1:2:3:4:5:6:1.2.3.4")})
}

// c04ParseIPLiterals: part (d).
func c04ParseIPLiterals(c *core.Ctx, bases []string, n *atomic.Int64) {
	seen := map[string]bool{}
	lits := []string{}
	for _, s := range bases {
		if !seen[s] && len(s) <= 64 && !strings.ContainsAny(s, "\x00\n") {
			seen[s] = true
			lits = append(lits, s)
		}
	}
	r0 := c.SubRng("c04-parseip-literals")
	r0.Shuffle(len(lits), func(i, j int) { lits[i], lits[j] = lits[j], lits[i] })
	// half of them strings net.ParseIP accepts (as far as there are that many), half near misses
	limit := c.Scale(4000, 60000)
	val, inv := []string{}, []string{}
	for _, s := range lits {
		if net.ParseIP(s) != nil {
			val = append(val, s)
		} else {
			inv = append(inv, s)
		}
	}
	if len(val) > limit/2 {
		val = val[:limit/2]
	}
	if len(inv) > limit-len(val) {
		inv = inv[:limit-len(val)]
	}
	lits = append(val, inv...)
	for _, z := range []string{"fe80::1%eth0", "FE80::1%ETH0", "::1%1", "::%x", "1.2.3.4%eth0", "ABCD::1.2.3.4", "abcd::EF:1.2.3.4", "::FFFF:1.2.3.4", "1:2:3:4:5:6:7:8", "A:B:C:D:E:F:1.2.3.4"} {
		lits = append(lits, z)
	}
	shards := 12
	core.Parallel(shards, shards, func(sh int) {
		m := c.NewModel()
		defer m.Close()
		r := c.SubRng(fmt.Sprintf("c04-parseip-lit-%d", sh))
		locals := []string{"u", "Joe", "First.Last+Tag", "\"a b\""}
		for i := sh; i < len(lits); i += shards {
			s := lits[i]
			if r.Intn(3) == 0 && len(s) > 0 { // one mutated byte
				k := r.Intn(len(s))
				s = s[:k] + string([]byte{pipMutBytes[r.Intn(len(pipMutBytes))]}) + s[k+1:]
				if strings.ContainsAny(s, "\x00") {
					s = lits[i]
				}
			}
			if r.Intn(2) == 0 {
				s = recase(r, s)
			}
			lp := locals[r.Intn(len(locals))]
			var as []string
			switch r.Intn(4) {
			case 0:
				as = []string{"[" + s + "]", lp + "@[" + s + "]"}
			case 1:
				as = []string{"[IPv6:" + s + "]", lp + "@[IPv6:" + s + "]"}
			case 2:
				as = []string{lp + "@[IPv6:" + s + "]", lp + "@[ipv6:" + s + "]"}
			default:
				as = []string{lp + "@[" + s + "]", strings.ToUpper(lp) + "@[IPv6:" + s + "]"}
			}
			for _, a := range as {
				ac := evalAddr(a)
				outs := m.AskAll(ac.lines)
				for k := range outs {
					if outs[k] != ac.impl[k] {
						c.Diverge("addr", []string{ac.lines[k], "address=" + fmt.Sprintf("%q", a), "leg=parseip-literals"}, ac.impl[k], outs[k])
					}
				}
				c.Compared(len(outs))
				acc := c04Oracles(c, r, a)
				c.Count("lit|"+a, true)
				n.Add(1)
				if acc {
					c.H("parseip-literal-accepted")
				} else {
					c.H("parseip-literal-rejected")
				}
			}
		}
	})
}
