package main

// C02 part (b): end to end on the real code.
//   One real stack per process (web.Router is a package global): extension host, memory store + file store behind a
//   routing store (mailbox "m…" -> memory, "f…" -> file), message.StoreManager, policy.Addressing, smtp.Server,
//   pop3.Server, REST + web-UI routes behind an httptest server.
//   Per case: a real SMTP session on a net.Pipe (HELO, MAIL, RCPT, DATA, <wire text>, QUIT in the same write), then
//     Store.GetMessages(mb)[0].Source()/Size(), GET /api/v1/mailbox/mb (size), GET /api/v1/mailbox/mb/id/source,
//     GET /serve/mailbox/mb/id/source, and real POP3 sessions (USER, PASS, STAT, LIST, RETR 1 | TOP 1 k, QUIT).
//   Model: `deliver` predicts the stored source, the unread rest and the size from the WIRE text; `pop3.send` / `pop3.top`
//     predict the raw multi-line responses from the stored source.
//   Oracles (implementation only): the source is the two trace lines + the body the client meant (LF-normalised);
//     REST = web = Source; POP3 RETR decoded by an RFC 1939 client = Source with CRLF line ends; every reported size =
//     len(Source); the command after the end-of-data line is answered (221).

import (
	"bufio"
	"bytes"
	"encoding/json"
	"fmt"
	"io"
	"math/rand"
	"os"
	"net"
	"net/http"
	"net/http/httptest"
	"net/textproto"
	"path/filepath"
	"strconv"
	"strings"
	"sync"
	"sync/atomic"
	"time"

	"github.com/inbucket/inbucket/v3/pkg/config"
	"github.com/inbucket/inbucket/v3/pkg/extension"
	"github.com/inbucket/inbucket/v3/pkg/message"
	"github.com/inbucket/inbucket/v3/pkg/msghub"
	"github.com/inbucket/inbucket/v3/pkg/policy"
	"github.com/inbucket/inbucket/v3/pkg/rest"
	"github.com/inbucket/inbucket/v3/pkg/server/pop3"
	"github.com/inbucket/inbucket/v3/pkg/server/smtp"
	"github.com/inbucket/inbucket/v3/pkg/server/web"
	"github.com/inbucket/inbucket/v3/pkg/storage"
	"github.com/inbucket/inbucket/v3/pkg/storage/file"
	"github.com/inbucket/inbucket/v3/pkg/storage/mem"
	"github.com/inbucket/inbucket/v3/pkg/webui"
	"github.com/rs/zerolog"

	"verif/harness/internal/core"
)

const (
	c02Domain  = "verif.local"
	c02Helo    = "c02.test"
	c02Sender  = "sender@origin.test"
	c02TimeFmt = "Mon, 02 Jan 2006 15:04:05 -0700 (MST)" // message.recvdTimeFmt (T1 pins the two format strings)
	c02TSLen   = 37                                       // rendered in UTC
)

// routeStore sends mailboxes starting with 'f' to the file store, everything else to the memory store.
type routeStore struct{ m, f storage.Store }

func (r *routeStore) pick(mb string) storage.Store {
	if strings.HasPrefix(mb, "f") {
		return r.f
	}
	return r.m
}
func (r *routeStore) AddMessage(m storage.Message) (string, error) { return r.pick(m.Mailbox()).AddMessage(m) }
func (r *routeStore) GetMessage(mb, id string) (storage.Message, error) {
	return r.pick(mb).GetMessage(mb, id)
}
func (r *routeStore) GetMessages(mb string) ([]storage.Message, error) { return r.pick(mb).GetMessages(mb) }
func (r *routeStore) MarkSeen(mb, id string) error                     { return r.pick(mb).MarkSeen(mb, id) }
func (r *routeStore) PurgeMessages(mb string) error                    { return r.pick(mb).PurgeMessages(mb) }
func (r *routeStore) RemoveMessage(mb, id string) error                { return r.pick(mb).RemoveMessage(mb, id) }
func (r *routeStore) VisitMailboxes(f func([]storage.Message) bool) error {
	if err := r.m.VisitMailboxes(f); err != nil {
		return err
	}
	return r.f.VisitMailboxes(f)
}

type c02Stack struct {
	store storage.Store
	smtp  *smtp.Server
	pop3  *pop3.Server
	smtpD *smtp.Server // the same servers with -netdebug (config Debug): the traffic dump must not change a stored or served byte
	pop3D *pop3.Server
	http  *httptest.Server
	sid   int64
}

func newC02Stack(workdir string) (*c02Stack, error) {
	zerolog.SetGlobalLevel(zerolog.Disabled)
	extHost := extension.NewHost()
	ms, err := mem.New(config.Storage{Type: "memory", MailboxMsgCap: 100}, extHost)
	if err != nil {
		return nil, err
	}
	fs, err := file.New(config.Storage{Type: "file", MailboxMsgCap: 100, Params: map[string]string{"path": filepath.Join(workdir, "c02-filestore")}}, extHost)
	if err != nil {
		return nil, err
	}
	store := &routeStore{m: ms, f: fs}
	conf := &config.Root{
		MailboxNaming: config.LocalNaming,
		SMTP: config.SMTP{Addr: "127.0.0.1:0", Domain: c02Domain, MaxRecipients: 10, MaxMessageBytes: 64 << 20,
			DefaultAccept: true, DefaultStore: true, Timeout: 120 * time.Second},
		POP3: config.POP3{Addr: "127.0.0.1:0", Domain: c02Domain, Timeout: 120 * time.Second},
		Web:  config.Web{Addr: "127.0.0.1:0", UIDir: filepath.Join(workdir, "no-ui"), MonitorHistory: 5},
	}
	addrPolicy := &policy.Addressing{Config: conf}
	manager := &message.StoreManager{AddrPolicy: addrPolicy, Store: store, ExtHost: extHost}
	st := &c02Stack{store: store}
	st.smtp = smtp.NewServer(conf.SMTP, manager, addrPolicy, extHost)
	st.pop3, err = pop3.NewServer(conf.POP3, store)
	if err != nil {
		return nil, err
	}
	dbgS, dbgP := conf.SMTP, conf.POP3
	dbgS.Debug, dbgP.Debug = true, true
	st.smtpD = smtp.NewServer(dbgS, manager, addrPolicy, extHost)
	if st.pop3D, err = pop3.NewServer(dbgP, store); err != nil {
		return nil, err
	}
	quietStdout.Do(func() { // the debug servers dump their traffic with fmt.Printf
		if f, err := os.OpenFile(os.DevNull, os.O_WRONLY, 0); err == nil {
			os.Stdout = f
		}
	})
	webui.SetupRoutes(web.Router.PathPrefix("/serve/").Subrouter())
	rest.SetupRoutes(web.Router.PathPrefix("/api/").Subrouter())
	web.NewServer(conf, manager, msghub.New(conf.Web.MonitorHistory, extHost))
	st.http = httptest.NewServer(web.Router)
	return st, nil
}

// dialogue: write `out` on a goroutine, read everything the peer sends until it closes; bounded by a deadline.
func pipeSession(run func(net.Conn), out []byte, limit time.Duration) ([]byte, error) {
	server, client := net.Pipe()
	done := make(chan struct{})
	go func() {
		defer close(done)
		defer func() { recover() }()
		run(server)
	}()
	_ = client.SetDeadline(time.Now().Add(limit))
	var werr error
	var wg sync.WaitGroup
	wg.Add(1)
	go func() {
		defer wg.Done()
		_, werr = client.Write(out)
	}()
	in, rerr := io.ReadAll(client)
	wg.Wait()
	client.Close()
	select {
	case <-done:
	case <-time.After(limit):
		return in, fmt.Errorf("session did not end")
	}
	_ = werr // the peer may end the session before everything was written (e.g. a QUIT inside the wire text)
	return in, rerr
}

type c02Case struct {
	kind string // "rfc" (refDataEncode of body), "dotwriter" (textproto.DotWriter of body), "wire" (raw)
	body []byte
	wire []byte // includes the end-of-data line
	mb   string
	tail string // sent right after the wire text: "QUIT\r\n" ("\r\nQUIT\r\n" after a raw wire text that may end inside a line)
	dbg  bool   // through the servers configured with Debug (-netdebug)
}

func (st *c02Stack) smtpSend(cs *c02Case) (replies []string, err error) {
	var out bytes.Buffer
	// ESMTP parameters a client may put on MAIL: whatever it declares about the body, the bytes it transmits are what is stored
	params := []string{"", "", " BODY=8BITMIME", " BODY=7BIT", " body=7bit", " SIZE=1 BODY=7BIT", " AUTH=<>", " BODY=BINARYMIME", " BODY=7BIT AUTH=<>"}[(len(cs.body)+len(cs.wire)+len(cs.mb))%9]
	fmt.Fprintf(&out, "HELO %s\r\nMAIL FROM:<%s>%s\r\nRCPT TO:<%s@%s>\r\nDATA\r\n", c02HeloFor(cs.mb), c02Sender, params, cs.mb, c02Domain)
	out.Write(cs.wire)
	out.WriteString(cs.tail)
	id := int(atomic.AddInt64(&st.sid, 1))
	srv := st.smtp
	if cs.dbg {
		srv = st.smtpD
	}
	in, err := pipeSession(func(c net.Conn) { srv.VerifC02Session(id, c) }, out.Bytes(), 30*time.Second)
	for _, l := range strings.Split(strings.TrimSuffix(string(in), "\r\n"), "\r\n") {
		replies = append(replies, l)
	}
	return replies, err
}

func (st *c02Stack) pop3Run(cmds string, dbg ...bool) ([]byte, error) {
	id := int(atomic.AddInt64(&st.sid, 1))
	srv := st.pop3
	if len(dbg) > 0 && dbg[0] {
		srv = st.pop3D
	}
	return pipeSession(func(c net.Conn) { srv.VerifC02Session(id, c) }, []byte(cmds), 30*time.Second)
}

func (st *c02Stack) httpGet(path string) (int, []byte, error) {
	resp, err := http.Get(st.http.URL + path)
	if err != nil {
		return 0, nil, err
	}
	defer resp.Body.Close()
	b, err := io.ReadAll(resp.Body)
	return resp.StatusCode, b, err
}

// cutLine removes one CRLF-terminated line from the front.
func cutLine(b []byte) (string, []byte, bool) {
	i := bytes.Index(b, []byte("\r\n"))
	if i < 0 {
		return "", b, false
	}
	return string(b[:i]), b[i+2:], true
}

// c02HeloFor: the HELO name used for a case, a function of the mailbox so that every part of the harness agrees; a third
// of the cases use a name long enough to push the trace headers well beyond 512 bytes.
func c02HeloFor(mb string) string {
	n := 0
	for _, ch := range []byte(mb) {
		n += int(ch)
	}
	if n%3 == 0 {
		return strings.Repeat("h", 560) + "." + c02Helo
	}
	return c02Helo
}

func tracePrefix(mb string) string {
	return fmt.Sprintf("Return-Path: <%s>\r\nReceived: from %s ([pipe]) by %s\r\n  for <%s>; ", c02Sender, c02HeloFor(mb), c02Domain, mb)
}

var c02Mask = bytes.Repeat([]byte("T"), c02TSLen)

// maskTS replaces the timestamp at its known position (offset off) by TTT…; false if it is not a timestamp there.
func maskTS(b []byte, off int) ([]byte, bool) {
	if len(b) < off+c02TSLen {
		return b, false
	}
	t, err := time.Parse(c02TimeFmt, string(b[off:off+c02TSLen]))
	if err != nil || time.Since(t) > 10*time.Minute || time.Until(t) > 10*time.Minute {
		return b, false
	}
	o := append([]byte{}, b...)
	copy(o[off:], c02Mask)
	return o, true
}

func (st *c02Stack) runCase(c *core.Ctx, m *core.Model, cs *c02Case, topN int) {
	cas := []string{"kind=" + cs.kind, "mailbox=" + cs.mb, "body=" + clip(fmt.Sprintf("%q", cs.body), 300), "wire=" + clip(fmt.Sprintf("%q", cs.wire), 300),
		fmt.Sprintf("len(body)=%d len(wire)=%d", len(cs.body), len(cs.wire))}
	fail := func(oracle, detail string) { c.Fail(oracle, cas, detail, "") }
	kv := fmt.Sprintf("from=%s mb=%s helo=%s host=%s dom=%s ts=%s", core.HexS(c02Sender), core.HexS(cs.mb), core.HexS(c02HeloFor(cs.mb)), core.HexS("pipe"),
		core.HexS(c02Domain), core.Hex(c02Mask))
	if cs.tail == "" {
		cs.tail = "QUIT\r\n"
	}
	pred := m.Ask("deliver " + core.Hex(append(append([]byte{}, cs.wire...), cs.tail...)) + " " + kv)
	if pred == "eof" {
		// the reader would run on into the QUIT: not a complete DATA phase (only possible for raw wire texts)
		c.H("e2e:skipped-unterminated")
		return
	}
	pf := strings.Fields(pred)
	if len(pf) != 4 || pf[0] != "ok" {
		c.Diverge("deliver", cas, "-", clip(pred, 200))
		return
	}
	replies, err := st.smtpSend(cs)
	if err != nil {
		fail("smtp-session", fmt.Sprintf("%v; replies %q", err, replies))
		return
	}
	// 220, 250 (HELO), 250 (MAIL), 250 (RCPT), 354, 250 (data), then the answers to whatever followed the end-of-data line
	if len(replies) >= 6 && strings.HasPrefix(replies[5], "451") {
		// Deliver could not parse a header block (enmime.DecodeHeaders): refused, and then nothing may be stored
		c.H("e2e:refused-451-unparseable-header")
		if msgs, _ := st.store.GetMessages(cs.mb); len(msgs) != 0 {
			fail("refused-but-stored", fmt.Sprintf("451 after DATA, yet %d message(s) stored", len(msgs)))
		}
		return
	}
	if len(replies) < 6 || !strings.HasPrefix(replies[4], "354") || !strings.HasPrefix(replies[5], "250") {
		fail("smtp-accepts", fmt.Sprintf("replies %q", replies))
		return
	}
	after := []string{}
	for _, r := range replies[6:] {
		after = append(after, r[:3])
	}
	// model: the unread rest is fed to the command loop; we only predict it when it is exactly the QUIT we appended
	if core.UnHex(pf[2]) == "QUIT\r\n" {
		c.Compared(1)
		if strings.Join(after, ",") != "221" {
			c.Diverge("rest-is-next-command", cas, strings.Join(after, ","), "221")
		}
		if cs.kind != "wire" && strings.Join(after, ",") != "221" {
			fail("next-command-intact", fmt.Sprintf("after the end-of-data line the session answered %q, not exactly 221 to QUIT", replies[6:]))
		}
	} else if core.UnHex(pf[2]) == "\r\nQUIT\r\n" {
		c.Compared(1)
		if strings.Join(after, ",") != "500,221" {
			c.Diverge("rest-is-next-command", cas, strings.Join(after, ","), "500,221")
		}
	} else {
		c.H("e2e:rest-has-extra-lines")
	}
	msgs, err := st.store.GetMessages(cs.mb)
	if err != nil || len(msgs) != 1 {
		fail("stored-once", fmt.Sprintf("GetMessages: %d messages, err %v", len(msgs), err))
		return
	}
	msg := msgs[0]
	rc, err := msg.Source()
	if err != nil {
		fail("store-source", err.Error())
		return
	}
	src, err := io.ReadAll(rc)
	rc.Close()
	if err != nil {
		fail("store-source", err.Error())
		return
	}
	prefix := tracePrefix(cs.mb)
	if !bytes.HasPrefix(src, []byte(prefix)) {
		fail("trace-lines", "source does not start with "+fmt.Sprintf("%q", prefix)+": "+clip(fmt.Sprintf("%q", src), 300))
		return
	}
	msrc, ok := maskTS(src, len(prefix))
	if !ok {
		fail("trace-lines", "no current timestamp at its position: "+clip(fmt.Sprintf("%q", src), 300))
		return
	}
	traceLen := len(prefix) + c02TSLen + 2
	// T2: stored source and size as the model predicts from the wire text
	c.Compared(2)
	if core.Hex(msrc) != pf[1] {
		c.Diverge("stored-source", cas, clip(fmt.Sprintf("%q", msrc), 600), clip(fmt.Sprintf("%q", core.UnHex(pf[1])), 600))
	}
	if strconv.FormatInt(msg.Size(), 10) != pf[3] {
		c.Diverge("stored-size", cas, strconv.FormatInt(msg.Size(), 10), pf[3])
	}
	// oracle: two trace lines, then exactly the body the client meant
	if len(src) < traceLen || string(src[traceLen-2:traceLen]) != "\r\n" {
		fail("trace-lines", "trace lines not terminated where expected")
		return
	}
	if cs.kind == "rfc" {
		if want := refLFNorm(cs.body); !bytes.Equal(src[traceLen:], want) {
			fail("content-survives", fmt.Sprintf("stored body %s, want %s", clip(fmt.Sprintf("%q", src[traceLen:]), 300), clip(fmt.Sprintf("%q", want), 300)))
		}
	}
	if msg.Size() != int64(len(src)) {
		fail("size-is-length", fmt.Sprintf("Size() = %d, len(Source()) = %d", msg.Size(), len(src)))
	}
	// REST
	code, lst, err := st.httpGet("/api/v1/mailbox/" + cs.mb)
	var hdrs []struct {
		ID   string `json:"id"`
		Size int64  `json:"size"`
	}
	if err != nil || code != 200 || json.Unmarshal(lst, &hdrs) != nil || len(hdrs) != 1 {
		fail("rest-list", fmt.Sprintf("status %d err %v body %s", code, err, clip(string(lst), 200)))
		return
	}
	if hdrs[0].Size != int64(len(src)) {
		fail("size-is-length", fmt.Sprintf("REST list size = %d, len(Source()) = %d", hdrs[0].Size, len(src)))
	}
	id := hdrs[0].ID
	code, rsrc, err := st.httpGet("/api/v1/mailbox/" + cs.mb + "/" + id + "/source")
	if err != nil || code != 200 {
		fail("rest-source", fmt.Sprintf("status %d err %v", code, err))
	} else if !bytes.Equal(rsrc, src) {
		fail("interfaces-agree", fmt.Sprintf("REST source (%d bytes) differs from Store source (%d bytes): %s", len(rsrc), len(src), clip(fmt.Sprintf("%q", rsrc), 300)))
	}
	code, wsrc, err := st.httpGet("/serve/mailbox/" + cs.mb + "/" + id + "/source")
	if err != nil || code != 200 {
		fail("web-source", fmt.Sprintf("status %d err %v", code, err))
	} else if !bytes.Equal(wsrc, src) {
		fail("interfaces-agree", fmt.Sprintf("web-UI source (%d bytes) differs from Store source (%d bytes): %s", len(wsrc), len(src), clip(fmt.Sprintf("%q", wsrc), 300)))
	}
	c.Compared(2)
	if core.Hex(rsrc) != core.Hex(src) || core.Hex(wsrc) != core.Hex(src) { // model: identity
		c.Diverge("http-source-identity", cas, fmt.Sprintf("rest %d web %d bytes", len(rsrc), len(wsrc)), fmt.Sprintf("%d bytes (the source)", len(src)))
	}
	// POP3: STAT, LIST, RETR
	raw, err := st.pop3Run("USER "+cs.mb+"\r\nPASS x\r\nSTAT\r\nLIST\r\nLIST 1\r\nRETR 1\r\nQUIT\r\n", cs.dbg)
	if err != nil {
		fail("pop3-session", err.Error())
		return
	}
	quitLine := "+OK We will process your deletes\r\n"
	want := []string{"+OK Inbucket POP3", "+OK Hello", "+OK Found 1 messages", fmt.Sprintf("+OK 1 %d", len(src)), "+OK Listing 1 messages", fmt.Sprintf("1 %d", len(src)), ".",
		fmt.Sprintf("+OK 1 %d", len(src)), fmt.Sprintf("+OK %d bytes follows", len(src))}
	rest := raw
	for i, w := range want {
		var l string
		l, rest, ok = cutLine(rest)
		if !ok || !(l == w || (i < 3 && strings.HasPrefix(l, w))) {
			orc := "pop3-dialogue"
			if i >= 3 {
				orc = "size-is-length"
			}
			fail(orc, fmt.Sprintf("POP3 line %d is %q, want %q (len(Source()) = %d)", i, l, w, len(src)))
			return
		}
	}
	if !bytes.HasSuffix(rest, []byte(quitLine)) {
		fail("pop3-dialogue", "no QUIT answer at the end: "+clip(fmt.Sprintf("%q", rest), 300))
		return
	}
	retr := rest[:len(rest)-len(quitLine)]
	dec, after2, ok := refPop3Decode(retr)
	if !ok || len(after2) != 0 {
		fail("pop3-framing", fmt.Sprintf("RETR response is not one well-terminated multi-line response (ok=%v, %d bytes after the terminator): %s", ok, len(after2), clip(fmt.Sprintf("%q", retr), 300)))
	} else if !bytes.Equal(dec, refCRLF(src)) {
		fail("interfaces-agree", fmt.Sprintf("POP3 RETR decodes to %d bytes, Source with CRLF line ends is %d bytes: %s", len(dec), len(refCRLF(src)), clip(fmt.Sprintf("%q", dec), 300)))
	}
	mretr, _ := maskTS(retr, len(prefix))
	c.Compared(1)
	if got := m.Ask(fmt.Sprintf("pop3.send %s size=%d", core.Hex(msrc), msg.Size())); got != core.Hex(mretr) {
		c.Diverge("pop3-retr", cas, clip(fmt.Sprintf("%q", mretr), 600), clip(fmt.Sprintf("%q", core.UnHex(got)), 600))
	}
	// TOP
	raw, err = st.pop3Run(fmt.Sprintf("USER %s\r\nPASS x\r\nTOP 1 %d\r\nQUIT\r\n", cs.mb, topN), cs.dbg)
	if err != nil {
		fail("pop3-session", err.Error())
		return
	}
	rest = raw
	for i := 0; i < 4; i++ {
		_, rest, _ = cutLine(rest)
	}
	if !bytes.HasSuffix(rest, []byte(quitLine)) {
		fail("pop3-dialogue", "TOP: no QUIT answer at the end")
		return
	}
	top, _ := maskTS(rest[:len(rest)-len(quitLine)], len(prefix))
	c.Compared(1)
	if got := m.Ask(fmt.Sprintf("pop3.top %s %d", core.Hex(msrc), topN)); got != core.Hex(top) {
		c.Diverge("pop3-top", cas, clip(fmt.Sprintf("%q", top), 600), clip(fmt.Sprintf("%q", core.UnHex(got)), 600))
	}
	if tdec, tafter, ok := refPop3Decode(top); !ok || len(tafter) != 0 || !bytes.HasPrefix(refCRLF(msrc), tdec) {
		fail("pop3-top-prefix", fmt.Sprintf("TOP 1 %d is not a well-terminated prefix of the message: %s", topN, clip(fmt.Sprintf("%q", top), 300)))
	}
	_ = st.store.PurgeMessages(cs.mb)
}

// twoRecipients: one transaction, two mailboxes (one per back-end): both copies are the whole message (only the Received trace line, which
// names the mailbox, differs).
func (st *c02Stack) twoRecipients(c *core.Ctx, r *rand.Rand, idx int) {
	body := c02GenBody(r, 8192)
	mbs := []string{fmt.Sprintf("mc02two%da", idx), fmt.Sprintf("fc02two%db", idx)}
	if r.Intn(2) == 0 {
		mbs[0], mbs[1] = mbs[1], mbs[0]
	}
	var out bytes.Buffer
	fmt.Fprintf(&out, "HELO %s\r\nMAIL FROM:<%s>\r\nRCPT TO:<%s@%s>\r\nRCPT TO:<%s@%s>\r\nDATA\r\n", "two.test", c02Sender, mbs[0], c02Domain, mbs[1], c02Domain)
	out.Write(refDataEncode(body))
	out.WriteString("QUIT\r\n")
	id := int(atomic.AddInt64(&st.sid, 1))
	in, err := pipeSession(func(cn net.Conn) { st.smtp.VerifC02Session(id, cn) }, out.Bytes(), 30*time.Second)
	cas := []string{"one transaction to two mailboxes: " + mbs[0] + ", " + mbs[1], "body=" + clip(fmt.Sprintf("%q", body), 300)}
	replies := strings.Split(strings.TrimSuffix(string(in), "\r\n"), "\r\n")
	if err != nil || len(replies) < 7 {
		c.Fail("smtp-session", cas, fmt.Sprintf("%v; replies %q", err, replies), "")
		return
	}
	if strings.HasPrefix(replies[6], "451") {
		c.H("e2e:refused-451-unparseable-header")
		return
	}
	if !strings.HasPrefix(replies[6], "250") {
		c.Fail("smtp-accepts", cas, fmt.Sprintf("replies %q", replies), "")
		return
	}
	want := refLFNorm(body)
	for _, mb := range mbs {
		msgs, err := st.store.GetMessages(mb)
		if err != nil || len(msgs) != 1 {
			c.Fail("stored-once", append(cas, "mailbox="+mb), fmt.Sprintf("GetMessages: %d messages, err %v", len(msgs), err), "")
			continue
		}
		rc, err := msgs[0].Source()
		if err != nil {
			c.Fail("store-source", append(cas, "mailbox="+mb), err.Error(), "")
			continue
		}
		src, _ := io.ReadAll(rc)
		rc.Close()
		c.Compared(1)
		if !bytes.HasSuffix(src, want) || len(src) < len(want)+40 {
			c.Fail("content-survives", append(cas, "mailbox="+mb), fmt.Sprintf("the copy in %q (%d bytes) does not end with the %d-byte message that was sent: %s", mb, len(src), len(want), clip(fmt.Sprintf("%q", src), 300)), "")
		}
		if msgs[0].Size() != int64(len(src)) {
			c.Fail("size-is-length", append(cas, "mailbox="+mb), fmt.Sprintf("Size() = %d, len(Source()) = %d", msgs[0].Size(), len(src)), "")
		}
		_ = st.store.PurgeMessages(mb)
	}
	c.H("e2e:two-recipients")
	c.Count("two|"+string(body), true)
}

// ---------- body generators ----------

var c02BodyFrags = []string{".", "..", "...", ".a", "a.", " .", "a", "Subject: test", "From: x@y.z", "", "", "\x00", "\x00\x01", "\x80\xfe\xff", "caf\xc3\xa9", "\r", "a\rb",
	"\r\r", ".\r", "x\r", "\t", "QUIT", "-ERR", "+OK", "line with words", ". .", ".QUIT"}

// c02GenBody: 4 of 5 bodies start with a small well-formed header block (Deliver refuses what enmime.DecodeHeaders cannot
// parse — 451, nothing stored); the rest of the text is arbitrary.
func c02GenBody(r *rand.Rand, maxBytes int) []byte {
	var b bytes.Buffer
	eolMode := r.Intn(4) // 0 CRLF, 1 LF, 2 mixed, 3 mixed incl. CR CR LF
	if r.Intn(5) != 0 {
		eol := []string{"\r\n", "\n"}[r.Intn(2)]
		b.WriteString("Subject: c02" + eol)
		if r.Intn(2) == 0 {
			b.WriteString("From: a@b.test" + eol + "X-Dots: ..." + eol)
		}
		b.WriteString(eol)
	}
	nl := r.Intn(12)
	if r.Intn(6) == 0 {
		nl = r.Intn(200)
	}
	for i := 0; i < nl && b.Len() < maxBytes; i++ {
		k := r.Intn(4)
		for j := 0; j < k; j++ {
			switch r.Intn(10) {
			case 0:
				b.WriteByte(byte(r.Intn(256)))
			case 1:
				n := r.Intn(300)
				if r.Intn(20) == 0 {
					n = r.Intn(maxBytes/2 + 1)
				}
				for q := 0; q < n; q++ {
					b.WriteByte(byte('a' + q%26))
				}
			default:
				b.WriteString(c02BodyFrags[r.Intn(len(c02BodyFrags))])
			}
		}
		last := i == nl-1
		if last && r.Intn(3) == 0 {
			break // no final newline
		}
		switch eolMode {
		case 0:
			b.WriteString("\r\n")
		case 1:
			b.WriteString("\n")
		case 2:
			b.WriteString([]string{"\r\n", "\n"}[r.Intn(2)])
		default:
			b.WriteString([]string{"\r\n", "\n", "\r\r\n", "\n\n", "\n."}[r.Intn(5)])
		}
	}
	o := b.Bytes()
	if len(o) > maxBytes {
		o = o[:maxBytes]
	}
	return o
}

// genLongLineBody: lines around the old 64 KiB scanner limit (F-02) and beyond.
func genLongLineBody(r *rand.Rand, big bool, dotEvery int) []byte {
	var b bytes.Buffer
	b.WriteString("Subject: long\r\n\r\n")
	n := 1 + r.Intn(2)
	for i := 0; i < n; i++ {
		ln := 65536 + r.Intn(5) - 2 - []int{0, 0, 1, 17, 18}[r.Intn(5)]
		if big {
			ln = 200000 + r.Intn(1<<20)
		}
		if r.Intn(3) == 0 {
			b.WriteByte('.')
		}
		// dotEvery > 0: a dot wherever a reader that takes the line in pieces of that size would start a piece
		off := b.Len()
		for q := 0; q < ln; q++ {
			if dotEvery > 0 && (b.Len()-off)%dotEvery == 0 {
				b.WriteByte('.')
			} else {
				b.WriteByte(byte('A' + q%26))
			}
		}
		b.WriteString([]string{"\r\n", "\n", ""}[r.Intn(3)])
		b.WriteString("tail\r\n")
	}
	return b.Bytes()
}

func dotWriterEncode(body []byte) []byte {
	var buf bytes.Buffer
	w := textproto.NewWriter(bufio.NewWriter(&buf))
	d := w.DotWriter()
	d.Write(body)
	d.Close()
	return buf.Bytes()
}

func c02NonTrivial(b []byte) bool {
	if len(b) == 0 || b[0] == '.' || b[len(b)-1] != '\n' {
		return true
	}
	for i, ch := range b {
		if ch == 0 || ch >= 0x80 || (ch == '\r' && (i+1 >= len(b) || b[i+1] != '\n')) || (ch == '\n' && (i == 0 || b[i-1] != '\r')) ||
			(ch == '.' && i > 0 && b[i-1] == '\n') || (ch == '\n' && i > 0 && b[i-1] == '\n') {
			return true
		}
	}
	return false
}

func runC02EndToEnd(c *core.Ctx) {
	st, err := newC02Stack(c.Workdir)
	if err != nil {
		c.Diverge("e2e-setup", nil, err.Error(), "-")
		return
	}
	defer st.http.Close()
	n := c.Scale(1800, 30000)
	shards := 12
	core.Parallel(shards, shards, func(sh int) {
		m := c.NewModel("dot")
		defer m.Close()
		r := c.SubRng(fmt.Sprintf("c02-e2e-%d", sh))
		for i := 0; i < n/shards; i++ {
			cs := &c02Case{mb: fmt.Sprintf("%sc02s%dn%d", []string{"m", "f"}[i%2], sh, i)}
			switch {
			case i%10 == 7:
				cs.kind = "dotwriter"
				cs.body = c02GenBody(r, 65536)
				cs.wire = dotWriterEncode(cs.body)
			case i%10 == 9:
				cs.kind = "wire"
				w := genWire(r)
				if r.Intn(5) != 0 {
					w = append([]byte("Subject: w\r\n\r\n"), w...)
				}
				cs.wire = w
				cs.body = nil
				cs.tail = "\r\nQUIT\r\n"
			default:
				cs.kind = "rfc"
				cs.body = c02GenBody(r, 65536)
				cs.wire = refDataEncode(cs.body)
			}
			cs.dbg = r.Intn(5) == 0
			if cs.dbg {
				c.H("e2e:netdebug-servers")
			}
			st.runCase(c, m, cs, r.Intn(4))
			c.Count("e|"+cs.kind+"|"+string(cs.body)+"|"+string(cs.wire), cs.kind != "rfc" || c02NonTrivial(cs.body))
			c.H("e2e:" + cs.kind)
			if sh == 0 && i < 4 {
				c.Sample(map[string]interface{}{"kind": cs.kind, "body": clip(fmt.Sprintf("%q", cs.body), 160), "wire": clip(fmt.Sprintf("%q", cs.wire), 160)})
			}
		}
	})
	st.concurrentReaders(c)
	rt := c.SubRng("c02-two")
	for i, n := 0, c.Scale(60, 1500); i < n; i++ {
		st.twoRecipients(c, rt, i)
	}
	// long lines: around 64 KiB always; up to MiB lines in the thorough tier
	nl := c.Scale(8, 40)
	core.Parallel(4, 4, func(sh int) {
		m := c.NewModel("dot")
		defer m.Close()
		r := c.SubRng(fmt.Sprintf("c02-long-%d", sh))
		for i := 0; i < nl/4; i++ {
			big := c.Thorough() && i%5 == 4
			cs := &c02Case{kind: "rfc", mb: fmt.Sprintf("%sc02long%dn%d", []string{"m", "f"}[i%2], sh, i)}
			cs.body = genLongLineBody(r, big, []int{0, 4096, 0, 65536, 1024, 0, 4096, 512}[i%8])
			cs.wire = refDataEncode(cs.body)
			st.runCase(c, m, cs, 1+r.Intn(3))
			c.Count("l|"+string(cs.body), true)
			if big {
				c.H("e2e:long-lines-MiB")
			} else {
				c.H("e2e:long-lines-64KiB")
			}
		}
	})
	// the file store's ids: counter values in any order within one second; every earlier message keeps its bytes (c02_ids.go)
	c02IdsOnStack(c, st)
	c02CacheOnStack(c, st)
	// the file system refuses a call of the file store during a delivery, once or for good: what the mailbox lists is whole messages (c02_fault.go)
	c02FaultOnStack(c, st)
}


// concurrentReaders: the read interfaces serve the message that was asked for, byte for byte, also when many clients read different
// messages at the same time and some of them read slowly (implementation only; the model of the HTTP source endpoints is the identity).
func (st *c02Stack) concurrentReaders(c *core.Ctx) {
	r := c.SubRng("c02-readers")
	const k = 8
	type held struct {
		mb, id string
		src    []byte
	}
	var hs []held
	for i := 0; i < k; i++ {
		mb := fmt.Sprintf("%sc02rd%d", []string{"m", "f"}[i%2], i)
		var body bytes.Buffer
		fmt.Fprintf(&body, "Subject: reader %d\r\n\r\n", i)
		for l, n := 0, 20+r.Intn(1500); l < n; l++ {
			fmt.Fprintf(&body, "message %d line %d %s\r\n", i, l, strings.Repeat(string(rune('a'+i)), r.Intn(60)))
		}
		cs := &c02Case{kind: "rfc", mb: mb, body: body.Bytes(), tail: "QUIT\r\n"}
		cs.wire = refDataEncode(cs.body)
		if _, err := st.smtpSend(cs); err != nil {
			c.Fail("smtp-session", []string{"concurrent readers: delivery to " + mb}, err.Error(), "")
			return
		}
		msgs, err := st.store.GetMessages(mb)
		if err != nil || len(msgs) != 1 {
			c.Fail("stored-once", []string{"concurrent readers: delivery to " + mb}, fmt.Sprintf("%d messages, err %v", len(msgs), err), "")
			return
		}
		rc, err := msgs[0].Source()
		if err != nil {
			c.Fail("store-source", []string{"concurrent readers: " + mb}, err.Error(), "")
			return
		}
		src, _ := io.ReadAll(rc)
		rc.Close()
		hs = append(hs, held{mb, msgs[0].ID(), src})
	}
	rounds := c.Scale(120, 1500)
	var wg sync.WaitGroup
	for g := 0; g < k; g++ {
		wg.Add(1)
		go func(g int) {
			defer wg.Done()
			rr := rand.New(rand.NewSource(int64(g) + 77))
			for i := 0; i < rounds; i++ {
				h := hs[(g+rr.Intn(2)*rr.Intn(k))%k]
				path := "/api/v1/mailbox/" + h.mb + "/" + h.id + "/source"
				if rr.Intn(2) == 0 {
					path = "/serve/mailbox/" + h.mb + "/" + h.id + "/source"
				}
				resp, err := http.Get(st.http.URL + path)
				if err != nil {
					c.Fail("rest-source", []string{"concurrent readers", "GET " + path}, err.Error(), "")
					return
				}
				var got []byte
				if g == 0 || rr.Intn(6) == 0 { // a slow client: small reads with pauses
					buf := make([]byte, 512+rr.Intn(2048))
					for {
						n, err := resp.Body.Read(buf)
						got = append(got, buf[:n]...)
						if err != nil {
							break
						}
						if rr.Intn(4) == 0 {
							time.Sleep(time.Duration(rr.Intn(300)) * time.Microsecond)
						}
					}
				} else {
					got, _ = io.ReadAll(resp.Body)
				}
				resp.Body.Close()
				c.Compared(1)
				c.H("e2e:concurrent-source-reads")
				if resp.StatusCode != 200 || !bytes.Equal(got, h.src) {
					c.Fail("interfaces-agree", []string{"concurrent readers (8 clients, different messages, some reading slowly)", "GET " + path},
						fmt.Sprintf("status %d, %d bytes served, the store holds %d bytes; served text starts %s, stored text starts %s", resp.StatusCode, len(got), len(h.src),
							clip(fmt.Sprintf("%q", got), 120), clip(fmt.Sprintf("%q", h.src), 120)), "")
					return
				}
			}
		}(g)
	}
	wg.Wait()
	// the same, with the overlap placed deterministically: while the response for message A is being written (the client is slow to take the
	// first byte), a complete request for message B is served; both must get their own message.
	for i := 0; i < k; i++ {
		for _, suffix := range []string{"/api/v1/mailbox/%s/%s/source", "/serve/mailbox/%s/%s/source"} {
			a, b := hs[i], hs[(i+1+r.Intn(k-1))%k]
			pa, pb := fmt.Sprintf(suffix, a.mb, a.id), fmt.Sprintf(suffix, b.mb, b.id)
			inner := httptest.NewRecorder()
			outer := &c02SlowWriter{hdr: http.Header{}, meanwhile: func() {
				web.Router.ServeHTTP(inner, httptest.NewRequest("GET", pb, nil))
			}}
			web.Router.ServeHTTP(outer, httptest.NewRequest("GET", pa, nil))
			c.Compared(2)
			c.H("e2e:nested-source-reads")
			if !bytes.Equal(outer.body.Bytes(), a.src) || !bytes.Equal(inner.Body.Bytes(), b.src) {
				c.Fail("interfaces-agree", []string{"GET " + pa + " whose client is slow to take the first byte; meanwhile GET " + pb + " is served completely"},
					fmt.Sprintf("first request: %d bytes served (stored %d), starts %s; second request: %d bytes served (stored %d)", outer.body.Len(), len(a.src),
						clip(fmt.Sprintf("%q", outer.body.Bytes()), 120), inner.Body.Len(), len(b.src)), "")
			}
		}
	}
	for _, h := range hs {
		_ = st.store.PurgeMessages(h.mb)
	}
	c.Count("concurrent-readers", true)
}

// c02SlowWriter: an HTTP client connection that is not ready for the body right away: before the first body byte is taken, `meanwhile` runs.
type c02SlowWriter struct {
	hdr       http.Header
	status    int
	body      bytes.Buffer
	meanwhile func()
}

func (w *c02SlowWriter) Header() http.Header  { return w.hdr }
func (w *c02SlowWriter) WriteHeader(code int) { w.status = code }
func (w *c02SlowWriter) Write(p []byte) (int, error) {
	if f := w.meanwhile; f != nil {
		w.meanwhile = nil
		f()
	}
	return w.body.Write(p)
}
