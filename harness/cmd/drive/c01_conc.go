package main

// C01 (extra leg, implementation only): several SMTP sessions at once.  The property's sentence is per transaction — "each recipient the server
// accepted gains exactly one new message … no other mailbox changes" — and a server has many connections open; sessions share the manager and the
// store.  Eight real sessions (net.Pipe, real manager, real memory / file store) deliver at the same time, to one shared mailbox and to a
// mailbox of their own, with bodies large enough for the deliveries to overlap inside the store; afterwards every transaction that was
// acknowledged with 250 has exactly one intact copy in each mailbox it named, and nothing else is stored.

import (
	"bufio"
	"fmt"
	"io"
	"net"
	"os"
	"path/filepath"
	"strings"
	"sync"
	"time"

	"github.com/inbucket/inbucket/v3/pkg/config"
	"github.com/inbucket/inbucket/v3/pkg/extension"
	"github.com/inbucket/inbucket/v3/pkg/message"
	"github.com/inbucket/inbucket/v3/pkg/policy"
	"github.com/inbucket/inbucket/v3/pkg/server/smtp"
	"github.com/inbucket/inbucket/v3/pkg/storage"
	"github.com/inbucket/inbucket/v3/pkg/storage/file"
	"github.com/inbucket/inbucket/v3/pkg/storage/mem"

	"verif/harness/internal/core"
)

func init() {
	prev := extra["C01"]
	extra["C01"] = func(c *core.Ctx) {
		if prev != nil {
			prev(c)
		}
		c01Concurrent(c)
	}
}

func c01Concurrent(c *core.Ctx) {
	r := c.SubRng("c01-concurrent")
	rounds := c.Scale(6, 80)
	for round := 0; round < rounds; round++ {
		kind := []string{"file", "mem"}[round%2]
		host := extension.NewHost()
		var st storage.Store
		var err error
		dir := ""
		if kind == "mem" {
			st, err = mem.New(config.Storage{Params: map[string]string{}}, host)
		} else {
			dir = filepath.Join(c.Workdir, fmt.Sprintf("c01-conc-%d-%d", os.Getpid(), round))
			os.RemoveAll(dir)
			st, err = file.New(config.Storage{Params: map[string]string{"path": dir}}, host)
		}
		if err != nil {
			c.Fail("setup", nil, err.Error(), "")
			return
		}
		root := namingRoot("local")
		root.SMTP = config.SMTP{Domain: "inbucket.test", MaxRecipients: 10, MaxMessageBytes: 8 << 20, DefaultAccept: true, DefaultStore: true, Timeout: 30 * time.Second}
		ap := &policy.Addressing{Config: root}
		srv := smtp.NewServer(root.SMTP, &message.StoreManager{AddrPolicy: ap, Store: st, ExtHost: host}, ap, host)
		const sessions = 8
		perSession := 1 + r.Intn(3)
		size := []int{2000, 60000, 400000, 900000}[r.Intn(4)]
		descr := []string{fmt.Sprintf("store=%s: %d sessions at once, %d transactions each, bodies of about %d bytes, every transaction to <shared@…> and to <own<k>@…>", kind, sessions, perSession, size)}
		type ack struct{ subj string }
		var mu sync.Mutex
		acked := map[string][]string{} // mailbox -> subjects acknowledged
		bodies := map[string]int{}      // subject -> body length
		var wg sync.WaitGroup
		gate := make(chan struct{})
		for k := 0; k < sessions; k++ {
			wg.Add(1)
			go func(k int) {
				defer wg.Done()
				sconn, cconn := net.Pipe()
				go func() {
					defer func() { recover() }()
					srv.VerifServe(1000*round+k, sconn)
				}()
				defer cconn.Close()
				br := bufio.NewReader(cconn)
				say := func(l string) int {
					cconn.SetDeadline(time.Now().Add(30 * time.Second))
					io.WriteString(cconn, l)
					rp, err := tfRead(br, cconn)
					if err != nil {
						return 0
					}
					return rp.code
				}
				if _, err := tfRead(br, cconn); err != nil {
					return
				}
				if say("HELO c.example\r\n") != 250 {
					return
				}
				for t := 0; t < perSession; t++ {
					subj := fmt.Sprintf("conc-%d-%d-%d", round, k, t)
					var b strings.Builder
					fmt.Fprintf(&b, "Subject: %s\r\nFrom: s@example.org\r\n\r\n", subj)
					line := fmt.Sprintf("%s %s\r\n", subj, strings.Repeat("z", 60))
					for b.Len() < size {
						b.WriteString(line)
					}
					own := fmt.Sprintf("own%d", k)
					if say("MAIL FROM:<s@example.org>\r\n") != 250 || say("RCPT TO:<shared@example.com>\r\n") != 250 || say("RCPT TO:<"+own+"@example.com>\r\n") != 250 || say("DATA\r\n") != 354 {
						return
					}
					body := b.String()
					cconn.SetDeadline(time.Now().Add(60 * time.Second))
					io.WriteString(cconn, body)
					<-gate // all sessions send their final dot together
					io.WriteString(cconn, ".\r\n")
					rp, err := tfRead(br, cconn)
					if err != nil {
						return
					}
					if rp.code == 250 {
						mu.Lock()
						acked["shared"] = append(acked["shared"], subj)
						acked[own] = append(acked[own], subj)
						bodies[subj] = len(strings.ReplaceAll(body, "\r\n", "\n"))
						mu.Unlock()
					}
				}
				say("QUIT\r\n")
			}(k)
		}
		// open the gate repeatedly: one release per transaction round
		go func() {
			for i := 0; i < perSession*sessions*4; i++ {
				time.Sleep(15 * time.Millisecond)
				for j := 0; j < sessions; j++ {
					select {
					case gate <- struct{}{}:
					default:
					}
				}
			}
			close(gate)
		}()
		wg.Wait()
		// what the store holds
		held := map[string]map[string]int{}
		_ = st.VisitMailboxes(func(ms []storage.Message) bool {
			for _, m := range ms {
				if held[m.Mailbox()] == nil {
					held[m.Mailbox()] = map[string]int{}
				}
				held[m.Mailbox()][m.Subject()]++
				if want, ok := bodies[m.Subject()]; ok {
					rd, err := m.Source()
					if err != nil {
						c.Fail("content-intact", append(descr, "mailbox="+m.Mailbox()), fmt.Sprintf("message %s (%s) is listed but its source cannot be opened: %v", m.ID(), m.Subject(), err), "")
						continue
					}
					b, _ := io.ReadAll(rd)
					rd.Close()
					if i := strings.Index(string(b), "Subject: "); i < 0 || len(b)-i != want {
						c.Fail("content-intact", append(descr, "mailbox="+m.Mailbox()), fmt.Sprintf("message %s (%s): the stored text has %d bytes after the trace lines, %d were sent", m.ID(), m.Subject(), len(b)-i, want), "")
					}
				}
			}
			return true
		})
		total := 0
		for mb, subs := range acked {
			for _, s := range subs {
				total++
				c.Compared(1)
				if n := held[mb][s]; n != 1 {
					c.Fail("stored-once-per-acknowledged-recipient", append(descr, "mailbox="+mb), fmt.Sprintf("transaction %q was acknowledged with 250; mailbox %q holds %d copies of it (it lists %d messages, %d acknowledged transactions named it)", s, mb, n, len(held[mb]), len(subs)), "")
					break
				}
			}
		}
		for mb, subs := range held {
			for s, n := range subs {
				ok := false
				for _, a := range acked[mb] {
					if a == s {
						ok = true
					}
				}
				if !ok {
					c.Fail("nothing-else-stored", append(descr, "mailbox="+mb), fmt.Sprintf("mailbox %q holds %d message(s) %q that no acknowledged transaction sent there", mb, n, s), "")
				}
			}
		}
		c.H(fmt.Sprintf("concurrent-sessions:%s:acked=%s", kind, bucketN(total)))
		c.Count(fmt.Sprintf("c01-concurrent-%d", round), total > 0)
		if dir != "" {
			os.RemoveAll(dir)
		}
	}
}
