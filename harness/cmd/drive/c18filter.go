package main

// C18, the style-tag filter of pkg/webui/sanitize/html.go (styleTagFilter) at TOKEN level.
//   T2 correspondence (mode "sanf" of the model driver):
//     filter    sanitizeStyleTags(in) / styleTagFilter over a failing reader
//               vs  Model.StyleFilter.filter over the token stream of the REAL x/net/html tokenizer, read with the
//               accessor calls html.go makes (Next, TagName, Raw, TagAttr, Err), the CSS scanner's tokens of every
//               attribute value supplied as the `scan` table
//     stylekey  strings.ToLower(k) == "style"  vs  Model.StyleFilter.isStyleKey
//     xescape   x/net/html.EscapeString  vs  Model.StyleFilter.escape
//     rdtag     the real tokenizer on ONE start tag (generated raw tags; every tag the real filter wrote)
//               vs  Model.TagRead.readTag (name, keys, value spans decoded by the real tokenizer, self-closing, rest)
//   Implementation-only oracle (never consults the model):
//     filter_token_agreement   differential parse: the filter and bluemonday must agree on where the tags are.
//         (a) the filter's output is explained token by token by the tokenisation bluemonday's settings
//             (html.NewTokenizer, no option) give for the SAME INPUT: raw bytes for text / end tags / comments /
//             doctypes / attribute-less start tags, `<name key="value"…[/]>` with exactly the reported keys (style
//             keys possibly dropped) for the others — a start tag the filter did not see (passed raw) or a tag it
//             saw where bluemonday sees text (rewritten bytes) breaks the alignment;
//         (b) bluemonday's tokenisation of the filter's OUTPUT has the same kinds, tag names and attribute keys.
//       Every input is also classified by whether a tokenizer OPTION would change where the styled start tags are
//       (AllowCDATA(true), NextIsNotRawText()) — histogram agree:sensitive:* — and a directed generator wraps
//       styled tags in every construct whose reading depends on an option (CDATA sections, the raw-text elements
//       of x/net/html pinned by Tie.San.tokenizer_raw_tags_tie, comments, markup declarations, attribute values).

import (
	"bytes"
	"errors"
	"fmt"
	"io"
	"math/rand"
	"strconv"
	"strings"

	"github.com/inbucket/inbucket/v3/pkg/webui/sanitize"
	"golang.org/x/net/html"

	"verif/harness/internal/core"
)

type c18FTok struct {
	typ   html.TokenType
	raw   string // z.Raw() at the moment html.go reads it (for start tags: AFTER z.TagName(), which lower-cases in place)
	name  string
	attrs [][2]string
	eof   bool
	off   int // byte offset of the token in the input
}

var errC18Read = errors.New("verif: injected read error")

// c18FailReader: delivers data[:failAt] and then errC18Read (failAt < 0: never fails, plain EOF).
type c18FailReader struct {
	data   string
	pos    int
	failAt int
}

func (r *c18FailReader) Read(p []byte) (int, error) {
	end := len(r.data)
	if r.failAt >= 0 && r.failAt < end {
		end = r.failAt
	}
	if r.pos >= end {
		if r.failAt >= 0 {
			return 0, errC18Read
		}
		return 0, io.EOF
	}
	n := copy(p, r.data[r.pos:end])
	r.pos += n
	return n, nil
}

const (
	c18OptDefault = iota
	c18OptCDATA
	c18OptNoRaw
)

// c18FilterTokens: the token stream as the loop of styleTagFilter reads it (same constructor, same accessor calls
// in the same order); the last element is the ErrorToken.  opt selects a tokenizer option for the sensitivity
// classification (c18OptDefault = html.go's and bluemonday's configuration).
func c18FilterTokens(rd io.Reader, opt int) []c18FTok {
	var res []c18FTok
	z := html.NewTokenizer(rd)
	if opt == c18OptCDATA {
		z.AllowCDATA(true)
	}
	off := 0
	for i := 0; i < 1<<22; i++ {
		tt := z.Next()
		t := c18FTok{typ: tt, off: off}
		switch tt {
		case html.ErrorToken:
			t.eof = z.Err() == io.EOF
			t.raw = string(z.Raw())
			return append(res, t)
		case html.StartTagToken, html.SelfClosingTagToken:
			off += len(z.Raw())
			name, hasAttr := z.TagName()
			t.name = string(name)
			t.raw = string(z.Raw())
			for hasAttr {
				var k, v []byte
				k, v, hasAttr = z.TagAttr()
				t.attrs = append(t.attrs, [2]string{string(k), string(v)})
			}
		default:
			t.raw = string(z.Raw())
			off += len(t.raw)
		}
		if opt == c18OptNoRaw {
			z.NextIsNotRawText()
		}
		res = append(res, t)
	}
	return res
}

func c18FTokLine(ts []c18FTok) string {
	if len(ts) == 0 {
		return "_"
	}
	p := make([]string, len(ts))
	for i, t := range ts {
		switch t.typ {
		case html.TextToken:
			p[i] = "t:" + core.HexS(t.raw)
		case html.EndTagToken:
			p[i] = "e:" + core.HexS(t.raw)
		case html.CommentToken:
			p[i] = "c:" + core.HexS(t.raw)
		case html.DoctypeToken:
			p[i] = "d:" + core.HexS(t.raw)
		case html.ErrorToken:
			p[i] = "E:" + map[bool]string{true: "1", false: "0"}[t.eof] + ":" + core.HexS(t.raw)
		default:
			a := "_"
			if len(t.attrs) > 0 {
				q := make([]string, len(t.attrs))
				for j, kv := range t.attrs {
					q[j] = core.HexS(kv[0]) + "." + core.HexS(kv[1])
				}
				a = strings.Join(q, ";")
			}
			k := "s:"
			if t.typ == html.SelfClosingTagToken {
				k = "x:"
			}
			p[i] = k + core.HexS(t.raw) + ":" + core.HexS(t.name) + ":" + a
		}
	}
	return strings.Join(p, ",")
}

// c18ScanTable: the CSS scanner's tokens for every attribute value of the stream (whatever the key: the MODEL decides
// which keys are style keys).
func c18ScanTable(ts []c18FTok) string {
	seen := map[string]bool{}
	var p []string
	for _, t := range ts {
		for _, kv := range t.attrs {
			if seen[kv[1]] {
				continue
			}
			seen[kv[1]] = true
			toks, _ := c18Scan(kv[1])
			s := "_"
			if len(toks) > 0 {
				q := make([]string, len(toks))
				for i, ct := range toks {
					q[i] = strconv.Itoa(ct.code) + "." + core.HexS(ct.val)
				}
				s = strings.Join(q, "+")
			}
			p = append(p, core.HexS(kv[1])+"="+s)
		}
	}
	if len(p) == 0 {
		return "_"
	}
	return strings.Join(p, "/")
}

// c18StyledTags: where the start tags carrying a style key are, in a token stream: offset:name, in order.
func c18StyledTags(ts []c18FTok) string {
	var b strings.Builder
	for _, t := range ts {
		if t.typ != html.StartTagToken && t.typ != html.SelfClosingTagToken {
			continue
		}
		for _, kv := range t.attrs {
			if strings.ToLower(kv[0]) == "style" {
				fmt.Fprintf(&b, "%d:%s ", t.off, t.name)
				break
			}
		}
	}
	return b.String()
}

// c18Align: clause (a) of filter_token_agreement.  Returns "" or the reason the output is not explained by the
// token stream `a` (bluemonday's tokenisation of the input).
func c18Align(a []c18FTok, mid string) string {
	pos := 0
	eat := func(s string) bool {
		if strings.HasPrefix(mid[pos:], s) {
			pos += len(s)
			return true
		}
		return false
	}
	for _, t := range a {
		switch t.typ {
		case html.ErrorToken:
		case html.StartTagToken, html.SelfClosingTagToken:
			if len(t.attrs) == 0 {
				if !eat(t.raw) {
					return fmt.Sprintf("input offset %d: the attribute-less tag %q is not passed through (output offset %d)", t.off, t.raw, pos)
				}
				continue
			}
			if !eat("<" + t.name) {
				return fmt.Sprintf("input offset %d: bluemonday's tokenizer reads a start tag <%s …> here, the filter's output has %q (output offset %d)", t.off, t.name, c18Clip(mid[pos:]), pos)
			}
			for _, kv := range t.attrs {
				style := strings.ToLower(kv[0]) == "style"
				want := kv[1]
				if style {
					want = sanitize.VerifSanitizeStyle(want)
					if want == "" {
						continue // dropped
					}
				}
				if !eat(" " + kv[0] + "=\"") {
					return fmt.Sprintf("input offset %d: attribute %q of <%s> is not written back (output offset %d: %q)", t.off, kv[0], t.name, pos, c18Clip(mid[pos:]))
				}
				q := strings.IndexByte(mid[pos:], '"')
				if q < 0 {
					return fmt.Sprintf("input offset %d: value of %q is not closed", t.off, kv[0])
				}
				if got := mid[pos : pos+q]; got != html.EscapeString(want) {
					if style {
						return fmt.Sprintf("input offset %d: style value of <%s> is %q, not the sanitised %q: the filter did not see this tag as bluemonday's tokenizer does", t.off, t.name, got, html.EscapeString(want))
					}
					return fmt.Sprintf("input offset %d: value of %q changed to %q", t.off, kv[0], got)
				}
				pos += q + 1
			}
			if t.typ == html.SelfClosingTagToken && !eat("/") {
				return fmt.Sprintf("input offset %d: self-closing mark of <%s> lost", t.off, t.name)
			}
			if !eat(">") {
				return fmt.Sprintf("input offset %d: <%s …> is followed by %q in the output: more attributes than bluemonday's tokenizer reads", t.off, t.name, c18Clip(mid[pos:]))
			}
		default:
			if !eat(t.raw) {
				return fmt.Sprintf("input offset %d: bluemonday's tokenizer reads a %s token %q here that the filter must pass through; the output has %q (output offset %d): the filter saw a different token", t.off, t.typ, c18Clip(t.raw), c18Clip(mid[pos:]), pos)
			}
		}
	}
	if pos != len(mid) {
		return fmt.Sprintf("the output has %d more bytes %q than the input's tokens explain", len(mid)-pos, c18Clip(mid[pos:]))
	}
	return ""
}

func c18Clip(s string) string {
	if len(s) > 60 {
		return s[:60] + "…"
	}
	return s
}

// c18KindsAgree: clause (b): same kinds, names and keys (style keys may have been dropped).
func c18KindsAgree(a, b []c18FTok) string {
	na, nb := len(a)-1, len(b)-1 // without the ErrorToken
	if na != nb {
		return fmt.Sprintf("bluemonday's tokenizer reads %d tokens in the input and %d in the filter's output", na, nb)
	}
	for i := 0; i < na; i++ {
		x, y := a[i], b[i]
		if x.typ != y.typ || x.name != y.name {
			return fmt.Sprintf("token %d is %s %q in the input and %s %q in the filter's output", i, x.typ, x.name, y.typ, y.name)
		}
		j := 0
		for _, kv := range x.attrs {
			if j < len(y.attrs) && y.attrs[j][0] == kv[0] {
				j++
			} else if strings.ToLower(kv[0]) != "style" {
				return fmt.Sprintf("token %d <%s>: attribute key %q is missing from the filter's output", i, x.name, kv[0])
			}
		}
		if j != len(y.attrs) {
			return fmt.Sprintf("token %d <%s>: the filter's output has an attribute %q the input has not", i, x.name, y.attrs[j][0])
		}
	}
	return ""
}

// c18Agreement: the oracle filter_token_agreement on one input; returns the default token stream.
func c18Agreement(c *core.Ctx, in string) []c18FTok {
	a := c18FilterTokens(strings.NewReader(in), c18OptDefault)
	mid, err := sanitize.VerifSanitizeStyleTags(in)
	cas := []string{"html=" + strconv.Quote(in), "filtered=" + strconv.Quote(mid)}
	if err != nil {
		c.Fail("html_no_error", cas, "styleTagFilter failed: "+err.Error(), "")
		return a
	}
	if why := c18Align(a, mid); why != "" {
		c.Fail("filter_token_agreement", cas, "(a) "+why, "")
	} else if why := c18KindsAgree(a, c18FilterTokens(strings.NewReader(mid), c18OptDefault)); why != "" {
		c.Fail("filter_token_agreement", cas, "(b) "+why, "")
	}
	// would a tokenizer option move the styled start tags?  (coverage of the differential-parse classes)
	base := c18StyledTags(a)
	sens := false
	if c18StyledTags(c18FilterTokens(strings.NewReader(in), c18OptCDATA)) != base {
		c.H("agree:sensitive:AllowCDATA")
		sens = true
	}
	if c18StyledTags(c18FilterTokens(strings.NewReader(in), c18OptNoRaw)) != base {
		c.H("agree:sensitive:NextIsNotRawText")
		sens = true
	}
	if !sens {
		c.H("agree:option-insensitive")
	}
	if last := a[len(a)-1]; last.raw != "" {
		c.H("agree:unfinished-token-dropped")
	}
	return a
}

// c18CheckFilter: the T2 correspondence `filter` for a batch of inputs (failAt[i] >= 0: read error injected there).
func c18CheckFilter(c *core.Ctx, m *core.Model, ins []string, failAt []int) {
	lines := make([]string, len(ins))
	impl := make([]string, len(ins))
	for i, in := range ins {
		var ts []c18FTok
		if failAt[i] < 0 {
			ts = c18FilterTokens(strings.NewReader(in), c18OptDefault)
			out, err := sanitize.VerifSanitizeStyleTags(in)
			if err != nil {
				impl[i] = "err"
			} else {
				impl[i] = "ok " + core.HexS(out)
			}
		} else {
			ts = c18FilterTokens(&c18FailReader{data: in, failAt: failAt[i]}, c18OptDefault)
			var b bytes.Buffer
			if err := sanitize.VerifStyleTagFilter(&b, &c18FailReader{data: in, failAt: failAt[i]}); err != nil {
				impl[i] = "err" // sanitizeStyleTags discards the buffer
			} else {
				impl[i] = "ok " + core.HexS(b.String())
			}
			c.H("filter:read-error-injected")
		}
		lines[i] = "filt " + c18FTokLine(ts) + " " + c18ScanTable(ts)
		styled := false
		for _, t := range ts {
			for _, kv := range t.attrs {
				if strings.ToLower(kv[0]) == "style" {
					styled = true
				}
			}
		}
		if styled {
			c.H("filter:has-style-attr")
		} else {
			c.H("filter:no-style-attr")
		}
	}
	outs := m.AskAll(lines)
	for i := range lines {
		if outs[i] != impl[i] {
			c.Diverge("filter", []string{"html=" + strconv.Quote(ins[i]), fmt.Sprintf("failAt=%d", failAt[i]), lines[i]},
				strconv.Quote(core.UnHex(strings.TrimPrefix(impl[i], "ok "))), strconv.Quote(core.UnHex(strings.TrimPrefix(outs[i], "ok "))))
		}
	}
	c.Compared(len(lines))
}

// ---- correspondence `rdtag`: Model.TagRead.readTag vs the real tokenizer on one start tag

// c18DecodeSpan: the value the real tokenizer reports for the raw span (its own newline conversion + entity decoding).
func c18DecodeSpan(span string) (string, bool) {
	var probe string
	switch {
	case !strings.Contains(span, "\""):
		probe = "<a b=\"" + span + "\">"
	case !strings.Contains(span, "'"):
		probe = "<a b='" + span + "'>"
	default:
		return "", false
	}
	z := html.NewTokenizer(strings.NewReader(probe))
	if z.Next() != html.StartTagToken {
		return "", false
	}
	z.TagName()
	_, v, _ := z.TagAttr()
	return string(v), true
}

// c18CheckReadTag: every s starts with `<` and an ASCII letter.
func c18CheckReadTag(c *core.Ctx, m *core.Model, tags []string, label string) {
	lines := make([]string, len(tags))
	for i, s := range tags {
		lines[i] = "rdtag " + core.HexS(s[1:])
	}
	outs := m.AskAll(lines)
	for i, s := range tags {
		ts := c18FilterTokens(strings.NewReader(s), c18OptDefault)
		t := ts[0]
		impl := "err"
		ok := true
		switch t.typ {
		case html.StartTagToken, html.SelfClosingTagToken:
			f := strings.Fields(outs[i])
			sc := "0"
			if t.typ == html.SelfClosingTagToken {
				sc = "1"
			}
			rawLen := len(s)
			if len(ts) > 1 {
				rawLen = ts[1].off
			}
			impl = fmt.Sprintf("ok %s %s #%d %s", sc, core.HexS(t.name), len(t.attrs), core.HexS(s[rawLen:]))
			if len(f) != 5 || f[0] != "ok" || f[1] != sc || f[2] != core.HexS(t.name) || f[4] != core.HexS(s[rawLen:]) {
				ok = false
				break
			}
			var mattrs []string
			if f[3] != "_" {
				mattrs = strings.Split(f[3], ";")
			}
			if len(mattrs) != len(t.attrs) {
				ok = false
				break
			}
			for j, kv := range t.attrs {
				p := strings.Split(mattrs[j], ".")
				if len(p) != 2 || p[0] != core.HexS(kv[0]) {
					ok = false
					break
				}
				if dec, can := c18DecodeSpan(core.UnHex(p[1])); !can {
					c.H("rdtag:value-with-both-quotes-not-compared")
				} else if dec != kv[1] {
					ok = false
					impl += fmt.Sprintf(" attr %d value %q", j, kv[1])
				}
			}
			c.H("rdtag:tag")
		case html.ErrorToken:
			ok = outs[i] == "err"
			c.H("rdtag:unfinished")
		default:
			ok = false
			impl = "not a tag: " + t.typ.String()
		}
		if !ok {
			c.Diverge("rdtag", []string{lines[i], "tag=" + strconv.Quote(s)}, impl, outs[i])
		}
		c.Count(label+"|"+s, true)
	}
	c.Compared(len(lines))
}

// c18WrittenTags: the start tags of the filter's output (raw bytes, with what follows them up to 8 bytes).
func c18WrittenTags(mid string) []string {
	var res []string
	for _, t := range c18FilterTokens(strings.NewReader(mid), c18OptDefault) {
		if (t.typ == html.StartTagToken || t.typ == html.SelfClosingTagToken) && len(t.attrs) > 0 {
			end := strings.IndexByte(mid[t.off:], '>') // a written tag has no `>` inside (filter_tag_closes_once)
			if end < 0 {
				continue
			}
			stop := t.off + end + 1 + 8
			if stop > len(mid) {
				stop = len(mid)
			}
			res = append(res, mid[t.off:stop])
		}
	}
	return res
}

// ---- the directed differential-parse generator

// c18RawTextTags: the elements after whose start tag x/net/html reads raw text (readStartTag); pinned to the source by
// Ibx/Tie/San.lean (tokenizer_raw_tags_tie).
var c18RawTextTags = []string{"iframe", "noembed", "noframes", "noscript", "plaintext", "script", "style", "textarea", "title", "xmp"}

var c18StyledPayloads = []string{
	`<p style="position:fixed">`, `<P STYLE='top:0;color:red'>`, `<div style=position:fixed>`, `<img style="behavior:url(x)"/>`,
	`<a href="x" sTyLe="color:red;position:fixed" onclick=y>`, `<span style=color:red>`, `<b style = "z-index:9">`, `<i/style="top:1">`,
	`<center style="background:url(javascript:x)">`, `<td style='width:1px;"' x>`, `<p style="color:red" style="position:fixed">`,
}

type c18Ctx struct{ open, close string }

func c18Contexts() []c18Ctx {
	cs := []c18Ctx{
		{"<![CDATA[", "]]>"}, {"<![CDATA[>", "]]>"}, {"<![CDATA[ x > ", " ]]>"}, {"<svg><![CDATA[", "]]></svg>"}, {"<math><![CDATA[>", "]]></math>"},
		{"<![cdata[", "]]>"}, {"<![CDATA", "]]>"}, {"<![CDATA[]]", ">"}, {"<![CDATA[]>", "]]>"},
		{"<!--", "-->"}, {"<!-->", "-->"}, {"<!--->", "-->"}, {"<!--", "--!>"}, {"<!-- <!--", "--> -->"}, {"<!", ">"}, {"<!>", ""}, {"<?", "?>"}, {"<?xml ", ">"},
		{"</", ">"}, {"</ ", ">"}, {"</>", ""}, {"<!DOCTYPE ", ">"}, {"<!doctype html [", "]>"}, {"<![if x]>", "<![endif]>"}, {"<!--[if x]>", "<![endif]-->"},
		{"<a title=\"", "\">"}, {"<a title='", "'>"}, {"<a title=", ">"}, {"<a title=\"", ""}, {"<a ", ">"}, {"<a x=\"'\" y='", "'>"}, {"<", ">"}, {"< ", ">"},
	}
	for _, t := range c18RawTextTags {
		cs = append(cs, c18Ctx{"<" + t + ">", "</" + t + ">"}, c18Ctx{"<" + strings.ToUpper(t) + " a=b>", "</" + t + " >"}, c18Ctx{"<" + t + "/>", "</" + t + ">"},
			c18Ctx{"<" + t + ">", ""}, c18Ctx{"<svg><" + t + ">", "</" + t + "></svg>"}, c18Ctx{"<" + t + " style=\"top:1\">", "</" + t + "x></" + t + ">"})
	}
	return cs
}

func c18RandSensitive(r *rand.Rand, ctxs []c18Ctx) string {
	var b strings.Builder
	payload := func() string {
		if r.Intn(3) == 0 {
			return c18RandTag(r)
		}
		return c18StyledPayloads[r.Intn(len(c18StyledPayloads))]
	}
	if r.Intn(3) == 0 {
		b.WriteString(c18RandHTML(r))
	}
	n := 1 + r.Intn(3)
	for i := 0; i < n; i++ {
		x := ctxs[r.Intn(len(ctxs))]
		b.WriteString(x.open)
		if r.Intn(4) == 0 {
			y := ctxs[r.Intn(len(ctxs))] // nested
			b.WriteString(y.open + payload() + y.close)
		}
		b.WriteString(payload())
		if r.Intn(3) == 0 {
			b.WriteString(c18Texts[r.Intn(len(c18Texts))])
		}
		if r.Intn(5) != 0 {
			b.WriteString(x.close)
		}
		b.WriteString(payload())
	}
	if r.Intn(4) == 0 {
		b.WriteString(c18RandHTML(r))
	}
	return b.String()
}

func c18Filter(c *core.Ctx) {
	m := c.NewModel("sanf")
	defer m.Close()
	// keys and escaping, directly
	var lines, impl []string
	keys := append([]string{}, c18AttrKeys...)
	keys = append(keys, "style", "STYLE", "sTYLe", "styl", "styles", "ſtyle", "stylE", "ſTYLE", "stİle", "Ktyle", "style", "style\x00", "", "\xffstyle")
	for _, k := range keys {
		lines = append(lines, "stylekey "+core.HexS(k))
		impl = append(impl, tf(strings.ToLower(k) == "style"))
	}
	r := c.SubRng("xescape")
	for i := 0; i < 2000; i++ {
		var v string
		switch r.Intn(3) {
		case 0:
			v = c18StyleVals[r.Intn(len(c18StyleVals))]
		case 1:
			v = c18RandStyle(r)
		default:
			const alpha = "&'<>\"\r\n;:ax\x00\xff#1349"
			bs := make([]byte, r.Intn(12))
			for j := range bs {
				bs[j] = alpha[r.Intn(len(alpha))]
			}
			v = string(bs)
		}
		lines = append(lines, "xesc "+core.HexS(v))
		impl = append(impl, core.HexS(html.EscapeString(v)))
	}
	outs := m.AskAll(lines)
	for i := range lines {
		if outs[i] != impl[i] {
			corr := "xescape"
			if strings.HasPrefix(lines[i], "stylekey") {
				corr = "stylekey"
			}
			c.Diverge(corr, []string{lines[i]}, impl[i], outs[i])
		}
	}
	c.Compared(len(lines))

	// directed: every context x every payload, closed and unclosed
	ctxs := c18Contexts()
	var directed []string
	for _, x := range ctxs {
		for _, p := range c18StyledPayloads {
			directed = append(directed, x.open+p+x.close+p, x.open+p)
		}
	}
	directed = append(directed, "", "<", "<p", "<p ", "<p style", "<p style=", "<p style=\"", "<p style=\"color:red", "<p style=\"color:red\"", "<p style=\"color:red\">",
		"<P>", "<P >", "<BR/>", "<p a>", "<p a=>", "<p a=\"\r\n\">", "<p a=\"&#13;\">", "<p style=\"color:&#13;red\">", "<p =a>", "<p a b c>", "<!>", "x<!>", "<!><p style=top:1")
	fa := make([]int, len(directed))
	for i := range fa {
		fa[i] = -1
	}
	for _, d := range directed {
		c18Agreement(c, d)
		c18HTMLOracles(c, d)
		c.Count("fd|"+d, true)
	}
	c18CheckFilter(c, m, directed, fa)
	c.H("filter-directed-contexts")
	var wtags []string
	for _, d := range directed {
		if mid, err := sanitize.VerifSanitizeStyleTags(d); err == nil {
			wtags = append(wtags, c18WrittenTags(mid)...)
		}
	}
	wtags = append(wtags, "<p>", "<p/>", "<p />", "<p a>", "<p a/>", "<p a=/>", "<p a= >", "<p a =b>", "<p =a=b>", "<p a==b>", "<p a='b'c>", "<p a=\"b\"c=d>", "<p a=b/>", "<p/a=b>",
		"<p a=\"b>", "<p a='b>", "<p a=", "<p a", "<p ", "<p", "<p\ta\n=\r'b'\f>x", "<P A=B>", "<p a=\"&amp;&#13;&quot;\">", "<p a=b\rc>", "<p //>", "<p / / >", "<p a=\"\"/>", "<p a=\"/\">")
	c18CheckReadTag(c, m, wtags, "rw")

	workers := 12
	const batch = 250
	n := c.Scale(40000, 600000)
	nb := (n + batch - 1) / batch
	models := make(chan *core.Model, workers)
	for i := 0; i < workers; i++ {
		models <- c.NewModel("sanf")
	}
	core.Parallel(nb, workers, func(sh int) {
		mm := <-models
		r := c.SubRng(fmt.Sprintf("filter-%d", sh))
		ins := make([]string, batch)
		fail := make([]int, batch)
		for i := range ins {
			if r.Intn(2) == 0 {
				ins[i] = c18RandSensitive(r, ctxs)
				c18HTMLOracles(c, ins[i]) // the whole pipeline (bluemonday included) on the option-sensitive inputs too
			} else {
				ins[i] = c18RandHTML(r)
			}
			fail[i] = -1
			if r.Intn(16) == 0 && len(ins[i]) > 0 {
				fail[i] = r.Intn(len(ins[i]) + 1)
			}
			c18Agreement(c, ins[i])
			c.Count("fg|"+ins[i], strings.Contains(ins[i], "<"))
		}
		c18CheckFilter(c, mm, ins, fail)
		// rdtag: random raw tags, and every tag the real filter wrote for this batch
		var tags []string
		for i := 0; i < batch/2; i++ {
			t := c18RandTag(r)
			if len(t) > 1 && (t[1]|0x20) >= 'a' && (t[1]|0x20) <= 'z' {
				tags = append(tags, t+[]string{"", "x", ">", " y>", "\""}[r.Intn(5)])
			}
		}
		for i := 0; i < len(ins); i += 4 {
			if mid, err := sanitize.VerifSanitizeStyleTags(ins[i]); err == nil {
				tags = append(tags, c18WrittenTags(mid)...)
			}
		}
		c18CheckReadTag(c, mm, tags, "rt")
		models <- mm
	})
	close(models)
	for mm := range models {
		mm.Close()
	}
}
