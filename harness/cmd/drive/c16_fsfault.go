package main

// C16 (extra leg, implementation only): ONE transient file-system fault inside a capped delivery.  A delivery to a full mailbox of the file
// store is two index updates (the eviction's, then the delivery's own); a disk that refuses ONE of these writes and works again must not make
// the store announce a removal twice, announce the removal of a message that stays listed, or keep silent about one that goes:
//   * no (mailbox, id) is ever the subject of two `deleted` events,
//   * a message announced as deleted is not listed afterwards, a message that was listed and no longer is has been announced,
//   * what is listed can be read back.
// The fault is placed with the verif step hook of pkg/storage/file (called before every file-system mutation): at the chosen `create-tmp` step
// the temporary index path is occupied by a directory, which is removed again at the next step.

import (
	"fmt"
	"io"
	"os"
	"path/filepath"
	"strings"
	"sync"
	"time"

	"github.com/inbucket/inbucket/v3/pkg/storage/file"

	"verif/harness/internal/core"
)

func init() {
	prev := extra["C16"]
	extra["C16"] = func(c *core.Ctx) {
		if prev != nil {
			prev(c)
		}
		c16FsFault(c)
	}
}

var c16FsMu sync.Mutex // the step hook is one per process

func c16FsFault(c *core.Ctx) {
	c16FsMu.Lock()
	defer c16FsMu.Unlock()
	defer func() { file.VerifStepHook = nil }()
	r := c.SubRng("c16-fsfault")
	n := c.Scale(60, 1200)
	for i := 0; i < n; i++ {
		dir := filepath.Join(c.Workdir, fmt.Sprintf("c16-fsfault-%d-%d", os.Getpid(), i))
		os.MkdirAll(dir, 0o755)
		cap := 1 + r.Intn(3)
		b, err := newBackend("file", cap, 0, dir)
		if err != nil {
			c.Fail("setup", nil, err.Error(), "")
			os.RemoveAll(dir)
			return
		}
		box := []string{"fault", "Fault@example.com", "x"}[r.Intn(3)]
		trace := []string{fmt.Sprintf("file store, cap %d, mailbox %q", cap, box)}
		listed := map[string]bool{} // ids listed after the previous operation
		everListed := map[string]bool{}
		check := func(after string) bool {
			ms, err := b.st.GetMessages(box)
			if err != nil {
				c.Fail("listing-works", append(trace, after), "GetMessages: "+err.Error(), "")
				return false
			}
			now := map[string]bool{}
			for _, m := range ms {
				now[m.ID()] = true
				everListed[m.ID()] = true
				rd, err := m.Source()
				if err != nil {
					c.Fail("listed-is-readable", append(trace, after), fmt.Sprintf("message %s is listed but its source cannot be opened: %v", m.ID(), err), "")
					return false
				}
				io.Copy(io.Discard, rd)
				rd.Close()
			}
			// deleted events are dispatched asynchronously: give every message that has left the listing up to 3 s to be announced
			var ev []string
			for deadline := time.Now().Add(3 * time.Second); ; time.Sleep(time.Millisecond) {
				b.mu.Lock()
				ev = append([]string{}, b.deleted...)
				b.mu.Unlock()
				got := map[string]bool{}
				for _, e := range ev {
					got[e[strings.LastIndex(e, "/")+1:]] = true
				}
				missing := false
				for id := range listed {
					if !now[id] && !got[id] {
						missing = true
					}
				}
				if !missing || time.Now().After(deadline) {
					break
				}
			}
			seen := map[string]int{}
			for _, e := range ev {
				id := e[strings.LastIndex(e, "/")+1:]
				seen[id]++
				if seen[id] > 1 {
					c.Fail("deleted-event-once", append(trace, after), fmt.Sprintf("message %s/%s was announced as deleted %d times", box, id, seen[id]), "")
					return false
				}
				if now[id] {
					c.Fail("deleted-means-gone", append(trace, after), fmt.Sprintf("message %s/%s was announced as deleted and is still listed", box, id), "")
					return false
				}
			}
			for id := range listed {
				if !now[id] && seen[id] == 0 {
					c.Fail("events-exact", append(trace, after), fmt.Sprintf("message %s/%s left the mailbox without a deleted event", box, id), "")
					return false
				}
			}
			listed = now
			c.Compared(1)
			return true
		}
		ok := true
		for k := 0; k < cap && ok; k++ { // fill the mailbox
			if _, err := b.st.AddMessage(c09Delivery(box, k, 30+r.Intn(50), time.Now())); err != nil {
				c.Fail("setup", trace, "AddMessage: "+err.Error(), "")
				ok = false
			}
		}
		ok = ok && check("after filling the mailbox")
		for round := 0; round < 3 && ok; round++ {
			// one delivery with ONE failing index write (the 1st create-tmp is the eviction's, the last the delivery's own)
			target := 1 + r.Intn(2)
			seenTmp, blocked := 0, ""
			file.VerifStepHook = func(step, path string) {
				if blocked != "" {
					os.Remove(blocked)
					blocked = ""
				}
				if step == "create-tmp" {
					seenTmp++
					if seenTmp == target {
						if os.Mkdir(path, 0o755) == nil {
							blocked = path
						}
					}
				}
			}
			_, err := b.st.AddMessage(c09Delivery(box, 100+round, 30+r.Intn(50), time.Now()))
			file.VerifStepHook = nil
			if blocked != "" {
				os.Remove(blocked)
			}
			trace = append(trace, fmt.Sprintf("AddMessage with index write #%d of it refused once by the file system -> %v", target, err))
			c.H(fmt.Sprintf("fsfault:index-write-%d-refused:%s", target, map[bool]string{true: "delivery-failed", false: "delivery-ok"}[err != nil]))
			ok = check("after the faulty delivery")
			// the disk works again: two ordinary deliveries (each evicts the oldest)
			for k := 0; k < 2 && ok; k++ {
				if _, err := b.st.AddMessage(c09Delivery(box, 200+10*round+k, 30+r.Intn(50), time.Now())); err != nil {
					c.Fail("usable-after-fault", append(trace, "a later delivery, no fault"), "AddMessage: "+err.Error(), "")
					ok = false
					break
				}
				trace = append(trace, "AddMessage (no fault) -> ok")
				ok = check("after a later delivery")
			}
		}
		c.Count(strings.Join(trace, "|"), true)
		os.RemoveAll(dir)
	}
}
