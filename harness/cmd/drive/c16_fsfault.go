package main

// C16 (extra leg): file-system calls REFUSED inside the file store's mutating operations, the process living on.
//
// The verif step hook of pkg/storage/file is called immediately before every file-system mutation, in execution order; the k-th call of an
// operation (k = 0, 1, …) is the k-th `Hook` of the fault model lean/Ibx/Model/FsFault.lean.  The hook makes the NEXT call fail by
// obstructing its path and removes the obstruction at the following hook call (or when the operation has returned), so that a refused call
// leaves the directory as the model says — exactly as it was:
//     mkdirall      a regular file where the first missing directory of the path would be created
//     create-raw    a directory in place of <id>.raw                      create-tmp     a directory in place of index.gob.tmp
//     copy-raw      the delivery's reader fails (io.Copy returns the error)
//     flush-tmp     index.gob.tmp is made a symlink to /dev/full at create-tmp (the buffered index reaches the file at the flush)
//     rename        index.gob.tmp is moved aside (ENOENT), moved back afterwards
//     unlink-raw    <id>.raw is moved aside (ENOENT), moved back afterwards
//     unlink-index  a non-empty directory in place of index.gob (os.Remove fails with something else than ENOENT), the index put back afterwards
//     rmdir-parent  a file inside the directory that is to be removed
//   flush-raw (the body went to the file during copy-raw: the buffer is empty), close-raw, close-tmp and removeall cannot be made to fail this way; an index that lands on them is recorded and the operation runs unhindered.
//
// Every operation of a scenario — faulty or not — is (T2) compared with the model's `fault <op> refuse=<indices>`: the result class, the
// `deleted` events in order, the hook trace (= the steps the code still executed), whether the mailbox directory exists, the unlisted files left
// in it, and what every mailbox lists (metadata and content).
//
// Implementation-only oracles (never consult the model):
//   * listing-works, listed-is-readable, usable-after-fault, untouched-unchanged: after ANY set of refused calls (theorem
//     `refused_steps_keep_store_wellformed`);
//   * deleted-event-once, deleted-means-gone, events-exact: after an operation without fault, after a delivery with ONE refused call
//     (`one_refused_step_in_add_outcomes`, `one_refused_index_write_in_capped_add_events_exact`), as long as the scenario has not gone through a case where the code as it is lets events and disk
//     disagree — a refused index write inside RemoveMessage / PurgeMessages, or two refused index writes inside one capped delivery; there the
//     tie is that the implementation does what the model says (`refused_index_write_in_remove_announces_twice`,
//     `both_index_writes_refused_in_capped_add_fails`), which the comparison asserts.
// `deleted` events travel through the asynchronous broker: the listener is synchronised with a sentinel event emitted after each operation
// (the per-listener queue is FIFO), never by sleeping.

import (
	"errors"
	"fmt"
	"io"
	"math/rand"
	"net/mail"
	"os"
	"path/filepath"
	"sort"
	"strconv"
	"strings"
	"sync"
	"time"

	"github.com/inbucket/inbucket/v3/pkg/config"
	"github.com/inbucket/inbucket/v3/pkg/extension"
	"github.com/inbucket/inbucket/v3/pkg/extension/event"
	"github.com/inbucket/inbucket/v3/pkg/message"
	"github.com/inbucket/inbucket/v3/pkg/storage"
	"github.com/inbucket/inbucket/v3/pkg/storage/file"
	"github.com/inbucket/inbucket/v3/pkg/stringutil"

	"verif/harness/internal/core"
)

func init() {
	prev := extra["C16"]
	extra["C16"] = func(c *core.Ctx) {
		if prev != nil {
			prev(c)
		}
		c16FsFault(c)
	}
	register("C16FSF", func(c *core.Ctx) { c.Res.Rule = "the fsfault leg of C16 alone (for the builder's use)"; c16FsFault(c) })
}

var c16FsMu sync.Mutex // the step hook is one per process

const fsfBarrierBox = "\x00fsfault-barrier"

// ---------------------------------------------------------------- the delivery's reader (copy-raw)

type fsfReader struct {
	data []byte
	off  int
	fail bool
}

func (r *fsfReader) Read(p []byte) (int, error) {
	if r.fail {
		return 0, errors.New("injected: the message source cannot be read")
	}
	if r.off >= len(r.data) {
		return 0, io.EOF
	}
	n := copy(p, r.data[r.off:])
	r.off += n
	return n, nil
}

// ---------------------------------------------------------------- one scenario

type fsf struct {
	*c11Enc
	c     *core.Ctx
	m     *core.Model
	r     *rand.Rand
	root  string // store directory
	cap   int
	names []string // names[0] is the mailbox the operations address
	st    storage.Store
	host  *extension.Host

	mu       sync.Mutex
	deleted  [][2]string // (mailbox, id) in arrival order
	barrier  chan string
	barrierN int

	adds      map[string]int // deliveries attempted per mailbox = rank of the last one
	trace     []string
	dead      bool
	noModel   bool
	tainted   bool            // the code as it is has let events and disk disagree (a case of theorem group (c)): exactness oracles off
	listed    map[string]bool // ids of names[0] listed after the previous operation
	announced map[string]int  // id of names[0] -> number of deleted events
	before    map[string]string

	// used by the legs that run this machinery under other properties (storefault.go); nil / zero in the C16 leg
	pred    func(k int, step string) bool                   // a CLASS of refused calls, decided on the real execution: hook call k of the operation, announcing `step`, is refused
	afterOp func()                                          // runs when the operation has returned, before anything is listed
	oracle  func(o storeOp, obs *fsfObs, in *fsfInject)     // further implementation-only oracles, run before the model is consulted
	extra   string                                          // appended to the model query (a fault the hook calls do not carry)
	pending string                                          // the operation in progress, until its line (with what was refused and what it answered) joins the trace
}

func (h *fsf) boxPath(box string) string {
	hash := stringutil.HashMailboxName(box)
	return filepath.Join(h.root, "mail", hash[:3], hash[:6], hash)
}

func (h *fsf) lines(extra ...string) []string {
	l := append([]string{}, h.trace...)
	if h.pending != "" {
		l = append(l, h.pending) // the operation whose outcome is being looked at: part of the failing input
	}
	return append(l, extra...)
}

// sync with the asynchronous broker: everything emitted before the sentinel has been delivered when the sentinel arrives
func (h *fsf) sync() bool {
	h.barrierN++
	want := strconv.Itoa(h.barrierN)
	h.host.Events.AfterMessageDeleted.Emit(&event.MessageMetadata{Mailbox: fsfBarrierBox, ID: want})
	deadline := time.After(20 * time.Second)
	for {
		select {
		case got := <-h.barrier:
			if got == want {
				return true
			}
		case <-deadline:
			return false
		}
	}
}

// ---------------------------------------------------------------- the injecting hook

type fsfInject struct {
	h        *fsf
	box      string
	rank     int // rank of the delivery in progress (add), else 0
	refuse   map[int]bool
	k        int
	toks     []string
	undo     func()
	undoAt   int // the undo runs at the first hook call with index > undoAt
	injected []int
	skipped  []string
	parents  bool // a rmdir-parent was refused: the harness removes the empty parents itself afterwards (the model does not remember them)
	reader   *fsfReader
	devFull  bool
	placed   map[int]bool // refused calls whose obstruction was put in place one hook call earlier (flush-tmp)
}

func (in *fsfInject) refused(k int, step string) bool {
	return in.refuse[k] || (in.h.pred != nil && in.h.pred(k, step))
}

func (in *fsfInject) token(step, path string) string {
	h := in.h
	idOf := func() string { return strings.TrimSuffix(filepath.Base(path), ".raw") }
	switch step {
	case "create-raw":
		id := idOf()
		if h.ranks[in.box] == nil {
			h.ranks[in.box] = map[string]int{}
		}
		if _, dup := h.ranks[in.box][id]; dup {
			h.dead = true
		} else {
			h.ranks[in.box][id] = in.rank
		}
		return fmt.Sprintf("create-raw:%d", in.rank)
	case "copy-raw", "flush-raw", "close-raw", "unlink-raw":
		return fmt.Sprintf("%s:%d", step, h.rank(in.box, idOf()))
	case "rmdir-parent":
		rel, _ := filepath.Rel(h.root, path)
		return fmt.Sprintf("rmdir-parent:%d", len(strings.Split(filepath.ToSlash(rel), "/"))-1)
	}
	return step
}

func (in *fsfInject) set(k int, undo func()) {
	in.undo, in.undoAt = undo, k
}

func (in *fsfInject) finish() {
	if in.undo != nil {
		in.undo()
		in.undo = nil
	}
	if in.parents {
		p := filepath.Dir(in.h.boxPath(in.box))
		if os.Remove(p) == nil {
			os.Remove(filepath.Dir(p))
		}
	}
}

func (in *fsfInject) hook(step, path string) {
	if in.undo != nil && in.k > in.undoAt {
		in.undo()
		in.undo = nil
	}
	k := in.k
	in.k++
	in.toks = append(in.toks, in.token(step, path))
	side := path + ".fsfault-aside"
	if in.placed[k] {
		return
	}
	if !in.refused(k, step) {
		// a refused flush-tmp is prepared one hook call earlier: the file about to be created becomes /dev/full
		ahead := -1
		if step == "create-tmp" && in.refused(k+1, "flush-tmp") {
			ahead = k + 1
		}
		if ahead >= 0 && in.devFull && in.undo == nil {
			os.Remove(path)
			if os.Symlink("/dev/full", path) == nil {
				in.set(ahead, func() {
					if fi, err := os.Lstat(path); err == nil && fi.Mode()&os.ModeSymlink != 0 {
						os.Remove(path)
						os.WriteFile(path, nil, 0o660) // the model: index.gob.tmp was created and nothing reached it
					}
				})
				in.injected = append(in.injected, ahead)
				in.refuse[ahead] = false // placed; not to be counted as "could not be obstructed" when the flush comes
				in.placed[ahead] = true
			}
		}
		return
	}
	ok := false
	switch step {
	case "mkdirall":
		p := path
		for {
			if _, err := os.Stat(filepath.Dir(p)); err == nil {
				break
			}
			p = filepath.Dir(p)
		}
		if os.WriteFile(p, nil, 0o660) == nil {
			ok = true
			in.set(k, func() { os.Remove(p) })
		}
	case "create-raw", "create-tmp":
		var keep []byte
		had := false
		if b, err := os.ReadFile(path); err == nil { // a leftover index.gob.tmp: the refused create does not truncate it
			keep, had = b, true
			os.Remove(path)
		}
		if os.Mkdir(path, 0o770) == nil {
			ok = true
			in.set(k, func() {
				os.Remove(path)
				if had {
					os.WriteFile(path, keep, 0o660)
				}
			})
		}
	case "copy-raw":
		if in.reader != nil {
			in.reader.fail = true
			ok = true
		}
	case "rename":
		tmp := path + ".tmp"
		if os.Rename(tmp, side) == nil {
			ok = true
			in.set(k, func() { os.Rename(side, tmp) })
		}
	case "unlink-raw":
		if os.Rename(path, side) == nil {
			ok = true
			in.set(k, func() { os.Rename(side, path) })
		}
	case "unlink-index":
		had := os.Rename(path, side) == nil
		if os.Mkdir(path, 0o770) == nil && os.WriteFile(filepath.Join(path, "x"), nil, 0o660) == nil {
			ok = true
			in.set(k, func() {
				os.RemoveAll(path)
				if had {
					os.Rename(side, path)
				}
			})
		} else if had {
			os.Rename(side, path)
		}
	case "rmdir-parent":
		x := filepath.Join(path, "fsfault-occupied")
		if os.WriteFile(x, nil, 0o660) == nil {
			ok = true
			in.parents = true
			in.set(k, func() { os.Remove(x) })
		}
	}
	if ok {
		in.injected = append(in.injected, k)
	} else {
		in.skipped = append(in.skipped, fmt.Sprintf("%d:%s", k, step))
	}
}

// ---------------------------------------------------------------- observing the implementation

type fsfObs struct {
	res     string
	events  []string // ranks, in order
	toks    []string
	dir     int
	orphans []string
	views   string
	per     map[string]string
	ids     map[string]bool // ids of names[0] listed now
	fresh   [][2]string     // the raw events of this operation
}

func (o *fsfObs) String() string {
	csv := func(l []string) string {
		if len(l) == 0 {
			return "_"
		}
		return strings.Join(l, ",")
	}
	return fmt.Sprintf("res=%s events=%s trace=%s dir=%d orphans=%s %s", o.res, csv(o.events), csv(o.toks), o.dir, csv(o.orphans), o.views)
}

func (h *fsf) delivery(o storeOp, rd *fsfReader) *message.Delivery {
	tos := make([]*mail.Address, len(o.to))
	for i, t := range o.to {
		tos[i] = &mail.Address{Address: t}
	}
	return &message.Delivery{Meta: event.MessageMetadata{Mailbox: o.box, From: &mail.Address{Address: o.from}, To: tos,
		Date: time.Unix(o.date, 0), Subject: o.subj}, Reader: rd}
}

// run one operation on the real store with the hook calls `refuse` obstructed
func (h *fsf) run(o storeOp, refuse []int) (*fsfObs, *fsfInject) {
	in := &fsfInject{h: h, box: o.box, refuse: map[int]bool{}, undoAt: -1, placed: map[int]bool{}}
	if _, err := os.Stat("/dev/full"); err == nil {
		in.devFull = true
	}
	for _, k := range refuse {
		in.refuse[k] = true
	}
	h.mu.Lock()
	ev0 := len(h.deleted)
	h.mu.Unlock()
	obs := &fsfObs{}
	func() {
		defer func() {
			if r := recover(); r != nil {
				obs.res = fmt.Sprintf("panic:%v", r)
			}
		}()
		file.VerifStepHook = in.hook
		defer func() { file.VerifStepHook = nil }()
		var err error
		switch o.kind {
		case "add":
			in.rank = o.id
			in.reader = &fsfReader{data: o.body}
			_, err = h.st.AddMessage(h.delivery(o, in.reader))
		case "seen":
			err = h.st.MarkSeen(o.box, h.realID(o.box, o.id))
		case "rm":
			err = h.st.RemoveMessage(o.box, h.realID(o.box, o.id))
		case "purge":
			err = h.st.PurgeMessages(o.box)
		}
		switch {
		case err == nil:
			obs.res = "ok"
		case err == storage.ErrNotExist:
			obs.res = "notExist"
		default:
			obs.res = "err"
		}
	}()
	in.finish()
	if h.afterOp != nil {
		h.afterOp()
	}
	obs.toks = in.toks
	if !h.sync() {
		h.c.Fail("events-arrive", h.lines(), "the sentinel event emitted after the operation did not reach the listener within 20 s", "")
		h.dead = true
		return obs, in
	}
	h.mu.Lock()
	obs.fresh = append([][2]string{}, h.deleted[ev0:]...)
	h.mu.Unlock()
	for _, e := range obs.fresh {
		if e[0] == o.box {
			obs.events = append(obs.events, strconv.Itoa(h.rank(o.box, e[1])))
		} else {
			obs.events = append(obs.events, fmt.Sprintf("other-mailbox(%s/%s)", core.HexS(e[0]), e[1]))
		}
	}
	// what the mailboxes list
	obs.per = map[string]string{}
	parts := make([]string, len(h.names))
	for i, b := range h.names {
		ents, problems, err := h.list(h.st, b)
		obs.per[b] = c11View(ents, err)
		parts[i] = core.HexS(b) + "=" + obs.per[b]
		if err != nil {
			h.c.Fail("listing-works", h.lines(), fmt.Sprintf("GetMessages(%q): %v", b, err), "")
		}
		for _, p := range problems {
			h.c.Fail("listed-is-readable", h.lines(), fmt.Sprintf("mailbox %q: %s", b, p), "")
		}
	}
	obs.views = strings.Join(parts, " ")
	obs.ids = map[string]bool{}
	if ms, err := h.st.GetMessages(o.box); err == nil {
		for _, m := range ms {
			obs.ids[m.ID()] = true
		}
	}
	// the directory of the operation's mailbox
	dir := h.boxPath(o.box)
	if ents, err := os.ReadDir(dir); err == nil {
		obs.dir = 1
		ranks := []int{}
		tmp, other := false, []string{}
		for _, e := range ents {
			n := e.Name()
			switch {
			case n == "index.gob":
			case n == "index.gob.tmp":
				tmp = true
			case strings.HasSuffix(n, ".raw"):
				if id := strings.TrimSuffix(n, ".raw"); !obs.ids[id] {
					ranks = append(ranks, h.rank(o.box, id))
				}
			default:
				other = append(other, "other:"+n)
			}
		}
		sort.Ints(ranks)
		for _, x := range ranks {
			obs.orphans = append(obs.orphans, fmt.Sprintf("raw:%d", x))
		}
		if tmp {
			obs.orphans = append(obs.orphans, "tmp")
		}
		obs.orphans = append(obs.orphans, other...)
	}
	return obs, in
}

// the model's answer for the same operation with the calls that were really obstructed refused
func (h *fsf) ask(o storeOp, ks []int, dry bool) string {
	s := make([]string, len(ks))
	for i, k := range ks {
		s[i] = strconv.Itoa(k)
	}
	ref := "_"
	if len(s) > 0 {
		ref = strings.Join(s, ",")
	}
	q := fmt.Sprintf("fault %s refuse=%s", c11Line(o), ref)
	if dry {
		q += " dry=1"
	}
	if h.extra != "" {
		q += " " + h.extra
	}
	return h.m.Ask(q)
}

func fsfTrace(ans string) []string {
	for _, f := range strings.Fields(ans) {
		if strings.HasPrefix(f, "trace=") {
			if f == "trace=_" {
				return nil
			}
			return strings.Split(strings.TrimPrefix(f, "trace="), ",")
		}
	}
	return nil
}

func fsfIsIndexWrite(tok string) bool {
	switch tok {
	case "create-tmp", "flush-tmp", "close-tmp", "rename", "unlink-index", "removeall":
		return true
	}
	return false
}

func fsfInjectable(tok string) bool {
	if strings.HasPrefix(tok, "close-") || tok == "removeall" || tok == "flush-raw" {
		return false
	}
	return true
}

// step executes one operation: real store with injection, model, comparison, oracles.  exact: the exactness oracles apply to it.
func (h *fsf) step(o storeOp, refuse []int, label string, exact bool) (*fsfObs, *fsfInject) {
	c := h.c
	line := c11Line(o)
	if o.kind == "add" {
		if h.bodies[o.box] == nil {
			h.bodies[o.box] = map[int][]byte{}
		}
		h.bodies[o.box][o.id] = o.body
	}
	h.pending = fmt.Sprintf("%s   [%s] (this operation)", c11Short(line), label)
	obs, in := h.run(o, refuse)
	h.pending = ""
	if h.dead {
		return obs, in
	}
	sort.Ints(in.injected)
	inj := fmt.Sprint(in.injected)
	h.trace = append(h.trace, fmt.Sprintf("%s   [%s; hook calls refused: %s; could not be obstructed: %v] -> %s", c11Short(line), label, inj, in.skipped, obs.res))
	c.Count(strings.Join(h.trace, "\n"), len(in.injected) > 0)
	c.H("fsfault:op:" + o.kind + ":" + obs.res)
	for _, k := range in.injected {
		if k < len(obs.toks) {
			t := obs.toks[k]
			if j := strings.Index(t, ":"); j >= 0 {
				t = t[:j]
			}
			c.H("fsfault:refused:" + o.kind + ":" + t)
		}
	}
	for _, s := range in.skipped {
		c.H("fsfault:not-obstructable:" + s[strings.Index(s, ":")+1:])
	}
	if strings.HasPrefix(obs.res, "panic") {
		c.Fail("no-panic", h.lines(), obs.res, "")
		h.dead = true
		return obs, in
	}
	// ---- oracles that hold after ANY set of refused calls
	for _, b := range h.names {
		if b != o.box && obs.per[b] != h.before[b] {
			c.Fail("untouched-unchanged", h.lines(), fmt.Sprintf("mailbox %q (not the operation's) lists %s, before the operation %s", b, c11Short(obs.per[b]), c11Short(h.before[b])), "")
		}
	}
	if len(in.injected) == 0 && len(refuse) == 0 && obs.res == "err" && h.extra == "" {
		c.Fail("usable-after-fault", h.lines(), "an operation without any fault failed", "")
	}
	// ---- the event bookkeeping of the addressed mailbox (names[0])
	if o.box == h.names[0] {
		for _, e := range obs.fresh {
			if e[0] == o.box {
				h.announced[e[1]]++
			}
		}
		disagree := false
		for id, n := range h.announced {
			if n > 1 || obs.ids[id] {
				disagree = true
			}
		}
		if exact && !h.tainted {
			for _, e := range obs.fresh {
				id := e[1]
				if e[0] != o.box {
					c.Fail("events-exact", h.lines(), fmt.Sprintf("a deleted event for %s/%s was emitted by an operation on %q", e[0], id, o.box), "")
					continue
				}
				if h.announced[id] > 1 {
					c.Fail("deleted-event-once", h.lines(), fmt.Sprintf("message %s/%s was announced as deleted %d times", o.box, id, h.announced[id]), "")
				}
				if obs.ids[id] {
					c.Fail("deleted-means-gone", h.lines(), fmt.Sprintf("message %s/%s was announced as deleted and is still listed", o.box, id), "")
				}
			}
			for id := range h.listed {
				if !obs.ids[id] && h.announced[id] == 0 {
					c.Fail("events-exact", h.lines(), fmt.Sprintf("message %s/%s left the mailbox without a deleted event", o.box, id), "")
				}
			}
		} else if disagree && !h.tainted {
			h.tainted = true
			c.H("fsfault:events-and-disk-disagree:" + label)
		}
		h.listed = obs.ids
	}
	h.before = obs.per
	if h.oracle != nil {
		h.oracle(o, obs, in)
	}
	// ---- T2: the model
	if !h.noModel {
		ans := h.ask(o, in.injected, false)
		c.Compared(1)
		if impl := obs.String(); impl != ans {
			c.Diverge("fsfault-outcome", h.lines("--> res, deleted events, hook trace, directory, unlisted files, views of all mailboxes"), impl, ans)
			h.noModel = true
		}
	}
	return obs, in
}

func (h *fsf) newAdd(r *rand.Rand, box string) storeOp {
	h.adds[box]++
	k := h.adds[box]
	body := make([]byte, 20+r.Intn(60))
	copy(body, "Subject: t\r\n\r\n")
	for i := 14; i < len(body); i++ {
		body[i] = byte('a' + r.Intn(26))
	}
	if r.Intn(12) == 0 {
		body = nil
	}
	to := make([]string, r.Intn(3))
	for i := range to {
		to[i] = fmt.Sprintf("rcpt%d@dest.org", r.Intn(9))
	}
	return storeOp{kind: "add", box: box, id: k, body: body, from: fmt.Sprintf("s%d@src.net", r.Intn(5)), to: to, subj: fmt.Sprintf("t%d", k), date: 1700000000 + int64(k)*17}
}

// the ranks listed in names[0], oldest first
func (h *fsf) listedRanks() []int {
	res := []int{}
	if ms, err := h.st.GetMessages(h.names[0]); err == nil {
		for _, m := range ms {
			res = append(res, h.rank(h.names[0], m.ID()))
		}
	}
	return res
}

func c16FsFault(c *core.Ctx) {
	c16FsMu.Lock()
	defer c16FsMu.Unlock()
	defer func() { file.VerifStepHook = nil }()
	start := time.Now()
	r := c.SubRng("c16-fsfault")
	m := c.NewModel("crash")
	defer m.Close()
	n := c.Scale(160, 3000)
	ops, faulty := 0, 0
	fsfWitnesses(c, m, r)
	for i := 0; i < n; i++ {
		a, b := fsfScenario(c, m, r, i)
		ops += a
		faulty += b
	}
	c.Note("C16 fsfault: %d scenarios, %d operations compared with the fault model, %d of them with at least one refused call, %.1fs", n, ops, faulty, time.Since(start).Seconds())
}

// fsfOpen: a fresh file store with a recording listener, and the model set up for the same mailboxes
func fsfOpen(c *core.Ctx, m *core.Model, r *rand.Rand, label string, cap int, names []string) (*fsf, func()) {
	root := filepath.Join(c.Workdir, fmt.Sprintf("c16-fsfault-%d-%s", os.Getpid(), label))
	os.MkdirAll(root, 0o755)
	cleanup := func() { os.RemoveAll(root) }
	h := &fsf{c11Enc: newC11Enc(), c: c, m: m, r: r, root: root, barrier: make(chan string, 4), adds: map[string]int{},
		listed: map[string]bool{}, announced: map[string]int{}, before: map[string]string{}}
	h.cap = cap
	h.names = names
	h.host = extension.NewHost()
	h.host.Events.AfterMessageDeleted.AddListener("verif-fsfault", func(md event.MessageMetadata) {
		if md.Mailbox == fsfBarrierBox {
			h.barrier <- md.ID
			return
		}
		h.mu.Lock()
		h.deleted = append(h.deleted, [2]string{md.Mailbox, md.ID})
		h.mu.Unlock()
	})
	st, err := file.New(config.Storage{MailboxMsgCap: h.cap, Params: map[string]string{"path": root}}, h.host)
	if err != nil {
		c.Fail("setup", nil, err.Error(), "")
		return nil, cleanup
	}
	h.st = st
	setup := []string{fmt.Sprintf("cfg cap=%d variant=safe", h.cap)}
	for _, b := range h.names {
		hash := stringutil.HashMailboxName(b)
		l1, _ := strconv.ParseUint(hash[:3], 16, 64)
		l2, _ := strconv.ParseUint(hash[:6], 16, 64)
		setup = append(setup, fmt.Sprintf("box %s l1=%d l2=%d", core.HexS(b), l1, l2))
	}
	for _, l := range setup {
		h.trace = append(h.trace, l)
		if a := m.Ask(l); a != "ok" {
			c.Diverge("crash-driver", h.lines(), "ok", a)
			return nil, cleanup
		}
	}
	for _, b := range h.names {
		h.before[b] = "[]"
	}
	return h, cleanup
}

// fsfWitnesses replays the concrete states of the counter-witness theorems of Props/C16Fault.lean on the real store: the implementation must
// do what the THEOREMS say (result class and deleted events, step by step), besides agreeing with the model.
func fsfWitnesses(c *core.Ctx, m *core.Model, r *rand.Rand) {
	type stp struct {
		o      storeOp
		refuse []int
		res    string
		events string
	}
	add := func(k int, body string) storeOp {
		return storeOp{kind: "add", box: "a", id: k, body: []byte(body), from: "s", to: []string{"r"}, subj: "x", date: 1700000000}
	}
	cases := []struct {
		name string
		cap  int
		stps []stp
	}{
		{"refused_index_write_in_remove_announces_twice", 0, []stp{
			{add(1, "hello"), nil, "ok", ""}, {add(2, "yo"), nil, "ok", ""},
			{storeOp{kind: "rm", box: "a", id: 1}, []int{0}, "err", "1"},
			{storeOp{kind: "rm", box: "a", id: 1}, nil, "ok", "1"}}},
		{"both_index_writes_refused_in_capped_add_fails", 2, []stp{
			{add(1, "hello"), nil, "ok", ""}, {add(2, "yo"), nil, "ok", ""},
			{add(3, "!"), []int{0, 5}, "err", "1"},
			{add(4, "\""), nil, "ok", "1"}}},
		{"refused_unlink_index_in_purge_keeps_everything_listed", 0, []stp{
			{add(1, "hello"), nil, "ok", ""}, {add(2, "yo"), nil, "ok", ""},
			{storeOp{kind: "purge", box: "a"}, []int{0}, "err", "1,2"}}},
	}
	for _, cs := range cases {
		h, cleanup := fsfOpen(c, m, r, "witness-"+cs.name, cs.cap, []string{"a"})
		if h == nil {
			cleanup()
			continue
		}
		h.trace = append(h.trace, "theorem "+cs.name)
		var before string
		for i, st := range cs.stps {
			if st.o.kind == "add" {
				h.adds["a"] = st.o.id
			}
			if len(st.refuse) > 0 {
				before = h.before["a"]
			}
			obs, in := h.step(st.o, st.refuse, "counter-witness", false)
			if h.dead {
				break
			}
			got := fmt.Sprintf("res=%s events=%s refused=%v", obs.res, strings.Join(obs.events, ","), in.injected)
			want := fmt.Sprintf("res=%s events=%s refused=%v", st.res, st.events, append([]int{}, st.refuse...))
			c.Compared(1)
			if got != want {
				c.Diverge("fsfault-counter-witness", h.lines(fmt.Sprintf("--> step %d of the theorem's scenario", i)), got, want)
				break
			}
			if len(st.refuse) > 0 && obs.per["a"] != before {
				c.Diverge("fsfault-counter-witness", h.lines("--> the theorem says the mailbox reads as before the refused operation"), obs.per["a"], before)
				break
			}
		}
		c.H("fsfault:counter-witness-replayed")
		cleanup()
	}
}

func fsfScenario(c *core.Ctx, m *core.Model, r *rand.Rand, idx int) (nOps, nFaulty int) {
	cap := 1 + r.Intn(3)
	if r.Intn(10) == 0 {
		cap = 0
	}
	box := []string{"fault", "Fault@example.com", "x"}[r.Intn(3)]
	names := []string{box}
	switch r.Intn(4) {
	case 0: // a bystander somewhere else
		names = append(names, "bystander")
	case 1: // a bystander in the same level-1 directory
		p := collidePool()
		if len(p) >= 2 {
			names = []string{p[0], p[1]}
		}
	case 2: // … in the same level-2 directory
		p := c11SameL2()
		if len(p) >= 2 {
			names = []string{p[0], p[1]}
		}
	}
	box = names[0]
	h, cleanup := fsfOpen(c, m, r, strconv.Itoa(idx), cap, names)
	defer cleanup()
	if h == nil {
		return
	}
	count := func(in *fsfInject) {
		nOps++
		if len(in.injected) > 0 {
			nFaulty++
		}
	}
	alive := func() bool { return !h.dead }
	// ---- fill: the bystander gets mail, the mailbox is filled to its cap
	if len(h.names) > 1 {
		for k := 0; k < 1+r.Intn(2) && alive(); k++ {
			_, in := h.step(h.newAdd(r, h.names[1]), nil, "no fault", true)
			count(in)
		}
	}
	fill := h.cap
	if fill == 0 {
		fill = 1 + r.Intn(3)
	}
	for k := 0; k < fill && alive(); k++ {
		_, in := h.step(h.newAdd(r, box), nil, "no fault", true)
		count(in)
	}
	// ---- rounds: one faulty operation, then the disk works again: two ordinary deliveries
	for round := 0; round < 3 && alive(); round++ {
		var o storeOp
		var refuse []int
		label := ""
		exact := false
		pickListed := func() int {
			l := h.listedRanks()
			if len(l) == 0 || r.Intn(8) == 0 {
				return 9000 + r.Intn(5)
			}
			return l[r.Intn(len(l))]
		}
		dry := func(ks []int) []string { return fsfTrace(h.ask(o, ks, true)) }
		pick := func(toks []string, ok func(string) bool, from int) int {
			cand := []int{}
			for k := from; k < len(toks); k++ {
				t := toks[k]
				if j := strings.Index(t, ":"); j >= 0 {
					t = t[:j]
				}
				if ok(t) {
					cand = append(cand, k)
				}
			}
			if len(cand) == 0 {
				return -1
			}
			return cand[r.Intn(len(cand))]
		}
		any := func(string) bool { return true }
		switch x := r.Intn(100); {
		case x < 40:
			o, label, exact = h.newAdd(r, box), "delivery, ONE refused call", true
			if k := pick(dry(nil), any, 0); k >= 0 {
				refuse = []int{k}
			}
		case x < 58:
			o, label, exact = h.newAdd(r, box), "delivery, ONE refused index write", true
			if k := pick(dry(nil), fsfIsIndexWrite, 0); k >= 0 {
				refuse = []int{k}
			}
		case x < 68:
			o, label = h.newAdd(r, box), "delivery, the eviction's and its own index write refused"
			if k1 := pick(dry(nil), func(t string) bool { return t == "create-tmp" || t == "unlink-index" || t == "rename" }, 0); k1 >= 0 {
				refuse = []int{k1}
				t2 := dry(refuse)
				last := -1
				for k := k1 + 1; k < len(t2); k++ {
					if t2[k] == "create-tmp" {
						last = k
					}
				}
				if last >= 0 {
					refuse = append(refuse, last+[]int{0, 0, 3}[r.Intn(3)]) // create-tmp or rename of the delivery's own index write
				}
			}
		case x < 80:
			o, label = storeOp{kind: "rm", box: box, id: pickListed()}, "RemoveMessage, ONE refused call"
			if k := pick(dry(nil), any, 0); k >= 0 {
				refuse = []int{k}
			}
		case x < 86:
			o, label, exact = storeOp{kind: "seen", box: box, id: pickListed()}, "MarkSeen, ONE refused call", true
			if k := pick(dry(nil), any, 0); k >= 0 {
				refuse = []int{k}
			}
		case x < 92:
			o, label = storeOp{kind: "purge", box: box}, "PurgeMessages, ONE refused call"
			if k := pick(dry(nil), any, 0); k >= 0 {
				refuse = []int{k}
			}
		default:
			switch r.Intn(3) {
			case 0:
				o = h.newAdd(r, box)
			case 1:
				o = storeOp{kind: "rm", box: box, id: pickListed()}
			default:
				o = storeOp{kind: "purge", box: box}
			}
			label = o.kind + ", TWO refused calls"
			if k1 := pick(dry(nil), fsfInjectable, 0); k1 >= 0 {
				refuse = []int{k1}
				if k2 := pick(dry(refuse), fsfInjectable, k1+1); k2 >= 0 {
					refuse = append(refuse, k2)
				}
			}
		}
		obs, in := h.step(o, refuse, label, exact && len(refuse) <= 1)
		count(in)
		if !alive() {
			break
		}
		// the counter-witness cases of the model, observed on the implementation alone (histogram only; the comparison above is the tie)
		if len(in.injected) > 0 && o.kind != "seen" {
			for _, e := range obs.fresh {
				if e[0] == box && obs.ids[e[1]] {
					c.H("fsfault:announced-deleted-and-still-listed:" + o.kind + ":" + obs.res)
					break
				}
			}
		}
		for k := 0; k < 2 && alive(); k++ {
			obs2, in2 := h.step(h.newAdd(r, box), nil, "no fault, after the faulty operation", true)
			count(in2)
			if alive() && obs2.res != "ok" {
				c.Fail("usable-after-fault", h.lines(), "a delivery after the fault has gone answered "+obs2.res, "")
			}
		}
	}
	if idx < 4 {
		c.Sample(map[string]interface{}{"leg": "fsfault", "scenario": idx, "cap": h.cap, "mailboxes": h.names, "lines": h.trace})
	}
	return
}
