package main

// C10 / C11 (extra leg, implementation only): remnants of an interrupted first delivery and the mailbox walk.  A crash (or an I/O error) between
// `mkdir` of a new mailbox directory and the first index write leaves an EMPTY mailbox directory; C11's theorem `orphans_harmless` says it
// changes no view.  After the restart a mailbox walk (retention scanner, REST "all mailboxes") reaches that directory and hands the visitor an
// empty listing; while the visitor is busy with it (the scanner sleeps RetentionSleep per mailbox) a delivery to exactly that mailbox arrives.
// Durability is about this mail too: whatever tidying the walk does with remnants, an acknowledged message is listed afterwards, after any
// number of restarts.  The delivery is placed INSIDE the visitor callback (deterministic placement of the overlap, as in the overlapping-request
// legs).

import (
	"bytes"
	"fmt"
	"io"
	"os"
	"path/filepath"
	"time"

	"github.com/inbucket/inbucket/v3/pkg/config"
	"github.com/inbucket/inbucket/v3/pkg/extension"
	"github.com/inbucket/inbucket/v3/pkg/storage"
	"github.com/inbucket/inbucket/v3/pkg/storage/file"
	"github.com/inbucket/inbucket/v3/pkg/stringutil"

	"verif/harness/internal/core"
)

func init() {
	for _, id := range []string{"C10", "C11"} {
		id := id
		prev := extra[id]
		extra[id] = func(c *core.Ctx) {
			if prev != nil {
				prev(c)
			}
			c10Remnant(c)
		}
	}
}

func c10Remnant(c *core.Ctx) {
	r := c.SubRng("c10-remnant")
	n := c.Scale(30, 400)
	for i := 0; i < n; i++ {
		dir := filepath.Join(c.Workdir, fmt.Sprintf("c10-remnant-%d-%d", os.Getpid(), i))
		os.RemoveAll(dir)
		cfg := config.Storage{MailboxMsgCap: []int{0, 0, 1, 3}[r.Intn(4)], Params: map[string]string{"path": dir}}
		open := func() storage.Store {
			st, err := file.New(cfg, extension.NewHost())
			if err != nil {
				c.Fail("setup", nil, "file.New: "+err.Error(), "")
				return nil
			}
			return st
		}
		st := open()
		if st == nil {
			return
		}
		names := c12Names(r, 3)
		ghost := names[0] // the mailbox whose first delivery was interrupted
		trace := []string{fmt.Sprintf("file store, cap %d", cfg.MailboxMsgCap)}
		for _, nm := range names[1:] { // ordinary neighbours, some sharing its hash directories
			if r.Intn(2) == 0 {
				st.AddMessage(c09Delivery(nm, 1, 40, time.Now()))
				trace = append(trace, fmt.Sprintf("deliver to %q", nm))
			}
		}
		h := stringutil.HashMailboxName(ghost)
		gdir := filepath.Join(dir, "mail", h[0:3], h[0:6], h)
		if err := os.MkdirAll(gdir, 0o770); err != nil {
			c.Fail("setup", trace, err.Error(), "")
			return
		}
		switch r.Intn(3) {
		case 1: // ... the raw file had been created, empty
			os.WriteFile(filepath.Join(gdir, "20200101T000000-0001.raw"), nil, 0o660)
			trace = append(trace, fmt.Sprintf("remnant of an interrupted first delivery to %q: directory + empty .raw, no index", ghost))
		case 2: // ... and partly written
			os.WriteFile(filepath.Join(gdir, "20200101T000000-0001.raw"), []byte("Subject: half"), 0o660)
			trace = append(trace, fmt.Sprintf("remnant of an interrupted first delivery to %q: directory + partial .raw, no index", ghost))
		default:
			trace = append(trace, fmt.Sprintf("remnant of an interrupted first delivery to %q: empty directory, no index", ghost))
		}
		st = open() // restart
		if st == nil {
			return
		}
		trace = append(trace, "restart")
		var ids []string
		body := bytes.Repeat([]byte("y"), 100)
		_ = body
		walks := 1 + r.Intn(2)
		for w := 0; w < walks; w++ {
			err := st.VisitMailboxes(func(ms []storage.Message) bool {
				if len(ms) == 0 && len(ids) <= w { // the walk is at an empty mailbox: mail for the remnant mailbox arrives now
					id, err := st.AddMessage(c09Delivery(ghost, 7+w, 60, time.Now()))
					if err != nil {
						c.Fail("accepts-mail-after", trace, fmt.Sprintf("delivery to %q while a mailbox walk is at an empty mailbox: %v", ghost, err), "")
						return true
					}
					ids = append(ids, id)
					trace = append(trace, fmt.Sprintf("delivery to %q (id %s) while the mailbox walk is inside its callback for an empty mailbox", ghost, id))
				}
				return true
			})
			if err != nil {
				c.Fail("visit-never-errors", trace, "VisitMailboxes: "+err.Error(), "")
			}
		}
		check := func(when string) {
			ms, err := st.GetMessages(ghost)
			if err != nil {
				c.Fail("listing-works", append(trace, when), fmt.Sprintf("GetMessages(%q): %v", ghost, err), "")
				return
			}
			have := map[string]bool{}
			for _, m := range ms {
				have[m.ID()] = true
				rd, err := m.Source()
				if err != nil {
					c.Fail("listed-is-readable", append(trace, when), fmt.Sprintf("%s/%s: %v", ghost, m.ID(), err), "")
					continue
				}
				b, _ := io.ReadAll(rd)
				rd.Close()
				if int64(len(b)) != m.Size() {
					c.Fail("read-back-intact", append(trace, when), fmt.Sprintf("%s/%s: %d bytes, Size() = %d", ghost, m.ID(), len(b), m.Size()), "")
				}
			}
			want := ids
			if cfg.MailboxMsgCap > 0 && len(want) > cfg.MailboxMsgCap {
				want = want[len(want)-cfg.MailboxMsgCap:]
			}
			c.Compared(1)
			for _, id := range want {
				if !have[id] {
					c.Fail("acknowledged-mail-is-stored", append(trace, when), fmt.Sprintf("message %s/%s was stored (AddMessage returned its id) and nobody removed it; the mailbox lists %d messages without it", ghost, id, len(ms)), "")
				}
			}
		}
		if len(ids) > 0 {
			check("right after the walk")
			st = open()
			if st == nil {
				return
			}
			check("after another restart")
			c.H("remnant:delivery-during-walk")
		} else {
			c.H("remnant:walk-met-no-empty-mailbox")
		}
		c.Count(fmt.Sprintf("remnant-%d", i), len(ids) > 0)
		os.RemoveAll(dir)
	}
}
