package main

// C06 / C03 leg "the two regular expressions of MAIL parsing" (hooked in through extra["C06"] and extra["C03"]; stand-alone as MAILARGS).
// The session model no longer takes the answers of Go's regexp engine as parameters: lean/Ibx/Model/MailArgs.lean holds hand-written recognisers
// `mailRe` (fromRegex.FindStringSubmatch: groups 1 and 2) and `parseArgs` (the ` (\w+)=(\w+|<>)` FindAllStringSubmatch of Session.parseArgs) and
// Props/C06Args.lean proves what they compute.  This leg is their tie (T2): the compiled model (driver ops `mailre <hex>` / `parseargs <hex>`)
// against the REAL expression / function of the tree under test (smtp.VerifFromRegex, smtp.VerifParseArgs), both groups compared byte for byte, on
//   (a) EVERY string  FROM:< + tail,  from: + tail  with tails up to a length over an alphabet that tells the classes of the expression apart
//       ('<' '>' '\' '"' '@' a word byte '=' ' ' '_' TAB and the two bytes C5 BF: each alone an invalid byte (U+FFFD), together U+017F, which
//       `(?i)\w` matches), every FROM:< tail two bytes longer over the eight bytes that decide where group 1 ends, and every parameter string up to a length over a second alphabet (' ' word bytes '=' '<' '>' '-' C5 BF);
//   (b) MAIL arguments drawn from a grammar: case-mixed FROM:, white space, atoms, quoted local parts (with '>' and '\' inside), quoted pairs,
//       non-ASCII runes, 0-4 parameters (SIZE, BODY, AUTH=<>, repeated and case-mixed keys, U+017F / U+212A in values, stray tokens);
//   (c) byte mutations of (b): a byte replaced / inserted / deleted / doubled, two arguments spliced.
// parseArgs returns a map (keys upper-cased, a later pair overrides): the model's ordered pairs are folded the same way and compared with it, and
// compared pair by pair with what the expression of the tree under test (read from pkg/server/smtp/handler.go) finds.
// Oracles on the implementation alone (what every later stage relies on):
//   mail-arg-decomposition   a match means  arg = … '<' m[1] '>' m[2]  with m[2] empty or beginning with a space
//   params-keys-are-words    every key of the map is a non-empty upper-cased \w-word, every value a \w-word or "<>"

import (
	"fmt"
	"go/ast"
	"go/parser"
	"go/token"
	"math/rand"
	"os"
	"path/filepath"
	"regexp"
	"sort"
	"strconv"
	"strings"
	"sync"

	"github.com/inbucket/inbucket/v3/pkg/server/smtp"

	"verif/harness/internal/core"
)

func init() {
	for _, id := range []string{"C06", "C03"} {
		id := id
		prev := extra[id]
		extra[id] = func(c *core.Ctx) {
			if prev != nil {
				prev(c)
			}
			mailArgsLeg(c)
		}
	}
	register("MAILARGS", func(c *core.Ctx) {
		c.Res.Rule = "the MAIL-argument leg alone (for the builder's use): model mailRe / parseArgs against the real expressions"
		mailArgsLeg(c)
	})
}

// pinned text of the parameter expression (Tie.Smtp.argsRegex_tie pins the same text); used when the source cannot be read
const argsReFallback = ` (\w+)=(\w+|<>)`

// argsRegexOfTree: the expression Session.parseArgs compiles, read from the source of the tree under test.
func argsRegexOfTree(c *core.Ctx) *regexp.Regexp {
	repo := os.Getenv("VERIF_REPO")
	if repo == "" {
		repo = "/repo"
	}
	text, where := "", ""
	fset := token.NewFileSet()
	pkgs, err := parser.ParseDir(fset, filepath.Join(repo, "pkg", "server", "smtp"), func(fi os.FileInfo) bool {
		return !strings.HasSuffix(fi.Name(), "_test.go")
	}, 0)
	if err == nil {
		lit := func(n ast.Node) (string, bool) {
			call, ok := n.(*ast.CallExpr)
			if !ok || len(call.Args) != 1 {
				return "", false
			}
			sel, ok := call.Fun.(*ast.SelectorExpr)
			if !ok || sel.Sel.Name != "MustCompile" {
				return "", false
			}
			bl, ok := call.Args[0].(*ast.BasicLit)
			if !ok || bl.Kind != token.STRING {
				return "", false
			}
			s, err := strconv.Unquote(bl.Value)
			return s, err == nil
		}
		for _, p := range pkgs {
			for _, f := range p.Files {
				for _, d := range f.Decls {
					switch d := d.(type) {
					case *ast.FuncDecl:
						if d.Name.Name != "parseArgs" || d.Body == nil {
							continue
						}
						ast.Inspect(d.Body, func(n ast.Node) bool {
							if s, ok := lit(n); ok && text == "" {
								text, where = s, "func parseArgs"
							}
							return true
						})
					case *ast.GenDecl:
						for _, sp := range d.Specs {
							vs, ok := sp.(*ast.ValueSpec)
							if !ok {
								continue
							}
							for i, nm := range vs.Names {
								if i < len(vs.Values) && strings.Contains(strings.ToLower(nm.Name), "arg") {
									if s, ok := lit(vs.Values[i]); ok && where != "func parseArgs" {
										text, where = s, "var "+nm.Name
									}
								}
							}
						}
					}
				}
			}
		}
	}
	if text == "" {
		c.Note("mail-args leg: the parameter expression was not found in the source; pair-by-pair comparison uses the pinned text %q", argsReFallback)
		return regexp.MustCompile(argsReFallback)
	}
	re, err := regexp.Compile(text)
	if err != nil {
		c.Note("mail-args leg: the parameter expression %q (%s) does not compile: %v", text, where, err)
		return regexp.MustCompile(argsReFallback)
	}
	c.H("mailargs-args-expression-from:" + where)
	return re
}

// implementation answers in the driver's syntax
func implMailRe(re *regexp.Regexp, arg string) (string, []string) {
	m := re.FindStringSubmatch(arg)
	if m == nil {
		return "err", nil
	}
	if len(m) < 3 {
		return fmt.Sprintf("groups=%d", len(m)), m
	}
	return "ok " + core.HexS(m[1]) + " " + core.HexS(m[2]), m
}

func showMap(m map[string]string, ok bool) string {
	if !ok {
		return "none"
	}
	keys := make([]string, 0, len(m))
	for k := range m {
		keys = append(keys, k)
	}
	sort.Strings(keys)
	p := make([]string, len(keys))
	for i, k := range keys {
		p[i] = core.HexS(k) + ":" + core.HexS(m[k])
	}
	if len(p) == 0 {
		return "some _"
	}
	return "some " + strings.Join(p, ",")
}

// foldPairs: what Session.parseArgs does with the matches — keys upper-cased, a later pair overrides an earlier one
func foldPairs(ans string) string {
	if !strings.HasPrefix(ans, "some ") {
		return ans
	}
	m := map[string]string{}
	body := strings.TrimPrefix(ans, "some ")
	if body != "_" {
		for _, p := range strings.Split(body, ",") {
			kv := strings.SplitN(p, ":", 2)
			if len(kv) != 2 {
				return "malformed " + ans
			}
			m[strings.ToUpper(core.UnHex(kv[0]))] = core.UnHex(kv[1])
		}
	}
	return showMap(m, true)
}

func implPairs(re *regexp.Regexp, params string) string {
	pm := re.FindAllStringSubmatch(params, -1)
	if pm == nil {
		return "none"
	}
	p := []string{}
	for _, m := range pm {
		if len(m) < 3 {
			return fmt.Sprintf("groups=%d", len(m))
		}
		p = append(p, core.HexS(m[1])+":"+core.HexS(m[2]))
	}
	return "some " + strings.Join(p, ",")
}

var wordOnly = regexp.MustCompile(`^[0-9A-Za-z_]+$`)

type mailArgsRun struct {
	c       *core.Ctx
	from    *regexp.Regexp
	argsRe  *regexp.Regexp
	mu      sync.Mutex
	matched int64
	paramsN int64
}

// checkMail compares a batch of MAIL arguments; label names the generator.
func (r *mailArgsRun) checkMail(m *core.Model, label string, args []string) {
	c := r.c
	lines := make([]string, len(args))
	for i, a := range args {
		lines[i] = "mailre " + core.HexS(a)
	}
	ans := m.AskAll(lines)
	var params []string
	for i, a := range args {
		impl, mm := implMailRe(r.from, a)
		c.Count(label+"/"+a, mm != nil)
		c.Compared(1)
		if mm != nil {
			r.mu.Lock()
			r.matched++
			r.mu.Unlock()
			c.H("mailargs-" + label + ":match")
			if len(mm) >= 3 {
				// oracle: arg = … '<' m[1] '>' m[2], m[2] empty or beginning with a space
				suffix := "<" + mm[1] + ">" + mm[2]
				if !strings.HasSuffix(a, suffix) || (mm[2] != "" && mm[2][0] != ' ') || mm[0] != a {
					c.Fail("mail-arg-decomposition", []string{fmt.Sprintf("MAIL argument %q", a)}, fmt.Sprintf("fromRegex matched with m[0]=%q m[1]=%q m[2]=%q: the argument is not …<m[1]>m[2] with m[2] empty or beginning with a space", mm[0], mm[1], mm[2]), "")
				}
				if mm[2] != "" {
					params = append(params, mm[2])
				}
			}
		} else {
			c.H("mailargs-" + label + ":nomatch")
		}
		if impl != ans[i] {
			c.Diverge("mail-from-regex", []string{fmt.Sprintf("generator %s", label), fmt.Sprintf("MAIL argument %q (hex %s)", a, core.HexS(a)), "ok <m[1]> <m[2]> / err = nil"}, impl, ans[i])
		}
	}
	if len(params) > 0 {
		r.checkParams(m, label+"-m2", params)
	}
}

// checkParams compares parameter strings: the real parseArgs (map) and the tree's expression (pairs in order) with the model.
func (r *mailArgsRun) checkParams(m *core.Model, label string, ps []string) {
	c := r.c
	lines := make([]string, len(ps))
	for i, p := range ps {
		lines[i] = "parseargs " + core.HexS(p)
	}
	ans := m.AskAll(lines)
	for i, p := range ps {
		var mp map[string]string
		var ok bool
		func() {
			defer func() {
				if e := recover(); e != nil {
					c.Fail("no-panic", []string{fmt.Sprintf("parseArgs(%q)", p)}, fmt.Sprintf("panic: %v", e), "")
				}
			}()
			mp, ok = smtp.VerifParseArgs(p)
		}()
		implMap := showMap(mp, ok)
		c.Count(label+"/"+p, ok)
		c.Compared(2)
		r.mu.Lock()
		r.paramsN++
		r.mu.Unlock()
		if ok {
			c.H("mailargs-params:pairs")
			for k, v := range mp {
				if !wordOnly.MatchString(k) || k != strings.ToUpper(k) || !(wordOnly.MatchString(v) || v == "<>") {
					c.Fail("params-keys-are-words", []string{fmt.Sprintf("parseArgs(%q)", p)}, fmt.Sprintf("the map holds %q=%q: keys are upper-cased \\w-words, values \\w-words or <>", k, v), "")
				}
			}
		} else {
			c.H("mailargs-params:none")
		}
		if got := foldPairs(ans[i]); got != implMap {
			c.Diverge("parse-args-map", []string{fmt.Sprintf("generator %s", label), fmt.Sprintf("parameter string %q (hex %s)", p, core.HexS(p)), "the map of Session.parseArgs, keys sorted / none = ok false; model pairs folded the same way"}, implMap, got+"   (pairs: "+ans[i]+")")
		}
		if ip := implPairs(r.argsRe, p); ip != ans[i] && !(ip == "none" && ans[i] == "none") {
			c.Diverge("parse-args-pairs", []string{fmt.Sprintf("generator %s", label), fmt.Sprintf("parameter string %q (hex %s)", p, core.HexS(p)), "FindAllStringSubmatch of the tree's parameter expression: pairs in order, keys as written"}, ip, ans[i])
		}
	}
}

// maAllStrings calls f with every string over alpha of length 0..maxLen, shortest first, in batches
func maAllStrings(alpha []byte, maxLen int, batch int, f func([]string)) {
	buf := make([]string, 0, batch)
	for n := 0; n <= maxLen; n++ {
		cur := make([]byte, n)
		var rec func(i int)
		rec = func(i int) {
			if i == n {
				buf = append(buf, string(cur))
				if len(buf) >= batch {
					f(buf)
					buf = make([]string, 0, batch)
				}
				return
			}
			for _, b := range alpha {
				cur[i] = b
				rec(i + 1)
			}
		}
		rec(0)
	}
	if len(buf) > 0 {
		f(buf)
	}
}

// ---- grammar

func mixCase(r *rand.Rand, s string) string {
	b := []byte(s)
	for i := range b {
		if r.Intn(2) == 0 {
			b[i] = strings.ToUpper(string(b[i]))[0]
		} else {
			b[i] = strings.ToLower(string(b[i]))[0]
		}
	}
	return string(b)
}

var maAtoms = []string{"a", "user", "first.last", "x+tag", "A_b", "u\\>v", "u\\\\", "\\>", "é", "\xff", "日本", "o'brien", "a b", "<", "\\", "="}
var maDomains = []string{"example.com", "b", "[1.2.3.4]", "[IPv6:::1]", "é.example", "x>y", "", "sub.example.org"}
var maQuoted = []string{"a", "a b", "x>y", ">", "a\\", "a\\>b", "<>", "@", "=<>", " ", "é", "\xc5\xbf", "a>b>c"}
var maKeys = []string{"SIZE", "size", "Size", "BODY", "AUTH", "RET", "ENVID", "X_1", "_", "SſIZE", "a-b", "", "SIZE ", "K"}
var maVals = []string{"0", "1", "10", "1024", "99999999999", "2147483647", "2147483648", "007", "8BITMIME", "7BIT", "<>", "<", ">", "", "abc", "1ſ", "1K", "a-b", "1 2", "x=y", "<a@b>", "1_0", "-1", "+5"}

func maAddr(r *rand.Rand) string {
	switch r.Intn(10) {
	case 0:
		return ""
	case 1, 2, 3:
		return maAtoms[r.Intn(len(maAtoms))] + "@" + maDomains[r.Intn(len(maDomains))]
	case 4, 5, 6:
		s := ""
		for k := 1 + r.Intn(2); k > 0; k-- {
			s += "\"" + maQuoted[r.Intn(len(maQuoted))] + "\"@" + maDomains[r.Intn(len(maDomains))]
		}
		return s
	case 7:
		return maAtoms[r.Intn(len(maAtoms))] + "\"" + maQuoted[r.Intn(len(maQuoted))] + "\"@" + maDomains[r.Intn(len(maDomains))] + maAtoms[r.Intn(len(maAtoms))]
	case 8:
		return "\"" + maQuoted[r.Intn(len(maQuoted))] + "\"" + maAtoms[r.Intn(len(maAtoms))]
	default:
		s := ""
		for k := r.Intn(4); k > 0; k-- {
			s += maAtoms[r.Intn(len(maAtoms))]
		}
		return s
	}
}

func maParams(r *rand.Rand) string {
	s := ""
	for k := r.Intn(5); k > 0; k-- {
		switch r.Intn(12) {
		case 0:
			s += " AUTH=<>"
		case 1:
			s += " BODY=8BITMIME"
		case 2:
			s += " SIZE=" + strconv.Itoa(r.Intn(100000))
		case 3:
			s += "  "
		case 4:
			s += " =<>"
		case 5:
			s += " " + maVals[r.Intn(len(maVals))]
		default:
			s += " " + maKeys[r.Intn(len(maKeys))] + "=" + maVals[r.Intn(len(maVals))]
		}
	}
	return s
}

func maArg(r *rand.Rand) string {
	ws := []string{"", "", "", " ", "  ", "\t", " \t\r\n\f", "\v", " "}[r.Intn(9)]
	from := mixCase(r, "FROM") + ":"
	switch r.Intn(40) {
	case 0:
		from = "FROM"
	case 1:
		from = "FROΜ:" // Greek capital mu
	case 2:
		from = " FROM:"
	case 3:
		from = "TO:"
	}
	open, cl := "<", ">"
	switch r.Intn(30) {
	case 0:
		open = ""
	case 1:
		cl = ""
	case 2:
		cl = ">>"
	case 3:
		open = "<<"
	}
	return from + ws + open + maAddr(r) + cl + maParams(r)
}

var maBytes = []byte{'<', '>', '\\', '"', '@', 'a', 'Z', '0', '=', ' ', '_', '\t', '\n', '\r', '\f', '\v', ':', '-', 0xc5, 0xbf, 0xe2, 0x84, 0xaa, 0xc3, 0xa9, 0xff, 0x00, 0x7f}

func maMutate(r *rand.Rand, s, other string) string {
	b := []byte(s)
	for k := 1 + r.Intn(2); k > 0; k-- {
		switch op := r.Intn(6); {
		case op == 0 && len(b) > 0:
			b[r.Intn(len(b))] = maBytes[r.Intn(len(maBytes))]
		case op == 1:
			i := r.Intn(len(b) + 1)
			b = append(b[:i], append([]byte{maBytes[r.Intn(len(maBytes))]}, b[i:]...)...)
		case op == 2 && len(b) > 0:
			i := r.Intn(len(b))
			b = append(b[:i], b[i+1:]...)
		case op == 3 && len(b) > 0:
			i := r.Intn(len(b))
			b = append(b[:i+1], b[i:]...)
		case op == 4 && len(b) > 0 && len(other) > 0:
			b = append(b[:r.Intn(len(b)+1)], other[r.Intn(len(other)):]...)
		case op == 5 && len(b) > 1:
			i, j := r.Intn(len(b)), r.Intn(len(b))
			b[i], b[j] = b[j], b[i]
		}
	}
	return string(b)
}

func mailArgsLeg(c *core.Ctx) {
	run := &mailArgsRun{c: c, from: smtp.VerifFromRegex(), argsRe: argsRegexOfTree(c)}
	const batch = 4096
	workers := 8

	// (a) exhaustive
	alphaFrom := []byte{'<', '>', '\\', '"', '@', 'a', '=', ' ', '_', '\t', 0xc5, 0xbf}
	alphaArgs := []byte{' ', 'a', 'B', '1', '_', '=', '<', '>', '-', 0xc5, 0xbf}
	lenFrom, lenArgs := c.Scale(5, 6), c.Scale(5, 6)
	type job struct {
		label string
		items []string
		mail  bool
	}
	jobs := make(chan job, 2*workers)
	var wg sync.WaitGroup
	for w := 0; w < workers; w++ {
		wg.Add(1)
		go func() {
			defer wg.Done()
			m := c.NewModel("pure")
			defer m.Close()
			for j := range jobs {
				if j.mail {
					run.checkMail(m, j.label, j.items)
				} else {
					run.checkParams(m, j.label, j.items)
				}
			}
		}()
	}
	var nExh int64
	for _, prefix := range []string{"FROM:<", "from:"} {
		prefix := prefix
		maAllStrings(alphaFrom, lenFrom, batch, func(tails []string) {
			items := make([]string, len(tails))
			for i, t := range tails {
				items[i] = prefix + t
			}
			nExh += int64(len(items))
			jobs <- job{label: "all-" + prefix, items: items, mail: true}
		})
	}
	// deeper, over the bytes that decide where group 1 ends: a quoted string needs six bytes ("q"@x>), one behind a quoted pair and before parameters more
	alphaCore := []byte{'>', '\\', '"', '@', 'a', ' ', '=', '<'}
	lenCore := c.Scale(7, 8)
	maAllStrings(alphaCore, lenCore, batch, func(tails []string) {
		items := make([]string, len(tails))
		for i, t := range tails {
			items[i] = "FROM:<" + t
		}
		nExh += int64(len(items))
		jobs <- job{label: "core-FROM:<", items: items, mail: true}
	})
	maAllStrings(alphaArgs, lenArgs, batch, func(ps []string) {
		nExh += int64(len(ps))
		jobs <- job{label: "all-params", items: append([]string{}, ps...), mail: false}
	})

	// (b) grammar, (c) mutations
	r := c.SubRng("mailargs-grammar")
	nGram := c.Scale(60000, 1500000)
	var gram, mut, par []string
	flush := func(force bool) {
		if len(gram) >= batch || (force && len(gram) > 0) {
			jobs <- job{label: "grammar", items: gram, mail: true}
			gram = nil
		}
		if len(mut) >= batch || (force && len(mut) > 0) {
			jobs <- job{label: "mutated", items: mut, mail: true}
			mut = nil
		}
		if len(par) >= batch || (force && len(par) > 0) {
			jobs <- job{label: "params", items: par, mail: false}
			par = nil
		}
	}
	prevArg := "FROM:<a@b> SIZE=1"
	for i := 0; i < nGram; i++ {
		a := maArg(r)
		gram = append(gram, a)
		if i < 6 {
			c.Sample(map[string]string{"mail-argument": a})
		}
		mut = append(mut, maMutate(r, a, prevArg), maMutate(r, a, prevArg))
		p := maParams(r)
		par = append(par, p, maMutate(r, p, prevArg))
		prevArg = a
		flush(false)
	}
	flush(true)
	close(jobs)
	wg.Wait()
	c.Res.Hist["mailargs-exhaustive-strings"] += nExh
	c.Res.Hist["mailargs-matched-arguments"] += run.matched
	c.Res.Hist["mailargs-parameter-strings"] += run.paramsN
	c.Note("mail-args leg: every FROM:< / from: tail up to %d bytes over %d symbols, every FROM:< tail up to %d bytes over %d symbols and every parameter string up to %d bytes over %d symbols (%d strings), %d grammar arguments, %d mutated, %d parameter strings: model mailRe / parseArgs against the real expressions, both groups byte for byte; %d arguments matched",
		lenFrom, len(alphaFrom), lenCore, len(alphaCore), lenArgs, len(alphaArgs), nExh, nGram, 2*nGram, run.paramsN, run.matched)
}
