// drive: runs the implementation and the Lean model side by side for one property.
package main

import (
	"flag"
	"fmt"
	"os"
	"sort"

	"github.com/rs/zerolog"
	"github.com/rs/zerolog/log"

	"verif/harness/internal/core"
)

type runner func(c *core.Ctx)

var registry = map[string]runner{}

func register(id string, r runner) { registry[id] = r }

func main() {
	prop := flag.String("prop", "", "property id")
	tier := flag.String("tier", "quick", "quick|thorough")
	seed := flag.Int64("seed", 1, "PRNG seed")
	drv := flag.String("drv", "/verif/lean/.lake/build/bin/ibxdrv", "model driver")
	out := flag.String("out", "", "result file")
	known := flag.String("known", "/verif/known_findings.json", "known findings")
	work := flag.String("work", "", "scratch directory (removed by the caller)")
	replay := flag.String("replay", "", "replay file")
	flag.Parse()
	zerolog.SetGlobalLevel(zerolog.Disabled)
	log.Logger = zerolog.Nop()
	r, ok := registry[*prop]
	if !ok {
		ids := []string{}
		for k := range registry {
			ids = append(ids, k)
		}
		sort.Strings(ids)
		fmt.Fprintln(os.Stderr, "unknown property; have", ids)
		os.Exit(2)
	}
	c := core.NewCtx(*prop, *tier, *seed, *drv, *work)
	c.Known = core.LoadKnown(*known, *prop)
	c.Replay = *replay
	r(c)
	c.Finish(*out)
}
