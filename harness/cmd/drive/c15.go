package main

// C15 — every monitor (hub listener) sees every message event once, in order; none can stall the rest.
//
//   part (a)  the real msghub.Hub against the Lean model (driver mode "hub") on random op sequences with
//             scripted mock listeners (filter / delete-interest / fail-at-k); impl-only oracles: the delivery
//             spec recomputed directly in Go ("hub-delivers"), and "failing-listener-isolated" (changing one
//             listener's failure point / adding a failing listener never changes what the others record).
//   part (b)  the real websocket listeners msgListenerV1 / msgListenerV2 (through rest.VerifNewListenerVx) on
//             a real hub with no network peer: the harness plays the socket writer (drains the event queue)
//             and the socket reader (calls Close), and injects the disconnect / the stall at every position
//             relative to the buffered events.  Oracles: hub-never-blocked, no-panic, others-see-everything,
//             close-unregisters, no-loss-before-drop, slow-listener-dropped.
//
//   part (c)  c15_join.go: joins racing with dispatches.
//   part (d)  c15_wire.go: the last hop — real WebSocket clients of the real handlers, frame by frame, against Model.WsWire.
//
//   part (e)  c15_store.go: the monitors of a real store (every way a message leaves it: removal, purge, cap, byte limit), joins at any point.
//   part (f)  c15_store.go: a backlog of any size between the stores and a hub that is busy, slow or not yet started.
//
//   VERIF_C15_PART=a|b|c|d|e|f runs one part only (parts b, c, e, f need no model driver).

import (
	"bytes"
	"context"
	"errors"
	"fmt"
	"math/rand"
	"os"
	"runtime"
	"strconv"
	"strings"
	"sync"
	"sync/atomic"
	"time"

	"github.com/inbucket/inbucket/v3/pkg/extension"
	"github.com/inbucket/inbucket/v3/pkg/extension/event"
	"github.com/inbucket/inbucket/v3/pkg/msghub"
	"github.com/inbucket/inbucket/v3/pkg/rest"
	"github.com/rs/zerolog"
	"github.com/rs/zerolog/log"

	"verif/harness/internal/core"
)

func init() { register("C15", runC15) }

// ---------------------------------------------------------------------------------------------------------
// shared pieces

// c15LogBuf captures zerolog's global logger (the hub reports a recovered panic there).
type c15LogBuf struct {
	mu sync.Mutex
	b  bytes.Buffer
}

func (w *c15LogBuf) Write(p []byte) (int, error) {
	w.mu.Lock()
	defer w.mu.Unlock()
	if w.b.Len() < 1<<20 {
		w.b.Write(p)
	}
	return len(p), nil
}

// take returns and clears what was logged.
func (w *c15LogBuf) take() string {
	w.mu.Lock()
	defer w.mu.Unlock()
	s := w.b.String()
	w.b.Reset()
	return s
}

const c15PanicMark = "Operation panicked"

// c15PanicLines: the log lines that report a panic recovered by hub.runOp.
func c15PanicLines(logged string) []string {
	var res []string
	for _, l := range strings.Split(logged, "\n") {
		if strings.Contains(l, c15PanicMark) {
			res = append(res, l)
		}
	}
	return res
}

var errC15Mock = errors.New("mock listener fails")

// c15Mock is the scripted listener.  Every call counts; from call number failAt on (failAt > 0) it returns an
// error and records nothing; otherwise it records the event if it passes the filter.
type c15Mock struct {
	mu     sync.Mutex
	mb     string // "" = all mailboxes
	del    bool   // interested in delete events
	failAt int    // 0 = never
	calls  int
	ev     []string
}

func (m *c15Mock) Receive(msg event.MessageMetadata) error {
	m.mu.Lock()
	defer m.mu.Unlock()
	m.calls++
	if m.failAt > 0 && m.calls >= m.failAt {
		return errC15Mock
	}
	if m.mb != "" && m.mb != msg.Mailbox {
		return nil
	}
	m.ev = append(m.ev, "s:"+msg.Mailbox+":"+msg.ID+":"+msg.Subject)
	return nil
}

func (m *c15Mock) Delete(mailbox string, id string) error {
	m.mu.Lock()
	defer m.mu.Unlock()
	m.calls++
	if m.failAt > 0 && m.calls >= m.failAt {
		return errC15Mock
	}
	if !m.del || (m.mb != "" && m.mb != mailbox) {
		return nil
	}
	m.ev = append(m.ev, "d:"+mailbox+":"+id)
	return nil
}

func (m *c15Mock) snapshot() (int, []string) {
	m.mu.Lock()
	defer m.mu.Unlock()
	return m.calls, append([]string(nil), m.ev...)
}

// c15Short: "s:mb1:7:t3" -> "s:1:7:3", "d:mb1:7" -> "d:1:7" (the model's numeric form).
func c15Short(ev string) string {
	p := strings.Split(ev, ":")
	if len(p) >= 2 {
		p[1] = strings.TrimPrefix(p[1], "mb")
	}
	if len(p) >= 4 {
		p[3] = strings.TrimPrefix(p[3], "t")
	}
	return strings.Join(p, ":")
}

func c15Join(l []string) string {
	if len(l) == 0 {
		return "_"
	}
	return strings.Join(l, ",")
}

func c15Rec(calls int, ev []string) string {
	s := make([]string, len(ev))
	for i, e := range ev {
		s[i] = c15Short(e)
	}
	return fmt.Sprintf("c=%d %s", calls, c15Join(s))
}

func c15Msg(k, id, tag int) event.MessageMetadata {
	return event.MessageMetadata{Mailbox: "mb" + strconv.Itoa(k), ID: strconv.Itoa(id), Subject: "t" + strconv.Itoa(tag)}
}

// c15Sync: hub.Sync() under a deadline; false = the hub goroutine did not get through its queue in time.
func c15Sync(hub *msghub.Hub, d time.Duration) bool {
	done := make(chan struct{})
	go func() {
		hub.Sync()
		close(done)
	}()
	t := time.NewTimer(d)
	defer t.Stop()
	select {
	case <-done:
		return true
	case <-t.C:
		return false
	}
}

// ---------------------------------------------------------------------------------------------------------
// part (a): hub vs model

type c15Op struct {
	kind          byte // D dispatch, X delete, A add, R remove, S sync
	k, id, tag, l int
}

type c15L struct {
	mb   int // -1 = all
	del  bool
	fail int
}

type c15Seq struct {
	n   int
	ls  []c15L
	ops []c15Op
	dup bool // some (mailbox,id) key dispatched more than once
}

func (o c15Op) line() string {
	switch o.kind {
	case 'D':
		return fmt.Sprintf("dispatch %d %d %d", o.k, o.id, o.tag)
	case 'X':
		return fmt.Sprintf("delete %d %d", o.k, o.id)
	case 'A':
		return fmt.Sprintf("add %d", o.l)
	case 'R':
		return fmt.Sprintf("remove %d", o.l)
	}
	return "sync"
}

func (l c15L) line(i int) string {
	mb, fail, del := "-", "-", "f"
	if l.mb >= 0 {
		mb = strconv.Itoa(l.mb)
	}
	if l.fail > 0 {
		fail = strconv.Itoa(l.fail)
	}
	if l.del {
		del = "t"
	}
	return fmt.Sprintf("listener %d mb=%s del=%s fail=%s", i, mb, del, fail)
}

// lines: the case as text (also exactly what the model is sent, minus the sync lines).
func (s c15Seq) lines(withSync bool) []string {
	res := []string{fmt.Sprintf("new n=%d", s.n)}
	for i, l := range s.ls {
		res = append(res, l.line(i))
	}
	for _, o := range s.ops {
		if o.kind == 'S' && !withSync {
			continue
		}
		res = append(res, o.line())
	}
	return res
}

// Shapes of a generated sequence.  The property quantifies over EVERY sequence of joins and EVERY history length: the number of monitors
// attached at the same time and the number of retained messages are dimensions of the case like any other, not small constants.
const (
	c15Small = iota // history 0..5, 1..4 listeners, 5..40 operations
	c15Crowd        // tens to hundreds of listeners registered at the same time
	c15Long         // a history of tens to hundreds of messages, filled and over-filled before and between the joins
)

var c15ShapeName = []string{"small", "crowd", "long-history"}

func c15GenSeq(r *rand.Rand, shape int) c15Seq {
	var s c15Seq
	if r.Intn(10) == 0 {
		s.n = 0
	} else {
		s.n = 1 + r.Intn(5)
	}
	nl := 1 + r.Intn(4)
	failPct := 40
	nops := 5 + r.Intn(36)
	prefill := 0
	switch shape {
	case c15Crowd:
		nl = []int{20, 50, 63, 64, 65, 66, 90, 127, 129, 160}[r.Intn(10)] + r.Intn(12)
		failPct = 6
		nops = 8 + r.Intn(25)
		if r.Intn(3) == 0 {
			s.n = 30 + r.Intn(40)
			prefill = r.Intn(2 * s.n)
		}
	case c15Long:
		switch r.Intn(5) {
		case 0:
			s.n = 6 + r.Intn(25)
		case 1:
			s.n = 31 + r.Intn(69)
		case 2:
			s.n = 100 + r.Intn(3)
		case 3:
			s.n = 103 + r.Intn(98)
		default:
			s.n = 201 + r.Intn(200)
		}
		// anything from a nearly empty ring to one that has wrapped more than once
		prefill = []int{r.Intn(s.n + 1), s.n - 1 + r.Intn(3), s.n + r.Intn(s.n+1), 2*s.n + r.Intn(20)}[r.Intn(4)]
	}
	for i := 0; i < nl; i++ {
		l := c15L{mb: -1, del: r.Intn(2) == 0}
		if r.Intn(2) == 0 {
			l.mb = r.Intn(3)
		}
		if r.Intn(100) < failPct {
			l.fail = 1 + r.Intn(8)
			if shape == c15Long {
				l.fail = 1 + r.Intn(3*s.n)
			}
		}
		s.ls = append(s.ls, l)
	}
	wantDup := r.Intn(100) < 15
	type key struct{ k, id int }
	var keys []key
	seen := map[key]bool{}
	nextID, tag := 1, 0
	dispatch := func() {
		ky := key{r.Intn(3), nextID}
		if wantDup && len(keys) > 0 && r.Intn(3) == 0 {
			ky = keys[r.Intn(len(keys))]
		} else {
			nextID++
		}
		if seen[ky] {
			s.dup = true
		}
		seen[ky] = true
		keys = append(keys, ky)
		tag++
		s.ops = append(s.ops, c15Op{kind: 'D', k: ky.k, id: ky.id, tag: tag})
	}
	remove := func() {
		var ky key
		switch {
		case len(keys) > 0 && r.Intn(4) != 0:
			ky = keys[r.Intn(len(keys))] // dispatched earlier (perhaps deleted already, perhaps out of the window)
		case len(keys) > 0 && r.Intn(2) == 0:
			ky = keys[r.Intn(len(keys))]
			ky.k = (ky.k + 1) % 3 // right id, wrong mailbox
		default:
			ky = key{r.Intn(3), 1000000 + r.Intn(5)} // never existed
		}
		s.ops = append(s.ops, c15Op{kind: 'X', k: ky.k, id: ky.id})
	}
	// messages retained before most of the joins (a few deletions and an early join among them)
	for i := 0; i < prefill; i++ {
		dispatch()
		if x := r.Intn(100); x < 6 {
			remove()
		} else if x < 8 {
			s.ops = append(s.ops, c15Op{kind: 'A', l: r.Intn(nl)})
		}
	}
	if shape == c15Crowd {
		// most of the crowd joins, in some order, a few events among the joins
		for _, l := range r.Perm(nl) {
			if r.Intn(10) == 0 {
				continue
			}
			s.ops = append(s.ops, c15Op{kind: 'A', l: l})
			if r.Intn(15) == 0 {
				dispatch()
			}
		}
	}
	for i := 0; i < nops; i++ {
		x := r.Intn(100)
		if i < 2 && r.Intn(2) == 0 {
			x = 60 // an early add, so that most sequences deliver something
		}
		switch {
		case x < 42:
			dispatch()
		case x < 56:
			remove()
		case x < 80:
			s.ops = append(s.ops, c15Op{kind: 'A', l: r.Intn(nl)})
		case x < 93:
			s.ops = append(s.ops, c15Op{kind: 'R', l: r.Intn(nl)})
		default:
			s.ops = append(s.ops, c15Op{kind: 'S'})
		}
	}
	return s
}

type c15Run struct {
	recs    []string // per listener "c=<calls> <events>"
	hist    string   // retained history seen by a fresh probe listener
	blocked bool
	events  int // events recorded over all listeners
	failed  bool
}

// c15RunSeq plays the sequence on a real hub.
func c15RunSeq(s c15Seq) c15Run {
	ctx, cancel := context.WithCancel(context.Background())
	defer cancel()
	hub := msghub.New(s.n, extension.NewHost())
	go hub.Start(ctx)
	ls := make([]*c15Mock, len(s.ls))
	for i, l := range s.ls {
		ls[i] = &c15Mock{del: l.del, failAt: l.fail}
		if l.mb >= 0 {
			ls[i].mb = "mb" + strconv.Itoa(l.mb)
		}
	}
	var res c15Run
	for _, o := range s.ops {
		switch o.kind {
		case 'D':
			hub.Dispatch(c15Msg(o.k, o.id, o.tag))
		case 'X':
			hub.Delete("mb"+strconv.Itoa(o.k), strconv.Itoa(o.id))
		case 'A':
			hub.AddListener(ls[o.l])
		case 'R':
			hub.RemoveListener(ls[o.l])
		case 'S':
			if !c15Sync(hub, 5*time.Second) {
				res.blocked = true
				return res
			}
		}
	}
	if !c15Sync(hub, 5*time.Second) {
		res.blocked = true
		return res
	}
	for i, l := range ls {
		calls, ev := l.snapshot()
		res.recs = append(res.recs, c15Rec(calls, ev))
		res.events += len(ev)
		if s.ls[i].fail > 0 && calls >= s.ls[i].fail {
			res.failed = true
		}
	}
	probe := &c15Mock{del: true}
	hub.AddListener(probe)
	if !c15Sync(hub, 5*time.Second) {
		res.blocked = true
		return res
	}
	_, ev := probe.snapshot()
	h := []string{}
	for _, e := range ev {
		h = append(h, strings.TrimPrefix(c15Short(e), "s:"))
	}
	res.hist = c15Join(h)
	return res
}

// c15Spec: the delivery specification computed directly (unique-key sequences only).  All dispatched messages
// are kept with a deleted flag; the history at any time is the not-deleted ones among the last N dispatched
// (a deleted message keeps occupying its slot of the window).  A listener gets the history when it is added
// (errors ignored, it is registered regardless), then every later event until it is removed or returns an
// error.  N = 0: the hub is disabled, nothing is ever relayed.
func c15Spec(s c15Seq) (recs []string, hist string, buckets map[string]bool) {
	type msg struct {
		k, id, tag int
		deleted    bool
	}
	type lst struct {
		c15L
		reg, everDropped bool
		calls            int
		ev               []string
	}
	buckets = map[string]bool{}
	maxReg, maxReplay := 0, 0
	defer func() {
		buckets["a:most-listeners-registered-at-once="+c15Bucket(maxReg)] = true
		buckets["a:longest-replay-to-a-joining-listener="+c15Bucket(maxReplay)] = true
	}()
	var all []*msg
	ls := make([]*lst, len(s.ls))
	for i, l := range s.ls {
		ls[i] = &lst{c15L: l}
	}
	window := func() []*msg {
		w := all
		if len(w) > s.n {
			w = w[len(w)-s.n:]
		}
		var res []*msg
		for _, m := range w {
			if !m.deleted {
				res = append(res, m)
			}
		}
		return res
	}
	// call: one Receive (del=false) or Delete (del=true) on listener l; reports an error return
	call := func(l *lst, del bool, k, id, tag int) bool {
		l.calls++
		if l.fail > 0 && l.calls >= l.fail {
			return true
		}
		if l.mb >= 0 && l.mb != k {
			return false
		}
		if del {
			if l.del {
				l.ev = append(l.ev, fmt.Sprintf("d:%d:%d", k, id))
			}
			return false
		}
		l.ev = append(l.ev, fmt.Sprintf("s:%d:%d:%d", k, id, tag))
		return false
	}
	for _, o := range s.ops {
		switch o.kind {
		case 'D':
			if s.n == 0 {
				continue
			}
			all = append(all, &msg{k: o.k, id: o.id, tag: o.tag})
			if len(all) > s.n {
				buckets["a:history-wrapped"] = true
			}
			for _, l := range ls {
				if l.reg && call(l, false, o.k, o.id, o.tag) {
					l.reg, l.everDropped = false, true
				}
			}
		case 'X':
			if s.n == 0 {
				continue
			}
			hit := false
			for _, m := range window() {
				if m.k == o.k && m.id == o.id {
					hit = true
				}
			}
			if hit {
				buckets["a:delete-hits-history"] = true
			} else {
				buckets["a:delete-misses-history"] = true
			}
			for _, m := range all {
				if m.k == o.k && m.id == o.id {
					m.deleted = true
				}
			}
			for _, l := range ls {
				if l.reg && call(l, true, o.k, o.id, 0) {
					l.reg, l.everDropped = false, true
				}
			}
		case 'A':
			l := ls[o.l]
			if l.reg {
				buckets["a:re-add-registered"] = true
			} else if l.everDropped {
				buckets["a:re-add-after-drop"] = true
			}
			w := window()
			maxReplay = max(maxReplay, len(w))
			for _, m := range w {
				call(l, false, m.k, m.id, m.tag)
			}
			l.reg = true
			nReg := 0
			for _, x := range ls {
				if x.reg {
					nReg++
				}
			}
			maxReg = max(maxReg, nReg)
		case 'R':
			l := ls[o.l]
			if l.reg {
				l.everDropped = true
			}
			l.reg = false
		}
	}
	for _, l := range ls {
		recs = append(recs, fmt.Sprintf("c=%d %s", l.calls, c15Join(l.ev)))
	}
	h := []string{}
	for _, m := range window() {
		h = append(h, fmt.Sprintf("%d:%d:%d", m.k, m.id, m.tag))
	}
	return recs, c15Join(h), buckets
}

// c15Perturb: the same sequence with one listener's failure point changed, or with one more (failing)
// listener woven in.  Returns the index of the listener whose record may legitimately differ.
func c15Perturb(r *rand.Rand, s c15Seq) (c15Seq, int, string) {
	t := c15Seq{n: s.n, dup: s.dup}
	t.ls = append([]c15L(nil), s.ls...)
	if r.Intn(2) == 0 {
		j := r.Intn(len(t.ls))
		old := t.ls[j].fail
		nf := 1 + r.Intn(6)
		if old > 0 && r.Intn(3) == 0 {
			nf = 0
		}
		if nf == old {
			nf = old + 1
		}
		t.ls[j].fail = nf
		t.ops = append([]c15Op(nil), s.ops...)
		return t, j, fmt.Sprintf("listener %d fail %d -> %d", j, old, nf)
	}
	j := len(t.ls)
	t.ls = append(t.ls, c15L{mb: -1, del: true, fail: 1 + r.Intn(4)})
	for _, o := range s.ops {
		if r.Intn(4) == 0 {
			t.ops = append(t.ops, c15Op{kind: 'A', l: j})
		}
		t.ops = append(t.ops, o)
	}
	t.ops = append(t.ops, c15Op{kind: 'A', l: j})
	return t, j, fmt.Sprintf("extra listener %d (all mailboxes, deletes, fail=%d) added at random points", j, t.ls[j].fail)
}

// c15RecDiff: two records ("c=<calls> e1,e2,…" or "e1,e2,…") side by side; long ones by length and first difference
func c15RecDiff(got, want, saying string) string {
	if len(got) <= 300 && len(want) <= 300 {
		return fmt.Sprintf("%q, %s %q", got, saying, want)
	}
	split := func(s string) (string, []string) {
		head := ""
		if strings.HasPrefix(s, "c=") {
			if i := strings.IndexByte(s, ' '); i > 0 {
				head, s = s[:i]+" ", s[i+1:]
			}
		}
		if s == "_" {
			return head, nil
		}
		return head, strings.Split(s, ",")
	}
	hg, g := split(got)
	hw, w := split(want)
	return fmt.Sprintf("%s%s, %s %s%s%s", hg, c15Abbrev(g), saying, hw, c15Abbrev(w), c15FirstDiff(g, w))
}

// c15Bucket: small numbers exactly, larger ones by the range they fall into (64 and 100 are made boundaries on purpose: any "reasonable" bound
// somebody might build in lies near a round number)
func c15Bucket(n int) string {
	switch {
	case n <= 5:
		return strconv.Itoa(n)
	case n <= 30:
		return "6..30"
	case n <= 64:
		return "31..64"
	case n <= 100:
		return "65..100"
	case n <= 200:
		return "101..200"
	}
	return ">200"
}

func c15PartA(c *core.Ctx, logs *c15LogBuf) {
	total := c.Scale(3000, 120000)
	workers := 8
	core.Parallel(workers, workers, func(sh int) {
		r := c.SubRng(fmt.Sprintf("hub-seq-%d", sh))
		m := c.NewModel("hub")
		defer m.Close()
		for i := sh; i < total; i += workers {
			shape := c15Small
			switch i % 40 {
			case 7:
				shape = c15Crowd
			case 27:
				shape = c15Long
			}
			s := c15GenSeq(r, shape)
			cas := s.lines(true)
			if shape != c15Small {
				cas = append([]string{fmt.Sprintf("# %s: hub history %d, %d listeners, %d operations", c15ShapeName[shape], s.n, len(s.ls), len(s.ops))}, cas...)
			}
			cas = cas[:len(cas):len(cas)] // every append below makes its own copy (the failures keep theirs)
			run := c15RunSeq(s)
			if run.blocked {
				c.Fail("hub-blocked", cas, "hub.Sync() did not return within 5 s", "")
				c.Count(strings.Join(cas, "\n"), false)
				continue
			}
			// --- oracle (before any model is asked): the spec computed directly
			hist := ""
			if !s.dup {
				var recs []string
				var bk map[string]bool
				recs, hist, bk = c15Spec(s)
				for b := range bk {
					c.H(b)
				}
				for l := range s.ls {
					if recs[l] != run.recs[l] {
						c.Fail("hub-delivers", append(cas, fmt.Sprintf("listener %d", l)),
							fmt.Sprintf("listener %d recorded %s", l, c15RecDiff(run.recs[l], recs[l], "the delivery spec says")), "")
						break
					}
				}
				if hist != run.hist {
					c.Fail("hub-delivers", cas, "a fresh listener is replayed "+c15RecDiff(run.hist, hist, "the history spec (the last N dispatched messages that were not deleted since) says"), "")
				}
			}
			// --- model
			ask := s.lines(false)
			nCmd := len(ask)
			for l := range s.ls {
				ask = append(ask, fmt.Sprintf("got %d", l))
			}
			ask = append(ask, "hist", "spechist")
			out := m.AskAll(ask)
			protoOK := true
			for j := 0; j < nCmd; j++ {
				if out[j] != "ok" {
					c.Diverge("hub-proto", append(cas, "line: "+ask[j]), "ok", out[j])
					protoOK = false
					break
				}
			}
			if protoOK {
				for l := range s.ls {
					if out[nCmd+l] != run.recs[l] {
						c.Diverge("hub-listener", append(cas, fmt.Sprintf("listener %d", l)), run.recs[l], out[nCmd+l])
						break
					}
				}
				if out[nCmd+len(s.ls)] != run.hist {
					c.Diverge("hub-history", cas, run.hist, out[nCmd+len(s.ls)])
				}
				c.Compared(len(s.ls) + 1)
				if !s.dup {
					c.Compared(1)
					if out[nCmd+len(s.ls)+1] != hist {
						c.Diverge("hub-spec", cas, hist, out[nCmd+len(s.ls)+1])
					}
				}
			}
			// --- oracle: a failing listener affects nobody else
			t, who, what := c15Perturb(r, s)
			run2 := c15RunSeq(t)
			if run2.blocked {
				c.Fail("hub-blocked", t.lines(true), "hub.Sync() did not return within 5 s", "")
			} else {
				for l := range s.ls {
					if l != who && run2.recs[l] != run.recs[l] {
						c.Fail("failing-listener-isolated", append(cas, "perturbation: "+what),
							fmt.Sprintf("listener %d recorded %q, but %q after the perturbation", l, run.recs[l], run2.recs[l]), "")
					}
				}
				if run2.hist != run.hist {
					c.Fail("failing-listener-isolated", append(cas, "perturbation: "+what),
						fmt.Sprintf("history %q became %q", run.hist, run2.hist), "")
				}
			}
			// --- accounting
			c.Count(strings.Join(cas, "\n"), s.n > 0 && run.events > 0)
			c.H("a:shape=" + c15ShapeName[shape])
			c.H("a:N=" + c15Bucket(s.n))
			c.H("a:listeners=" + c15Bucket(len(s.ls)))

			if s.dup {
				c.H("a:dupkeys")
			} else {
				c.H("a:unique-keys(spec oracle applies)")
			}
			if run.failed {
				c.H("a:had-failing-listener")
			}
			if run.events == 0 {
				c.H("a:nothing-delivered")
			}
			if i < 2 {
				c.Sample(map[string]interface{}{"part": "a", "case": cas, "listeners": run.recs, "history": run.hist})
			}
		}
	})
	if pl := c15PanicLines(logs.take()); len(pl) > 0 {
		c.Fail("no-panic", []string{"part (a): some hub operation over mock listeners"}, "hub.runOp recovered a panic: "+pl[0], "")
	}
}

// ---------------------------------------------------------------------------------------------------------
// part (b): the real websocket listeners

type c15WSMsg struct {
	k, id, tag int
	deleted    bool
}

type c15WS struct {
	c      *core.Ctx
	logs   *c15LogBuf
	kind   string
	n, ver int
	filter string // "" or "mb<k>"
	hFirst bool

	hub    *msghub.Hub
	cancel context.CancelFunc
	R      rest.VerifListener
	H      *c15Mock
	script []string

	msgs   []*c15WSMsg
	nextID int
	tag    int

	hAttached, rAttached bool
	hExp                 []string // what H must have recorded, exactly
	rExp                 []string // what R may have been handed, in order (grows until Close has returned)
	rReq                 int      // how many of rExp R must have been handed (those processed before the close / the overflow)
	rGot                 []string // drained from R so far
	occ                  int      // events R's queue should hold
	inHold               bool
	pending              int  // matching events queued behind a hold
	closeCalled          bool // Close() has been called (and has returned)
	overflowed           bool // more events than the queue holds arrived without a drain
	blocked              bool
	failed               map[string]bool
	deadline             time.Duration
}

var c15Blocked int // number of hub-never-blocked failures so far (part b is sequential)

func c15NewWS(c *core.Ctx, logs *c15LogBuf, kind string, n, ver int, filter string, hFirst bool) *c15WS {
	w := &c15WS{c: c, logs: logs, kind: kind, n: n, ver: ver, filter: filter, hFirst: hFirst, nextID: 1, failed: map[string]bool{}}
	w.deadline = 3 * time.Second // generous: a healthy hub answers in microseconds, a loaded machine must not look like a blocked hub
	if c15Blocked >= 4 {
		w.deadline = 300 * time.Millisecond // the point is made; do not spend a second per further witness
	}
	order := "H-then-R"
	if !hFirst {
		order = "R-then-H"
	}
	f := filter
	if f == "" {
		f = "(all)"
	}
	w.script = []string{fmt.Sprintf("websocket listener v%d filter=%s, hub history N=%d, healthy mock listener H, attach order %s", ver, f, n, order)}
	ctx, cancel := context.WithCancel(context.Background())
	w.cancel = cancel
	w.hub = msghub.New(n, extension.NewHost())
	go w.hub.Start(ctx)
	return w
}

func (w *c15WS) step(format string, a ...interface{}) {
	w.script = append(w.script, fmt.Sprintf(format, a...))
}

func (w *c15WS) fail(oracle, detail string) {
	if w.failed[oracle] {
		return
	}
	w.failed[oracle] = true
	w.c.Fail(oracle, append([]string(nil), w.script...), detail, "")
}

func (w *c15WS) history() []*c15WSMsg {
	ms := w.msgs
	if len(ms) > w.n {
		ms = ms[len(ms)-w.n:]
	}
	var res []*c15WSMsg
	for _, m := range ms {
		if !m.deleted {
			res = append(res, m)
		}
	}
	return res
}

func (w *c15WS) matches(k int) bool { return w.filter == "" || w.filter == "mb"+strconv.Itoa(k) }

// matchK: a mailbox number R's filter accepts / rejects.
func (w *c15WS) matchK() int {
	if w.filter == "" {
		return 1
	}
	k, _ := strconv.Atoi(strings.TrimPrefix(w.filter, "mb"))
	return k
}

// rEvent: bookkeeping for one event R's Receive/Delete accepts.
func (w *c15WS) rEvent(ev string) {
	if !w.rAttached || w.closeCalled {
		return
	}
	w.rExp = append(w.rExp, ev)
	if w.inHold {
		w.pending++
		return
	}
	w.rAccept()
}

func (w *c15WS) rAccept() {
	if w.overflowed {
		return
	}
	if w.occ < w.R.VerifCap() {
		w.occ++
		w.rReq++
	} else {
		w.overflowed = true
	}
}

func (w *c15WS) attachH() {
	w.H = &c15Mock{del: true}
	w.hub.AddListener(w.H)
	w.hAttached = true
	for _, m := range w.history() {
		w.hExp = append(w.hExp, fmt.Sprintf("s:mb%d:%d:t%d", m.k, m.id, m.tag))
	}
}

func (w *c15WS) attachR() {
	if w.ver == 1 {
		w.R = rest.VerifNewListenerV1(w.hub, w.filter)
	} else {
		w.R = rest.VerifNewListenerV2(w.hub, w.filter)
	}
	w.rAttached = true
	for _, m := range w.history() {
		if w.matches(m.k) {
			w.rEvent(fmt.Sprintf("s:mb%d:%d:t%d", m.k, m.id, m.tag))
		}
	}
}

func (w *c15WS) attachBoth() {
	if w.hFirst {
		w.attachH()
		w.attachR()
	} else {
		w.attachR()
		w.attachH()
	}
	w.sync()
}

// dispatch sends one fresh message to mailbox mb<k> (no sync).
func (w *c15WS) dispatch(k int) {
	if w.blocked {
		return
	}
	w.tag++
	m := &c15WSMsg{k: k, id: w.nextID, tag: w.tag}
	w.nextID++
	w.hub.Dispatch(c15Msg(m.k, m.id, m.tag))
	if w.n == 0 {
		return // hub disabled: nothing stored, nothing relayed
	}
	w.msgs = append(w.msgs, m)
	ev := fmt.Sprintf("s:mb%d:%d:t%d", m.k, m.id, m.tag)
	if w.hAttached {
		w.hExp = append(w.hExp, ev)
	}
	if w.matches(k) {
		w.rEvent(ev)
	}
}

// dispatchN: count fresh messages to mb<k>, at most 50 queue entries between two syncs (so that the harness
// itself can never block on the hub's operation queue, whatever the hub goroutine is stuck on).
func (w *c15WS) dispatchN(k, count int) {
	if count <= 0 || w.blocked {
		return
	}
	w.step("dispatch %d message(s) to mb%d; sync", count, k)
	for i := 0; i < count && !w.blocked; i++ {
		w.dispatch(k)
		if (i+1)%50 == 0 || i == count-1 {
			w.sync()
		}
	}
}

func (w *c15WS) delete(k, id int) {
	if w.blocked {
		return
	}
	w.step("delete mb%d/%d", k, id)
	w.hub.Delete("mb"+strconv.Itoa(k), strconv.Itoa(id))
	if w.n == 0 {
		return
	}
	for _, m := range w.msgs {
		if m.k == k && m.id == id {
			m.deleted = true
		}
	}
	ev := fmt.Sprintf("d:mb%d:%d", k, id)
	if w.hAttached {
		w.hExp = append(w.hExp, ev)
	}
	if w.ver == 2 && w.matches(k) {
		w.rEvent(ev)
	}
}

// sync: oracle hub-never-blocked.
func (w *c15WS) sync() bool {
	if w.blocked {
		return false
	}
	if c15Sync(w.hub, w.deadline) {
		return true
	}
	// Not back in time.  With the websocket queue full that is the stall itself; otherwise give a loaded
	// machine the benefit of the doubt before calling the hub stuck.
	if (w.R == nil || w.R.VerifLen() < w.R.VerifCap()) && c15Sync(w.hub, 5*time.Second) {
		return true
	}
	w.blocked = true
	c15Blocked++
	buffered := -1
	if w.R != nil {
		buffered = w.R.VerifLen()
	}
	w.fail("hub-never-blocked", fmt.Sprintf("hub.Sync() did not return within %v: the hub goroutine is stuck (websocket listener queue holds %d of %d, nobody drains it)",
		w.deadline, buffered, w.capR()))
	return false
}

func (w *c15WS) capR() int {
	if w.R == nil {
		return -1
	}
	return w.R.VerifCap()
}

// drain plays the socket writer: takes up to j events from R's queue.
func (w *c15WS) drain(j int, say bool) int {
	if w.R == nil {
		return 0
	}
	got := 0
	for got < j {
		ev, ok, _ := w.R.VerifTryRecv()
		if !ok {
			break
		}
		w.rGot = append(w.rGot, ev)
		w.occ--
		got++
	}
	if say {
		w.step("socket writer takes %d event(s) from the queue", got)
	}
	return got
}

// level: R's queue must hold what the spec says (between the required and the permitted number).
func (w *c15WS) level(when string) {
	if w.blocked || w.R == nil || w.inHold {
		return
	}
	have := len(w.rGot) + w.R.VerifLen()
	if have < w.rReq || have > len(w.rExp) {
		w.fail("no-loss-before-drop", fmt.Sprintf("%s: the listener has been handed %d event(s) (%d taken + %d queued); the events relayed while it was registered number %d (at most %d with those in flight at Close)",
			when, have, len(w.rGot), w.R.VerifLen(), w.rReq, len(w.rExp)))
	}
}

// setBuffered brings R's queue to exactly b events (dispatching matching messages / draining).
func (w *c15WS) setBuffered(b int) {
	if w.blocked {
		return
	}
	have := w.R.VerifLen()
	if have > b {
		w.drain(have-b, true)
	} else if have < b {
		w.dispatchN(w.matchK(), b-have)
	}
	if !w.blocked && w.R.VerifLen() != b && w.n > 0 {
		w.fail("no-loss-before-drop", fmt.Sprintf("queue holds %d event(s) after topping it up to %d", w.R.VerifLen(), b))
	}
}

// closeR plays the socket reader noticing the disconnect: Close() once, twice, or from several goroutines at once.
func (w *c15WS) closeR(mode string, check bool) {
	if w.blocked {
		return
	}
	w.level("before Close")
	w.step("Close() %s with %d event(s) in the queue", mode, w.R.VerifLen())
	callers, rounds := 1, 1
	switch mode {
	case "twice":
		rounds = 2
	case "concurrently-x2":
		callers = 2
	case "concurrently-x8":
		callers = 8
	}
	var mu sync.Mutex
	var panics []string
	for round := 0; round < rounds; round++ {
		var wg sync.WaitGroup
		var ready int32
		for g := 0; g < callers; g++ {
			wg.Add(1)
			go func() {
				defer wg.Done()
				defer func() {
					if r := recover(); r != nil {
						mu.Lock()
						panics = append(panics, fmt.Sprint(r))
						mu.Unlock()
					}
				}()
				// spin barrier: the callers enter Close() within nanoseconds of each other
				atomic.AddInt32(&ready, 1)
				for spin := 1; atomic.LoadInt32(&ready) < int32(callers); spin++ {
					if spin%2000 == 0 {
						runtime.Gosched()
					}
				}
				w.R.Close()
			}()
		}
		fin := make(chan struct{})
		go func() { wg.Wait(); close(fin) }()
		select {
		case <-fin:
		case <-time.After(5 * time.Second):
			w.blocked = true
			w.fail("hub-never-blocked", "Close() did not return within 5 s")
			return
		}
	}
	w.closeCalled = true
	mu.Lock()
	if len(panics) > 0 {
		w.fail("no-panic", "Close() panicked: "+strings.Join(panics, "; "))
	}
	mu.Unlock()
	if w.inHold || !check {
		return
	}
	w.afterClose()
}

// afterClose: oracle close-unregisters.
func (w *c15WS) afterClose() {
	if !w.sync() {
		return
	}
	others := 0
	if w.hAttached {
		others = 1
	}
	if n := w.hub.VerifListenerCount(); n != others {
		w.fail("close-unregisters", fmt.Sprintf("after Close() and Sync() the hub has %d listener(s) registered, want %d (only the healthy one)", n, others))
	}
	before := w.R.VerifLen()
	if before >= w.R.VerifCap() {
		w.drain(1, true)
		before = w.R.VerifLen()
	}
	w.step("dispatch 1 message to mb%d; sync (must not reach the closed listener)", w.matchK())
	w.dispatch(w.matchK())
	if !w.sync() {
		return
	}
	if after := w.R.VerifLen(); after > before && w.n > 0 {
		w.fail("close-unregisters", fmt.Sprintf("a message dispatched after Close() and Sync() was still handed to the closed listener (queue %d -> %d)", before, after))
	}
}

// hold parks the hub goroutine (as a slow listener would); what is dispatched next stays queued.
func (w *c15WS) hold() func() {
	if w.blocked {
		return func() {}
	}
	entered, release := w.hub.VerifHold()
	select {
	case <-entered:
	case <-time.After(w.deadline):
		release()
		w.blocked = true
		w.fail("hub-never-blocked", "the hub goroutine did not pick up a queued operation")
		return func() {}
	}
	w.inHold = true
	w.step("(hub goroutine busy: the following are queued behind it)")
	return func() {
		w.step("(hub goroutine resumes); sync")
		release()
		w.inHold = false
		if !w.closeCalled {
			for ; w.pending > 0; w.pending-- {
				w.rAccept()
			}
		}
		w.pending = 0
		if w.closeCalled {
			w.afterClose()
		} else {
			w.sync()
		}
	}
}

// finish: final oracles, accounting, cleanup.
func (w *c15WS) finish() {
	defer w.cleanup()
	key := strings.Join(w.script, "\n")
	nontrivial := len(w.rExp) > 0 && (w.closeCalled || w.overflowed)
	w.c.Count(key, nontrivial)
	w.c.H("b:" + w.kind)
	if w.sync() {
		w.level("at the end")
		if w.overflowed && !w.closeCalled && w.R != nil {
			// the stalled listener must be gone, the healthy one untouched
			if n := w.hub.VerifListenerCount(); n != 1 {
				w.fail("slow-listener-dropped", fmt.Sprintf("the listener whose queue overflowed is still registered (%d listeners, want 1)", n))
			}
			w.c.H("b:overflowed")
		}
		// no-loss-before-drop: taken + still queued = a prefix of what R was to see
		if w.R != nil {
			w.drain(1<<30, false)
			ok := len(w.rGot) <= len(w.rExp) && len(w.rGot) >= w.rReq
			for i := 0; ok && i < len(w.rGot); i++ {
				ok = w.rGot[i] == w.rExp[i]
			}
			if !ok {
				w.fail("no-loss-before-drop", fmt.Sprintf("events handed to the websocket listener: %s; expected the first >= %d of: %s",
					c15Abbrev(w.rGot), w.rReq, c15Abbrev(w.rExp)))
			}
		}
		// others-see-everything
		if w.H != nil {
			_, got := w.H.snapshot()
			if strings.Join(got, ",") != strings.Join(w.hExp, ",") {
				w.fail("others-see-everything", fmt.Sprintf("healthy listener recorded %s; expected %s%s",
					c15Abbrev(got), c15Abbrev(w.hExp), c15FirstDiff(got, w.hExp)))
			}
		}
	}
}

func (w *c15WS) cleanup() {
	stop := make(chan struct{})
	if w.blocked && w.R != nil {
		// unblock the hub goroutine so that it can see the cancellation
		go func() {
			for {
				select {
				case <-stop:
					return
				default:
				}
				if _, ok, _ := w.R.VerifTryRecv(); !ok {
					time.Sleep(200 * time.Microsecond)
				}
			}
		}()
	}
	w.cancel()
	c15Sync(w.hub, 5*time.Second) // returns once the hub loop has stopped
	close(stop)
	if pl := c15PanicLines(w.logs.take()); len(pl) > 0 {
		w.fail("no-panic", fmt.Sprintf("hub.runOp recovered %d panic(s) (the rest of each such broadcast was abandoned); first: %s", len(pl), strings.TrimSpace(pl[0])))
	}
	for o := range w.failed {
		w.c.H("b:" + w.kind + " FAILED " + o)
	}
}

func c15Abbrev(l []string) string {
	if len(l) <= 12 {
		return fmt.Sprintf("[%s] (%d)", strings.Join(l, " "), len(l))
	}
	return fmt.Sprintf("[%s … %s] (%d)", strings.Join(l[:6], " "), strings.Join(l[len(l)-4:], " "), len(l))
}

func c15FirstDiff(a, b []string) string {
	for i := 0; i < len(a) || i < len(b); i++ {
		x, y := "(nothing)", "(nothing)"
		if i < len(a) {
			x = a[i]
		}
		if i < len(b) {
			y = b[i]
		}
		if x != y {
			return fmt.Sprintf("; first difference at position %d: got %s, expected %s", i, x, y)
		}
	}
	return ""
}

var c15Modes = []string{"once", "twice", "concurrently-x2"}

// c15Basics: the shortest scenario of each kind first (so that, should the tree be defective, the witnesses
// that are kept are the minimal ones).
func c15Basics(c *core.Ctx, logs *c15LogBuf) {
	for ver := 1; ver <= 2; ver++ {
		// the client stalls, one event more than the queue holds arrives
		w := c15NewWS(c, logs, "basic:overflow", 1, ver, "", true)
		w.attachBoth()
		w.step("the client stalls: nobody takes events from the queue")
		w.dispatchN(0, w.R.VerifCap()+1)
		w.dispatchN(0, 1)
		w.finish()
		// disconnect with one event still queued, traffic continues
		w = c15NewWS(c, logs, "basic:close-with-1-buffered", 1, ver, "", true)
		w.attachBoth()
		w.dispatchN(0, 1)
		w.closeR("once", true)
		w.dispatchN(0, w.R.VerifCap()+1)
		w.finish()
		// disconnect while events are on their way through the hub
		for _, fly := range []int{1, 5} {
			w = c15NewWS(c, logs, "basic:close-with-dispatch-in-flight", 1, ver, "", true)
			w.attachBoth()
			resume := w.hold()
			if !w.blocked {
				w.step("dispatch %d message(s) to mb0 (queued, not yet relayed)", fly)
				for i := 0; i < fly; i++ {
					w.dispatch(0)
				}
				w.closeR("once", true)
			}
			resume()
			w.finish()
		}
		// reader and writer goroutine both notice the disconnect
		for i := 0; i < 25; i++ {
			w = c15NewWS(c, logs, "basic:concurrent-close", 1, ver, "", true)
			w.attachBoth()
			w.closeR("concurrently-x2", true)
			w.finish()
		}
	}
}

// c15CloseAtEvery: {b events buffered} x {Close once | twice | concurrently} x {then 0 | 1 | cap+5 more} x {v1,v2} x {H before/after R}.
func c15CloseAtEvery(c *core.Ctx, logs *c15LogBuf) {
	idx := 0
	for _, bSel := range []int{0, 1, 2, 3, 4, 5, -2, -1} { // -2 = cap-1, -1 = cap
		for _, mode := range c15Modes {
			for _, after := range []int{0, 1, -1} { // -1 = cap+5
				for ver := 1; ver <= 2; ver++ {
					for _, hFirst := range []bool{true, false} {
						idx++
						n := []int{3, 1, 3, 5}[idx%4]
						filter := []string{"", "mb0"}[(idx/2)%2]
						w := c15NewWS(c, logs, "close-with-b-buffered", n, ver, filter, hFirst)
						pre := idx % 3
						if pre > 0 {
							w.step("dispatch %d message(s) to mb0 before anyone listens", pre)
							for i := 0; i < pre; i++ {
								w.dispatch(0)
							}
						}
						w.attachBoth()
						b := bSel
						if b < 0 {
							b = w.R.VerifCap() + 1 + bSel
						}
						if idx%5 == 0 {
							// some traffic the filter rejects / deletes, and a partial drain, before the interesting point
							w.dispatchN((w.matchK()+1)%3, 2)
							w.dispatchN(w.matchK(), 2)
							if len(w.msgs) > 0 {
								m := w.msgs[len(w.msgs)-1]
								w.delete(m.k, m.id)
								w.sync()
							}
							w.drain(1, true)
						}
						w.setBuffered(b)
						w.closeR(mode, true)
						more := after
						if more < 0 {
							more = w.R.VerifCap() + 5
						}
						w.dispatchN(w.matchK(), more)
						w.finish()
					}
				}
			}
		}
	}
}

// c15Overflow: the client stops reading; more than the queue holds arrives.
func c15Overflow(c *core.Ctx, logs *c15LogBuf) {
	idx := 0
	for _, bSel := range []int{0, 1, -2, -1} {
		for ver := 1; ver <= 2; ver++ {
			for _, hFirst := range []bool{true, false} {
				for _, then := range []string{"", "once", "concurrently-x2"} {
					idx++
					w := c15NewWS(c, logs, "overflow", []int{3, 1}[idx%2], ver, []string{"", "mb0"}[(idx/2)%2], hFirst)
					w.attachBoth()
					b := bSel
					if b < 0 {
						b = w.R.VerifCap() + 1 + bSel
					}
					w.setBuffered(b)
					w.step("the client stalls: nobody takes events from the queue any more")
					w.dispatchN(w.matchK(), w.R.VerifCap()-b+1) // exactly one more than fits
					w.dispatchN(w.matchK(), 4)
					if ver == 2 && len(w.msgs) > 0 {
						m := w.msgs[len(w.msgs)-1]
						w.delete(m.k, m.id)
						w.sync()
					}
					if then != "" {
						w.closeR(then, true)
						w.dispatchN(w.matchK(), 2)
					}
					w.finish()
				}
			}
		}
	}
}

// c15InFlight: Close() while dispatches are still queued in the hub (the hub goroutine being busy elsewhere).
func c15InFlight(c *core.Ctx, logs *c15LogBuf) {
	idx := 0
	for _, b := range []int{0, 1, 3} {
		for _, fly := range []int{1, 2, 5} {
			for _, mode := range c15Modes {
				for ver := 1; ver <= 2; ver++ {
					for _, hFirst := range []bool{true, false} {
						idx++
						w := c15NewWS(c, logs, "close-with-dispatch-in-flight", []int{3, 1}[idx%2], ver, []string{"", "mb0"}[(idx/2)%2], hFirst)
						w.attachBoth()
						w.setBuffered(b)
						w.level("before the hold")
						resume := w.hold()
						if !w.blocked {
							w.step("dispatch %d message(s) to mb%d (queued, not yet relayed)", fly, w.matchK())
							for i := 0; i < fly; i++ {
								w.dispatch(w.matchK())
							}
							if ver == 2 && idx%3 == 0 && len(w.msgs) > 0 {
								m := w.msgs[len(w.msgs)-1]
								w.delete(m.k, m.id)
							}
							w.closeR(mode, true)
						}
						resume()
						w.dispatchN(w.matchK(), idx%2)
						w.finish()
					}
				}
			}
		}
	}
}

// c15Races: no hold; the natural races.  (1) several goroutines call Close at once on an empty queue;
// (2) a burst is dispatched and Close follows without waiting for the hub.
func c15Races(c *core.Ctx, logs *c15LogBuf) {
	for i := 0; i < c.Scale(100, 2000); i++ {
		w := c15NewWS(c, logs, "close-storm", 3, 1+i%2, "", i%4 < 2)
		w.attachBoth()
		w.closeR("concurrently-x8", true)
		w.finish()
	}
	r := c.SubRng("ws-race")
	for i := 0; i < c.Scale(100, 2000); i++ {
		w := c15NewWS(c, logs, "burst-then-close-unsynced", 3, 1+i%2, []string{"", "mb0"}[(i/2)%2], i%4 < 2)
		w.attachBoth()
		burst := 1 + r.Intn(40)
		w.step("dispatch %d message(s) to mb%d WITHOUT waiting for the hub", burst, w.matchK())
		for j := 0; j < burst; j++ {
			w.dispatch(w.matchK())
		}
		// the hub is relaying concurrently: what of the burst reaches R before Close is not determined
		w.pendingAll()
		w.closeR(c15Modes[i%3], false)
		w.afterClose()
		w.finish()
	}
}

// pendingAll: the events accepted since the last sync are "in flight" (permitted, not required).
func (w *c15WS) pendingAll() {
	// undo the requirement for everything not yet known to have been relayed
	if w.R == nil {
		return
	}
	w.rReq = len(w.rGot) // conservative: only what was already taken is certainly there
	w.occ = w.R.VerifLen()
}

// c15Disabled: N = 0, the hub relays nothing; listeners still register and unregister.
func c15Disabled(c *core.Ctx, logs *c15LogBuf) {
	for ver := 1; ver <= 2; ver++ {
		for _, mode := range c15Modes {
			w := c15NewWS(c, logs, "hub-disabled(N=0)", 0, ver, "", ver == 1)
			w.attachBoth()
			w.dispatchN(0, 3)
			if w.R.VerifLen() != 0 {
				w.fail("no-loss-before-drop", "a disabled hub (N=0) relayed an event")
			}
			w.closeR(mode, true)
			w.dispatchN(0, 2)
			w.finish()
		}
	}
}

// c15RandomWS: random scripts over the same steps.
func c15RandomWS(c *core.Ctx, logs *c15LogBuf) {
	r := c.SubRng("ws-random")
	for i := 0; i < c.Scale(400, 12000); i++ {
		n := []int{0, 1, 3, 3, 3}[r.Intn(5)]
		w := c15NewWS(c, logs, "random-script", n, 1+r.Intn(2), []string{"", "mb0"}[r.Intn(2)], r.Intn(2) == 0)
		if k := r.Intn(4); k > 0 {
			w.step("dispatch %d message(s) before anyone listens", k)
			for j := 0; j < k; j++ {
				w.dispatch(r.Intn(3))
			}
		}
		w.attachBoth()
		steps := 3 + r.Intn(10)
		for s := 0; s < steps && !w.blocked; s++ {
			switch x := r.Intn(100); {
			case x < 35:
				w.dispatchN(r.Intn(3), 1+r.Intn(8))
			case x < 50:
				if len(w.msgs) > 0 && r.Intn(4) != 0 {
					m := w.msgs[r.Intn(len(w.msgs))]
					w.delete(m.k, m.id)
				} else {
					w.delete(r.Intn(3), 9000+r.Intn(3))
				}
				w.sync()
			case x < 68:
				w.drain(r.Intn(12), true)
			case x < 78:
				if !w.closeCalled {
					w.step("the client stalls")
					w.dispatchN(w.matchK(), w.R.VerifCap()-w.R.VerifLen()+1+r.Intn(6))
				}
			case x < 90:
				w.closeR(append(c15Modes, "concurrently-x8")[r.Intn(4)], true)
			default:
				resume := w.hold()
				if !w.blocked {
					k := 1 + r.Intn(4)
					w.step("dispatch %d message(s) (queued)", k)
					for j := 0; j < k; j++ {
						w.dispatch(r.Intn(3))
					}
					if r.Intn(2) == 0 {
						w.closeR(c15Modes[r.Intn(3)], true)
					}
				}
				resume()
			}
			w.level("after a step")
		}
		w.finish()
	}
}

func c15PartB(c *core.Ctx, logs *c15LogBuf) {
	logs.take()
	c15Basics(c, logs)
	c15CloseAtEvery(c, logs)
	c15Overflow(c, logs)
	c15InFlight(c, logs)
	c15Races(c, logs)
	c15Disabled(c, logs)
	c15RandomWS(c, logs)
}

func runC15(c *core.Ctx) {
	if c15UnderRaceDetector(c) {
		return // the child process did the work; its result (plus any race report) is now ours
	}
	c.Res.Rule = "a case is one scripted op sequence on one fresh hub; it is non-trivial when (part a, hub vs model) the history length is > 0 and at least one mock listener " +
		"recorded at least one event, or (part b, real websocket listeners) the websocket listener was due at least one event and was then closed or overrun; distinct by the text of the sequence"
	logs := &c15LogBuf{}
	log.Logger = zerolog.New(logs) // before any hub goroutine exists
	// main() disables logging globally; the hub reports a recovered panic at error level, and the no-panic oracles read it from `logs`
	zerolog.SetGlobalLevel(zerolog.ErrorLevel)
	defer zerolog.SetGlobalLevel(zerolog.Disabled)
	part := os.Getenv("VERIF_C15_PART")
	if part == "" || part == "a" {
		c15PartA(c, logs)
	}
	if part == "" || part == "b" {
		c15PartB(c, logs)
	}
	if part == "" || part == "c" {
		c15PartC(c)
	}
	if part == "" || part == "d" {
		c15PartD(c, logs)
	}
	if part == "" || part == "e" {
		c15PartE(c)
	}
	if part == "" || part == "f" {
		c15PartF(c)
	}
	if part != "" {
		c.Note("VERIF_C15_PART=%s: only that part was run", part)
	} else if f, ok := extra["C15"]; ok {
		f(c)
	}
}
