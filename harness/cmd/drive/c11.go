package main

// C11 — a crash at any point of a file-store update leaves every mailbox readable.
//
// The real file store is run with file.VerifStepHook recording every file-system mutation.  Three parts:
//   (i)   T3: per operation the hook trace must equal the model's program (`prog <op>`), the views after the
//         operation must equal the model's (`do <op>`);
//   (ii)  crash images: inside the hook (= before mutation j) the store directory is copied, a FRESH file.New
//         store is opened on the copy, implementation-only oracles are checked on it and its views are compared
//         with the model's `crash <op> at=j …`; further images are fabricated for partial writes, partial
//         RemoveAll and partial MkdirAll;
//   (iii) the codec hypothesis of the model (a proper prefix of an index decodes to an error or to a strict
//         prefix of the entries; the empty file is an error) is tried on the real encoding/gob for every prefix.

import (
	"bytes"
	"crypto/sha1"
	"encoding/hex"
	"fmt"
	"io"
	"math/rand"
	"net/mail"
	"os"
	"path/filepath"
	"sort"
	"strconv"
	"strings"
	"sync"
	"time"

	"github.com/inbucket/inbucket/v3/pkg/config"
	"github.com/inbucket/inbucket/v3/pkg/extension"
	"github.com/inbucket/inbucket/v3/pkg/extension/event"
	"github.com/inbucket/inbucket/v3/pkg/message"
	"github.com/inbucket/inbucket/v3/pkg/storage"
	"github.com/inbucket/inbucket/v3/pkg/storage/file"
	"github.com/inbucket/inbucket/v3/pkg/stringutil"

	"verif/harness/internal/core"
)

const c11Rule = "random histories of mutating operations (add ~55%, seen, rm, purge; ids that do not exist and already-seen ones included; 8..14 ops; " +
	"2-4 mailboxes from a pool with names sharing the level-1 and the level-2 directory; bodies empty / 1..300 bytes / a few 5..9 KiB; cap from {0,1,2,3}) on the REAL " +
	"file store with file.VerifStepHook recording every file-system mutation.  Per operation: the hook trace (copy-raw+flush-raw = one write-raw token, " +
	"flush-tmp = write-tmp, rmdir-parent by path depth) must equal the model's `prog`, the live views after it the model's `do`.  Per hook (= before mutation j) " +
	"the store directory is copied, a FRESH file.New store opened on the copy; fabricated images add: the raw truncated at {0,1,len/2,len-1} (and the real partial " +
	"file at flush-raw), index.gob.tmp truncated at {0,1,half,len-1}, RemoveAll having unlinked m=1..all files in a random order, MkdirAll having created only " +
	"mail/xxx or mail/xxx/xxxxxx, plus one image after the complete op.  On every image, implementation-only oracles: visit-no-error, lists-no-error, " +
	"untouched-unchanged, atomic (before | after | before minus its j oldest for j <= evictions of a capped delivery), full-content, accepts-mail; then the image's " +
	"views must equal the model's `crash <op> at=j [cut=n|sub=m]`.  One evaluation per image (key = history text so far + image label); non-trivial = taken strictly " +
	"inside an operation or fabricated.  Finally every proper prefix of real index.gob files is listed by a fresh store: error, or a strict prefix of the entries " +
	"(the model's codec hypothesis), anything else fails."

// ---------------------------------------------------------------- hook dispatch (package-global hook, one root per history)

var (
	c11Mu    sync.RWMutex
	c11Roots = map[string]*c11Hist{} // "<live store dir>/" -> history
)

func c11Dispatch(step, path string) {
	c11Mu.RLock()
	var h *c11Hist
	for root, x := range c11Roots {
		if strings.HasPrefix(path, root) {
			h = x
			break
		}
	}
	c11Mu.RUnlock()
	if h != nil {
		h.onStep(step, path)
	}
}

// ---------------------------------------------------------------- names

var (
	c11L2Once sync.Once
	c11L2Pair []string
)

// two names whose sha1 share the first 24 bits (same level-1 AND level-2 directory), found by birthday search
func c11SameL2() []string {
	c11L2Once.Do(func() {
		seen := map[string]string{}
		for i := 0; i < 200000; i++ {
			n := fmt.Sprintf("cb%d", i)
			x := sha1.Sum([]byte(n))
			k := hex.EncodeToString(x[:])[:6]
			if o, ok := seen[k]; ok {
				c11L2Pair = []string{o, n}
				return
			}
			seen[k] = n
		}
	})
	return c11L2Pair
}

func c11Names(r *rand.Rand) []string {
	l1 := append([]string{}, collidePool()...)
	l2 := append([]string{}, c11SameL2()...)
	others := []string{"bob", "user@example.com", "We!rd#$%&'*=/?^_`{|}~", "[1.2.3.4]", "", "x.y", "UPPER"}
	r.Shuffle(len(l1), func(i, j int) { l1[i], l1[j] = l1[j], l1[i] })
	r.Shuffle(len(others), func(i, j int) { others[i], others[j] = others[j], others[i] })
	var res []string
	switch r.Intn(5) {
	case 0:
		res = storeNames(r)
	case 1:
		res = append(res, l1[:2+r.Intn(2)]...)
		res = append(res, others[:r.Intn(2)]...)
	case 2:
		res = append(res, l2...)
		res = append(res, others[:r.Intn(3)]...)
	case 3:
		res = append(res, l2...)
		res = append(res, l1[0])
		res = append(res, others[:r.Intn(2)]...)
	default:
		res = append(res, others[:2+r.Intn(2)]...)
		res = append(res, l1[0])
	}
	if len(res) < 2 {
		res = append(res, others[len(others)-1])
	}
	r.Shuffle(len(res), func(i, j int) { res[i], res[j] = res[j], res[i] })
	return res
}

func c11Body(r *rand.Rand) []byte {
	n := 0
	switch x := r.Intn(100); {
	case x < 10:
		n = 0
	case x < 18:
		n = 1 + r.Intn(3)
	case x < 80:
		n = 4 + r.Intn(297)
	case x < 90:
		n = 300 + r.Intn(1200)
	default:
		n = 5*1024 + r.Intn(4*1024)
	}
	b := make([]byte, n)
	for i := range b {
		switch r.Intn(12) {
		case 0:
			b[i] = '\n'
		case 1:
			b[i] = byte(r.Intn(256))
		default:
			b[i] = byte('a' + r.Intn(26))
		}
	}
	return b
}

func c11History(r *rand.Rand, names []string, nOps int) []storeOp {
	ops := []storeOp{}
	adds := map[string]int{}
	date := int64(1700000000)
	for len(ops) < nOps {
		box := names[r.Intn(len(names))]
		pickID := func() int {
			n := adds[box]
			if n == 0 || r.Intn(7) == 0 {
				return 9000 + r.Intn(5) // never allocated
			}
			return 1 + r.Intn(n)
		}
		x := r.Intn(100)
		switch {
		case x < 55:
			date += int64(r.Intn(100))
			to := make([]string, r.Intn(3))
			for i := range to {
				to[i] = fmt.Sprintf("rcpt%d@dest.org", r.Intn(9))
			}
			adds[box]++
			ops = append(ops, storeOp{kind: "add", box: box, id: adds[box], body: c11Body(r), from: fmt.Sprintf("s%d@src.net", r.Intn(5)), to: to,
				subj: fmt.Sprintf("subj %d é", r.Intn(1000)), date: date})
		case x < 70:
			ops = append(ops, storeOp{kind: "seen", box: box, id: pickID()})
		case x < 88:
			ops = append(ops, storeOp{kind: "rm", box: box, id: pickID()})
		default:
			ops = append(ops, storeOp{kind: "purge", box: box})
		}
	}
	return ops
}

// model syntax of an operation (ids are ranks)
func c11Line(o storeOp) string {
	hb := core.HexS(o.box)
	switch o.kind {
	case "add":
		return fmt.Sprintf("add %s %d %s from=%s to=%s subj=%s date=%d", hb, o.id, core.Hex(o.body), core.HexS(o.from), core.HexList(o.to), core.HexS(o.subj), o.date)
	case "seen", "rm":
		return fmt.Sprintf("%s %s %d", o.kind, hb, o.id)
	}
	return "purge " + hb
}

// ---------------------------------------------------------------- canonical encoding of what a store lists

type c11Enc struct {
	ranks  map[string]map[string]int // box -> real id -> rank
	bodies map[string]map[int][]byte // box -> rank -> delivered body
}

func newC11Enc() *c11Enc {
	return &c11Enc{ranks: map[string]map[string]int{}, bodies: map[string]map[int][]byte{}}
}

func (e *c11Enc) rank(box, id string) int {
	if r, ok := e.ranks[box][id]; ok {
		return r
	}
	return -1
}

func (e *c11Enc) realID(box string, rank int) string {
	for id, r := range e.ranks[box] {
		if r == rank {
			return id
		}
	}
	return fmt.Sprintf("20990101T000000-%04d", rank%10000)
}

// entry: rank/seen/size/from/to,to/subj/date/content ; problem != "" when the content is not the full delivered body
func (e *c11Enc) entry(box string, m storage.Message) (enc string, problem string) {
	rank := e.rank(box, m.ID())
	content := "!"
	if r, err := m.Source(); err != nil {
		problem = fmt.Sprintf("rank %d (id %s): Source() failed: %v", rank, m.ID(), err)
	} else {
		data, rerr := io.ReadAll(r)
		r.Close()
		content = core.Hex(data)
		want, known := e.bodies[box][rank]
		switch {
		case rerr != nil:
			problem = fmt.Sprintf("rank %d: reading Source(): %v", rank, rerr)
		case int64(len(data)) != m.Size():
			problem = fmt.Sprintf("rank %d: Source() yields %d bytes, Size() says %d", rank, len(data), m.Size())
		case !known:
			problem = fmt.Sprintf("listed id %s was never delivered to this mailbox", m.ID())
		case !bytes.Equal(data, want):
			problem = fmt.Sprintf("rank %d: content differs from the %d delivered bytes (got %d bytes)", rank, len(want), len(data))
		}
	}
	from := ""
	if m.From() != nil {
		from = m.From().Address
	}
	tos := []string{}
	for _, t := range m.To() {
		tos = append(tos, core.HexS(t.Address))
	}
	seen := 0
	if m.Seen() {
		seen = 1
	}
	return fmt.Sprintf("%d/%d/%d/%s/%s/%s/%d/%s", rank, seen, m.Size(), core.HexS(from), strings.Join(tos, ","), core.HexS(m.Subject()), m.Date().Unix(), content), problem
}

// list one mailbox: entries, or err; problems = full-content violations
func (e *c11Enc) list(st storage.Store, box string) (entries []string, problems []string, err error) {
	defer func() {
		if r := recover(); r != nil {
			err = fmt.Errorf("panic: %v", r)
		}
	}()
	ms, err := st.GetMessages(box)
	if err != nil {
		return nil, nil, err
	}
	entries = make([]string, 0, len(ms))
	for _, m := range ms {
		s, p := e.entry(box, m)
		entries = append(entries, s)
		if p != "" {
			problems = append(problems, p)
		}
	}
	return entries, problems, nil
}

func c11View(entries []string, err error) string {
	if err != nil {
		return "ERR"
	}
	return "[" + strings.Join(entries, "|") + "]"
}

// ---------------------------------------------------------------- one history

type c11Pending struct {
	label string
	view  string // the op's mailbox as the image lists it
}

type c11Op struct {
	idx         int
	op          storeOp
	line        string
	modelToks   []string
	implToks    []string
	traceBad    bool
	writeRawIdx int
	writeTmpIdx int
	pending     []c11Pending
}

type c11Hist struct {
	*c11Enc
	c       *core.Ctx
	m       *core.Model
	r       *rand.Rand
	hidx    int
	cap     int
	names   []string
	root    string // live store directory
	imgBase string
	st      storage.Store
	trace   []string          // cfg, box…, ops so far (model syntax)
	before  map[string]string // live view of every mailbox before the current op
	cur     *c11Op
	imgSeq  int
	images  int
	dead    bool
	noModel bool // after a model/implementation divergence: the oracles go on alone, the model is no longer asked
}

func c11Store(dir string, cap int) (storage.Store, error) {
	return file.New(config.Storage{MailboxMsgCap: cap, Params: map[string]string{"path": dir}}, extension.NewHost())
}

func (h *c11Hist) caseLines(extra ...string) []string {
	l := append([]string{}, h.trace...)
	return append(l, extra...)
}

func (h *c11Hist) delivery(box string, body []byte, from string, to []string, subj string, date int64) *message.Delivery {
	tos := make([]*mail.Address, len(to))
	for i, t := range to {
		tos[i] = &mail.Address{Address: t}
	}
	return &message.Delivery{Meta: event.MessageMetadata{Mailbox: box, From: &mail.Address{Address: from}, To: tos,
		Date: time.Unix(date, 0), Subject: subj}, Reader: bytes.NewReader(body)}
}

func (h *c11Hist) applyReal(o storeOp) (out string) {
	defer func() {
		if r := recover(); r != nil {
			out = fmt.Sprintf("panic:%v", r)
		}
	}()
	switch o.kind {
	case "add":
		id, err := h.st.AddMessage(h.delivery(o.box, o.body, o.from, o.to, o.subj, o.date))
		if err != nil {
			return errClass(err)
		}
		if h.rank(o.box, id) != o.id {
			return fmt.Sprintf("id-not-seen-at-create-raw:%s", id)
		}
		return "ok"
	}
	// mutations reach the store directly (POP3, retention) or through the message manager (REST, web UI, Go client): every other
	// operation of a history takes the manager's route, so its crash points are those of the manager-level operation
	var via interface {
		MarkSeen(mailbox, id string) error
		RemoveMessage(mailbox, id string) error
		PurgeMessages(mailbox string) error
	} = h.st
	if len(h.trace)%2 == 1 {
		via = &message.StoreManager{Store: h.st}
	}
	switch o.kind {
	case "seen":
		return errClass(via.MarkSeen(o.box, h.realID(o.box, o.id)))
	case "rm":
		return errClass(via.RemoveMessage(o.box, h.realID(o.box, o.id)))
	case "purge":
		return errClass(via.PurgeMessages(o.box))
	}
	return "bad-op"
}

// liveViews lists every declared mailbox of the live store.
func (h *c11Hist) liveViews() (per map[string]string, all string) {
	per = map[string]string{}
	parts := make([]string, len(h.names))
	for i, b := range h.names {
		ents, _, err := h.list(h.st, b)
		per[b] = c11View(ents, err)
		parts[i] = core.HexS(b) + "=" + per[b]
	}
	return per, strings.Join(parts, " ")
}

func c11CopyTree(src, dst string) error {
	if err := os.MkdirAll(dst, 0o770); err != nil {
		return err
	}
	ents, err := os.ReadDir(src)
	if err != nil {
		return err
	}
	for _, e := range ents {
		s, d := filepath.Join(src, e.Name()), filepath.Join(dst, e.Name())
		if e.IsDir() {
			if err := c11CopyTree(s, d); err != nil {
				return err
			}
			continue
		}
		data, err := os.ReadFile(s)
		if err != nil {
			return err
		}
		if err := os.WriteFile(d, data, 0o660); err != nil {
			return err
		}
	}
	return nil
}

// image: copy the live store, apply prep to the copy, open a fresh store, run the oracles, compare with the model.
//
//	kind   histogram bucket of the image kind;  hook = hook name it was taken in
//	query  suffix of the model's crash query ("at=3 cut=7"), "" = no model comparison
func (h *c11Hist) image(kind, hook, label, query string, inside bool, prep func(img string) error) {
	o := h.cur
	c := h.c
	h.imgSeq++
	img := filepath.Join(h.imgBase, fmt.Sprintf("img%d", h.imgSeq))
	defer os.RemoveAll(img)
	if err := c11CopyTree(h.root, img); err != nil {
		c.Note("C11 harness: copying the store failed: %v", err)
		h.dead = true
		return
	}
	if prep != nil {
		if err := prep(img); err != nil {
			c.Note("C11 harness: preparing image %s failed: %v", label, err)
			return
		}
	}
	h.images++
	mark := "--> image " + label + " (" + kind + ")"
	c.Count(strings.Join(h.trace, "\n")+"\n"+label, inside)
	c.H("image:" + kind)
	c.H("hook:" + hook)
	c.H("image-in-op:" + o.op.kind)
	c.H(fmt.Sprintf("image-cap:%d", h.cap))

	st, err := c11Store(img, h.cap)
	if err != nil {
		c.Fail("visit-no-error", h.caseLines(mark), "file.New on the image failed: "+err.Error(), "")
		return
	}
	// ---- oracle: VisitMailboxes
	func() {
		defer func() {
			if r := recover(); r != nil {
				c.Fail("visit-no-error", h.caseLines(mark), fmt.Sprintf("VisitMailboxes panicked: %v", r), "")
			}
		}()
		if err := st.VisitMailboxes(func([]storage.Message) bool { return true }); err != nil {
			c.Fail("visit-no-error", h.caseLines(mark), "VisitMailboxes: "+err.Error(), "")
		}
	}()
	// ---- oracles: lists-no-error, full-content, untouched-unchanged; atomic is decided after the op
	parts := make([]string, len(h.names))
	preIDs := map[string]bool{}
	for i, b := range h.names {
		ents, problems, err := h.list(st, b)
		v := c11View(ents, err)
		parts[i] = core.HexS(b) + "=" + v
		if err != nil {
			c.Fail("lists-no-error", h.caseLines(mark), fmt.Sprintf("GetMessages(%q): %v", b, err), "")
		}
		for _, p := range problems {
			c.Fail("full-content", h.caseLines(mark), fmt.Sprintf("mailbox %q: %s", b, p), "")
		}
		if b != o.op.box {
			if v != h.before[b] {
				c.Fail("untouched-unchanged", h.caseLines(mark), fmt.Sprintf("mailbox %q (not the operation's) lists %s, before the operation %s", b, c11Short(v), c11Short(h.before[b])), "")
			}
		} else {
			o.pending = append(o.pending, c11Pending{label: mark, view: v})
			if err == nil {
				if ms, e2 := st.GetMessages(b); e2 == nil {
					for _, m := range ms {
						preIDs[m.ID()] = true
					}
				}
			}
		}
	}
	views := strings.Join(parts, " ")
	// ---- correspondence with the model's crash state
	if query != "" && !o.traceBad {
		q := "crash " + o.line + " " + query
		ans := h.m.Ask(q)
		c.Compared(1)
		if ans != views {
			c.Diverge("crash-image-view", h.caseLines(mark, q), views, ans)
		}
	}
	// ---- oracle: the store accepts new mail for the operation's mailbox
	func() {
		defer func() {
			if r := recover(); r != nil {
				c.Fail("accepts-mail", h.caseLines(mark), fmt.Sprintf("panic: %v", r), "")
			}
		}()
		probe := []byte(fmt.Sprintf("probe after crash %d\r\n\r\nbody\n", h.imgSeq))
		id, err := st.AddMessage(h.delivery(o.op.box, probe, "probe@src.net", []string{"p@dest.org"}, "probe", 1800000000))
		if err != nil {
			c.Fail("accepts-mail", h.caseLines(mark), "AddMessage on the recovered store: "+err.Error(), "")
			return
		}
		if preIDs[id] {
			c.H("accepts-mail:id-collision-skipped") // the id generator wrapped within one second; not the store's fault here
			return
		}
		ms, err := st.GetMessages(o.op.box)
		if err != nil {
			c.Fail("accepts-mail", h.caseLines(mark), "GetMessages after the delivery: "+err.Error(), "")
			return
		}
		if len(ms) == 0 || ms[len(ms)-1].ID() != id {
			c.Fail("accepts-mail", h.caseLines(mark), fmt.Sprintf("the new message %s is not listed last (%d listed)", id, len(ms)), "")
			return
		}
		last := ms[len(ms)-1]
		rd, err := last.Source()
		if err != nil {
			c.Fail("accepts-mail", h.caseLines(mark), "Source() of the new message: "+err.Error(), "")
			return
		}
		data, _ := io.ReadAll(rd)
		rd.Close()
		if !bytes.Equal(data, probe) || last.Size() != int64(len(probe)) {
			c.Fail("accepts-mail", h.caseLines(mark), fmt.Sprintf("the new message has %d bytes (Size %d), delivered %d", len(data), last.Size(), len(probe)), "")
		}
	}()
	if h.hidx < 2 && h.imgSeq%17 == 3 {
		c.Sample(map[string]interface{}{"history": h.hidx, "cap": h.cap, "op": c11Short(o.line), "image": label, "kind": kind, "query": query, "views": c11Short(views)})
	}
}

func c11Short(s string) string {
	if len(s) > 300 {
		return s[:300] + fmt.Sprintf("…(%d bytes)", len(s))
	}
	return s
}

func c11Cuts(n int) []int {
	res := []int{}
	seen := map[int]bool{}
	for _, x := range []int{0, 1, n / 2, n - 1} {
		if x < 0 || x > n || (x == n && n > 0) || seen[x] {
			continue
		}
		seen[x] = true
		res = append(res, x)
	}
	return res
}

// onStep: the hook — called immediately BEFORE the mutation `step` on `path`.
func (h *c11Hist) onStep(step, path string) {
	o := h.cur
	if o == nil || h.dead {
		return
	}
	box := o.op.box
	idOf := func() string { return strings.TrimSuffix(filepath.Base(path), ".raw") }
	tok := ""
	switch step {
	case "mkdirall", "create-tmp", "close-tmp", "rename", "unlink-index", "removeall":
		tok = step
	case "flush-tmp":
		tok = "write-tmp"
	case "create-raw":
		id := idOf()
		if h.ranks[box] == nil {
			h.ranks[box] = map[string]int{}
		}
		if _, dup := h.ranks[box][id]; dup {
			h.c.Note("C11 harness: the id generator handed out %s twice for one mailbox; history %d abandoned", id, h.hidx)
			h.dead = true
			return
		}
		h.ranks[box][id] = o.op.id
		tok = fmt.Sprintf("create-raw:%d", o.op.id)
	case "copy-raw":
		tok = fmt.Sprintf("write-raw:%d", h.rank(box, idOf()))
	case "flush-raw":
		tok = "" // second half of write-raw
	case "close-raw":
		tok = fmt.Sprintf("close-raw:%d", h.rank(box, idOf()))
	case "unlink-raw":
		tok = fmt.Sprintf("unlink-raw:%d", h.rank(box, idOf()))
	case "rmdir-parent":
		rel, _ := filepath.Rel(h.root, path)
		tok = fmt.Sprintf("rmdir-parent:%d", len(strings.Split(filepath.ToSlash(rel), "/"))-1) // mail/xxx -> 1, mail/xxx/xxxxxx -> 2
	default:
		tok = "unknown-hook:" + step
	}
	j := len(o.implToks)
	if tok != "" {
		if j >= len(o.modelToks) || o.modelToks[j] != tok {
			o.traceBad = true // reported with the complete traces after the op
		}
	}
	rel := func(img string) string {
		r, _ := filepath.Rel(h.root, path)
		return filepath.Join(img, r)
	}
	lab := func(s string) string { return fmt.Sprintf("op%d:%s@%d%s", o.idx, step, j, s) }
	switch step {
	case "flush-raw":
		size := int64(-1)
		if fi, err := os.Stat(path); err == nil {
			size = fi.Size()
		}
		h.image("raw-partial", step, lab(fmt.Sprintf(":size=%d", size)), fmt.Sprintf("at=%d cut=%d", o.writeRawIdx, size), true, nil)
	default:
		h.image("hook", step, lab(""), fmt.Sprintf("at=%d", j), j > 0, nil)
	}
	// ---- fabricated images
	switch step {
	case "close-raw":
		if fi, err := os.Stat(path); err == nil {
			for _, n := range c11Cuts(int(fi.Size())) {
				n := n
				h.image("raw-cut", step, lab(fmt.Sprintf(":cut=%d/%d", n, fi.Size())), fmt.Sprintf("at=%d cut=%d", o.writeRawIdx, n), true,
					func(img string) error { return os.Truncate(rel(img), int64(n)) })
			}
		}
	case "close-tmp":
		if fi, err := os.Stat(path); err == nil {
			for _, n := range c11Cuts(int(fi.Size())) {
				n := n
				h.image("tmp-cut", step, lab(fmt.Sprintf(":cut=%d/%d", n, fi.Size())), fmt.Sprintf("at=%d cut=%d", o.writeTmpIdx, n), true,
					func(img string) error { return os.Truncate(rel(img), int64(n)) })
			}
		}
	case "removeall":
		if ents, err := os.ReadDir(path); err == nil && len(ents) > 0 {
			names := []string{}
			for _, e := range ents {
				names = append(names, e.Name())
			}
			sort.Strings(names)
			h.r.Shuffle(len(names), func(a, b int) { names[a], names[b] = names[b], names[a] })
			for m := 1; m <= len(names); m++ {
				m := m
				h.image("removeall-sub", step, lab(fmt.Sprintf(":sub=%d/%d", m, len(names))), fmt.Sprintf("at=%d sub=%d", j, m), true,
					func(img string) error {
						for _, n := range names[:m] {
							if err := os.Remove(filepath.Join(rel(img), n)); err != nil {
								return err
							}
						}
						return nil
					})
			}
		}
	case "mkdirall":
		l2 := filepath.Dir(path)
		l1 := filepath.Dir(l2)
		r1, _ := filepath.Rel(h.root, l1)
		r2, _ := filepath.Rel(h.root, l2)
		_, e1 := os.Stat(l1)
		_, e2 := os.Stat(l2)
		if e1 != nil {
			h.image("mkdir-partial", step, lab(":level1-only"), fmt.Sprintf("at=%d", j), true,
				func(img string) error { return os.Mkdir(filepath.Join(img, r1), 0o770) })
		}
		if e2 != nil {
			h.image("mkdir-partial", step, lab(":level2-only"), fmt.Sprintf("at=%d", j), true,
				func(img string) error { return os.MkdirAll(filepath.Join(img, r2), 0o770) })
		}
	}
	if tok != "" {
		if strings.HasPrefix(tok, "write-raw") {
			o.writeRawIdx = j
		}
		if tok == "write-tmp" {
			o.writeTmpIdx = j
		}
		o.implToks = append(o.implToks, tok)
	}
}

// the atomic oracle, once the operation has completed
func (h *c11Hist) checkAtomic(o *c11Op, after string) {
	before := h.before[o.op.box]
	ok := map[string]bool{before: true, after: true}
	if o.op.kind == "add" && strings.HasPrefix(before, "[") && strings.HasPrefix(after, "[") {
		split := func(v string) []string {
			v = strings.TrimSuffix(strings.TrimPrefix(v, "["), "]")
			if v == "" {
				return nil
			}
			return strings.Split(v, "|")
		}
		b, a := split(before), split(after)
		evictions := len(b) + 1 - len(a)
		for j := 1; j <= evictions && j <= len(b); j++ {
			ok["["+strings.Join(b[j:], "|")+"]"] = true
		}
		if evictions > 0 {
			h.c.H("op:add-evicting")
		}
	}
	for _, p := range o.pending {
		if !ok[p.view] {
			h.c.Fail("atomic", h.caseLines(p.label), fmt.Sprintf("mailbox %q lists %s ; before the operation %s ; after it %s", o.op.box, c11Short(p.view), c11Short(before), c11Short(after)), "")
		}
	}
}

func runC11History(c *core.Ctx, m *core.Model, hidx int) (images int) {
	r := c.SubRng(fmt.Sprintf("c11-h%d", hidx))
	h := &c11Hist{c11Enc: newC11Enc(), c: c, m: m, r: r, hidx: hidx}
	h.cap = []int{0, 1, 2, 3}[r.Intn(4)]
	h.names = c11Names(r)
	ops := c11History(r, h.names, 8+r.Intn(7))
	h.root = filepath.Join(c.Workdir, fmt.Sprintf("c11-%d-%d", c.Seed, hidx), "live")
	h.imgBase = filepath.Join(c.Workdir, fmt.Sprintf("c11-%d-%d", c.Seed, hidx), "images")
	os.MkdirAll(h.root, 0o755)
	os.MkdirAll(h.imgBase, 0o755)
	defer os.RemoveAll(filepath.Dir(h.root))
	var err error
	if h.st, err = c11Store(h.root, h.cap); err != nil {
		c.Note("C11 harness: file.New failed: %v", err)
		return 0
	}
	key := h.root + string(filepath.Separator)
	c11Mu.Lock()
	c11Roots[key] = h
	c11Mu.Unlock()
	defer func() {
		c11Mu.Lock()
		delete(c11Roots, key)
		c11Mu.Unlock()
	}()

	setup := []string{fmt.Sprintf("cfg cap=%d variant=safe", h.cap)}
	for _, b := range h.names {
		hash := stringutil.HashMailboxName(b)
		l1, _ := strconv.ParseUint(hash[:3], 16, 64)
		l2, _ := strconv.ParseUint(hash[:6], 16, 64)
		setup = append(setup, fmt.Sprintf("box %s l1=%d l2=%d", core.HexS(b), l1, l2))
	}
	for _, l := range setup {
		h.trace = append(h.trace, l)
		if a := m.Ask(l); a != "ok" {
			c.Diverge("crash-driver", h.caseLines(), "ok", a)
			return 0
		}
	}
	c.H("histories")
	c.H(fmt.Sprintf("history-cap:%d", h.cap))
	h.before, _ = h.liveViews()
	for i, op := range ops {
		o := &c11Op{idx: i, op: op, line: c11Line(op), writeRawIdx: -1, writeTmpIdx: -1}
		h.trace = append(h.trace, o.line)
		c.H("op:" + op.kind)
		if op.kind == "add" {
			if h.bodies[op.box] == nil {
				h.bodies[op.box] = map[int][]byte{}
			}
			h.bodies[op.box][op.id] = op.body
		}
		if h.noModel {
			o.traceBad = true
		} else {
			pa := m.Ask("prog " + o.line)
			if !strings.HasPrefix(pa, "trace:") {
				c.Diverge("crash-driver", h.caseLines("prog "+o.line), "trace:…", pa)
				return h.images
			}
			o.modelToks = strings.Fields(strings.TrimPrefix(pa, "trace:"))
		}
		h.cur = o
		res := h.applyReal(op)
		if h.dead {
			h.cur = nil
			return h.images
		}
		// one more image: the complete operation, seen by a fresh store
		h.image("end", "end", fmt.Sprintf("op%d:end@%d", i, len(o.implToks)), fmt.Sprintf("at=%d", len(o.implToks)), false, nil)
		h.cur = nil
		if strings.HasPrefix(res, "panic") || strings.HasPrefix(res, "other:") || strings.HasPrefix(res, "id-not") || (res == "notExist" && (op.kind == "add" || op.kind == "purge")) {
			c.Fail("live-op-succeeds", h.caseLines(), "the operation on the healthy live store answered "+res, "")
			return h.images
		}
		c.H("result:" + op.kind + ":" + res)
		// ---- T3: step trace
		it, mt := strings.Join(o.implToks, " "), strings.Join(o.modelToks, " ")
		if !h.noModel {
			c.Compared(1)
			if it != mt {
				c.Diverge("t3-step-trace", h.caseLines("--> hook trace of the last operation"), it, mt)
				h.noModel = true
			}
		}
		if len(o.implToks) == 0 {
			c.H("trace:empty")
		}
		for _, t := range o.implToks {
			if k := strings.Index(t, ":"); k >= 0 && !strings.HasPrefix(t, "rmdir-parent") {
				t = t[:k]
			}
			c.H("token:" + t)
		}
		// ---- views after the complete operation
		per, all := h.liveViews()
		if !h.noModel {
			ma := m.Ask("do " + o.line)
			c.Compared(1)
			if ma != all {
				c.Diverge("views-after-op", h.caseLines("--> views of all mailboxes after the last operation"), all, ma)
				h.noModel = true
			}
		}
		h.checkAtomic(o, per[op.box])
		h.before = per
		if h.dead {
			return h.images
		}
	}
	if hidx < 3 {
		short := []string{}
		for _, l := range h.trace {
			short = append(short, c11Short(l))
		}
		c.Sample(map[string]interface{}{"history": hidx, "cap": h.cap, "mailboxes": h.names, "lines": short, "images": h.images})
	}
	return h.images
}

// ---------------------------------------------------------------- (iii) the codec hypothesis on the real encoding/gob

func runC11Gob(c *core.Ctx) {
	r := c.SubRng("c11-gob")
	boxes := []struct {
		name string
		n    int
	}{{"alpha", 3}, {"We!rd#$%&'*=/?^_`{|}~", 4}, {"", 4}}
	for bi, bx := range boxes {
		base := filepath.Join(c.Workdir, fmt.Sprintf("c11-gob-%d-%d", c.Seed, bi))
		live, img := filepath.Join(base, "live"), filepath.Join(base, "img")
		os.MkdirAll(live, 0o755)
		func() {
			defer os.RemoveAll(base)
			e := newC11Enc()
			e.ranks[bx.name] = map[string]int{}
			e.bodies[bx.name] = map[int][]byte{}
			st, err := c11Store(live, 0)
			if err != nil {
				c.Note("C11 gob: file.New: %v", err)
				return
			}
			h := &c11Hist{c11Enc: e}
			caseLines := []string{fmt.Sprintf("mailbox %q (hex %s), cap 0", bx.name, core.HexS(bx.name))}
			for k := 1; k <= bx.n; k++ {
				body := c11Body(r)
				if k == 2 {
					body = nil
				}
				to := make([]string, (k+bi)%3)
				for i := range to {
					to[i] = fmt.Sprintf("rcpt%d@dest.org", r.Intn(9))
				}
				subj := fmt.Sprintf("subject %d é %s", k, strings.Repeat("x", r.Intn(40)))
				id, err := st.AddMessage(h.delivery(bx.name, body, fmt.Sprintf("s%d@src.net", k), to, subj, 1700000000+int64(k)*37))
				if err != nil {
					c.Note("C11 gob: AddMessage: %v", err)
					return
				}
				e.ranks[bx.name][id] = k
				e.bodies[bx.name][k] = body
				caseLines = append(caseLines, c11Short(fmt.Sprintf("add %s %d %s to=%s subj=%s", core.HexS(bx.name), k, core.Hex(body), core.HexList(to), core.HexS(subj))))
				if k == 2 {
					if err := st.MarkSeen(bx.name, id); err != nil {
						c.Note("C11 gob: MarkSeen: %v", err)
					}
					caseLines = append(caseLines, fmt.Sprintf("seen %s %d", core.HexS(bx.name), k))
				}
			}
			realEnts, _, err := e.list(st, bx.name)
			if err != nil || len(realEnts) != bx.n {
				c.Note("C11 gob: the live mailbox lists %d entries, err %v", len(realEnts), err)
				return
			}
			hash := stringutil.HashMailboxName(bx.name)
			relIdx := filepath.Join("mail", hash[:3], hash[:6], hash, "index.gob")
			full, err := os.ReadFile(filepath.Join(live, relIdx))
			if err != nil {
				c.Note("C11 gob: reading index.gob: %v", err)
				return
			}
			if err := c11CopyTree(live, img); err != nil {
				c.Note("C11 gob: copy: %v", err)
				return
			}
			nErr, nFewer := 0, 0
			fewerAt := []string{}
			for p := 0; p <= len(full); p++ {
				if err := os.WriteFile(filepath.Join(img, relIdx), full[:p], 0o660); err != nil {
					c.Note("C11 gob: write prefix: %v", err)
					return
				}
				is, err := c11Store(img, 0)
				if err != nil {
					c.Note("C11 gob: file.New on image: %v", err)
					return
				}
				ents, _, lerr := e.list(is, bx.name)
				cl := append(append([]string{}, caseLines...), fmt.Sprintf("--> index.gob cut to its first %d of %d bytes", p, len(full)))
				if p == len(full) {
					if lerr != nil || strings.Join(ents, "|") != strings.Join(realEnts, "|") {
						c.Fail("codec-hypothesis", cl, fmt.Sprintf("the complete index does not list the mailbox as the live store does (err %v)", lerr), "")
					}
					continue
				}
				switch {
				case lerr != nil:
					nErr++
					c.H("gob-prefix:error")
				case len(ents) < len(realEnts) && strings.Join(ents, "|") == strings.Join(realEnts[:len(ents)], "|"):
					if p == 0 {
						c.Fail("codec-hypothesis", cl, "the EMPTY index file lists without error", "")
					}
					nFewer++
					c.H("gob-prefix:fewer")
					fewerAt = append(fewerAt, fmt.Sprintf("%d(%d entries)", p, len(ents)))
				default:
					c.H("gob-prefix:other")
					c.Fail("codec-hypothesis", cl, fmt.Sprintf("a proper prefix of the index lists %d entries that are not a strict prefix of the %d real ones: %s", len(ents), len(realEnts), c11Short("["+strings.Join(ents, "|")+"]")), "")
				}
			}
			c.Note("gob-prefix: mailbox %q with %d messages, index.gob %d bytes: of the %d proper prefixes %d give an error, %d list fewer entries (a strict prefix), %d anything else; "+
				"'fewer' exactly at offsets %s (the gob message boundaries after the name); prefix 0 is an error",
				bx.name, bx.n, len(full), len(full), nErr, nFewer, len(full)-nErr-nFewer, strings.Join(fewerAt, " "))
		}()
	}
}

// ---------------------------------------------------------------- runner

func runC11(c *core.Ctx) {
	c.Res.Rule = c11Rule
	collidePool()
	c11SameL2()
	file.VerifStepHook = c11Dispatch
	defer func() { file.VerifStepHook = nil }()
	n := c.Scale(150, 3000)
	workers := 8
	var mu sync.Mutex
	total := 0
	core.Parallel(workers, workers, func(sh int) {
		m := c.NewModel("crash")
		defer m.Close()
		for i := sh; i < n; i += workers {
			k := runC11History(c, m, i)
			mu.Lock()
			total += k
			mu.Unlock()
		}
	})
	c.Note("C11: %d histories, %d crash images", n, total)
	runC11Gob(c)
	if f, ok := extra["C11"]; ok {
		f(c)
	}
}

func init() { register("C11", runC11) }
