package main

// C04 — mailbox naming is canonical.
//   T2: ExtractMailbox / NewRecipient / ParseEmailAddress / ValidateDomainPart / ParseOrigin vs Model.Addr, on
//   (i) every string up to the tier's length over a class-representative alphabet (exhaustive) and
//   (ii) grammar-generated addresses (quoted / escaped local parts, routes, IP literals, mixed case, '+', '.').
//   Impl-only oracles on every address NewRecipient accepts, in each naming mode: name non-empty; name is a fixed
//   point of ExtractMailbox; ExtractMailbox(address) = name; re-casing and adding/removing '+ext' keep the name.

import (
	"fmt"
	"math/rand"
	"net"
	"strings"

	"github.com/inbucket/inbucket/v3/pkg/config"
	"github.com/inbucket/inbucket/v3/pkg/policy"

	"verif/harness/internal/core"
)

func init() { register("C04", runC04) }

var namingModes = []struct {
	name string
	ap   *policy.Addressing
}{
	{"local", &policy.Addressing{Config: &config.Root{MailboxNaming: config.LocalNaming}}},
	{"full", &policy.Addressing{Config: &config.Root{MailboxNaming: config.FullNaming}}},
	{"domain", &policy.Addressing{Config: &config.Root{MailboxNaming: config.DomainNaming}}},
}

// ipTable: the net.ParseIP answers for every string the address code can ask about while handling a.
func ipTable(a string) string {
	cands := []string{a}
	for i := 0; i < len(a); i++ {
		if a[i] == '@' {
			cands = append(cands, a[i+1:])
		}
	}
	parts := []string{}
	seen := map[string]bool{}
	for _, d := range cands {
		ln := len(d)
		if ln >= 4 && d[0] == '[' && d[ln-1] == ']' {
			inner := d[1 : ln-1]
			if strings.HasPrefix(d[1:], "IPv6:") {
				inner = inner[5:]
			}
			if !seen[inner] {
				seen[inner] = true
				v := "0"
				if net.ParseIP(inner) != nil {
					v = "1"
				}
				parts = append(parts, core.HexS(inner)+":"+v)
			}
		}
	}
	if len(parts) == 0 {
		return "ip=-"
	}
	return "ip=" + strings.Join(parts, ",")
}

func okErr(s string, err error) string {
	if err != nil {
		return "err"
	}
	return "ok " + core.HexS(s)
}

func okErr2(a, b string, err error) string {
	if err != nil {
		return "err"
	}
	return "ok " + core.HexS(a) + " " + core.HexS(b)
}

type addrCase struct {
	a     string
	lines []string
	impl  []string
}

// evalAddr runs every exported entry point on a and returns the protocol lines with the implementation's answers.
func evalAddr(a string) addrCase {
	ac := addrCase{a: a}
	ip := "ip=model" // net.ParseIP is answered by the model's own parseIP (Ibx/Model/ParseIP.lean; tied by c04_parseip.go)
	h := core.HexS(a)
	add := func(line, impl string) {
		ac.lines = append(ac.lines, line)
		ac.impl = append(ac.impl, impl)
	}
	l, d, err := policy.ParseEmailAddress(a)
	if a != "" { // the exported parser; the model's parseOrigin covers "" separately
		add("addr.origin "+h+" "+ip, okErr2(l, d, err))
	}
	v := policy.ValidateDomainPart(a)
	add("addr.dom "+h+" "+ip, tf(v))
	for _, m := range namingModes {
		s, err := m.ap.ExtractMailbox(a)
		add("addr.extract "+m.name+" "+h+" "+ip, okErr(s, err))
		r, err := m.ap.NewRecipient(a)
		if err != nil {
			add("addr.rcpt "+m.name+" "+h+" "+ip, "err")
		} else {
			add("addr.rcpt "+m.name+" "+h+" "+ip, "ok "+core.HexS(r.LocalPart)+" "+core.HexS(r.Domain)+" "+core.HexS(r.Mailbox))
		}
	}
	return ac
}

// plusVariants: addresses that differ from a only by a '+extension' at the end of the (unquoted) local part.
func plusVariants(a string) []string {
	at := strings.LastIndex(a, "@")
	if at <= 0 {
		return nil
	}
	local, dom := a[:at], a[at:]
	if strings.ContainsAny(local, "\"\\") {
		return nil
	}
	res := []string{}
	if i := strings.Index(local, "+"); i > 0 {
		res = append(res, local[:i]+dom) // without the extension
		res = append(res, local[:i]+"+zz9"+dom)
	} else if i < 0 {
		res = append(res, local+"+ext"+dom, local+"+A.b"+dom)
	}
	return res
}

// c04Oracles: the property itself, on the implementation only.
func c04Oracles(c *core.Ctx, r *rand.Rand, a string) bool {
	accepted := false
	for _, m := range namingModes {
		rc, err := m.ap.NewRecipient(a)
		if err != nil {
			continue
		}
		accepted = true
		name := rc.Mailbox
		cas := []string{"mode=" + m.name, "address=" + fmt.Sprintf("%q", a), "name=" + fmt.Sprintf("%q", name)}
		if name == "" {
			c.Fail("name-nonempty", cas, "RCPT-acceptable address yields the empty mailbox name", "")
			continue
		}
		if again, err := m.ap.ExtractMailbox(name); err != nil || again != name {
			c.Fail("name-fixed-point", cas, fmt.Sprintf("ExtractMailbox(name) = %q, %v", again, err), "")
		}
		if byAddr, err := m.ap.ExtractMailbox(a); err != nil || byAddr != name {
			c.Fail("name-by-address", cas, fmt.Sprintf("ExtractMailbox(address) = %q, %v", byAddr, err), "")
		}
		for k := 0; k < 2; k++ {
			a2 := recase(r, a)
			if rc2, err := m.ap.NewRecipient(a2); err == nil && rc2.Mailbox != name {
				c.Fail("name-case-insensitive", append(cas, "recased="+fmt.Sprintf("%q", a2)), fmt.Sprintf("recased address names %q", rc2.Mailbox), "")
			}
		}
		for _, a2 := range plusVariants(a) {
			if rc2, err := m.ap.NewRecipient(a2); err == nil && rc2.Mailbox != name {
				c.Fail("name-plus-insensitive", append(cas, "variant="+fmt.Sprintf("%q", a2)), fmt.Sprintf("variant names %q", rc2.Mailbox), "")
			}
		}
	}
	return accepted
}

var atoms = []string{"a", "B", "user", "First.Last", "x1", "u_v", "a-b", "!#$%&'*/=?^_`{|}~", "Z"}
var quotedBits = []string{`"a b"`, `"."`, `".a"`, `"a."`, `"a..b"`, `"A@b"`, `"x>y"`, `"q\"r"`, `"+p"`}
var escBits = []string{`\.`, `\@`, `\ `, `\>`, `\A`, `\\`, `\"`, `\+`}
var domains = []string{"d.c", "Example.COM", "example.com.", "a-b.org", "x_y.net", "sub.Dom.co.uk", "[127.0.0.1]", "[1.2.3.4]",
	"[IPv6:2001:db8::1]", "[IPv6:ABCD::1]", "[ABCD::1]", "[ipv6:abcd::1]", "[IPv6:::]", "[::ffff:1.2.3.4]", "[300.1.1.1]", "-bad.com", "bad-.com", "a..b", "d", "D", "1.2", "_x"}

func genAddr(r *rand.Rand) string {
	var b strings.Builder
	if r.Intn(8) == 0 {
		b.WriteString([]string{"@host:", "@a.com,@b.com:", "@:", "@x"}[r.Intn(4)])
	}
	n := 1 + r.Intn(3)
	for i := 0; i < n; i++ {
		switch r.Intn(10) {
		case 0:
			if i == 0 {
				b.WriteString(quotedBits[r.Intn(len(quotedBits))])
			} else {
				b.WriteString(atoms[r.Intn(len(atoms))])
			}
		case 1:
			b.WriteString(escBits[r.Intn(len(escBits))])
		case 2:
			b.WriteString("+")
		case 3:
			b.WriteString(".")
		default:
			b.WriteString(atoms[r.Intn(len(atoms))])
		}
	}
	if r.Intn(4) == 0 {
		b.WriteString("+" + atoms[r.Intn(len(atoms))])
	}
	if r.Intn(12) != 0 {
		b.WriteString("@")
		b.WriteString(domains[r.Intn(len(domains))])
	}
	s := b.String()
	if r.Intn(30) == 0 { // over-long variants
		s = strings.Repeat("a", 120+r.Intn(20)) + s
	}
	if r.Intn(60) == 0 {
		s = s + "@" + strings.Repeat("l234567890.", 20+r.Intn(10)) + "com"
	}
	return s
}

func runC04(c *core.Ctx) {
	c.Res.Rule = "exhaustive: every string up to the tier's length over one representative byte per character class of the parsers; " +
		"grammar: addresses drawn from atoms / quoted strings / escapes / '+' / '.' / routes x domains (mixed case, trailing period, IP literals); " +
		"non-trivial = accepted by NewRecipient in at least one mode, or exercises quoting/escape/route/IP-literal syntax; distinct by address"
	alpha := []byte{'a', 'B', '1', '+', '.', '-', '_', '@', '"', '\\', ' ', '[', ']', ':', '/', '*', '>', 0x80, 0}
	maxLen := c.Scale(4, 5)
	// enumerate in shards by first byte
	workers := 14
	core.Parallel(len(alpha)+1, workers, func(sh int) {
		m := c.NewModel()
		defer m.Close()
		r := c.SubRng(fmt.Sprintf("c04-enum-%d", sh))
		var rec func(prefix []byte)
		batchL := []string{}
		batchI := []string{}
		flush := func() {
			if len(batchL) == 0 {
				return
			}
			outs := m.AskAll(batchL)
			for i := range outs {
				if outs[i] != batchI[i] {
					c.Diverge("addr", []string{batchL[i]}, batchI[i], outs[i])
				}
			}
			c.Compared(len(batchL))
			batchL, batchI = batchL[:0], batchI[:0]
		}
		visit := func(s string) {
			ac := evalAddr(s)
			batchL = append(batchL, ac.lines...)
			batchI = append(batchI, ac.impl...)
			acc := c04Oracles(c, r, s)
			c.Count("e|"+s, acc || strings.ContainsAny(s, "\"\\[@"))
			if acc {
				c.H("enum-accepted")
			}
			if len(batchL) > 4000 {
				flush()
			}
		}
		rec = func(prefix []byte) {
			visit(string(prefix))
			if len(prefix) >= maxLen {
				return
			}
			for _, ch := range alpha {
				rec(append(append([]byte{}, prefix...), ch))
			}
		}
		if sh == len(alpha) {
			visit("")
		} else {
			rec([]byte{alpha[sh]})
		}
		flush()
	})
	c.H(fmt.Sprintf("enum-exhaustive-len<=%d-over-%d-classes", maxLen, len(alpha)))
	// grammar
	n := c.Scale(40000, 600000)
	shards := 12
	core.Parallel(shards, shards, func(sh int) {
		m := c.NewModel()
		defer m.Close()
		r := c.SubRng(fmt.Sprintf("c04-gram-%d", sh))
		for i := 0; i < n/shards; i++ {
			a := genAddr(r)
			ac := evalAddr(a)
			outs := m.AskAll(ac.lines)
			for k := range outs {
				if outs[k] != ac.impl[k] {
					c.Diverge("addr", []string{ac.lines[k], "address=" + fmt.Sprintf("%q", a)}, ac.impl[k], outs[k])
				}
			}
			c.Compared(len(outs))
			acc := c04Oracles(c, r, a)
			c.Count("g|"+a, true)
			if acc {
				c.H("grammar-accepted")
			} else {
				c.H("grammar-rejected")
			}
			if sh == 0 && i < 6 {
				c.Sample(map[string]interface{}{"address": a, "lines": ac.lines, "impl": ac.impl})
			}
		}
	})
	if f, ok := extra["C04"]; ok {
		f(c)
	}
}
